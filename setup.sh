#!/bin/sh
# MANIFEST.setup_cmd: build the framework from files on disk only (offline).
set -e
cd "$(dirname "$0")"
export CARGO_NET_OFFLINE=true
mkdir -p work evidence
( cd lean && lake build AisVerif driver )
cp /repo/Cargo.lock harness/Cargo.lock
for cfg in std alloc noalloc; do
  feat=""
  [ "$cfg" != "noalloc" ] && feat="--features $cfg"
  ( cd harness && cargo build --offline --quiet $feat --target-dir target/$cfg ) &
done
( cd harness && cargo build --offline --quiet --features std --config profile.dev.opt-level=0 --target-dir target/std0 ) &
wait
cargo build --offline --quiet --manifest-path /repo/Cargo.toml --target-dir work/cli-target --bin aisparser
echo setup-ok

#!/bin/sh
# MANIFEST.setup_cmd: build the framework from files on disk only (offline).
set -e
cd "$(dirname "$0")"
export CARGO_NET_OFFLINE=true
mkdir -p work evidence
( cd lean && lake build AisVerif driver )
cp /repo/Cargo.lock harness/Cargo.lock
for cfg in std alloc noalloc; do
  feat=""
  [ "$cfg" != "noalloc" ] && feat="--features $cfg"
  ( cd harness && cargo build --offline --quiet $feat --target-dir target/$cfg ) &
done
( cd harness && cargo build --offline --quiet --features std --config profile.dev.opt-level=0 --target-dir target/std0 ) &
# the exploration targets (coverage-guided; auxiliary: the checks skip the stage when this build is unavailable)
( cd fuzz && RUSTFLAGS="-Cpasses=sancov-module -Cllvm-args=-sanitizer-coverage-level=4 -Cllvm-args=-sanitizer-coverage-trace-compares -Cllvm-args=-sanitizer-coverage-inline-8bit-counters -Cllvm-args=-sanitizer-coverage-pc-table -Cllvm-args=-sanitizer-coverage-trace-divs -Cllvm-args=-sanitizer-coverage-trace-geps --cfg fuzzing -Ccodegen-units=1" cargo +nightly build --offline --release --quiet --target x86_64-unknown-linux-gnu --target-dir target/fz || echo "exploration targets not built (stage will be skipped)" ) &
wait
cargo build --offline --quiet --manifest-path /repo/Cargo.toml --target-dir work/cli-target --bin aisparser
echo setup-ok

"""Writes /verif/MANIFEST.json from the table below (run: python3 -m vlib.manifest)."""
import json
import os

VERIF = os.path.dirname(os.path.dirname(os.path.abspath(__file__)))

NOTE_COMMON = ("Trusted: Lean 4.33 kernel (axioms audited per theorem on every run: only propext, Classical.choice, "
               "Quot.sound; no native_decide/bv_decide/sorry); the Spec layer as transcription of ITU-R M.1371-5/NMEA "
               "0183; the hand-written Lean model being the code, which this check tests by running model and "
               "implementation on the same operation stream (harness rebuilt from /repo's working tree); nom 7.1.3 / "
               "heapless 0.7.17 / core semantics as modelled (DESIGN.md section 8). Every line is also fed to a twin parser "
               "built with Default::default(); the private parser state read from {:?} is believed only after probing "
               "(DESIGN.md 11.6); an internal error of a judge is reported as a correspondence failure, never as a pass. Every check also "
               "runs the shared systematic stage (DESIGN.md 5.3c: parser-state classes x event classes x per-line decode flags, long "
               "gaps, groups beyond 2^16 bytes; payloads of 2^13+d / 2^14+d bytes for every type) and the coverage-guided exploration "
               "stage (5.3b), both judged on this property's projection, implementation vs model, in all three builds.")

# id -> (claimed?, level text, technique, design_ref, extra note)
PROPS = {
    "C01": ("Totality of AisParser::parse, messages::unarmor (fill 0-5) and messages::parse is a theorem about the "
            "three-valued model (ok/err/panic) for all inputs, states and configurations; the correspondence runs "
            "all three dev-profile builds (and a fourth, unoptimised std build for inputs that repeat one structural element "
            "tens of thousands of times) on random, structured and state-building inputs and fails on any panic or abort.",
            "Lean 4 theorems: step/unarmor/parseMessage never return panic; correspondence on 3 builds", "7/C01",
            "Not covered by any model: stack exhaustion, allocator abort, memory safety of unsafe push_unchecked and of dependencies."),
    "C02": ("Checksum gate proved on the model of parse_nmea_sentence + check_checksum (accepted => XOR of the bytes "
            "up to the first '*' equals the hex value after that '*'; mismatch => Checksum error with both values, "
            "state untouched); the implementation's own answers are checked against the statement's predicate.",
            "Lean 4 theorem over the sentence-grammar model; relational predicate on implementation answers", "7/C02", ""),
    "C03": ("unarmor refines the bit-level specification (6-bit unpacking, fill cleared) for every input by induction; "
            "implementation compared with model and with an independent Python transcription, exhaustively for short strings.",
            "Lean 4 refinement theorem by induction; exhaustive short-string correspondence", "7/C03", ""),
    "C04": ("For all 24 layouts/branches: messages::parse = Spec.decode (proved for every payload), and each integer/"
            "flag/identifier field equals field(bs, offset, width) at the ITU offsets listed in Spec.Layout (one rfl per row).",
            "Lean 4 refinement theorem parseMessage_eq + per-layout table theorems; one-hot bit walks in the correspondence", "7/C04", ""),
    "C05": ("In-order fragments reassemble to the unfragmented message: theorem over the model's step function for any "
            "initial state, with no-trace lines interleaved; implementation checked relationally (second parser gets the payload unfragmented).",
            "Lean 4 theorems by induction over the fragment list, also for histories in which every line carries its own decode flag "
            "(in_order_reassembly_flags); relational check on implementation histories", "7/C05", ""),
    "C06": ("The parser refines the abstract group automaton (Option of an open group) for every history; exhaustive short "
            "histories and random long ones compared with the automaton and with the model state.",
            "Lean 4 refinement/invariant by induction over histories; exhaustive bounded histories for the tie", "7/C06", ""),
    "C07": ("render/parse theorem: the sentence model returns exactly the transmitted fields; decode flag only adds the message.",
            "Lean 4 theorems over the sentence-grammar model (incl. result_depends_on_own_flag_only for per-line decode flags); "
            "field-by-field comparison with a reference reader", "7/C07", ""),
    "C08": ("Accepted language characterised: sentence-level acceptance of the model iff the Shape predicate of the statement.",
            "Lean 4 theorem (grammar inversion); single-point mutations and near-misses in the correspondence", "7/C08", ""),
    "C09": ("Spec.decode dispatches on field(bs,0,6): kind table, own type field, error for the 41 unsupported values, no panic - all proved; "
            "the per-type public decoders are the arms of the dispatch (parseAs_eq) and report the six bits they were given (parseAs_kind).",
            "Lean 4 theorems parse_kind / unsupported_err via parseMessage_eq; all 64 types x lengths in the correspondence", "7/C09", ""),
    "C10": ("Two's-complement reading and the scale of every coordinate/speed/course/draught field proved as exact "
            "(raw integer, scale) pairs for every bit pattern; the reported f32 is computed in the model by a software "
            "IEEE-754 binary32 (i32->f32, /, *, round to nearest even, over Nat) and proved, for every scaled field of "
            "every table and every raw value, to be finite and within the roundings of the single-precision expression "
            "of the exact raw/600000, raw/600, raw/10, raw: exact for undivided quantities, correctly rounded (<= 2^-24 "
            "relative) for fields of at most 23 bits, <= 2^-23 + 2^-48 for the 28/27-bit coordinates and type 27 "
            "(theorem C10.reported_f32). The software binary32 is tied to the hardware by bit-for-bit comparison with "
            "Rust's to_bits() (exhaustive over every raw value of every scaled field in the sweeps).",
            "Lean 4 theorems on (raw, scale) pairs, toSigned_spec, and a verified software binary32 (rounding error "
            "bounds over Q, Mathlib tactics in the proof files only); f32 bit-pattern correspondence incl. exhaustive sweeps", "7/C10",
            "Modelled, not proved: that the hardware's f32 operations are IEEE-754 round-to-nearest-even (compared on every run; "
            "driver op F additionally cross-checks the software binary32 against Lean's native Float32)."),
    "C11": ("Absent iff sentinel, otherwise the raw value: proved for every optional field table (scaled and integer), rate of turn, slot offsets.",
            "Lean 4 theorems scaled_none_iff / opt_none_iff + per-type tables", "7/C11", ""),
    "C12": ("Every code of every enumeration checked in the kernel against an independently formulated table (decide +kernel over the complete code space), injectivity via left inverses, ship-type round trip.",
            "Lean 4 kernel enumeration of complete finite tables (proof, not sample)", "7/C12", ""),
    "C13": ("Text = trim(chars): character map by exhaustive kernel check, trimming is an infix of the decoding (interior preserved), ASCII, length bound, field positions per type.",
            "Lean 4 theorems over lists; per-type text tables", "7/C13", ""),
    "C14": ("Element counts as functions of the bit length, too-short => error for every type, optional tails; type-5 DTE clause: partial theorem + machine-checked counterexample (finding D12).",
            "Lean 4 theorems on Spec.decode by length; every-length sweep in the correspondence", "7/C14", ""),
    "C15": ("data = bs.drop(header bytes) for types 6/8/17, bit-for-bit; no-alloc rejects exactly remainders > 119 bytes.",
            "Lean 4 theorems via parseMessage_eq", "7/C15", ""),
    "C16": ("parse_radio/SOTDMA/ITDMA refine the arithmetic spec on the 19-bit value; types 1,2,3,4,11,18 at full strength; type 9 partial + counterexample (finding D11).",
            "Lean 4 refinement theorems (parseSotdma_spec, parseItdma_spec) + per-type theorems", "7/C16", ""),
    "C17": ("No-trace lines leave the model state unchanged (theorem), hence removing them changes no other result; metamorphic check on the implementation and two-parser independence.",
            "Lean 4 theorem noTrace_step + removal corollary; metamorphic correspondence", "7/C17",
            "Absence of global state in the crate is observed (two parsers interleaved), not proved."),
    "C18": ("std/alloc share the model code path; no-alloc refines std unless a capacity predicate holds, in which case it returns err and keeps the state: theorem; three real builds compared pairwise.",
            "Lean 4 theorem relating cfg=noalloc to cfg=std; three-build differential correspondence", "7/C18", ""),
    "C19": ("The crate computes first_byte>>2 (theorem), which equals the 6-bit value only for '@' (kernel enumeration of the alphabet): recorded finding D10; any other deviation is a violation.",
            "Lean 4 partial theorem + counterexample; all 256 first bytes in the correspondence", "7/C19", ""),
    "C20": ("CLI model = fold of the proved step function over BufRead::split records; the real binary is compared record-for-record with the library's own formatters.",
            "Lean 4 theorems over the CLI model (one record per line outcome, total); process-level differential check", "7/C20",
            "Rust Debug formatting, pipes and exit status are process-level behaviour: modelled, compared, not proved."),
}

CLAIMED = sorted(PROPS)


def main():
    checks = []
    for pid in sorted(PROPS):
        if pid not in CLAIMED:
            continue
        text, tech, ref, extra = PROPS[pid]
        checks.append({
            "property_id": pid,
            "quick_cmd": f"./check {pid} --tier quick",
            "thorough_cmd": f"./check {pid} --tier thorough",
            "evidence_file": f"/verif/evidence/{pid}.json",
            "replay_cmd_template": "./check replay {path}",
            "engine": "lean4-model+correspondence",
            "level_claimed": {"category": "proof", "text": text, "design_ref": "DESIGN.md section " + ref},
            "level_note": NOTE_COMMON + (" " + extra if extra else ""),
            "technique": tech,
        })
    na = [{"property_id": pid, "reason": "not yet claimed in this commit: its theorem file is still being written "
           "(the correspondence half of the check exists and passes); see DESIGN.md section 11"}
          for pid in sorted(PROPS) if pid not in CLAIMED]
    man = {
        "version": 1,
        "setup_cmd": "./setup.sh",
        "hooks": {
            "guard": "none",
            "enable": "no hooks: every observable is public API (AisParser::parse, messages::unarmor, messages::parse, "
                      "Debug of AisParser, the aisparser binary); the harness is a separate crate with a path dependency on /repo",
            "baseline_off_cmd": "cd /repo && cargo test --workspace --no-fail-fast --offline",
            "source_commits": [],
            "add_only": True,
        },
        "engines": [
            {"name": "lean4-model+correspondence", "path": "/verif/lean",
             "serves_properties": CLAIMED,
             "kind_free_text": "Lean 4 model + spec + theorems (lake project; model/spec/driver core-only, Lemmas/F32 and Props/C10 use Mathlib tactic modules), compiled driver; Rust harness "
                               "crate /verif/harness (3 feature sets) executing the same line protocol; python3 ./check"},
        ],
        "checks": checks,
        "not_applicable": na,
        "notes": "fix: commits in /repo (not hooks): 9e21f66 b2005bb a3c9e04 4a7202f 41ca9d5 feab754 7d8a879 190a2d3 fe01f78; "
                 "known findings in /verif/known_findings.txt",
    }
    with open(os.path.join(VERIF, "MANIFEST.json"), "w") as f:
        json.dump(man, f, indent=1)
    print("wrote MANIFEST.json with", len(checks), "checks")


if __name__ == "__main__":
    main()

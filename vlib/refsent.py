"""Reference reading of the NMEA/AIVDM sentence shape, transcribed from the text of properties
C02, C07, C08, C19 (not from the crate).  Used to evaluate relational predicates on the
implementation's own answers and to classify generated inputs."""
from . import ais

HEX = b"0123456789abcdefABCDEF"
TALKERS = {b"AB", b"AD", b"AI", b"AN", b"AR", b"AS", b"AT", b"AX", b"BS", b"SA"}


def _dec(bs, i):
    """1+ decimal digits starting at i -> (value, next index) or None."""
    j = i
    while j < len(bs) and 48 <= bs[j] <= 57:
        j += 1
    if j == i:
        return None
    return int(bs[i:j]), j


def ref_sentence(line, noalloc=False):
    """('nmea',) | ('cks', transmitted, computed, fields) | ('ok', fields)"""
    i = 0
    if line[:1] == b"\\":
        j = line.find(b"\\", 1)
        if j < 0:
            return ("nmea",)
        i = j + 1
    if line[i:i + 1] not in (b"!", b"$"):
        return ("nmea",)
    i += 1
    star = line.find(b"*", i)
    if star < 0:
        return ("nmea",)
    body = line[i:star]
    f = ref_body(body)
    if f is None:
        return ("nmea",)
    if noalloc and len(f["data"]) > 384:
        return ("nmea",)
    k = star + 1
    run = 0
    while k + run < len(line) and line[k + run] in HEX:
        run += 1
    if run == 0:
        return ("nmea",)
    val = int(line[k:k + min(run, 8)], 16)
    if val > 0xFF:
        return ("nmea",)
    comp = ais.xor_all(body)
    if val != comp:
        return ("cks", val, comp, f)
    return ("ok", f)


def ref_body(body):
    """The bytes between the delimiter and the first '*': 5 address bytes, ',' nf ',' fn ',' [id] ','
    channel ',' payload ',' fill — and nothing else."""
    if len(body) < 5:
        return None
    talker, report = body[0:2], body[2:5]
    i = 5
    if body[i:i + 1] != b",":
        return None
    r = _dec(body, i + 1)
    if r is None or r[0] > 255:
        return None
    nf, i = r
    if body[i:i + 1] != b",":
        return None
    r = _dec(body, i + 1)
    if r is None or r[0] > 255:
        return None
    fn, i = r
    if body[i:i + 1] != b",":
        return None
    i += 1
    mid = None
    r = _dec(body, i)
    if r is not None:
        if r[0] > 255:
            return None
        mid, i = r
    if body[i:i + 1] != b",":
        return None
    i += 1
    j = body.find(b",", i)
    if j < 0:
        return None
    channel = body[i:j]
    i = j + 1
    j = body.find(b",", i)
    if j < 0:
        return None
    data = body[i:j]
    if len(data) == 0:
        return None
    i = j + 1
    r = _dec(body, i)
    if r is None or r[0] >= 6:
        return None
    fill, i = r
    if i != len(body):
        return None
    return {
        "talker": talker.decode("latin1") if talker in TALKERS else "Unknown",
        "report": {b"VDM": "VDM", b"VDO": "VDO"}.get(report, "Unknown"),
        "nf": nf, "fn": fn, "id": mid, "ch": channel[0] if channel else None,
        "data": data, "fill": fill,
    }


def sent_kv(f):
    """Reference fields in the harness's key=value rendering (strings)."""
    return {"talker": f["talker"], "report": f["report"], "nf": str(f["nf"]), "fn": str(f["fn"]),
            "id": "none" if f["id"] is None else str(f["id"]), "ch": "none" if f["ch"] is None else str(f["ch"]),
            "data": f["data"].hex(), "fill": str(f["fill"]),
            # AisSentence::has_more / is_fragment: "more fragments follow" / "part of a multi-sentence message"
            "hm": "true" if f["fn"] < f["nf"] else "false", "fr": "true" if f["nf"] != 1 else "false"}

"""AIS encoding helpers for the generators: ITU-R M.1371 layouts (DESIGN.md Appendix A),
bit packing, 6-bit armoring, NMEA sentence rendering.  Written from the standard, not from
the crate; used only to *generate* inputs and to evaluate relational predicates."""

# name@offset+width per type.  '_' prefix = spare/reserved.
LAYOUTS = {
    1: [("type", 0, 6), ("repeat", 6, 2), ("mmsi", 8, 30), ("nav_status", 38, 4), ("rot", 42, 8),
        ("sog", 50, 10), ("accuracy", 60, 1), ("lon", 61, 28), ("lat", 89, 27), ("cog", 116, 12),
        ("heading", 128, 9), ("timestamp", 137, 6), ("maneuver", 143, 2), ("_spare", 145, 3),
        ("raim", 148, 1), ("comm_state", 149, 19)],
    4: [("type", 0, 6), ("repeat", 6, 2), ("mmsi", 8, 30), ("year", 38, 14), ("month", 52, 4),
        ("day", 56, 5), ("hour", 61, 5), ("minute", 66, 6), ("second", 72, 6), ("accuracy", 78, 1),
        ("lon", 79, 28), ("lat", 107, 27), ("epfd", 134, 4), ("_spare", 138, 10), ("raim", 148, 1),
        ("comm_state", 149, 19)],
    5: [("type", 0, 6), ("repeat", 6, 2), ("mmsi", 8, 30), ("ais_version", 38, 2), ("imo", 40, 30),
        ("callsign", 70, 42), ("name", 112, 120), ("ship_type", 232, 8), ("to_bow", 240, 9),
        ("to_stern", 249, 9), ("to_port", 258, 6), ("to_starboard", 264, 6), ("epfd", 270, 4),
        ("eta_month", 274, 4), ("eta_day", 278, 5), ("eta_hour", 283, 5), ("eta_minute", 288, 6),
        ("draught", 294, 8), ("destination", 302, 120), ("dte", 422, 1), ("_spare", 423, 1)],
    6: [("type", 0, 6), ("repeat", 6, 2), ("mmsi", 8, 30), ("seqno", 38, 2), ("dest_mmsi", 40, 30),
        ("retransmit", 70, 1), ("_spare", 71, 1), ("dac", 72, 10), ("fid", 82, 6)],
    7: [("type", 0, 6), ("repeat", 6, 2), ("mmsi", 8, 30), ("_spare", 38, 2),
        ("ack1.mmsi", 40, 30), ("ack1.seq", 70, 2), ("ack2.mmsi", 72, 30), ("ack2.seq", 102, 2),
        ("ack3.mmsi", 104, 30), ("ack3.seq", 134, 2), ("ack4.mmsi", 136, 30), ("ack4.seq", 166, 2)],
    8: [("type", 0, 6), ("repeat", 6, 2), ("mmsi", 8, 30), ("_spare", 38, 2), ("dac", 40, 10), ("fid", 50, 6)],
    9: [("type", 0, 6), ("repeat", 6, 2), ("mmsi", 8, 30), ("altitude", 38, 12), ("sog", 50, 10),
        ("accuracy", 60, 1), ("lon", 61, 28), ("lat", 89, 27), ("cog", 116, 12), ("timestamp", 128, 6),
        ("_reserved", 134, 8), ("dte", 142, 1), ("_spare", 143, 3), ("assigned", 146, 1), ("raim", 147, 1),
        ("selector", 148, 1), ("comm_state", 149, 19)],
    10: [("type", 0, 6), ("repeat", 6, 2), ("mmsi", 8, 30), ("_spare", 38, 2), ("dest_mmsi", 40, 30),
         ("_spare2", 70, 2)],
    12: [("type", 0, 6), ("repeat", 6, 2), ("mmsi", 8, 30), ("seqno", 38, 2), ("dest_mmsi", 40, 30),
         ("retransmit", 70, 1), ("_spare", 71, 1)],
    14: [("type", 0, 6), ("repeat", 6, 2), ("mmsi", 8, 30), ("_spare", 38, 2)],
    15: [("type", 0, 6), ("repeat", 6, 2), ("mmsi", 8, 30), ("_spare", 38, 2), ("mmsi1", 40, 30),
         ("type1_1", 70, 6), ("offset1_1", 76, 12), ("_spare2", 88, 2), ("type1_2", 90, 6),
         ("offset1_2", 96, 12), ("_spare3", 108, 2), ("mmsi2", 110, 30), ("type2_1", 140, 6),
         ("offset2_1", 146, 12), ("_spare4", 158, 2)],
    16: [("type", 0, 6), ("repeat", 6, 2), ("mmsi", 8, 30), ("_spare", 38, 2), ("mmsi1", 40, 30),
         ("offset1", 70, 12), ("increment1", 82, 10), ("mmsi2", 92, 30), ("offset2", 122, 12),
         ("increment2", 134, 10)],
    17: [("type", 0, 6), ("repeat", 6, 2), ("mmsi", 8, 30), ("_spare", 38, 2), ("lon", 40, 18),
         ("lat", 58, 17), ("_spare2", 75, 5), ("d.type", 80, 6), ("d.station_id", 86, 10),
         ("d.z_count", 96, 13), ("d.seq", 109, 3), ("d.n", 112, 5), ("d.health", 117, 3)],
    18: [("type", 0, 6), ("repeat", 6, 2), ("mmsi", 8, 30), ("_reserved", 38, 8), ("sog", 46, 10),
         ("accuracy", 56, 1), ("lon", 57, 28), ("lat", 85, 27), ("cog", 112, 12), ("heading", 124, 9),
         ("timestamp", 133, 6), ("_reserved2", 139, 2), ("cs_unit", 141, 1), ("display", 142, 1),
         ("dsc", 143, 1), ("band", 144, 1), ("msg22", 145, 1), ("assigned", 146, 1), ("raim", 147, 1),
         ("selector", 148, 1), ("comm_state", 149, 19)],
    19: [("type", 0, 6), ("repeat", 6, 2), ("mmsi", 8, 30), ("_reserved", 38, 8), ("sog", 46, 10),
         ("accuracy", 56, 1), ("lon", 57, 28), ("lat", 85, 27), ("cog", 112, 12), ("heading", 124, 9),
         ("timestamp", 133, 6), ("_reserved2", 139, 4), ("name", 143, 120), ("ship_type", 263, 8),
         ("to_bow", 271, 9), ("to_stern", 280, 9), ("to_port", 289, 6), ("to_starboard", 295, 6),
         ("epfd", 301, 4), ("raim", 305, 1), ("dte", 306, 1), ("assigned", 307, 1), ("_spare", 308, 4)],
    20: [("type", 0, 6), ("repeat", 6, 2), ("mmsi", 8, 30), ("_spare", 38, 2)] +
        [(f"r{i+1}.{n}", 40 + 30 * i + o, w) for i in range(4)
         for (n, o, w) in (("offset", 0, 12), ("slots", 12, 4), ("timeout", 16, 3), ("increment", 19, 11))],
    21: [("type", 0, 6), ("repeat", 6, 2), ("mmsi", 8, 30), ("aid_type", 38, 5), ("name", 43, 120),
         ("accuracy", 163, 1), ("lon", 164, 28), ("lat", 192, 27), ("to_bow", 219, 9), ("to_stern", 228, 9),
         ("to_port", 237, 6), ("to_starboard", 243, 6), ("epfd", 249, 4), ("second", 253, 6),
         ("off_position", 259, 1), ("regional", 260, 8), ("raim", 268, 1), ("virtual", 269, 1),
         ("assigned", 270, 1), ("_spare", 271, 1)],
    "24A": [("type", 0, 6), ("repeat", 6, 2), ("mmsi", 8, 30), ("partno", 38, 2), ("name", 40, 120),
            ("_spare", 160, 8)],
    "24B": [("type", 0, 6), ("repeat", 6, 2), ("mmsi", 8, 30), ("partno", 38, 2), ("ship_type", 40, 8),
            ("vendor_id", 48, 18), ("model", 66, 4), ("serial", 70, 20), ("callsign", 90, 42),
            ("to_bow", 132, 9), ("to_stern", 141, 9), ("to_port", 150, 6), ("to_starboard", 156, 6),
            ("_spare", 162, 6)],
    27: [("type", 0, 6), ("repeat", 6, 2), ("mmsi", 8, 30), ("accuracy", 38, 1), ("raim", 39, 1),
         ("nav_status", 40, 4), ("lon", 44, 18), ("lat", 62, 17), ("sog", 79, 6), ("cog", 85, 9),
         ("gnss", 94, 1), ("_spare", 95, 1)],
}
LAYOUTS[2] = LAYOUTS[1]
LAYOUTS[3] = LAYOUTS[1]
LAYOUTS[11] = LAYOUTS[4]
LAYOUTS[13] = LAYOUTS[7]

# total bits of the full-length form
FULL_BITS = {1: 168, 2: 168, 3: 168, 4: 168, 5: 424, 6: 88, 7: 168, 8: 56, 9: 168, 10: 72, 11: 168,
             12: 72, 13: 168, 14: 40, 15: 160, 16: 144, 17: 120, 18: 168, 19: 312, 20: 160, 21: 272,
             "24A": 168, "24B": 168, 27: 96}

SUPPORTED = [1, 2, 3, 4, 5, 6, 7, 8, 9, 10, 11, 12, 13, 14, 15, 16, 17, 18, 19, 20, 21, 24, 27]


def layout_for(t, bits=None):
    """Layout key for a numeric type (24 needs the part number)."""
    return LAYOUTS[t]


def pack(fields, layout, nbits):
    """fields: dict name->unsigned value.  Returns bit list of length nbits."""
    bits = [0] * nbits
    for (name, off, w) in layout:
        v = fields.get(name, 0)
        for i in range(w):
            if off + i < nbits:
                bits[off + i] = (v >> (w - 1 - i)) & 1
    return bits


def bits_to_bytes(bits):
    out = bytearray((len(bits) + 7) // 8)
    for i, b in enumerate(bits):
        if b:
            out[i // 8] |= 0x80 >> (i % 8)
    return bytes(out)


def bytes_to_bits(bs, n=None):
    bits = []
    for b in bs:
        for i in range(8):
            bits.append((b >> (7 - i)) & 1)
    return bits if n is None else bits[:n]


def field(bs, off, w):
    v = 0
    for i in range(w):
        idx = off + i
        byte = bs[idx // 8] if idx // 8 < len(bs) else 0
        v = (v << 1) | ((byte >> (7 - idx % 8)) & 1)
    return v


def to_signed(w, v):
    return v if v < (1 << (w - 1)) else v - (1 << w)


def armor_char(v):
    return v + 48 if v < 40 else v + 56


def sixbit(c):
    if 48 <= c <= 87:
        return c - 48
    if 96 <= c <= 119:
        return c - 56
    return None


def armor(bits):
    """bits -> (payload bytes, fill)"""
    fill = (6 - len(bits) % 6) % 6
    b = list(bits) + [0] * fill
    out = bytearray()
    for i in range(0, len(b), 6):
        v = 0
        for j in range(6):
            v = (v << 1) | b[i + j]
        out.append(armor_char(v))
    return bytes(out), fill


def spec_unarmor(data, fill):
    """Reference unarmoring straight from the property text (C03)."""
    vals = []
    for c in data:
        v = sixbit(c)
        if v is None:
            return None
        vals.append(v)
    n = len(vals)
    nbits = 6 * n
    bits = []
    for v in vals:
        for j in range(6):
            bits.append((v >> (5 - j)) & 1)
    for i in range(max(0, nbits - fill), nbits):
        bits[i] = 0
    return bits_to_bytes(bits + [0] * ((8 - nbits % 8) % 8))


def xor_all(bs):
    x = 0
    for b in bs:
        x ^= b
    return x


def sentence(payload, fill=0, nf=1, fn=1, mid=None, channel=b"A", talker=b"AI", report=b"VDM",
             delim=b"!", tagblock=None, cks=None, tail=b"", nf_txt=None, fn_txt=None, fill_txt=None,
             mid_txt=None, cks_txt=None):
    body = talker + report + b"," + (nf_txt if nf_txt is not None else str(nf).encode()) + b"," + \
        (fn_txt if fn_txt is not None else str(fn).encode()) + b"," + \
        (mid_txt if mid_txt is not None else (b"" if mid is None else str(mid).encode())) + b"," + \
        channel + b"," + payload + b"," + (fill_txt if fill_txt is not None else str(fill).encode())
    c = xor_all(body) if cks is None else cks
    ctxt = cks_txt if cks_txt is not None else b"%02X" % c
    line = b""
    if tagblock is not None:
        line += b"\\" + tagblock + b"\\"
    return line + delim + body + b"*" + ctxt + tail


def sixbit_text(s):
    """ASCII text -> list of 6-bit values."""
    out = []
    for ch in s:
        c = ord(ch) if isinstance(ch, str) else ch
        out.append(c - 64 if c >= 64 else c)
    return out

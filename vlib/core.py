"""Shared machinery of ./check: building the Lean project and the Rust harness against /repo's
working tree, the axiom audit, running an operation stream through implementation and model,
evidence and violation reporting."""
import fcntl
import json
import os
import re
import subprocess
import sys
import time

VERIF = os.path.dirname(os.path.dirname(os.path.abspath(__file__)))
LEAN = os.path.join(VERIF, "lean")
# Development only (tools/pareval.py evaluates many seeded/harmless changes at once, each in its own copy of the
# crate): VERIF_REPO, VERIF_HARNESS_DIR and VERIF_WORK_DIR relocate the crate, the harness crate and the scratch
# directory (evidence then goes to the scratch directory too).  The registered checks never set them.
REPO = os.environ.get("VERIF_REPO", "/repo")
HARNESS = os.environ.get("VERIF_HARNESS_DIR", os.path.join(VERIF, "harness"))
WORK = os.environ.get("VERIF_WORK_DIR", os.path.join(VERIF, "work"))
EVID = os.path.join(VERIF, "evidence") if "VERIF_WORK_DIR" not in os.environ else os.path.join(WORK, "evidence")
REPLAYS = os.path.join(WORK, "replays")
DRIVER = os.path.join(LEAN, ".lake", "build", "bin", "driver")
CFGS = ["std", "alloc", "noalloc"]
ALLOWED_AXIOMS = {"propext", "Classical.choice", "Quot.sound"}
ENV = dict(os.environ, CARGO_NET_OFFLINE="true", RUST_BACKTRACE="0")

TRUSTED_BASE = [
    "Lean 4.33.0 kernel (axioms per theorem audited against {propext, Classical.choice, Quot.sound}; no native_decide/bv_decide/sorry)",
    "Spec layer lean/AisVerif/Spec/* as a transcription of ITU-R M.1371-5 / NMEA 0183 / the property text",
    "hand-written Lean model lean/AisVerif/Model/* of src/*.rs, tied to /repo by this run's correspondence check (harness/, Driver/Main.lean, vlib/)",
    "semantics of nom 7.1.3, heapless 0.7.17 and core as modelled (DESIGN.md section 8); rustc dev profile with overflow checks",
]


def log(*a):
    print(*a, file=sys.stderr, flush=True)


class Lock:
    def __init__(self, name):
        os.makedirs(WORK, exist_ok=True)
        self.path = os.path.join(WORK, name + ".lock")

    def __enter__(self):
        self.f = open(self.path, "w")
        fcntl.flock(self.f, fcntl.LOCK_EX)
        return self

    def __exit__(self, *a):
        fcntl.flock(self.f, fcntl.LOCK_UN)
        self.f.close()


def run(cmd, cwd=None, timeout=3600, inp=None):
    p = subprocess.run(cmd, cwd=cwd, env=ENV, input=inp, stdout=subprocess.PIPE, stderr=subprocess.STDOUT,
                       timeout=timeout)
    return p.returncode, p.stdout.decode("utf-8", "replace")


# ---------------------------------------------------------------- Lean

def lean_build(targets):
    """lake build the given module targets plus the driver. Returns (ok, log)."""
    with Lock("lake"):
        rc, out = run(["lake", "build"] + targets + ["driver"], cwd=LEAN, timeout=3000)
    return rc == 0, out


FORBIDDEN = re.compile(r"\b(sorry|admit|native_decide|bv_decide|implemented_by|unsafe)\b|^\s*axiom\s|maxHeartbeats 0")


def strip_comments(src):
    src = re.sub(r"/-.*?-/", "", src, flags=re.S)
    src = re.sub(r"--.*", "", src)
    return src


def forbidden_scan():
    hits = []
    for root, _, files in os.walk(os.path.join(LEAN, "AisVerif")):
        for f in files:
            if f.endswith(".lean"):
                p = os.path.join(root, f)
                src = strip_comments(open(p).read())
                for i, line in enumerate(src.split("\n")):
                    if FORBIDDEN.search(line):
                        hits.append(f"{os.path.relpath(p, LEAN)}: {line.strip()[:100]}")
    return hits


def prop_theorems(prop):
    """Theorem names declared in Props/<prop>.lean (the registry is the file itself)."""
    p = os.path.join(LEAN, "AisVerif", "Props", prop + ".lean")
    if not os.path.exists(p):
        return []
    src = strip_comments(open(p).read())
    ns = re.findall(r"^namespace\s+(\S+)", src, flags=re.M)
    prefix = (ns[0] + ".") if ns else ""
    return [prefix + n for n in re.findall(r"^theorem\s+(\S+)", src, flags=re.M)]


def axiom_audit(prop):
    """Returns (list of (theorem, axioms, ok)), raw output."""
    names = prop_theorems(prop)
    if not names:
        return [], "no theorems registered"
    os.makedirs(WORK, exist_ok=True)
    path = os.path.join(WORK, f"audit_{prop}.lean")
    with open(path, "w") as f:
        f.write(f"import AisVerif.Props.{prop}\n")
        for n in names:
            f.write(f"#print axioms {n}\n")
    with Lock("lake"):
        rc, out = run(["lake", "env", "lean", path], cwd=LEAN, timeout=1200)
    res = []
    flat = re.sub(r"\s+", " ", out)
    for n in names:
        m = re.search(r"'" + re.escape(n) + r"' depends on axioms: \[([^\]]*)\]", flat)
        if m:
            axs = [a.strip() for a in m.group(1).split(",") if a.strip()]
            res.append((n, axs, set(axs) <= ALLOWED_AXIOMS))
        elif re.search(r"'" + re.escape(n) + r"' does not depend on any axioms", flat):
            res.append((n, [], True))
        else:
            res.append((n, ["<not checked: " + ("lean error" if rc else "no output") + ">"], False))
    return res, out


def lean_obligations(prop, thorough=False):
    """Build the property's theorem module, scan, audit. Returns dict for evidence + failure text."""
    t0 = time.time()
    ok, out = lean_build([f"AisVerif.Props.{prop}"])
    info = {"build_ok": ok, "theorems": [], "obligations": 0, "discharged": 0, "failed": []}
    if not ok:
        errs = [l for l in out.split("\n") if "error" in l][:20]
        info["failed"] = [f"lake build AisVerif.Props.{prop} failed"] + errs
        info["obligations"] = max(1, len(prop_theorems(prop)))
        return info
    hits = forbidden_scan()
    audit, raw = axiom_audit(prop)
    info["obligations"] = len(audit)
    for (n, axs, good) in audit:
        info["theorems"].append({"name": n, "axioms": axs, "ok": good})
        if good:
            info["discharged"] += 1
        else:
            info["failed"].append(f"theorem {n}: axioms {axs}")
    if hits:
        info["failed"] += ["forbidden construct: " + h for h in hits]
        info["discharged"] = 0
    if thorough and ok:
        with Lock("lake"):
            rc, o = run(["lake", "env", "leanchecker", f"AisVerif.Props.{prop}"], cwd=LEAN, timeout=3000)
        info["leanchecker_rc"] = rc
        if rc != 0:
            info["failed"].append("leanchecker: " + o[-300:])
    info["lean_wall_s"] = round(time.time() - t0, 1)
    return info


# ---------------------------------------------------------------- Rust

COV = os.environ.get("VERIF_COV")      # tools/coverage.sh: run the std stream through an instrumented harness


def harness_bin(cfg):
    if cfg == "std0":
        return os.path.join(HARNESS, "target", "std0", "debug", "harness")
    if COV and cfg == "std":
        return os.path.join(HARNESS, "target", "cov", "debug", "harness")
    return os.path.join(HARNESS, "target", cfg, "debug", "harness")


def harness_build(cfgs):
    """cargo build the harness (and so /repo's working tree) for each cfg. Returns (ok, log)."""
    logs = []
    good = True
    with Lock("cargo"):
        lock = os.path.join(HARNESS, "Cargo.lock")
        if not os.path.exists(lock):
            import shutil
            shutil.copy(os.path.join(REPO, "Cargo.lock"), lock)
        procs = []
        for cfg in cfgs:
            feat = [] if cfg == "noalloc" else ["--features", cfg]
            if cfg == "std0":
                # the std build without optimisation (opt-level 0, what `cargo build`/`cargo test` produce by default):
                # recursion is not turned into loops, so depth that grows with the input shows as a stack overflow
                feat = ["--features", "std", "--config", "profile.dev.opt-level=0"]
            cmd = ["cargo", "build", "--offline", "--quiet"] + feat + ["--target-dir", os.path.join("target", cfg)]
            procs.append((cfg, subprocess.Popen(cmd, cwd=HARNESS, env=ENV, stdout=subprocess.PIPE, stderr=subprocess.STDOUT)))
        for cfg, p in procs:
            out, _ = p.communicate(timeout=1800)
            if p.returncode != 0:
                good = False
                logs.append(f"[{cfg}] " + out.decode("utf-8", "replace")[-2000:])
    return good, "\n".join(logs)


CLI_TARGET = os.path.join(WORK, "cli-target")


def cli_build():
    with Lock("cargo-cli"):
        rc, out = run(["cargo", "build", "--offline", "--quiet", "--manifest-path", os.path.join(REPO, "Cargo.toml"),
                       "--target-dir", CLI_TARGET, "--bin", "aisparser"], timeout=1800)
    return rc == 0, out, os.path.join(CLI_TARGET, "debug", "aisparser")


# ---------------------------------------------------------------- op streams

def run_stream(binary, args, ops, timeout=1800, extra_env=None):
    data = ("\n".join(ops) + "\n").encode()
    env = ENV if not extra_env else dict(ENV, **extra_env)
    if COV:
        env = dict(ENV, LLVM_PROFILE_FILE=os.path.join(WORK, "cov", "prof-%p-%m.profraw"))
    p = subprocess.run([binary] + args, input=data, stdout=subprocess.PIPE, stderr=subprocess.PIPE, env=env,
                       timeout=timeout)
    lines = p.stdout.decode("utf-8", "replace").split("\n")
    if lines and lines[-1] == "":
        lines.pop()
    return p.returncode, lines


_META = re.compile(r" type_name=\S+")


def strip_meta(lines):
    """`type_name=` (AisMessageType::name()) is modelled and compared by tools/extras.py only: no
    property speaks about it, so it must not be able to raise any property's alarm."""
    return [_META.sub("", l) if "type_name=" in l else l for l in lines]


STATE_RECONCILED = {"lines": 0, "probed": 0, "observable": 0}
_MODEL_CACHE = {}


def _st(ans):
    return ans.rsplit(" st=", 1)[1] if " st=" in ans else None


def _nost(ans):
    return ans.rsplit(" st=", 1)[0]


def _probe_lines(st_a, st_m):
    """Lines that make the three private fields of the reassembly state visible in an answer: fragments numbered
    around the stored number, with the stored id and others, each closing its group (so an accepted one delivers
    the buffered payload), plus openers, unfragmented and oddly numbered sentences."""
    from . import ais
    ids, ks = [None, 0, 1, 7], [1, 2, 3, 255]
    for st in (st_a, st_m):
        if not st or st == "?":
            continue
        parts = st.split(",")
        if len(parts) >= 2:
            if parts[0].isdigit():
                ids += [int(parts[0]), (int(parts[0]) + 1) % 256]
            if parts[1].isdigit():
                f = int(parts[1])
                ks += [x for x in (f - 1, f, f + 1, f + 2) if 1 <= x <= 255]
    out = []
    for k in sorted(set(ks)):
        for mid in sorted(set(ids), key=lambda x: -1 if x is None else x):
            out.append(ais.sentence(b"w", nf=max(k, 1), fn=k, mid=mid, fill=0))
    out += [ais.sentence(b"w", nf=0, fn=1, fill=0), ais.sentence(b"w", nf=1, fn=0, fill=0), ais.sentence(b"w", nf=0, fn=0, fill=0),
            ais.sentence(b"w", nf=2, fn=1, mid=None, fill=0), ais.sentence(b"w", nf=9, fn=5, mid=1, fill=0)]
    return out


def reconcile_states(cfg, ops, lines):
    """The parser's state is private; the harness reads it from `{:?}`.  Where it differs from the model's state (or
    cannot be read) while the answers themselves agree, probe lines decide whether the difference is observable:
    if no continuation of the history answers differently in implementation and model, the difference is one of
    representation and the implementation's `st=` is replaced by the model's; otherwise everything is left as it is
    (and the judges report it)."""
    if not any(o.startswith("L ") for o in ops):
        return lines
    mism = []
    model = None
    for i, (o, a) in enumerate(zip(ops, lines)):
        if not o.startswith("L ") or " st=" not in a:
            continue
        if model is None:
            model = run_model(cfg, ops)
        m = model[i]
        if " st=" in m and _st(a) != _st(m) and _nost(_META.sub("", a)) == _nost(m):
            mism.append(i)
    if not mism:
        return lines
    binary = harness_bin(cfg)
    observable = False
    # (bounded: a dozen states, histories of at most 150 lines - the systematic stage alone has thousands of lines, and a
    # parser whose state cannot be read differs on every one of them)
    last_n, cur = [], 0
    for j, o in enumerate(ops):
        if o.startswith("N "):
            cur = j
        last_n.append(cur)
    short = [i for i in mism if i - last_n[i] <= 150]
    for i in (short[:8] + short[len(short) // 2:len(short) // 2 + 4] if short else mism[:4]):
        slot = ops[i].split(" ")[1]
        j = i
        while j > 0 and ops[j] != f"N {slot}":
            j -= 1
        hist = [o for o in ops[j:i + 1] if o == f"N {slot}" or (o.startswith("L ") and o.split(" ")[1] == slot)]
        if not hist or hist[0] != f"N {slot}":
            hist = [f"N {slot}"] + hist
        if len(hist) > 160:
            continue
        stream, marks = [], []
        for pl in _probe_lines(_st(lines[i]), _st(model[i])):
            stream += hist
            stream.append(f"L {slot} 0 o {hexs(pl)}")
            marks.append(len(stream) - 1)
        rc, ia = run_stream(binary, [], stream, extra_env={"VERIF_FLUSH": "1"})
        ia += ["abort"] * (len(stream) - len(ia))
        ma = run_model(cfg, stream)
        STATE_RECONCILED["probed"] += 1
        for k in marks:
            x = ia[k]
            if x.startswith("ctor-mismatch "):
                x = x[len("ctor-mismatch "):].partition(" ||| ")[0]
            if _nost(_META.sub("", x)) != _nost(ma[k]):
                observable = True
                break
        if observable:
            STATE_RECONCILED["observable"] += 1
            break
    if observable:
        return lines
    for i in mism:
        lines[i] = _nost(lines[i]) + " st=" + _st(model[i])
        STATE_RECONCILED["lines"] += 1
    return lines


CTOR_MISMATCH = []     # (cfg, ops up to and including the line, answer of the new() parser, answer of the default() parser)


def run_impl(cfg, ops, keep_meta=False, reconcile=True):
    """Implementation answers; if the process dies (abort, stack overflow) the missing answers are 'abort'."""
    rc, lines = run_stream(harness_bin(cfg), [], ops)
    if len(lines) < len(ops):
        # the process died (abort, stack overflow, kill): answers still in its output buffer are lost, so run once
        # more with a flush after every answer - the first missing answer is then the operation that killed it
        rc, lines = run_stream(harness_bin(cfg), [], ops, extra_env={"VERIF_FLUSH": "1"})
        if len(lines) < len(ops):
            lines += ["abort"] * (len(ops) - len(lines))
    for i, l in enumerate(lines):
        # the harness feeds every line to a parser built with AisParser::new() and to one built with Default::default()
        if l.startswith("ctor-mismatch "):
            a1, _, a2 = l[len("ctor-mismatch "):].partition(" ||| ")
            if len(CTOR_MISMATCH) < 20:
                j = i
                while j > 0 and not ops[j].startswith("N "):
                    j -= 1
                CTOR_MISMATCH.append((cfg, ops[max(j, i - 400):i + 1], a1, a2))
            lines[i] = a1
    if cfg != "std0" and reconcile:
        lines = reconcile_states(cfg, ops, lines)
    return lines if keep_meta else strip_meta(lines)


def run_model(cfg, ops, keep_meta=False):
    mcfg = "std" if cfg == "std0" else cfg
    key = (mcfg, len(ops), hash("\n".join(ops)))
    if key in _MODEL_CACHE:
        lines = list(_MODEL_CACHE[key])
    else:
        rc, lines = run_stream(DRIVER, [mcfg], ops)
        if len(lines) < len(ops):
            lines += ["model-abort"] * (len(ops) - len(lines))
        if len(_MODEL_CACHE) > 64:
            _MODEL_CACHE.clear()
        _MODEL_CACHE[key] = list(lines)
    return lines if keep_meta else strip_meta(lines)


def hexs(b):
    return b.hex() if len(b) else "-"


def parse_kv(tokens):
    d = {}
    for t in tokens:
        if "=" in t:
            k, v = t.split("=", 1)
            d[k] = v
    return d


def parse_answer(ans):
    """Structured view of an answer line."""
    toks = ans.split(" ")
    r = {"raw": ans, "cls": toks[0]}
    if toks[0] == "ok":
        if len(toks) > 1 and "=" not in toks[1]:
            r["kind"] = toks[1]
            r["kv"] = parse_kv(toks[2:])
            r["val"] = toks[1]
        else:
            r["kv"] = parse_kv(toks[1:])
    elif toks[0] in ("C", "I"):
        body = ans
        st = None
        if " st=" in body:
            body, st = body.rsplit(" st=", 1)
        conv = None
        if " conv=" in body:
            body, conv = body.rsplit(" conv=", 1)
        if " msg=" not in body:
            body += " msg=none"         # (a synthetic or truncated answer: outcome only)
        sent, msg = body.split(" msg=", 1)
        r["sent"] = parse_kv(sent.split(" ")[1:])
        mt = msg.split(" ")
        r["msg_kind"] = mt[0]
        r["msg"] = parse_kv(mt[1:])
        r["msg_raw"] = msg
        r["conv"] = conv
        r["st"] = st
    elif toks[0] == "E":
        r["err"] = toks[1]
        if toks[1] == "cks":
            r["expected"], r["found"] = int(toks[2]), int(toks[3])
        if " st=" in ans:
            r["st"] = ans.rsplit(" st=", 1)[1]
    elif toks[0] == "panic" or toks[0] == "abort":
        if " st=" in ans:
            r["st"] = ans.rsplit(" st=", 1)[1]
    return r


# ---------------------------------------------------------------- reporting

class Report:
    def __init__(self, prop, tier, seed):
        self.prop, self.tier, self.seed = prop, tier, seed
        self.t0 = time.time()
        self.violations = []      # (what, replay dict)
        self.known = []           # strings
        self.evaluations = 0
        self.nontrivial = set()
        self.samples = []
        self.dist = {}
        self.extra = {}
        self.corr_names = []

    def count(self, key, n=1):
        self.dist[key] = self.dist.get(key, 0) + n

    def sample(self, s):
        if len(self.samples) < 8:
            self.samples.append(s)

    def violation(self, what, replay):
        self.violations.append((what, replay))

    def finish(self, lean_info, level="proof", rule="", assumptions=None, exhaustive=False):
        os.makedirs(EVID, exist_ok=True)
        os.makedirs(REPLAYS, exist_ok=True)
        status = 0
        out_lines = []
        lean_failed = lean_info.get("failed", [])
        # known findings are printed, never fatal
        for k in sorted(set(self.known)):
            out_lines.append(f"KNOWN-FINDING: property={self.prop} {k}")
        for (cfg, cops, a1, a2) in CTOR_MISMATCH[:3]:
            self.violations.insert(0, (f"{self.prop}: a parser built with Default::default() answers differently from one built "
                                       f"with AisParser::new() on the same lines (new: {a1[:120]} / default: {a2[:120]})",
                                       {"cfg": cfg, "ops": cops, "impl": a1, "impl_default_ctor": a2}))
        if self.violations:
            status = 1
            what, replay = self.violations[0]
            path = os.path.join(REPLAYS, f"{self.prop}-{self.tier}-{self.seed}.json")
            with open(path, "w") as f:
                json.dump({"property": self.prop, "what": what, "replay": replay,
                           "all": [w for w, _ in self.violations[:50]],
                           "lean_failed": lean_failed}, f, indent=1)
            out_lines.append(f"VIOLATION property={self.prop} replay={path}")
            log(f"[{self.prop}] {len(self.violations)} violation(s); first: {what}")
        elif lean_failed:
            status = 1
            path = os.path.join(REPLAYS, f"{self.prop}-{self.tier}-{self.seed}.json")
            with open(path, "w") as f:
                json.dump({"property": self.prop, "what": "proof obligation or build no longer checks; "
                           "no failing input found by this run's search", "no_longer_checks": lean_failed,
                           "searched": {"evaluations": self.evaluations, "distribution": self.dist}}, f, indent=1)
            out_lines.append(f"VIOLATION property={self.prop} replay={path} no-failing-input-found")
            log(f"[{self.prop}] proof/build failure: {lean_failed[:3]}")
        cov = {
            "obligations": max(1, lean_info.get("obligations", 0)),
            "discharged": lean_info.get("discharged", 0),
            "checker_cmd": f"cd /verif/lean && lake build AisVerif.Props.{self.prop} && lake env lean <#print axioms of every theorem in Props/{self.prop}.lean>",
            "trusted_base": TRUSTED_BASE,
            "theorems": lean_info.get("theorems", []),
            "evaluations": self.evaluations,
            "distinct_nontrivial": len(self.nontrivial),
            "rule": rule,
            "samples": self.samples or ["<none>"],
            "traces_validated_against_impl": self.evaluations,
            "input_distribution": self.dist,
            "correspondence_projections": self.corr_names,
            "known_findings_reported": sorted(set(self.known)),
            "private_state_reconciled": dict(STATE_RECONCILED),
            "exhaustive": exhaustive,
        }
        cov.update(self.extra)
        ev = {
            "property_id": self.prop, "tier": self.tier, "seed": self.seed, "level": level,
            "coverage": cov,
            "assumptions": assumptions or [],
            "wall_s": round(time.time() - self.t0, 2),
            "violations": len(self.violations) + (1 if (lean_failed and not self.violations) else 0),
        }
        with open(os.path.join(EVID, self.prop + ".json"), "w") as f:
            json.dump(ev, f, indent=1)
        for l in out_lines:
            print(l, flush=True)
        log(f"[{self.prop}] tier={self.tier} seed={self.seed} evals={self.evaluations} "
            f"nontrivial={len(self.nontrivial)} thm={cov['discharged']}/{cov['obligations']} "
            f"wall={ev['wall_s']}s status={status}")
        return status


def load_known():
    p = os.path.join(VERIF, "known_findings.txt")
    out = []
    if os.path.exists(p):
        for line in open(p):
            line = line.strip()
            if line.startswith("finding:"):
                out.append(line)
    return out

"""Systematic stage shared by the history and the decoding properties: a product of PARSER-STATE classes and EVENT
classes (not a random walk), judged like the exploration stage - implementation vs model, in all three builds, on the
property's own projection.

States: a fresh parser; an open group with k of n fragments accepted and L payload bytes accumulated, L on both sides of
every size that a build could treat specially (255/256, the no-alloc capacity 384, 1500, and - in their own histories -
2^16).  Events: what can arrive next (the group's own next fragment with a wrong checksum / another count / another id /
a non-alphabet byte / a fill count / far too large; duplicates; first fragments of other groups; unfragmented
sentences that decode or not; lines rejected for form; lines over the no-alloc capacity in every numbering), each with
its own decode flag.  Then the rest of the group under a decode-flag pattern of its own, and a trailer (an unfragmented
sentence and a fresh two-fragment group, decoding on) that shows anything left behind.  Gap histories put 49 ... 300
(thorough: 1000) other lines between two fragments of one group.

The sweep of decoder inputs around 2^13 and 2^14 BYTES (2^16, 2^17 bits) of payload for every message type lives here
too: bit counts and offsets that a narrower integer would wrap."""
import random

from . import ais, gen, core, fuzzstage
from .props_sent import L

S = ais.sentence
BADCH = [0x58, 0x5A, 0x5E, 0x7E, 0x20, 0x80, 0x78, 0x2F]


def _split(rng, total, k):
    """k positive sizes that sum to total (total >= k)."""
    if k == 1:
        return [total]
    cuts = sorted(rng.sample(range(1, total), k - 1)) if total > k else list(range(1, k))
    return [b - a for a, b in zip([0] + cuts, cuts + [total])]


def product_history(rng):
    ops = ["N 0"]
    d0 = rng.choice([0, 0, 1])
    mid = rng.choice([None, 0, 3, 9])
    other = rng.choice([x for x in (None, 0, 1, 3, 9) if x != mid])
    fresh = rng.random() < 0.12
    n, k = rng.choice([(2, 1), (3, 1), (3, 2), (7, 5), (9, 1), (4, 3)])
    lacc = rng.choice([5, 30, 100, 250, 255, 256, 257, 300, 380, 383, 384, 385, 600, 1500])
    lacc = max(lacc, k)
    room = 384 - lacc
    sizes = [1, 20, 60] + [x for x in (room - 1, room, room + 1) if x > 0]
    rest = [rng.choice(sizes) for _ in range(n - k)]
    p, f = gen.valid_message_payload(rng, rng.choice([1, 5, 8, 12, 15, 16, 18, 21, 27, None]))
    total = lacc + sum(rest)
    body = (p + gen.random_alphabet(rng, max(0, total - len(p))))[:total]
    if len(body) >= len(p) and rng.random() < 0.6:
        fin_fill = f if len(body) == len(p) else 0
    else:
        fin_fill = rng.randrange(6)
    if fin_fill and rng.random() < 0.5:
        # padding bits need not be zero: the declared count says how many of the last bits are not message bits
        v = ais.sixbit(body[-1]) | ((1 << fin_fill) - 1)
        body = body[:-1] + bytes([ais.armor_char(v)])
    pieces, pos = [], 0
    for sz in _split(rng, lacc, k) + rest:
        pieces.append(body[pos:pos + sz])
        pos += sz
    # the channel field of the group's lines: one value, none, or another on every line (it plays no part in sequencing)
    chmode = rng.choice(["A", "A", "", "vary", "B"])
    chan = lambda: rng.choice([b"A", b"B", b"", b"1"]) if chmode == "vary" else chmode.encode()
    frag = lambda i, **kw: S(pieces[i], nf=kw.pop("nf", n), fn=i + 1, mid=kw.pop("mid", mid),
                             fill=kw.pop("fill", fin_fill if i == n - 1 else 0), channel=kw.pop("channel", chan()), **kw)
    if not fresh:
        for i in range(k):
            ops.append(L(frag(i), 0, d0 if rng.random() < 0.8 else 1 - d0))
    else:
        k = 0
    nxt = k           # index of the group's next fragment
    dE = rng.randrange(2)
    ev = rng.choice(["none", "cks-cont", "count-changed", "foreign-id", "oversize", "oversize", "garbage", "unfrag-ok", "unfrag-bad",
                     "cont-badchar", "cont-fill", "dup", "new-first", "far-number", "cks-any", "zero-numbered", "cont-malformed"])
    replaced = False
    if ev == "cks-cont" and nxt < n:
        good = frag(nxt)
        c = int(good[-2:], 16)
        ops.append(L(good[:-2] + b"%02X" % (c ^ rng.choice([1, 0x10, 0x80, 0xFF])), 0, dE))
    elif ev == "count-changed" and nxt < n:
        nf2 = rng.choice([max(0, nxt - 1), nxt, nxt + 1, nxt + 2, n + 1, 255, 0, 1])
        ops.append(L(S(gen.random_alphabet(rng, rng.choice(sizes)), nf=nf2, fn=nxt + 1, mid=mid, fill=0), 0, dE))
    elif ev == "foreign-id":
        ops.append(L(S(gen.random_alphabet(rng, rng.choice(sizes)), nf=n, fn=nxt + 1, mid=other, fill=0, channel=chan()), 0, dE))
    elif ev == "oversize":
        big = gen.random_alphabet(rng, rng.choice([385, 386, 400, 500, 1000]))
        shape = rng.choice(["unfrag", "unfrag-id", "first-other", "first-same", "out-of-seq", "in-seq", "cks"])
        if shape == "unfrag":
            ops.append(L(S(big, fill=0), 0, dE))
        elif shape == "unfrag-id":
            ops.append(L(S(big, fill=0, mid=mid), 0, dE))
        elif shape == "first-other":
            ops.append(L(S(big, nf=2, fn=1, mid=other, fill=0), 0, dE))
        elif shape == "first-same":
            ops.append(L(S(big, nf=n, fn=1, mid=mid, fill=0), 0, dE))
        elif shape == "out-of-seq":
            ops.append(L(S(big, nf=max(n, nxt + 4), fn=nxt + 3, mid=mid, fill=0), 0, dE))
        elif shape == "cks":
            g_ = S(big, nf=n, fn=nxt + 1, mid=mid, fill=0)
            ops.append(L(g_[:-2] + b"%02X" % (int(g_[-2:], 16) ^ 0x21), 0, dE))
        else:
            ops.append(L(S(big, nf=max(n, nxt + 2), fn=nxt + 1, mid=mid, fill=0), 0, dE))
    elif ev == "garbage":
        ops.append(L(rng.choice([b"garbage", b"", S(b"15M", fill=6), S(b"", fill=0), b"!AIVDM,1,1,,A,15M,0", b"\xff\xfe",
                                 S(b"15M", fill=0)[:-2] + b"ZZ"]), 0, dE))
    elif ev == "unfrag-ok":
        q, g = gen.valid_message_payload(rng)
        ops.append(L(S(q, fill=g, mid=rng.choice([None, mid, other])), 0, dE))
    elif ev == "unfrag-bad":
        ops.append(L(S(rng.choice([b"1~~~", b"F0000000", b"1", b"5X", b"8" + bytes([rng.choice(BADCH)])]), fill=0,
                       mid=rng.choice([None, mid])), 0, dE))
    elif ev == "cont-badchar" and nxt < n:
        pb = bytearray(pieces[nxt])
        pb[rng.randrange(len(pb))] = rng.choice(BADCH)
        pieces[nxt] = bytes(pb)
        ops.append(L(frag(nxt), 0, dE))
        replaced = True
    elif ev == "cont-malformed" and nxt < n:
        # the group's own next fragment, in sequence, but not a sentence: a fill count of 6 ... 255, a count or number
        # above 255, a missing field - rejected for its form before sequencing, whatever position it has in the group
        kw_ = rng.choice([dict(fill_txt=rng.choice([b"6", b"7", b"9", b"10", b"64", b"255"])), dict(nf_txt=str(n + 256).encode()),
                          dict(fn_txt=str(nxt + 1 + 256).encode()), dict(fill_txt=b""), dict(mid_txt=b"x")])
        ops.append(L(frag(nxt, **kw_), 0, dE))
    elif ev == "cont-fill" and nxt < n - 1:
        ops.append(L(frag(nxt, fill=rng.randrange(1, 6)), 0, dE))
        replaced = True
    elif ev == "dup" and k > 0:
        j = rng.choice([k - 1, max(0, k - 2), 0])
        ops.append(L(frag(j), 0, dE))
    elif ev == "new-first":
        q = gen.random_alphabet(rng, rng.choice([4, 40, 200]))
        ops.append(L(S(q, nf=2, fn=1, mid=rng.choice([other, mid]), fill=0), 0, dE))
        if rng.random() < 0.5:
            ops.append(L(S(gen.random_alphabet(rng, 4), nf=2, fn=2, mid=other, fill=0), 0, rng.randrange(2)))
    elif ev == "far-number":
        g = min(255, nxt + 1 + 16 * rng.choice([1, 2, 4, 8, 15]))
        ops.append(L(S(gen.random_alphabet(rng, 5), nf=max(n, g), fn=g, mid=rng.choice([mid, other]), fill=0), 0, dE))
    elif ev == "cks-any":
        g_ = S(gen.random_alphabet(rng, rng.choice([5, 100, 300])), nf=rng.choice([1, 2, n]), fn=rng.choice([1, 2, nxt + 1]),
               mid=rng.choice([mid, other]), fill=0)
        ops.append(L(g_[:-2] + b"%02X" % (int(g_[-2:], 16) ^ rng.choice([1, 0x40, 0xFF])), 0, dE))
    elif ev == "zero-numbered":
        ops.append(L(S(gen.random_alphabet(rng, 5), nf=rng.choice([0, 0, 1, n]), fn=rng.choice([0, 0, 1]), mid=rng.choice([mid, other]),
                       fill=0), 0, dE))
    # the rest of the group, under a decode-flag pattern of its own
    pat = rng.choice(["all0", "all1", "last1", "last0", "mixed"])
    start = nxt + 1 if replaced else nxt
    for i in range(start, n):
        last = i == n - 1
        d = {"all0": 0, "all1": 1, "last1": 1 if last else 0, "last0": 0 if last else 1, "mixed": rng.randrange(2)}[pat]
        ops.append(L(frag(i), 0, d))
    # trailer: whatever is left behind shows on an unfragmented sentence and on a fresh group
    q, g = gen.valid_message_payload(rng, rng.choice([1, 18, 27, 15]))
    ops.append(L(S(q, fill=g), 0, 1))
    cut = rng.randrange(1, len(q))
    tm = rng.choice([mid, other])
    ops.append(L(S(q[:cut], nf=2, fn=1, mid=tm, fill=rng.choice([0, 0, 3])), 0, rng.randrange(2)))
    ops.append(L(S(q[cut:], nf=2, fn=2, mid=tm, fill=g), 0, 1))
    return ops


def gap_histories(rng, tier):
    out = []
    gaps = [49, 50, 51, 63, 64, 65, 66, 100, 127, 128, 129, 200, 255, 256, 257, 300]
    if tier != "quick":
        gaps += [511, 512, 513, 1000, 1023, 1024, 1025]
    from .props_hist import noise_line
    for gap in gaps:
        for kind in ("valid", "rejected", "mixed"):
            t = rng.choice([1, 5, 8, 18, 21, 22])
            if t == 22:
                p, f = b"F" + gen.random_alphabet(rng, 27), 0       # an unsupported type: the delivered group must fail to decode
            else:
                p, f = gen.valid_message_payload(rng, t)
            n = rng.choice([2, 2, 3])
            cuts = sorted(rng.sample(range(1, len(p)), n - 1))
            pieces = [p[a:b] for a, b in zip([0] + cuts, cuts + [len(p)])]
            mid = rng.choice([None, 1, 7])
            at = rng.randrange(1, n)
            dec = rng.choice([1, 1, 0])
            ops = ["N 0"]
            for i, pc in enumerate(pieces):
                if i == at:
                    for j in range(gap):
                        if kind == "valid" or (kind == "mixed" and j % 2 == 0):
                            q, g = gen.valid_message_payload(rng, rng.choice([1, 1, 18, 4]))
                            ops.append(L(S(q, fill=g, channel=rng.choice([b"A", b"B"])), 0, rng.choice([dec, 1])))
                        else:
                            l = noise_line(rng)
                            ops.append(L(l, 0, dec))
                ops.append(L(S(pc, nf=n, fn=i + 1, mid=mid, fill=f if i == n - 1 else 0), 0, dec))
            out.append(ops)
    return out


def huge_group_histories(rng):
    """Groups that accumulate more than 2^16 payload bytes (decoding off on the completing line: the model's list-based
    unarmoring is quadratic)."""
    out = []
    for (n, size) in ((9, 8000), (66, 1000), (3, 30000)):
        ops = ["N 0"]
        for i in range(n):
            ops.append(L(S(gen.random_alphabet(rng, size), nf=n, fn=i + 1, mid=1, fill=0), 0, 0))
        q, g = gen.valid_message_payload(rng, 1)
        ops.append(L(S(q, fill=g), 0, 1))
        out.append(ops)
    return out


_CACHE = {}


def line_histories(seed, tier):
    key = (seed, tier)
    if key not in _CACHE:
        rng = random.Random(seed * 7919 + 13)
        hs = [product_history(rng) for _ in range(1200 if tier == "quick" else 12000)]
        hs += gap_histories(rng, tier)
        _CACHE[key] = (hs, huge_group_histories(rng))
    return _CACHE[key]


def msg_projection(prop, ans):
    """A decoding property's view of an answered line: outcome class plus the property's projection of the decoded message."""
    cls = ans.split(" ")[0]
    if cls == "C" and " msg=" in ans:
        msg = ans.split(" msg=", 1)[1].rsplit(" conv=", 1)[0]
        if msg.split(" ")[0] == "none":
            return "C none"
        return "C " + str(prop.project("M -", "ok " + msg))
    if cls in ("panic", "abort"):
        return "dies"
    return cls if cls in ("C", "I") else "E"


LINE_PIDS = ("C01", "C02", "C05", "C06", "C07", "C08", "C17", "C18", "C19")
MSG_PIDS = ("C04", "C09", "C10", "C11", "C12", "C13", "C14", "C15", "C16")


def run_lines(prop, pid, rep, tier, seed):
    hs, huge = line_histories(seed, tier)
    if pid in MSG_PIDS:
        proj = lambda a: msg_projection(prop, a)
    elif pid == "C18":
        proj = lambda a: a
    else:
        proj = lambda a: fuzzstage.line_projection(pid, a)
    for group, reconcile in ((hs, True), (huge, False)):
        flat = [o for ops in group for o in ops]
        for cfg in core.CFGS:
            impl = core.run_impl(cfg, flat, reconcile=reconcile)
            model = core.run_model(cfg, flat)
            i = 0
            for ops in group:
                n = len(ops)
                for j in range(1, n):
                    a, m = impl[i + j], model[i + j]
                    rep.evaluations += 1
                    if not reconcile and a.endswith(" st=?"):
                        # (a parser whose state is not readable from outside, in a stream that is not probed: outcomes only)
                        a, m = a.rsplit(" st=", 1)[0], m.rsplit(" st=", 1)[0]
                    pa, pm = proj(a), proj(m)
                    if pa != pm:
                        rep.count("state-event:differs")
                        rep.violation(f"{pid}: a history of the state x event product ({j} lines through one parser, {cfg} build) is answered "
                                      f"differently by implementation and model on this property's projection: impl={str(pa)[:160]!r} "
                                      f"model={str(pm)[:160]!r}", {"cfg": cfg, "ops": ops[:j + 1], "impl": a[:2000], "model": m[:2000]})
                        break
                else:
                    i += n
                    if any(a.startswith("C ") for a in impl[i - n:i]):
                        rep.nontrivial.add(ops[1][:200] + str(n))
                    continue
                break
            rep.count("state-event:" + cfg, len(flat))


def long_payload_ops(rng, tier):
    """Every message type with a payload of 2^13 + d and 2^14 + d bytes, d = 0 .. 64 (fixed-length types: what follows
    the message is ignored, so the fields are those of the message; types 6, 8, 12, 14, 17: the rest is data or text)."""
    ops = []
    for t in gen.ALL_TYPES:
        tt = t
        slow = t in (12, 14)
        for base_len in (8192, 16384):
            ds = range(0, 65) if not slow else (rng.sample(range(0, 65), 2 if tier == "quick" else 8))
            if tier == "quick" and not slow:
                ds = sorted(set(rng.sample(range(0, 65), 24)) | {0, 1, 10, 12, 17, 38, 52, 53})
            for d in ds:
                f = gen.base_fields(tt, rng, ais.LAYOUTS[tt])
                bs = gen.full_payload(tt, f)
                n = base_len + d
                fillb = rng.choice([0x00, 0xFF, None])
                tail = bytes([fillb]) * (n - len(bs)) if fillb is not None else bytes(rng.getrandbits(8) for _ in range(n - len(bs)))
                ops.append("M " + (bs + tail).hex())
    return ops


def run_long_payloads(prop, pid, rep, tier, seed):
    rng = random.Random(seed * 104729 + 7)
    ops = long_payload_ops(rng, tier)
    for cfg in ("std", "alloc"):
        impl = core.run_impl(cfg, ops)
        model = core.run_model(cfg, ops)
        for op, a, m in zip(ops, impl, model):
            rep.evaluations += 1
            pa, pm = prop.project(op, a), prop.project(op, m)
            if pa != pm:
                rep.violation(f"{pid}: a payload of {len(op) // 2 - 1} bytes (message type {int(op[2:4], 16) >> 2}) decodes differently in "
                              f"implementation and model on this property's projection: impl={str(pa)[:200]!r} model={str(pm)[:200]!r}",
                              {"cfg": cfg, "ops": [op], "impl": a[:2000], "model": m[:2000]})
                break
            if a.startswith("ok"):
                rep.nontrivial.add(op[:40] + str(len(op)))
        rep.count("long-payload:" + cfg, len(ops))


def run(prop, pid, rep, tier, seed):
    if pid in LINE_PIDS or pid in MSG_PIDS:
        run_lines(prop, pid, rep, tier, seed)
    if pid in MSG_PIDS:
        run_long_payloads(prop, pid, rep, tier, seed)

"""Sentence-level and history properties: C01, C02, C05, C06, C07, C08, C17, C18, C19, C20."""
import os
import subprocess
from . import ais, gen, core
from .core import hexs, parse_answer
from .refsent import ref_sentence, sent_kv

TALKER_LIST = [b"AB", b"AD", b"AI", b"AN", b"AR", b"AS", b"AT", b"AX", b"BS", b"SA"]


def L(line, slot=0, dec=1, conv="o"):
    return f"L {slot} {dec} {conv} {hexs(line)}"


def rand_bytes(rng, n, exclude=b""):
    out = bytearray()
    while len(out) < n:
        b = rng.getrandbits(8)
        if b not in exclude:
            out.append(b)
    return bytes(out)


def zeros_txt(rng, v):
    return (b"0" * rng.choice([0, 0, 0, 1, 2, 5])) + str(v).encode()


def rand_valid_sentence(rng, payload=None, fill=None, nf=1, fn=1, mid=None, wild=True):
    """A well-formed sentence with structured variety in every field."""
    if payload is None:
        r = rng.random()
        if r < 0.6:
            payload, f2 = gen.valid_message_payload(rng)
            if fill is None:
                fill = f2
        elif r < 0.8 or not wild:
            payload = gen.random_alphabet(rng, rng.choice([1, 2, 3, 5, 28, 40, 70]))
        else:
            payload = rand_bytes(rng, rng.choice([1, 2, 7, 30]), exclude=b",*")
    if fill is None:
        fill = rng.randrange(6)
    talker = rng.choice(TALKER_LIST) if rng.random() < 0.7 or not wild else rand_bytes(rng, 2, exclude=b"*")
    report = rng.choice([b"VDM", b"VDO"]) if rng.random() < 0.8 or not wild else rand_bytes(rng, 3, exclude=b"*")
    ch = rng.choice([b"A", b"B", b"", b"1", b"2", b"AB"]) if rng.random() < 0.85 or not wild else \
        rand_bytes(rng, rng.choice([1, 2, 3]), exclude=b",*")
    kw = {}
    if rng.random() < 0.2:
        kw["nf_txt"] = zeros_txt(rng, nf)
    if rng.random() < 0.2:
        kw["fn_txt"] = zeros_txt(rng, fn)
    if rng.random() < 0.2:
        kw["fill_txt"] = zeros_txt(rng, fill)
    if mid is not None and rng.random() < 0.2:
        kw["mid_txt"] = zeros_txt(rng, mid)
    tb = None
    if rng.random() < 0.2:
        tb = rng.choice([b"s:2573345,c:1696241893*00", b"", b"g:1-2-73874,n:157036,s:r003669945*4A",
                         rand_bytes(rng, 5, exclude=b"\\")])
    delim = b"!" if rng.random() < 0.8 else b"$"
    tail = rng.choice([b"", b"", b"\r", b"\r\n", b" ", b"xyz", b",1234", b"*00"]) if rng.random() < 0.4 else b""
    line = ais.sentence(payload, fill=fill, nf=nf, fn=fn, mid=mid, channel=ch, talker=talker, report=report,
                        delim=delim, tagblock=tb, tail=tail, **kw)
    return line


def varied_sentence(rng, payload, **kw):
    """ais.sentence with the fields that carry no meaning for the payload drawn at random half of the time:
    talker (known, unknown, lower case), sentence formatter (VDM, VDO, others), channel, start delimiter."""
    if rng.random() < 0.5:
        kw.setdefault("talker", rng.choice(TALKER_LIST + [b"XX", b"ai", b"GP", b"\x00\x7f"]))
        kw.setdefault("report", rng.choice([b"VDM", b"VDO", b"VDX", b"ABM", b"BBM", b"vdm", b"TXT", b"\xff\xfe\xfd"]))
        kw.setdefault("channel", rng.choice([b"A", b"B", b"", b"1", b"2", b"C", b"AB"]))
        kw.setdefault("delim", rng.choice([b"!", b"!", b"$"]))
    if rng.random() < 0.2:
        # legal respellings that move every later field: leading zeros in the counts, a channel of several bytes
        nf_, fn_ = kw.get("nf", 1), kw.get("fn", 1)
        if "nf_txt" not in kw and rng.random() < 0.6:
            kw["nf_txt"] = b"0" * rng.choice([1, 2]) + str(nf_).encode()
        if "fn_txt" not in kw and rng.random() < 0.6:
            kw["fn_txt"] = b"0" * rng.choice([1, 3]) + str(fn_).encode()
        if rng.random() < 0.4:
            kw["channel"] = rng.choice([b"AB", b"BA1", b"12"])
    if rng.random() < 0.15 and "tagblock" not in kw:
        # a tag block is skipped as a unit, whatever it contains: delimiters, commas, '*', digits
        kw["tagblock"] = rng.choice([b"t:MAYDAY!,c:1696241893*1E", b"s:$X,1,2,3,4,5,6,7*00", b"!,,,,,B,w", b"$AIVDM,1,1,,A,15M,0*00",
                                     b"c:1,!AIVDM,9,9,9,w,www,5", b",,,,,,,", b"*"])
    return ais.sentence(payload, **kw)


def mutations(rng, line, per=None):
    """Every single-point mutation (delete / replace / insert a byte) of a line, or a sample of `per`."""
    out = []
    pos = range(len(line) + 1)
    specials = [b",", b"*", b"0", b"9", b"6", b"!", b"$", b"\\", b"A", b"G", b"g", b"\x00", b"\xff", b" "]
    for i in pos:
        if i < len(line):
            out.append(line[:i] + line[i + 1:])
            for s in rng.sample(specials, 3):
                out.append(line[:i] + s + line[i + 1:])
        for s in rng.sample(specials, 2):
            out.append(line[:i] + s + line[i:])
    if per is not None and len(out) > per:
        out = rng.sample(out, per)
    return out


def near_misses(rng):
    """Grammar-generated near misses named in C08."""
    p, f = gen.valid_message_payload(rng, 1)
    base = dict(fill=f)
    out = []
    S = ais.sentence
    out += [S(p, fill=5), S(p, fill=6), S(p, fill_txt=b"06", fill=6), S(p, fill_txt=b"05", fill=5),
            S(p, fill_txt=b"", fill=0), S(p, fill_txt=b"5x", fill=5), S(p, fill_txt=b"10", fill=0)]
    # the fill count is checked on every line, fragment or not, first, middle or last
    for (n, k) in ((2, 1), (3, 2), (2, 2), (9, 1)):
        for ft in (b"5", b"6", b"7", b"9", b"10", b"255", b"06"):
            out.append(S(p, nf=n, fn=k, mid=7, fill_txt=ft, fill=0))
    out += [S(p, nf=255, fn=255, **base), S(p, nf_txt=b"256", **base), S(p, nf_txt=b"0256", **base),
            S(p, nf_txt=b"0255", nf=255, fn=255, **base), S(p, fn_txt=b"256", **base), S(p, nf_txt=b"", **base),
            S(p, fn_txt=b"", **base), S(p, nf_txt=b"1a", **base), S(p, nf_txt=b"-1", **base), S(p, nf_txt=b"+1", **base),
            S(p, nf_txt=b" 1", **base), S(p, nf_txt=b"00000000000000000000001", **base),
            S(p, nf_txt=b"99999999999999999999999", **base)]
    out += [S(p, mid=0, **base), S(p, mid=9, **base), S(p, mid=255, **base), S(p, mid_txt=b"256", **base),
            S(p, mid_txt=b"a", **base), S(p, mid_txt=b"007", **base)]
    out += [S(b"", **base), S(p, channel=b"", **base), S(p, channel=b"ABC", **base), S(p, channel=b"\xc3\xa9", **base),
            S(p, channel=b"\xff", **base)]
    good = S(p, **base)
    body = good[1:good.index(b"*")]
    c = ais.xor_all(body)
    for txt in (b"%02x" % c, b"%02X" % c, b"%x" % c, b"0%02X" % c, b"000000%02X" % c, b"0000000%02X" % c,
                b"00000000%02X" % c, b"1%02X" % c, b"100", b"0FF", b"ff", b"", b"G1", b"%02Xzz" % c, b"%02XA" % c,
                b"%02X0" % c):
        out.append(good[:good.index(b"*") + 1] + txt)
    # a byte-order mark or other invisible prefix before the sentence (nothing precedes the tag block / delimiter)
    for pre in (b"\xef\xbb\xbf", b"\xff\xfe", b"\xfe\xff", b"\x00", b"\x7f", b"\x1b[0m", b"\xc2\xa0", b"\xe2\x80\x8b"):
        out += [pre + good, pre + b"\\s:x*00\\" + good, b"\\s:x*00\\" + pre + good]
    # bit-twiddled twins of the two checksum digits (case folding by OR-ing 0x20, parity bits, ...): not hex digits
    st_ = good.index(b"*") + 1
    for k in (0, 1):
        for x in (0x20, 0x40, 0x80, 0x10, 0x30):
            t = bytearray(good)
            t[st_ + k] ^= x
            if bytes(t[st_:st_ + 2]).upper() != good[st_:st_ + 2].upper():
                out += [bytes(t), bytes(t) + b"\r\n"]
        for ctl in range(0x10, 0x1A):
            out.append(good + bytes([ctl]))
    # signed / prefixed / padded checksum texts (the value after '*' is a run of hex digits, nothing else)
    for txt in (b"+%X" % (c & 15), b"+%02X" % c, b"-%02X" % c, b" %02X" % c, b"0x%02X" % c, b"+0", b"+", b"-0", b"%02X " % c, b"%02X+" % c,
                b"\t%02X" % c, b"_%02X" % c):
        out.append(good[:good.index(b"*") + 1] + txt)
    zb = S(b"0", fill=0)
    zc = ais.xor_all(zb[1:zb.index(b"*")])
    out += [zb[:zb.index(b"*") + 1] + b"+%X" % (zc & 15), zb[:zb.index(b"*") + 1] + b"+%02X" % zc]
    # several sentences in one argument (a datagram handed over whole): one call answers for the first sentence only
    bad_ck = good[:-2] + b"%02X" % (c ^ 0x55)
    other = S(gen.random_alphabet(rng, 7), fill=0, channel=b"B")
    out += [bad_ck + b"\n" + other, bad_ck + b"\r\n" + other, bad_ck + b"\r\n" + other + b"\r\n", good + b"\n" + other, good + b"\r\n" + bad_ck,
            good + other, bad_ck + other, b"garbage\n" + other, b"\n" + other, b"\r\n" + other,
            S(p[:5], nf=2, fn=1, mid=6, fill=0) + b"\n" + S(p[5:9], nf=2, fn=2, mid=6, fill=0)]
    out += [good[:good.index(b"*")], good.replace(b"*", b""), b"$" + good[1:], b"#" + good[1:], good[1:],
            b" " + good, b"x" + good, b"\\" + good, b"\\abc" + good, b"\\abc\\" + good, b"\\\\" + good,
            b"\\a\\b\\" + good, good + b"\r\n", good + b"\n", good + b"*FF", b"", b"!", b"!*", b"!*00", b"$*00",
            b"!AIVDM*00", b"!AIVDM,*00", good.replace(b",", b",,", 1), good.replace(b",", b"", 1),
            good.replace(b"AIVDM", b"AIVD"), good.replace(b"AIVDM", b"AIVDMX"), good.replace(b"AIVDM", b"**VDM"),
            good.replace(b"AIVDM", b",,,,,")]
    # two or more tag blocks in a row (one optional block is the grammar), empty blocks, a block after the sentence start
    out += [b"\\a\\\\b\\" + good, b"\\g:1-2-7*00\\\\s:x*00\\" + good, b"\\\\\\\\" + good, b"\\a\\\\\\" + good, b"\\a\\\\b\\\\c\\" + good,
            b"\\a\\ \\b\\" + good, good[:1] + b"\\a\\" + good[1:], b"\\a*7F\\" + good, b"\\s:r1,c:2*5F\\" + good, b"\\s:r1,c:2*00\\" + good,
            b"\\s:r1,c:2*zz\\" + good, b"\\*\\" + good, b"\\*00\\" + good]
    # a comma (or another field separator) as one of the five address bytes: the address is five bytes, whatever they are
    for i in range(5):
        for sep in (b",", b"!", b"$", b"\\", b"^"):
            ad = bytearray(b"AIVDM")
            ad[i:i + 1] = sep
            out.append(S(p, talker=bytes(ad[:2]), report=bytes(ad[2:]), **base))
    # more than one start delimiter, a delimiter after the tag block and another one
    out += [b"!" + good, b"$" + good, b"!$" + good, b"$!" + good, b"!!!" + good, b"\\s:x*00\\!" + good, b"\\s:x*00\\$" + good,
            good[:1] + good, b"!" + good[1:].replace(b"*", b"!*", 1)]
    # NMEA escapes and grouping parameters that a helpful reader might resolve: `^HH` in payload and channel, a `g:` tag block
    for esc in (b"^41", b"^2C", b"^2A", b"^5E", b"^0A", b"^4", b"^GG", b"^41^42"):
        out += [S(p[:4] + esc + p[4:], **base), S(p[:6] + esc, nf=2, fn=1, mid=4, fill=0), S(p, channel=esc, **base)]
    for g in (b"g:1-2-7", b"g:1-2-7*00", b"g:2-2-7", b"g:1-2-255", b"s:x,g:1-2-3,c:1", b"g:1-1-9", b"g:01-02-007"):
        out += [S(p[:6], nf=2, fn=1, mid=None, fill=0, tagblock=g), S(p[:6], nf=2, fn=1, mid=3, fill=0, tagblock=g),
                S(p, tagblock=g, **base)]
    # payload or channel containing '*' (the checksummed region ends there)
    q = p[:3] + b"*" + p[3:]
    out += [S(q, **base), S(p, channel=b"*", **base), S(p, talker=b"*I", **base)]
    b2 = b"AIVDM,1,1,,A,1"
    out.append(b"!" + b2 + b"*" + (b"%02X" % ais.xor_all(b2)) + b",0*" + (b"%02X" % ais.xor_all(b2)))
    out.append(b"!AIVDM,1,1,,A,1*FF,0*0B")
    out += minimal_lines(rng)
    out += field_surgery(rng, p, f)
    # an escape at the very start of the payload (the sentence-level type is read there) and alone in a fragment
    for esc in (b"^41", b"^40", b"^30", b"^7F", b"^00", b"^5e", b"^"):
        out += [S(esc + p, **base), S(esc + p[:6], nf=2, fn=1, mid=4, fill=0), S(esc, **base)]
    out += numeric_extremes(rng, p, f)
    out += numeric_spellings(rng, p, f)
    out += padding_variants(rng, p, f)
    out += utf8_lines(rng, 12)
    return out


def minimal_lines(rng):
    """The shortest lines of the language and their neighbours: empty id and channel, one payload character, one-digit
    counts, a checksum below 0x10 written with ONE hex digit (18 bytes in all), with two and three; the same one byte
    shorter in every field."""
    out = []
    for (talker, report, delim) in ((b"AI", b"VDM", b"!"), (b"AI", b"VDO", b"$"), (b"AB", b"VDM", b"!")):
        for c in gen.ALPHABET:
            for ch in (b"", b"A"):
                body = talker + report + b",1,1,," + ch + b"," + bytes([c]) + b",0"
                x = ais.xor_all(body)
                if x < 16:
                    out += [delim + body + b"*%X" % x, delim + body + b"*%02X" % x, delim + body + b"*%03X" % x, delim + body + b"*%x\r" % x]
                elif rng.random() < 0.1:
                    out += [delim + body + b"*%02X" % x, delim + body + b"*%X" % (x >> 4), delim + body + b"*%X" % (x & 15)]
    out += [b"!AIVDM,1,1,,,,0*5D", b"!AIVDM,1,1,,,0,*6D", b"!AIVDM,1,,,,0,0*6C", b"!AIVDM,,1,,,0,0*6C", b"!AIVD,1,1,,,0,0*10"]
    return out


def field_surgery(rng, p=None, f=0):
    """Whole-field edits of a valid sentence, the checksum recomputed: each of the seven comma-separated fields removed
    (with its comma), emptied, doubled, and swapped with its neighbour; an empty field inserted at every position - for
    an unfragmented sentence, a first fragment with an id and one without.  Seven fields in this order is the grammar:
    a line with six or eight is not a sentence, whichever field a lenient reader would guess is missing."""
    if p is None:
        p, f = gen.valid_message_payload(rng, 1)
    out = []
    for good in (ais.sentence(p, fill=f), ais.sentence(p, fill=f, channel=b""), ais.sentence(p[:9], nf=2, fn=1, mid=3, fill=0),
                 ais.sentence(p[:9], nf=2, fn=1, mid=None, fill=0), ais.sentence(p, fill=f, mid=5, channel=b"B")):
        body = good[1:good.index(b"*")]
        fields = body.split(b",")
        variants = []
        for i in range(len(fields)):
            variants.append(fields[:i] + fields[i + 1:])
            variants.append(fields[:i] + [b""] + fields[i + 1:])
            variants.append(fields[:i] + [fields[i], fields[i]] + fields[i + 1:])
            variants.append(fields[:i] + [b""] + fields[i:])
            if i + 1 < len(fields):
                variants.append(fields[:i] + [fields[i + 1], fields[i]] + fields[i + 2:])
        variants.append(fields + [b""])
        variants.append(fields + [b"0"])
        variants.append(fields[:5] + fields[6:] + [fields[5]])
        for v in variants:
            b2 = b",".join(v)
            out.append(good[:1] + b2 + b"*%02X" % ais.xor_all(b2))
    return out


def numeric_spellings(rng, p=None, f=0):
    """Spellings of a small number that a lenient number parser would take (sign, blanks, radix prefix, decimal
    point, exponent, separators, non-ASCII digits, value + 256): in every numeric field, on an unfragmented
    sentence and on the fragments of a group.  Only plain decimal digits (with any leading zeros) are a number."""
    if p is None:
        p, f = gen.valid_message_payload(rng, 1)
    S = ais.sentence

    def spell(v):
        d = str(v).encode()
        return [b"+" + d, b"-" + d, b" " + d, d + b" ", b"\t" + d, b"0x" + d, b"0" + d, b"00" + d, d + b".0", d + b"e0",
                d + b"_", b"+0" + d, str(v + 256).encode(), str(v + 512).encode(), b"0" + str(v + 256).encode(),
                "\uff10".encode() + d if v < 10 else d, "\u0660".encode()[:0] + bytes([0xd9, 0xa0 + v % 10]), d + b"\x00"]
    out = []
    for txt in spell(1):
        out += [S(p, fill=f, nf_txt=txt), S(p, fill=f, fn_txt=txt), S(p, fill=f, nf_txt=txt, fn_txt=txt)]
    for v in (0, 3, 9):
        for txt in spell(v):
            out.append(S(p, fill=f, mid_txt=txt))
            out.append(S(p[:5], nf=2, fn=1, mid_txt=txt, fill=0))
    for txt in spell(2):
        out += [S(p[:5], nf=2, fn=1, mid=3, fill=0, nf_txt=txt), S(p[5:9], nf=2, fn=2, mid=3, fill=0, fn_txt=txt),
                S(p[5:9], nf=2, fn=2, mid=3, fill=0, nf_txt=txt, fn_txt=txt)]
    for txt in spell(f):
        out.append(S(p, fill_txt=txt, fill=0))
    return out


def padding_variants(rng, p=None, f=0):
    """Blanks, tabs, CR, LF, NUL around the structural characters of a valid sentence - before and after the '*', the
    start delimiter, every comma and the checksum digits - with the checksum of the original region and with the
    checksum of the region as transmitted.  None of these bytes is ignored by the grammar."""
    if p is None:
        p, f = gen.valid_message_payload(rng, 1)
    out = []
    for good in (ais.sentence(p, fill=f), ais.sentence(p[:7], nf=2, fn=1, mid=4, fill=0)):
        star = good.index(b"*")
        spots = {0, 1, star, star + 1, len(good), good.index(b","), good.index(b",") + 1, good.rindex(b","), good.rindex(b",") + 1, star + 2}
        for pad in (b" ", b"\t", b"\r", b"\n", b"\x00", b"  ", b"\r\n"):
            for i in sorted(spots):
                line = good[:i] + pad + good[i:]
                out.append(line)
                st = line.index(b"*")
                # the same line with the checksum of what is now between the delimiter and the '*'
                d0 = 0
                while d0 < len(line) and line[d0:d0 + 1] not in (b"!", b"$"):
                    d0 += 1
                if d0 < st:
                    out.append(line[:st + 1] + b"%02X" % ais.xor_all(line[d0 + 1:st]) + line[st + 3:])
    return out


def utf8_lines(rng, n=10):
    """Text lines that are valid UTF-8 with multi-byte characters at varying byte offsets (error
    messages quote the offending input), of 0..200 bytes, most of them rejected by the grammar."""
    out = []
    words = ["Z\u00fcrich", "\u00c5lesund", "na\u00efve", "\u6e2f", "\U0001f6a2", "caf\u00e9", "\u00f8", "abc", " ", ",", "TXT", "*", "1,1,,A,"]
    for _ in range(n):
        pre = rng.choice([b"", b"!", b"$", b"$GPTXT,01,01,02,", b"!AIVDM,1,1,,A,", b"!AIVDM,2,1,3,B,", b"\\s:x\\!AIVDM,"])
        target = rng.choice([0, 5, 30, 58, 59, 60, 61, 62, 63, 64, 65, 100, 200])
        body = bytearray(rng.choice([b"", b"a", b"ab", b"abc"]))
        while len(body) < target:
            body += rng.choice(words).encode("utf-8")
        tail = rng.choice([b"", b"*00", b"*7F", b",0*00"])
        out.append(pre + bytes(body) + tail)
    # dense multi-byte text: with the two parities (three residues) every byte offset of the remaining
    # input falls inside a character for one of the lines, wherever the parser stopped
    for pre in (b"", b"!", b"$GPTXT,01,01,02,", b"!AIVDM,1,1,,A,", b"!AIVDM,1,1,,A,15,0"):
        for shift in (0, 1):
            out.append(pre + b"a" * shift + "\u00fc".encode("utf-8") * 150)
        for shift in (0, 1, 2):
            out.append(pre + b"a" * shift + "\u6e2f".encode("utf-8") * 90 + b"*00")
    return out


def numeric_extremes(rng, p=None, f=0):
    """Every numeric field with digit strings around and far beyond u8/u16/u32/u64/u128."""
    if p is None:
        p, f = gen.valid_message_payload(rng, 1)
    S = ais.sentence
    vals = [b"255", b"256", b"999", b"65535", b"65536", b"4294967295", b"4294967296", b"9999999999",
            b"18446744073709551615", b"18446744073709551616", b"9" * 39, b"9" * 40, b"0" * 40 + b"1",
            b"0" * 12 + b"255", b"0" * 12 + b"256"]
    out = []
    for v in vals:
        out += [S(p, fill=f, nf_txt=v), S(p, fill=f, fn_txt=v), S(p, fill=f, mid_txt=v), S(p, fill_txt=v, fill=0),
                S(p, fill=f, nf_txt=v, fn_txt=v)]
    return out


# ---------------------------------------------------------------------------------------------

class SentProp:
    pass

    def judge(self, rep, cfg, label, ops, impl, model):
        raise NotImplementedError


def op_line(op):
    h = op.split(" ")[4]
    return b"" if h == "-" else bytes.fromhex(h)


class C08(SentProp):
    id = "C08"
    name = "accepted sentence language"
    rule = ("L ops on a fresh parser, decode off: structured valid sentences (every field varied), every single-point "
            "mutation of valid sentences (quick: of 6 sentences; thorough: of 40), the named near-misses of the "
            "statement (fill 5/6/06, counts 255/256/0256, empty payload, checksum text variants, tag-block variants, "
            "'*' inside a field), raw random byte strings; projection = accepted / rejected at the sentence level, "
            "judged against a Python transcription of the statement and against the model. "
            "non-trivial = distinct line accepted by the implementation, plus distinct rejected mutations of an accepted line")

    def cases(self, tier, rng):
        nvalid = 300 if tier == "quick" else 3000
        nmut = 6 if tier == "quick" else 40
        ops = []
        for _ in range(nvalid):
            ops += ["N 0", L(rand_valid_sentence(rng), dec=0)]
        yield ("valid", ops)
        ops = []
        for _ in range(nmut):
            base = rand_valid_sentence(rng, payload=gen.random_alphabet(rng, rng.choice([1, 4, 9])))
            for m in mutations(rng, base):
                ops += ["N 0", L(m, dec=0)]
        yield ("mutation", ops)
        ops = []
        for _ in range(3 if tier == "quick" else 30):
            for m in near_misses(rng):
                ops += ["N 0", L(m, dec=0)]
        yield ("near-miss", ops)
        ops = []
        for _ in range(300 if tier == "quick" else 5000):
            n = rng.choice([0, 1, 2, 5, 10, 30, 80])
            ops += ["N 0", L(rand_bytes(rng, n), dec=0)]
        yield ("random-bytes", ops)
        # bytes after the checksum are ignored and a tag block may be long: lines far longer than any buffer
        ops = []
        for _ in range(12 if tier == "quick" else 120):
            p, f = gen.valid_message_payload(rng, rng.choice([1, 5, 18]))
            n = rng.choice([300, 336, 337, 383, 384, 385, 400, 1000, 5000])
            tail = rng.choice([b",", b" ", b"\r\n", b"x"]) + rand_bytes(rng, n, exclude=b"")
            ops += ["N 0", L(ais.sentence(p, fill=f, tail=tail), dec=0)]
            ops += ["N 0", L(ais.sentence(p, fill=f, tagblock=rand_bytes(rng, n, exclude=b"\\")), dec=0)]
            big = gen.random_alphabet(rng, rng.choice([383, 384, 385, 600]))
            ops += ["N 0", L(ais.sentence(big, fill=0), dec=0)]
        yield ("long-lines", ops)

    def extra_run(self, rep, tier, cfgs):
        from .props_hist import C20
        C20().tool_pass(rep, "C08")

    def judge(self, rep, cfg, label, ops, impl, model):
        for op, a, m in zip(ops, impl, model):
            if not op.startswith("L "):
                continue
            rep.evaluations += 1
            rep.count(label)
            line = op_line(op)
            ref = ref_sentence(line, cfg == "noalloc")
            pa, pm = parse_answer(a), parse_answer(m)
            acc_impl = pa["cls"] in ("C", "I")
            acc_model = pm["cls"] in ("C", "I")
            # sequencing errors cannot occur on a fresh parser for fn==1 lines; for other numbering the
            # sentence level is still decided before sequencing, so compare 'sentence-level ok' instead
            sl_ref = ref[0] == "ok"
            sl_impl = acc_impl or (pa["cls"] == "E" and pa.get("err") == "nmea" and sl_ref and self.seq_reject(ref[1]))
            rep.count("ref:" + ref[0])
            if acc_impl:
                rep.nontrivial.add(op)
            elif label == "mutation":
                rep.nontrivial.add(op)
            if sl_impl != sl_ref:
                rep.violation(f"C08: line {line!r} is {'accepted' if acc_impl else 'rejected'} but the specified "
                              f"shape says {'well-formed with matching checksum' if sl_ref else ref[0]}",
                              {"cfg": cfg, "ops": ["N 0", op], "impl": a, "model": m})
            elif acc_impl != acc_model:
                rep.violation(f"C08: model and implementation disagree on acceptance of {line!r}",
                              {"cfg": cfg, "ops": ["N 0", op], "impl": a, "model": m})
            if rep.evaluations % 499 == 0:
                rep.sample({"line": line.decode("latin1"), "impl": a[:80]})

    @staticmethod
    def seq_reject(f):
        """On a fresh parser a well-formed sentence is rejected only for sequencing: a fragment number
        other than 1 in a multi-fragment declaration."""
        if f["nf"] == 1 and f["fn"] >= 1:
            return False
        if f["fn"] < f["nf"]:
            return f["fn"] != 1
        # last (or beyond-last) fragment of nf != 1 on a fresh parser
        return not (f["id"] is None and f["fn"] == 1)


class C02(SentProp):
    id = "C02"
    name = "checksum gate"
    rule = ("L ops: valid sentence bodies x all 256 transmitted checksum values (quick: 8 bodies, thorough: 60), "
            "every single-byte replacement at every position of valid sentences, bodies containing '*', '!', '$', "
            "'\\\\', fragment-path sentences (first, middle, last fragment with a wrong checksum must not touch the "
            "state), random parser states; predicate evaluated on the implementation's own answer: accepted => "
            "XOR(body up to first '*') == hex value after that '*'; well-formed and different => Checksum error with "
            "(transmitted, computed); equal => never a checksum error. non-trivial = distinct line that reached the "
            "checksum comparison (accepted or Checksum error)")

    def cases(self, tier, rng):
        nb = 8 if tier == "quick" else 60
        ops = []
        for _ in range(nb):
            nf, fn, mid = rng.choice([(1, 1, None), (2, 1, 3), (2, 2, 3), (3, 2, 7)])
            payload = gen.random_alphabet(rng, rng.choice([1, 5, 28]))
            pre = self.state_prefix(rng, nf, fn, mid)
            for c in range(256):
                ops += ["N 0"] + pre + [L(ais.sentence(payload, nf=nf, fn=fn, mid=mid, fill=rng.randrange(6), cks=c), dec=0)]
        yield ("all-256", ops)
        ops = []
        for _ in range(6 if tier == "quick" else 40):
            base = rand_valid_sentence(rng, payload=gen.random_alphabet(rng, rng.choice([2, 6, 28])))
            for i in range(len(base)):
                for _ in range(2):
                    b = rng.getrandbits(8)
                    ops += ["N 0", L(base[:i] + bytes([b]) + base[i + 1:], dec=0)]
        yield ("corruption", ops)
        ops = []
        for _ in range(5 if tier == "quick" else 50):
            for m in near_misses(rng):
                ops += ["N 0", L(m, dec=0)]
        yield ("near-miss", ops)
        # the checksum covers every byte between delimiter and '*', however long that region is
        ops = []
        for n in ([60, 200, 300, 360, 370, 375, 380, 383, 384, 385, 500, 1000] if tier == "quick" else list(range(340, 420)) + [1000, 5000]):
            payload = gen.random_alphabet(rng, n)
            good = ais.sentence(payload, fill=0)
            region = good[1:good.index(b"*")]
            ops += ["N 0", L(good, dec=0)]
            for k in (1, 2, 15, 16, 64, 128, 255, 256, 383, 384, 385, 398, 399, 400, len(region) - 1):
                if 0 < k < len(region):
                    # only a prefix of the region is covered by the transmitted value
                    ops += ["N 0", L(good[:good.index(b"*") + 1] + b"%02X" % ais.xor_all(region[:k]), dec=0)]
            for pos in [1, 2, len(region) // 2] + list(range(max(1, len(region) - 40), len(region))):
                flipped = bytearray(good)
                flipped[1 + pos] ^= rng.choice([1, 2, 4, 16, 64])
                ops += ["N 0", L(bytes(flipped), dec=0)]
        yield ("long-region", ops)

    def extra_run(self, rep, tier, cfgs):
        from .props_hist import C20
        C20().tool_pass(rep, "C02")

    @staticmethod
    def state_prefix(rng, nf, fn, mid):
        pre = []
        for k in range(1, fn):
            pre.append(L(ais.sentence(gen.random_alphabet(rng, 4), nf=nf, fn=k, mid=mid), dec=0))
        return pre

    def judge(self, rep, cfg, label, ops, impl, model):
        prev_state = "none,0,"
        for op, a, m in zip(ops, impl, model):
            if op.startswith("N "):
                prev_state = "none,0,"
                continue
            pa = parse_answer(a)
            if op is not ops[-1] and False:
                pass
            rep.evaluations += 1
            rep.count(label)
            line = op_line(op)
            ref = ref_sentence(line, cfg == "noalloc")
            rep.count("ref:" + ref[0])
            bad = None
            if pa["cls"] in ("C", "I"):
                rep.nontrivial.add(op)
                # accepted => the gate held
                i = 0
                ok = False
                if ref[0] == "ok":
                    ok = True
                if not ok:
                    bad = f"accepted although {('transmitted %d != computed %d' % (ref[1], ref[2])) if ref[0] == 'cks' else 'no checksum value follows the first *'}"
            elif pa["cls"] == "E" and pa["err"] == "cks":
                rep.nontrivial.add(op)
                if ref[0] == "ok":
                    bad = "checksum error although the values agree"
                elif ref[0] == "cks" and (pa["expected"], pa["found"]) != (ref[1], ref[2]):
                    bad = f"checksum error carries ({pa['expected']},{pa['found']}), specified ({ref[1]},{ref[2]})"
                if pa.get("st") != prev_state:
                    bad = "a line rejected for its checksum changed the parser state"
            elif pa["cls"] == "E":
                if ref[0] == "cks":
                    bad = f"well-formed line with transmitted {ref[1]} != computed {ref[2]} rejected without a checksum error"
            if bad:
                rep.violation(f"C02: {bad}: {line!r}", {"cfg": cfg, "ops": self.context(ops, op), "impl": a, "model": m})
            elif self.cls(pa) != self.cls(parse_answer(m)) and ref[0] != "ok":
                rep.violation(f"C02: model and implementation disagree on the checksum outcome of {line!r}",
                              {"cfg": cfg, "ops": self.context(ops, op), "impl": a, "model": m})
            if "st" in pa and pa["st"] is not None:
                prev_state = pa["st"]
            if rep.evaluations % 997 == 0:
                rep.sample({"line": line.decode("latin1"), "impl": a[:60]})

    @staticmethod
    def cls(p):
        if p["cls"] == "E" and p["err"] == "cks":
            return ("cks", p["expected"], p["found"])
        return p["cls"] if p["cls"] in ("C", "I") else "rej"

    @staticmethod
    def context(ops, op):
        i = ops.index(op)
        j = i
        while j > 0 and not ops[j].startswith("N "):
            j -= 1
        return ops[j:i + 1]


class C07(SentProp):
    id = "C07"
    name = "sentence fields"
    rule = ("L ops, each line sent with decode off and decode on to two fresh parsers: structured sentences with all "
            "10 talkers, all 65536 two-byte talkers sampled (thorough: exhaustive), VDM/VDO/other report types, counts "
            "0..255 with leading zeros, ids absent/0..255, channel empty/one/multi-byte/non-ASCII, payload bytes "
            "0x00-0xFF except ',' and '*', fill 0..5, tag block, '!'/'$'; projection = talker, report, nf, fn, id, ch, "
            "data, fill compared with a Python transcription of the statement and the model; decode on/off must give "
            "identical sentence fields, message absent with decode off. non-trivial = distinct accepted line")

    def cases(self, tier, rng):
        n = 400 if tier == "quick" else 4000
        ops = []
        for _ in range(n):
            line = rand_valid_sentence(rng)
            ops += ["N 0", "N 1", L(line, 0, 0), L(line, 1, 1)]
        yield ("structured", ops)
        # every grammar near miss (escapes, tag blocks with grouping parameters, respelled numbers, padding ...): those of
        # them that are accepted report their own fields and raw payload, nothing resolved, nothing borrowed
        ops = []
        for line in near_misses(rng):
            if len(line) < 3000:
                ops += ["N 0", "N 1", L(line, 0, 0), L(line, 1, 1)]
        yield ("near-misses", ops)
        ops = []
        tk = [bytes([a, b]) for a in range(256) for b in range(256) if a != 42 and b != 42]
        if tier == "quick":
            # the ten known ids in every casing and with each byte replaced by its neighbours / bit-flipped twins
            near = set()
            for t in TALKER_LIST:
                for a in {t[0], t[0] ^ 0x20, t[0] ^ 0x80, t[0] + 1, t[0] - 1, t[0] ^ 1}:
                    for b in {t[1], t[1] ^ 0x20, t[1] ^ 0x80, t[1] + 1, t[1] - 1, t[1] ^ 1}:
                        if a != 42 and b != 42:
                            near.add(bytes([a & 0xFF, b & 0xFF]))
                near.add(t[::-1])
            tk = rng.sample(tk, 600) + TALKER_LIST + sorted(near)
        p, f = gen.valid_message_payload(rng, 1)
        for t in tk:
            ops += ["N 0", L(ais.sentence(p, fill=f, talker=t), 0, 0)]
        for r3 in (b"VDM", b"VDO"):
            for i in range(3):
                for c in {r3[i] ^ 0x20, r3[i] ^ 0x80, r3[i] + 1, r3[i] - 1, r3[i] ^ 1}:
                    rr = bytearray(r3)
                    rr[i] = c & 0xFF
                    if 42 not in rr:
                        ops += ["N 0", L(ais.sentence(p, fill=f, report=bytes(rr)), 0, 0)]
            ops += ["N 0", L(ais.sentence(p, fill=f, report=r3.lower()), 0, 0), "N 0", L(ais.sentence(p, fill=f, report=r3[::-1]), 0, 0)]
        yield ("talkers", ops)
        ops = []
        for v in range(256):
            line = ais.sentence(p, fill=f, nf=v, fn=v, mid=v, nf_txt=zeros_txt(rng, v), fn_txt=zeros_txt(rng, v))
            ops += ["N 0", "N 1", L(line, 0, 0), L(line, 1, 1)]
            line = ais.sentence(p, fill=f, channel=bytes([v]) if v not in (44, 42) else b"", report=bytes([86, 68, v if v != 42 else 77]))
            ops += ["N 0", "N 1", L(line, 0, 0), L(line, 1, 1)]
            pl = bytes([v]) if v not in (44, 42) else b"0"
            line = ais.sentence(pl + b"0", fill=0)
            ops += ["N 0", "N 1", L(line, 0, 0), L(line, 1, 1)]
            # every sequence id 0..255 on an unfragmented sentence (accepted whatever the id), with leading zeros
            for txt in {str(v).encode(), b"0" + str(v).encode(), b"00" + str(v).encode()}:
                if int(txt) <= 255:
                    line = ais.sentence(p, fill=f, nf=1, fn=1, mid_txt=txt)
                    ops += ["N 0", "N 1", L(line, 0, 0), L(line, 1, 1)]
            # first fragments with that id as well
            line = ais.sentence(p, fill=f, nf=2, fn=1, mid=v)
            ops += ["N 0", "N 1", L(line, 0, 0), L(line, 1, 1)]
        yield ("bytes", ops)
        # completed groups: the payload is the concatenation of the accepted fragments' payloads, nothing else
        # (duplicates, strays and abandoned groups in between)
        from .props_hist import C06 as H6
        h6 = H6()
        for i, (lab, hops) in enumerate(h6.cases("quick", rng)):
            if lab == "random":
                # sentences numbered outside 1 <= k <= n are legal for the grammar; whatever the parser makes of
                # them, the payload it reports must be theirs
                for (n, k, mid) in rng.sample([(0, 1, None), (0, 0, None), (1, 2, None), (0, 1, 1), (2, 3, None), (1, 0, None)], 3):
                    hops = hops + [L(ais.sentence(gen.random_alphabet(rng, 6), nf=n, fn=k, mid=mid, fill=0), 0, rng.randrange(2))]
                yield ("groups", hops)

    def judge_groups(self, rep, cfg, ops, impl, model):
        from .props_hist import SpecGroup
        spec = SpecGroup(384 if cfg == "noalloc" else None)
        spec_valid = True
        for op, a, m in zip(ops, impl, model):
            if not op.startswith("L "):
                continue
            rep.evaluations += 1
            ref = ref_sentence(op_line(op), cfg == "noalloc")
            if ref[0] == "ok" and not (1 <= ref[1]["fn"] <= ref[1]["nf"]):
                spec_valid = False      # numbered outside 1..n: the group automaton of C06 does not speak about it
            want = (spec.feed(ref[1]) if ref[0] == "ok" else ("R",)) if spec_valid else None
            pa = parse_answer(a)
            pm = parse_answer(m)
            if pa["cls"] == "C" and pm["cls"] == "C" and pa["sent"]["data"] != pm["sent"]["data"]:
                rep.violation("C07: the reported payload differs from the model's (own payload, or the concatenation of the accepted fragments)",
                              {"cfg": cfg, "ops": ops[:ops.index(op) + 1], "impl": a, "model": m})
                return
            if pa["cls"] != pm["cls"]:
                rep.violation("C07: model and implementation disagree on the outcome of a line",
                              {"cfg": cfg, "ops": ops[:ops.index(op) + 1], "impl": a, "model": m})
                return
            if want is None:
                if pa["cls"] == "C":
                    rep.nontrivial.add(op)
                continue
            if pa["cls"] == "C" and want[0] == "C" and pa["sent"]["data"] != want[1].hex():
                rep.violation("C07: a completed group's payload is not the concatenation of its fragments' payloads",
                              {"cfg": cfg, "ops": ops[:ops.index(op) + 1], "impl": a})
                return
            if pa["cls"] == "C" and want[0] != "C" and pa["sent"]["nf"] != "1":
                rep.violation("C07: a group was delivered that the accepted fragments do not make up",
                              {"cfg": cfg, "ops": ops[:ops.index(op) + 1], "impl": a})
                return
            if pa["cls"] == "C":
                rep.nontrivial.add(op)

    def judge(self, rep, cfg, label, ops, impl, model):
        if label == "groups":
            rep.count(label)
            return self.judge_groups(rep, cfg, ops, impl, model)
        prev = None
        for op, a, m in zip(ops, impl, model):
            if not op.startswith("L "):
                continue
            rep.evaluations += 1
            rep.count(label)
            line = op_line(op)
            dec = op.split(" ")[2]
            pa, pm = parse_answer(a), parse_answer(m)
            ref = ref_sentence(line, cfg == "noalloc")
            if pa["cls"] in ("C", "I"):
                rep.nontrivial.add(line)
                keys = ("talker", "report", "nf", "fn", "id", "ch", "data", "fill", "hm", "fr")
                got = {k: pa["sent"].get(k) for k in keys}
                if ref[0] == "ok":
                    want = sent_kv(ref[1])
                    if got != want:
                        rep.violation(f"C07: sentence fields {got} != transmitted {want}",
                                      {"cfg": cfg, "ops": ["N 0", op], "impl": a})
                if pm["cls"] in ("C", "I") and got != {k: pm["sent"].get(k) for k in keys}:
                    rep.violation("C07: model and implementation report different sentence fields",
                                  {"cfg": cfg, "ops": ["N 0", op], "impl": a, "model": m})
                if dec == "0" and pa["msg_kind"] != "none":
                    rep.violation("C07: decoded message present although decoding was not requested",
                                  {"cfg": cfg, "ops": ["N 0", op], "impl": a})
            elif dec == "0" and ref[0] == "ok" and not C08.seq_reject(ref[1]) and pa["cls"] == "E":
                # with decoding off payload-level errors are not raised: a well-formed, checksum-valid,
                # correctly sequenced line must be accepted whatever its payload bytes are
                rep.violation(f"C07: well-formed line rejected with decode=false ({a[:40]!r}): {line!r}",
                              {"cfg": cfg, "ops": ["N 0", op], "impl": a, "model": m})
            # decode off vs on on the same line
            if dec == "0":
                prev = (line, pa, op)
            elif prev is not None and prev[0] == line:
                p0 = prev[1]
                if p0["cls"] in ("C", "I"):
                    if pa["cls"] in ("C", "I"):
                        if p0["sent"] != pa["sent"] or p0["cls"] != pa["cls"]:
                            rep.violation("C07: sentence fields differ between decode=false and decode=true",
                                          {"cfg": cfg, "ops": ["N 0", prev[2], "N 1", op], "impl": a})
                    elif pa["cls"] == "E" and pa["err"] == "cks":
                        rep.violation("C07: decode=true turned an accepted line into a checksum error",
                                      {"cfg": cfg, "ops": ["N 0", prev[2], "N 1", op], "impl": a})
                else:
                    if pa["cls"] in ("C", "I"):
                        rep.violation("C07: line rejected with decode=false but accepted with decode=true",
                                      {"cfg": cfg, "ops": ["N 0", prev[2], "N 1", op], "impl": a})
                prev = None
            if rep.evaluations % 499 == 0:
                rep.sample({"line": line.decode("latin1"), "impl": a[:120]})


class C19(SentProp):
    id = "C19"
    name = "sentence-level message type"
    exhaustive = True
    rule = ("L ops: all 256 byte values as first payload character (the 64 armoring characters are the property's "
            "domain) x unfragmented / first fragment / later fragment x decode on/off; predicate: reported "
            "message_type == 6-bit value of the first payload character, and == the decoded message's own type when "
            "decoded. A value equal to byte>>2 is the recorded finding D10. non-trivial = distinct accepted line")

    def cases(self, tier, rng):
        ops = []
        for b in range(256):
            if b in (44, 42):
                continue
            for shape in range(3 if tier == "quick" else 6):
                t = ais.sixbit(b)
                if t is not None and t in ais.SUPPORTED and shape == 0:
                    tt = t if t != 24 else "24A"
                    f = gen.base_fields(tt, rng, ais.LAYOUTS[tt])
                    bs = gen.full_payload(tt, f) + gen.tail_for(tt, rng)
                    payload, fill = ais.armor(ais.bytes_to_bits(bs))
                    ops += ["N 0", L(varied_sentence(rng, payload, fill=0), 0, 1)]
                else:
                    payload = bytes([b]) + gen.random_alphabet(rng, rng.choice([0, 3, 27]))
                    if shape % 2 == 1 and len(payload) > 2:
                        # a later byte outside the armoring alphabet: the type is the first character's affair
                        pb = bytearray(payload)
                        pb[rng.randrange(1, len(pb))] = rng.choice([0x20, 0x2F, 0x58, 0x5F, 0x78, 0x7E, 0x80, 0xFF])
                        payload = bytes(pb)
                    if shape % 3 == 1:
                        ops += ["N 0", L(varied_sentence(rng, payload, nf=2, fn=1, mid=4), 0, 0)]
                    elif shape % 3 == 2:
                        ops += ["N 0", L(varied_sentence(rng, b"1234", nf=2, fn=1, mid=4), 0, 0),
                                L(varied_sentence(rng, payload, nf=2, fn=2, mid=4), 0, 0)]
                    else:
                        ops += ["N 0", L(varied_sentence(rng, payload), 0, 0)]
        yield ("first-char", ops)
        # payloads of 0..4 characters: still one first character (or none: then the line is not accepted)
        ops = []
        for n in range(0, 5):
            for _ in range(6):
                payload = gen.random_alphabet(rng, n)
                for (nf, fn, mid) in ((1, 1, None), (2, 1, 7), (3, 2, 7)):
                    ops += ["N 0", L(varied_sentence(rng, payload, nf=nf, fn=fn, mid=mid, fill=0), 0, rng.randrange(2))]
                ops += ["N 0", L(varied_sentence(rng, payload, nf=2, fn=1, mid=7, fill=0), 0, 1),
                        L(varied_sentence(rng, b"?03Owo@nwsI0D00", nf=2, fn=2, mid=7, fill=2), 0, 1)]
        yield ("short-payloads", ops)
        # every grammar near miss: a type is reported for exactly the lines that are sentences, and it is that of the
        # payload FIELD (the sixth), not of whatever field a lenient reader would take for it
        ops = []
        for l in near_misses(rng):
            if len(l) < 3000:
                ops += ["N 0", L(l, 0, 0)]
        yield ("near-misses", ops)
        # the type of a sentence must not depend on what the parser saw before: abandoned groups,
        # delivered groups, middle fragments, tag blocks
        ops = []
        for _ in range(150 if tier == "quick" else 2000):
            ops.append("N 0")
            dec = rng.randrange(2)
            for _ in range(rng.randrange(2, 7)):
                c = rng.choice(gen.ALPHABET)
                payload = bytes([c]) + gen.random_alphabet(rng, rng.choice([1, 5, 27]))
                shape = rng.randrange(7)
                tb = rng.choice([None, None, b"s:1,c:2*00"])
                if shape >= 5:
                    # a whole group of a supported type, decodable or cut short (the decode then fails)
                    tt = rng.choice([15, 16, 1, 5, 8])
                    bs = gen.full_payload(tt, gen.base_fields(tt, rng, ais.LAYOUTS[tt]))
                    if shape == 6:
                        bs = bs[:rng.randrange(2, 8)]
                    pl, fl = ais.armor(ais.bytes_to_bits(bs))
                    k = rng.randrange(1, len(pl))
                    mid = rng.choice([None, 1, 2])
                    ops.append(L(varied_sentence(rng, pl[:k], nf=2, fn=1, mid=mid, fill=0), 0, dec))
                    ops.append(L(varied_sentence(rng, pl[k:], nf=2, fn=2, mid=mid, fill=fl), 0, dec))
                elif shape == 0:
                    ops.append(L(varied_sentence(rng, payload, tagblock=tb), 0, 0))
                elif shape == 1:
                    ops.append(L(varied_sentence(rng, payload, nf=2, fn=1, mid=rng.choice([None, 1, 2]), tagblock=tb), 0, 0))
                elif shape == 2:
                    ops.append(L(varied_sentence(rng, payload, nf=3, fn=2, mid=rng.choice([None, 1, 2])), 0, 0))
                elif shape == 3:
                    mid = rng.choice([None, 1])
                    ops.append(L(varied_sentence(rng, b"5" + gen.random_alphabet(rng, 3), nf=3, fn=1, mid=mid), 0, 0))
                    ops.append(L(varied_sentence(rng, payload, nf=3, fn=2, mid=mid), 0, 0))
                else:
                    mid = rng.choice([None, 1])
                    ops.append(L(varied_sentence(rng, b"8" + gen.random_alphabet(rng, 3), nf=2, fn=1, mid=mid), 0, 0))
                    ops.append(L(varied_sentence(rng, payload, nf=2, fn=2, mid=mid), 0, 0))
        yield ("histories", ops)

    def judge(self, rep, cfg, label, ops, impl, model):
        for op, a, m in zip(ops, impl, model):
            if not op.startswith("L "):
                continue
            rep.evaluations += 1
            line = op_line(op)
            pa, pm = parse_answer(a), parse_answer(m)
            hist = ops[max(i for i in range(ops.index(op) + 1) if ops[i].startswith("N ")):ops.index(op) + 1] if label != "first-char" else ["N 0", op]
            if (pa["cls"] in ("C", "I")) != (pm["cls"] in ("C", "I")):
                rep.violation(f"C19: the line is {'accepted' if pa['cls'] in ('C', 'I') else 'rejected'} by the implementation and "
                              f"{'accepted' if pm['cls'] in ('C', 'I') else 'rejected'} by the model (a type is reported for exactly the accepted lines): {line[:60]!r}",
                              {"cfg": cfg, "ops": hist, "impl": a, "model": m})
                continue
            if pa["cls"] not in ("C", "I"):
                continue
            rep.nontrivial.add(op)
            if pa["cls"] == "C" and pm["cls"] == "C" and (pa["msg_kind"], pa["msg"].get("message_type")) != (pm["msg_kind"], pm["msg"].get("message_type")):
                rep.violation(f"C19: the decoded message is {pa['msg_kind']}/{pa['msg'].get('message_type')}, the model decodes "
                              f"{pm['msg_kind']}/{pm['msg'].get('message_type')}: sentence-level and decoded type no longer refer to the same payload",
                              {"cfg": cfg, "ops": hist, "impl": a, "model": m})
                continue
            ref = ref_sentence(line)
            if ref[0] != "ok":
                continue
            first = ref[1]["data"][0]
            rep.count("in-alphabet" if ais.sixbit(first) is not None else "outside-alphabet")
            if ais.sixbit(first) is None:
                continue
            want = ais.sixbit(first)
            got = int(pa["sent"]["mt"])
            if got != want:
                if got == first >> 2:
                    rep.known.append("site=src/sentence.rs:242 formula=first_payload_byte>>2 (sentence.message_type is "
                                     "taken from the armored byte instead of its 6-bit value; pinned by four sentence tests) (D10)")
                else:
                    rep.violation(f"C19: first payload character {chr(first)!r} (6-bit value {want}) reported as message_type {got}",
                                  {"cfg": cfg, "ops": ["N 0", op], "impl": a})
            if pm["cls"] in ("C", "I") and pm["sent"]["mt"] != pa["sent"]["mt"] and got != want:
                rep.violation("C19: implementation deviates from the specification in a way the recorded finding does not describe",
                              {"cfg": cfg, "ops": ["N 0", op], "impl": a, "model": m})
            if rep.evaluations % 97 == 0:
                rep.sample({"first_char": chr(first), "reported": got, "specified": want})

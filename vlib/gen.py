"""Input generators.  Every random choice comes from the one `random.Random(seed)` passed in."""
from . import ais

ALPHABET = bytes(list(range(48, 88)) + list(range(96, 120)))

# field name -> interesting raw values (sentinels and neighbours), by width-independent name
SENTINELS = {
    "sog": [1023, 1022, 1021, 63, 62, 0, 1, 102, 103], "cog": [3600, 3599, 3601, 511, 510, 4095, 0, 360, 359, 361],
    "heading": [511, 510, 0, 359, 360], "rot": [128, 127, 129, 0, 255, 1], "altitude": [4095, 4094, 4093, 0],
    "year": [0, 1, 9999, 16383], "month": [0, 1, 12, 15], "day": [0, 1, 31], "hour": [0, 23, 24, 31],
    "minute": [60, 59, 61, 0, 63], "second": [60, 59, 61, 0, 63], "eta_month": [0, 1, 12, 15],
    "eta_day": [0, 1, 31], "eta_hour": [0, 24, 31], "eta_minute": [60, 59, 61, 0, 63],
    "nav_status": list(range(16)), "maneuver": [0, 1, 2, 3], "epfd": list(range(16)),
    "aid_type": list(range(32)), "timestamp": [0, 59, 60, 61, 62, 63],
    "offset1_1": [0, 1, 4095], "offset1_2": [0, 1, 4095], "offset2_1": [0, 1, 4095],
    "type1_2": [0, 1, 63],
}


def signed_specials(w, kind):
    """raw (unsigned) encodings of interesting signed values for a w-bit coordinate."""
    m = 1 << w
    vals = [0, 1, m - 1, (1 << (w - 1)) - 1, 1 << (w - 1), (1 << (w - 1)) + 1]
    if w == 28:
        s = [108600000, 108599999, 108600001, -108600000, 108600, 54600000]
    elif w == 27:
        s = [54600000, 54599999, 54600001, -54600000, 54600, 108600]
    elif w == 18:
        s = [108600, 108599, 108601, -108600, 54600, 108000, -108000]
    else:
        s = [54600, 54599, 54601, -54600, 54000, -54000]
    # round positions (the date line, the poles, the equator's neighbours, every 45 degrees), both signs
    unit = 600000 if w >= 27 else 600
    for deg in (180, 179, 135, 90, 89, 45, 1):
        for d in (deg * unit, -deg * unit, deg * unit + 1, -deg * unit - 1, deg * unit - 1):
            s.append(d)
    return vals + [x % m for x in s if -(1 << (w - 1)) <= x < (1 << (w - 1))]


NOT_AVAILABLE = {"sog": [1023, 63], "cog": [3600, 511], "heading": [511], "rot": [128], "altitude": [4095],
                 "minute": [60], "second": [60], "eta_minute": [60]}


def field_specials(name, w):
    vals = {0, 1, (1 << w) - 1, (1 << w) - 2, 1 << (w - 1)}
    codes = [c for c in NOT_AVAILABLE.get(name, []) if c < (1 << w)]
    if name in ("lon", "lat"):
        vals |= set(signed_specials(w, name))
        codes += [{28: 108600000, 27: 54600000, 18: 108600, 17: 54600}[w]]
    for v in SENTINELS.get(name, []):
        if v < (1 << w):
            vals.add(v)
    if name in ("lon", "lat"):
        # the sentinel of the OTHER resolution and of the other coordinate (1/10000 min: 108 600 000 / 54 600 000; 1/10 min:
        # 108 600 / 54 600), signed both ways, where the field can hold it: an ordinary position at this resolution
        for c in (108600000, 54600000, 108600, 54600, 181, 91, 1810, 910, 181000, 91000):
            for v in (c, -c, c + 1, c - 1):
                if -(1 << (w - 1)) <= v < (1 << (w - 1)):
                    vals.add(v % (1 << w))
    if name in ("sog", "cog", "heading", "altitude"):
        # the codes other fields and other message types use
        for c in (63, 511, 1023, 3600, 4095, 360, 3599, 3601):
            if c < (1 << w):
                vals.add(c)
    # the 'not available' code with any one bit flipped (a comparison that ignores a bit, the sign bit above all)
    for c in codes:
        for b in range(w):
            vals.add(c ^ (1 << b))
        # ... and its negation at the field's own width (a comparison of magnitudes)
        vals.add((-c) % (1 << w))
        vals.add((-c - 1) % (1 << w))
        vals.add((-c + 1) % (1 << w))
    return sorted(v for v in vals if 0 <= v < (1 << w))


# (d) moments a maintainer might special-case: leap seconds, ends of months, the epoch, 'not available' mixes
NOTABLE_TIMES = [(2016, 12, 31, 23, 59, 60), (2015, 6, 30, 23, 59, 60), (2024, 2, 29, 12, 0, 0), (2023, 2, 29, 0, 0, 0),
                 (2000, 1, 1, 0, 0, 0), (1970, 1, 1, 0, 0, 0), (0, 0, 0, 24, 60, 60), (0, 12, 31, 23, 59, 59), (2020, 0, 0, 0, 0, 0),
                 (9999, 12, 31, 23, 59, 59), (16383, 15, 31, 31, 63, 63), (2038, 1, 19, 3, 14, 7), (2024, 12, 31, 23, 59, 60),
                 (2024, 6, 30, 23, 59, 60), (2024, 4, 31, 0, 0, 0), (2024, 12, 31, 24, 0, 0), (0, 6, 30, 23, 59, 60), (2024, 12, 31, 23, 59, 61)]


def apply_notable_time(f, t):
    y, mo, d, h, mi, sec = t
    for k, v in (("year", y), ("month", mo), ("day", d), ("hour", h), ("minute", mi), ("second", sec),
                 ("eta_month", mo), ("eta_day", d), ("eta_hour", h), ("eta_minute", mi)):
        if k in f:
            f[k] = v
    return f


TEXT_FIELDS = {"callsign", "vessel_name", "destination", "name", "vendor_id", "model_serial"}


def structured_chars(rng, n):
    """n six-bit character codes shaped like real text: optional leading blanks, letters with
    embedded blanks and '@', and a tail mixing spaces (32) and '@' padding (0) in either order."""
    lead = rng.choice([0, 0, 1, 2])
    tail = [rng.choice([0, 32]) for _ in range(rng.choice([0, 1, 2, 3, 5]))]
    if rng.random() < 0.5:
        tail.sort(reverse=rng.random() < 0.5)
    body_n = max(0, n - lead - len(tail))
    body = [rng.choice([1, 2, 3, 19, 20, 26, 33, 48, 57, 63, 32, 0, 45]) if rng.random() < 0.25 else rng.randrange(1, 27)
            for _ in range(body_n)]
    chars = ([32] * lead + body + tail)[:n]
    return chars + [0] * (n - len(chars))


def chars_value(chars):
    v = 0
    for c in chars:
        v = (v << 6) | c
    return v


def type_code(t):
    return 24 if isinstance(t, str) else t


MMSI_FAMILIES = 10


def structured_mmsi(rng, family=None):
    """A 30-bit station identity shaped like the families ITU-R M.585 reserves (a maintainer might special-case
    any of them): aids to navigation 99MID1XXX/99MID6XXX, SART/MOB/EPIRB 970/972/974, SAR aircraft 111MIDXXX, coast
    stations 00MIDXXXX, groups 0MIDXXXXX, handhelds 8MIDXXXXX, auxiliary craft 98MIDXXXX, and values that are not
    nine-digit numbers at all."""
    mid = rng.choice([201, 227, 232, 244, 316, 338, 366, 367, 369, 412, 431, 503, 525, 563, 636, 775])
    r = rng.randrange(12) if family is None else family
    if r == 0:
        return 990000000 + mid * 10000 + rng.choice([1, 6, 6, 6]) * 1000 + rng.randrange(1000)
    if r == 1:
        return rng.choice([970, 972, 974]) * 1000000 + rng.randrange(1000000)
    if r == 2:
        return 111000000 + mid * 1000 + rng.randrange(1000)
    if r == 3:
        return mid * 10000 + rng.randrange(10000)
    if r == 4:
        return mid * 100000 + rng.randrange(100000)
    if r == 5:
        return 800000000 + mid * 100000 + rng.randrange(100000)
    if r == 6:
        return 980000000 + mid * 10000 + rng.randrange(10000)
    if r == 7:
        return rng.choice([0, 1, 999999999, 1000000000, 1000000001, (1 << 30) - 1, 123456789, 99999999])
    if r == 8:
        return rng.randrange(1000000000, 1 << 30)
    return mid * 1000000 + rng.randrange(1000000)


# application identifiers a decoder might know by name (IMO SN.1/Circ.289, inland ECE-TRANS, regional ones)
KNOWN_DAC_FID = [(1, 11), (1, 16), (1, 21), (1, 22), (1, 24), (1, 31), (1, 40), (200, 10), (200, 21), (200, 24), (200, 55),
                 (235, 10), (250, 10), (316, 1), (366, 22), (367, 33), (0, 0), (1023, 63), (1, 0)]


def base_fields(t, rng, layout):
    f = _base_fields(t, rng, layout)
    if "dac" in f and "fid" in f and rng.random() < 0.4:
        f["dac"], f["fid"] = rng.choice(KNOWN_DAC_FID)
    return f


def _base_fields(t, rng, layout):
    f = {}
    for (name, off, w) in layout:
        f[name] = rng.getrandbits(w)
        if name in TEXT_FIELDS and w % 6 == 0 and rng.random() < 0.5:
            f[name] = chars_value(structured_chars(rng, w // 6))
        if w == 30 and "mmsi" in name and rng.random() < 0.5:
            f[name] = structured_mmsi(rng)
    f["type"] = type_code(t)
    if t == "24A":
        f["partno"] = 0
    if t == "24B":
        f["partno"] = 1
    return f


def backgrounds(t, rng, layout):
    """Field assignments to put a value under test into: random; every other field at its 'not available' code
    (or zero / all ones where it has none); all zero; all ones; the notable moments for layouts with a time of day.
    A value's meaning must not depend on the company it keeps."""
    out = [base_fields(t, rng, layout)]
    na = base_fields(t, rng, layout)
    for (name, off, w) in layout:
        codes = [c for c in NOT_AVAILABLE.get(name, []) if c < (1 << w)]
        if name in ("lon", "lat"):
            codes = [{28: 108600000, 27: 54600000, 18: 108600, 17: 54600}[w]]
        if name in ("year", "month", "day", "eta_month", "eta_day"):
            codes = [0]
        if codes:
            na[name] = codes[0]
    out.append(na)
    for fillv in (0, 1):
        f = base_fields(t, rng, layout)
        for (name, off, w) in layout:
            if name not in ("type", "partno"):
                f[name] = ((1 << w) - 1) * fillv
        out.append(f)
    # all zero with one flag set, all ones with one flag cleared (a rule keyed on "nothing but this flag")
    for (name, off, w) in layout:
        if w == 1 and name not in ("type", "partno"):
            for fillv in (0, 1):
                f = base_fields(t, rng, layout)
                for (n2, o2, w2) in layout:
                    if n2 not in ("type", "partno"):
                        f[n2] = ((1 << w2) - 1) * fillv
                f[name] = 1 - fillv
                if rng.random() < 0.5:
                    for (n2, o2, w2) in layout:
                        if w2 == 30 and "mmsi" in n2:
                            f[n2] = structured_mmsi(rng)
                out.append(f)
    if any(n_ in ("hour", "eta_hour") for (n_, o_, w_) in layout):
        for tm in rng.sample(NOTABLE_TIMES, 4) + NOTABLE_TIMES[:2]:
            out.append(apply_notable_time(base_fields(t, rng, layout), tm))
            # the same moment with everything else 'not available'
            out.append(apply_notable_time(dict(na), tm))
    for f in out:
        f["type"] = type_code(t)
        if t == "24A":
            f["partno"] = 0
        if t == "24B":
            f["partno"] = 1
    return out


def full_payload(t, fields, nbits=None, tail=b""):
    layout = ais.LAYOUTS[t]
    n = ais.FULL_BITS[t] if nbits is None else nbits
    bits = ais.pack(fields, layout, n)
    return ais.bits_to_bytes(bits) + tail


def payload_cases(t, rng, n_random, walks=True):
    """Yield (label, bytes) for a type at its full length: zero/one backgrounds, one-hot and
    one-cold walks over every bit, per-field special values, random joint assignments."""
    layout = ais.LAYOUTS[t]
    nbits = ais.FULL_BITS[t]
    tc = type_code(t)
    fixed = {"type": tc}
    if t == "24A":
        fixed["partno"] = 0
    if t == "24B":
        fixed["partno"] = 1

    def force(bits):
        for (name, off, w) in layout:
            if name in fixed:
                v = fixed[name]
                for i in range(w):
                    bits[off + i] = (v >> (w - 1 - i)) & 1
        return bits

    tail = tail_for(t, rng)
    yield ("zeros", ais.bits_to_bytes(force([0] * nbits)) + tail)
    yield ("ones", ais.bits_to_bytes(force([1] * nbits)) + tail)
    if walks:
        for i in range(6, nbits):
            b = [0] * nbits
            b[i] = 1
            yield ("onehot", ais.bits_to_bytes(force(b)) + tail)
            b = [1] * nbits
            b[i] = 0
            yield ("onecold", ais.bits_to_bytes(force(b)) + tail)
    for (name, off, w) in layout:
        if name in fixed:
            continue
        for v in field_specials(name, w):
            f = base_fields(t, rng, layout)
            f[name] = v
            yield ("special:" + name, full_payload(t, f) + tail_for(t, rng))
    # several fields at special values at once (a value of one field that changes how another is reported)
    names = [(name, w) for (name, off, w) in layout if name not in fixed]
    for _ in range(n_random):
        f = base_fields(t, rng, layout)
        for (name, w) in rng.sample(names, min(len(names), rng.choice([2, 2, 3, 4]))):
            f[name] = rng.choice(field_specials(name, w))
        yield ("joint-special", full_payload(t, f) + tail_for(t, rng))
    if any(n_ in ("hour", "eta_hour") for (n_, o_, w_) in layout):
        for tm in NOTABLE_TIMES:
            f = apply_notable_time(base_fields(t, rng, layout), tm)
            yield ("notable-time", full_payload(t, f) + tail_for(t, rng))
    # two fields of the same width carrying the same (mid-range) value: nothing reported may depend on such a coincidence
    wide = [(n_, w_) for (n_, o_, w_) in layout if n_ not in fixed and w_ >= 6]
    pairs = [(a, b) for i, a in enumerate(wide) for b in wide[i + 1:] if a[1] == b[1]]
    for (a, b) in (rng.sample(pairs, 10) if len(pairs) > 10 else pairs):
        f = base_fields(t, rng, layout)
        v = rng.randrange(1 << (a[1] - 2), (1 << a[1]) - 1) if a[1] != 30 else rng.choice([rng.randrange(10000000, 999999999), structured_mmsi(rng)])
        f[a[0]] = f[b[0]] = v
        yield ("equal-fields", full_payload(t, f) + tail_for(t, rng))
    if t == 16:
        # both destinations the same / related stations (a rule that compares fields of one message with each other)
        for _ in range(6):
            f = base_fields(t, rng, layout)
            f["mmsi2"] = f["mmsi1"] if rng.random() < 0.7 else f["mmsi"]
            yield ("same-station", full_payload(t, f))
    for _ in range(n_random):
        f = base_fields(t, rng, layout)
        yield ("random", full_payload(t, f) + tail_for(t, rng))


def tail_for(t, rng):
    """Variable part after the fixed header for types 6, 8, 12, 14, 17."""
    if t in (6, 8, 17):
        return bytes(rng.getrandbits(8) for _ in range(rng.choice([0, 1, 2, 5, 17])))
    if t in (12, 14):
        # text: whole number of 6-bit characters; 12 has 72 header bits, 14 has 40
        nchar = rng.choice([1, 2, 3, 4, 8, 12, 16, 20])
        hdr = 72 if t == 12 else 40
        bits = [rng.getrandbits(1) for _ in range(6 * nchar)]
        if rng.random() < 0.5:
            bits = [(c >> (5 - i)) & 1 for c in structured_chars(rng, nchar) for i in range(6)]
        total = hdr + len(bits)
        pad = (8 - total % 8) % 8
        # header is byte-aligned for both (72, 40), so the tail is just the text bits
        return ais.bits_to_bytes(bits + [0] * pad)
    # every other type: now and then more bytes than the layout needs (a longer payload is decoded by its layout;
    # what follows it - a name extension, future fields, padding, garbage - is not part of any reported field)
    if rng.random() < (0.5 if t == 21 else 0.25):
        # (type 21 may carry up to 88 bits of name extension after its 272 bits)
        return bytes(rng.getrandbits(8) | rng.choice([0, 0, 1, 0x80]) for _ in range(rng.choice([1, 1, 2, 3, 6, 11])))
    return b""


ALL_TYPES = [1, 2, 3, 4, 5, 6, 7, 8, 9, 10, 11, 12, 13, 14, 15, 16, 17, 18, 19, 20, 21, "24A", "24B", 27]


def random_alphabet(rng, n):
    return bytes(rng.choice(ALPHABET) for _ in range(n))


def valid_message_payload(rng, t=None):
    """(armored payload, fill) of a random full-length message of a random supported type."""
    if t is None:
        t = rng.choice(ALL_TYPES)
    f = base_fields(t, rng, ais.LAYOUTS[t])
    bs = full_payload(t, f) + tail_for(t, rng)
    nbits = len(bs) * 8 if (t in (6, 8, 12, 14, 17) or len(bs) * 8 > ais.FULL_BITS[t]) else ais.FULL_BITS[t]
    bits = ais.bytes_to_bits(bs, nbits) if nbits <= len(bs) * 8 else ais.bytes_to_bits(bs)
    return ais.armor(bits)

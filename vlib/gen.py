"""Input generators.  Every random choice comes from the one `random.Random(seed)` passed in."""
from . import ais

ALPHABET = bytes(list(range(48, 88)) + list(range(96, 120)))

# field name -> interesting raw values (sentinels and neighbours), by width-independent name
SENTINELS = {
    "sog": [1023, 1022, 1021, 63, 62, 0, 1, 102, 103], "cog": [3600, 3599, 3601, 511, 510, 4095, 0, 360, 359, 361],
    "heading": [511, 510, 0, 359, 360], "rot": [128, 127, 129, 0, 255, 1], "altitude": [4095, 4094, 4093, 0],
    "year": [0, 1, 9999, 16383], "month": [0, 1, 12, 15], "day": [0, 1, 31], "hour": [0, 23, 24, 31],
    "minute": [60, 59, 61, 0, 63], "second": [60, 59, 61, 0, 63], "eta_month": [0, 1, 12, 15],
    "eta_day": [0, 1, 31], "eta_hour": [0, 24, 31], "eta_minute": [60, 59, 61, 0, 63],
    "nav_status": list(range(16)), "maneuver": [0, 1, 2, 3], "epfd": list(range(16)),
    "aid_type": list(range(32)), "timestamp": [0, 59, 60, 61, 62, 63],
    "offset1_1": [0, 1, 4095], "offset1_2": [0, 1, 4095], "offset2_1": [0, 1, 4095],
    "type1_2": [0, 1, 63],
}


def signed_specials(w, kind):
    """raw (unsigned) encodings of interesting signed values for a w-bit coordinate."""
    m = 1 << w
    vals = [0, 1, m - 1, (1 << (w - 1)) - 1, 1 << (w - 1), (1 << (w - 1)) + 1]
    if w == 28:
        s = [108600000, 108599999, 108600001, -108600000, 108600, 54600000]
    elif w == 27:
        s = [54600000, 54599999, 54600001, -54600000, 54600, 108600]
    elif w == 18:
        s = [108600, 108599, 108601, -108600, 54600, 108000, -108000]
    else:
        s = [54600, 54599, 54601, -54600, 54000, -54000]
    return vals + [x % m for x in s if -(1 << (w - 1)) <= x < (1 << (w - 1))]


def field_specials(name, w):
    vals = {0, 1, (1 << w) - 1, (1 << w) - 2, 1 << (w - 1)}
    if name in ("lon", "lat"):
        vals |= set(signed_specials(w, name))
    for v in SENTINELS.get(name, []):
        if v < (1 << w):
            vals.add(v)
    return sorted(v for v in vals if 0 <= v < (1 << w))


TEXT_FIELDS = {"callsign", "vessel_name", "destination", "name", "vendor_id", "model_serial"}


def structured_chars(rng, n):
    """n six-bit character codes shaped like real text: optional leading blanks, letters with
    embedded blanks and '@', and a tail mixing spaces (32) and '@' padding (0) in either order."""
    lead = rng.choice([0, 0, 1, 2])
    tail = [rng.choice([0, 32]) for _ in range(rng.choice([0, 1, 2, 3, 5]))]
    if rng.random() < 0.5:
        tail.sort(reverse=rng.random() < 0.5)
    body_n = max(0, n - lead - len(tail))
    body = [rng.choice([1, 2, 3, 19, 20, 26, 33, 48, 57, 63, 32, 0, 45]) if rng.random() < 0.25 else rng.randrange(1, 27)
            for _ in range(body_n)]
    chars = ([32] * lead + body + tail)[:n]
    return chars + [0] * (n - len(chars))


def chars_value(chars):
    v = 0
    for c in chars:
        v = (v << 6) | c
    return v


def type_code(t):
    return 24 if isinstance(t, str) else t


def base_fields(t, rng, layout):
    f = {}
    for (name, off, w) in layout:
        f[name] = rng.getrandbits(w)
        if name in TEXT_FIELDS and w % 6 == 0 and rng.random() < 0.5:
            f[name] = chars_value(structured_chars(rng, w // 6))
    f["type"] = type_code(t)
    if t == "24A":
        f["partno"] = 0
    if t == "24B":
        f["partno"] = 1
    return f


def full_payload(t, fields, nbits=None, tail=b""):
    layout = ais.LAYOUTS[t]
    n = ais.FULL_BITS[t] if nbits is None else nbits
    bits = ais.pack(fields, layout, n)
    return ais.bits_to_bytes(bits) + tail


def payload_cases(t, rng, n_random, walks=True):
    """Yield (label, bytes) for a type at its full length: zero/one backgrounds, one-hot and
    one-cold walks over every bit, per-field special values, random joint assignments."""
    layout = ais.LAYOUTS[t]
    nbits = ais.FULL_BITS[t]
    tc = type_code(t)
    fixed = {"type": tc}
    if t == "24A":
        fixed["partno"] = 0
    if t == "24B":
        fixed["partno"] = 1

    def force(bits):
        for (name, off, w) in layout:
            if name in fixed:
                v = fixed[name]
                for i in range(w):
                    bits[off + i] = (v >> (w - 1 - i)) & 1
        return bits

    tail = tail_for(t, rng)
    yield ("zeros", ais.bits_to_bytes(force([0] * nbits)) + tail)
    yield ("ones", ais.bits_to_bytes(force([1] * nbits)) + tail)
    if walks:
        for i in range(6, nbits):
            b = [0] * nbits
            b[i] = 1
            yield ("onehot", ais.bits_to_bytes(force(b)) + tail)
            b = [1] * nbits
            b[i] = 0
            yield ("onecold", ais.bits_to_bytes(force(b)) + tail)
    for (name, off, w) in layout:
        if name in fixed:
            continue
        for v in field_specials(name, w):
            f = base_fields(t, rng, layout)
            f[name] = v
            yield ("special:" + name, full_payload(t, f) + tail_for(t, rng))
    for _ in range(n_random):
        f = base_fields(t, rng, layout)
        yield ("random", full_payload(t, f) + tail_for(t, rng))


def tail_for(t, rng):
    """Variable part after the fixed header for types 6, 8, 12, 14, 17."""
    if t in (6, 8, 17):
        return bytes(rng.getrandbits(8) for _ in range(rng.choice([0, 1, 2, 5, 17])))
    if t in (12, 14):
        # text: whole number of 6-bit characters; 12 has 72 header bits, 14 has 40
        nchar = rng.choice([1, 2, 3, 4, 8, 12, 16, 20])
        hdr = 72 if t == 12 else 40
        bits = [rng.getrandbits(1) for _ in range(6 * nchar)]
        if rng.random() < 0.5:
            bits = [(c >> (5 - i)) & 1 for c in structured_chars(rng, nchar) for i in range(6)]
        total = hdr + len(bits)
        pad = (8 - total % 8) % 8
        # header is byte-aligned for both (72, 40), so the tail is just the text bits
        return ais.bits_to_bytes(bits + [0] * pad)
    return b""


ALL_TYPES = [1, 2, 3, 4, 5, 6, 7, 8, 9, 10, 11, 12, 13, 14, 15, 16, 17, 18, 19, 20, 21, "24A", "24B", 27]


def random_alphabet(rng, n):
    return bytes(rng.choice(ALPHABET) for _ in range(n))


def valid_message_payload(rng, t=None):
    """(armored payload, fill) of a random full-length message of a random supported type."""
    if t is None:
        t = rng.choice(ALL_TYPES)
    f = base_fields(t, rng, ais.LAYOUTS[t])
    bs = full_payload(t, f) + tail_for(t, rng)
    nbits = ais.FULL_BITS[t] if t not in (6, 8, 12, 14, 17) else len(bs) * 8
    bits = ais.bytes_to_bits(bs, nbits) if nbits <= len(bs) * 8 else ais.bytes_to_bits(bs)
    return ais.armor(bits)

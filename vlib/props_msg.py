"""Payload-level properties: C03 (unarmor), C04, C09-C16 (messages::parse), C12 tables."""
import re
from . import ais, gen
from .core import hexs, parse_answer

RADIO = {"radio", "sync_state", "slot_timeout", "sub_message", "sub_a", "sub_b", "slot_increment", "num_slots", "keep"}
F32 = {"speed_over_ground", "longitude", "latitude", "course_over_ground", "draught"}
OPTINT = {"true_heading", "altitude", "year", "month", "day", "minute", "second", "eta_month_utc", "eta_day_utc",
          "eta_minute_utc", "rate_of_turn", "messages_slot_offset"}
ENUM = {"navigation_status", "maneuver_indicator", "epfd_type", "ship_type", "type_of_ship_and_cargo", "aid_type",
        "sync_state", "dte", "position_accuracy", "accuracy", "fix_quality", "cs_unit", "part"}
TEXT = {"callsign", "vessel_name", "destination", "name", "vendor_id", "model_serial", "text"}
BIN = {"data"}
COUNTS = {"count", "stations_count", "messages_count"}
VARLEN_PRESENCE = {"mmsi2", "offset2", "increment2"}


def base(k):
    return k.split(".")[0]


def is_enum_key(k, kind):
    b = base(k)
    if b == "assigned_mode":
        return kind != "AidToNavigationReport"
    return b in ENUM


def proj_keys(ans, pred):
    """ok/err class plus the selected keys."""
    a = parse_answer(ans)
    if a["cls"] != "ok":
        return a["cls"]
    kind = a.get("kind", "")
    return "ok " + " ".join(f"{k}={v}" for k, v in a["kv"].items() if pred(k, kind, v))


META = {"type_name"}      # AisMessageType::name(): modelled and compared by tools/extras.py, part of no property


def int_key(k, kind, v):
    b = base(k)
    if b in META:
        return False
    if b in RADIO or b in F32 or b in TEXT or b in BIN or is_enum_key(k, kind) or b in COUNTS:
        return False
    return True


class MsgProp:
    """Functional property over M ops: the implementation must agree with the (proved) model on
    the property's projection."""
    name = ""

    def project(self, op, ans):
        raise NotImplementedError

    def judge(self, rep, cfg, label, ops, impl, model):
        for op, a, m in zip(ops, impl, model):
            rep.evaluations += 1
            if label == "foreign-decoder":
                # a per-type decoder handed another type's payload: compared only where both sides report a message
                if a.startswith("ok") and m.startswith("ok") and self.project(op, a) != self.project(op, m):
                    rep.violation(f"{self.name}: a per-type decoder reports other values than the model for the same bits: "
                                  f"impl={self.project(op, a)!r} model={self.project(op, m)!r}", {"cfg": cfg, "ops": [op], "impl": a, "model": m})
                continue
            pa, pm = self.project(op, a), self.project(op, m)
            rep.count(label.split(":")[0])
            rep.count("impl:" + a.split(" ")[0] + (":" + a.split(" ")[1] if a.startswith("ok ") else ""))
            if a.startswith("ok"):
                rep.nontrivial.add(op)
            if pa != pm:
                extra = self.classify(op, a, m)
                if extra is not None:
                    rep.known.append(extra)
                    continue
                rep.violation(f"{self.name}: implementation and proved model disagree on the property's projection: "
                              f"impl={pa!r} model={pm!r}", {"cfg": cfg, "ops": [op], "impl": a, "model": m})
            else:
                self.extra_judge(rep, cfg, op, a, m)
            if rep.evaluations % 997 == 0:
                rep.sample({"op": op, "impl": a[:300]})

    def classify(self, op, a, m):
        return None

    def extra_judge(self, rep, cfg, op, a, m):
        pass

    # ---- the same payloads through AisParser::parse -------------------------------------------
    def line_stage(self, rep, cfg, rng, m_ops, model_m):
        """A sample of the M-op payloads is armored and sent as sentences (whole, or as a group of
        fragments with a rejected duplicate in between) through ONE parser with decoding on, between
        lines whose payload does not decode; the decoded message must be what the proved model gives
        for the bare payload (the M op), on this property's projection."""
        from . import core
        from .props_sent import L
        pairs = [(o, m) for o, m in zip(m_ops, model_m) if o.startswith("M ") and o != "M -"]
        if not pairs:
            return
        pairs = rng.sample(pairs, min(240, len(pairs)))
        ops, marks = [], []
        for k, (mop, mm) in enumerate(pairs):
            if k % 8 == 0:
                ops.append("N 0")
            bs = bytes.fromhex(mop.split(" ")[1])
            bits = ais.bytes_to_bits(bs)
            # messages need not end on a byte boundary: the last 0..7 bits are cleared and left to the fill
            # count / padding, so that every (length mod 6, fill) combination occurs
            trim = rng.choice([0, 0, 0, 1, 2, 3, 4, 5, 6, 7])
            if trim and len(bits) > 8:
                bits = bits[:len(bits) - trim] + [0] * trim
                bs = ais.bits_to_bytes(bits)
            else:
                trim = 0
            payload, fill = ais.armor(bits[:len(bits) - trim] if trim else bits)
            if len(payload) > 380:
                continue
            # the declared fill count and the padding bits are the sender's: a count below the padding leaves padding
            # bits in the message, a count above it clears message bits, and padding bits need not be zero - what the
            # decoder gets is what the statement of C03 says for (payload, count), whatever the length class
            if fill and rng.random() < 0.4:
                pl = bytearray(payload)
                v = ais.sixbit(pl[-1]) | (rng.getrandbits(fill) if rng.random() < 0.5 else (1 << fill) - 1)
                pl[-1] = ais.armor_char(v)
                payload = bytes(pl)
            if rng.random() < 0.25:
                fill = rng.randrange(6)
            bs = ais.spec_unarmor(payload, fill)
            r = rng.random()
            if r < 0.35:
                bad = rng.choice([b"F0000000", b"I", b"1", b"5000", b"8", b"0", b"1~~~", payload[:3] if len(payload) > 3 else b"1"])
                ops.append(L(ais.sentence(bad, fill=0), 0, 1))
            if rng.random() < 0.3 and len(payload) >= 4:
                # the line before: the same characters in another order (same length, fill and checksum, another
                # message - often another type); nothing of it may survive into the next decode
                q = bytearray(payload)
                i2 = rng.randrange(1, len(q))
                q[0], q[i2] = q[i2], q[0]
                if rng.random() < 0.5:
                    rng.shuffle(q)
                ops.append(L(ais.sentence(bytes(q), fill=fill), 0, 1))
            if rng.random() < 0.6 or len(payload) < 4:
                # (now and then behind a tag block with an NMEA 4.10 grouping parameter: it says nothing about this sentence)
                tb_ = rng.choice([None, None, None, b"g:1-2-%d" % rng.randrange(1, 99), b"g:2-2-%d" % rng.randrange(1, 99), b"g:1-1-3*00", b"s:x,g:1-3-7"])
                # (a count may be spelled with leading zeros: `05` is 5)
                ft_ = (b"0" * rng.choice([1, 2]) + str(fill).encode()) if rng.random() < 0.2 else None
                ops.append(L(ais.sentence(payload, fill=fill, tagblock=tb_, fill_txt=ft_), 0, 1))
            else:
                n = rng.choice([2, 3])
                cut = sorted(rng.sample(range(1, len(payload)), n - 1))
                pieces = [payload[a:b] for a, b in zip([0] + cut, cut + [len(payload)])]
                mid = rng.choice([None, 1, 5])
                if rng.random() < 0.3:
                    # the opening sentence of an earlier group with the same id and the same length whose
                    # remainder never arrived
                    ops.append(L(ais.sentence(gen.random_alphabet(rng, len(pieces[0])), fill=0, nf=n, fn=1, mid=mid), 0, 1))
                vary = rng.random() < 0.4
                for i, pc in enumerate(pieces):
                    kw = {}
                    if vary:
                        # a group is its count, numbering and id; everything else may change between fragments
                        kw = dict(channel=rng.choice([b"A", b"B", b"", b"1"]), talker=rng.choice([b"AI", b"AB", b"BS", b"XX"]),
                                  report=rng.choice([b"VDM", b"VDO", b"VDX"]), delim=rng.choice([b"!", b"$"]),
                                  tagblock=rng.choice([None, b"c:%d*00" % i, b"g:%d-%d-%d" % (rng.choice([1, i + 1, n]), rng.choice([1, n, 9]), rng.randrange(1, 99)),
                                                       b"g:1-1-5*00"]))
                    # (a fill count on a non-final fragment is legal and means nothing: only the last one's counts)
                    fl_i = fill if i == n - 1 else (rng.randrange(6) if rng.random() < 0.5 else 0)
                    ops.append(L(ais.sentence(pc, fill=fl_i, nf=n, fn=i + 1, mid=mid, **kw), 0, 1))
                    if i < n - 1 and rng.random() < 0.4:
                        # a repeated or stray fragment: rejected, and must leave nothing behind
                        j = rng.choice([i + 1, i + 3]) if i > 0 else i + 3
                        ops.append(L(ais.sentence(pc, fill=0, nf=max(n, j), fn=j, mid=mid), 0, 1))
                    if i < n - 1 and rng.random() < 0.3:
                        # the number the group expects next under ANOTHER id (absent, 0 and 255 are three different ids),
                        # or the right numbering spelled as value + 256: rejected, nothing appended
                        if rng.random() < 0.3:
                            from .props_hist import alias_strays
                            pool_ = alias_strays(rng, mid, i + 2)
                            if pool_:
                                ops.append(L(rng.choice(pool_), 0, 1))
                        elif rng.random() < 0.3:
                            # the expected number plus a multiple of 16 (and 255), own or foreign id
                            g = min(255, i + 2 + 16 * rng.choice([1, 2, 3, 8, 15]))
                            ops.append(L(ais.sentence(gen.random_alphabet(rng, 6), fill=0, nf=max(n, g), fn=g, mid=rng.choice([mid, None, 0, 1])), 0, 1))
                        elif rng.random() < 0.6:
                            oid = rng.choice([x for x in (None, 0, 255, 1, 254, (mid or 0) + 1) if x != mid])
                            ops.append(L(ais.sentence(gen.random_alphabet(rng, 6), fill=0, nf=n, fn=i + 2, mid=oid), 0, 1))
                        else:
                            kw2 = rng.choice([dict(fn_txt=str(i + 2 + 256).encode()), dict(nf_txt=str(n + 256).encode()),
                                              dict(mid_txt=str((mid or 0) + 256).encode())])
                            ops.append(L(ais.sentence(gen.random_alphabet(rng, 6), fill=0, nf=n, fn=i + 2, mid=mid, **kw2), 0, 1))
                    if i < n - 1 and rng.random() < 0.4:
                        # an unfragmented sentence from another station (accepted; decodable, undecodable, or not
                        # decoded at all) between the fragments: it must not touch the open group
                        other = rng.choice([gen.valid_message_payload(rng), (b"F0000", 0), (b"1", 0), (gen.random_alphabet(rng, 20), 0)])
                        ops.append(L(ais.sentence(other[0], fill=other[1], channel=rng.choice([b"A", b"B"]),
                                                  talker=rng.choice([b"AI", b"AB"]), report=rng.choice([b"VDM", b"VDO"]),
                                                  mid=rng.choice([None, None, mid, 7])), 0, rng.randrange(2)))
            # what unarmoring hands to the decoder: ceil(6 * chars / 8) bytes, the declared fill bits zeroed
            exp = bs
            marks.append((len(ops) - 1, m_op(exp)))
        long_ops, long_marks = [], []
        if cfg != "noalloc":
            # a payload far beyond any real message (11 000 and 22 000 characters: positions beyond 2^16 bits and
            # 2^13 bytes), as one sentence and as a group of 30 fragments: what precedes the tail is decoded as ever
            for extra in (11000,):
                mop, mm = rng.choice(pairs)
                bs = bytes.fromhex(mop.split(" ")[1])
                tail = bytes(rng.getrandbits(8) | 0x81 for _ in range(extra * 6 // 8))
                bits = ais.bytes_to_bits(bs + tail)
                bits = bits[:len(bits) - len(bits) % 6]
                payload, fill = ais.armor(bits)
                exp = ais.bits_to_bytes(bits + [0] * ((8 - len(bits) % 8) % 8))
                long_ops.append("N 0")
                long_ops.append(L(ais.sentence(payload, fill=fill), 0, 1))
                long_marks.append((len(long_ops) - 1, m_op(exp)))
                cut = [len(payload) * i // 30 for i in range(31)]
                for i in range(30):
                    long_ops.append(L(ais.sentence(payload[cut[i]:cut[i + 1]], fill=fill if i == 29 else 0, nf=30, fn=i + 1, mid=6), 0, 1))
                long_marks.append((len(long_ops) - 1, m_op(exp)))
        impl = core.run_impl(cfg, ops)
        if long_ops:
            # (their own stream, judged on the answers only: the model's list-based unarmoring is quadratic, so the
            # model is asked for the decoding of the expected bytes, not for the line)
            limpl = core.run_impl(cfg, long_ops, reconcile=False)
            base_n = len(ops)
            ops = ops + long_ops
            impl = impl + limpl
            marks = marks + [(base_n + i, mo) for (i, mo) in long_marks]
        exp_model = core.run_model(cfg, [mo for _, mo in marks])
        for (idx, mop), mm in zip(marks, exp_model):
            a = impl[idx]
            rep.evaluations += 1
            rep.count("lines:" + a.split(" ")[0])
            if a.startswith("C ") and " msg=" in a:
                msg = a.split(" msg=", 1)[1].rsplit(" conv=", 1)[0]
                synth = "err" if msg == "none" else "ok " + msg
            elif a.startswith("E nmea"):
                synth = "err"
            else:
                synth = a.split(" ")[0]
            pa, pm = self.project(mop, synth), self.project(mop, mm)
            if pa != pm:
                if self.classify(mop, synth, mm) is not None:
                    continue
                start = max(i for i in range(idx + 1) if ops[i].startswith("N "))
                rep.violation(f"{self.name}: through AisParser::parse (decode on, history of {idx - start} lines) the decoded message "
                              f"differs from the proved model's decoding of the same payload: impl={pa[:200]!r} model={pm[:200]!r}",
                              {"cfg": cfg, "ops": ops[start:idx + 1], "impl": a, "model": mm})
                return
            rep.nontrivial.add(ops[idx])


def m_op(bs):
    return "M " + hexs(bs)


def list_repeat_ops(rng):
    """Element lists (types 7, 13, 20) and station pairs (15, 16) whose elements repeat: all equal, adjacent equal,
    A B A, trailing all-zero / all-one elements - every complete element present is reported, equal or not."""
    ops = []
    for t, w in ((7, 32), (13, 32), (20, 30)):
        for n in (2, 3, 4):
            for pattern in ("same", "adjacent", "aba", "zero-tail", "ones-tail", "zero-all"):
                f = gen.base_fields(t, rng, ais.LAYOUTS[t])
                hdr = ais.pack(f, ais.LAYOUTS[t], 40)[:40]
                a = [rng.getrandbits(1) for _ in range(w)]
                b = [rng.getrandbits(1) for _ in range(w)]
                c = [rng.getrandbits(1) for _ in range(w)]
                els = {"same": [a] * n, "adjacent": ([a, a, b, c] if n == 4 else [a, b, b][:n] if n == 3 else [a, a]),
                       "aba": [a, b, a, b][:n], "zero-tail": [a, b, c][:n - 1] + [[0] * w],
                       "ones-tail": [a, b, c][:n - 1] + [[1] * w], "zero-all": [[0] * w] * n}[pattern]
                bits = hdr + [x for e in els for x in e]
                ops.append(m_op(ais.bits_to_bytes(bits)))
    for _ in range(6):
        f = gen.base_fields(15, rng, ais.LAYOUTS[15])
        f["mmsi2"] = f["mmsi1"]
        if rng.random() < 0.5:
            f["type2_1"], f["offset2_1"] = f["type1_1"], f["offset1_1"]
        ops.append(m_op(ais.bits_to_bytes(ais.pack(f, ais.LAYOUTS[15], 160))))
        f = gen.base_fields(16, rng, ais.LAYOUTS[16])
        f["mmsi2"], f["offset2"], f["increment2"] = f["mmsi1"], f["offset1"], f["increment1"]
        ops.append(m_op(ais.bits_to_bytes(ais.pack(f, ais.LAYOUTS[16], 144))))
    return ops


# ---------------------------------------------------------------- C04

class C04(MsgProp):
    id = "C04"
    name = "fixed-position fields"
    rule = ("M ops (messages::parse on unarmored bytes): for each of the 24 layouts/branches at full length - "
            "all-zero, all-one, one-hot and one-cold at every bit, per-field boundary values, random joint "
            "assignments; type 7/13/20 with 1-4 elements, type 15 in its 88/110/160-bit forms, type 16 with 1-2 "
            "stations; projection = every integer/flag/identifier key. non-trivial = distinct payload decoded ok by the implementation")

    # one-bit flags that the crate reports through a two-valued enumeration (C12 owns the naming; that the flag
    # read is the transmitted bit at the layout's position is this property's)
    FLAG_ENUMS = {"dte", "position_accuracy", "accuracy", "fix_quality", "assigned_mode", "cs_unit"}

    def project(self, op, ans):
        # (the slot parameters of the communication state are integers like any other: as the model reads them)
        return proj_keys(ans, lambda k, kind, v: int_key(k, kind, v) or base(k) in self.FLAG_ENUMS or
                         (base(k) in RADIO and base(k) not in ("radio", "sync_state", "sub_message")))

    def cases(self, tier, rng):
        nrand = 40 if tier == "quick" else 600
        for t in gen.ALL_TYPES:
            ops = [m_op(bs) for (_, bs) in gen.payload_cases(t, rng, nrand)]
            yield (f"full:{t}", ops)
        # the per-type public entry points `<Type as AisMessageType>::parse` (op P), with the payload's own type: the
        # same fields as through the dispatch
        ops = []
        for t in gen.ALL_TYPES:
            for (_, bs) in gen.payload_cases(t, rng, 8, walks=False):
                ops.append(f"P {gen.type_code(t)} {hexs(bs)}")
        yield ("per-type-entry", ops)
        # list branches
        for t in (7, 13, 20):
            for n in (1, 2, 3, 4):
                ops = []
                for _ in range(nrand):
                    f = gen.base_fields(t, rng, ais.LAYOUTS[t])
                    nbits = 40 + (32 if t != 20 else 30) * n
                    ops.append(m_op(ais.bits_to_bytes(ais.pack(f, ais.LAYOUTS[t], nbits))))
                yield (f"list:{t}x{n}", ops)
        yield ("list:repeats", list_repeat_ops(rng))
        for nbits in (88, 90, 108, 110, 112, 160, 162, 168):
            ops = []
            for _ in range(nrand):
                f = gen.base_fields(15, rng, ais.LAYOUTS[15])
                ops.append(m_op(ais.bits_to_bytes(ais.pack(f, ais.LAYOUTS[15], nbits))))
            yield (f"t15:{nbits}", ops)
        for nbits in (92, 96, 144):
            ops = []
            for _ in range(nrand):
                f = gen.base_fields(16, rng, ais.LAYOUTS[16])
                ops.append(m_op(ais.bits_to_bytes(ais.pack(f, ais.LAYOUTS[16], nbits))))
            yield (f"t16:{nbits}", ops)


# ---------------------------------------------------------------- C09

class C09(MsgProp):
    id = "C09"
    name = "dispatch on the 6-bit type"
    rule = ("M ops: all 64 type values x byte lengths 0..60 x random contents, plus full-length payloads of every "
            "supported type; projection = ok/err, variant name, message_type. non-trivial = distinct payload decoded ok")

    KIND = {1: "PositionReport", 2: "PositionReport", 3: "PositionReport", 4: "BaseStationReport",
            5: "StaticAndVoyageRelatedData", 6: "BinaryAddressedMessage", 7: "BinaryAcknowledgeMessage",
            8: "BinaryBroadcastMessage", 9: "StandardAircraftPositionReport", 10: "UtcDateInquiry",
            11: "UtcDateResponse", 12: "AddressedSafetyRelatedMessage", 13: "SafetyRelatedAcknowledgment",
            14: "SafetyRelatedBroadcastMessage", 15: "Interrogation", 16: "AssignmentModeCommand",
            17: "DgnssBroadcastBinaryMessage", 18: "StandardClassBPositionReport",
            19: "ExtendedClassBPositionReport", 20: "DataLinkManagementMessage", 21: "AidToNavigationReport",
            24: "StaticDataReport", 27: "LongRangeAisBroadcastMessage"}

    def project(self, op, ans):
        a = parse_answer(ans)
        if op.startswith("P "):
            # a per-type decoder handed another type's payload: no property says what it must do with it, except that
            # a message it does report carries the six type bits it was given
            return "" if a["cls"] != "ok" else f"message_type={a['kv'].get('message_type')}"
        if a["cls"] != "ok":
            return a["cls"]
        return f"ok {a.get('kind')} message_type={a['kv'].get('message_type')}"

    def judge(self, rep, cfg, label, ops, impl, model):
        if label != "foreign-decoder":
            return MsgProp.judge(self, rep, cfg, label, ops, impl, model)
        for op, a, m in zip(ops, impl, model):
            rep.evaluations += 1
            rep.count(label)
            pa = parse_answer(a)
            if pa["cls"] == "ok":
                bs = bytes.fromhex(op.split(" ")[2])
                want = bs[0] >> 2
                if pa["kv"].get("message_type") != str(want):
                    rep.violation(f"C09: a decoded message's own type field ({pa['kv'].get('message_type')}) differs from the first six "
                                  f"payload bits ({want}) - per-type decoder {op.split(' ')[1]}", {"cfg": cfg, "ops": [op], "impl": a, "model": m})

    def extra_judge(self, rep, cfg, op, a, m):
        # relational form, straight from the statement
        bs = bytes.fromhex(op.split(" ")[1]) if op.split(" ")[1] != "-" else b""
        pa = parse_answer(a)
        if pa["cls"] == "ok":
            t = bs[0] >> 2 if bs else None
            if self.KIND.get(t) != pa.get("kind") or str(t) != pa["kv"].get("message_type"):
                rep.violation(f"C09: type bits {t} decoded as {pa.get('kind')} message_type={pa['kv'].get('message_type')}",
                              {"cfg": cfg, "ops": [op], "impl": a})
        elif pa["cls"] == "panic":
            pass

    def cases(self, tier, rng):
        reps = 2 if tier == "quick" else 12
        for t in range(64):
            ops = []
            for n in range(0, 61):
                for _ in range(reps):
                    body = bytes(rng.getrandbits(8) for _ in range(max(0, n - 1)))
                    if n == 0:
                        bs = b""
                    else:
                        bs = bytes([(t << 2) | rng.getrandbits(2)]) + body
                    ops.append(m_op(bs))
            yield (f"type:{t}", ops)
        for t in gen.ALL_TYPES:
            yield (f"full:{t}", [m_op(bs) for (_, bs) in gen.payload_cases(t, rng, 20, walks=False)])
        # the per-type public decoders handed a payload of ANOTHER type (op P): judged on one clause only - a message
        # that is reported carries the six type bits it was given (whether it is reported at all is nobody's business)
        ops = []
        for t in gen.ALL_TYPES:
            f = gen.base_fields(t, rng, ais.LAYOUTS[t])
            bs = gen.full_payload(t, f) + gen.tail_for(t, rng) + bytes(8)
            for t2 in ais.SUPPORTED:
                if t2 != gen.type_code(t) and not (t2 in (1, 2, 3) and gen.type_code(t) in (1, 2, 3)):
                    ops.append(f"P {t2} {hexs(bs)}")
        yield ("foreign-decoder", ops)


# ---------------------------------------------------------------- C10 / C11

def coord_cases(rng, tier):
    """Payloads concentrating on coordinate / speed / course / draught fields."""
    n = 60 if tier == "quick" else 1500
    for t in (1, 2, 3, 4, 9, 11, 17, 18, 19, 21, 27, 5):
        layout = ais.LAYOUTS[t]
        ops = []
        names = [x for x in layout if x[0] in ("lon", "lat", "sog", "cog", "draught", "heading", "rot", "altitude",
                                                "year", "month", "day", "minute", "second", "eta_month", "eta_day",
                                                "eta_minute")]
        for (name, off, w) in names:
            vals = set(gen.field_specials(name, w))
            for _ in range(n):
                vals.add(rng.getrandbits(w))
            if w <= 12 and tier != "quick":
                vals |= set(range(1 << w))
            for v in sorted(vals):
                f = gen.base_fields(t, rng, layout)
                f[name] = v
                ops.append(m_op(gen.full_payload(t, f) + gen.tail_for(t, rng)))
            # the 'not available' code itself, its neighbours and 0 in every background (all other fields not
            # available, all zero, all ones, notable moments): absence is a matter of this field's code alone
            codes = [c for c in gen.NOT_AVAILABLE.get(name, []) if c < (1 << w)]
            if name in ("lon", "lat"):
                codes = [{28: 108600000, 27: 54600000, 18: 108600, 17: 54600}[w]]
            if name in ("year", "month", "day", "eta_month", "eta_day"):
                codes = [0]
            for c in codes:
                for v in (c, (c + 1) % (1 << w), (c - 1) % (1 << w), 0, (1 << w) - 1):
                    for f in gen.backgrounds(t, rng, layout):
                        f[name] = v
                        ops.append(m_op(gen.full_payload(t, f) + gen.tail_for(t, rng)))
        yield (f"coord:{t}", ops)
    # the per-type public decoders handed a position report of another type (op P): when implementation and model
    # both report a message, the reported position fields are the same
    ops = []
    for t in (1, 4, 9, 18, 19, 21, 27, 17):
        f = gen.base_fields(t, rng, ais.LAYOUTS[t])
        bs = gen.full_payload(t, f) + bytes(rng.getrandbits(8) for _ in range(20))
        for t2 in (1, 4, 9, 11, 18, 19, 21, 27, 17):
            if t2 != t:
                ops.append(f"P {t2} {hexs(bs)}")
    yield ("foreign-decoder", ops)
    # interrogation slot offsets
    ops = []
    # slot offsets cut off by the end of the payload (every even bit length): absent, never a partial number
    for nbits in range(72, 172, 2):
        for _ in range(2):
            f = gen.base_fields(15, rng, ais.LAYOUTS[15])
            for k_ in ("offset1_1", "offset1_2", "offset2_1"):
                f[k_] = rng.choice([4095, 0xAAA, 0x555, rng.getrandbits(12)])
            ops.append(m_op(ais.bits_to_bytes(ais.pack(f, ais.LAYOUTS[15], 160)[:nbits])))
    for nbits in (88, 110, 160):
        for name in ("offset1_1", "offset1_2", "offset2_1"):
            for v in (0, 1, 2, 4095, rng.getrandbits(12)):
                f = gen.base_fields(15, rng, ais.LAYOUTS[15])
                f[name] = v
                ops.append(m_op(ais.bits_to_bytes(ais.pack(f, ais.LAYOUTS[15], nbits))))
    yield ("coord:15", ops)


# ---------------------------------------------------------------- exhaustive field sweeps (X ops)

KEYNAME = {"sog": "speed_over_ground", "lon": "longitude", "lat": "latitude", "cog": "course_over_ground", "draught": "draught"}
# type -> layout fields in the order of the proved table Spec.Scaled.tXX
SWEEP_ORDER = {1: ["sog", "lon", "lat", "cog"], 2: ["sog", "lon", "lat", "cog"], 3: ["sog", "lon", "lat", "cog"],
               4: ["lon", "lat"], 11: ["lon", "lat"], 5: ["draught"], 9: ["sog", "lon", "lat", "cog"],
               17: ["lon", "lat"], 18: ["sog", "lon", "lat", "cog"], 19: ["sog", "lon", "lat", "cog"],
               21: ["lon", "lat"], 27: ["lon", "lat", "sog", "cog"]}
SWEEP_BYTES = {5: 53, 19: 39, 21: 34, 27: 12, 17: 15}
SENTINEL = {("lon", 28): 108600000, ("lat", 27): 54600000, ("lon", 18): 108600, ("lat", 17): 54600,
            ("sog", 10): 1023, ("cog", 12): 3600, ("sog", 6): 63, ("cog", 9): 511}


def sweep_payload(t, off, w, raw):
    n = SWEEP_BYTES.get(t, 21)
    b = bytearray(((i * 37) % 256) ^ 0x5A for i in range(n))
    b[0] = (t << 2) & 0xFF
    for i in range(w):
        p = off + i
        if (raw >> (w - 1 - i)) & 1:
            b[p // 8] |= 0x80 >> (p % 8)
        else:
            b[p // 8] &= ~(0x80 >> (p % 8)) & 0xFF
    return bytes(b)


def sweep_fields(rep, tier, cfgs, owner):
    """Every raw value of every scaled field (quick: fields up to 18 bits; thorough: the 27/28-bit
    coordinates too) through the real messages::parse, folded into a hash of (presence, f32 bits) and
    compared chunk by chunk with the same fold over the proved specification (ScaledSpec.renderRaw =
    ScaledSpec.render, Layouts.render_eq_renderRaw); small fields also through the whole model
    (parseMessage).  A differing chunk is bisected to the first raw value and replayed as an M op.
    owner: "C10" reports wrong values and values missing although the raw value is not the code; "C11"
    reports every presence difference (C11's statement is an "exactly when": both directions are its own)."""
    from concurrent.futures import ThreadPoolExecutor
    from . import core
    jobs = []   # (cfg, type, fld, off, w, mode, lo, hi)
    for t, order in SWEEP_ORDER.items():
        lay = {n: (o, w) for (n, o, w) in ais.LAYOUTS[t]}
        for idx, fld in enumerate(order):
            off, w = lay[fld]
            if w > 18 and tier != "thorough":
                continue
            for cfg in (cfgs if w <= 18 else ["std"]):
                step = 1 << 22
                for lo in range(0, 1 << w, step):
                    jobs.append((cfg, t, idx, fld, off, w, "r", lo, min(1 << w, lo + step)))
                if w <= 12:
                    # the same values through the specification on the rebuilt payload and through the whole model:
                    # the three readings (raw value, rebuilt payload, parseMessage) must hash alike
                    jobs.append((cfg, t, idx, fld, off, w, "s", 0, 1 << w))
                    jobs.append((cfg, t, idx, fld, off, w, "m", 0, 1 << w))
    def opline(j):
        cfg, t, idx, fld, off, w, mode, lo, hi = j
        return f"X {mode} {t} {idx} {KEYNAME[fld]} {off} {w} {lo} {hi}"
    # distribute over workers, per cfg
    nworkers = 16
    buckets = {}
    for k, j in enumerate(jobs):
        buckets.setdefault((j[0], k % nworkers), []).append(j)
    def work(item):
        (cfg, _), js = item
        ops = [opline(j) for j in js]
        return js, core.run_impl(cfg, ops), core.run_model(cfg, ops)
    with ThreadPoolExecutor(nworkers) as ex:
        results = list(ex.map(work, buckets.items()))
    for js, impl, model in results:
        for j, a, m in zip(js, impl, model):
            cfg, t, idx, fld, off, w, mode, lo, hi = j
            rep.evaluations += hi - lo
            rep.count(f"sweep:{mode}:w{w}", hi - lo)
            if not m.startswith("ok "):
                rep.violation(f"{owner}: the model driver refuses the sweep {opline(j)!r} ({m!r}): the field is not where the proved table puts it",
                              {"cfg": cfg, "ops": [opline(j)], "impl": a, "model": m})
                continue
            if a == m:
                want_absent = 1 if (fld, w) in SENTINEL and lo <= SENTINEL[(fld, w)] < hi else 0
                if int(a.split(" ")[2]) != want_absent:
                    rep.violation(f"{owner}: sweep {opline(j)!r}: {a.split(' ')[2]} raw values are reported absent, the 'not available' code alone should be",
                                  {"cfg": cfg, "ops": [opline(j)], "impl": a, "model": m})
                rep.nontrivial.add(opline(j))
                continue
            # bisect to the first differing raw value
            l, h = lo, hi
            while h - l > 1:
                mid = (l + h) // 2
                op = f"X {mode} {t} {idx} {KEYNAME[fld]} {off} {w} {l} {mid}"
                if core.run_impl(cfg, [op])[0] != core.run_model(cfg, [op])[0]:
                    h = mid
                else:
                    l = mid
            raw = l
            mop = m_op(sweep_payload(t, off, w, raw))
            ia, ma = core.run_impl(cfg, [mop])[0], core.run_model(cfg, [mop])[0]
            key = KEYNAME[fld]
            iv = parse_answer(ia).get("kv", {}).get(key, "?") if parse_answer(ia)["cls"] == "ok" else parse_answer(ia)["cls"]
            mv = parse_answer(ma).get("kv", {}).get(key, "?") if parse_answer(ma)["cls"] == "ok" else parse_answer(ma)["cls"]
            if iv == mv:
                rep.violation(f"{owner}: sweep {opline(j)!r} differs at raw {raw} but the single payload agrees: the sweep correspondence itself broke",
                              {"cfg": cfg, "ops": [f"X {mode} {t} {idx} {key} {off} {w} {raw} {raw + 1}", mop], "impl": ia, "model": ma})
                continue
            presence = (mv == "none") != (iv == "none")
            mine = (owner == "C11" and presence) or (owner == "C10" and (not presence or iv == "none")) \
                or iv in ("panic", "err", "abort")
            c11_kind = presence
            if mine:
                what = (f"{key} of type {t} at raw {raw}: reported {iv}, specified {mv}")
                rep.violation(f"{owner}: exhaustive sweep: {what}", {"cfg": cfg, "ops": [mop], "impl": ia, "model": ma})
            else:
                rep.count("sweep:left-to-" + ("C11" if c11_kind else "C10"))


class C10(MsgProp):
    id = "C10"
    name = "coordinate/speed/course scaling"
    rule = ("M ops: every coordinate, speed, course and draught field of every carrying type at boundary values "
            "(0, 1, max, sign bit, most negative, sentinels +-1) and random values (thorough: all values of fields "
            "up to 12 bits wide), jointly with random neighbours; projection = f32 keys compared bit-for-bit "
            "(to_bits) with the model's exact (raw, scale) pair evaluated in IEEE single precision; additionally the "
            "implementation's f32 is checked against raw/600000, raw/600, raw/10 in exact rational arithmetic "
            "(<= 2 ulp: the i32->f32 conversion and the division each round once; type 27: 3 ulp). "
            "X ops (exhaustive sweeps): every raw value of every speed/course/draught field and of the 17/18-bit "
            "coordinates of types 17 and 27 in all builds (thorough: also all 2^28 longitudes and 2^27 latitudes of "
            "types 1-4, 9, 11, 18, 19, 21), through the real messages::parse, hashed and compared with the proved "
            "specification function; fields up to 12 bits also through the whole model. "
            "non-trivial = distinct payload decoded ok / distinct sweep chunk in agreement")

    def project(self, op, ans):
        return proj_keys(ans, lambda k, kind, v: base(k) in F32)

    def judge(self, rep, cfg, label, ops, impl, model):
        # presence/absence of a value is C11's subject: compare the scaled values where both sides report one
        for op, a, m in zip(ops, impl, model):
            rep.evaluations += 1
            rep.count(label)
            pa, pm = parse_answer(a), parse_answer(m)
            if pa["cls"] != "ok" or pm["cls"] != "ok":
                if pa["cls"] == "panic":
                    rep.violation("C10: implementation panics", {"cfg": cfg, "ops": [op], "impl": a})
                continue
            rep.nontrivial.add(op)
            if label == "foreign-decoder":
                if self.project(op, a) != self.project(op, m):
                    rep.violation("C10: a per-type decoder handed another type's payload reports other scaled values than the model "
                                  f"for the same bits: impl={self.project(op, a)!r} model={self.project(op, m)!r}",
                                  {"cfg": cfg, "ops": [op], "impl": a, "model": m})
                continue
            for k, v in pa["kv"].items():
                if base(k) not in F32:
                    continue
                mv = pm["kv"].get(k, "none")
                if v != "none" and mv != "none" and mv != v:
                    rep.violation(f"C10: {k} reported {v}, the model's exact (raw, scale) pair gives {mv}",
                                  {"cfg": cfg, "ops": [op], "impl": a, "model": m})
                elif v == "none" and mv != "none":
                    # a raw value that is not the field's 'not available' code must be reported as raw/scale;
                    # (the converse - a value where absence is specified - is C11's subject, not C10's)
                    rep.violation(f"C10: {k} is reported absent although the raw value is not the 'not available' code "
                                  f"(specified value {mv})", {"cfg": cfg, "ops": [op], "impl": a, "model": m})
            self.extra_judge(rep, cfg, op, a, m)
            if rep.evaluations % 997 == 0:
                rep.sample({"op": op, "impl": a[:300]})

    def cases(self, tier, rng):
        yield from coord_cases(rng, tier)

    def extra_run(self, rep, tier, cfgs):
        sweep_fields(rep, tier, cfgs, "C10")

    # exact rational check of the implementation's own float against the spec scaling
    SPEC = {  # kind -> key -> (layout type, field, signed width or 0, num, den)
    }

    def extra_judge(self, rep, cfg, op, a, m):
        import struct
        from fractions import Fraction
        pa = parse_answer(a)
        if pa["cls"] != "ok":
            return
        bs = bytes.fromhex(op.split(" ")[1])
        t = bs[0] >> 2
        lay = {n: (o, w) for (n, o, w) in ais.LAYOUTS.get(t if t != 24 else "24A", [])}
        def chk(key, fld, signed, den):
            if key not in pa["kv"] or fld not in lay:
                return
            v = pa["kv"][key]
            if v == "none":
                return
            o, w = lay[fld]
            raw = ais.field(bs, o, w)
            if signed:
                raw = ais.to_signed(w, raw)
            x = struct.unpack(">f", bytes.fromhex(v[2:]))[0]
            exact = Fraction(raw, den)
            fx = Fraction(x)
            # one ulp at this magnitude in single precision
            import math
            mag = max(abs(exact), Fraction(1, 10**30))
            e = math.floor(math.log2(float(mag))) if mag > 0 else -126
            ulp = Fraction(2) ** (e - 23)
            tol = 2 * ulp   # i32->f32 conversion and the division each round once (type 27: plus one multiplication)
            if t == 27 and den == 600:
                tol = 3 * ulp
            if abs(fx - exact) > tol:
                rep.violation(f"C10: {key} raw={raw} reported {x!r}, exact {float(exact)!r} (off by more than {tol} )",
                              {"cfg": cfg, "ops": [op], "impl": a})
        if t in (1, 2, 3, 4, 9, 11, 18, 19, 21):
            chk("longitude", "lon", True, 600000)
            chk("latitude", "lat", True, 600000)
        if t in (17, 27):
            chk("longitude", "lon", True, 600)
            chk("latitude", "lat", True, 600)
        if t in (1, 2, 3, 18, 19):
            chk("speed_over_ground", "sog", False, 10)
        if t in (9, 27):
            chk("speed_over_ground", "sog", False, 1)
        if t in (1, 2, 3, 9, 18, 19):
            chk("course_over_ground", "cog", False, 10)
        if t == 27:
            chk("course_over_ground", "cog", False, 1)
        if t == 5:
            chk("draught", "draught", False, 10)


class C11(MsgProp):
    id = "C11"
    name = "'not available' sentinels"
    rule = ("M ops: every optional numeric field of every type at its sentinel, sentinel+-1, the other resolution's "
            "sentinel, extremes and random values; projection = the optional keys (presence, and the value when present). "
            "X ops (exhaustive sweeps, see C10): for every scaled optional field the number of raw values reported absent "
            "must be exactly one, the specified code (quick: fields up to 18 bits, all builds; thorough: the 27/28-bit coordinates too). "
            "non-trivial = distinct payload decoded ok / distinct sweep chunk in agreement")

    def project(self, op, ans):
        return proj_keys(ans, lambda k, kind, v: base(k) in OPTINT or base(k) in (F32 - {"draught"}))

    def cases(self, tier, rng):
        yield from coord_cases(rng, tier)

    def extra_run(self, rep, tier, cfgs):
        sweep_fields(rep, tier, cfgs, "C11")


# ---------------------------------------------------------------- C12

TABLES = {"epfd": 16, "ship": 256, "nav": 16, "man": 4, "navaid": 32, "sync": 4, "rot": 256,
          "accuracy": 2, "dte": 2, "assigned": 2, "cs": 2}


class C12(MsgProp):
    id = "C12"
    name = "enumerations"
    exhaustive = True
    rule = ("T ops: every code of every enumeration table (epfd 16, ship type 256 incl. conversion back to u8, "
            "navigation status 16, manoeuvre 4, aid type 32, sync state 4, rate-of-turn 256, accuracy/dte/assigned/"
            "carrier-sense 2 each) - exhaustive; M ops: every code of every enumerated field inside every message "
            "type that carries it; projection = enumeration keys. non-trivial = distinct op answered ok")

    def project(self, op, ans):
        if op.startswith("T "):
            return ans
        return proj_keys(ans, lambda k, kind, v: is_enum_key(k, kind))

    def cases(self, tier, rng):
        for name, n in TABLES.items():
            yield (f"table:{name}", [f"T {name} {c}" for c in range(n)])
        enumf = {"nav_status", "maneuver", "epfd", "ship_type", "aid_type", "accuracy", "dte", "assigned", "cs_unit",
                 "partno", "comm_state", "selector"}
        for t in gen.ALL_TYPES:
            ops = []
            layout = ais.LAYOUTS[t]
            for (name, off, w) in layout:
                if name not in enumf:
                    continue
                if name == "partno":
                    vals = [0, 1, 2, 3]
                elif name == "comm_state":
                    vals = [s << 17 | rng.getrandbits(17) for s in range(4)] + [0x60006, 0x20006, 0x40006, 0x6, 0x60000, 0x7FFFF, 0]
                else:
                    vals = range(1 << w)
                mm = [n2 for (n2, o2, w2) in layout if w2 == 30 and "mmsi" in n2]
                for v in vals:
                    f = gen.base_fields(t, rng, layout)
                    f[name] = v
                    ops.append(m_op(gen.full_payload(t, f) + gen.tail_for(t, rng)))
                    if (1 << w) <= 32:
                        # ... nor on what else the message says (nothing available, all zero, all ones, notable moments)
                        for f in gen.backgrounds(t, rng, layout):
                            f[name] = v
                            ops.append(m_op(gen.full_payload(t, f) + gen.tail_for(t, rng)))
                    # the code's meaning must not depend on who transmits it: every family of station identity
                    fams = range(gen.MMSI_FAMILIES) if (1 << w) <= 32 else [rng.randrange(gen.MMSI_FAMILIES)]
                    for fam in fams:
                        if not mm:
                            break
                        f = gen.base_fields(t, rng, layout)
                        f[name] = v
                        f[mm[0]] = gen.structured_mmsi(rng, fam)
                        ops.append(m_op(gen.full_payload(t, f) + gen.tail_for(t, rng)))
            if ops:
                yield (f"enum:{t}", ops)
        # enumerated fields of messages that end early: type 5 at every byte length that still holds its mandatory part
        # (the DTE flag is the bit after whatever is left of the destination), types 19, 21, 24 one byte short and long
        ops = []
        for n in range(38, 55):
            for _ in range(6):
                f = gen.base_fields(5, rng, ais.LAYOUTS[5])
                f["destination"] = gen.chars_value(gen.structured_chars(rng, 20)) if rng.random() < 0.5 else rng.getrandbits(120)
                ops.append(m_op((gen.full_payload(5, f) + b"\x00\xff")[:n]))
        for t in (19, 21, "24A", "24B", 18, 9, 4):
            for d in (-2, -1, 1, 2):
                f = gen.base_fields(t, rng, ais.LAYOUTS[t])
                bs = gen.full_payload(t, f) + bytes([rng.getrandbits(8), rng.getrandbits(8)])
                ops.append(m_op(bs[:len(bs) - 2 + d]))
        yield ("enum:truncated", ops)


# ---------------------------------------------------------------- C13

TEXT_FIELDS = {5: [("callsign", 7), ("name", 20), ("destination", 20)], 19: [("name", 20)], 21: [("name", 20)],
               "24A": [("name", 20)], "24B": [("vendor_id", 3), ("callsign", 7)]}


class C13(MsgProp):
    id = "C13"
    name = "6-bit text"
    rule = ("M ops: every text field of types 5, 19, 21, 24A, 24B, 12, 14 with each of the 64 characters at first, "
            "interior and last position, all-'@', all-space, interior '@'/space runs, leading/trailing padding mixes and "
            "random strings; safety texts of 1..156 characters; projection = text keys (bytes). "
            "non-trivial = distinct payload decoded ok")

    def project(self, op, ans):
        return proj_keys(ans, lambda k, kind, v: base(k) in TEXT)

    def text_values(self, k, rng, tier):
        out = []
        for c in range(64):
            for pos in sorted({0, k // 2, k - 1}):
                v = [rng.choice([1, 2, 3, 33, 48]) for _ in range(k)]
                v[pos] = c
                out.append(v)
        out.append([0] * k)
        out.append([32] * k)
        out.append([32] * (k // 2) + [1] + [0] * (k - k // 2 - 1))
        out.append([1] + [0] * (k - 2) + [2] if k >= 2 else [1])
        out.append([32, 0, 1, 32, 0][:k] + [0] * max(0, k - 5))
        for _ in range(20 if tier == "quick" else 400):
            out.append([rng.choice([0, 32, 0, 32, rng.getrandbits(6)]) for _ in range(k)])
        return out

    def cases(self, tier, rng):
        for t, flds in TEXT_FIELDS.items():
            layout = ais.LAYOUTS[t]
            lay = {n: (o, w) for (n, o, w) in layout}
            ops = []
            for (name, k) in flds:
                for chars in self.text_values(k, rng, tier):
                    f = gen.base_fields(t, rng, layout)
                    v = 0
                    for c in chars:
                        v = (v << 6) | c
                    f[name] = v
                    ops.append(m_op(gen.full_payload(t, f) + gen.tail_for(t, rng)))
            yield (f"text:{t}", ops)
        # truncated type 5: the destination is what is present (every byte length from the draught on)
        ops = []
        for nbytes in range(38, 54):
            for _ in range(4 if tier == "quick" else 40):
                f = gen.base_fields(5, rng, ais.LAYOUTS[5])
                chars = [rng.choice([1, 2, 19, 20, 33, 48, 0, 32]) for _ in range(20)]
                v = 0
                for c in chars:
                    v = (v << 6) | c
                f["destination"] = v
                ops.append(m_op(gen.full_payload(5, f)[:nbytes]))
        yield ("text:5-truncated", ops)
        # every text-bearing layout cut at every byte length: a text is reported only with the message it belongs to, and
        # then it is the decoding of its whole bit range
        ops = []
        for t in (19, 21, "24A", "24B", 12, 14):
            for _ in range(2):
                f = gen.base_fields(t, rng, ais.LAYOUTS[t])
                bs = gen.full_payload(t, f) + (ais.bits_to_bytes([rng.getrandbits(1) for _ in range(48)]) if t in (12, 14) else b"")
                for nb in range(3, len(bs) + 1):
                    ops.append(m_op(bs[:nb]))
        yield ("text:truncated", ops)
        # the per-type public decoders (op P) handed a text-bearing message of ANOTHER type: each decoder reads the text at
        # its own position, whatever the six type bits say; compared where implementation and model both report a message
        ops = []
        for t in (12, 14, 5, 19, 21, "24A", "24B"):
            for _ in range(3):
                f = gen.base_fields(t, rng, ais.LAYOUTS[t])
                bs = gen.full_payload(t, f) + ais.bits_to_bytes([b_ for c in gen.structured_chars(rng, 12) for b_ in [(c >> (5 - i)) & 1 for i in range(6)]])
                for t2 in (12, 14, 5, 19, 21, 24):
                    if t2 != (24 if str(t).startswith("24") else t):
                        ops.append(f"P {t2} {hexs(bs)}")
        yield ("foreign-decoder", ops)
        for t, hdr in ((12, 72), (14, 40)):
            ops = []
            lens = list(range(1, 30)) + [40, 60, 100, 155, 156, 157] if tier == "quick" else list(range(1, 160))
            for k in lens:
                shaped = [[0] * k, [32] * k, [32] + [5] * (k - 1) if k > 1 else [32]]
                # runs of blanks / '@' of every length at the start, in the middle and at the end (a decoder working
                # in chunks of 20 characters, or trimming per chunk, shows at 20, 21, 40, 41 ...)
                for run in sorted({1, 2, 19, 20, 21, 22, 39, 40, 41, k - 1, k - 2}):
                    if 0 < run < k:
                        for padc in (32, 0):
                            shaped.append([padc] * run + [rng.randrange(1, 27) for _ in range(k - run)])
                            shaped.append([rng.randrange(1, 27) for _ in range(k - run)] + [padc] * run)
                            if k - run >= 2:
                                shaped.append([13] + [padc] * run + [rng.randrange(1, 27) for _ in range(k - run - 1)])
                for chars in ([[rng.getrandbits(6) for _ in range(k)] for _ in range(3)] + shaped):
                    f = gen.base_fields(t, rng, ais.LAYOUTS[t])
                    bits = ais.pack(f, ais.LAYOUTS[t], hdr)
                    for c in chars:
                        bits += [(c >> (5 - j)) & 1 for j in range(6)]
                    ops.append(m_op(ais.bits_to_bytes(bits)))
            yield (f"text:{t}", ops)


# ---------------------------------------------------------------- C14

class C14(MsgProp):
    id = "C14"
    name = "variable length"
    rule = ("M ops: every supported type x every byte length from 0 to beyond the protocol maximum x random "
            "contents (plus all-zero padding variants); projection = ok/err, element counts, presence of optional "
            "tails, type-5 DTE and destination, safety text. non-trivial = distinct payload decoded ok")

    def project(self, op, ans):
        def pred(k, kind, v):
            b = base(k)
            return (b in COUNTS or b in VARLEN_PRESENCE or b in ("dte", "destination", "text", "part", "vessel_name")
                    or b.startswith("acks_") or b.startswith("res_") or b.startswith("stations_")
                    or b.startswith("messages_"))
        return proj_keys(ans, pred)

    def classify(self, op, a, m):
        return None

    def extra_judge(self, rep, cfg, op, a, m):
        # the statement's clause for type 5: a missing DTE (bit 422 beyond the end) defaults to NotReady
        pa = parse_answer(a)
        if pa["cls"] != "ok" or pa.get("kind") != "StaticAndVoyageRelatedData":
            return
        bs = bytes.fromhex(op.split(" ")[1])
        L = 8 * len(bs)
        want = ("NotReady" if ais.field(bs, 422, 1) else "Ready") if L >= 423 else "NotReady"
        got = pa["kv"].get("dte")
        if got != want:
            k = (L - 302) // 6
            leftover = 302 + 6 * k
            formula = ("NotReady" if ais.field(bs, leftover, 1) else "Ready") if leftover < L else "NotReady"
            if L < 423 and got == formula:
                rep.known.append("site=src/messages/static_and_voyage_related_data.rs:73-77 type-5 DTE read from the "
                                 "first leftover bit after the last complete destination character when the payload "
                                 "is shorter than 423 bits (D12)")
            else:
                rep.violation(f"C14: type 5 of {L} bits reports dte={got}, specified {want}",
                              {"cfg": cfg, "ops": [op], "impl": a})

    def cases(self, tier, rng):
        reps = 2 if tier == "quick" else 10
        maxlen = {5: 60, 6: 130, 8: 130, 12: 130, 14: 130, 17: 130, 19: 45, 21: 50}
        for t in ais.SUPPORTED:
            ops = []
            top = maxlen.get(t, 30)
            for n in range(0, top + 1):
                for r in range(reps):
                    if n == 0:
                        bs = b""
                    else:
                        body = bytes(rng.getrandbits(8) for _ in range(n - 1)) if r % 2 == 0 else bytes(n - 1)
                        first = (t << 2) | (rng.getrandbits(2) if r % 2 == 0 else 0)
                        bs = bytes([first]) + body
                    ops.append(m_op(bs))
            yield (f"len:{t}", ops)
        yield ("list:repeats", list_repeat_ops(rng))
        # the crate's own truncated type-5 vector and bit-granular truncations of a full type 5
        f = gen.base_fields(5, rng, ais.LAYOUTS[5])
        full = ais.pack(f, ais.LAYOUTS[5], 424)
        ops = []
        for nb in range(296, 425):
            ops.append(m_op(ais.bits_to_bytes(full[:nb])))
        yield ("t5trunc", ops)


# ---------------------------------------------------------------- C15

class C15(MsgProp):
    id = "C15"
    name = "binary pass-through"
    rule = ("M ops: types 6, 8, 17 with every remainder length 0..120 bytes (thorough: to 130) and random contents "
            "and headers; projection = data bytes in full, dac, fid, DGNSS header fields. non-trivial = distinct payload decoded ok")

    def project(self, op, ans):
        return proj_keys(ans, lambda k, kind, v: base(k) in ("data", "dac", "fid", "p_message_type", "station_id",
                                                             "z_count", "sequence_number", "n", "health"))

    def extra_run(self, rep, tier, cfgs):
        from .props_hist import C20
        C20().tool_pass(rep, "C15")

    def extra_judge(self, rep, cfg, op, a, m):
        pa = parse_answer(a)
        if pa["cls"] != "ok":
            return
        bs = bytes.fromhex(op.split(" ")[1])
        hdr = {6: 11, 8: 7, 17: 15}.get(bs[0] >> 2)
        if hdr is None:
            return
        want = "b:" + bs[hdr:].hex()
        if pa["kv"].get("data") != want:
            rep.violation(f"C15: data bytes differ from the payload after the {hdr}-byte header",
                          {"cfg": cfg, "ops": [op], "impl": a})

    def cases(self, tier, rng):
        reps = 3 if tier == "quick" else 20
        for t, hdr in ((6, 11), (8, 7), (17, 15)):
            ops = []
            for n in range(0, 131):
                for _ in range(reps):
                    f = gen.base_fields(t, rng, ais.LAYOUTS[t])
                    bs = gen.full_payload(t, f) + bytes(rng.getrandbits(8) for _ in range(n))
                    ops.append(m_op(bs))
            yield (f"bin:{t}", ops)
        # every application identifier a decoder might know by name, with data lengths around any record size
        ops = []
        for (dac, fid) in gen.KNOWN_DAC_FID:
            for t in (6, 8):
                for n in (0, 1, 2, 3, 13, 14, 15, 37, 38, 39, 41, 60, 100):
                    f = gen.base_fields(t, rng, ais.LAYOUTS[t])
                    f["dac"], f["fid"] = dac, fid
                    ops.append(m_op(gen.full_payload(t, f) + bytes(rng.getrandbits(8) | 1 for _ in range(n))))
        yield ("bin:known-ids", ops)
        # the per-type public decoders (op P) handed a binary message of ANOTHER type: each decoder reads its own fixed
        # header, whatever the six type bits say; where implementation and model both report a message, identifiers and
        # bytes are the same
        ops = []
        for t in (6, 8, 17, 1, 12):
            for n in (0, 1, 5, 40):
                f = gen.base_fields(t, rng, ais.LAYOUTS[t])
                bs = gen.full_payload(t, f) + bytes(rng.getrandbits(8) for _ in range(n))
                for t2 in (6, 8, 17):
                    if t2 != t:
                        ops.append(f"P {t2} {hexs(bs)}")
        yield ("foreign-decoder", ops)


# ---------------------------------------------------------------- C16

def spec_radio(t, bs):
    """Communication state per ITU-R M.1371-5 (3.3.7.2.2 / 3.3.7.3.2), from the last 19 bits."""
    v = ais.field(bs, 149, 19)
    sel = ais.field(bs, 148, 1)
    itdma = (t == 3) or (t in (9, 18) and sel == 1)
    sync = ["UtcDirect", "UtcIndirect", "BaseStation", "NumberOfReceivedStations"][v >> 17]
    if itdma:
        return {"radio": "Itdma", "sync_state": sync, "slot_increment": str((v >> 4) & 0x1FFF),
                "num_slots": str((v >> 1) & 7), "keep": "true" if v & 1 else "false"}
    to = (v >> 14) & 7
    sub = v & 0x3FFF
    d = {"radio": "Sotdma", "sync_state": sync, "slot_timeout": str(to)}
    if to == 0:
        d.update(sub_message="SlotOffset", sub_a=str(sub))
    elif to == 1:
        d.update(sub_message="UtcHourAndMinute", sub_a=str(sub >> 9), sub_b=str((sub >> 2) & 0x3F))
    elif to in (2, 4, 6):
        d.update(sub_message="SlotNumber", sub_a=str(sub))
    else:
        d.update(sub_message="ReceivedStations", sub_a=str(sub))
    return d


def asis_radio_t9(bs):
    """What the crate computes for type 9 (finding D11): SOTDMA from bits 148..166."""
    shifted = bytearray(bs)
    v = ais.field(bs, 148, 19)
    fake = bytearray(21)
    # place v at 149..167 of a scratch buffer and reuse the SOTDMA branch
    for i in range(19):
        if (v >> (18 - i)) & 1:
            fake[(149 + i) // 8] |= 0x80 >> ((149 + i) % 8)
    return spec_radio(1, bytes(fake))


class C16(MsgProp):
    id = "C16"
    name = "communication state"
    rule = ("M ops: types 1, 2, 3, 4, 9, 11, 18 at 168 bits with every time-out value x sub-message extremes and "
            "random values, every sync state, both selector values, random ITDMA fields, every hour x boundary minute (thorough: every minute) of the UTC sub-message with every sync state "
            "(thorough: all 2^19 states for types 1, 3 and 18 with both selector values); projection = radio.* keys, also compared "
            "with an independent Python reading of ITU-R M.1371 (last 19 bits). non-trivial = distinct payload decoded ok")

    def project(self, op, ans):
        return proj_keys(ans, lambda k, kind, v: base(k) in RADIO)

    def judge(self, rep, cfg, label, ops, impl, model):
        for op, a, m in zip(ops, impl, model):
            rep.evaluations += 1
            rep.count(label)
            if op.startswith("Q "):
                if a.strip() != m.strip():
                    rep.violation(f"C16: a communication-state decoder called directly ({op[:24]} ...) answers {a[:120]!r}, the model {m[:120]!r}",
                                  {"cfg": cfg, "ops": [op], "impl": a, "model": m})
                elif a.startswith("ok"):
                    # ... and that is the specified reading of the 19 bits at that offset
                    _, kind, off, t, hx = op.split(" ")
                    bs = bytes.fromhex(hx)
                    v = ais.field(bs, int(off), 19)
                    itdma = kind == "itdma" or (kind == "radio" and t == "3")
                    fake = bytearray(21)
                    for i in range(19):
                        if (v >> (18 - i)) & 1:
                            fake[(149 + i) // 8] |= 0x80 >> ((149 + i) % 8)
                    want = spec_radio(3 if itdma else 1, bytes(fake))
                    got = {k: v2 for k, v2 in parse_answer(a)["kv"].items() if k in RADIO}
                    if got != want:
                        rep.violation(f"C16: direct decoding at bit offset {off} gives {got}, specified {want}", {"cfg": cfg, "ops": [op], "impl": a})
                    rep.nontrivial.add(op)
                continue
            pa = parse_answer(a)
            if pa["cls"] != "ok":
                if self.project(op, a) != self.project(op, m):
                    rep.violation(f"C16: impl {pa['cls']} where model says {m[:40]}", {"cfg": cfg, "ops": [op], "impl": a, "model": m})
                continue
            rep.nontrivial.add(op)
            bs = bytes.fromhex(op.split(" ")[1])
            t = bs[0] >> 2
            want = spec_radio(t, bs)
            got = {k: v for k, v in pa["kv"].items() if k in RADIO}
            if got != want:
                if t == 9 and got == asis_radio_t9(bs):
                    rep.known.append("site=src/messages/standard_aircraft_position_report.rs:56-60 type 9 reads the "
                                     "communication state one bit early (bits 148-166) and never consults the selector (D11)")
                else:
                    rep.violation(f"C16: type {t} communication state {got} != specified {want}",
                                  {"cfg": cfg, "ops": [op], "impl": a})
            elif self.project(op, a) != self.project(op, m):
                # implementation meets the specification where the as-is model does not (e.g. an upstream repair)
                if t != 9:
                    rep.violation("C16: model and implementation disagree although the implementation matches the "
                                  "specification - correspondence broken", {"cfg": cfg, "ops": [op], "impl": a, "model": m})
            if rep.evaluations % 499 == 0:
                rep.sample({"op": op, "impl_radio": got})

    def cases(self, tier, rng):
        nrand = 200 if tier == "quick" else 6000
        for t in (1, 2, 3, 4, 9, 11, 18):
            layout = ais.LAYOUTS[t]
            ops = []
            states = set()
            for sync in range(4):
                for to in range(8):
                    for sub in (0, 1, 0x3FFF, 0x2000, 0x1FFF, rng.getrandbits(14), (23 << 9) | (59 << 2) | 3,
                                (31 << 9) | (1 << 8) | (63 << 2)):
                        states.add((sync << 17) | (to << 14) | sub)
            for _ in range(nrand):
                states.add(rng.getrandbits(19))
            # constants of the standard: the fixed state of Class B "CS" units (1100000000000000110), its neighbours,
            # the all-zero / all-one states and one-hot states
            states |= {0x60006, 0x60007, 0x60004, 0x20006, 0x40006, 0x60002, 0, (1 << 19) - 1} | {1 << b for b in range(19)}
            # every hour x minute of the UTC sub-message (time-out 1) and every received-station / slot count pattern
            for sync in range(4):
                for hour in range(32):
                    for minute in ((0, 1, 58, 59, 60, 61, 62, 63, 64, 127) if tier == "quick" else range(128)):
                        states.add((sync << 17) | (1 << 14) | (hour << 9) | (minute << 2) | rng.getrandbits(2))
            if tier == "thorough" and t in (1, 3, 18):
                states = set(range(1 << 19))      # the whole 19-bit state space (SOTDMA: 1, ITDMA: 3, both: 18)
            for v in sorted(states):
                for sel in ((0, 1) if t in (9, 18) else (rng.getrandbits(1),)):
                    f = gen.base_fields(t, rng, layout)
                    f["comm_state"] = v
                    if "selector" in f:
                        f["selector"] = sel
                    else:
                        f["raim"] = sel
                    bs = gen.full_payload(t, f)
                    r = rng.random()
                    if r < 0.12:
                        # a payload longer than 168 bits (trailing bytes, a 29th character): the state is still
                        # bits 149-167, not the end of the buffer
                        bs += bytes(rng.getrandbits(8) for _ in range(rng.choice([1, 1, 2, 3, 5])))
                    elif r < 0.16:
                        # cut short: there is no state to report, the message is an error
                        bs = bs[:rng.choice([20, 20, 19, 18, 12])]
                    ops.append(m_op(bs))
            yield (f"radio:{t}", ops)
        # the public decoders of `messages::radio_status` called directly, the 19 bits starting at ANY bit offset of a
        # buffer (inside a message it is 5, or 4 for type 9): the same state, bit for bit
        ops = []
        for off in range(8):
            for kind, types in (("sotdma", (0,)), ("itdma", (0,)), ("radio", (1, 2, 3, 4, 9, 11, 18, 0, 5, 27))):
                for t in types:
                    for v in [0, (1 << 19) - 1, 1, 2, 3, 0x60006, 0x20006] + [rng.getrandbits(19) for _ in range(6)] + \
                             [(to << 14) | rng.getrandbits(14) | 1 for to in range(8)]:
                        for extra in (0, 1, 3):
                            nbits = off + 19
                            bits = [rng.getrandbits(1) for _ in range(off)] + [(v >> (18 - i)) & 1 for i in range(19)]
                            bits += [rng.getrandbits(1) for _ in range((8 - len(bits) % 8) % 8 + 8 * extra)]
                            ops.append(f"Q {kind} {off} {t} {ais.bits_to_bytes(bits).hex()}")
                    ops.append(f"Q {kind} {off} {t} {bytes([rng.getrandbits(8), rng.getrandbits(8)]).hex()}")
        yield ("direct-entry", ops)


# ---------------------------------------------------------------- C03

class C03:
    id = "C03"
    name = "unarmoring"
    rule = ("U ops (messages::unarmor): all byte strings of length <= 1 over all 256 values x fill 0..5, all "
            "alphabet strings of length 2 (quick) / all 65536 two-byte strings (thorough) x fill 0..5, alphabet strings "
            "of every length 0..260 and step-sampled to 1000 with every fill, one out-of-alphabet byte injected at "
            "every position of sample strings; compared with the model and with a Python transcription of the "
            "statement. non-trivial = distinct op with an ok answer")

    def cases(self, tier, rng):
        ops = []
        for fill in range(6):
            ops.append(f"U {fill} -")
            for b in range(256):
                ops.append(f"U {fill} {bytes([b]).hex()}")
        yield ("len<=1", ops)
        ops = []
        if tier == "quick":
            for a in gen.ALPHABET:
                for b in gen.ALPHABET:
                    fill = rng.randrange(6)
                    ops.append(f"U {fill} {bytes([a, b]).hex()}")
            for _ in range(3000):
                ops.append(f"U {rng.randrange(6)} {bytes([rng.getrandbits(8), rng.getrandbits(8)]).hex()}")
        else:
            for a in range(256):
                for b in range(256):
                    ops.append(f"U {(a + b) % 6} {bytes([a, b]).hex()}")
            for a in gen.ALPHABET:
                for b in gen.ALPHABET:
                    for fill in range(6):
                        ops.append(f"U {fill} {bytes([a, b]).hex()}")
        yield ("len2", ops)
        ops = []
        lens = list(range(0, 261)) + list(range(261, 1001, 37 if tier == "quick" else 3)) + [510, 511, 512, 513, 1000]
        for n in lens:
            for fill in range(6):
                ops.append(f"U {fill} {hexs(gen.random_alphabet(rng, n))}")
        yield ("alphabet-lengths", ops)
        ops = []
        for n in (1, 2, 3, 4, 5, 7, 8, 9, 29, 64):
            s = bytearray(gen.random_alphabet(rng, n))
            for pos in range(n):
                for bad in (47, 88, 95, 120, 0, 255, 32, 44):
                    t = bytearray(s)
                    t[pos] = bad
                    ops.append(f"U {rng.randrange(6)} {bytes(t).hex()}")
        # runs of one and the same invalid byte (NUL above all: a table or memo initialised with zeros), at the start,
        # group-aligned and not, and strings shaped like the common fixed-length messages with all-ones last characters
        for bad in (0, 255, 32, 120):
            for run in (1, 2, 3, 4, 5, 8, 12):
                for at in (0, 1, 3, 4, 8):
                    s0 = gen.random_alphabet(rng, at) + bytes([bad]) * run + gen.random_alphabet(rng, rng.choice([0, 1, 4, 24]))
                    ops.append(f"U {rng.randrange(6)} {s0.hex()}")
        # tails that are runs of one character ('0': all zero bits; 'w': all ones) of 1..12 characters, after a body whose
        # last bits are set, with every fill count: the fill bits are the last bits of the WHOLE string
        for run in range(1, 13):
            for tailc in (b"0", b"w", b"@"):
                for fill in range(6):
                    body = gen.random_alphabet(rng, rng.choice([1, 2, 3, 4, 5, 9, 28])) + rng.choice([b"w", b"W", b"9", b"?"])
                    ops.append(f"U {fill} {(body + tailc * run).hex()}")
        for last in gen.ALPHABET:
            for fill in range(6):
                ops.append(f"U {fill} {(gen.random_alphabet(rng, rng.choice([2, 3, 6])) + bytes([last])).hex()}")
        for n in range(1, 61):
            for fill in range(6):
                for first in b"1358;":
                    s0 = bytes([first]) + gen.random_alphabet(rng, max(0, n - 3)) + b"ww"
                    ops.append(f"U {fill} {s0[:n].hex() if n >= 2 else s0[:1].hex()}")
        # long strings (beyond 384 and 512 characters, any tile or block size) with ONE byte outside the alphabet, early,
        # at block boundaries and late: an error wherever it stands
        for n in (385, 400, 511, 512, 513, 700, 769, 1000):
            for pos in (0, 1, 5, 167, 168, 255, 256, 383, 384, n // 2, n - 2, n - 1):
                if pos < n:
                    t = bytearray(gen.random_alphabet(rng, n))
                    t[pos] = rng.choice((47, 88, 95, 120, 0, 255, 32, 44))
                    ops.append(f"U {rng.randrange(6)} {bytes(t).hex()}")
        yield ("invalid-byte", ops)
        # well-formed multi-byte UTF-8 sequences (a payload read as text): every byte of them is outside the
        # alphabet, whatever their code point is modulo 256
        ops = []
        seqs = [bytes([0xC4, 0xB0]), bytes([0xC5, 0xB7]), bytes([0xC3, 0xA9]), bytes([0xC2, 0xB1]), bytes([0xE2, 0x80, 0xB0]),
                bytes([0xE6, 0xB8, 0xAF]), bytes([0xF0, 0x9F, 0x80, 0xB0]), bytes([0xF0, 0x9F, 0x9A, 0xA2]), "\u0131".encode(), "\u0141".encode(),
                "\u2030".encode(), "\u0430".encode(), "\uff11".encode()]
        for cp in list(range(0x130, 0x178, 3)) + list(range(0x2030, 0x2078, 5)) + list(range(0x1F030, 0x1F078, 7)):
            seqs.append(chr(cp).encode())
        for sq in seqs:
            for n in (0, 1, 3, 6):
                s = gen.random_alphabet(rng, n)
                pos = rng.randrange(n + 1)
                ops.append(f"U {rng.randrange(6)} {(s[:pos] + sq + s[pos:]).hex()}")
        yield ("utf8-sequence", ops)
        # what surrounds a payload in a file or on a wire is not part of it: line ends, blanks, quotes, separators, a
        # checksum suffix, a BOM - before or after alphabet strings of every length class, singly and in pairs
        ops = []
        affixes = [b"\r\n", b"\n", b"\r", b"\n\r", b"\r\n\r\n", b" ", b"  ", b"\t", b"\x00", b"\x00\x00", b",", b",0", b"*", b"*00", b",0*5C", b'"', b"'",
                   b"\xef\xbb\xbf", b"\xff", b"!", b"$", b"\\", b"=", b"==", b"\x1a", b"\x7f"]
        for af in affixes:
            for n in (0, 1, 2, 4, 5, 28):
                body = gen.random_alphabet(rng, n)
                ops.append(f"U {rng.randrange(6)} {(body + af).hex()}")
                ops.append(f"U {rng.randrange(6)} {(af + body).hex()}")
            ops.append(f"U 0 {(af + b'9qKr' + af).hex()}")
            ops.append(f"U 0 {(b'9q' + af + b'Kr').hex()}")
        yield ("affixes", ops)

    def extra_run(self, rep, tier, cfgs):
        """Very long strings (around and beyond 2^16 bits / bytes of output: 10 922, 21 845, 43 690, 65 536 ...
        characters): the implementation against the Python transcription of the statement only - the Lean model
        mirrors the code's indexed writes on a list and is quadratic, so it is consulted up to 8 200 characters (std)."""
        import random
        from . import core
        rng = random.Random(77)
        lens = [8191, 8192, 8193, 10921, 10922, 10923, 10924, 10925, 10930, 16383, 16384, 16385, 21845, 21846, 32767, 32768, 43690, 43691,
                65535, 65536, 65537, 87381, 87382]
        if tier != "quick":
            lens += [131072, 174763, 262144]
        ops = []
        for n in lens:
            body = gen.random_alphabet(rng, n)
            # the last characters all-ones: a wrapped index ORs them onto the start of the output
            body = body[:-8] + b"w" * 8
            ops.append(f"U {rng.randrange(6)} {body.hex()}")
            ops.append(f"U 0 {(b'0' * (n - 4) + b'wwww').hex()}")
        for cfg in cfgs:
            impl = core.run_impl(cfg, ops)
            short = [o for o in ops if len(o.split(' ')[2]) // 2 <= 8200] if cfg == "std" else []
            model = dict(zip(short, core.run_model(cfg, short))) if short else {}
            for op, a in zip(ops, impl):
                rep.evaluations += 1
                rep.count("very-long")
                _, fill, hx = op.split(" ")
                data = bytes.fromhex(hx)
                spec = ais.spec_unarmor(data, int(fill))
                want = "ok " + spec.hex()
                if cfg == "noalloc" and len(spec) > 384:
                    want = "err"
                if a.strip() != want:
                    k = next((i for i, (x, y) in enumerate(zip(a, want)) if x != y), min(len(a), len(want)))
                    rep.violation(f"C03: unarmor of {len(data)} characters (fill {fill}) differs from the specified bytes from output "
                                  f"position {max(0, (k - 3) // 2)} on (or is {a[:10]!r} instead of {want[:10]!r})",
                                  {"cfg": cfg, "ops": [op], "impl": a[:200], "spec": want[:200]})
                    break
                if op in model and model[op].strip() != a.strip():
                    rep.violation("C03: model disagrees with implementation (and specification) on a long string",
                                  {"cfg": cfg, "ops": [op], "impl": a[:200], "model": model[op][:200]})
                    break

    def line_stage(self, rep, cfg, rng, u_ops, model_u):
        """The parser's own use of unarmor: a sample of the armored strings (and payloads of real messages, cut and
        padded to every length class and fill count) sent as sentences and as groups through ONE parser with
        decoding on, each after lines whose unarmoring or decoding fails; the decoded message (or error) must be
        what the model gives for the same history - a parser that keeps unarmored bits between lines shows here."""
        from . import core
        from .props_sent import L
        cand = [o for o in u_ops if o.startswith("U ") and o.split(" ")[2] != "-" and len(o.split(" ")[2]) <= 700]
        cand = rng.sample(cand, min(150, len(cand)))
        ops = []
        for k, o in enumerate(cand):
            if k % 10 == 0:
                ops.append("N 0")
            _, fill, hx = o.split(" ")
            data = bytes.fromhex(hx)
            if b"," in data or b"*" in data:
                continue
            r = rng.random()
            if r < 0.4:
                # a real message whose armored text gets the sample's length class and fill
                p, f = gen.valid_message_payload(rng)
                data, fill = (p + gen.random_alphabet(rng, len(data) % 4)), rng.choice([f, int(fill)])
            # a line that fails in unarmor (bad character), in the decoder (unsupported type, too short) or not at all
            pre = rng.choice([None, b"1~~~", b"F0000000", b"1", b"0", b"55" + b"x", b"15M:Ih0P00G?Uf6E`FepT@3n00Sa"])
            if pre is not None:
                ops.append(L(ais.sentence(pre, fill=0), 0, 1))
            if len(data) >= 4 and rng.random() < 0.3:
                cut = rng.randrange(1, len(data))
                ops.append(L(ais.sentence(data[:cut], nf=2, fn=1, mid=2, fill=0), 0, 1))
                ops.append(L(ais.sentence(data[cut:], nf=2, fn=2, mid=2, fill=int(fill)), 0, 1))
            else:
                ops.append(L(ais.sentence(data, fill=int(fill)), 0, 1))
        impl = core.run_impl(cfg, ops)
        model = core.run_model(cfg, ops)
        start = 0
        for i, (op, a, m) in enumerate(zip(ops, impl, model)):
            if op.startswith("N "):
                start = i
                continue
            rep.evaluations += 1
            rep.count("lines:" + a.split(" ")[0])
            if a != m:
                rep.violation("C03: through AisParser::parse (decode on) the outcome differs from the model's for the same "
                              f"history of {i - start} lines (the unarmored bits handed to the decoder are not the line's own): "
                              f"impl={a[:160]!r} model={m[:160]!r}", {"cfg": cfg, "ops": ops[start:i + 1], "impl": a, "model": m})
                return
            if a.startswith("C "):
                rep.nontrivial.add(op)

    def judge(self, rep, cfg, label, ops, impl, model):
        for op, a, m in zip(ops, impl, model):
            rep.evaluations += 1
            rep.count(label)
            rep.count("impl:" + a.split(" ")[0])
            _, fill, hx = op.split(" ")
            data = b"" if hx == "-" else bytes.fromhex(hx)
            spec = ais.spec_unarmor(data, int(fill))
            want = "err" if spec is None else ("ok " + spec.hex()).strip()
            if cfg == "noalloc" and spec is not None and len(spec) > 384:
                want = "err"
            if a.strip() != want:
                rep.violation(f"C03: unarmor({data!r}, {fill}) = {a!r}, specified {want!r}",
                              {"cfg": cfg, "ops": [op], "impl": a, "spec": want})
            elif a.strip() != m.strip():
                rep.violation(f"C03: model disagrees with implementation (and specification): model={m!r}",
                              {"cfg": cfg, "ops": [op], "impl": a, "model": m})
            if a.startswith("ok"):
                rep.nontrivial.add(op)
            if rep.evaluations % 2003 == 0:
                rep.sample({"op": op, "impl": a})

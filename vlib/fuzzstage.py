"""Coverage-guided exploration of the crate AS IT IS NOW (fuzz/: libFuzzer targets built against /repo's working tree
with compare tracing).  It has no oracle of its own: it produces inputs - unarmored payloads (`msg`: a structure-aware
target that assigns values to the fields of the ITU layouts, so that a constant the code compares a field with can be
substituted by the fuzzer) and short histories of lines through one parser (`lines`) - which reach the branches and
comparisons of the current source, including ones a change has just introduced.  The correspondence (implementation
vs model, on the property's projection) judges them like any other generated input.

Auxiliary by construction: when the nightly toolchain or the build is unavailable the stage is skipped and the evidence
says so; it never decides anything by itself."""
import hashlib
import os
import shutil
import subprocess

from . import core

FUZZ = os.environ.get("VERIF_FUZZ_DIR", os.path.join(core.VERIF, "fuzz"))
SANCOV = ("-Cpasses=sancov-module -Cllvm-args=-sanitizer-coverage-level=4 -Cllvm-args=-sanitizer-coverage-trace-compares "
          "-Cllvm-args=-sanitizer-coverage-inline-8bit-counters -Cllvm-args=-sanitizer-coverage-pc-table "
          "-Cllvm-args=-sanitizer-coverage-trace-divs -Cllvm-args=-sanitizer-coverage-trace-geps --cfg fuzzing -Ccodegen-units=1")
BIN = {"msg": "fz_msg", "lines": "fz_lines"}
MAXLEN = {"msg": 500, "lines": 700}
STATUS = {}


def tree_key():
    h = hashlib.sha1()
    src = os.path.join(core.REPO, "src")
    for root, dirs, files in sorted(os.walk(src)):
        dirs.sort()
        for f in sorted(files):
            p = os.path.join(root, f)
            h.update(os.path.relpath(p, src).encode())
            h.update(open(p, "rb").read())
    for root, dirs, files in sorted(os.walk(os.path.join(FUZZ, "src"))):
        for f in sorted(files):
            h.update(open(os.path.join(root, f), "rb").read())
    return h.hexdigest()[:16]


def binary(kind):
    return os.path.join(FUZZ, "target", "fz", "x86_64-unknown-linux-gnu", "release", BIN[kind])


def build():
    lock = os.path.join(FUZZ, "Cargo.lock")
    if not os.path.exists(lock):
        return False, "fuzz/Cargo.lock missing"
    env = dict(core.ENV, RUSTFLAGS=SANCOV)
    try:
        p = subprocess.run(["cargo", "+nightly", "build", "--offline", "--release", "--quiet", "--target", "x86_64-unknown-linux-gnu",
                            "--target-dir", os.path.join("target", "fz")], cwd=FUZZ, env=env, stdout=subprocess.PIPE,
                           stderr=subprocess.STDOUT, timeout=900)
    except Exception as e:      # no nightly toolchain, time-out ...
        return False, repr(e)
    return p.returncode == 0, p.stdout.decode("utf-8", "replace")[-600:]


def explore(kind, secs):
    """Returns the explored inputs as operation lists (`msg`: [["M hex"], ...]; `lines`: [["N 0", "L 0 d o hex", ...], ...])
    or None when the stage is unavailable.  Cached per state of /repo/src."""
    with core.Lock("fuzz"):
        wdir = os.path.join(core.WORK, "fuzz")
        os.makedirs(wdir, exist_ok=True)
        cache = os.path.join(wdir, f"{kind}-{tree_key()}-{secs}.txt")
        if not os.path.exists(cache):
            ok, log = build()
            if not ok:
                STATUS[kind] = "unavailable: " + log[-300:]
                return None
            corpus = os.path.join(wdir, "corpus_" + kind)
            if not os.path.isdir(corpus):
                seeds = os.path.join(FUZZ, "seeds_" + kind)
                if os.path.isdir(seeds):
                    shutil.copytree(seeds, corpus)
                else:
                    os.makedirs(corpus)
            workers = max(2, min(14, (os.cpu_count() or 4) - 2))
            cmd = [binary(kind), corpus, f"-max_total_time={secs}", f"-max_len={MAXLEN[kind]}", f"-fork={workers}",
                   "-use_value_profile=1", "-seed=1"]
            try:
                subprocess.run(cmd, cwd=wdir, stdout=subprocess.DEVNULL, stderr=subprocess.DEVNULL, timeout=secs + 120)
            except subprocess.TimeoutExpired:
                pass
            dump = cache + ".dump"
            if os.path.exists(dump):
                os.remove(dump)
            try:
                subprocess.run([binary(kind), corpus, "-runs=0"], cwd=wdir, env=dict(core.ENV, AISFUZZ_DUMP=dump),
                               stdout=subprocess.DEVNULL, stderr=subprocess.DEVNULL, timeout=300)
            except subprocess.TimeoutExpired:
                pass
            lines = sorted(set(open(dump).read().split("\n"))) if os.path.exists(dump) else []
            with open(cache, "w") as f:
                f.write("\n".join(l for l in lines if l))
            if os.path.exists(dump):
                os.remove(dump)
            # the corpus directory only ever grows; keep it bounded
            names = os.listdir(corpus)
            if len(names) > 6000:
                for n in sorted(names)[6000:]:
                    os.remove(os.path.join(corpus, n))
        items = []
        for l in open(cache).read().split("\n"):
            if not l:
                continue
            if kind == "msg":
                items.append(["M " + l])
            elif l.startswith("H"):
                ops = ["N 0"]
                for tok in l.split(" ")[1:]:
                    ops.append(f"L 0 {tok[0]} o {tok[1:]}")
                if len(ops) > 1:
                    items.append(ops)
        STATUS[kind] = f"{len(items)} explored inputs ({secs} s campaign, cache {os.path.basename(cache)})"
        return items


def line_projection(pid, ans):
    """What a history property says about one answered line (so that an exploration input that breaks one property is
    reported by that property's check)."""
    pa = core.parse_answer(ans)
    cls = pa["cls"]
    acc = cls in ("C", "I")
    if pid == "C01":
        return "dies" if cls in ("panic", "abort") else "returns"
    if pid == "C02":
        if cls == "E" and pa.get("err") == "cks":
            return f"E cks {pa['expected']} {pa['found']}"
        return cls if acc else "E"
    if pid == "C08":
        return "accepted" if acc else "rejected"
    if pid == "C07":
        if not acc:
            return cls
        s = pa["sent"]
        return cls + " " + " ".join(f"{k}={s.get(k)}" for k in ("talker", "report", "nf", "fn", "id", "ch", "data", "fill", "hm", "fr")) + \
            " msg=" + ("none" if pa["msg_kind"] == "none" else "some")
    if pid in ("C05", "C06", "C17"):
        return cls + (" data=" + pa["sent"].get("data", "") if acc else "") + " st=" + str(pa.get("st"))
    if pid == "C19":
        return ("mt=" + str(pa["sent"].get("mt"))) if acc else "-"
    return ans

"""History properties: C05, C06, C17 (reassembly state machine), C18 (build equivalence),
C01 (totality), C20 (command-line tool)."""
import itertools
import os
import subprocess
from . import ais, gen, core
from .core import hexs, parse_answer
from .refsent import ref_sentence
from .props_sent import L, rand_valid_sentence, rand_bytes, op_line, near_misses, numeric_extremes, utf8_lines


def split_payload(rng, payload, n):
    if rng.random() < 0.2 and len(payload) > n + 2:
        # one long piece and single characters (first, last or middle piece long): estimates such as
        # "first length x count" are far off while the total is small
        rest = list(range(1, n))
        where = rng.choice(["first", "last", "mid"])
        L0 = len(payload)
        if where == "first":
            cuts = [L0 - (n - 1) + i for i in range(n - 1)]
        elif where == "last":
            cuts = list(range(1, n))
        else:
            k = rng.randrange(1, n)
            cuts = list(range(1, k)) + [L0 - (n - k) + i for i in range(n - k)]
        cuts = sorted(set(c for c in cuts if 0 < c < L0))
        if len(cuts) == n - 1:
            pieces, prev = [], 0
            for c in cuts + [L0]:
                pieces.append(payload[prev:c])
                prev = c
            return pieces
    cuts = sorted(rng.sample(range(1, len(payload)), n - 1))
    pieces, prev = [], 0
    for c in cuts + [len(payload)]:
        pieces.append(payload[prev:c])
        prev = c
    return pieces


def frag_lines(rng, payload, fill, n, mid, wild=False):
    pieces = split_payload(rng, payload, n)
    ch = rng.choice([b"A", b"B", b""])
    lines = []
    # some transmitters put a fill count on every fragment: it is legal and only the last one's matters
    odd_fill = rng.random() < 0.25
    # a group is identified by its count, numbering and sequence id alone: channel, talker, sentence formatter,
    # start delimiter and tag block may differ from one fragment to the next (one group in three)
    vary = rng.random() < 0.33
    for i, p in enumerate(pieces):
        fl = fill if i == n - 1 else (rng.randrange(6) if odd_fill else 0)
        kw = {}
        if vary:
            kw = dict(channel=rng.choice([b"A", b"B", b"", b"1", b"2", ch]),
                      talker=rng.choice([b"AI", b"AI", b"AB", b"BS", b"SA", b"XX"]),
                      report=rng.choice([b"VDM", b"VDM", b"VDO", b"VDX"]),
                      delim=rng.choice([b"!", b"!", b"$"]),
                      tagblock=rng.choice([None, None, b"s:r%d,c:%d*00" % (i, 1700000000 + i),
                                           # NMEA 4.10 grouping that need not coincide with the VDM group (a TAG group may
                                           # span more lines, start earlier, or be numbered differently), with a right or
                                           # a wrong checksum of its own: the block is skipped unread
                                           b"g:%d-%d-%d" % (i + 1, n + 1, 40 + i), b"g:%d-%d-77*00" % (i + 2, n),
                                           b"s:a%d,g:%d-%d-5" % (i % 2, n - i, n), b"g:1-1-9,s:b*7F",
                                           # (blocks with two, three and four commas of their own)
                                           b"s:rx1,c:1696241890,n:%d*74" % (40 + i), b"s:rx1,c:1696241890,n:41,d:x", b"a,b,c,d,e"]))
        else:
            kw = dict(channel=ch)
        lines.append(ais.sentence(p, fill=fl, nf=n, fn=i + 1, mid=mid, **kw))
    return pieces, lines


_NEAR = {}


def _near_pool(rng):
    """near_misses() is a few hundred lines; one pool per generator stream, refreshed now and then."""
    k = id(rng)
    if k not in _NEAR or rng.random() < 0.02:
        _NEAR[k] = near_misses(rng)
    return _NEAR[k]


def alias_strays(rng, mid, f):
    """Foreign fragments that a PACKED sequencing key would take for the expected one: the group expects (id `mid`,
    number `f`); for another id b the number f + s * (code(mid) - code(b)), s a plausible packing stride (a nibble, a
    decimal digit, five bits ...), with code(absent) = 0 and code(x) = x + 1 or x.  All of them are foreign
    (another id) and must be refused."""
    out = []
    for codes in (lambda x: 0 if x is None else x + 1, lambda x: 0 if x is None else x):
        for b in (None, 0, 1, 2, 3, 9):
            if b == mid:
                continue
            for stride in (8, 10, 16, 32, 64, 100, 128):
                g = f + stride * (codes(mid) - codes(b))
                if 1 <= g <= 255 and g != f:
                    out.append(ais.sentence(gen.random_alphabet(rng, 4), nf=max(g, 2), fn=g, mid=b, fill=0))
    return out


def noise_line(rng):
    """A line that must leave no trace: rejected by form / checksum, or an unfragmented sentence."""
    r = rng.random()
    if r < 0.2:
        return rand_valid_sentence(rng, wild=False)                       # unfragmented
    if r < 0.35:
        # unfragmented, but carrying a sequence id (some transmitters send one)
        p_, f_ = gen.valid_message_payload(rng)
        return ais.sentence(p_, fill=f_, nf=1, fn=rng.choice([1, 1, 1, 2]), mid=rng.choice([0, 1, 2, 3, 5, 7, 9]))
    if r < 0.38:
        # fragment number 0 (with any count and id): rejected by the sequencing, whatever is open; count 0 with number
        # 1: rejected while a group is open, a one-line message of its own when none is - never a new group
        # (count 0 with a number >= 2 is NOT noise: it is 'fragment k' of C06 and continues an open group that expects k)
        if rng.random() < 0.4:
            return ais.sentence(gen.random_alphabet(rng, 5), nf=0, fn=rng.choice([1, 1, 0]), mid=rng.choice([None, 0, 1, 2, 3, 5]), fill=0)
        return ais.sentence(gen.random_alphabet(rng, 5), nf=rng.choice([1, 2, 3, 9]), fn=0, mid=rng.choice([None, 0, 1, 2, 3, 5]), fill=0)
    if r < 0.40:
        # a fragment with a number far beyond anything open (16, 17, 18, 32+k, 255 ...), any id: rejected by the
        # sequencing (a key that packs id and number into one word must keep them apart)
        g = rng.choice([16, 17, 18, 19, 32, 33, 34, 48, 64, 128, 129, 254, 255])
        return ais.sentence(gen.random_alphabet(rng, 5), nf=rng.choice([g, g, 255, g + 1 if g < 255 else 255]), fn=g,
                            mid=rng.choice([None, None, 0, 1, 2, 3]), fill=0, channel=rng.choice([b"A", b"B"]))
    if r < 0.42:
        # a fragment of any position, well formed, with a wrong checksum
        n = rng.choice([2, 3, 4, 9])
        good = ais.sentence(gen.random_alphabet(rng, 5), nf=n, fn=rng.randrange(1, n + 1), mid=rng.choice([None, 0, 1, 2, 3]), fill=0)
        c = int(good[-2:], 16)
        return good[:-2] + b"%02X" % (c ^ rng.choice([1, 2, 0x10, 0x80, 0xFF]))
    if r < 0.5:
        return ais.sentence(gen.random_alphabet(rng, 5), cks=rng.getrandbits(8) | 0x100 & 0xFF)  # (mostly) bad checksum
    if r < 0.65:
        return rand_bytes(rng, rng.choice([0, 3, 20]))
    if r < 0.8:
        l = rng.choice(_near_pool(rng))
        ref = ref_sentence(l)
        if ref[0] == "ok" and ref[1]["nf"] != 1:
            return l.replace(b"!", b"#", 1)     # would be a fragment of some group: not noise
        return l
    # unfragmented sentence whose payload does not decode
    return ais.sentence(rng.choice([b"0", b"F0000", b"Z", b"1", b"5"]), fill=0)


def prior_history(rng, kind):
    if kind == "fresh":
        return []
    p, f = gen.valid_message_payload(rng, 5)
    if kind == "abandoned":
        n = rng.choice([2, 3, 4])
        _, ls = frag_lines(rng, p, f, n, rng.choice([None, 1, 2, 3]))
        return ls[:rng.randrange(1, n)]
    if kind == "completed":
        n = rng.choice([2, 3])
        _, ls = frag_lines(rng, p, f, n, rng.choice([None, 1, 2, 3]))
        return ls
    if kind == "completed-undecodable":
        # a group that is delivered but whose payload does not decode (unsupported type / bad armoring)
        bad = rng.choice([b"F", b"I", b"0", b"5"]) + gen.random_alphabet(rng, rng.choice([3, 9, 30])) + rng.choice([b"", b"x", b"~"])
        n = rng.choice([2, 3])
        _, ls = frag_lines(rng, bad + gen.random_alphabet(rng, 4), 0, n, rng.choice([None, 1, 2, 3]))
        return ls
    return []


class C05:
    id = "C05"
    name = "in-order reassembly"
    rule = ("L histories: payloads of valid messages of every type (and random alphabet strings) split at random "
            "character boundaries into 2-9 fragments, sequence id absent / 0-9 / 10-255, prefixes {fresh parser, "
            "abandoned group, just-delivered group}, with 0-3 no-trace lines (unfragmented sentences, rejected lines) "
            "between fragments, decode on and off; a second parser receives the same payload unfragmented. Predicate "
            "on the implementation's answers: fragments 1..n-1 Incomplete with their own fields, fragment n Complete "
            "with the exact concatenation, the same decoded message (or the same decode error) as the unfragmented "
            "send, Option/Result conversions Some/Ok exactly for Complete. non-trivial = distinct (pieces, id, prefix) group delivered")

    def cases(self, tier, rng):
        n = 250 if tier == "quick" else 3000
        for gi in range(n):
            r = rng.random()
            if r < 0.7:
                payload, fill = gen.valid_message_payload(rng)
            else:
                payload, fill = gen.random_alphabet(rng, rng.randrange(9, 80)), rng.randrange(6)
            if len(payload) < 9:
                payload = payload + gen.random_alphabet(rng, 9)
            if rng.random() < 0.08:
                # a group larger than the no-alloc build's 384-byte buffer
                payload, fill = payload + gen.random_alphabet(rng, rng.choice([300, 380, 500])), 0
            nfrag = rng.randrange(2, 10)
            mid = rng.choice([None, rng.randrange(10), rng.randrange(10, 256)])
            dec = rng.randrange(2)
            kind = rng.choice(["fresh", "abandoned", "completed", "completed-undecodable"])
            if kind == "completed-undecodable":
                dec = 1
            if rng.random() < 0.1:
                # bytes outside the armoring alphabet in the payload: reassembly is about raw bytes; whether they
                # decode is a matter for the line that completes the group, and only if decoding is asked for there
                pb = bytearray(payload)
                for _ in range(rng.choice([1, 2])):
                    pb[rng.randrange(len(pb))] = rng.choice([0x5A, 0x5E, 0x7E, 0x20, 0x80, 0x78])
                payload = bytes(pb)
            pieces, lines = frag_lines(rng, payload, fill, nfrag, mid)
            ops = ["N 0", "N 1"]
            for l in prior_history(rng, kind):
                ops.append(L(l, 0, dec))
            # the decode flag is an argument of each call: one group in four gets it on for the fragments and off for
            # the last line (or mixed) - only the flag of the completing call matters
            mixed = rng.random() < 0.25 and kind != "completed-undecodable"
            last_dec = dec
            for i, l in enumerate(lines):
                for _ in range(rng.choice([0, 0, 1, 3])):
                    ops.append("#noise " + L(noise_line(rng), 0, dec))
                d_i = dec if not mixed else (rng.randrange(2) if i < len(lines) - 1 else 0)
                last_dec = d_i
                ops.append(f"#frag{i} " + L(l, 0, d_i, "o" if (gi + i) % 2 == 0 else "r"))
            dec = last_dec
            ops.append("#whole " + L(ais.sentence(payload, fill=fill), 1, dec))
            yield (f"{kind}", ops)
        # conversions of results: Some/Ok exactly for Complete - also for the odd shapes the grammar lets through
        # (number above the count, count 0), for both conversions
        ops = ["N 0"]
        for (nf_, fn_) in ((1, 1), (1, 2), (1, 5), (1, 255), (0, 1), (2, 1), (2, 2), (3, 2), (0, 0), (1, 0)):
            for conv in "or":
                p_, f_ = gen.valid_message_payload(rng, rng.choice([1, 5, 18]))
                ops += ["N 0", L(ais.sentence(p_, fill=f_, nf=nf_, fn=fn_, mid=rng.choice([None, 3])), 0, rng.randrange(2), conv)]
        yield ("conversions", ops)

    def judge(self, rep, cfg, label, ops, impl, model):
        rep.count(label)
        if label == "conversions":
            for op, a, m in zip(ops, impl, model):
                if not op.startswith("L "):
                    continue
                rep.evaluations += 1
                pa = parse_answer(a)
                want = {"C": ("some:same", "ok:same"), "I": ("none", "err")}.get(pa["cls"])
                if want and pa.get("conv") not in want:
                    rep.violation(f"C05: converting a {'Complete' if pa['cls'] == 'C' else 'Incomplete'} result gave {pa.get('conv')!r}",
                                  {"cfg": cfg, "ops": ["N 0", op], "impl": a, "model": m})
                    return
                if a.rsplit(" st=", 1)[0] != m.rsplit(" st=", 1)[0]:
                    rep.violation("C05: model and implementation disagree on an oddly numbered sentence", {"cfg": cfg, "ops": ["N 0", op], "impl": a, "model": m})
                    return
            return
        frags = [(op, a) for op, a in zip(ops, impl) if op.startswith("L ") is False and op.startswith("#frag")]
        whole = [a for op, a in zip(ops, impl) if op.startswith("#whole")][0]
        n = len(frags)
        pieces = []
        bad = None
        total = 0
        for i, (op, a) in enumerate(frags):
            rep.evaluations += 1
            line = bytes.fromhex(op.split(" ")[5])
            ref = ref_sentence(line)
            pieces.append(ref[1]["data"])
            total += len(ref[1]["data"])
            pa = parse_answer(a)
            conv = op.split(" ")[4]
            if cfg == "noalloc" and total > 384:
                # over the no-alloc capacity (C18's permitted difference): some line of the group is refused, and what
                # happens afterwards follows from the state the refusal left (a refused line leaves no trace, so a later
                # fragment may legitimately continue an older open group).  The statement makes no promise about such a
                # group; the lines must be answered as the no-alloc model answers them (proved: C18.step_noalloc), and
                # the group itself, which does not fit, is never delivered whole.
                mfr = [m2 for o2, m2 in zip(ops, model) if o2.startswith("#frag")]
                for (o2, a2), m2 in zip(frags, mfr):
                    if a2.rsplit(" st=", 1)[0] != m2.rsplit(" st=", 1)[0]:
                        rep.violation("C05: a group exceeding the no-alloc buffer is answered differently from the no-alloc model",
                                      {"cfg": cfg, "ops": [strip(o) for o in ops], "impl": a2, "model": m2})
                        return
                    p2 = parse_answer(a2)
                    if p2["cls"] == "C" and p2["sent"]["data"] == b"".join(
                            ref_sentence(bytes.fromhex(o3.split(" ")[5]))[1]["data"] for o3, _ in frags).hex():
                        rep.violation("C05: the no-alloc build delivered a group that exceeds its buffer",
                                      {"cfg": cfg, "ops": [strip(o) for o in ops], "impl": a2})
                        return
                rep.count("noalloc-over-capacity")
                return
            if i < n - 1:
                if pa["cls"] != "I":
                    bad = f"fragment {i+1}/{n} answered {a[:60]!r}, expected Incomplete"
                elif pa["sent"]["data"] != ref[1]["data"].hex() or pa["sent"]["fn"] != str(i + 1) or pa["sent"]["nf"] != str(n):
                    bad = f"fragment {i+1}/{n} does not carry its own fields"
                elif pa["conv"] != ("none" if conv == "o" else "err"):
                    bad = f"conversion of an Incomplete result gave {pa['conv']}"
            else:
                pw = parse_answer(whole)
                if pa["cls"] == "C":
                    if pa["sent"]["data"] != b"".join(pieces).hex():
                        bad = "completed payload is not the concatenation of the fragment payloads"
                    elif pw["cls"] != "C" or pw["msg_raw"] != pa["msg_raw"]:
                        bad = "decoded message differs from the unfragmented send"
                    elif pa["conv"] != ("some:same" if conv == "o" else "ok:same"):
                        bad = f"conversion of a Complete result gave {pa['conv']}"
                elif pa["cls"] == "E" and pa["err"] == "nmea" and pw["cls"] == "E" and pw["err"] == "nmea":
                    pass  # the payload does not decode, fragmented or not
                else:
                    bad = f"last fragment answered {a[:60]!r} (unfragmented send: {whole[:40]!r})"
            if bad:
                break
        if bad:
            rep.violation("C05: " + bad, {"cfg": cfg, "ops": [strip(o) for o in ops], "impl": [a for a in impl]})
            return
        rep.nontrivial.add(tuple(pieces))
        # tie to the model: same classes, same delivered data
        for op, a, m in zip(ops, impl, model):
            if op.startswith("#frag"):
                pa, pm = parse_answer(a), parse_answer(m)
                if pa["cls"] != pm["cls"] or pa.get("sent", {}).get("data") != pm.get("sent", {}).get("data"):
                    rep.violation("C05: model and implementation disagree on a fragment outcome",
                                  {"cfg": cfg, "ops": [strip(o) for o in ops], "impl": a, "model": m})
                    return
        if len(rep.samples) < 6:
            rep.sample({"pieces": [p.decode("latin1") for p in pieces], "last": frags[-1][1][:100]})


def strip(op):
    return op.split(" ", 1)[1] if op.startswith("#") else op


class SpecGroup:
    """The abstract group automaton of C06 (an Option of an open group)."""

    def __init__(self, cap=None):
        self.g = None
        self.cap = cap          # no-alloc build: 384 bytes of reassembled payload

    def fits(self, n):
        return self.cap is None or n <= self.cap

    def feed(self, f):
        """f: reference fields of a well-formed, checksum-valid sentence.
        returns ('I', own) | ('C', data) | ('R',)"""
        nf, fn, mid, data = f["nf"], f["fn"], f["id"], f["data"]
        if fn < nf:
            if fn == 1:
                self.g = (mid, 1, [data])
                return ("I",)
            if self.g and self.g[0] == mid and self.g[1] == fn - 1 and self.fits(sum(map(len, self.g[2])) + len(data)):
                self.g = (mid, fn, self.g[2] + [data])
                return ("I",)
            return ("R",)
        if nf == 1:
            return ("C", data)
        if self.g and self.g[0] == mid and self.g[1] == fn - 1 and self.fits(sum(map(len, self.g[2])) + len(data)):
            d = b"".join(self.g[2] + [data])
            self.g = None
            return ("C", d)
        return ("R",)


class C06:
    id = "C06"
    name = "only complete in-order groups"
    rule = ("L histories of validly numbered sentences (1 <= k <= n <= 4, ids {none,1,2}) - exhaustive over all "
            "sequences of length <= 3 (quick) / <= 4 (thorough) over a 27-sentence alphabet plus one rejected and one "
            "unfragmented line, and random histories up to length 60 with loss, duplication, reordering, interleaved "
            "groups and id reuse after delivery; every answer is compared with the abstract group automaton of the "
            "statement (accept fragment k>=2 iff an open, undelivered group with that id has k-1 as its last accepted "
            "fragment; delivered payload = concatenation) and the parser state with the model. "
            "non-trivial = distinct history containing at least one accepted fragment k>=2")

    def alphabet(self):
        out = []
        for n in (2, 3, 4):
            for k in range(1, n + 1):
                for mid in (None, 1, 2):
                    out.append((n, k, mid))
        return out

    def alphabet_random(self):
        # ids 0 and "absent" are different ids; 255 is the largest
        return self.alphabet() + [(n, k, mid) for n in (2, 3) for k in range(1, n + 1) for mid in (0, 255)]

    def mk(self, rng, n, k, mid, tag, big=0, alias=False):
        payload = bytes([48 + n % 40, 48 + k % 40, 48 + (mid or 0) % 40]) + tag + (gen.random_alphabet(rng, big) if big else b"")
        kw = {}
        if alias:
            # the same numbering spelled in a way only a lenient number parser would take for it (value + 256,
            # a sign, a blank): such a line is rejected and must not continue, open or close anything; leading
            # zeros are the one legal respelling
            def sp(v):
                d = str(v).encode()
                return rng.choice([str(v + 256).encode(), str(v + 512).encode(), b"+" + d, b" " + d, d + b" ", b"-" + d,
                                   b"00" + d, b"0" + d, b"0" + str(v + 256).encode()])
            which = rng.choice(["nf", "fn", "mid", "nf+fn"])
            if "nf" in which:
                kw["nf_txt"] = sp(n)
            if "fn" in which:
                kw["fn_txt"] = sp(k)
            if which == "mid" and mid is not None:
                kw["mid_txt"] = sp(mid)
        if rng.random() < 0.25:
            # the group is defined by count, number and id: talker and formatter (known or not) play no part
            kw.update(talker=rng.choice([b"AI", b"AB", b"BS", b"XX", b"ai"]), report=rng.choice([b"VDM", b"VDO", b"VDX", b"ABK", b"XYZ"]),
                      delim=rng.choice([b"!", b"$"]))
        if rng.random() < 0.35:
            # ... nor does the channel field, present, empty or long
            kw.update(channel=rng.choice([b"", b"", b"B", b"1", b"AB"]))
        return ais.sentence(payload, nf=n, fn=k, mid=mid, fill=0, **kw)

    def cases(self, tier, rng):
        alpha = self.alphabet()
        alpha_r = self.alphabet_random()
        depth = 3 if tier == "quick" else 4
        extra = [b"garbage", ais.sentence(b"15M", fill=0)]
        letters = [self.mk(rng, n, k, mid, b"x") for (n, k, mid) in alpha] + extra
        if depth == 4:
            letters = [self.mk(rng, n, k, mid, b"x") for (n, k, mid) in alpha if n <= 3] + extra
        for seq in itertools.product(range(len(letters)), repeat=depth):
            # decode off and decode on (the test payloads do not decode: a delivered group then answers
            # with a decode error, and must still be closed)
            for dec in (0, 1):
                ops = ["N 0"] + [L(letters[i], 0, dec) for i in seq]
                yield ("exhaustive", ops)
        # groups that declare 10, 12, 40 or 255 fragments, in order, with an interloper now and then: the group is
        # delivered by its last fragment and by no earlier one
        for n in (10, 12, 40, 255):
            for dec in (0, 1):
                ops = ["N 0"]
                upto = n if n <= 40 else 14
                for k in range(1, upto + 1):
                    ops.append(L(self.mk(rng, n, k, 3, b"g"), 0, dec))
                    if k in (9, 10) and rng.random() < 0.5:
                        ops.append(L(self.mk(rng, n, k, 3, b"dup"), 0, dec))
                yield ("long-group", ops)
        # NMEA 4.10 grouping parameters in tag blocks say nothing about the sequence id of the sentence itself
        for _ in range(20 if tier == "quick" else 200):
            ops = ["N 0"]
            gid = rng.randrange(1, 200)
            ida, idb = rng.sample([None, 0, 1, 2, 7], 2)
            tb = lambda k, n: b"g:%d-%d-%d" % (k, n, gid) + rng.choice([b"", b"*00", b",s:x"])
            ops.append(L(ais.sentence(b"21a" + gen.random_alphabet(rng, 3), nf=2, fn=1, mid=ida, fill=0, tagblock=tb(1, 2)), 0, 0))
            ops.append(L(ais.sentence(b"22b" + gen.random_alphabet(rng, 3), nf=2, fn=2, mid=idb, fill=0, tagblock=tb(2, 2)), 0, 0))
            ops.append(L(ais.sentence(b"22c" + gen.random_alphabet(rng, 3), nf=2, fn=2, mid=ida, fill=0, tagblock=b"g:2-2-%d" % (gid + 1)), 0, 0))
            yield ("tag-groups", ops)
        for _ in range(300 if tier == "quick" else 5000):
            ops = ["N 0"]
            ln = rng.randrange(5, 60)
            cur = None
            dmode = rng.randrange(3)     # 0: decode off, 1: on, 2: mixed
            bigmode = rng.random() < 0.3  # payloads of 80-200 bytes: groups that overflow the 384-byte buffer
            for j in range(ln):
                r = rng.random()
                dec = dmode if dmode < 2 else rng.randrange(2)
                big = rng.choice([80, 120, 200]) if bigmode else 0
                if cur and r < 0.55:
                    n, k, mid = cur
                    k2 = k + 1 if rng.random() < 0.75 else rng.randrange(1, n + 1)
                    mid2 = mid if rng.random() < 0.85 else rng.choice([None, 0, 1, 2])
                    k2 = min(k2, n)
                    al = rng.random() < 0.12
                    ops.append(L(self.mk(rng, n, k2, mid2, bytes([65 + j % 26]), big, alias=al), 0, dec))
                    if al:
                        continue      # (nearly always rejected; the group stays where it was)
                    cur = (n, k2, mid2) if k2 < n else (cur if rng.random() < 0.3 else None)
                elif cur and r < 0.62:
                    # the next number under a smaller (or larger) declared count: `k > n` is still "fragment k" of the
                    # statement - accepted only as the direct continuation of the open group, and then it closes it
                    n, k, mid = cur
                    n2 = rng.choice([max(1, k), max(1, k - 1), k + 1, n + 1, 2])
                    k2 = rng.choice([k + 1, k + 1, k + 2, n2 + 3])
                    ops.append(L(self.mk(rng, n2, min(k2, 255), mid, bytes([65 + j % 26]), big), 0, dec))
                    cur = None if k2 >= n2 else (n2, k2, mid) if k2 == k + 1 else cur
                elif r < 0.8:
                    n, k, mid = rng.choice(alpha_r)
                    ops.append(L(self.mk(rng, n, k, mid, bytes([65 + j % 26]), big), 0, dec))
                    cur = (n, k, mid)
                else:
                    ops.append(L(rng.choice(extra), 0, dec))
            yield ("random", ops)

    def extra_run(self, rep, tier, cfgs):
        """The command-line tool feeds one parser: interleaved groups, also from different talkers, obey the same rule."""
        import random
        okb, out, binary = core.cli_build()
        if not okb:
            return
        c20 = C20()
        c20.judge_streams(rep, binary, [s_ for s_ in c20.special_streams(random.Random(6)) if s_.count(b",2,") >= 2][-8:], "C06")

    def judge(self, rep, cfg, label, ops, impl, model):
        rep.count(label)
        spec = SpecGroup(384 if cfg == "noalloc" else None)
        interesting = False
        for op, a, m in zip(ops, impl, model):
            if not op.startswith("L "):
                continue
            rep.evaluations += 1
            line = op_line(op)
            ref = ref_sentence(line)
            pa = parse_answer(a)
            if ref[0] != "ok":
                want = ("R",)
            else:
                want = spec.feed(ref[1])
            got = ("R",) if pa["cls"] not in ("C", "I") else (("I",) if pa["cls"] == "I" else ("C", bytes.fromhex(pa["sent"]["data"])))
            if ref[0] == "ok" and ref[1]["fn"] >= 2 and got[0] != "R":
                interesting = True
            dec_on = op.split(" ")[2] == "1"
            if dec_on and want[0] == "C" and got == ("R",) and pa["cls"] == "E" and pa.get("err") == "nmea" \
                    and m.split(" ")[0] == "E":
                # the delivered payload does not decode: an error is the specified outcome; that the group was
                # nevertheless consumed is checked through the state comparison below and by the following lines
                got = want
            if got != want:
                rep.violation(f"C06: line {line!r} answered {got}, the group automaton specifies {want}",
                              {"cfg": cfg, "ops": ops[:ops.index(op) + 1], "impl": a})
                return
            pm = parse_answer(m)
            if pa.get("st") != pm.get("st") or pa["cls"] != pm["cls"]:
                rep.violation("C06: model and implementation disagree on the parser state / outcome",
                              {"cfg": cfg, "ops": ops[:ops.index(op) + 1], "impl": a, "model": m})
                return
        if interesting:
            rep.nontrivial.add(tuple(ops))
            if len(rep.samples) < 5:
                rep.sample({"history": [op_line(o).decode("latin1") for o in ops if o.startswith("L ")],
                            "answers": [a.split(" ")[0] for a in impl[1:]]})


class C17:
    id = "C17"
    name = "no trace"
    rule = ("L histories (random mixes of fragments in and out of order, unfragmented sentences that do and do not "
            "decode, rejected lines of every kind, decode off for fragments): for every position holding a line that "
            "was rejected or is an unfragmented sentence, the history is replayed without that line on a fresh parser "
            "and all other results must be identical (metamorphic, on the implementation alone); two parsers fed an "
            "interleaving of two histories must answer as two separate runs; state compared with the model after every "
            "line. non-trivial = distinct (history, removed position) pair whose remaining history contains an accepted fragment")

    def history(self, rng):
        ops = []
        ln = rng.randrange(3, 14)
        p, f = gen.valid_message_payload(rng, rng.choice([1, 5, 21]))
        n = rng.choice([2, 3, 4])
        mid = rng.choice([None, 1, 7])
        _, fl = frag_lines(rng, p + gen.random_alphabet(rng, 4), f, n, mid)
        pool = list(fl)
        lines = []
        for j in range(ln):
            r = rng.random()
            if r < 0.45 and pool:
                lines.append(pool.pop(0) if rng.random() < 0.8 else rng.choice(fl))
            elif r < 0.6:
                q, g = gen.valid_message_payload(rng, 1)
                _, other = frag_lines(rng, q, g, 2, rng.choice([None, 1, 2]))
                lines.append(rng.choice(other))
            else:
                lines.append(noise_line(rng))
        return lines

    def cases(self, tier, rng):
        for _ in range(120 if tier == "quick" else 1500):
            lines = self.history(rng)
            ops = ["N 0"] + [L(l, 0, 1 if ref_sentence(l)[0] == "ok" and ref_sentence(l)[1]["nf"] == 1 else 0) for l in lines]
            # variants with one line removed, each on slot 1 after a reset
            for i in range(len(lines)):
                ops.append(f"#drop{i} N 1")
                for j, l in enumerate(lines):
                    if j != i:
                        ops.append(f"#v{i}.{j} " + L(l, 1, 1 if ref_sentence(l)[0] == "ok" and ref_sentence(l)[1]["nf"] == 1 else 0))
            yield ("drop-one", ops)
        # long runs of no-trace lines inside an open group, and no-trace lines that are long themselves
        for m in ([1, 2, 5, 7, 8, 9, 15, 16, 17, 31, 32, 33, 64, 65, 100, 255, 256, 257] if tier == "quick" else list(range(1, 300))):
            p, f = gen.valid_message_payload(rng, rng.choice([1, 5, 21]))
            if rng.random() < 0.4:
                p, f = p + gen.random_alphabet(rng, rng.choice([100, 250])), 0
            n = rng.choice([2, 3, 4, 7])
            mid = rng.choice([None, 1, 7])
            _, fl = frag_lines(rng, p, f, n, mid)
            cut = rng.randrange(1, n)
            kinds = rng.choice(["any", "rejected", "unfragmented", "big-foreign", "aliased-foreign"])
            burst = []
            pool = alias_strays(rng, mid, cut + 1) if kinds == "aliased-foreign" else []
            while len(burst) < m:
                if kinds == "aliased-foreign" and pool:
                    l = rng.choice(pool)
                elif kinds == "big-foreign":
                    # a fragment of another group (different id, not a first fragment) with a long payload
                    l = ais.sentence(gen.random_alphabet(rng, rng.choice([150, 300, 380])), nf=5, fn=rng.choice([2, 3, 5]),
                                     mid=(mid or 0) + 1, fill=0)
                else:
                    l = noise_line(rng)
                    ok = ref_sentence(l)[0] == "ok"
                    if (kinds == "rejected" and ok) or (kinds == "unfragmented" and not ok):
                        continue
                burst.append(l)
            dec = rng.randrange(2)
            ops = ["N 0", "N 1"]
            for i, l in enumerate(fl):
                if i == cut:
                    ops += ["#noise " + L(x, 0, dec) for x in burst]
                ops.append(f"#f{i} " + L(l, 0, dec))
            ops += [f"#g{i} " + L(l, 1, dec) for i, l in enumerate(fl)]
            yield ("burst", ops)
        for _ in range(40 if tier == "quick" else 600):
            a, b = self.history(rng), self.history(rng)
            ops = ["N 0", "N 1", "N 2", "N 3"]
            ia = ib = 0
            while ia < len(a) or ib < len(b):
                if ib >= len(b) or (ia < len(a) and rng.random() < 0.5):
                    ops.append(f"#A{ia} " + L(a[ia], 0, 1)); ia += 1
                else:
                    ops.append(f"#B{ib} " + L(b[ib], 1, 1)); ib += 1
            ops += [f"#a{i} " + L(l, 2, 1) for i, l in enumerate(a)]
            ops += [f"#b{i} " + L(l, 3, 1) for i, l in enumerate(b)]
            yield ("two-parsers", ops)

    def extra_run(self, rep, tier, cfgs):
        C20().tool_pass(rep, "C17")

    @staticmethod
    def result_only(ans):
        return ans.rsplit(" st=", 1)[0]

    def judge(self, rep, cfg, label, ops, impl, model):
        rep.count(label)
        if label == "burst":
            tagged = {op.split(" ")[0]: a for op, a in zip(ops, impl) if op.startswith("#f") or op.startswith("#g")}
            nnoise = sum(1 for op in ops if op.startswith("#noise"))
            for k, a in tagged.items():
                if k.startswith("#f"):
                    rep.evaluations += 1
                    other = tagged["#g" + k[2:]]
                    if a != other:
                        rep.violation(f"C17: {nnoise} no-trace lines inside an open group change the outcome of the group's own fragments",
                                      {"cfg": cfg, "ops": [strip(o) for o in ops], "impl": [a, other]})
                        return
            for op, a, m in zip(ops, impl, model):
                if op.startswith("#") and (a.rsplit(" st=", 1)[-1] != m.rsplit(" st=", 1)[-1] or a.split(" ")[0] != m.split(" ")[0]):
                    rep.violation("C17: model and implementation disagree on outcome/state",
                                  {"cfg": cfg, "ops": [strip(o) for o in ops[:ops.index(op) + 1]], "impl": a, "model": m})
                    return
            rep.nontrivial.add((nnoise, ops[2][:60]))
            return
        if label == "two-parsers":
            tagged = {op.split(" ")[0]: a for op, a in zip(ops, impl) if op.startswith("#")}
            for k, a in tagged.items():
                if k[1] in "AB":
                    rep.evaluations += 1
                    other = tagged.get("#" + k[1].lower() + k[2:])
                    if other is None or self.result_only(other) != self.result_only(a) or other.rsplit(" st=", 1)[-1] != a.rsplit(" st=", 1)[-1]:
                        rep.violation("C17: a parser fed an interleaving with another parser's stream answers differently "
                                      "from the same parser fed alone", {"cfg": cfg, "ops": [strip(o) for o in ops], "impl": impl})
                        return
            rep.nontrivial.add(tuple(ops))
            return
        base = [(op, a) for op, a in zip(ops, impl) if op.startswith("L ")]
        variants = {}
        for op, a in zip(ops, impl):
            if op.startswith("#v"):
                i, j = op.split(" ")[0][2:].split(".")
                variants.setdefault(int(i), {})[int(j)] = a
        for op, a, m in zip(ops, impl, model):
            if op.startswith("L ") or op.startswith("#v"):
                if a.rsplit(" st=", 1)[-1] != m.rsplit(" st=", 1)[-1] or a.split(" ")[0] != m.split(" ")[0]:
                    rep.violation("C17: model and implementation disagree on outcome/state",
                                  {"cfg": cfg, "ops": [strip(o) for o in ops[:ops.index(op) + 1]], "impl": a, "model": m})
                    return
        for i, (op, a) in enumerate(base):
            line = op_line(op)
            ref = ref_sentence(line)
            pa = parse_answer(a)
            notrace = pa["cls"] == "E" or (ref[0] == "ok" and ref[1]["nf"] == 1 and ref[1]["fn"] >= 1)
            if pa["cls"] == "panic":
                notrace = False
            if not notrace:
                continue
            rep.evaluations += 1
            for j, (op2, a2) in enumerate(base):
                if j == i:
                    continue
                v = variants[i][j]
                if self.result_only(v) != self.result_only(a2):
                    rep.violation(f"C17: removing line {i} ({line!r}, answered {a[:30]!r}) changes the result of line {j}",
                                  {"cfg": cfg, "ops": [strip(o) for o in ops], "impl": impl, "removed": i, "changed": j})
                    return
            if any(x[1].startswith("I ") or (x[1].startswith("C ") and " nf=1 " not in x[1]) for k, x in enumerate(base) if k != i):
                rep.nontrivial.add((tuple(ops[:len(base) + 1]), i))
        if len(rep.samples) < 4:
            rep.sample({"history": [op_line(o).decode("latin1")[:60] for o, _ in base], "answers": [a.split(" ")[0] for _, a in base]})


def capacity_boundaries(rng):
    """Every fixed capacity of the no-alloc build, approached from both sides, one case per size."""
    ops = []
    for t, lo, hi in ((6, 100, 126), (8, 100, 126)):
        for n in range(lo, hi):
            f = gen.base_fields(t, rng, ais.LAYOUTS[t])
            ops.append("M " + hexs(gen.full_payload(t, f) + rand_bytes(rng, n)))
    for t in (12, 14):
        for nchar in range(14, 27):
            f = gen.base_fields(t, rng, ais.LAYOUTS[t])
            bits = [(c >> (5 - i)) & 1 for c in gen.structured_chars(rng, nchar) for i in range(6)]
            ops.append("M " + hexs(gen.full_payload(t, f) + ais.bits_to_bytes(bits)))
    for t, w in ((7, 32), (13, 32), (20, 30)):
        for k in range(0, 8):
            f = gen.base_fields(t, rng, ais.LAYOUTS[t])
            nbits = 40 + w * k
            ops.append("M " + hexs(ais.bits_to_bytes(ais.pack(f, ais.LAYOUTS[t], 40)[:40] + [rng.getrandbits(1) for _ in range(w * k)])))
    f = gen.base_fields(17, rng, ais.LAYOUTS[17])
    for n in range(0, 130, 3):
        ops.append("M " + hexs(gen.full_payload(17, f) + rand_bytes(rng, n)))
    for n in range(376, 392):
        ops += ["N 0", L(ais.sentence(gen.random_alphabet(rng, n), fill=0), 0, rng.randrange(2))]
        a = rng.randrange(1, n)
        ops += ["N 0", L(ais.sentence(gen.random_alphabet(rng, a), nf=2, fn=1, mid=1, fill=0), 0, 0),
                L(ais.sentence(gen.random_alphabet(rng, n - a), nf=2, fn=2, mid=1, fill=0), 0, rng.randrange(2))]
    for n in range(505, 520):
        ops.append(f"U {rng.randrange(6)} {hexs(gen.random_alphabet(rng, n))}")
    # every layout cut at every byte length (what a build does with a message that ends early is not a matter of capacity)
    for t in gen.ALL_TYPES:
        f = gen.base_fields(t, rng, ais.LAYOUTS[t])
        bs = gen.full_payload(t, f) + gen.tail_for(t, rng)
        for n in range(1, len(bs) + 1):
            ops.append("M " + hexs(bs[:n]))
    ops.append("N 0")
    return ops


def mixed_stream(rng, tier, n):
    """A stream touching every entry point; used by C18 and C01."""
    ops = []
    keep = False
    for _ in range(n):
        r = rng.random()
        # one case in three continues with the parser as the previous case left it (abandoned or
        # delivered groups, rejected lines): differences between builds may need such a history
        keep = rng.random() < 0.35
        if not keep:
            ops.append("N 0")
        if r < 0.03:
            # two (or three) groups with different sequence ids whose fragments alternate: a parser follows one
            # group at a time, so a newcomer abandons the open group - in every build alike
            ids = rng.sample([None, 0, 1, 2, 3, 9], rng.choice([2, 2, 3]))
            groups = []
            for mid_ in ids:
                p = gen.random_alphabet(rng, rng.choice([8, 20, 60]))
                k = rng.choice([2, 2, 3])
                groups.append(frag_lines(rng, p, 0, k, mid_)[1])
            dec_ = rng.randrange(2)
            while any(groups):
                g = rng.choice([g for g in groups if g])
                ops.append(L(g.pop(0), 0, dec_))
        elif r < 0.04:
            # a complete group whose payload holds bytes outside the armoring alphabet, every line with its own
            # decode flag (on for some fragments, off for others, either for the last)
            pb = bytearray(gen.random_alphabet(rng, rng.choice([8, 20, 60])))
            for _ in range(rng.choice([1, 2, 3])):
                pb[rng.randrange(len(pb))] = rng.choice([0x20, 0x23, 0x2F, 0x58, 0x5F, 0x78, 0x7E, 0x80, 0xFF, 0x00])
            k = rng.choice([2, 3, 4])
            _, ls = frag_lines(rng, bytes(pb), 0, k, rng.choice([None, 2, 7]))
            for l in ls:
                ops.append(L(l, 0, rng.randrange(2)))
        elif r < 0.05:
            # a group that is started and abandoned
            p = gen.random_alphabet(rng, rng.choice([12, 40, 90]))
            k = rng.choice([2, 3, 4])
            _, ls = frag_lines(rng, p, 0, k, rng.choice([None, 3, 4]))
            for l in ls[:rng.randrange(1, k)]:
                ops.append(L(l, 0, rng.randrange(2)))
        elif r < 0.25:
            p, f = gen.valid_message_payload(rng)
            if rng.random() < 0.3:
                p = p + gen.random_alphabet(rng, rng.choice([10, 100, 300, 400]))
            k = rng.choice([1, 1, 2, 3, 5])
            if k == 1 or len(p) < 6:
                ops.append(L(ais.sentence(p, fill=f), 0, 1))
            else:
                _, ls = frag_lines(rng, p, f, k, rng.choice([None, 3]))
                for l in ls:
                    ops.append(L(l, 0, 1, rng.choice("or")))
        elif r < 0.35:
            # long groups that exceed 384 bytes in total
            k = rng.choice([2, 3, 4, 6])
            sizes = [rng.choice([10, 100, 200, 380, 384]) for _ in range(k)]
            for i, sz in enumerate(sizes):
                ops.append(L(ais.sentence(gen.random_alphabet(rng, sz), nf=k, fn=i + 1, mid=1, fill=0), 0, rng.randrange(2)))
        elif r < 0.37:
            # a payload at or just below the 384-byte capacity inside a much longer line (tag block, bytes after the checksum)
            pl = gen.random_alphabet(rng, rng.choice([300, 350, 380, 383, 384]))
            tb_ = rand_bytes(rng, rng.choice([5, 10, 30, 61, 200]), exclude=b"\\\n") if rng.random() < 0.7 else None
            tail_ = rand_bytes(rng, rng.choice([0, 20, 100, 400]), exclude=b"\n")
            ops.append(L(ais.sentence(pl, fill=0, tagblock=tb_, tail=b" " + tail_ if tail_ else b""), 0, rng.randrange(2)))
        elif r < 0.4:
            ops.append(L(ais.sentence(gen.random_alphabet(rng, rng.choice([383, 384, 385, 500, 513, 700])), fill=0), 0, rng.randrange(2)))
        elif r < 0.6:
            t = rng.choice(gen.ALL_TYPES)
            f = gen.base_fields(t, rng, ais.LAYOUTS[t])
            bs = gen.full_payload(t, f)
            if t in (6, 8, 17):
                bs += rand_bytes(rng, rng.choice([0, 1, 50, 118, 119, 120, 121, 200]))
            elif t in (12, 14):
                nchar = rng.choice([1, 5, 19, 20, 21, 22, 40, 156])
                bs += ais.bits_to_bytes([rng.getrandbits(1) for _ in range(6 * nchar)])
            else:
                bs += gen.tail_for(t, rng)
            if rng.random() < 0.2:
                bs = bs[:rng.randrange(0, len(bs) + 1)]
            ops.append("M " + hexs(bs))
        elif r < 0.7:
            ops.append("M " + hexs(rand_bytes(rng, rng.choice([0, 1, 2, 5, 10, 21, 40, 53, 60, 130]))))
        elif r < 0.85:
            n2 = rng.choice([0, 1, 2, 3, 4, 5, 28, 100, 511, 512, 513, 514, 600])
            s = gen.random_alphabet(rng, n2) if rng.random() < 0.8 else rand_bytes(rng, min(n2, 40))
            ops.append(f"U {rng.randrange(6)} {hexs(s)}")
        else:
            for _ in range(rng.randrange(1, 6)):
                ops.append(L(noise_line(rng), 0, rng.randrange(2)))
    return ops


class C18:
    id = "C18"
    name = "build equivalence"
    all_cfgs = True
    rule = ("one mixed operation stream (valid sentences of every type, fragment groups, groups and payloads around "
            "the 384-byte limit, binary data around 119 bytes, texts around 20 characters, random and truncated "
            "payloads, unarmor of every length class, rejected lines) executed by the three builds (std, alloc, "
            "no-alloc): std and alloc must answer identically; no-alloc must answer identically unless a fixed "
            "capacity is exceeded (determined from the std answer: payload/accumulated payload > 384, unarmored > 384, "
            "binary > 119, text > 20 characters), in which case it must answer with an error, not panic, and leave the "
            "parser state unchanged; each build is also compared with the model at its own configuration. "
            "non-trivial = distinct op on which the capacity predicate is true, plus distinct ops answered ok by all builds")

    def run(self, rep, tier, rng, cfgs):
        cfgs = core.CFGS
        n = 1500 if tier == "quick" else 20000
        ops = []
        ops += capacity_boundaries(rng)
        ops += mixed_stream(rng, tier, n)
        ans = {c: core.run_impl(c, ops) for c in cfgs}
        mod = {c: core.run_model(c, ops) for c in cfgs}
        last_n = 0
        acc = 0          # bytes accumulated in the open group, per the std answers
        prev_st = {c: "none,0," for c in cfgs}
        diverged = False   # the no-alloc parser holds a different state because it refused a fragment for capacity
        for i, op in enumerate(ops):
            if op.startswith("N "):
                last_n = i
                acc = 0
                prev_st = {c: "none,0," for c in cfgs}
                diverged = False
                continue
            rep.evaluations += 1
            s, al, na = ans["std"][i], ans["alloc"][i], ans["noalloc"][i]
            rep.count(op.split(" ")[0] + ":" + s.split(" ")[0])
            ctx = {"cfg": "noalloc", "ops": ops[last_n:i + 1], "std": s, "alloc": al, "noalloc": na}
            if s != al:
                rep.violation(f"C18: std and alloc builds differ: {s[:80]!r} vs {al[:80]!r}", ctx)
            exceeds = self.exceeds(op, s, acc)
            if diverged and op.startswith("L "):
                # after a permitted capacity rejection the two parsers hold different groups; until they
                # meet again the no-alloc answers are judged against the no-alloc model only (below)
                rep.count("after-capacity-rejection")
            elif na != s:
                if not exceeds:
                    rep.violation(f"C18: no-alloc build differs from std although no capacity is exceeded: {na[:80]!r} vs {s[:80]!r}", ctx)
                else:
                    pn = parse_answer(na)
                    if pn["cls"] in ("panic", "abort"):
                        rep.violation("C18: no-alloc build panics on an input exceeding its capacity", ctx)
                    elif pn["cls"] in ("ok", "C", "I"):
                        rep.violation("C18: no-alloc build returns a value that differs from std (silent truncation?)", ctx)
                    elif op.startswith("L ") and pn.get("st") not in (prev_st["noalloc"], parse_answer(s).get("st")):
                        # rejected at the sentence/reassembly level: state untouched; rejected while decoding a
                        # delivered group: same state as the std build (the group is consumed in both)
                        rep.violation("C18: no-alloc build rejected the line and left a parser state that is neither "
                                      "the previous one nor the std build's", ctx)
            if exceeds:
                rep.nontrivial.add(("cap", op))
                rep.count("capacity-exceeded")
            elif s.split(" ")[0] in ("ok", "C", "I"):
                rep.nontrivial.add(op)
            for c in cfgs:
                if self.norm(ans[c][i]) != self.norm(mod[c][i]):
                    rep.violation(f"C18: model({c}) and implementation({c}) disagree: impl={ans[c][i][:90]!r} model={mod[c][i][:90]!r}",
                                  {"cfg": c, "ops": ops[last_n:i + 1], "impl": ans[c][i], "model": mod[c][i]})
            if op.startswith("L "):
                ps = parse_answer(s)
                if ps["cls"] == "I":
                    acc = len(ps["st"].split(",")[2]) // 2
                elif ps["cls"] == "C":
                    acc = 0
                for c in cfgs:
                    st = parse_answer(ans[c][i]).get("st")
                    if st is not None:
                        prev_st[c] = st
                diverged = prev_st["noalloc"] != prev_st["std"]
            if rep.evaluations % 397 == 0:
                rep.sample({"op": op[:120], "std": s[:80], "noalloc": na[:80]})

    @staticmethod
    def is_first_frag(op):
        r = ref_sentence(op_line(op))
        return r[0] == "ok" and r[1]["fn"] == 1 and r[1]["nf"] > 1

    @staticmethod
    def norm(a):
        # the sentence-level message type mt is compared under C19, everything else here
        return a

    @staticmethod
    def exceeds(op, s, acc):
        ps = parse_answer(s)
        if op.startswith("U "):
            h = op.split(" ")[2]
            n = 0 if h == "-" else len(h) // 2
            return (6 * n + 7) // 8 > 384
        kv = None
        if op.startswith("M ") and ps["cls"] == "ok":
            kv = ps["kv"]
        if op.startswith("L "):
            ref = ref_sentence(op_line(op))
            if ref[0] in ("ok", "cks") and len(ref[-1]["data"]) > 384:
                return True
            if ref[0] == "ok" and ref[1]["nf"] != 1 and acc + len(ref[1]["data"]) > 384:
                return True
            if ps["cls"] == "C" and ps["msg_kind"] != "none":
                kv = ps["msg"]
                if (6 * (len(ps["sent"]["data"]) // 2) + 7) // 8 > 384:
                    return True
        if kv:
            for k, v in kv.items():
                if v.startswith("b:") and (len(v) - 2) // 2 > 119:
                    return True
            kind = ps.get("kind") or ps.get("msg_kind")
            if kind in ("AddressedSafetyRelatedMessage", "SafetyRelatedBroadcastMessage"):
                # the text is trimmed; the capacity applies to the untrimmed character count
                h = op.split(" ")[1] if op.startswith("M ") else None
                nbytes = len(h) // 2 if h else (6 * (len(ps["sent"]["data"]) // 2) + 7) // 8
                hdr = 72 if kind.startswith("Addressed") else 40
                return (8 * nbytes - hdr) // 6 > 20
        return False


class C01:
    id = "C01"
    name = "totality"
    all_cfgs = True
    rule = ("all three builds, dev profile (overflow checks, debug assertions): raw random byte lines, structured and "
            "mutated sentences, fragment histories followed by arbitrary lines (every numbering 0..255 after every "
            "reachable state class), decode on/off, unarmor of random byte strings x fill 0..5 (incl. empty), "
            "messages::parse of random bytes of every length 0..130 and of near-valid payloads of every type at every "
            "length; predicate: the implementation never answers panic/abort and the run terminates (bounded wall time). "
            "non-trivial = distinct op (all are distinct inputs to a public entry point)")

    def run(self, rep, tier, rng, cfgs):
        cfgs = core.CFGS
        ops = []
        import json
        scale = 1 if tier == "quick" else 12
        ops += capacity_boundaries(rng)
        ops += mixed_stream(rng, tier, 1500 * scale)
        # every numbering after representative states
        for pre in ([], [(3, 1, 5)], [(3, 1, 5), (3, 2, 5)], [(9, 1, None), (9, 2, None), (9, 3, None)], [(2, 1, 1), (2, 2, 1)]):
            nums = [(n, k) for n in (0, 1, 2, 3, 9, 254, 255) for k in (0, 1, 2, 3, 4, 8, 9, 10, 253, 254, 255)]
            if tier != "quick":
                nums = [(n, k) for n in range(0, 256, 5) for k in range(0, 256, 3)]
            for (n, k) in nums:
                for mid in (None, 5, 0):
                    ops.append("N 0")
                    for (a, b, c) in pre:
                        ops.append(L(ais.sentence(b"12", nf=a, fn=b, mid=c), 0, 0))
                    ops.append(L(ais.sentence(b"15", nf=n, fn=k, mid=mid), 0, rng.randrange(2)))
        # the longest possible group: 254 accepted fragments (counter at 254), and the completed
        # 255-fragment group (counter must be back at 0), each followed by boundary numberings
        # every grammar near miss, numeric extreme and multi-byte text line, with decoding on and off
        ops.append("N 0")
        for l in near_misses(rng):
            ops.append(L(l, 0, rng.randrange(2)))
        for first in (b"F", b"1"):
            ops.append("N 0")
            for j in range(1, 256):
                ops.append(L(ais.sentence(first if j == 1 else b"1", nf=255, fn=j, mid=7), 0, 1))
            for (n, k, mid) in ((2, 2, 7), (255, 255, 7), (3, 3, None), (1, 1, None), (255, 1, 7)):
                ops.append(L(ais.sentence(b"15", nf=n, fn=k, mid=mid), 0, 1))
        for upto in (254, 255):
            for (n, k, mid) in ((255, 255, 0), (255, 254, 0), (255, 253, 0), (2, 2, None), (2, 2, 0), (1, 0, None),
                                (0, 0, 0), (255, 0, 0), (1, 255, None), (3, 1, 0), (255, 1, None), (1, 1, None)):
                ops.append("N 0")
                for j in range(1, upto + 1):
                    ops.append(L(ais.sentence(b"1", nf=255, fn=j, mid=0), 0, 0))
                ops.append(L(ais.sentence(b"15", nf=n, fn=k, mid=mid), 0, rng.randrange(2)))
                ops.append(L(ais.sentence(b"15", nf=n, fn=k, mid=mid), 0, rng.randrange(2)))
        # one structural element repeated many thousands of times: nothing in a line may be processed to a depth
        # that grows with the line (recursion per tag block, per field, per delimiter)
        deep_from = len(ops)
        good_ = ais.sentence(b"15M", fill=0)
        for reps in ((300, 3000, 30000) if tier == "quick" else (300, 3000, 30000, 200000)):
            for unit in (b"\\\\", b"\\a\\", b"!", b"$", b",", b"*", b"\\", b"!AIVDM,1,1,,A,15M,0*", b"0", b"A", b"\r", b"1,"):
                ops += ["N 0", L(unit * reps + good_, 0, 1)]
                ops += ["N 0", L(good_[:-2] + unit * reps, 0, 1)]
            ops += ["N 0", L(b"!AIVDM," + b"1" * reps + b",1,,A,15M,0*00", 0, 1),
                    L(b"!AIVDM,1,1,,A," + b"1" * reps + b",0*00", 0, 1),
                    L(b"!AIVDM,1,1,,A,15M," + b"0" * reps + b"*00", 0, 1),
                    L(b"!AIVDM,1,1,,A,15M,0*" + b"0" * reps + b"41", 0, 1)]
        deep_ops = ops[deep_from:]
        # the full 255-fragment group once
        ops.append("N 0")
        for k in range(1, 256):
            ops.append(L(ais.sentence(b"1", nf=255, fn=k, mid=0), 0, 1))
        for fill in range(6):
            ops.append(f"U {fill} -")
            for _ in range(200 * scale):
                n = rng.choice([0, 1, 2, 3, 4, 5, 6, 7, 8, 9, 100])
                s = gen.random_alphabet(rng, n) if rng.random() < 0.7 else rand_bytes(rng, n)
                ops.append(f"U {fill} {hexs(s)}")
        for n in range(0, 131):
            for _ in range(6 * scale):
                ops.append("M " + hexs(rand_bytes(rng, n)))
        for t in ais.SUPPORTED:
            for n in range(0, 70):
                for _ in range(2 * scale):
                    body = rand_bytes(rng, n) if rng.random() < 0.7 else bytes([rng.choice([0, 255])]) * n
                    ops.append("M " + hexs(bytes([(t << 2) | rng.getrandbits(2)]) + body))
        for _ in range(400 * scale):
            ops.append("N 0")
            ops.append(L(rand_bytes(rng, rng.choice([0, 1, 5, 20, 90])), 0, 1))
        from .props_sent import mutations
        for _ in range(4 * scale):
            basel = rand_valid_sentence(rng)
            for m in mutations(rng, basel, per=300):
                ops += ["N 0", L(m, 0, 1)]
        # the repeated-element lines and the near misses once more on the std build compiled without optimisation
        # (opt-level 0, cargo's default for `build` and `test`): an optimiser may turn recursion into a loop
        okb, blog = core.harness_build(["std0"])
        runs = [(c, ops) for c in cfgs]
        if okb:
            runs.append(("std0", deep_ops + ["N 0"] + [L(l, 0, 1) for l in near_misses(rng)]))
        else:
            rep.violation("C01: the unoptimised std harness no longer builds against /repo", {"log": blog[-800:]})
        # very long inputs (positions beyond 2^16 bits): implementation only - the model's list-based unarmoring is
        # quadratic, and the question here is only whether the call returns
        vl = []
        for n in (10922, 10923, 10924, 21846, 43691, 65536):
            body = gen.random_alphabet(rng, n)
            vl.append(f"U {rng.randrange(6)} {hexs(body)}")
            if n <= 22000:
                vl += ["N 0", L(ais.sentence(b"8" + body[1:], fill=0), 0, 1), "N 0"]
                cut = [n * i // 6 for i in range(7)]
                for i in range(6):
                    vl.append(L(ais.sentence(body[cut[i]:cut[i + 1]], nf=6, fn=i + 1, mid=2, fill=0), 0, 1))
        for cfg in cfgs:
            ans = core.run_impl(cfg, vl, reconcile=False)
            for op, a in zip(vl, ans):
                rep.evaluations += 1
                rep.count(f"{cfg}:very-long:{a.split(' ')[0]}")
                if a.split(" ")[0] in ("panic", "abort"):
                    rep.violation(f"C01: {cfg} build {a.split(' ')[0]}s on an input of {len(op) // 2} bytes", {"cfg": cfg, "ops": [op], "impl": a})
                    break
        for cfg, ops in runs:
            try:
                impl = core.run_impl(cfg, ops)
            except subprocess.TimeoutExpired:
                rep.violation(f"C01: the {cfg} build did not terminate within the time limit", {"cfg": cfg, "ops": ops[:50]})
                continue
            model = core.run_model("std" if cfg == "std0" else cfg, ops)
            last_n = 0
            for i, (op, a, m) in enumerate(zip(ops, impl, model)):
                if op.startswith("N "):
                    last_n = i
                    continue
                rep.evaluations += 1
                cls = a.split(" ")[0]
                rep.count(f"{cfg}:{op[0]}:{cls}")
                rep.nontrivial.add(op)
                if cls in ("panic", "abort"):
                    rep.violation(f"C01: {cfg} build {cls}s on {op[:100]}", {"cfg": cfg, "ops": ops[last_n:i + 1], "impl": a, "model": m})
                elif m.split(" ")[0] == "panic":
                    rep.violation(f"C01: the model predicts a panic where the {cfg} build returns - correspondence broken",
                                  {"cfg": cfg, "ops": ops[last_n:i + 1], "impl": a, "model": m})
                if rep.evaluations % 4999 == 0:
                    rep.sample({"cfg": cfg, "op": op[:100], "impl": a[:60]})


class C20:
    id = "C20"
    name = "command-line tool"
    rule = ("the real aisparser binary (built from /repo's working tree) fed random byte streams through a pipe: "
            "concatenations of valid sentences, fragment groups, noise, empty lines, CR LF endings, bytes >= 0x80, "
            "NUL bytes, very long lines, with and without a final newline; expected per-line outcome from the library "
            "called through the harness (one parser, decode on), which is tied to the model by L ops; predicate: exit "
            "status 0, stdout = one record per Complete line in input order, stderr = one record per rejected line in "
            "input order, nothing for Incomplete, record text identical to the library's formatters. "
            "non-trivial = distinct stream producing at least one stdout and one stderr record")

    def stream(self, rng):
        lines = []
        for _ in range(rng.randrange(0, 25)):
            r = rng.random()
            if r < 0.35:
                lines.append(rand_valid_sentence(rng, wild=False))
            elif r < 0.5:
                p, f = gen.valid_message_payload(rng, 5)
                _, ls = frag_lines(rng, p, f, rng.choice([2, 3]), rng.choice([None, 1]))
                if rng.random() < 0.4:
                    # other traffic between the fragments of a group
                    mixed = []
                    for l in ls:
                        mixed.append(l)
                        if rng.random() < 0.6:
                            mixed.append(noise_line(rng).replace(b"\n", b" "))
                    ls = mixed
                lines += ls if rng.random() < 0.7 else ls[:1]
                if rng.random() < 0.35:
                    # a sentence numbered outside 1..n right after a group: it must be handled on its own
                    q_, g_ = gen.valid_message_payload(rng, rng.choice([1, 4, 18]))
                    n_, k_ = rng.choice([(0, 1), (0, 1), (0, 0), (1, 2), (2, 3)])
                    lines.append(ais.sentence(q_, fill=g_, nf=n_, fn=k_, mid=rng.choice([None, None, 1])))
            elif r < 0.6:
                lines.append(b"")
            elif r < 0.7:
                lines.append(rand_bytes(rng, rng.choice([1, 4, 30]), exclude=b"\n"))
            elif r < 0.8:
                lines.append(rand_valid_sentence(rng, wild=False) + b"\r")
            elif r < 0.815:
                # checksum-valid sentences with bytes >= 0x80 (or other non-alphabet bytes) inside payload, channel or talker
                pl = bytearray(gen.random_alphabet(rng, rng.choice([1, 6, 28])))
                pl[rng.randrange(len(pl))] = rng.choice([0x80, 0xC3, 0xA9, 0xFF, 0x7F, 0x20, 0x58])
                kw_ = rng.choice([dict(), dict(channel=b"\xc3\xa9"), dict(talker=b"\xff\xfe")])
                if rng.random() < 0.5:
                    lines.append(ais.sentence(bytes(pl), fill=0, **kw_))
                else:
                    lines.append(ais.sentence(bytes(pl[:len(pl) // 2 + 1]), nf=2, fn=1, mid=3, fill=0, **kw_))
                    lines.append(ais.sentence(gen.random_alphabet(rng, 4), nf=2, fn=2, mid=3, fill=0))
            elif r < 0.83:
                lines.append(b"\xff\xfe garbage \x80")
            elif r < 0.86:
                # very long lines (longer than any internal buffer), some running straight into sentence text
                n = rng.choice([1023, 1024, 1025, 1500, 4096, 8191, 8192, 8193, 20000, 65535, 65536, 65537, 70000, 140000])
                tail = rand_valid_sentence(rng, wild=False) if rng.random() < 0.5 else b""
                lines.append(rand_bytes(rng, n, exclude=b"\n") [:n - len(tail)] + tail)
            elif r < 0.88:
                p_, f_ = gen.valid_message_payload(rng)
                lines.append(ais.sentence(p_, fill=f_, nf=rng.choice([0, 0, 1, 1, 2]), fn=rng.choice([0, 1, 1, 2, 3, 255])))
            elif r < 0.9:
                lines.append(rand_valid_sentence(rng) .replace(b"\n", b" "))
            elif r < 0.95:
                lines.append(rng.choice(_near_pool(rng) + 3 * numeric_extremes(rng)).replace(b"\n", b" "))
            else:
                lines.append(ais.sentence(gen.random_alphabet(rng, 5), cks=0x100 - 1))
        if rng.random() < 0.4:
            # the same line twice in a row (merged feeds repeat sentences): the second copy is a line like any other
            out_ = []
            for l in lines:
                out_.append(l)
                if rng.random() < 0.3:
                    out_.append(l)
            lines = out_
        data = b"\n".join(lines)
        if lines and rng.random() < 0.7:
            data += b"\n"
        return data

    def block_streams(self, rng):
        """Streams whose total size is exactly a power of two (block-buffered readers), ending with and without a
        newline, the last line being a sentence that must produce its record."""
        out = []
        for size in (4096, 8192, 16384, 65536, 262144, 1048576):
            for nl in (b"", b"\n"):
                last = rand_valid_sentence(rng, wild=False) + nl
                lines = []
                total = len(last)
                while total < size - 200:
                    l = rand_valid_sentence(rng, wild=False) if rng.random() < 0.7 else rand_bytes(rng, 30, exclude=b"\n")
                    lines.append(l)
                    total += len(l) + 1
                pad = size - total - 1
                if pad >= 0:
                    lines.append(b"x" * pad)
                    data = b"\n".join(lines) + b"\n" + last
                    if len(data) == size:
                        out.append(data)
        return out

    def aligned_streams(self, rng, sizes=(512, 1024, 4096, 8192, 16384, 32768, 65536)):
        """Lines longer than a reader's block, with the places that matter put EXACTLY at a block boundary B: sentence
        text starting at offset B of a garbage line (inside an open group: a forged fragment of that very group), of a
        line's ignored tail and behind a tag block of B bytes; the two checksum digits straddling offset B (the body
        folding to the value of the first digit alone, the transmitted pair saying something else); a line of exactly
        B bytes.  A line is what stands between two line feeds, however long."""
        out = []
        p_, f_ = gen.valid_message_payload(rng, 1)
        good = ais.sentence(p_, fill=f_)
        q_, g_ = gen.valid_message_payload(rng, 5)
        cut = len(q_) // 2
        f1 = ais.sentence(q_[:cut], nf=2, fn=1, mid=1, fill=0)
        f2 = ais.sentence(q_[cut:], nf=2, fn=2, mid=1, fill=g_)
        forged = ais.sentence(gen.valid_message_payload(rng, 5)[0][:cut], nf=2, fn=1, mid=1, fill=0, channel=b"B")
        for B in sizes:
            for shift in (0, 1):
                junk = rand_bytes(rng, B + shift, exclude=b"\n!$\\")
                # a forged first fragment of the open group at offset B of a rejected line
                out.append(f1 + b"\n" + junk + forged + b"\n" + f2 + b"\n" + good + b"\n")
                out.append(good + b"\n" + junk + good + b"\n" + good + b"\n")
            # sentence text at offset B of the ignored tail of a valid line, and a valid line behind a tag block of B bytes
            tail = b" " + rand_bytes(rng, B - len(good) - 1, exclude=b"\n") if B > len(good) + 1 else b""
            out.append(good + tail + forged + b"\n" + f1 + b"\n" + f2 + b"\n")
            tb = rand_bytes(rng, B - 2, exclude=b"\n\\")
            out.append(ais.sentence(p_, fill=f_, tagblock=tb) + b"\n" + good + b"\n")
            # the checksum digits on both sides of offset B (the first digit alone is the fold of the body)
            for star_at in (B - 2, B - 1, B):
                pre = b"!AIVDM,1,1,,"
                post = b"," + p_ + b"," + str(f_).encode()
                nfill = star_at - len(pre) - len(post)
                if nfill < 2:
                    continue
                ch = bytearray(b"A" * nfill)
                x = ais.xor_all(pre[1:] + bytes(ch[:-1]) + post)
                for d1 in range(16):
                    c = x ^ d1
                    if c not in (44, 42, 10, 13, 92) and 33 <= c < 127:
                        ch[-1] = c
                        break
                else:
                    continue
                body = pre[1:] + bytes(ch) + post
                assert ais.xor_all(body) == d1
                d2 = rng.choice([v for v in range(16) if d1 * 16 + v != d1])
                out.append(good + b"\n!" + body + b"*%X%X" % (d1, d2) + b"\n" + good + b"\n")
                out.append(b"!" + body + b"*%02X" % d1 + b"\n")
            out.append(b"x" * B + b"\n" + good + b"\n")
            out.append(good + b" " * (B - len(good)) + b"\n" + good + b"\n")
        return out

    def tool_pass(self, rep, pid, seed=9):
        """The command-line tool is the crate's own user of the parser: the same rule holds for the lines it reads."""
        import random
        okb, out, binary = core.cli_build()
        if not okb:
            return
        rng = random.Random(seed)
        streams = self.aligned_streams(rng)
        if pid == "C17":
            streams += self.special_streams(rng) + self.notrace_streams(rng)
        if pid == "C15":
            streams = self.binary_streams(rng)
        self.judge_streams(rep, binary, streams, pid)

    def binary_streams(self, rng):
        """Binary messages (types 6, 8, 17) of every length class through the tool, whole and as groups of 2-4 sentences whose
        lines carry tag blocks with 0-4 commas, channels A/B/none: the record shows the identifiers and bytes transmitted."""
        out = []
        for _ in range(16):
            lines = []
            for _ in range(rng.choice([1, 2, 3])):
                t = rng.choice([6, 8, 17])
                f = gen.base_fields(t, rng, ais.LAYOUTS[t])
                bs = gen.full_payload(t, f) + bytes(rng.getrandbits(8) for _ in range(rng.choice([0, 1, 7, 30, 60, 100])))
                p, fl = ais.armor(ais.bytes_to_bits(bs))
                n = rng.choice([1, 2, 2, 3, 4])
                if n == 1 or len(p) < 2 * n:
                    lines.append(ais.sentence(p, fill=fl, channel=rng.choice([b"A", b"B", b""])))
                    continue
                cuts = sorted(rng.sample(range(1, len(p)), n - 1))
                pieces = [p[a:b] for a, b in zip([0] + cuts, cuts + [len(p)])]
                mid = rng.choice([None, 1, 4])
                tbs = rng.choice([[None] * n, [b"s:rx1,c:1696241890,n:%d*74" % i for i in range(n)], [b"s:r%d" % i for i in range(n)],
                                  [b"a,b,c,d"] * n, [b"c:%d,s:x" % i for i in range(n)], [b"g:%d-%d-9,s:rx1,c:1" % (i + 1, n) for i in range(n)]])
                ch = rng.choice([b"A", b"B", b""])
                for i, pc in enumerate(pieces):
                    lines.append(ais.sentence(pc, nf=n, fn=i + 1, mid=mid, fill=fl if i == n - 1 else 0, tagblock=tbs[i],
                                              channel=ch if rng.random() < 0.8 else rng.choice([b"A", b"B", b""])))
            out.append(b"\n".join(lines) + b"\n")
        return out

    def notrace_streams(self, rng):
        """An open group, then lines that leave no trace - each behind a tag block naming another source, group or time
        than the group's own lines (or none) - then the rest of the group."""
        out = []
        for _ in range(12):
            q_, g_ = gen.valid_message_payload(rng, rng.choice([5, 1, 21]))
            cut = len(q_) // 2
            tb1, tb2 = rng.choice([(b"s:rx1,c:1700000000", b"s:rx1,c:1700000001"), (None, None), (b"s:rx1*00", None), (b"g:1-2-5,s:A", b"g:2-2-5,s:A")])
            f1 = ais.sentence(q_[:cut], nf=2, fn=1, mid=1, fill=0, tagblock=tb1)
            f2 = ais.sentence(q_[cut:], nf=2, fn=2, mid=1, fill=g_, tagblock=tb2)
            mid_lines = []
            for _ in range(rng.choice([1, 2, 5])):
                tb = rng.choice([b"s:rx2,c:1700000009", b"s:other", b"g:1-1-8,s:rx3", None, b"s:rx2*55"])
                kind = rng.randrange(4)
                if kind == 0:
                    p_, f_ = gen.valid_message_payload(rng, 1)
                    mid_lines.append(ais.sentence(p_, fill=f_, tagblock=tb))
                elif kind == 1:
                    l = ais.sentence(gen.random_alphabet(rng, 9), fill=0, tagblock=tb)
                    mid_lines.append(l[:-2] + b"%02X" % (int(l[-2:], 16) ^ 0x11))
                elif kind == 2:
                    mid_lines.append(ais.sentence(gen.random_alphabet(rng, 9), nf=3, fn=3, mid=2, fill=0, tagblock=tb))
                else:
                    mid_lines.append((b"\\" + tb + b"\\" if tb else b"") + b"garbage")
            out.append(b"\n".join([f1] + mid_lines + [f2]) + b"\n")
        return out

    @staticmethod
    def same_records(got, exp, is_out):
        """The statement fixes what a record is about (stdout: the decoded message of that line; stderr: that line was
        rejected), not its layout: when the text is not byte-identical to `{:?}<TAB>{:?}` as the tool prints it today,
        the records still count as the same if there is one per expected record, in order, every record of a plain-text
        line contains that line, and every stdout record contains the library's `{:?}` text of the decoded message."""
        if len(got) != len(exp) or any(not g.strip() for g in got):
            return False
        for g, e in zip(got, exp):
            echo = e.split("\t", 1)[0]
            if "\t" in g and g.startswith('"') and g.split("\t", 1)[0] != echo:
                return False        # same layout as today (`"<line>"<TAB>...`) but another line is echoed

            if len(echo) >= 2 and echo[0] == '"' and echo[-1] == '"' and "\\" not in echo and echo[1:-1] not in g:
                return False        # the record is about another line (plain-text lines are recognisable in any layout)
            if is_out and e.split("\t", 1)[-1] not in g:
                return False
        return True

    @staticmethod
    def split_records(data):
        """BufRead::split(b'\\n'): no empty final record after a trailing newline."""
        if data == b"":
            return []
        parts = data.split(b"\n")
        if parts[-1] == b"":
            parts.pop()
        return parts

    def special_streams(self, rng):
        """Stream-level situations: a byte-order mark (or other prefix) on the first line only and on later lines;
        the two fragments of a group 3 ... 300 lines apart; alternating fragments of groups from different talkers."""
        out = []
        p1_, f1_ = gen.valid_message_payload(rng, 1)
        s1 = ais.sentence(p1_, fill=f1_)
        s2 = ais.sentence(gen.valid_message_payload(rng, 18)[0], fill=0, channel=b"B")
        for pre in (b"\xef\xbb\xbf", b"\xff\xfe", b"\xfe\xff", b"\x00", b" ", b"\r"):
            out.append(pre + s1 + b"\n" + pre + s1 + b"\n" + s1 + b"\n")
            out.append(pre + s1 + b"\n" + s2 + b"\n")
            out.append(s2 + b"\n" + pre + s1 + b"\n")
        p_, f_ = gen.valid_message_payload(rng, 5)
        for gap in (3, 50, 99, 100, 101, 250, 300):
            _, ls = frag_lines(rng, p_, f_, 2, 7)
            mid_lines = [ais.sentence(gen.valid_message_payload(rng, 1)[0], fill=0) if k % 3 else noise_line(rng).replace(b"\n", b" ")
                         for k in range(gap)]
            out.append(b"\n".join([ls[0]] + mid_lines + [ls[1]]) + b"\n")
        for _ in range(4):
            ta, tb = rng.sample([b"AI", b"AB", b"BS", b"SA", b"XX"], 2)
            # (decodable payloads: a delivered group is a stdout record, a refused fragment a stderr record)
            pa_, pb_ = gen.valid_message_payload(rng, 1)[0][:28], gen.valid_message_payload(rng, 18)[0][:28]
            ida, idb = rng.choice([(1, 1), (1, 2), (None, None), (3, None)])
            la = [ais.sentence(pa_[:14], nf=2, fn=1, mid=ida, fill=0, talker=ta), ais.sentence(pa_[14:], nf=2, fn=2, mid=ida, fill=0, talker=ta)]
            lb = [ais.sentence(pb_[:14], nf=2, fn=1, mid=idb, fill=0, talker=tb), ais.sentence(pb_[14:], nf=2, fn=2, mid=idb, fill=0, talker=tb)]
            out.append(b"\n".join([la[0], lb[0], la[1], lb[1]]) + b"\n")
            out.append(b"\n".join([la[0], lb[0], lb[1], la[1]]) + b"\n")
        return out

    def run(self, rep, tier, rng, cfgs):
        ok, out, binary = core.cli_build()
        if not ok:
            rep.violation("C20: the aisparser binary no longer builds", {"log": out[-1500:]})
            return
        n = 60 if tier == "quick" else 600
        streams = [b"", b"\n", b"\n\n", b"\xff\n", b"!AIVDM,1,1,,A,15M,0*00", b"\r\n"]
        streams += self.block_streams(rng)
        streams += self.aligned_streams(rng)
        streams += self.binary_streams(rng)
        streams += self.special_streams(rng)
        streams += [self.stream(rng) for _ in range(n)]
        self.judge_streams(rep, binary, streams, "C20")

    def judge_streams(self, rep, binary, streams, pid):
        for data in streams:
            rep.evaluations += 1
            recs = self.split_records(data)
            try:
                p = subprocess.run([binary], input=data, stdout=subprocess.PIPE, stderr=subprocess.PIPE, timeout=60)
            except subprocess.TimeoutExpired:
                rep.violation(f"{pid}: aisparser did not reach end of input", {"stream_hex": data.hex()})
                continue
            ops = ["N 0", "N 1"]
            for r in recs:
                ops.append(L(r, 0, 1))
                ops.append(f"R 1 {hexs(r)}")
            ops.append("S " + hexs(data))
            impl = core.run_impl("std", ops)
            model = core.run_model("std", ops)
            exp_out, exp_err, exp_all = [], [], []
            tie_ok = True
            # the model's record splitting, std's BufRead::split and this script's must agree
            want_split = "ok %d %s" % (len(recs), ",".join(hexs(r) for r in recs))
            if impl[-1].strip() != want_split.strip() or model[-1].strip() != want_split.strip():
                rep.violation(f"{pid}: record splitting differs between BufRead::split, the model and the checker",
                              {"stream_hex": data.hex(), "impl": impl[-1], "model": model[-1], "checker": want_split})
            for i, r in enumerate(recs):
                la, ra = impl[2 + 2 * i], impl[3 + 2 * i]
                lm = model[2 + 2 * i]
                if la != lm:
                    # outcome, sentence fields, decoded message and parser state: the library that defines the
                    # expected records must be the modelled one on every line of the stream
                    tie_ok = False
                    ctx_tie = {"line": r[:80].hex(), "library": la[:300], "model": lm[:300]}
                if ra.startswith("O "):
                    exp_out.append(ra[2:])
                    exp_all.append(ra[2:])
                elif ra.startswith("E "):
                    exp_err.append(ra[2:])
                    exp_all.append(ra[2:])
            got_out = p.stdout.decode("utf-8", "replace").split("\n")
            got_err = p.stderr.decode("utf-8", "replace").split("\n")
            if got_out and got_out[-1] == "":
                got_out.pop()
            if got_err and got_err[-1] == "":
                got_err.pop()
            ctx = {"stream_hex": data.hex(), "exit": p.returncode, "stdout": got_out[:20], "stderr": got_err[:20],
                   "expected_stdout": exp_out[:20], "expected_stderr": exp_err[:20]}
            rep.count(f"records:{len(recs)>0}")
            if p.returncode != 0:
                rep.violation(f"{pid}: aisparser exited with status {p.returncode}", ctx)
            elif got_out != exp_out and not self.same_records(got_out, exp_out, True):
                rep.violation(f"{pid}: stdout records differ from one record per completed line, in order", ctx)
            elif got_err != exp_err and not self.same_records(got_err, exp_err, False):
                rep.violation(f"{pid}: stderr records differ from one record per rejected line, in order", ctx)
            elif not tie_ok:
                ctx.update(ctx_tie)
                rep.violation(f"{pid}: model and library disagree on a line of the stream (the records the tool prints are "
                              "the library's, so they are not the specified ones)", ctx)
            if pid == "C20" and exp_out and exp_err and p.returncode == 0 and len(data) < 200000:
                # both streams into ONE sink (`aisparser < feed > log 2>&1`, a terminal): a record is written when its
                # line has been handled, so the log shows the records of all lines in input order
                try:
                    p2 = subprocess.run([binary], input=data, stdout=subprocess.PIPE, stderr=subprocess.STDOUT, timeout=60)
                    got_all = p2.stdout.decode("utf-8", "replace").split("\n")
                    if got_all and got_all[-1] == "":
                        got_all.pop()
                    rep.count("one-sink")
                    if got_all != exp_all and not self.same_records(got_all, exp_all, False):
                        ctx2 = dict(ctx)
                        ctx2.update({"one_sink": got_all[:30], "expected_one_sink": exp_all[:30]})
                        rep.violation(f"{pid}: with standard output and standard error going to one sink the records do not appear in input order "
                                      "(records are held back on one of the streams)", ctx2)
                except subprocess.TimeoutExpired:
                    rep.violation(f"{pid}: aisparser did not reach end of input", {"stream_hex": data.hex()})
            if exp_out and exp_err:
                rep.nontrivial.add(data)
            if len(rep.samples) < 3 and exp_out and exp_err:
                rep.sample({"stream": data.decode("latin1")[:300], "stdout_records": len(exp_out), "stderr_records": len(exp_err)})

from . import props_msg as pm
from . import props_sent as ps
from . import props_hist as ph

PROPS = {
    "C01": ph.C01, "C02": ps.C02, "C03": pm.C03, "C04": pm.C04, "C05": ph.C05, "C06": ph.C06, "C07": ps.C07,
    "C08": ps.C08, "C09": pm.C09, "C10": pm.C10, "C11": pm.C11, "C12": pm.C12, "C13": pm.C13, "C14": pm.C14,
    "C15": pm.C15, "C16": pm.C16, "C17": ph.C17, "C18": ph.C18, "C19": ps.C19, "C20": ph.C20,
}

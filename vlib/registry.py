from . import props_msg as pm

PROPS = {
    "C03": pm.C03, "C04": pm.C04, "C09": pm.C09, "C10": pm.C10, "C11": pm.C11, "C12": pm.C12,
    "C13": pm.C13, "C14": pm.C14, "C15": pm.C15, "C16": pm.C16,
}

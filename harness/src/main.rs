//! Correspondence harness: executes the line protocol of /verif/DESIGN.md §5.1 against the real
//! `ais` crate (path dependency on /repo, rebuilt from its working tree), in-process, under
//! `catch_unwind`, and prints one canonical answer line per operation.
//!
//! The same binary is built three times (features `std`, `alloc`, none), which selects the
//! crate's build configuration; everything below is written against the API common to all three.

use ais::messages::{self, AisMessage};
use ais::sentence::{AisFragments, AisParser, AisSentence};
use std::fmt::Write as _;
use std::io::{self, BufRead, Write};
use std::panic::{catch_unwind, AssertUnwindSafe};

fn hex(bs: &[u8]) -> String {
    let mut s = String::with_capacity(bs.len() * 2);
    for b in bs {
        write!(s, "{:02x}", b).unwrap();
    }
    s
}

fn unhex(s: &str) -> Option<Vec<u8>> {
    if s == "-" {
        return Some(Vec::new());
    }
    if s.len() % 2 != 0 {
        return None;
    }
    (0..s.len() / 2)
        .map(|i| u8::from_str_radix(&s[2 * i..2 * i + 2], 16).ok())
        .collect()
}

fn of32(v: Option<f32>) -> String {
    match v {
        None => "none".into(),
        Some(x) => format!("f:{:08x}", x.to_bits()),
    }
}

fn f32s(x: f32) -> String {
    format!("f:{:08x}", x.to_bits())
}

fn odbg<T: std::fmt::Debug>(v: &Option<T>) -> String {
    match v {
        None => "none".into(),
        Some(x) => format!("{:?}", x),
    }
}

fn onum<T: std::fmt::Display>(v: &Option<T>) -> String {
    match v {
        None => "none".into(),
        Some(x) => format!("{}", x),
    }
}

fn text(s: &str) -> String {
    format!("t:{}", hex(s.as_bytes()))
}

/// `RateOfTurn` keeps its raw value private; recover it from the Debug text.
fn rot(v: &Option<messages::navigation::RateOfTurn>) -> String {
    match v {
        None => "none".into(),
        Some(r) => {
            let d = format!("{:?}", r);
            let inner = d
                .trim_start_matches("RateOfTurn { raw: ")
                .trim_end_matches(" }");
            inner.to_string()
        }
    }
}

fn radio(out: &mut String, r: &messages::radio_status::RadioStatus) {
    use messages::radio_status::{RadioStatus, SubMessage};
    match r {
        RadioStatus::Sotdma(m) => {
            write!(
                out,
                " radio=Sotdma sync_state={:?} slot_timeout={}",
                m.sync_state, m.slot_timeout
            )
            .unwrap();
            match &m.sub_message {
                SubMessage::SlotOffset(v) => write!(out, " sub_message=SlotOffset sub_a={}", v),
                SubMessage::UtcHourAndMinute(h, mi) => {
                    write!(out, " sub_message=UtcHourAndMinute sub_a={} sub_b={}", h, mi)
                }
                SubMessage::SlotNumber(v) => write!(out, " sub_message=SlotNumber sub_a={}", v),
                SubMessage::ReceivedStations(v) => {
                    write!(out, " sub_message=ReceivedStations sub_a={}", v)
                }
            }
            .unwrap();
        }
        RadioStatus::Itdma(m) => {
            write!(
                out,
                " radio=Itdma sync_state={:?} slot_increment={} num_slots={} keep={}",
                m.sync_state, m.slot_increment, m.num_slots, m.keep
            )
            .unwrap();
        }
    }
}

fn type_name(m: &AisMessage) -> &'static str {
    use ais::messages::AisMessageType;
    match m {
        AisMessage::PositionReport(r) => r.name(),
        AisMessage::BaseStationReport(r) => r.name(),
        AisMessage::StaticAndVoyageRelatedData(r) => r.name(),
        AisMessage::BinaryAddressedMessage(r) => r.name(),
        AisMessage::BinaryAcknowledgeMessage(r) => r.name(),
        AisMessage::BinaryBroadcastMessage(r) => r.name(),
        AisMessage::StandardAircraftPositionReport(r) => r.name(),
        AisMessage::UtcDateInquiry(r) => r.name(),
        AisMessage::UtcDateResponse(r) => r.name(),
        AisMessage::AddressedSafetyRelatedMessage(r) => r.name(),
        AisMessage::SafetyRelatedAcknowledgment(r) => r.name(),
        AisMessage::SafetyRelatedBroadcastMessage(r) => r.name(),
        AisMessage::Interrogation(r) => r.name(),
        AisMessage::AssignmentModeCommand(r) => r.name(),
        AisMessage::DgnssBroadcastBinaryMessage(r) => r.name(),
        AisMessage::StandardClassBPositionReport(r) => r.name(),
        AisMessage::ExtendedClassBPositionReport(r) => r.name(),
        AisMessage::DataLinkManagementMessage(r) => r.name(),
        AisMessage::AidToNavigationReport(r) => r.name(),
        AisMessage::StaticDataReport(r) => r.name(),
        AisMessage::LongRangeAisBroadcastMessage(r) => r.name(),
    }
}

fn render_msg(m: &AisMessage) -> String {
    let body = render_msg_fields(m);
    // "<Variant> k=v ..." -> "<Variant> type_name=<AisMessageType::name()> k=v ..."
    let tn = type_name(m).replace(' ', "_");
    match body.split_once(' ') {
        Some((kind, rest)) => format!("{} type_name={} {}", kind, tn, rest),
        None => format!("{} type_name={}", body, tn),
    }
}

fn render_msg_fields(m: &AisMessage) -> String {
    let mut o = String::new();
    macro_rules! w { ($($arg:tt)*) => { write!(o, $($arg)*).unwrap() } }
    match m {
        AisMessage::PositionReport(r) => {
            w!("PositionReport message_type={} repeat_indicator={} mmsi={}", r.message_type, r.repeat_indicator, r.mmsi);
            w!(" navigation_status={} rate_of_turn={} speed_over_ground={} position_accuracy={:?}",
                odbg(&r.navigation_status), rot(&r.rate_of_turn), of32(r.speed_over_ground), r.position_accuracy);
            w!(" longitude={} latitude={} course_over_ground={} true_heading={} timestamp={}",
                of32(r.longitude), of32(r.latitude), of32(r.course_over_ground), onum(&r.true_heading), r.timestamp);
            w!(" maneuver_indicator={} raim={}", odbg(&r.maneuver_indicator), r.raim);
            radio(&mut o, &r.radio_status);
        }
        AisMessage::BaseStationReport(r) => {
            w!("BaseStationReport message_type={} repeat_indicator={} mmsi={}", r.message_type, r.repeat_indicator, r.mmsi);
            w!(" year={} month={} day={} hour={} minute={} second={} fix_quality={:?}",
                onum(&r.year), onum(&r.month), onum(&r.day), r.hour, onum(&r.minute), onum(&r.second), r.fix_quality);
            w!(" longitude={} latitude={} epfd_type={} raim={}", of32(r.longitude), of32(r.latitude), odbg(&r.epfd_type), r.raim);
            radio(&mut o, &r.radio_status);
        }
        AisMessage::UtcDateResponse(r) => {
            w!("UtcDateResponse message_type={} repeat_indicator={} mmsi={}", r.message_type, r.repeat_indicator, r.mmsi);
            w!(" year={} month={} day={} hour={} minute={} second={} fix_quality={:?}",
                onum(&r.year), onum(&r.month), onum(&r.day), r.hour, onum(&r.minute), onum(&r.second), r.fix_quality);
            w!(" longitude={} latitude={} epfd_type={} raim={}", of32(r.longitude), of32(r.latitude), odbg(&r.epfd_type), r.raim);
            radio(&mut o, &r.radio_status);
        }
        AisMessage::StaticAndVoyageRelatedData(r) => {
            w!("StaticAndVoyageRelatedData message_type={} repeat_indicator={} mmsi={}", r.message_type, r.repeat_indicator, r.mmsi);
            w!(" ais_version={} imo_number={} callsign={} vessel_name={} ship_type={}",
                r.ais_version, r.imo_number, text(r.callsign.as_str()), text(r.vessel_name.as_str()), odbg(&r.ship_type));
            w!(" dimension_to_bow={} dimension_to_stern={} dimension_to_port={} dimension_to_starboard={}",
                r.dimension_to_bow, r.dimension_to_stern, r.dimension_to_port, r.dimension_to_starboard);
            w!(" epfd_type={} eta_month_utc={} eta_day_utc={} eta_hour_utc={} eta_minute_utc={}",
                odbg(&r.epfd_type), onum(&r.eta_month_utc), onum(&r.eta_day_utc), r.eta_hour_utc, onum(&r.eta_minute_utc));
            w!(" draught={} destination={} dte={:?}", f32s(r.draught), text(r.destination.as_str()), r.dte);
        }
        AisMessage::BinaryAddressedMessage(r) => {
            w!("BinaryAddressedMessage message_type={} repeat_indicator={} mmsi={}", r.message_type, r.repeat_indicator, r.mmsi);
            w!(" seqno={} dest_mmsi={} retransmit={} dac={} fid={} data=b:{}",
                r.seqno, r.dest_mmsi, r.retransmit, r.dac, r.fid, hex(&r.data[..]));
        }
        AisMessage::BinaryAcknowledgeMessage(r) => {
            w!("BinaryAcknowledgeMessage message_type={} repeat_indicator={} mmsi={}", r.message_type, r.repeat_indicator, r.mmsi);
            w!(" count={}", r.acks.len());
            for (i, a) in r.acks.iter().enumerate() {
                w!(" acks_mmsi.{}={} acks_seq_num.{}={}", i, a.mmsi, i, a.seq_num);
            }
        }
        AisMessage::SafetyRelatedAcknowledgment(r) => {
            w!("SafetyRelatedAcknowledgment message_type={} repeat_indicator={} mmsi={}", r.message_type, r.repeat_indicator, r.mmsi);
            w!(" count={}", r.acks.len());
            for (i, a) in r.acks.iter().enumerate() {
                w!(" acks_mmsi.{}={} acks_seq_num.{}={}", i, a.mmsi, i, a.seq_num);
            }
        }
        AisMessage::BinaryBroadcastMessage(r) => {
            w!("BinaryBroadcastMessage message_type={} repeat_indicator={} mmsi={}", r.message_type, r.repeat_indicator, r.mmsi);
            w!(" dac={} fid={} data=b:{}", r.dac, r.fid, hex(&r.data[..]));
        }
        AisMessage::StandardAircraftPositionReport(r) => {
            w!("StandardAircraftPositionReport message_type={} repeat_indicator={} mmsi={}", r.message_type, r.repeat_indicator, r.mmsi);
            w!(" altitude={} speed_over_ground={} position_accuracy={:?} longitude={} latitude={}",
                onum(&r.altitude), of32(r.speed_over_ground), r.position_accuracy, of32(r.longitude), of32(r.latitude));
            w!(" course_over_ground={} timestamp={} dte={:?} assigned_mode={:?} raim={}",
                of32(r.course_over_ground), r.timestamp, r.dte, r.assigned_mode, r.raim);
            radio(&mut o, &r.radio_status);
        }
        AisMessage::UtcDateInquiry(r) => {
            w!("UtcDateInquiry message_type={} repeat_indicator={} mmsi={} dest_mmsi={}", r.message_type, r.repeat_indicator, r.mmsi, r.dest_mmsi);
        }
        AisMessage::AddressedSafetyRelatedMessage(r) => {
            w!("AddressedSafetyRelatedMessage message_type={} repeat_indicator={} mmsi={}", r.message_type, r.repeat_indicator, r.mmsi);
            w!(" seqno={} dest_mmsi={} retransmit={} text={}", r.seqno, r.dest_mmsi, r.retransmit, text(r.text.as_str()));
        }
        AisMessage::SafetyRelatedBroadcastMessage(r) => {
            w!("SafetyRelatedBroadcastMessage message_type={} repeat_indicator={} mmsi={} text={}",
                r.message_type, r.repeat_indicator, r.mmsi, text(r.text.as_str()));
        }
        AisMessage::Interrogation(r) => {
            w!("Interrogation message_type={} repeat_indicator={} mmsi={}", r.message_type, r.repeat_indicator, r.mmsi);
            w!(" stations_count={}", r.stations.len());
            for (i, s) in r.stations.iter().enumerate() {
                w!(" stations_mmsi.{}={} messages_count.{}={}", i, s.mmsi, i, s.messages.len());
                for (j, m) in s.messages.iter().enumerate() {
                    w!(" messages_type.{}.{}={} messages_slot_offset.{}.{}={}", j, i, m.message_type, j, i, onum(&m.slot_offset));
                }
            }
        }
        AisMessage::AssignmentModeCommand(r) => {
            w!("AssignmentModeCommand message_type={} repeat_indicator={} mmsi={}", r.message_type, r.repeat_indicator, r.mmsi);
            w!(" mmsi1={} offset1={} increment1={} mmsi2={} offset2={} increment2={}",
                r.mmsi1, r.offset1, r.increment1, onum(&r.mmsi2), onum(&r.offset2), onum(&r.increment2));
        }
        AisMessage::DgnssBroadcastBinaryMessage(r) => {
            w!("DgnssBroadcastBinaryMessage message_type={} repeat_indicator={} mmsi={}", r.message_type, r.repeat_indicator, r.mmsi);
            w!(" longitude={} latitude={}", of32(r.longitude), of32(r.latitude));
            let p = &r.payload;
            w!(" p_message_type={} station_id={} z_count={} sequence_number={} n={} health={} data=b:{}",
                p.message_type, p.station_id, p.z_count, p.sequence_number, p.n, p.health, hex(&p.data[..]));
        }
        AisMessage::StandardClassBPositionReport(r) => {
            w!("StandardClassBPositionReport message_type={} repeat_indicator={} mmsi={}", r.message_type, r.repeat_indicator, r.mmsi);
            w!(" speed_over_ground={} position_accuracy={:?} longitude={} latitude={} course_over_ground={}",
                of32(r.speed_over_ground), r.position_accuracy, of32(r.longitude), of32(r.latitude), of32(r.course_over_ground));
            w!(" true_heading={} timestamp={} cs_unit={:?} has_display={} has_dsc={} whole_band={}",
                onum(&r.true_heading), r.timestamp, r.cs_unit, r.has_display, r.has_dsc, r.whole_band);
            w!(" accepts_message_22={} assigned_mode={:?} raim={}", r.accepts_message_22, r.assigned_mode, r.raim);
            radio(&mut o, &r.radio_status);
        }
        AisMessage::ExtendedClassBPositionReport(r) => {
            w!("ExtendedClassBPositionReport message_type={} repeat_indicator={} mmsi={}", r.message_type, r.repeat_indicator, r.mmsi);
            w!(" speed_over_ground={} position_accuracy={:?} longitude={} latitude={} course_over_ground={}",
                of32(r.speed_over_ground), r.position_accuracy, of32(r.longitude), of32(r.latitude), of32(r.course_over_ground));
            w!(" true_heading={} timestamp={} name={} type_of_ship_and_cargo={}",
                onum(&r.true_heading), r.timestamp, text(r.name.as_str()), odbg(&r.type_of_ship_and_cargo));
            w!(" dimension_to_bow={} dimension_to_stern={} dimension_to_port={} dimension_to_starboard={}",
                r.dimension_to_bow, r.dimension_to_stern, r.dimension_to_port, r.dimension_to_starboard);
            w!(" epfd_type={} raim={} dte={:?} assigned_mode={:?}", odbg(&r.epfd_type), r.raim, r.dte, r.assigned_mode);
        }
        AisMessage::DataLinkManagementMessage(r) => {
            w!("DataLinkManagementMessage message_type={} repeat_indicator={} mmsi={}", r.message_type, r.repeat_indicator, r.mmsi);
            w!(" count={}", r.reservations.len());
            for (i, a) in r.reservations.iter().enumerate() {
                w!(" res_offset.{}={} res_num_slots.{}={} res_timeout.{}={} res_increment.{}={}",
                    i, a.offset, i, a.num_slots, i, a.timeout, i, a.increment);
            }
        }
        AisMessage::AidToNavigationReport(r) => {
            w!("AidToNavigationReport message_type={} repeat_indicator={} mmsi={}", r.message_type, r.repeat_indicator, r.mmsi);
            w!(" aid_type={} name={} accuracy={:?} longitude={} latitude={}",
                odbg(&r.aid_type), text(r.name.as_str()), r.accuracy, of32(r.longitude), of32(r.latitude));
            w!(" dimension_to_bow={} dimension_to_stern={} dimension_to_port={} dimension_to_starboard={}",
                r.dimension_to_bow, r.dimension_to_stern, r.dimension_to_port, r.dimension_to_starboard);
            w!(" epfd_type={} utc_second={} off_position={} regional_reserved={} raim={} virtual_aid={} assigned_mode={}",
                odbg(&r.epfd_type), r.utc_second, r.off_position, r.regional_reserved, r.raim, r.virtual_aid, r.assigned_mode);
        }
        AisMessage::StaticDataReport(r) => {
            use messages::static_data_report::MessagePart;
            w!("StaticDataReport message_type={} repeat_indicator={} mmsi={}", r.message_type, r.repeat_indicator, r.mmsi);
            match &r.message_part {
                MessagePart::PartA { vessel_name } => {
                    w!(" part=PartA vessel_name={}", text(vessel_name.as_str()));
                }
                MessagePart::PartB {
                    ship_type, vendor_id, model_serial, unit_model_code, serial_number, callsign,
                    dimension_to_bow, dimension_to_stern, dimension_to_port, dimension_to_starboard,
                } => {
                    w!(" part=PartB ship_type={} vendor_id={} model_serial={} unit_model_code={} serial_number={} callsign={}",
                        odbg(ship_type), text(vendor_id.as_str()), text(model_serial.as_str()), unit_model_code, serial_number, text(callsign.as_str()));
                    w!(" dimension_to_bow={} dimension_to_stern={} dimension_to_port={} dimension_to_starboard={}",
                        dimension_to_bow, dimension_to_stern, dimension_to_port, dimension_to_starboard);
                }
                MessagePart::Unknown(n) => {
                    w!(" part=Unknown({})", n);
                }
            }
        }
        AisMessage::LongRangeAisBroadcastMessage(r) => {
            w!("LongRangeAisBroadcastMessage message_type={} repeat_indicator={} mmsi={}", r.message_type, r.repeat_indicator, r.mmsi);
            w!(" position_accuracy={:?} raim={} navigation_status={} longitude={} latitude={}",
                r.position_accuracy, r.raim, odbg(&r.navigation_status), of32(r.longitude), of32(r.latitude));
            w!(" speed_over_ground={} course_over_ground={} gnss_position_status={}",
                of32(r.speed_over_ground), of32(r.course_over_ground), r.gnss_position_status);
        }
    }
    o
}

fn render_sentence(s: &AisSentence) -> String {
    format!(
        "talker={:?} report={:?} nf={} fn={} id={} ch={} data={} fill={} mt={} hm={} fr={} msg={}",
        s.talker_id,
        s.report_type,
        s.num_fragments,
        s.fragment_number,
        onum(&s.message_id),
        match s.channel {
            None => "none".to_string(),
            Some(c) => format!("{}", c as u32),
        },
        hex(&s.data[..]),
        s.fill_bit_count,
        s.message_type,
        s.has_more(),
        s.is_fragment(),
        match &s.message {
            None => "none".to_string(),
            Some(m) => render_msg(m),
        }
    )
}

/// `AisParser`'s fields are private; its derived Debug shows them.
fn render_state(p: &AisParser) -> String {
    let d = format!("{:?}", p);
    // AisParser { message_id: Some(1), fragment_number: 1, data: [53, 51] }
    // The state is private: when its Debug text does not have this shape (a different representation), it is
    // reported as not observable and the check falls back on behaviour alone.
    if !(d.contains("message_id: ") && d.contains("fragment_number: ") && d.contains("data: [")) {
        return "st=?".to_string();
    }
    let id = {
        let a = d.find("message_id: ").map(|i| i + 12).unwrap_or(0);
        let rest = &d[a..];
        if rest.starts_with("None") {
            "none".to_string()
        } else {
            let b = rest.find('(').unwrap_or(0) + 1;
            let e = rest.find(')').unwrap_or(b);
            rest[b..e].to_string()
        }
    };
    let frag = {
        let a = d.find("fragment_number: ").map(|i| i + 17).unwrap_or(0);
        let rest = &d[a..];
        let e = rest.find(',').unwrap_or(rest.len());
        rest[..e].to_string()
    };
    let data = {
        let a = d.find("data: [").map(|i| i + 7).unwrap_or(0);
        let rest = &d[a..];
        let e = rest.find(']').unwrap_or(0);
        let inner = &rest[..e];
        let bytes: Vec<u8> = inner
            .split(',')
            .filter_map(|t| t.trim().parse::<u8>().ok())
            .collect();
        hex(&bytes)
    };
    format!("st={},{},{}", id, frag, data)
}

fn render_err(e: &ais::errors::Error) -> String {
    match e {
        ais::errors::Error::Nmea { .. } => "E nmea".to_string(),
        ais::errors::Error::Checksum { expected, found } => format!("E cks {} {}", expected, found),
    }
}

fn do_line(parser: &mut AisParser, dec: bool, conv: &str, line: &[u8]) -> String {
    let r = catch_unwind(AssertUnwindSafe(|| parser.parse(line, dec)));
    let head = match r {
        Err(_) => "panic".to_string(),
        Ok(Err(e)) => render_err(&e),
        Ok(Ok(frag)) => {
            let (tag, body) = match &frag {
                AisFragments::Complete(s) => ("C", render_sentence(s)),
                AisFragments::Incomplete(s) => ("I", render_sentence(s)),
            };
            let c = if conv == "o" {
                let o: Option<AisSentence> = frag.into();
                match o {
                    Some(s) => format!("conv=some:{}", if render_sentence(&s) == body { "same" } else { "diff" }),
                    None => "conv=none".to_string(),
                }
            } else {
                let o: ais::errors::Result<AisSentence> = frag.into();
                match o {
                    Ok(s) => format!("conv=ok:{}", if render_sentence(&s) == body { "same" } else { "diff" }),
                    Err(_) => "conv=err".to_string(),
                }
            };
            format!("{} {} {}", tag, body, c)
        }
    };
    format!("{} {}", head, render_state(parser))
}

fn do_table(name: &str, code: u8) -> String {
    use messages::types::*;
    let r = catch_unwind(|| match name {
        "epfd" => format!("ok {}", odbg(&EpfdType::parse(code))),
        "ship" => {
            let v = ShipType::parse(code);
            let back = match v {
                Some(s) => format!("{}", u8::from(s)),
                None => "none".to_string(),
            };
            format!("ok {} back={}", odbg(&v), back)
        }
        "nav" => format!("ok {}", odbg(&messages::position_report::NavigationStatus::parse(code))),
        "man" => format!("ok {}", odbg(&messages::navigation::ManeuverIndicator::parse(code))),
        "navaid" => format!("ok {}", odbg(&messages::aid_to_navigation_report::NavaidType::parse(code))),
        "sync" => format!("ok {:?}", messages::radio_status::SyncState::parse(code)),
        "rot" => format!("ok {}", rot(&messages::navigation::RateOfTurn::parse(code))),
        "rotrate" => match messages::navigation::RateOfTurn::parse(code) {
            None => "ok unavailable".to_string(),
            Some(r) => format!("ok {}", of32(r.rate())),
        },
        "rotdir" => match messages::navigation::RateOfTurn::parse(code) {
            None => "ok unavailable".to_string(),
            Some(r) => format!("ok {}", odbg(&r.direction())),
        },
        "accuracy" => format!("ok {:?}", messages::navigation::Accuracy::parse(code)),
        "dte" => format!("ok {:?}", Dte::from(code)),
        "assigned" => format!("ok {:?}", AssignedMode::parse(code)),
        "cs" => format!("ok {:?}", messages::standard_class_b_position_report::CarrierSense::parse(code)),
        _ => "bad-op".to_string(),
    });
    r.unwrap_or_else(|_| "panic".to_string())
}

/// `X <mode> <type> <idx> <key> <off> <w> <lo> <hi>`: exhaustive sweep of one scaled field through the real
/// `messages::parse`: every raw value in lo..hi is written at bit `off` (width `w`) of a fixed
/// background payload; answers `ok <n> <absent> <fnv1a-64>` over (presence, f32 bits) of field `key`.
fn do_sweep(t: u8, key: &str, off: usize, w: usize, lo: u64, hi: u64) -> String {
    let nbytes = match t { 5 => 53, 19 => 39, 21 => 34, 27 => 12, 17 => 15, _ => 21 };
    let mut buf = vec![0u8; nbytes];
    for (i, b) in buf.iter_mut().enumerate() {
        *b = if i == 0 { t << 2 } else { ((i * 37 % 256) as u8) ^ 0x5a };
    }
    if off + w > 8 * nbytes || w > 32 {
        return "bad-op".to_string();
    }
    let mut h: u64 = 14695981039346656037;
    let mut absent = 0u64;
    let mix = |h: &mut u64, b: u64| { *h = (*h ^ b).wrapping_mul(1099511628211); };
    for raw in lo..hi {
        for i in 0..w {
            let bit = ((raw >> (w - 1 - i)) & 1) as u8;
            let p = off + i;
            if bit == 1 { buf[p / 8] |= 0x80 >> (p % 8); } else { buf[p / 8] &= !(0x80 >> (p % 8)); }
        }
        let got: Result<Option<f32>, ()> = match catch_unwind(|| messages::parse(&buf)) {
            Ok(Ok(m)) => match (&m, key) {
                (AisMessage::PositionReport(r), "longitude") => Ok(r.longitude),
                (AisMessage::PositionReport(r), "latitude") => Ok(r.latitude),
                (AisMessage::PositionReport(r), "speed_over_ground") => Ok(r.speed_over_ground),
                (AisMessage::PositionReport(r), "course_over_ground") => Ok(r.course_over_ground),
                (AisMessage::BaseStationReport(r), "longitude") => Ok(r.longitude),
                (AisMessage::BaseStationReport(r), "latitude") => Ok(r.latitude),
                (AisMessage::UtcDateResponse(r), "longitude") => Ok(r.longitude),
                (AisMessage::UtcDateResponse(r), "latitude") => Ok(r.latitude),
                (AisMessage::StaticAndVoyageRelatedData(r), "draught") => Ok(Some(r.draught)),
                (AisMessage::StandardAircraftPositionReport(r), "longitude") => Ok(r.longitude),
                (AisMessage::StandardAircraftPositionReport(r), "latitude") => Ok(r.latitude),
                (AisMessage::StandardAircraftPositionReport(r), "speed_over_ground") => Ok(r.speed_over_ground),
                (AisMessage::StandardAircraftPositionReport(r), "course_over_ground") => Ok(r.course_over_ground),
                (AisMessage::DgnssBroadcastBinaryMessage(r), "longitude") => Ok(r.longitude),
                (AisMessage::DgnssBroadcastBinaryMessage(r), "latitude") => Ok(r.latitude),
                (AisMessage::StandardClassBPositionReport(r), "longitude") => Ok(r.longitude),
                (AisMessage::StandardClassBPositionReport(r), "latitude") => Ok(r.latitude),
                (AisMessage::StandardClassBPositionReport(r), "speed_over_ground") => Ok(r.speed_over_ground),
                (AisMessage::StandardClassBPositionReport(r), "course_over_ground") => Ok(r.course_over_ground),
                (AisMessage::ExtendedClassBPositionReport(r), "longitude") => Ok(r.longitude),
                (AisMessage::ExtendedClassBPositionReport(r), "latitude") => Ok(r.latitude),
                (AisMessage::ExtendedClassBPositionReport(r), "speed_over_ground") => Ok(r.speed_over_ground),
                (AisMessage::ExtendedClassBPositionReport(r), "course_over_ground") => Ok(r.course_over_ground),
                (AisMessage::AidToNavigationReport(r), "longitude") => Ok(r.longitude),
                (AisMessage::AidToNavigationReport(r), "latitude") => Ok(r.latitude),
                (AisMessage::LongRangeAisBroadcastMessage(r), "longitude") => Ok(r.longitude),
                (AisMessage::LongRangeAisBroadcastMessage(r), "latitude") => Ok(r.latitude),
                (AisMessage::LongRangeAisBroadcastMessage(r), "speed_over_ground") => Ok(r.speed_over_ground),
                (AisMessage::LongRangeAisBroadcastMessage(r), "course_over_ground") => Ok(r.course_over_ground),
                _ => Err(()),
            },
            _ => Err(()),
        };
        match got {
            Ok(Some(x)) => {
                let bits = x.to_bits() as u64;
                mix(&mut h, 1);
                mix(&mut h, bits & 255);
                mix(&mut h, (bits >> 8) & 255);
                mix(&mut h, (bits >> 16) & 255);
                mix(&mut h, (bits >> 24) & 255);
            }
            Ok(None) => { mix(&mut h, 0); absent += 1; }
            Err(()) => mix(&mut h, 2),
        }
    }
    format!("ok {} {} {}", hi.saturating_sub(lo), absent, h)
}

fn parse_as(t: u8, bs: &[u8]) -> Option<ais::errors::Result<AisMessage>> {
    use ais::messages::AisMessageType;
    use messages::*;
    Some(match t {
        1..=3 => position_report::PositionReport::parse(bs).map(AisMessage::PositionReport),
        4 => base_station_report::BaseStationReport::parse(bs).map(AisMessage::BaseStationReport),
        5 => static_and_voyage_related_data::StaticAndVoyageRelatedData::parse(bs).map(AisMessage::StaticAndVoyageRelatedData),
        6 => binary_addressed::BinaryAddressedMessage::parse(bs).map(AisMessage::BinaryAddressedMessage),
        7 => binary_acknowledge::BinaryAcknowledge::parse(bs).map(AisMessage::BinaryAcknowledgeMessage),
        8 => binary_broadcast_message::BinaryBroadcastMessage::parse(bs).map(AisMessage::BinaryBroadcastMessage),
        9 => standard_aircraft_position_report::SARPositionReport::parse(bs).map(AisMessage::StandardAircraftPositionReport),
        10 => utc_date_inquiry::UtcDateInquiry::parse(bs).map(AisMessage::UtcDateInquiry),
        11 => utc_date_response::UtcDateResponse::parse(bs).map(AisMessage::UtcDateResponse),
        12 => addressed_safety_related::AddressedSafetyRelatedMessage::parse(bs).map(AisMessage::AddressedSafetyRelatedMessage),
        13 => safety_related_acknowledgment::SafetyRelatedAcknowledge::parse(bs).map(AisMessage::SafetyRelatedAcknowledgment),
        14 => safety_related_broadcast::SafetyRelatedBroadcastMessage::parse(bs).map(AisMessage::SafetyRelatedBroadcastMessage),
        15 => interrogation::Interrogation::parse(bs).map(AisMessage::Interrogation),
        16 => assignment_mode_command::AssignmentModeCommand::parse(bs).map(AisMessage::AssignmentModeCommand),
        17 => dgnss_broadcast_binary_message::DgnssBroadcastBinaryMessage::parse(bs).map(AisMessage::DgnssBroadcastBinaryMessage),
        18 => standard_class_b_position_report::StandardClassBPositionReport::parse(bs).map(AisMessage::StandardClassBPositionReport),
        19 => extended_class_b_position_report::ExtendedClassBPositionReport::parse(bs).map(AisMessage::ExtendedClassBPositionReport),
        20 => data_link_management_message::DataLinkManagementMessage::parse(bs).map(AisMessage::DataLinkManagementMessage),
        21 => aid_to_navigation_report::AidToNavigationReport::parse(bs).map(AisMessage::AidToNavigationReport),
        24 => static_data_report::StaticDataReport::parse(bs).map(AisMessage::StaticDataReport),
        27 => long_range_ais_broadcast::LongRangeAisBroadcastMessage::parse(bs).map(AisMessage::LongRangeAisBroadcastMessage),
        _ => return None,
    })
}

fn main() {
    std::panic::set_hook(Box::new(|_| {}));
    let stdin = io::stdin();
    let stdout = io::stdout();
    let mut out = io::BufWriter::new(stdout.lock());
    // VERIF_FLUSH: flush after every answer, so that the operation that kills the process can be identified
    let flush_each = std::env::var_os("VERIF_FLUSH").is_some();
    let mut slots: Vec<AisParser> = Vec::new();
    // every slot has a twin built with `Default::default()` instead of `AisParser::new()`; both are fed every
    // line, and an answer that differs between them is reported as `ctor-mismatch`
    let mut twins: Vec<AisParser> = Vec::new();
    for line in stdin.lock().lines() {
        let line = match line {
            Ok(l) => l,
            Err(_) => break,
        };
        let toks: Vec<&str> = line.trim().split(' ').collect();
        let ans = match toks.as_slice() {
            ["U", fill, h] => match (fill.parse::<usize>(), unhex(h)) {
                (Ok(f), Some(bs)) => match catch_unwind(|| messages::unarmor(&bs, f)) {
                    Err(_) => "panic".to_string(),
                    Ok(Err(_)) => "err".to_string(),
                    Ok(Ok(v)) => format!("ok {}", hex(&v[..])),
                },
                _ => "bad-op".to_string(),
            },
            ["M", h] => match unhex(h) {
                Some(bs) => match catch_unwind(|| messages::parse(&bs)) {
                    Err(_) => "panic".to_string(),
                    Ok(Err(_)) => "err".to_string(),
                    Ok(Ok(m)) => format!("ok {}", render_msg(&m)),
                },
                None => "bad-op".to_string(),
            },
            // the per-type public entry point `<Type as AisMessageType>::parse`, bypassing the dispatch
            ["P", t, h] => match (t.parse::<u8>(), unhex(h)) {
                (Ok(t), Some(bs)) => match catch_unwind(|| parse_as(t, &bs)) {
                    Err(_) => "panic".to_string(),
                    Ok(None) => "bad-op".to_string(),
                    Ok(Some(Err(_))) => "err".to_string(),
                    Ok(Some(Ok(m))) => format!("ok {}", render_msg(&m)),
                },
                _ => "bad-op".to_string(),
            },
            // the public communication-state decoders of `messages::radio_status`, at any bit offset of a buffer
            ["Q", kind, off, t, h] => match (off.parse::<usize>(), t.parse::<u8>(), unhex(h)) {
                (Ok(off), Ok(t), Some(bs)) if off < 8 => {
                    use messages::radio_status::{parse_radio, ItdmaMessage, SotdmaMessage};
                    let kind = kind.to_string();
                    let r = catch_unwind(|| {
                        let inp = (&bs[..], off);
                        let res = match kind.as_str() {
                            "radio" => parse_radio(inp, t),
                            "sotdma" => SotdmaMessage::parse(inp),
                            _ => ItdmaMessage::parse(inp),
                        };
                        match res {
                            Ok(((rest, o2), rs)) => {
                                let mut s = String::from("ok");
                                radio(&mut s, &rs);
                                write!(s, " rest={}", rest.len() * 8 - o2).unwrap();
                                s
                            }
                            Err(_) => "err".to_string(),
                        }
                    });
                    r.unwrap_or_else(|_| "panic".to_string())
                }
                _ => "bad-op".to_string(),
            },
            ["T", name, code] => match code.parse::<u8>() {
                Ok(c) => do_table(name, c),
                Err(_) => "bad-op".to_string(),
            },
            // std::io::BufRead::split(b'\n') as the CLI uses it
            ["S", h] => match unhex(h) {
                Some(bs) => {
                    let recs: Vec<Vec<u8>> = io::Cursor::new(bs).split(b'\n').map(|r| r.unwrap()).collect();
                    let parts: Vec<String> = recs.iter().map(|r| if r.is_empty() { "-".to_string() } else { hex(r) }).collect();
                    format!("ok {} {}", recs.len(), parts.join(","))
                }
                None => "bad-op".to_string(),
            },
            ["X", _mode, t, _idx, key, off, w, lo, hi] => match (t.parse::<u8>(), off.parse::<usize>(), w.parse::<usize>(), lo.parse::<u64>(), hi.parse::<u64>()) {
                (Ok(t), Ok(off), Ok(w), Ok(lo), Ok(hi)) => do_sweep(t, key, off, w, lo, hi),
                _ => "bad-op".to_string(),
            },
            ["N", k] => match k.parse::<usize>() {
                Ok(k) => {
                    while slots.len() <= k {
                        slots.push(AisParser::new());
                        twins.push(AisParser::default());
                    }
                    slots[k] = AisParser::new();
                    twins[k] = AisParser::default();
                    "ok".to_string()
                }
                Err(_) => "bad-op".to_string(),
            },
            ["L", k, dec, conv, h] => match (k.parse::<usize>(), unhex(h)) {
                (Ok(k), Some(bs)) => {
                    while slots.len() <= k {
                        slots.push(AisParser::new());
                        twins.push(AisParser::default());
                    }
                    let a1 = do_line(&mut slots[k], *dec == "1", conv, &bs);
                    let a2 = do_line(&mut twins[k], *dec == "1", conv, &bs);
                    if a1 == a2 { a1 } else { format!("ctor-mismatch {} ||| {}", a1, a2) }
                }
                _ => "bad-op".to_string(),
            },
            // what src/bin/aisparser.rs prints for this line (decode on), with the library's own formatters
            ["R", k, h] => match (k.parse::<usize>(), unhex(h)) {
                (Ok(k), Some(bs)) => {
                    while slots.len() <= k {
                        slots.push(AisParser::new());
                        twins.push(AisParser::default());
                    }
                    let p = &mut slots[k];
                    match catch_unwind(AssertUnwindSafe(|| p.parse(&bs, true))) {
                        Err(_) => "panic".to_string(),
                        Ok(Err(e)) => format!("E {:?}\t{:?}", String::from_utf8_lossy(&bs), e),
                        Ok(Ok(AisFragments::Complete(s))) => {
                            format!("O {:?}\t{:?}", String::from_utf8_lossy(&bs), s.message)
                        }
                        Ok(Ok(AisFragments::Incomplete(_))) => "-".to_string(),
                    }
                }
                _ => "bad-op".to_string(),
            },
            _ => "bad-op".to_string(),
        };
        writeln!(out, "{}", ans).unwrap();
        if flush_each {
            out.flush().unwrap();
        }
    }
    out.flush().unwrap();
}

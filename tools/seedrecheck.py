#!/usr/bin/env python3
"""tools/seedrecheck.py [name-regex]

Re-runs, for every seeded change kept under /verif/seeded/, the check of the property it breaks
(correspondence half, quick tier) with the change applied to /repo's working tree, and restores the
tree straight afterwards.  Updates detected_by / missed_by in the seed's meta.json.  The seeds were
confirmed (tests still pass, demonstration fails) when they were first evaluated by seedeval.py."""
import json
import os
import re
import subprocess
import sys

VERIF = os.path.dirname(os.path.dirname(os.path.abspath(__file__)))
ENV = dict(os.environ, CARGO_NET_OFFLINE="true", RUST_BACKTRACE="0")


def sh(cmd, cwd=None):
    p = subprocess.run(cmd, shell=True, cwd=cwd, env=ENV, stdout=subprocess.PIPE, stderr=subprocess.STDOUT)
    return p.returncode, p.stdout.decode("utf-8", "replace")


def save_corpus(prop, seed):
    """Keep the failing operation sequence of this seed as a corpus case of the property (replayed first by
    every later run, judged by equality with the model), so that catching it no longer depends on the
    random stream."""
    import ast
    rp = os.path.join(VERIF, "work", "replays", f"{prop}-quick-1.json")
    dst = os.path.join(VERIF, "corpus", prop, seed + ".json")
    if not os.path.exists(rp) or os.path.exists(dst):
        return
    r = json.load(open(rp)).get("replay")
    if isinstance(r, str):
        try:
            r = ast.literal_eval(r)
        except Exception:
            return
    if not isinstance(r, dict) or "ops" not in r or not (0 < len(r["ops"]) <= 700):
        return
    ops = [o.split(" ", 1)[1] if o.startswith("#") else o for o in r["ops"]]
    if any(not o or o[0] not in "UMTNLXSP" for o in ops):
        return
    os.makedirs(os.path.dirname(dst), exist_ok=True)
    json.dump({"origin": "seed " + seed, "cfg": r.get("cfg"), "ops": ops}, open(dst, "w"))


def main():
    pat = re.compile(sys.argv[1]) if len(sys.argv) > 1 else None
    rc, st = sh("git status --short", cwd="/repo")
    if st.strip():
        print("/repo working tree is not clean; refusing to run")
        sys.exit(2)
    root = os.path.join(VERIF, "seeded")
    missed = []
    for name in sorted(os.listdir(root)):
        d = os.path.join(root, name)
        mp = os.path.join(d, "meta.json")
        if not os.path.isfile(mp) or (pat and not pat.search(name)):
            continue
        meta = json.load(open(mp))
        prop = meta["breaks_property"]
        checks = [prop] + [c for c in meta.get("also_run", []) if c != prop]
        rc, out = sh(f"git apply {d}/patch.diff", cwd="/repo")
        if rc != 0:
            print(f"{name}: patch does not apply: {out.strip()[:100]}")
            continue
        det, mis = [], []
        try:
            for c in checks:
                rc, out = sh(f"./check {c} --skip-lean", cwd=VERIF)
                (det if "VIOLATION property=" + c in out else mis).append(c)
                if "VIOLATION property=" + c in out:
                    save_corpus(c, name)
        finally:
            sh("git checkout -- .", cwd="/repo")
        meta["detected_by"], meta["missed_by"] = det, mis
        json.dump(meta, open(mp, "w"), indent=1)
        print(f"{name}: detected_by={det} missed_by={mis}", flush=True)
        if prop in mis:
            missed.append(name)
    print("MISSED-BY-OWN-CHECK:", missed)


if __name__ == "__main__":
    main()

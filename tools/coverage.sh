#!/bin/bash
# tools/coverage.sh — which lines of /repo/src do the correspondence streams execute?
# Builds an instrumented std harness (nightly toolchain, -C instrument-coverage), runs the
# correspondence half of every check through it, and writes work/cov/report.txt (+ uncovered lines).
set -e
cd "$(dirname "$0")/.."
TC=nightly
BIN=$(dirname $(rustup which --toolchain $TC rustc))/../lib/rustlib/x86_64-unknown-linux-gnu/bin
mkdir -p work/cov && rm -f work/cov/*.profraw
( cd harness && CARGO_NET_OFFLINE=true RUSTFLAGS="-C instrument-coverage" cargo +$TC build --offline --quiet --features std --target-dir target/cov )
for p in C01 C02 C03 C04 C05 C06 C07 C08 C09 C10 C11 C12 C13 C14 C15 C16 C17 C18 C19; do
  VERIF_COV=1 ./check $p --skip-lean 2>&1 | grep -E "VIOLATION|status=" || true
done
$BIN/llvm-profdata merge -sparse work/cov/*.profraw -o work/cov/all.profdata
$BIN/llvm-cov report harness/target/cov/debug/harness -instr-profile=work/cov/all.profdata --sources /repo/src > work/cov/report.txt 2>/dev/null || \
$BIN/llvm-cov report harness/target/cov/debug/harness -instr-profile=work/cov/all.profdata > work/cov/report.txt
$BIN/llvm-cov show harness/target/cov/debug/harness -instr-profile=work/cov/all.profdata --sources /repo/src --show-line-counts-or-regions 2>/dev/null \
  | grep -E "^ +[0-9]+\| +0\|" > work/cov/uncovered.txt || true
grep -E "repo/src|TOTAL" work/cov/report.txt | sed 's/  */ /g' | cut -d' ' -f1,8-10 | head -40
echo "uncovered lines: $(wc -l < work/cov/uncovered.txt)"

#!/usr/bin/env python3
"""tools/showreplay.py <replay.json>: print the operations of a replay with lines decoded."""
import ast, json, sys
d = json.load(open(sys.argv[1]))
print(d["what"][:600])
r = d["replay"]
if isinstance(r, str):
    r = ast.literal_eval(r)
for o in r.get("ops", []):
    t = o.split(" ")
    if t[0] == "L":
        print("L", t[1], "dec=" + t[2], bytes.fromhex(t[4]) if t[4] != "-" else b"")
    else:
        print(o[:200])
for k in ("impl", "model"):
    if k in r:
        print(k, "=", str(r[k])[:600])

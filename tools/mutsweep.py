#!/usr/bin/env python3
"""tools/mutsweep.py [--limit N] [--seed S] [--only REGEX]

Systematic first-order mutants of /repo/src (bit widths, text lengths, sentinels, thresholds,
comparison operators), applied one at a time to /repo's working tree.  For each mutant that still
compiles and still passes the crate's own test suite, the correspondence halves of the relevant
checks are run (`./check Cxx --skip-lean`); the mutant counts as killed when at least one check
reports a VIOLATION.  Results: work/mutsweep.jsonl (one line per mutant) and a summary on stdout.
The working tree of /repo is restored after every mutant.

This measures the adequacy of the generators (the tie between model and code); it plays no part
in deciding a property."""
import json
import os
import random
import re
import subprocess
import sys
import time

VERIF = os.path.dirname(os.path.dirname(os.path.abspath(__file__)))
REPO = "/repo"
ENV = dict(os.environ, CARGO_NET_OFFLINE="true", RUST_BACKTRACE="0")

MSG_CHECKS = ["C04", "C09", "C10", "C11", "C12", "C13", "C14", "C15", "C16"]
SENT_CHECKS = ["C02", "C05", "C06", "C07", "C08", "C17", "C19"]
NOALLOC_CHECKS = ["C18", "C01"]


def sh(cmd, cwd=None, timeout=1800):
    p = subprocess.run(cmd, shell=True, cwd=cwd, env=ENV, stdout=subprocess.PIPE, stderr=subprocess.STDOUT, timeout=timeout)
    return p.returncode, p.stdout.decode("utf-8", "replace")


def nontest(src):
    i = src.find("#[cfg(test)]")
    return len(src) if i < 0 else i


def mutants():
    out = []
    root = os.path.join(REPO, "src")
    for dp, _, files in os.walk(root):
        for f in sorted(files):
            if not f.endswith(".rs"):
                continue
            path = os.path.join(dp, f)
            rel = os.path.relpath(path, REPO)
            src = open(path).read()
            end = nontest(src)
            body = src[:end]

            def add(kind, m, repl):
                out.append({"file": rel, "kind": kind, "pos": m.start(), "old": m.group(0), "new": repl,
                            "line": body.count("\n", 0, m.start()) + 1})
            for m in re.finditer(r"take_bits(?:::<_, \w+, _, _>)?\((\d+)(u8|u16|u32)\)", body):
                n = int(m.group(1))
                for d in (-1, 1):
                    if n + d >= 1:
                        add("width", m, m.group(0).replace(f"({n}{m.group(2)})", f"({n + d}{m.group(2)})"))
            for m in re.finditer(r"signed_i32\(data, (\d+)\)", body):
                n = int(m.group(1))
                for d in (-1, 1):
                    add("signed-width", m, f"signed_i32(data, {n + d})")
            for m in re.finditer(r"parse_6bit_ascii\(data, (\d+)\)", body):
                n = int(m.group(1))
                for d in (-6, 6):
                    if n + d > 0:
                        add("text-length", m, f"parse_6bit_ascii(data, {n + d})")
            for m in re.finditer(r"^\s*(\d[\d_]*) => None", body, flags=re.M):
                n = int(m.group(1).replace("_", ""))
                for d in (-1, 1):
                    if n + d >= 0:
                        add("sentinel", m, m.group(0).replace(m.group(1), str(n + d)))
            for m in re.finditer(r"(remaining_bits\(data\)|remaining_bits|remaining) (>=|>|<) (\d+)", body):
                op = m.group(2)
                alt = {">=": ">", ">": ">=", "<": "<="}[op]
                add("threshold-op", m, m.group(0).replace(f" {op} ", f" {alt} "))
                n = int(m.group(3))
                for d in (-1, 1, 8, -8):
                    if n + d >= 0:
                        add("threshold", m, m.group(0).replace(str(n), str(n + d)))
            if rel.endswith("sentence.rs") or rel.endswith("mod.rs"):
                for m in re.finditer(r" (!=|==|<=|>=|<|>) ", body):
                    op = m.group(1)
                    for alt in {"!=": ["=="], "==": ["!="], "<=": ["<"], ">=": [">"], "<": ["<="], ">": [">="]}[op]:
                        add("cmp-op", m, f" {alt} ")
                for m in re.finditer(r"\b(48|87|96|119|56|0xff|0x0u8|2|6|8)\b", body):
                    if rel.endswith("mod.rs") and body.rfind("pub fn unarmor", 0, m.start()) >= 0:
                        n = m.group(1)
                        if n.startswith("0x"):
                            continue
                        for d in (-1, 1):
                            add("unarmor-const", m, str(int(n) + d))
            for m in re.finditer(r"=> Some\(Self::(\w+)\)", body):
                pass
    return out


def checks_for(mut):
    f = mut["file"]
    if f.endswith("sentence.rs"):
        return SENT_CHECKS + ["C01"]
    if f.endswith("nom_noalloc.rs"):
        return ["C18", "C04", "C14", "C01"]
    if f.endswith("mod.rs"):
        return ["C03", "C09", "C01", "C05"]
    if f.endswith("aisparser.rs"):
        return ["C20"]
    return MSG_CHECKS


def apply(mut):
    path = os.path.join(REPO, mut["file"])
    src = open(path).read()
    assert src[mut["pos"]:mut["pos"] + len(mut["old"])] == mut["old"]
    open(path, "w").write(src[:mut["pos"]] + mut["new"] + src[mut["pos"] + len(mut["old"]):])


def main():
    limit, seed, only = 10 ** 9, 1, None
    args = sys.argv[1:]
    for i, a in enumerate(args):
        if a == "--limit":
            limit = int(args[i + 1])
        if a == "--seed":
            seed = int(args[i + 1])
        if a == "--only":
            only = re.compile(args[i + 1])
    rc, st = sh("git status --short", cwd=REPO)
    if st.strip():
        print("/repo working tree is not clean; refusing to run")
        sys.exit(2)
    ms = mutants()
    if only:
        ms = [m for m in ms if only.search(m["file"] + ":" + m["kind"])]
    random.Random(seed).shuffle(ms)
    ms = ms[:limit]
    os.makedirs(os.path.join(VERIF, "work"), exist_ok=True)
    logp = os.path.join(VERIF, "work", "mutsweep.jsonl")
    stats = {"total": 0, "not_compiling": 0, "killed_by_tests": 0, "killed_by_checks": 0, "survived": 0}
    t0 = time.time()
    with open(logp, "a") as log:
        for mut in ms:
            stats["total"] += 1
            try:
                apply(mut)
                rc, out = sh("cargo test --offline -q 2>&1 | tail -30", cwd=REPO)
                if "could not compile" in out or "error[" in out or ("error:" in out and "test result" not in out):
                    mut["outcome"] = "not_compiling"
                elif "test result: FAILED" in out or re.search(r"[1-9]\d* failed", out) or "test result: ok" not in out:
                    mut["outcome"] = "killed_by_tests"
                else:
                    killed = []
                    for c in checks_for(mut):
                        rc, o = sh(f"./check {c} --skip-lean 2>&1 | grep -E 'VIOLATION|status='", cwd=VERIF)
                        if "VIOLATION" in o:
                            killed.append(c)
                            if len(killed) >= 2:
                                break
                    if not killed:
                        for c in ("C01", "C18"):
                            if c in checks_for(mut):
                                continue
                            rc, o = sh(f"./check {c} --skip-lean 2>&1 | grep -E 'VIOLATION|status='", cwd=VERIF)
                            if "VIOLATION" in o:
                                killed.append(c)
                                break
                    mut["killed_by"] = killed
                    mut["outcome"] = "killed_by_checks" if killed else "survived"
            finally:
                sh("git checkout -- .", cwd=REPO)
            stats[mut["outcome"]] += 1
            log.write(json.dumps(mut) + "\n")
            log.flush()
            print(f"[{stats['total']}/{len(ms)}] {mut['file']}:{mut['line']} {mut['kind']} {mut['old']!r}->{mut['new']!r}: "
                  f"{mut['outcome']} {mut.get('killed_by', '')}", flush=True)
    stats["wall_s"] = round(time.time() - t0)
    print(json.dumps(stats))


if __name__ == "__main__":
    main()

#!/usr/bin/env python3
"""tools/extras.py — correspondence for the parts of the model that no property speaks about:
`AisMessageType::name()` of every variant (type_name= in M answers) and the `RateOfTurn::rate()` /
`RateOfTurn::direction()` accessors (T rotrate / T rotdir, all 256 codes).  Informational: prints
EXTRA-MISMATCH lines and exits 0; these comparisons take part in no property's verdict."""
import os
import random
import sys

sys.path.insert(0, os.path.dirname(os.path.dirname(os.path.abspath(__file__))))
from vlib import core, gen, ais  # noqa: E402


def main():
    ok, log = core.harness_build(core.CFGS)
    if not ok:
        print("harness does not build:", log[-500:])
        return 0
    rng = random.Random(1)
    ops = []
    for t in gen.ALL_TYPES:
        for _ in range(5):
            f = gen.base_fields(t, rng, ais.LAYOUTS[t])
            ops.append("M " + core.hexs(gen.full_payload(t, f) + gen.tail_for(t, rng)))
    ops += [f"T rotrate {c}" for c in range(256)] + [f"T rotdir {c}" for c in range(256)]
    bad = 0
    names = set()
    for cfg in core.CFGS:
        impl = core.run_impl(cfg, ops, keep_meta=True)
        model = core.run_model(cfg, ops, keep_meta=True)
        for o, a, m in zip(ops, impl, model):
            if o.startswith("M "):
                ta = [x for x in a.split(" ") if x.startswith("type_name=")]
                tm = [x for x in m.split(" ") if x.startswith("type_name=")]
                names.update(ta)
                if ta != tm:
                    bad += 1
                    print(f"EXTRA-MISMATCH cfg={cfg} {o[:40]} impl={ta} model={tm}")
            elif a != m:
                bad += 1
                print(f"EXTRA-MISMATCH cfg={cfg} {o} impl={a} model={m}")
    print(f"extras: {len(ops)} ops x {len(core.CFGS)} builds, {len(names)} distinct type names, {bad} mismatches")
    return 0


if __name__ == "__main__":
    sys.exit(main())

#!/usr/bin/env python3
"""tools/benigneval.py <name> <patch.diff> [NOTES.md] [--checks=C01,C02,...]
   tools/benigneval.py --recheck [name-regex]

A harmless (behaviour-preserving) change to squidpickles/ais must not raise any alarm.  Confirms in a scratch
worktree that the change applies, that the crate's own tests still pass and that the other two configurations
build; then applies it to /repo, runs every property's quick check (correspondence half), restores the tree and
records which checks raised a VIOLATION in /verif/benign/<name>/meta.json."""
import json
import os
import re
import shutil
import subprocess
import sys

VERIF = os.path.dirname(os.path.dirname(os.path.abspath(__file__)))
ENV = dict(os.environ, CARGO_NET_OFFLINE="true", RUST_BACKTRACE="0")
ALL = ["C%02d" % i for i in range(1, 21)]


def sh(cmd, cwd=None, timeout=3600):
    p = subprocess.run(cmd, shell=True, cwd=cwd, env=ENV, stdout=subprocess.PIPE, stderr=subprocess.STDOUT, timeout=timeout)
    return p.returncode, p.stdout.decode("utf-8", "replace")


def confirm(name, out, meta):
    wt = "/tmp/wt/bverify_" + name
    sh(f"git -C /repo worktree remove --force {wt}")
    sh(f"git -C /repo worktree add -q --detach {wt} HEAD")
    try:
        rc, o = sh(f"git apply {os.path.join(out, 'patch.diff')}", cwd=wt)
        meta["patch_applies"] = rc == 0
        rc, o = sh("cargo test --offline 2>&1 | grep -E '^test result|FAILED|^error' | head -5", cwd=wt)
        meta["existing_tests_with_change"] = o.strip().split("\n")
        meta["existing_tests_pass_with_change"] = ("FAILED" not in o) and ("error" not in o) and ("test result: ok. 59 passed" in o)
        rcs = []
        for feat in ("--no-default-features --features alloc", "--no-default-features"):
            r = sh(f"cargo build --offline --lib {feat} 2>&1 | tail -2", cwd=wt)
            rcs.append("Finished" in r[1])
        meta["builds_alloc_noalloc"] = rcs
    finally:
        sh(f"git -C /repo worktree remove --force {wt}")


def run_checks(out, meta, checks):
    rc, st = sh("git status --short", cwd="/repo")
    if st.strip():
        print("/repo working tree is not clean; refusing to run")
        sys.exit(2)
    rc, o = sh(f"git -C /repo apply {os.path.join(out, 'patch.diff')}")
    alarms = {}
    try:
        for c in checks:
            rc, o = sh(f"./check {c} --skip-lean 2>&1 | grep -E 'VIOLATION|status='", cwd=VERIF)
            if "VIOLATION" in o:
                what = ""
                rp = os.path.join(VERIF, "work", "replays", f"{c}-quick-1.json")
                if os.path.exists(rp):
                    try:
                        what = json.load(open(rp))["what"][:400]
                    except Exception:
                        pass
                alarms[c] = what
                shutil.copy(rp, os.path.join(out, f"alarm-{c}.json")) if os.path.exists(rp) else None
    finally:
        sh("git -C /repo checkout -- .")
    meta["checks_run"] = checks
    meta["alarms"] = alarms
    # remove alarm files of checks that are quiet now
    for f in os.listdir(out):
        m = re.match(r"alarm-(C\d\d)\.json", f)
        if m and m.group(1) not in alarms:
            os.remove(os.path.join(out, f))


def main():
    if sys.argv[1] == "--recheck":
        pat = re.compile(sys.argv[2]) if len(sys.argv) > 2 else None
        root = os.path.join(VERIF, "benign")
        bad = []
        for name in sorted(os.listdir(root)):
            out = os.path.join(root, name)
            mp = os.path.join(out, "meta.json")
            if not os.path.isfile(mp) or (pat and not pat.search(name)):
                continue
            meta = json.load(open(mp))
            run_checks(out, meta, ALL)
            json.dump(meta, open(mp, "w"), indent=1)
            print(f"{name}: alarms={sorted(meta['alarms'])}", flush=True)
            if meta["alarms"]:
                bad.append(name)
        print("ALARMS-ON-HARMLESS-CHANGES:", bad)
        return
    name, patch = sys.argv[1:3]
    notes = None
    checks = ALL
    for a in sys.argv[3:]:
        if a.startswith("--checks="):
            checks = a.split("=", 1)[1].split(",")
        else:
            notes = a
    out = os.path.join(VERIF, "benign", name)
    os.makedirs(out, exist_ok=True)
    if os.path.abspath(patch) != os.path.join(out, "patch.diff"):
        shutil.copy(patch, os.path.join(out, "patch.diff"))
    if notes and os.path.exists(notes):
        shutil.copy(notes, os.path.join(out, "NOTES.md"))
    meta = {"name": name, "kind": "harmless change: every property still holds; no check may raise an alarm"}
    confirm(name, out, meta)
    run_checks(out, meta, checks)
    json.dump(meta, open(os.path.join(out, "meta.json"), "w"), indent=1)
    print(json.dumps({k: meta[k] for k in ("name", "patch_applies", "existing_tests_pass_with_change", "builds_alloc_noalloc", "alarms")}, indent=1))


if __name__ == "__main__":
    main()

#!/usr/bin/env python3
"""tools/seedeval.py <seed-name> <property> <patch.diff> <demo file> [--checks C01,C02,...]

Confirms a seeded change independently (scratch worktree: unedited test suite still passes with the
change; the demonstration fails with it and passes without it), then applies it to /repo, runs the
given checks (default: the property's own check), undoes it, and records everything in
/verif/seeded/<seed-name>/ (patch.diff, demo, meta.json)."""
import json
import os
import shutil
import subprocess
import sys

VERIF = os.path.dirname(os.path.dirname(os.path.abspath(__file__)))
ENV = dict(os.environ, CARGO_NET_OFFLINE="true", RUST_BACKTRACE="0")


def sh(cmd, cwd=None, timeout=3600):
    p = subprocess.run(cmd, shell=True, cwd=cwd, env=ENV, stdout=subprocess.PIPE, stderr=subprocess.STDOUT, timeout=timeout)
    return p.returncode, p.stdout.decode("utf-8", "replace")


def main():
    name, prop, patch, demo = sys.argv[1:5]
    checks = [prop]
    needs = ""
    demo_flags = ""
    for a in sys.argv[5:]:
        if a.startswith("--demo-flags="):
            demo_flags = a.split("=", 1)[1]
        if a.startswith("--checks="):
            checks = a.split("=", 1)[1].split(",")
        if a.startswith("--needs="):
            needs = a.split("=", 1)[1]
    out = os.path.join(VERIF, "seeded", name)
    os.makedirs(out, exist_ok=True)
    if os.path.abspath(patch) != os.path.join(out, "patch.diff"):
        shutil.copy(patch, os.path.join(out, "patch.diff"))
    demo_name = os.path.basename(demo)
    if os.path.abspath(demo) != os.path.join(out, demo_name):
        shutil.copy(demo, os.path.join(out, demo_name))
    meta = {"name": name, "breaks_property": prop, "needs_to_manifest": needs, "demo_cargo_flags": demo_flags, "ran": []}

    wt = "/tmp/wt/verify_" + name
    sh(f"git -C /repo worktree remove --force {wt}")
    rc, o = sh(f"git -C /repo worktree add -q --detach {wt} HEAD")
    try:
        is_sh = demo_name.endswith(".sh")
        def run_demo():
            if is_sh:
                # shell demonstrations take the crate directory as their argument (default: the author's worktree)
                return sh(f"bash {os.path.join(out, demo_name)} {wt}", cwd=wt)
            os.makedirs(os.path.join(wt, "tests"), exist_ok=True)
            shutil.copy(os.path.join(out, demo_name), os.path.join(wt, "tests", "seed_demo.rs"))
            r = sh(f"cargo test --offline {demo_flags} --test seed_demo 2>&1 | tail -15", cwd=wt)
            ok = ("test result: ok" in r[1]) and ("test result: FAILED" not in r[1]) and ("could not compile" not in r[1])
            os.remove(os.path.join(wt, "tests", "seed_demo.rs"))
            return (0 if ok else 1), r[1]
        rc0, o0 = run_demo()
        meta["demo_passes_without_change"] = rc0 == 0
        rc, o = sh(f"git apply {os.path.join(out, 'patch.diff')}", cwd=wt)
        meta["patch_applies"] = rc == 0
        rc, o = sh("cargo test --offline 2>&1 | grep -E '^test result|FAILED|^error' | head -5", cwd=wt)
        meta["existing_tests_with_change"] = o.strip().split("\n")
        meta["existing_tests_pass_with_change"] = ("FAILED" not in o) and ("error" not in o) and ("test result: ok. 59 passed" in o)
        rcs = []
        for feat in ("--no-default-features --features alloc", "--no-default-features"):
            r = sh(f"cargo build --offline --lib {feat} 2>&1 | tail -2", cwd=wt)
            rcs.append("Finished" in r[1])
        meta["builds_alloc_noalloc"] = rcs
        rc1, o1 = run_demo()
        meta["demo_fails_with_change"] = rc1 != 0
        meta["demo_output_with_change"] = o1[-600:]
    finally:
        sh(f"git -C /repo worktree remove --force {wt}")
    # run the checks against /repo with the change applied
    rc, o = sh(f"git -C /repo apply {os.path.join(out, 'patch.diff')}")
    try:
        detected = {}
        for c in checks:
            rc, o = sh(f"./check {c} --skip-lean 2>&1 | grep -E 'VIOLATION|KNOWN|status='", cwd=VERIF)
            detected[c] = "VIOLATION" in o
            meta["ran"].append({"cmd": f"./check {c}", "output": o.strip().split("\n")[-3:]})
            rp = os.path.join(VERIF, "work", "replays", f"{c}-quick-1.json")
            if detected[c] and os.path.exists(rp):
                try:
                    meta.setdefault("first_violation", {})[c] = json.load(open(rp))["what"][:300]
                except Exception:
                    pass
        meta["detected_by"] = [c for c, d in detected.items() if d]
        meta["missed_by"] = [c for c, d in detected.items() if not d]
    finally:
        sh("git -C /repo checkout -- .")
    json.dump(meta, open(os.path.join(out, "meta.json"), "w"), indent=1)
    print(json.dumps({k: meta[k] for k in ("name", "demo_passes_without_change", "existing_tests_pass_with_change",
                                            "demo_fails_with_change", "detected_by", "missed_by")}, indent=1))


if __name__ == "__main__":
    main()

#!/usr/bin/env python3
"""tools/pareval.py [-j N] seeds   <name-regex>          re-run the check of the property each kept seed breaks
   tools/pareval.py [-j N] benign  <name-regex>          re-run all twenty checks on each kept harmless change
   tools/pareval.py [-j N] newseeds <dir-glob> <prefix>  confirm + evaluate fresh seeds: <dir>/out/{A,B}/patch.diff, demo.*, NOTES.md
                                                         of directories named ..._Cxx; kept as seeded/<prefix>-Cxx-{A,B}
   tools/pareval.py [-j N] newbenign <dir-glob> <prefix> the same for harmless changes (<dir>/out/{A,B,C}/patch.diff, NOTES.md)

Development tool.  Unlike seedeval/seedrecheck/benigneval, nothing is applied to /repo: every job gets its own git
worktree of /repo's HEAD with the change applied, its own copy of the harness crate (path dependency rewritten) and
its own scratch directory (VERIF_REPO / VERIF_HARNESS_DIR / VERIF_WORK_DIR), so jobs run side by side.  The checks
run with --skip-lean (the theorems do not depend on /repo); each job's worktree and build output are removed when it
is done."""
import concurrent.futures
import glob
import json
import os
import re
import shutil
import subprocess
import sys

VERIF = os.path.dirname(os.path.dirname(os.path.abspath(__file__)))
ENV = dict(os.environ, CARGO_NET_OFFLINE="true", RUST_BACKTRACE="0")
ROOT = "/tmp/pv"
import threading
GIT = threading.Lock()     # git's own worktree bookkeeping is not safe against concurrent add/remove
ALL = ["C%02d" % i for i in range(1, 21)]


def sh(cmd, cwd=None, env=None, timeout=7200):
    p = subprocess.run(cmd, shell=True, cwd=cwd, env=env or ENV, stdout=subprocess.PIPE, stderr=subprocess.STDOUT, timeout=timeout)
    return p.returncode, p.stdout.decode("utf-8", "replace")


def setup_job(name, patch):
    d = os.path.join(ROOT, name)
    with GIT:
        sh(f"git -C /repo worktree remove --force {d}/repo")
        shutil.rmtree(d, ignore_errors=True)
        os.makedirs(d)
        rc, o = sh(f"git -C /repo worktree add -q --detach {d}/repo HEAD")
    rc, o = sh(f"git apply {patch}", cwd=f"{d}/repo")
    if rc != 0:
        return d, False
    if not os.path.exists(f"{d}/repo/Cargo.lock"):
        shutil.copy("/repo/Cargo.lock", f"{d}/repo/Cargo.lock")      # (not tracked by git)
    os.makedirs(f"{d}/harness")
    shutil.copytree(os.path.join(VERIF, "harness", "src"), f"{d}/harness/src")
    if os.path.isdir(os.path.join(VERIF, "harness", ".cargo")):
        shutil.copytree(os.path.join(VERIF, "harness", ".cargo"), f"{d}/harness/.cargo")
    toml = open(os.path.join(VERIF, "harness", "Cargo.toml")).read().replace('path = "/repo"', f'path = "{d}/repo"')
    open(f"{d}/harness/Cargo.toml", "w").write(toml)
    # start from /verif's own build output: the dependencies (nom, heapless, ...) need not be compiled again, cargo
    # rebuilds the crate under test and the harness because their paths differ
    for sub in ("std", "alloc", "noalloc", "std0"):
        src = os.path.join(VERIF, "harness", "target", sub)
        if os.path.isdir(src):
            sh(f"mkdir -p {d}/harness/target && cp -a --reflink=auto {src} {d}/harness/target/{sub}")
    src = os.path.join(VERIF, "work", "cli-target")
    if os.path.isdir(src):
        sh(f"mkdir -p {d}/work && cp -a --reflink=auto {src} {d}/work/cli-target")
    # the exploration targets (fuzz/), against the changed crate as well
    os.makedirs(f"{d}/fuzz")
    for item in ("src", ".cargo", "Cargo.lock", "seeds_msg", "seeds_lines"):
        sp = os.path.join(VERIF, "fuzz", item)
        if os.path.isdir(sp):
            shutil.copytree(sp, f"{d}/fuzz/{item}")
        elif os.path.exists(sp):
            shutil.copy(sp, f"{d}/fuzz/{item}")
    toml = open(os.path.join(VERIF, "fuzz", "Cargo.toml")).read().replace('path = "/repo"', f'path = "{d}/repo"')
    open(f"{d}/fuzz/Cargo.toml", "w").write(toml)
    src = os.path.join(VERIF, "fuzz", "target", "fz")
    if os.path.isdir(src):
        sh(f"mkdir -p {d}/fuzz/target && cp -a --reflink=auto {src} {d}/fuzz/target/fz")
    return d, True


def teardown_job(d):
    with GIT:
        sh(f"git -C /repo worktree remove --force {d}/repo")
    shutil.rmtree(d, ignore_errors=True)


def run_checks(d, checks):
    env = dict(ENV, VERIF_REPO=f"{d}/repo", VERIF_HARNESS_DIR=f"{d}/harness", VERIF_WORK_DIR=f"{d}/work", VERIF_FUZZ_DIR=f"{d}/fuzz")
    res = {}
    for c in checks:
        rc, o = sh(f"./check {c} --skip-lean 2>&1 | grep -E 'VIOLATION|status='", cwd=VERIF, env=env)
        if "VIOLATION" in o:
            what = "?"
            rp = f"{d}/work/replays/{c}-quick-1.json"
            if os.path.exists(rp):
                try:
                    what = json.load(open(rp))["what"][:400]
                except Exception:
                    pass
            res[c] = (what, rp if os.path.exists(rp) else None)
    return res


def confirm(name, out, demo_name, demo_flags, meta):
    """the unedited suite passes with the change; the demonstration fails with it and passes without it"""
    wt = f"/tmp/wt/verify_{name}"
    with GIT:
        sh(f"git -C /repo worktree remove --force {wt}")
        sh(f"git -C /repo worktree add -q --detach {wt} HEAD")
    try:
        def run_demo():
            if demo_name is None:
                return 0, ""
            if demo_name.endswith(".sh"):
                return sh(f"bash {os.path.join(out, demo_name)} {wt}", cwd=wt)
            os.makedirs(os.path.join(wt, "tests"), exist_ok=True)
            shutil.copy(os.path.join(out, demo_name), os.path.join(wt, "tests", "seed_demo.rs"))
            r = sh(f"cargo test --offline {demo_flags} --test seed_demo 2>&1 | tail -15", cwd=wt)
            ok = ("test result: ok" in r[1]) and ("test result: FAILED" not in r[1]) and ("could not compile" not in r[1])
            os.remove(os.path.join(wt, "tests", "seed_demo.rs"))
            return (0 if ok else 1), r[1]
        if demo_name:
            rc0, o0 = run_demo()
            meta["demo_passes_without_change"] = rc0 == 0
        rc, o = sh(f"git apply {os.path.join(out, 'patch.diff')}", cwd=wt)
        meta["patch_applies"] = rc == 0
        rc, o = sh("cargo test --offline 2>&1 | grep -E '^test result|FAILED|^error' | head -5", cwd=wt)
        meta["existing_tests_with_change"] = o.strip().split("\n")
        m59 = re.search(r"test result: ok\. (\d+) passed", o)
        # (a change may add unit tests of its own; the 59 existing ones are unedited and must pass)
        meta["existing_tests_pass_with_change"] = ("FAILED" not in o) and ("error" not in o) and bool(m59) and int(m59.group(1)) >= 59
        rcs = []
        for feat in ("--no-default-features --features alloc", "--no-default-features"):
            r = sh(f"cargo build --offline --lib {feat} 2>&1 | tail -2", cwd=wt)
            rcs.append("Finished" in r[1])
        meta["builds_alloc_noalloc"] = rcs
        if demo_name:
            rc1, o1 = run_demo()
            meta["demo_fails_with_change"] = rc1 != 0
            meta["demo_output_with_change"] = o1[-600:]
    finally:
        with GIT:
            sh(f"git -C /repo worktree remove --force {wt}")


def job_seed(name, fresh=None):
    out = os.path.join(VERIF, "seeded", name)
    mp = os.path.join(out, "meta.json")
    meta = json.load(open(mp)) if os.path.exists(mp) else {"name": name, "ran": []}
    if fresh:
        meta.update(fresh)
        demo = next((f for f in os.listdir(out) if f.startswith("demo")), None)
        confirm(name, out, demo, meta.get("demo_cargo_flags", ""), meta)
    prop = meta["breaks_property"]
    d, ok = setup_job(name, os.path.join(out, "patch.diff"))
    try:
        res = run_checks(d, [prop]) if ok else {}
        meta["detected_by"] = sorted(res)
        meta["missed_by"] = [prop] if prop not in res else []
        if prop in res:
            meta.setdefault("first_violation", {})[prop] = res[prop][0][:300]
            save_corpus(prop, name, res[prop][1])
        meta["ran"] = [{"cmd": f"./check {prop} (relocated copy, tools/pareval.py)", "output": ["VIOLATION" if prop in res else "no violation"]}]
    finally:
        teardown_job(d)
    if not os.environ.get("VERIF_ONLY_EXPLORE"):
        json.dump(meta, open(mp, "w"), indent=1)
    conf = all(meta.get(k, True) for k in ("demo_passes_without_change", "existing_tests_pass_with_change", "demo_fails_with_change"))
    return f"{name}: {'confirmed' if conf else 'NOT-CONFIRMED'} detected_by={meta['detected_by']} missed_by={meta['missed_by']}"


def save_corpus(prop, seed, rp):
    import ast
    dst = os.path.join(VERIF, "corpus", prop, seed + ".json")
    if not rp or not os.path.exists(rp) or os.path.exists(dst):
        return
    r = json.load(open(rp)).get("replay")
    if isinstance(r, str):
        try:
            r = ast.literal_eval(r)
        except Exception:
            return
    if not isinstance(r, dict) or "ops" not in r or not (0 < len(r["ops"]) <= 700):
        return
    ops = [o.split(" ", 1)[1] if o.startswith("#") else o for o in r["ops"]]
    if any(not o or o[0] not in "UMTNLXSP" for o in ops) or sum(len(o) for o in ops) > 200000:
        return
    os.makedirs(os.path.dirname(dst), exist_ok=True)
    json.dump({"origin": "seed " + seed, "cfg": r.get("cfg") if r.get("cfg") != "std0" else "std", "ops": ops}, open(dst, "w"))


def job_benign(name, fresh=False):
    out = os.path.join(VERIF, "benign", name)
    mp = os.path.join(out, "meta.json")
    meta = json.load(open(mp)) if os.path.exists(mp) else {"name": name, "kind": "harmless change: every property still holds; no check may raise an alarm"}
    if fresh:
        confirm(name, out, None, "", meta)
    d, ok = setup_job(name, os.path.join(out, "patch.diff"))
    try:
        res = run_checks(d, ALL) if ok else {"apply": ("patch does not apply", None)}
        meta["checks_run"] = ALL
        meta["alarms"] = {c: w for c, (w, _) in res.items()}
        for f in os.listdir(out):
            if f.startswith("alarm-"):
                os.remove(os.path.join(out, f))
        for c, (w, rp) in res.items():
            if rp:
                shutil.copy(rp, os.path.join(out, f"alarm-{c}.json"))
    finally:
        teardown_job(d)
    json.dump(meta, open(mp, "w"), indent=1)
    return f"{name}: tests_pass={meta.get('existing_tests_pass_with_change')} alarms={sorted(meta['alarms'])}"


def main():
    args = sys.argv[1:]
    jobs_n = 6
    if args[0] == "-j":
        jobs_n = int(args[1])
        args = args[2:]
    mode = args[0]
    os.makedirs(ROOT, exist_ok=True)
    work = []
    if mode == "seeds":
        pat = re.compile(args[1]) if len(args) > 1 else None
        for name in sorted(os.listdir(os.path.join(VERIF, "seeded"))):
            if os.path.isfile(os.path.join(VERIF, "seeded", name, "meta.json")) and (not pat or pat.search(name)):
                work.append((job_seed, (name,)))
    elif mode == "benign":
        pat = re.compile(args[1]) if len(args) > 1 else None
        for name in sorted(os.listdir(os.path.join(VERIF, "benign"))):
            if os.path.isfile(os.path.join(VERIF, "benign", name, "meta.json")) and (not pat or pat.search(name)):
                work.append((job_benign, (name,)))
    elif mode == "newseeds":
        for src in sorted(glob.glob(args[1])):
            pid = re.search(r"(C\d\d)$", src.rstrip("/")).group(1)
            for x in ("A", "B"):
                sd = os.path.join(src, "out", x)
                if not os.path.exists(os.path.join(sd, "patch.diff")):
                    print("MISSING", sd)
                    continue
                name = f"{args[2]}-{pid}-{x}"
                out = os.path.join(VERIF, "seeded", name)
                os.makedirs(out, exist_ok=True)
                for f in os.listdir(sd):
                    if f in ("patch.diff", "NOTES.md") or f.startswith("demo."):
                        shutil.copy(os.path.join(sd, f), os.path.join(out, f))
                notes = open(os.path.join(sd, "NOTES.md")).read() if os.path.exists(os.path.join(sd, "NOTES.md")) else ""
                m = re.search(r"Trigger:\**\s*(.+?)(?:\n\s*\n|\Z)", notes, flags=re.S)
                needs = re.sub(r"\s+", " ", m.group(1))[:400] if m else ""
                m = re.search(r"Demo flags:\**\s*`?([^`\n]*)", notes)
                flags = ""
                if m and "--no-default-features" in m.group(1):
                    flags = "--no-default-features" + (" --features alloc" if "--features alloc" in m.group(1) and "also" not in m.group(1) else "")
                fresh = {"name": name, "breaks_property": pid, "needs_to_manifest": needs, "demo_cargo_flags": flags,
                         "origin": f"{args[2]}: independent agent given only the property text, a scratch worktree and the list of earlier ideas to avoid"}
                work.append((job_seed, (name, fresh)))
    elif mode == "newbenign":
        for src in sorted(glob.glob(args[1])):
            tag = re.search(r"_(\w+)$", src.rstrip("/")).group(1)
            for x in ("A", "B", "C"):
                sd = os.path.join(src, "out", x)
                if not os.path.exists(os.path.join(sd, "patch.diff")):
                    continue
                name = f"{args[2]}-{tag}-{x}"
                out = os.path.join(VERIF, "benign", name)
                os.makedirs(out, exist_ok=True)
                for f in ("patch.diff", "NOTES.md"):
                    if os.path.exists(os.path.join(sd, f)):
                        shutil.copy(os.path.join(sd, f), os.path.join(out, f))
                work.append((job_benign, (name, True)))
    with concurrent.futures.ThreadPoolExecutor(max_workers=jobs_n) as ex:
        futs = [ex.submit(fn, *a) for fn, a in work]
        for f in concurrent.futures.as_completed(futs):
            try:
                print(f.result(), flush=True)
            except Exception as e:
                print("JOB-ERROR", repr(e), flush=True)
    print("PAREVAL-DONE")


if __name__ == "__main__":
    main()

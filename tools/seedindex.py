#!/usr/bin/env python3
"""Regenerates seeded/INDEX.md from the meta.json files."""
import json, os, glob
V = os.path.dirname(os.path.dirname(os.path.abspath(__file__)))
rows = []
for f in sorted(glob.glob(os.path.join(V, "seeded", "*", "meta.json"))):
    m = json.load(open(f))
    ok = m.get("demo_passes_without_change") and m.get("existing_tests_pass_with_change") and m.get("demo_fails_with_change")
    rows.append((m["name"], m["breaks_property"], "yes" if ok else "NO", ", ".join(m.get("detected_by", [])) or "-",
                 ", ".join(m.get("missed_by", [])) or "-", (m.get("needs_to_manifest") or "").replace("|", "/")[:140],
                 (list(m.get("first_violation", {}).values()) or [""])[0].replace("|", "/").replace("\n", " ")[:160]))
with open(os.path.join(V, "seeded", "INDEX.md"), "w") as o:
    o.write("# Seeded changes\n\nconfirmed = unedited suite passes with the change, demonstration fails with it and passes without it "
            "(checked by tools/seedeval.py in a scratch worktree).\n\n")
    o.write("| seed | property | confirmed | caught by | missed by | needs | first violation reported |\n|---|---|---|---|---|---|---|\n")
    for r in rows:
        o.write("| " + " | ".join(r) + " |\n")
print(len(rows), "seeds")

//! C14 - run with:  cargo test --offline --test seed_demo        (fails in every build)
//! INTERPRETATION-DEPENDENT (see NOTES.md): hinges on whether "payload length"
//! in C14 means the real bit length (6 * characters - fill bits) or 6 * characters.
//!
//! `unarmor` sizes its output as ceil(6 * characters / 8) bytes and only zeroes
//! the fill bits; it never shortens the buffer.  When 6*chars mod 8 is 2 (or 4)
//! and the sentence declares >= 2 (or >= 4) fill bits, the buffer is one whole
//! byte longer than the real payload rounded up to whole bytes.  The decoders
//! measure "bits present" on that buffer, so up to 11 bits that the sentence
//! itself declares NOT to be payload are decoded as fields / counted as elements.
use ais::messages::AisMessage;
use ais::sentence::{AisFragments, AisParser};

/// Type 16, 23 characters with 5 fill bits: 133 payload bits (17 bytes after
/// rounding up).  Header 40 + first assignment 52 = 92 bits; 41 bits follow:
/// the second MMSI (30) and 11 of the 12 bits of its offset.  The 10-bit
/// increment of the second assignment lies ENTIRELY beyond the end of the
/// payload.  A second assignment needs 52 bits; 133 - 92 = 41 (44 after
/// rounding to whole bytes) are present.
/// C14: "assignment one or two stations ... the number of reported elements
/// equals the number of complete elements present ... field values are never
/// fabricated from bits beyond the end."
#[test]
fn type16_second_assignment_fabricated_from_fill_bits() {
    let mut b = Bits::new();
    b.push(16, 6).push(0, 2).push(123456789, 30).push(0, 2); // 40
    b.push(987654321, 30).push(100, 12).push(50, 10); // 92
    b.push(111222333, 30).push(0x7ff, 11); // 133
    assert_eq!(b.len(), 133);
    let (payload, fill) = b.armor();
    assert_eq!((payload.len(), fill), (23, 5));
    let l = line(1, 1, "", &payload, fill);
    let mut parser = AisParser::new();
    match parser.parse(&l, true) {
        Ok(AisFragments::Complete(s)) => match s.message {
            Some(AisMessage::AssignmentModeCommand(a)) => {
                assert_eq!(a.mmsi1, 987654321);
                assert_eq!(
                    (a.mmsi2, a.offset2, a.increment2),
                    (None, None, None),
                    "C14: only 41 of the 52 bits of a second assignment are present; \
                     increment2 would come entirely from beyond the end of the payload"
                );
            }
            other => panic!("{:?}", other),
        },
        other => panic!("{:?}", other),
    }
}

/// Type 7, 11 characters with 2 fill bits: exactly 64 payload bits = 8 whole
/// bytes: the 40-bit header and 24 bits of an acknowledgement (which needs 32).
/// No complete acknowledgement is present, so the mandatory part (header + one
/// acknowledgement = 72 bits) is not contained: C14 demands an error.  The crate
/// decodes a 9-byte buffer and reports one acknowledgement whose MMSI is made
/// of 24 payload bits, the 2 fill bits and 4 padding bits.
#[test]
fn type7_acknowledgement_fabricated_from_fill_bits() {
    let mut b = Bits::new();
    b.push(7, 6).push(0, 2).push(123456789, 30).push(0, 2); // 40
    b.push(0xffffff, 24); // 64
    let (payload, fill) = b.armor();
    assert_eq!((payload.len(), fill), (11, 2));
    let l = line(1, 1, "", &payload, fill);
    let mut parser = AisParser::new();
    let r = parser.parse(&l, true);
    assert!(
        r.is_err(),
        "C14: a 64-bit type 7 payload holds no complete acknowledgement and must be rejected; \
         the crate returned {:?}",
        r
    );
}

// ---------------------------------------------------------------------------
// helpers: build an armored payload from a bit string and wrap it in a VDM line
// ---------------------------------------------------------------------------
#[allow(dead_code)]
struct Bits(Vec<u8>);
#[allow(dead_code)]
impl Bits {
    fn new() -> Self {
        Bits(Vec::new())
    }
    /// append the `n` low bits of `val`, most significant first
    fn push(&mut self, val: u64, n: usize) -> &mut Self {
        for i in (0..n).rev() {
            self.0.push(((val >> i) & 1) as u8);
        }
        self
    }
    fn len(&self) -> usize {
        self.0.len()
    }
    /// (armored characters, number of fill bits needed to reach a 6-bit boundary)
    fn armor(&self) -> (Vec<u8>, u8) {
        let mut b = self.0.clone();
        let fill = (6 - b.len() % 6) % 6;
        for _ in 0..fill {
            b.push(0);
        }
        let mut out = Vec::new();
        for ch in b.chunks(6) {
            let v = ch.iter().fold(0u8, |a, &x| (a << 1) | x);
            out.push(if v < 40 { v + 48 } else { v + 56 });
        }
        (out, fill as u8)
    }
}

/// `!AIVDM,<n>,<k>,<id>,A,<payload>,<fill>*<checksum>`
#[allow(dead_code)]
fn line(nfrag: u32, frag: u32, id: &str, payload: &[u8], fill: u8) -> Vec<u8> {
    let mut body = format!("AIVDM,{},{},{},A,", nfrag, frag, id).into_bytes();
    body.extend_from_slice(payload);
    body.extend_from_slice(format!(",{}", fill).as_bytes());
    let ck = body.iter().fold(0u8, |a, &b| a ^ b);
    let mut v = b"!".to_vec();
    v.extend_from_slice(&body);
    v.extend_from_slice(format!("*{:02X}", ck).as_bytes());
    v
}

/// unfragmented line carrying exactly these bits (fill bits computed)
#[allow(dead_code)]
fn single(bits: &Bits) -> Vec<u8> {
    let (p, f) = bits.armor();
    line(1, 1, "", &p, f)
}

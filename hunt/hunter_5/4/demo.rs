//! C14 - run with:  cargo test --offline --test seed_demo        (fails in every build)
//!
//! Type 15 (interrogation).  M.1371 layout:
//!   0-39 header (type, repeat, source MMSI, 2 spare)
//!   40-69 destination 1 | 70-75 message id 1.1 | 76-87 slot offset 1.1      => 88 bits (minimum)
//!   88-89 spare | 90-95 message id 1.2 | 96-107 slot offset 1.2 | 108-109 spare => 110 bits
//!   110-139 destination 2 | 140-145 message id 2.1 | 146-157 slot offset 2.1 | 158-159 spare => 160 bits
//! A request is (message id, slot offset) = 18 bits.  The mandatory part of the
//! type is 88 bits.
//!
//! The crate makes every slot offset optional (`if remaining_bits >= 12`), so
//!  (a) a payload that ends before the first slot offset - too short for the
//!      mandatory part - is accepted, with the slot offset reported as `None`
//!      ("0 / not given"), i.e. a field value for bits beyond the end;
//!  (b) a bare 6-bit message id without its slot offset is counted as a request.
use ais::messages::interrogation::Interrogation;
use ais::messages::AisMessage;
use ais::sentence::{AisFragments, AisParser};

fn parse_line(l: &[u8]) -> ais::Result<Interrogation> {
    let mut parser = AisParser::new();
    match parser.parse(l, true)? {
        AisFragments::Complete(s) => match s.message {
            Some(AisMessage::Interrogation(i)) => Ok(i),
            other => panic!("{:?}", other),
        },
        other => panic!("{:?}", other),
    }
}

/// (a) 13 payload characters = 78 bits (80 after rounding up to whole bytes):
/// header, destination 1, message id 1.1 - and then the payload ends, 10 bits
/// (8 after rounding) before the end of the mandatory 88 bits.
/// C14: "A payload too short to contain the mandatory part of its type is
/// rejected with an error: field values are never fabricated from bits beyond
/// the end."
#[test]
fn interrogation_shorter_than_88_bits_is_rejected() {
    let mut b = Bits::new();
    b.push(15, 6).push(0, 2).push(123456789, 30).push(0, 2); // 40
    b.push(987654321, 30).push(5, 6); // destination 1, message id 1.1  -> 76 bits
    b.push(0, 2); // two more bits so that the payload is a whole number of characters
    assert_eq!(b.len(), 78);
    let l = single(&b);
    assert_eq!(std::str::from_utf8(&l).unwrap(), "!AIVDM,1,1,,A,?1mg=5CcNJ;4D,0*45");
    let r = parse_line(&l);
    assert!(
        r.is_err(),
        "C14: a 78-bit type 15 payload lacks the mandatory slot offset of its first request and \
         must be rejected; the crate returned {:?}",
        r
    );
}

/// (b) 16 payload characters = 96 bits: the complete 88-bit single-request
/// message, 2 spare bits and a bare message id (6 bits) whose 12-bit slot
/// offset is missing.  One complete request is present.
/// C14: "the number of reported elements equals the number of complete
/// elements present."
#[test]
fn bare_message_id_is_not_a_complete_request() {
    let mut b = Bits::new();
    b.push(15, 6).push(0, 2).push(123456789, 30).push(0, 2); // 40
    b.push(987654321, 30).push(5, 6).push(100, 12); // 88: destination 1, request 1.1
    b.push(0, 2).push(3, 6); // spare, message id 1.2 - and nothing else
    assert_eq!(b.len(), 96);
    let i = parse_line(&single(&b)).expect("the mandatory part is present");
    assert_eq!(i.stations.len(), 1);
    assert_eq!(i.stations[0].mmsi, 987654321);
    assert_eq!(i.stations[0].messages[0].message_type, 5);
    assert_eq!(i.stations[0].messages[0].slot_offset, Some(100));
    assert_eq!(
        i.stations[0].messages.len(),
        1,
        "C14: only one complete (message id, slot offset) request is present; reported: {:?}",
        i.stations[0].messages
    );
}

// ---------------------------------------------------------------------------
// helpers: build an armored payload from a bit string and wrap it in a VDM line
// ---------------------------------------------------------------------------
#[allow(dead_code)]
struct Bits(Vec<u8>);
#[allow(dead_code)]
impl Bits {
    fn new() -> Self {
        Bits(Vec::new())
    }
    /// append the `n` low bits of `val`, most significant first
    fn push(&mut self, val: u64, n: usize) -> &mut Self {
        for i in (0..n).rev() {
            self.0.push(((val >> i) & 1) as u8);
        }
        self
    }
    fn len(&self) -> usize {
        self.0.len()
    }
    /// (armored characters, number of fill bits needed to reach a 6-bit boundary)
    fn armor(&self) -> (Vec<u8>, u8) {
        let mut b = self.0.clone();
        let fill = (6 - b.len() % 6) % 6;
        for _ in 0..fill {
            b.push(0);
        }
        let mut out = Vec::new();
        for ch in b.chunks(6) {
            let v = ch.iter().fold(0u8, |a, &x| (a << 1) | x);
            out.push(if v < 40 { v + 48 } else { v + 56 });
        }
        (out, fill as u8)
    }
}

/// `!AIVDM,<n>,<k>,<id>,A,<payload>,<fill>*<checksum>`
#[allow(dead_code)]
fn line(nfrag: u32, frag: u32, id: &str, payload: &[u8], fill: u8) -> Vec<u8> {
    let mut body = format!("AIVDM,{},{},{},A,", nfrag, frag, id).into_bytes();
    body.extend_from_slice(payload);
    body.extend_from_slice(format!(",{}", fill).as_bytes());
    let ck = body.iter().fold(0u8, |a, &b| a ^ b);
    let mut v = b"!".to_vec();
    v.extend_from_slice(&body);
    v.extend_from_slice(format!("*{:02X}", ck).as_bytes());
    v
}

/// unfragmented line carrying exactly these bits (fill bits computed)
#[allow(dead_code)]
fn single(bits: &Bits) -> Vec<u8> {
    let (p, f) = bits.armor();
    line(1, 1, "", &p, f)
}

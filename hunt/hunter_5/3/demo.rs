//! C16 - run with:  cargo test --offline --test seed_demo        (fails in every build)
//!
//! SOTDMA sub-message for slot time-out 1 ("UTC hour and minute").
//! ITU-R M.1371 (Table "SOTDMA communication state", sub message):
//!   "Hour (0-23) should be coded in bits 13 to 9 of the sub message (bit 13 is
//!    MSB). Minute (0-59) should be coded in bit 8 to 2 (bit 8 is MSB). Bit 1 and
//!    bit 0 are not used."
//! i.e. 5 bits of hour, SEVEN bits of minute, 2 unused bits.
//! The crate reads 5 bits of hour, skips one bit, reads SIX bits of minute and
//! skips two bits: the most significant bit of the minute field (bit 8) is dropped.
use ais::messages::radio_status::{RadioStatus, SubMessage, SyncState};
use ais::messages::AisMessage;
use ais::sentence::{AisFragments, AisParser};

fn position_report_with_submessage(msg_type: u64, sub_message_14_bits: u64) -> Vec<u8> {
    let mut b = Bits::new();
    b.push(msg_type, 6).push(0, 2).push(123456789, 30);
    while b.len() < 149 {
        b.push(0, 1);
    }
    // communication state = last 19 bits: sync state 0, slot time-out 1, sub message
    b.push(0, 2).push(1, 3).push(sub_message_14_bits, 14);
    assert_eq!(b.len(), 168);
    single(&b)
}

fn sub_message_of(l: &[u8]) -> (SyncState, u8, SubMessage) {
    let mut parser = AisParser::new();
    match parser.parse(l, true).unwrap() {
        AisFragments::Complete(s) => match s.message {
            Some(AisMessage::PositionReport(p)) => match p.radio_status {
                RadioStatus::Sotdma(m) => (m.sync_state, m.slot_timeout, m.sub_message),
                other => panic!("{:?}", other),
            },
            other => panic!("{:?}", other),
        },
        other => panic!("{:?}", other),
    }
}

/// Control: for a minute whose bit 8 is clear both layouts coincide.
#[test]
fn in_range_minute() {
    // hour 10 in bits 13..9, minute 37 in bits 8..2, bits 1..0 unused
    let sub = (10 << 9) | (37 << 2);
    let (_, timeout, sm) = sub_message_of(&position_report_with_submessage(1, sub));
    assert_eq!(timeout, 1);
    assert_eq!(sm, SubMessage::UtcHourAndMinute(10, 37));
}

/// The minute field is 7 bits wide (bits 8..2).  With bit 8 set - here the field
/// holds 69 = 0b1000101 - M.1371 defines the minute value as 69 (out of the
/// 0-59 range, i.e. recognisably invalid).  The crate reports the perfectly
/// plausible minute 5, i.e. a value M.1371 does not define for these bits.
#[test]
fn minute_field_is_seven_bits_wide() {
    let sub = (10 << 9) | (69 << 2);
    let (sync, timeout, sm) = sub_message_of(&position_report_with_submessage(1, sub));
    assert_eq!(sync, SyncState::UtcDirect);
    assert_eq!(timeout, 1);
    assert_eq!(
        sm,
        SubMessage::UtcHourAndMinute(10, 69),
        "C16: M.1371 codes the minute in bits 8..2 of the sub message (7 bits)"
    );
}

// ---------------------------------------------------------------------------
// helpers: build an armored payload from a bit string and wrap it in a VDM line
// ---------------------------------------------------------------------------
#[allow(dead_code)]
struct Bits(Vec<u8>);
#[allow(dead_code)]
impl Bits {
    fn new() -> Self {
        Bits(Vec::new())
    }
    /// append the `n` low bits of `val`, most significant first
    fn push(&mut self, val: u64, n: usize) -> &mut Self {
        for i in (0..n).rev() {
            self.0.push(((val >> i) & 1) as u8);
        }
        self
    }
    fn len(&self) -> usize {
        self.0.len()
    }
    /// (armored characters, number of fill bits needed to reach a 6-bit boundary)
    fn armor(&self) -> (Vec<u8>, u8) {
        let mut b = self.0.clone();
        let fill = (6 - b.len() % 6) % 6;
        for _ in 0..fill {
            b.push(0);
        }
        let mut out = Vec::new();
        for ch in b.chunks(6) {
            let v = ch.iter().fold(0u8, |a, &x| (a << 1) | x);
            out.push(if v < 40 { v + 48 } else { v + 56 });
        }
        (out, fill as u8)
    }
}

/// `!AIVDM,<n>,<k>,<id>,A,<payload>,<fill>*<checksum>`
#[allow(dead_code)]
fn line(nfrag: u32, frag: u32, id: &str, payload: &[u8], fill: u8) -> Vec<u8> {
    let mut body = format!("AIVDM,{},{},{},A,", nfrag, frag, id).into_bytes();
    body.extend_from_slice(payload);
    body.extend_from_slice(format!(",{}", fill).as_bytes());
    let ck = body.iter().fold(0u8, |a, &b| a ^ b);
    let mut v = b"!".to_vec();
    v.extend_from_slice(&body);
    v.extend_from_slice(format!("*{:02X}", ck).as_bytes());
    v
}

/// unfragmented line carrying exactly these bits (fill bits computed)
#[allow(dead_code)]
fn single(bits: &Bits) -> Vec<u8> {
    let (p, f) = bits.armor();
    line(1, 1, "", &p, f)
}

//! C18 - run with:  cargo test --offline --test seed_demo --no-default-features
//!
//! After the no-allocator build has rejected a line for exceeding its 384-byte
//! capacity, its private reassembly state differs from the state of the std /
//! alloc builds (which accepted that line).  LATER lines - which do not exceed
//! any capacity themselves - are then treated differently:
//!   * history A: the heapless build ACCEPTS a line that std and alloc REJECT;
//!   * history B: the heapless build returns a Complete sentence whose payload
//!     is silently a different (shorter, stitched-together) one.
//! Both tests pass with default features and with `--features alloc`.
use ais::sentence::{AisFragments, AisParser};

fn outcome(r: &ais::Result<AisFragments>) -> String {
    match r {
        Ok(AisFragments::Complete(s)) => format!("Complete({} payload bytes)", s.data.len()),
        Ok(AisFragments::Incomplete(s)) => format!("Incomplete({} payload bytes)", s.data.len()),
        Err(e) => format!("Err({:?})", e),
    }
}

/// History A
///   1. fragment 1/2, id 3, 380 payload characters   -> every build: Incomplete
///   2. fragment 2/2, id 3,  10 payload characters   -> std/alloc: Complete (390);
///                                                     heapless: Err (390 > 384: permitted)
///   3. fragment 2/2, id 3,   4 payload characters   -> std/alloc: Err (the group was delivered,
///                                                     nothing may continue it)
/// C18: the builds agree on acceptance for every line and history, except that
/// the heapless build may reject what exceeds its capacities.  Line 3 is four
/// characters long; 380 + 4 = 384 does not exceed anything.  So line 3 must be
/// rejected by the heapless build too.  It is accepted.
#[test]
fn history_a_line_after_a_capacity_rejection_is_judged_like_std() {
    let mut parser = AisParser::new();
    let l1 = line(2, 1, "3", &vec![b'5'; 380], 0);
    let l2 = line(2, 2, "3", &vec![b'0'; 10], 0);
    let l3 = line(2, 2, "3", &vec![b'0'; 4], 0);

    let r1 = parser.parse(&l1, false);
    assert!(matches!(r1, Ok(AisFragments::Incomplete(_))), "line 1: {}", outcome(&r1));

    let r2 = parser.parse(&l2, false);
    // std/alloc: Complete(390); heapless may reject (capacity) - both allowed by C18
    match &r2 {
        Ok(AisFragments::Complete(s)) => assert_eq!(s.data.len(), 390),
        Err(_) => {}
        other => panic!("line 2: {}", outcome(other)),
    }

    let r3 = parser.parse(&l3, false);
    assert!(
        r3.is_err(),
        "C18: std and alloc builds reject line 3 (fragment 2/2 arriving after its group was \
         closed); this build returned {}",
        outcome(&r3)
    );
}

/// History B
///   1. fragment 1/2, id 1,  10 payload characters   -> every build: Incomplete
///   2. fragment 1/2, id 1, 400 payload characters   -> std/alloc: Incomplete (restarts the group);
///                                                     heapless: Err (400 > 384: permitted)
///   3. fragment 2/2, id 1,  18 payload characters   -> std/alloc: Complete, 418 payload bytes
/// C18 leaves the heapless build two options for line 3: the same sentence
/// (impossible, 418 > 384) or an error.  It returns neither: it silently
/// completes the group with the 10 characters of line 1 + the 18 of line 3 -
/// a 28 character payload that no other build ever reports ("never silently
/// truncates").
#[test]
fn history_b_no_silently_different_payload() {
    let mut parser = AisParser::new();
    let l1 = line(2, 1, "1", &vec![b'1'; 10], 0);
    let l2 = line(2, 1, "1", &vec![b'1'; 400], 0);
    let l3 = line(2, 2, "1", &vec![b'0'; 18], 0);

    let r1 = parser.parse(&l1, false);
    assert!(matches!(r1, Ok(AisFragments::Incomplete(_))), "line 1: {}", outcome(&r1));
    let r2 = parser.parse(&l2, false);
    match &r2 {
        Ok(AisFragments::Incomplete(s)) => assert_eq!(s.data.len(), 400),
        Err(_) => {}
        other => panic!("line 2: {}", outcome(other)),
    }
    let r3 = parser.parse(&l3, false);
    match &r3 {
        Ok(AisFragments::Complete(s)) => assert_eq!(
            s.data.len(),
            418,
            "C18: std and alloc builds deliver the 400 + 18 = 418 character payload; a build \
             that cannot hold it must reject with an error, not deliver a different payload"
        ),
        Err(_) => {} // permitted for the heapless build
        other => panic!("line 3: {}", outcome(other)),
    }
}

// ---------------------------------------------------------------------------
// helpers: build an armored payload from a bit string and wrap it in a VDM line
// ---------------------------------------------------------------------------
#[allow(dead_code)]
struct Bits(Vec<u8>);
#[allow(dead_code)]
impl Bits {
    fn new() -> Self {
        Bits(Vec::new())
    }
    /// append the `n` low bits of `val`, most significant first
    fn push(&mut self, val: u64, n: usize) -> &mut Self {
        for i in (0..n).rev() {
            self.0.push(((val >> i) & 1) as u8);
        }
        self
    }
    fn len(&self) -> usize {
        self.0.len()
    }
    /// (armored characters, number of fill bits needed to reach a 6-bit boundary)
    fn armor(&self) -> (Vec<u8>, u8) {
        let mut b = self.0.clone();
        let fill = (6 - b.len() % 6) % 6;
        for _ in 0..fill {
            b.push(0);
        }
        let mut out = Vec::new();
        for ch in b.chunks(6) {
            let v = ch.iter().fold(0u8, |a, &x| (a << 1) | x);
            out.push(if v < 40 { v + 48 } else { v + 56 });
        }
        (out, fill as u8)
    }
}

/// `!AIVDM,<n>,<k>,<id>,A,<payload>,<fill>*<checksum>`
#[allow(dead_code)]
fn line(nfrag: u32, frag: u32, id: &str, payload: &[u8], fill: u8) -> Vec<u8> {
    let mut body = format!("AIVDM,{},{},{},A,", nfrag, frag, id).into_bytes();
    body.extend_from_slice(payload);
    body.extend_from_slice(format!(",{}", fill).as_bytes());
    let ck = body.iter().fold(0u8, |a, &b| a ^ b);
    let mut v = b"!".to_vec();
    v.extend_from_slice(&body);
    v.extend_from_slice(format!("*{:02X}", ck).as_bytes());
    v
}

/// unfragmented line carrying exactly these bits (fill bits computed)
#[allow(dead_code)]
fn single(bits: &Bits) -> Vec<u8> {
    let (p, f) = bits.armor();
    line(1, 1, "", &p, f)
}

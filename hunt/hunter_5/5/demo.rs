//! C14 - run with:  cargo test --offline --test seed_demo        (fails in every build)
//!
//! Type 15 (interrogation) with one complete station carrying two complete
//! requests (110 bits) followed by the BEGINNING of a second station (30-bit
//! MMSI present, its request missing): 24 payload characters = 144 bits.
//!
//! C14 says variable-length messages "are decoded according to the bits actually
//! present ...; the number of reported elements equals the number of complete
//! elements present", and only "a payload too short to contain the mandatory
//! part of its type is rejected".  This payload contains the mandatory part
//! (88 bits) and more; the complete elements present are: 1 station, 2 requests.
//! That is how the crate itself treats every other list type (a trailing
//! partial acknowledgement in types 7/13, a partial reservation in type 20, a
//! partial second assignment in type 16 are dropped and the complete elements
//! are reported).  For type 15, however, every length from 133 to 144 bits is
//! REJECTED: once >= 30 bits follow the first station the second station is
//! parsed unconditionally and its missing message id raises Eof for the whole
//! message.
use ais::messages::AisMessage;
use ais::sentence::{AisFragments, AisParser};

#[test]
fn incomplete_second_station_is_dropped_not_fatal() {
    let mut b = Bits::new();
    b.push(15, 6).push(0, 2).push(123456789, 30).push(0, 2); // 40
    b.push(987654321, 30).push(5, 6).push(100, 12); // 88: destination 1, request 1.1
    b.push(0, 2).push(3, 6).push(200, 12).push(0, 2); // 110: request 1.2
    b.push(111222333, 30); // 140: destination 2
    b.push(0, 4); // 144: up to the character boundary; message id 2.1 is incomplete
    assert_eq!(b.len(), 144);
    let l = single(&b);
    let mut parser = AisParser::new();
    let r = parser.parse(&l, true);
    let s = match r {
        Ok(AisFragments::Complete(s)) => s,
        other => panic!(
            "C14: the payload holds one complete station with two complete requests and must be \
             decoded as such; the crate returned {:?}",
            other
        ),
    };
    match s.message {
        Some(AisMessage::Interrogation(i)) => {
            assert_eq!(i.stations.len(), 1);
            assert_eq!(i.stations[0].mmsi, 987654321);
            assert_eq!(i.stations[0].messages.len(), 2);
        }
        other => panic!("{:?}", other),
    }
}

/// Control: the crate's own treatment of the analogous situation in type 16
/// (one complete assignment + the 30-bit MMSI of a second one, 23 characters with
/// fill such that fewer than 52 bits follow): decoded, second assignment dropped.
#[test]
fn type_16_drops_an_incomplete_second_assignment() {
    let mut b = Bits::new();
    b.push(16, 6).push(0, 2).push(123456789, 30).push(0, 2); // 40
    b.push(987654321, 30).push(100, 12).push(50, 10); // 92
    b.push(111222333, 30); // 122: MMSI of a second assignment, nothing else
    b.push(0, 4); // 126 bits = 21 characters
    let mut parser = AisParser::new();
    match parser.parse(&single(&b), true) {
        Ok(AisFragments::Complete(s)) => match s.message {
            Some(AisMessage::AssignmentModeCommand(a)) => {
                assert_eq!(a.mmsi1, 987654321);
                assert_eq!(a.mmsi2, None);
            }
            other => panic!("{:?}", other),
        },
        other => panic!("{:?}", other),
    }
}

// ---------------------------------------------------------------------------
// helpers: build an armored payload from a bit string and wrap it in a VDM line
// ---------------------------------------------------------------------------
#[allow(dead_code)]
struct Bits(Vec<u8>);
#[allow(dead_code)]
impl Bits {
    fn new() -> Self {
        Bits(Vec::new())
    }
    /// append the `n` low bits of `val`, most significant first
    fn push(&mut self, val: u64, n: usize) -> &mut Self {
        for i in (0..n).rev() {
            self.0.push(((val >> i) & 1) as u8);
        }
        self
    }
    fn len(&self) -> usize {
        self.0.len()
    }
    /// (armored characters, number of fill bits needed to reach a 6-bit boundary)
    fn armor(&self) -> (Vec<u8>, u8) {
        let mut b = self.0.clone();
        let fill = (6 - b.len() % 6) % 6;
        for _ in 0..fill {
            b.push(0);
        }
        let mut out = Vec::new();
        for ch in b.chunks(6) {
            let v = ch.iter().fold(0u8, |a, &x| (a << 1) | x);
            out.push(if v < 40 { v + 48 } else { v + 56 });
        }
        (out, fill as u8)
    }
}

/// `!AIVDM,<n>,<k>,<id>,A,<payload>,<fill>*<checksum>`
#[allow(dead_code)]
fn line(nfrag: u32, frag: u32, id: &str, payload: &[u8], fill: u8) -> Vec<u8> {
    let mut body = format!("AIVDM,{},{},{},A,", nfrag, frag, id).into_bytes();
    body.extend_from_slice(payload);
    body.extend_from_slice(format!(",{}", fill).as_bytes());
    let ck = body.iter().fold(0u8, |a, &b| a ^ b);
    let mut v = b"!".to_vec();
    v.extend_from_slice(&body);
    v.extend_from_slice(format!("*{:02X}", ck).as_bytes());
    v
}

/// unfragmented line carrying exactly these bits (fill bits computed)
#[allow(dead_code)]
fn single(bits: &Bits) -> Vec<u8> {
    let (p, f) = bits.armor();
    line(1, 1, "", &p, f)
}

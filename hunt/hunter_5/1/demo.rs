//! C18 - run with:  cargo test --offline --test seed_demo --no-default-features
//!
//! A type-14 (safety related broadcast) message whose text is EXACTLY 20
//! characters long is decoded by the std and alloc builds but rejected by the
//! no-allocator build, although 20 characters do not exceed its stated capacity
//! of "20 characters of text".
//!
//! (With the default features or `--no-default-features --features alloc` this
//! test passes; it fails only in the heapless configuration - which is exactly
//! the observational difference C18 forbids.)
use ais::messages::AisMessage;
use ais::sentence::{AisFragments, AisParser};

const TEXT: &str = "ABCDEFGHIJKLMNOPQRST"; // 20 characters

#[test]
fn twenty_character_safety_broadcast_is_accepted_by_every_build() {
    // 6 type + 2 repeat + 30 mmsi + 2 spare + 20 * 6 text = 160 bits
    let mut b = Bits::new();
    b.push(14, 6).push(0, 2).push(123456789, 30).push(0, 2);
    for c in TEXT.bytes() {
        b.push((c - 64) as u64, 6); // 'A'..'Z' -> 1..26 in the 6-bit alphabet
    }
    assert_eq!(b.len(), 160);
    let l = single(&b);
    // the canonical armoring of 160 bits: 27 characters and 2 fill bits
    assert_eq!(
        std::str::from_utf8(&l).unwrap(),
        "!AIVDM,1,1,,A,>1mg=5@48<@DHLPT`dhlpu159=@,2*18"
    );

    let mut parser = AisParser::new();
    let result = parser.parse(&l, true);
    // What the std / alloc builds return (and what C18 therefore demands of the
    // no-allocator build, since a 20 character text does not exceed 20 characters):
    let sentence = match result {
        Ok(AisFragments::Complete(s)) => s,
        other => panic!(
            "C18: std and alloc builds accept this line and report the text {:?}; \
             this build returned {:?}",
            TEXT, other
        ),
    };
    match sentence.message {
        Some(AisMessage::SafetyRelatedBroadcastMessage(m)) => {
            assert_eq!(m.mmsi, 123456789);
            assert_eq!(m.text.as_str(), TEXT);
            assert_eq!(m.text.len(), 20);
        }
        other => panic!("unexpected message {:?}", other),
    }
}

/// Control: the same message with 19 characters is accepted everywhere, so the
/// rejection above is not about the message shape.
#[test]
fn nineteen_characters_are_fine() {
    let mut b = Bits::new();
    b.push(14, 6).push(0, 2).push(123456789, 30).push(0, 2);
    for c in TEXT[..19].bytes() {
        b.push((c - 64) as u64, 6);
    }
    let mut parser = AisParser::new();
    match parser.parse(&single(&b), true) {
        Ok(AisFragments::Complete(s)) => match s.message {
            Some(AisMessage::SafetyRelatedBroadcastMessage(m)) => {
                assert_eq!(m.text.as_str(), &TEXT[..19])
            }
            other => panic!("unexpected message {:?}", other),
        },
        other => panic!("unexpected {:?}", other),
    }
}

// ---------------------------------------------------------------------------
// helpers: build an armored payload from a bit string and wrap it in a VDM line
// ---------------------------------------------------------------------------
#[allow(dead_code)]
struct Bits(Vec<u8>);
#[allow(dead_code)]
impl Bits {
    fn new() -> Self {
        Bits(Vec::new())
    }
    /// append the `n` low bits of `val`, most significant first
    fn push(&mut self, val: u64, n: usize) -> &mut Self {
        for i in (0..n).rev() {
            self.0.push(((val >> i) & 1) as u8);
        }
        self
    }
    fn len(&self) -> usize {
        self.0.len()
    }
    /// (armored characters, number of fill bits needed to reach a 6-bit boundary)
    fn armor(&self) -> (Vec<u8>, u8) {
        let mut b = self.0.clone();
        let fill = (6 - b.len() % 6) % 6;
        for _ in 0..fill {
            b.push(0);
        }
        let mut out = Vec::new();
        for ch in b.chunks(6) {
            let v = ch.iter().fold(0u8, |a, &x| (a << 1) | x);
            out.push(if v < 40 { v + 48 } else { v + 56 });
        }
        (out, fill as u8)
    }
}

/// `!AIVDM,<n>,<k>,<id>,A,<payload>,<fill>*<checksum>`
#[allow(dead_code)]
fn line(nfrag: u32, frag: u32, id: &str, payload: &[u8], fill: u8) -> Vec<u8> {
    let mut body = format!("AIVDM,{},{},{},A,", nfrag, frag, id).into_bytes();
    body.extend_from_slice(payload);
    body.extend_from_slice(format!(",{}", fill).as_bytes());
    let ck = body.iter().fold(0u8, |a, &b| a ^ b);
    let mut v = b"!".to_vec();
    v.extend_from_slice(&body);
    v.extend_from_slice(format!("*{:02X}", ck).as_bytes());
    v
}

/// unfragmented line carrying exactly these bits (fill bits computed)
#[allow(dead_code)]
fn single(bits: &Bits) -> Vec<u8> {
    let (p, f) = bits.armor();
    line(1, 1, "", &p, f)
}

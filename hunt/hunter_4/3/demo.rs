//! C13, heapless build only - a perfectly regular type-14 safety broadcast whose text
//! is exactly 20 characters (the capacity of the heapless text type) cannot be decoded:
//! the crate counts its own byte padding as a 21st character and fails the whole
//! message with `ErrorKind::TooLarge`.
//!
//! Run: cargo test --offline --no-default-features --test seed_demo
//! (With default features or `--no-default-features --features alloc` this file passes.)
use ais::messages::AisMessage;
use ais::{AisFragments, AisParser};

// ---------------------------------------------------------------------------
// Tiny test-side encoder: builds the message bit by bit, armours it the way
// ITU-R M.1371 / NMEA 0183 prescribe and wraps it into a checksummed sentence.
// ---------------------------------------------------------------------------
struct Bits(Vec<u8>);
impl Bits {
    fn new() -> Self {
        Bits(Vec::new())
    }
    /// append the `n` low bits of `v`, most significant first
    fn put(&mut self, v: u64, n: usize) -> &mut Self {
        for i in (0..n).rev() {
            self.0.push(((v >> i) & 1) as u8);
        }
        self
    }
    /// append 6-bit characters given as ASCII ('@'..'_' -> 0..31, ' '..'?' -> 32..63)
    fn text(&mut self, s: &str) -> &mut Self {
        for c in s.bytes() {
            assert!((32..96).contains(&c));
            self.put(if c >= 64 { c - 64 } else { c } as u64, 6);
        }
        self
    }
    /// Armour. Returns the payload and the number of fill bits that were needed
    /// to reach a 6-bit boundary (they are emitted as zeros).
    fn armor(&self) -> (String, usize) {
        let mut b = self.0.clone();
        let fill = (6 - b.len() % 6) % 6;
        b.resize(b.len() + fill, 0);
        let s = b
            .chunks(6)
            .map(|ch| {
                let v = ch.iter().fold(0u8, |a, &x| (a << 1) | x);
                (if v < 40 { v + 48 } else { v + 56 }) as char
            })
            .collect();
        (s, fill)
    }
}

fn sentence(payload: &str, fill: usize) -> Vec<u8> {
    let body = format!("AIVDM,1,1,,A,{},{}", payload, fill);
    let ck = body.bytes().fold(0u8, |a, b| a ^ b);
    format!("!{}*{:02X}", body, ck).into_bytes()
}

fn decode(payload: &str, fill: usize) -> Result<AisMessage, ais::errors::Error> {
    let mut p = AisParser::new();
    match p.parse(&sentence(payload, fill), true)? {
        AisFragments::Complete(s) => Ok(s.message.expect("decode=true must yield a message")),
        AisFragments::Incomplete(_) => panic!("single-fragment sentence reported incomplete"),
    }
}

const TEXT: &str = "TWENTY CHARS EXACTLY";

/// Control: the addressed form (type 12, text at bit 72) with the same 20 characters
/// decodes in every configuration, so 20 characters do fit the text type.
#[test]
fn type12_with_20_characters_decodes() {
    assert_eq!(TEXT.len(), 20);
    let mut b = Bits::new();
    b.put(12, 6).put(0, 2).put(123456789, 30).put(0, 2).put(987654321, 30).put(0, 1).put(0, 1);
    b.text(TEXT);
    let (payload, fill) = b.armor();
    assert_eq!((payload.len(), fill), (32, 0));
    match decode(&payload, fill) {
        Ok(AisMessage::AddressedSafetyRelatedMessage(m)) => assert_eq!(m.text.as_str(), TEXT),
        other => panic!("unexpected: {:?}", other),
    }
}

/// 40 header bits + 20 characters = 160 bits = 27 payload characters with 2 fill bits -
/// exactly what a transmitter sends.  Text bit range 40..160 = 20 characters.
#[test]
fn type14_with_20_characters_decodes() {
    let mut b = Bits::new();
    b.put(14, 6).put(0, 2).put(123456789, 30).put(0, 2);
    b.text(TEXT);
    let (payload, fill) = b.armor();
    assert_eq!((payload.len(), fill), (27, 2));
    match decode(&payload, fill) {
        Ok(AisMessage::SafetyRelatedBroadcastMessage(m)) => {
            assert_eq!(m.text.as_str(), TEXT, "text must be the decoding of bits 40..160")
        }
        other => panic!(
            "a 20-character safety text must decode to its 20 characters, got {:?}",
            other
        ),
    }
}

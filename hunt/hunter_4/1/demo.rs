//! C13 - safety-message text (types 14 and 12): the crate decodes a character
//! out of bits that lie beyond the end of the payload (byte-alignment padding of
//! its own unarmoured buffer, and declared NMEA fill bits), so the reported text
//! is NOT the character-by-character decoding of the field's bit range.
//!
//! Run: cargo test --offline --test seed_demo          (default features; the
//! same failures appear with `--no-default-features --features alloc` and with
//! `--no-default-features`).
use ais::messages::AisMessage;
use ais::{AisFragments, AisParser};

// ---------------------------------------------------------------------------
// Tiny test-side encoder: builds the message bit by bit, armours it the way
// ITU-R M.1371 / NMEA 0183 prescribe and wraps it into a checksummed sentence.
// ---------------------------------------------------------------------------
struct Bits(Vec<u8>);
impl Bits {
    fn new() -> Self {
        Bits(Vec::new())
    }
    /// append the `n` low bits of `v`, most significant first
    fn put(&mut self, v: u64, n: usize) -> &mut Self {
        for i in (0..n).rev() {
            self.0.push(((v >> i) & 1) as u8);
        }
        self
    }
    /// append 6-bit characters given as ASCII ('@'..'_' -> 0..31, ' '..'?' -> 32..63)
    fn text(&mut self, s: &str) -> &mut Self {
        for c in s.bytes() {
            assert!((32..96).contains(&c));
            self.put(if c >= 64 { c - 64 } else { c } as u64, 6);
        }
        self
    }
    /// Armour. Returns the payload and the number of fill bits that were needed
    /// to reach a 6-bit boundary (they are emitted as zeros).
    fn armor(&self) -> (String, usize) {
        let mut b = self.0.clone();
        let fill = (6 - b.len() % 6) % 6;
        b.resize(b.len() + fill, 0);
        let s = b
            .chunks(6)
            .map(|ch| {
                let v = ch.iter().fold(0u8, |a, &x| (a << 1) | x);
                (if v < 40 { v + 48 } else { v + 56 }) as char
            })
            .collect();
        (s, fill)
    }
}

fn sentence(payload: &str, fill: usize) -> Vec<u8> {
    let body = format!("AIVDM,1,1,,A,{},{}", payload, fill);
    let ck = body.bytes().fold(0u8, |a, b| a ^ b);
    format!("!{}*{:02X}", body, ck).into_bytes()
}

fn decode(payload: &str, fill: usize) -> Result<AisMessage, ais::errors::Error> {
    let mut p = AisParser::new();
    match p.parse(&sentence(payload, fill), true)? {
        AisFragments::Complete(s) => Ok(s.message.expect("decode=true must yield a message")),
        AisFragments::Incomplete(_) => panic!("single-fragment sentence reported incomplete"),
    }
}

fn type14(text: &str, leftover_bits: &[u8], fill: usize) -> String {
    let mut b = Bits::new();
    b.put(14, 6).put(0, 2).put(123456789, 30).put(0, 2); // 40 header bits
    b.text(text);
    for &x in leftover_bits {
        b.put(x as u64, 1);
    }
    // declared fill bits are transmitted as zeros
    b.put(0, fill);
    assert_eq!(b.0.len() % 6, 0, "test construction: payload must be whole characters");
    let (payload, f) = b.armor();
    assert_eq!(f, 0);
    match decode(&payload, fill) {
        Ok(AisMessage::SafetyRelatedBroadcastMessage(m)) => m.text.as_str().to_string(),
        other => panic!("unexpected: {:?}", other),
    }
}

/// Payload of 10 characters = 60 bits, fill bits 0.  The text field starts at bit 40,
/// so its bit range is 40..60: three complete 6-bit characters ("ABC") and two
/// left-over bits (0,1) which cannot form a character.
#[test]
fn type14_leftover_bits_must_not_become_a_character() {
    let got = type14("ABC", &[0, 1], 0);
    // field's character count = floor(20 / 6) = 3
    assert!(got.len() <= 3, "text {:?} is longer than the 3 characters the 20-bit field can hold", got);
    assert_eq!(got, "ABC", "text must be the char-by-char decoding of bits 40..60");
}

/// Same layout, text "AB@" (the '@' is padding that C13 says must be stripped) and
/// left-over bits (1,0).  The crate glues the two left-over bits to four bits of its own
/// byte padding, obtains 100000 = ' ', and this phantom space then shields the
/// '@' padding from `trim_end_matches('@')`.
#[test]
fn type14_phantom_space_defeats_padding_removal() {
    let got = type14("AB@", &[1, 0], 0);
    assert_eq!(got, "AB", "trailing '@' padding must be stripped");
}

/// The same thing happens when the sentence *declares* the trailing bit as a fill bit:
/// 59 message bits (40 header + "AB@" + one left-over bit '1') + 1 fill bit.
/// Text bit range is 40..59 = 3 complete characters.
#[test]
fn type14_declared_fill_bit_is_used_as_character_data() {
    let got = type14("AB@", &[1], 1);
    assert_eq!(got, "AB", "fill bits are not message data and must not take part in a character");
}

/// Type 12: text starts at bit 72.  16 payload characters = 96 bits, 4 of them declared
/// as fill bits -> 92 message bits -> text range 72..92 = "ABC" + two left-over bits (0,1).
#[test]
fn type12_character_made_from_fill_bits() {
    let mut b = Bits::new();
    b.put(12, 6).put(0, 2).put(123456789, 30).put(0, 2).put(987654321, 30).put(0, 1).put(0, 1);
    b.text("ABC").put(0b01, 2).put(0, 4);
    let (payload, f) = b.armor();
    assert_eq!((payload.len(), f), (16, 0));
    let got = match decode(&payload, 4) {
        Ok(AisMessage::AddressedSafetyRelatedMessage(m)) => m.text.as_str().to_string(),
        other => panic!("unexpected: {:?}", other),
    };
    assert_eq!(got, "ABC");
}

//! C10 - "reported in degrees as raw/600000 respectively raw/600, correct to
//! single-precision rounding".
//!
//! * types 1-4, 9, 11, 18, 19, 21 compute `(raw as f32) / 600000.0`: for |raw| >= 2^24
//!   the i32 -> f32 conversion already rounds, then the division rounds again.  The
//!   result is frequently not the f32 nearest to raw/600000 (22 % of all 28-bit values)
//!   and for 3.4 million 28-bit values it is not even one of the two f32 values that
//!   bracket the exact quotient.
//! * type 27 computes `(raw as f32) / 600000.0 * 1000.0` instead of raw/600: two
//!   roundings; a quarter of all 18-bit values come out 1 ulp off, and the same raw value
//!   decodes to a different number of degrees in a type-17 and in a type-27 message.
//!
//! Run: cargo test --offline --test seed_demo     (any feature configuration)
use ais::messages::AisMessage;
use ais::{AisFragments, AisParser};

// ---------------------------------------------------------------------------
// Tiny test-side encoder: builds the message bit by bit, armours it the way
// ITU-R M.1371 / NMEA 0183 prescribe and wraps it into a checksummed sentence.
// ---------------------------------------------------------------------------
struct Bits(Vec<u8>);
impl Bits {
    fn new() -> Self {
        Bits(Vec::new())
    }
    /// append the `n` low bits of `v`, most significant first
    fn put(&mut self, v: u64, n: usize) -> &mut Self {
        for i in (0..n).rev() {
            self.0.push(((v >> i) & 1) as u8);
        }
        self
    }
    /// append 6-bit characters given as ASCII ('@'..'_' -> 0..31, ' '..'?' -> 32..63)
    fn text(&mut self, s: &str) -> &mut Self {
        for c in s.bytes() {
            assert!((32..96).contains(&c));
            self.put(if c >= 64 { c - 64 } else { c } as u64, 6);
        }
        self
    }
    /// Armour. Returns the payload and the number of fill bits that were needed
    /// to reach a 6-bit boundary (they are emitted as zeros).
    fn armor(&self) -> (String, usize) {
        let mut b = self.0.clone();
        let fill = (6 - b.len() % 6) % 6;
        b.resize(b.len() + fill, 0);
        let s = b
            .chunks(6)
            .map(|ch| {
                let v = ch.iter().fold(0u8, |a, &x| (a << 1) | x);
                (if v < 40 { v + 48 } else { v + 56 }) as char
            })
            .collect();
        (s, fill)
    }
}

fn sentence(payload: &str, fill: usize) -> Vec<u8> {
    let body = format!("AIVDM,1,1,,A,{},{}", payload, fill);
    let ck = body.bytes().fold(0u8, |a, b| a ^ b);
    format!("!{}*{:02X}", body, ck).into_bytes()
}

fn decode(payload: &str, fill: usize) -> Result<AisMessage, ais::errors::Error> {
    let mut p = AisParser::new();
    match p.parse(&sentence(payload, fill), true)? {
        AisFragments::Complete(s) => Ok(s.message.expect("decode=true must yield a message")),
        AisFragments::Incomplete(_) => panic!("single-fragment sentence reported incomplete"),
    }
}

fn type1_lon(raw: i32) -> f32 {
    let mut b = Bits::new();
    b.put(1, 6).put(0, 2).put(123456789, 30).put(0, 4).put(0, 8).put(0, 10).put(0, 1);
    b.put((raw as u32 & 0x0fff_ffff) as u64, 28).put(0, 27);
    b.put(0, 12).put(0, 9).put(0, 6).put(0, 2).put(0, 3).put(0, 1).put(0, 19);
    let (p, f) = b.armor();
    match decode(&p, f) {
        Ok(AisMessage::PositionReport(m)) => m.longitude.expect("not the sentinel"),
        other => panic!("unexpected: {:?}", other),
    }
}

fn type27_lon(raw: i32) -> f32 {
    let mut b = Bits::new();
    b.put(27, 6).put(0, 2).put(123456789, 30).put(0, 1).put(0, 1).put(0, 4);
    b.put((raw as u32 & 0x3ffff) as u64, 18).put(0, 17).put(0, 6).put(0, 9).put(0, 1).put(0, 1);
    let (p, f) = b.armor();
    match decode(&p, f) {
        Ok(AisMessage::LongRangeAisBroadcastMessage(m)) => m.longitude.expect("not the sentinel"),
        other => panic!("unexpected: {:?}", other),
    }
}

fn type17_lon(raw: i32) -> f32 {
    let mut b = Bits::new();
    b.put(17, 6).put(0, 2).put(123456789, 30).put(0, 2);
    b.put((raw as u32 & 0x3ffff) as u64, 18).put(0, 17).put(0, 5).put(0, 40);
    let (p, f) = b.armor();
    match decode(&p, f) {
        Ok(AisMessage::DgnssBroadcastBinaryMessage(m)) => m.longitude.expect("not the sentinel"),
        other => panic!("unexpected: {:?}", other),
    }
}

/// Single-precision rounding of the exact quotient, obtained through f64 (53-bit mantissa;
/// raw has at most 28 bits, so the f64 quotient is accurate to 2^-29 of an f32 ulp; none of
/// the values used below lies anywhere near an f32 rounding tie, see the printed numbers).
fn nearest_f32(raw: i32, d: f64) -> f32 {
    (raw as f64 / d) as f32
}

/// 3 minutes of arc, raw = 30 in 1/10 minute: exactly 0.05 degrees.
#[test]
fn type27_three_minutes_is_0_05_degrees() {
    let got = type27_lon(30);
    assert_eq!(got, nearest_f32(30, 600.0), "raw/600 correct to single-precision rounding");
}

/// The property gives ONE formula (raw/600) for types 17 and 27; the same raw value must
/// therefore decode to the same number of degrees in both.
#[test]
fn type17_and_type27_agree_on_the_same_raw_value() {
    for raw in [11, 15, 30, -131069] {
        assert_eq!(type17_lon(raw), type27_lon(raw), "raw {}", raw);
    }
}

/// raw = 16777227 (27 deg 57.72 min E): exact value 27.962045 deg.
/// Neighbouring f32 values are 27.96204376... and 27.96204567...; the crate reports
/// 27.96204758..., which is neither of them.
#[test]
fn type1_longitude_is_not_even_a_neighbour_of_the_exact_quotient() {
    let raw = 16_777_227;
    let got = type1_lon(raw);
    let exact = raw as f64 / 600_000.0;
    let near = nearest_f32(raw, 600_000.0);
    // the f32 on the other side of the exact value
    let other = if (near as f64) < exact {
        f32::from_bits(near.to_bits() + 1)
    } else {
        f32::from_bits(near.to_bits() - 1)
    };
    assert!(
        got == near || got == other,
        "reported {:?}; exact {}; the two single-precision values around it are {:?} and {:?}",
        got, exact, near.min(other), near.max(other)
    );
}

/// Strict reading: the reported value is the f32 nearest to raw/600000.
#[test]
fn type1_longitude_is_correctly_rounded() {
    for raw in [16_777_219, 16_777_227, -76_799_981, -134_217_716] {
        assert_eq!(type1_lon(raw), nearest_f32(raw, 600_000.0), "raw {}", raw);
    }
}

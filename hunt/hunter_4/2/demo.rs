//! C13 - destination of a truncated type-5 message: the crate builds an extra
//! destination character from the 4 (or fewer) left-over message bits plus bits
//! that are not part of the payload (byte padding of its own buffer / declared
//! fill bits).  The reported destination is therefore not the 6-bit decoding of
//! the destination's bit range, and is longer than the number of characters that
//! range can hold.
//!
//! This is NOT the already-recorded DTE deviation (iii): that one concerns where
//! the DTE bit is taken from; this one concerns the *text* of the destination.
//!
//! Run: cargo test --offline --test seed_demo   (any feature configuration)
use ais::messages::AisMessage;
use ais::{AisFragments, AisParser};

// ---------------------------------------------------------------------------
// Tiny test-side encoder: builds the message bit by bit, armours it the way
// ITU-R M.1371 / NMEA 0183 prescribe and wraps it into a checksummed sentence.
// ---------------------------------------------------------------------------
struct Bits(Vec<u8>);
impl Bits {
    fn new() -> Self {
        Bits(Vec::new())
    }
    /// append the `n` low bits of `v`, most significant first
    fn put(&mut self, v: u64, n: usize) -> &mut Self {
        for i in (0..n).rev() {
            self.0.push(((v >> i) & 1) as u8);
        }
        self
    }
    /// append 6-bit characters given as ASCII ('@'..'_' -> 0..31, ' '..'?' -> 32..63)
    fn text(&mut self, s: &str) -> &mut Self {
        for c in s.bytes() {
            assert!((32..96).contains(&c));
            self.put(if c >= 64 { c - 64 } else { c } as u64, 6);
        }
        self
    }
    /// Armour. Returns the payload and the number of fill bits that were needed
    /// to reach a 6-bit boundary (they are emitted as zeros).
    fn armor(&self) -> (String, usize) {
        let mut b = self.0.clone();
        let fill = (6 - b.len() % 6) % 6;
        b.resize(b.len() + fill, 0);
        let s = b
            .chunks(6)
            .map(|ch| {
                let v = ch.iter().fold(0u8, |a, &x| (a << 1) | x);
                (if v < 40 { v + 48 } else { v + 56 }) as char
            })
            .collect();
        (s, fill)
    }
}

fn sentence(payload: &str, fill: usize) -> Vec<u8> {
    let body = format!("AIVDM,1,1,,A,{},{}", payload, fill);
    let ck = body.bytes().fold(0u8, |a, b| a ^ b);
    format!("!{}*{:02X}", body, ck).into_bytes()
}

fn decode(payload: &str, fill: usize) -> Result<AisMessage, ais::errors::Error> {
    let mut p = AisParser::new();
    match p.parse(&sentence(payload, fill), true)? {
        AisFragments::Complete(s) => Ok(s.message.expect("decode=true must yield a message")),
        AisFragments::Incomplete(_) => panic!("single-fragment sentence reported incomplete"),
    }
}

/// Everything in front of the destination: 302 bits.
fn type5_head() -> Bits {
    let mut b = Bits::new();
    b.put(5, 6).put(0, 2).put(123456789, 30).put(0, 2).put(9074729, 30);
    b.text("CALL123").text("SHIPNAME            ");
    b.put(70, 8).put(100, 9).put(20, 9).put(5, 6).put(5, 6).put(1, 4);
    b.put(6, 4).put(15, 5).put(12, 5).put(30, 6).put(55, 8);
    assert_eq!(b.0.len(), 302);
    b
}

fn destination(payload: &str, fill: usize) -> String {
    match decode(payload, fill) {
        Ok(AisMessage::StaticAndVoyageRelatedData(m)) => m.destination.as_str().to_string(),
        other => panic!("unexpected: {:?}", other),
    }
}

/// 53 payload characters = 318 bits, no fill bits.  Destination bit range is
/// 302..318 = 16 bits = two complete characters "HI" and four left-over bits 0001.
#[test]
fn truncated_destination_gets_a_phantom_character() {
    let mut b = type5_head();
    b.text("HI").put(0b0001, 4);
    let (payload, f) = b.armor();
    assert_eq!((payload.len(), f), (53, 0));
    let got = destination(&payload, 0);
    assert!(got.len() <= 2, "destination {:?} exceeds the 2 characters that 16 bits can hold", got);
    assert_eq!(got, "HI");
}

/// 51 payload characters = 306 bits: only four destination bits (1111) were sent, not a
/// single complete character.  The destination must be empty.
#[test]
fn four_bits_are_not_a_character() {
    let mut b = type5_head();
    b.put(0b1111, 4);
    let (payload, f) = b.armor();
    assert_eq!((payload.len(), f), (51, 0));
    assert_eq!(destination(&payload, 0), "");
}

/// With declared fill bits: 316 message bits (302 + "HI" + left-over 01) + 2 fill bits
/// = 53 characters.  The crate's third character is 01 + two fill bits + two padding bits.
#[test]
fn declared_fill_bits_take_part_in_a_destination_character() {
    let mut b = type5_head();
    b.text("HI").put(0b01, 2);
    let (payload, f) = b.armor();
    assert_eq!((payload.len(), f), (53, 2));
    assert_eq!(destination(&payload, 2), "HI");
}

/// 70 payload characters = 420 bits: 118 destination bits = 19 complete characters and
/// four left-over bits.  The crate reports 20 characters.
#[test]
fn nineteen_characters_become_twenty() {
    let mut b = type5_head();
    b.text("NINETEEN CHARACTERS").put(0b0100, 4);
    let (payload, f) = b.armor();
    assert_eq!((payload.len(), f), (70, 0));
    assert_eq!(destination(&payload, 0), "NINETEEN CHARACTERS");
}

//! C11 (reading-dependent, see NOTES.md) - "minute/second 60 ... is reported as absent
//! exactly when that code is transmitted".  The UTC-second field of the position reports
//! (types 1-3, 9, 18, 19: `timestamp`; type 21: `utc_second`) has the defined code
//! 60 = "time stamp not available", yet the crate reports it as the present value 60.
//!
//! Run: cargo test --offline --test seed_demo     (any feature configuration)
use ais::messages::AisMessage;
use ais::{AisFragments, AisParser};

// ---------------------------------------------------------------------------
// Tiny test-side encoder: builds the message bit by bit, armours it the way
// ITU-R M.1371 / NMEA 0183 prescribe and wraps it into a checksummed sentence.
// ---------------------------------------------------------------------------
struct Bits(Vec<u8>);
impl Bits {
    fn new() -> Self {
        Bits(Vec::new())
    }
    /// append the `n` low bits of `v`, most significant first
    fn put(&mut self, v: u64, n: usize) -> &mut Self {
        for i in (0..n).rev() {
            self.0.push(((v >> i) & 1) as u8);
        }
        self
    }
    /// append 6-bit characters given as ASCII ('@'..'_' -> 0..31, ' '..'?' -> 32..63)
    fn text(&mut self, s: &str) -> &mut Self {
        for c in s.bytes() {
            assert!((32..96).contains(&c));
            self.put(if c >= 64 { c - 64 } else { c } as u64, 6);
        }
        self
    }
    /// Armour. Returns the payload and the number of fill bits that were needed
    /// to reach a 6-bit boundary (they are emitted as zeros).
    fn armor(&self) -> (String, usize) {
        let mut b = self.0.clone();
        let fill = (6 - b.len() % 6) % 6;
        b.resize(b.len() + fill, 0);
        let s = b
            .chunks(6)
            .map(|ch| {
                let v = ch.iter().fold(0u8, |a, &x| (a << 1) | x);
                (if v < 40 { v + 48 } else { v + 56 }) as char
            })
            .collect();
        (s, fill)
    }
}

fn sentence(payload: &str, fill: usize) -> Vec<u8> {
    let body = format!("AIVDM,1,1,,A,{},{}", payload, fill);
    let ck = body.bytes().fold(0u8, |a, b| a ^ b);
    format!("!{}*{:02X}", body, ck).into_bytes()
}

fn decode(payload: &str, fill: usize) -> Result<AisMessage, ais::errors::Error> {
    let mut p = AisParser::new();
    match p.parse(&sentence(payload, fill), true)? {
        AisFragments::Complete(s) => Ok(s.message.expect("decode=true must yield a message")),
        AisFragments::Incomplete(_) => panic!("single-fragment sentence reported incomplete"),
    }
}

/// "absent" is `None`; a plain integer 60 is "present with value 60".
fn shows_absent<T: std::fmt::Debug>(v: &T) -> bool {
    format!("{:?}", v) == "None"
}

#[test]
fn type1_second_60_is_not_available() {
    let mut b = Bits::new();
    b.put(1, 6).put(0, 2).put(123456789, 30).put(0, 4).put(0, 8).put(0, 10).put(0, 1);
    b.put(0, 28).put(0, 27).put(0, 12).put(0, 9);
    b.put(60, 6); // UTC second: 60 = time stamp not available
    b.put(0, 2).put(0, 3).put(0, 1).put(0, 19);
    let (p, f) = b.armor();
    match decode(&p, f) {
        Ok(AisMessage::PositionReport(m)) => assert!(
            shows_absent(&m.timestamp),
            "second = 60 was transmitted (not available) but is reported as present: {:?}",
            m.timestamp
        ),
        other => panic!("unexpected: {:?}", other),
    }
}

#[test]
fn type21_second_60_is_not_available() {
    let mut b = Bits::new();
    b.put(21, 6).put(0, 2).put(123456789, 30).put(1, 5).text("AID                 ").put(0, 1);
    b.put(0, 28).put(0, 27).put(0, 30).put(1, 4);
    b.put(60, 6); // UTC second: 60 = not available
    b.put(0, 1).put(0, 8).put(0, 1).put(0, 1).put(0, 1).put(0, 1);
    let (p, f) = b.armor();
    match decode(&p, f) {
        Ok(AisMessage::AidToNavigationReport(m)) => assert!(
            shows_absent(&m.utc_second),
            "second = 60 was transmitted (not available) but is reported as present: {:?}",
            m.utc_second
        ),
        other => panic!("unexpected: {:?}", other),
    }
}

// C05: "... unfragmented sentences or rejected lines arriving between the fragments do not
// disturb it".  A perfectly well-formed line that the parser REJECTS (returns Err) because the
// payload it would complete does not decode nevertheless closes the open group, so the genuine
// remaining fragments of the group are rejected afterwards.
//
// Fails in every build configuration (default, alloc-only, heapless).
use ais::sentence::{AisFragments, AisParser};

fn line(body: &str) -> Vec<u8> {
    let ck = body.bytes().fold(0u8, |a, b| a ^ b);
    format!("!{}*{:02X}", body, ck).into_bytes()
}

const PAYLOAD: &str = "15M67N0000G?Uch`53nDR?vN0<0e"; // a 168-bit type 1 position report

#[test]
fn rejected_line_between_fragments_must_not_disturb_the_group() {
    let f1 = line(&format!("AIVDM,3,1,7,A,{},0", &PAYLOAD[..10]));
    let f2 = line(&format!("AIVDM,3,2,7,A,{},0", &PAYLOAD[10..20]));
    let f3 = line(&format!("AIVDM,3,3,7,A,{},0", &PAYLOAD[20..]));
    // the intruder: well-formed, good checksum, same sequence id, fragment number 2, but it
    // says the group has only 2 fragments.  The 11-character payload it would complete is far
    // too short for a type 1 message, so parse(.., true) returns Err for it.
    let x = line("AIVDM,2,2,7,B,0,0");

    // reference: the same history without the rejected line
    let mut clean = AisParser::new();
    assert!(matches!(clean.parse(&f1, true), Ok(AisFragments::Incomplete(_))));
    assert!(matches!(clean.parse(&f2, true), Ok(AisFragments::Incomplete(_))));
    let want = match clean.parse(&f3, true) {
        Ok(AisFragments::Complete(s)) => s,
        other => panic!("reference run failed: {:?}", other),
    };
    assert_eq!(&want.data[..], PAYLOAD.as_bytes());

    let mut p = AisParser::new();
    assert!(matches!(p.parse(&f1, true), Ok(AisFragments::Incomplete(_))));
    let rx = p.parse(&x, true);
    assert!(rx.is_err(), "precondition: the intruding line is rejected, got {:?}", rx);

    // C05: a rejected line between the fragments does not disturb the group:
    // fragment 2 still yields Incomplete with its own fields ...
    let r2 = p.parse(&f2, true);
    match &r2 {
        Ok(AisFragments::Incomplete(s)) => assert_eq!(&s.data[..], PAYLOAD[10..20].as_bytes()),
        other => panic!(
            "C05 violated: fragment 2 of 3 must still be accepted as Incomplete after a REJECTED line, got {:?}",
            other
        ),
    }
    // ... and fragment 3 yields Complete with the exact concatenation and the same message
    match p.parse(&f3, true) {
        Ok(AisFragments::Complete(s)) => {
            assert_eq!(&s.data[..], PAYLOAD.as_bytes());
            assert_eq!(s.message, want.message);
        }
        other => panic!("C05 violated: last fragment must yield Complete, got {:?}", other),
    }
}

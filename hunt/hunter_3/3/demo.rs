// Empty payload fields.  Fails in every build configuration.
//
// (a) C05: a payload split so that one fragment is empty (boundary at the very end).  The
//     empty fragment is rejected, so the group is never delivered.
// (b) C07: with decoding OFF, "payload-level errors are not raised" - but an unfragmented
//     sentence with an empty payload field is rejected even with decode = false, because the
//     sentence layer derives `message_type` from the first payload byte.
use ais::sentence::{AisFragments, AisParser, AisReportType, TalkerId};

fn line(body: &str) -> Vec<u8> {
    let ck = body.bytes().fold(0u8, |a, b| a ^ b);
    format!("!{}*{:02X}", body, ck).into_bytes()
}

const PAYLOAD: &str = "15M67N0000G?Uch`53nDR?vN0<0e";

#[test]
fn c05_split_with_an_empty_last_fragment() {
    let mut reference = AisParser::new();
    let want = match reference.parse(&line(&format!("AIVDM,1,1,,A,{},0", PAYLOAD)), true) {
        Ok(AisFragments::Complete(s)) => s,
        other => panic!("reference failed {:?}", other),
    };
    let mut p = AisParser::new();
    // boundaries 0 | 28 | 28 : fragment 1 carries everything, fragment 2 is empty
    let r1 = p.parse(&line(&format!("AIVDM,2,1,5,A,{},0", PAYLOAD)), true);
    assert!(matches!(r1, Ok(AisFragments::Incomplete(_))));
    match p.parse(&line("AIVDM,2,2,5,A,,0"), true) {
        Ok(AisFragments::Complete(s)) => {
            assert_eq!(&s.data[..], PAYLOAD.as_bytes());
            assert_eq!(s.message, want.message);
        }
        other => panic!(
            "C05 violated: the last (empty) in-order fragment must yield Complete with the concatenated payload, got {:?}",
            other
        ),
    }
}

#[test]
fn c07_empty_payload_with_decoding_off() {
    let mut p = AisParser::new();
    match p.parse(&line("AIVDO,1,1,,B,,0"), false) {
        Ok(AisFragments::Complete(s)) => {
            assert_eq!(s.talker_id, TalkerId::AI);
            assert_eq!(s.report_type, AisReportType::VDO);
            assert_eq!((s.num_fragments, s.fragment_number), (1, 1));
            assert_eq!(s.message_id, None);
            assert_eq!(s.channel, Some('B'));
            assert_eq!(s.fill_bit_count, 0);
            assert!(s.data.is_empty());
            assert!(s.message.is_none());
        }
        other => panic!(
            "C07 violated: with decoding off no payload-level error may be raised, got {:?}",
            other
        ),
    }
}

// C05 in the heapless configuration.  Run with:  cargo test --offline --no-default-features --test seed_demo
//
// Nine in-order fragments of 56 characters each (an ordinary NMEA fragment size) sharing one
// sequence id.  C05 demands: fragments 1..8 yield Incomplete, fragment 9 yields Complete whose
// payload is the 504-character concatenation.  With --no-default-features the reassembly buffer
// holds 384 bytes, so fragment 7 is rejected ("Vec is full on extend_from_slice") and fragments
// 8 and 9 are then rejected as out of sequence.  (In the std and alloc configurations this test
// passes.)
use ais::sentence::{AisFragments, AisParser};

fn line(body: &str) -> Vec<u8> {
    let ck = body.bytes().fold(0u8, |a, b| a ^ b);
    format!("!{}*{:02X}", body, ck).into_bytes()
}

#[test]
fn nine_ordinary_fragments_reassemble() {
    // type 8 binary broadcast: any length decodes
    let mut payload = String::from("85M67N0000");
    while payload.len() < 9 * 56 {
        payload.push_str("G?Uch`53nDR?vN0<0e");
    }
    payload.truncate(9 * 56);
    let mut p = AisParser::new();
    for k in 1..=9usize {
        let piece = &payload[(k - 1) * 56..k * 56];
        let r = p.parse(&line(&format!("AIVDM,9,{},4,A,{},0", k, piece)), false);
        if k < 9 {
            match r {
                Ok(AisFragments::Incomplete(s)) => {
                    assert_eq!(&s.data[..], piece.as_bytes());
                    assert_eq!(s.fragment_number as usize, k);
                }
                other => panic!(
                    "C05 violated: in-order fragment {} of 9 must yield Incomplete, got {:?}",
                    k, other
                ),
            }
        } else {
            match r {
                Ok(AisFragments::Complete(s)) => assert_eq!(&s.data[..], payload.as_bytes()),
                other => panic!("C05 violated: fragment 9 of 9 must yield Complete, got {:?}", other),
            }
        }
    }
}

//! C04 (and C09) on the heapless build: run with
//!   cargo test --offline --test seed_demo --no-default-features
//!
//! A type 12 / type 14 safety message whose text is longer than 20 characters (the ITU-R M.1371
//! maximum is 156 / 161 characters) is rejected as a whole, so its MMSI, sequence number,
//! destination MMSI, retransmit flag and repeat indicator are never reported.
#![allow(dead_code)]
use ais::messages::AisMessage;
use ais::sentence::{AisFragments, AisParser};

// ---- helpers: build a payload bit by bit, armor it, wrap it in a checksummed !AIVDM line ----
struct Bits(Vec<u8>);
impl Bits {
    fn new() -> Self {
        Bits(Vec::new())
    }
    /// append `w` bits of `v`, most significant bit first
    fn put(&mut self, v: u64, w: usize) -> &mut Self {
        for i in (0..w).rev() {
            self.0.push(((v >> i) & 1) as u8);
        }
        self
    }
    /// 6-bit AIS text: one character per 6 bits ('A'..'Z' -> 1..26, ' '..'?' -> 32..63)
    fn text(&mut self, s: &str) -> &mut Self {
        for c in s.bytes() {
            let v = if c >= 64 { c - 64 } else { c };
            self.put(v as u64, 6);
        }
        self
    }
    fn len(&self) -> usize {
        self.0.len()
    }
    /// armored payload characters and the fill-bit count
    fn armor(&self) -> (Vec<u8>, u8) {
        let mut b = self.0.clone();
        let fill = (6 - b.len() % 6) % 6;
        for _ in 0..fill {
            b.push(0);
        }
        let s = b
            .chunks(6)
            .map(|c| {
                let v = c.iter().fold(0u8, |a, &x| (a << 1) | x);
                if v < 40 {
                    v + 48
                } else {
                    v + 56
                }
            })
            .collect();
        (s, fill as u8)
    }
    fn line(&self) -> Vec<u8> {
        let (payload, fill) = self.armor();
        let mut body = b"AIVDM,1,1,,A,".to_vec();
        body.extend_from_slice(&payload);
        body.push(b',');
        body.push(b'0' + fill);
        let ck = body.iter().fold(0u8, |a, &b| a ^ b);
        let mut l = b"!".to_vec();
        l.extend_from_slice(&body);
        l.extend_from_slice(format!("*{:02X}", ck).as_bytes());
        l
    }
}

fn decode(b: &Bits) -> Result<AisMessage, ais::errors::Error> {
    let line = b.line();
    let mut parser = AisParser::new();
    match parser.parse(&line, true)? {
        AisFragments::Complete(s) => Ok(s.message.expect("decode=true yields a message")),
        AisFragments::Incomplete(_) => panic!("single sentence reported incomplete"),
    }
}

/// Type 14, 40-bit header + 25 characters of text (190 bits; the protocol allows up to 1008).
#[test]
fn type14_with_25_characters_reports_its_fixed_fields() {
    let mut b = Bits::new();
    b.put(14, 6).put(2, 2).put(123_456_789, 30).put(0, 2);
    b.text("MAN OVERBOARD NEAR BUOY 7");
    assert_eq!(b.len(), 40 + 25 * 6);
    match decode(&b) {
        Ok(AisMessage::SafetyRelatedBroadcastMessage(m)) => {
            assert_eq!(m.message_type, 14);
            assert_eq!(m.repeat_indicator, 2);
            assert_eq!(m.mmsi, 123_456_789);
        }
        other => panic!(
            "C04/C09: a type-14 payload must decode to a safety broadcast reporting mmsi 123456789, got {:?}",
            other
        ),
    }
}

/// Type 14 with exactly 20 characters: 160 bits -> 27 payload characters -> 21 unarmored bytes,
/// i.e. 128 bits after the header = 21 six-bit groups, one more than the 20-slot text buffer.
#[test]
fn type14_with_20_characters_reports_its_fixed_fields() {
    let mut b = Bits::new();
    b.put(14, 6).put(0, 2).put(1_073_741_823, 30).put(0, 2);
    b.text("ABCDEFGHIJKLMNOPQRST");
    assert_eq!(b.len(), 160);
    match decode(&b) {
        Ok(AisMessage::SafetyRelatedBroadcastMessage(m)) => {
            assert_eq!(m.message_type, 14);
            assert_eq!(m.mmsi, 1_073_741_823);
        }
        other => panic!(
            "C04/C09: a 160-bit type-14 payload must decode to a safety broadcast, got {:?}",
            other
        ),
    }
}

/// Type 12, 72-bit header + 21 characters of text.
#[test]
fn type12_with_21_characters_reports_its_fixed_fields() {
    let mut b = Bits::new();
    b.put(12, 6).put(1, 2).put(235_000_001, 30).put(3, 2).put(987_654_321, 30).put(1, 1).put(0, 1);
    b.text("PLEASE ALTER COURSE N");
    assert_eq!(b.len(), 72 + 21 * 6);
    match decode(&b) {
        Ok(AisMessage::AddressedSafetyRelatedMessage(m)) => {
            assert_eq!(m.message_type, 12);
            assert_eq!(m.repeat_indicator, 1);
            assert_eq!(m.mmsi, 235_000_001);
            assert_eq!(m.seqno, 3);
            assert_eq!(m.dest_mmsi, 987_654_321);
            assert!(m.retransmit);
        }
        other => panic!(
            "C04/C09: a type-12 payload must decode to an addressed safety message reporting seqno 3 / dest 987654321, got {:?}",
            other
        ),
    }
}

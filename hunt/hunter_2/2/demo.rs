//! C15 / C04 / C09, every build configuration (default flags are enough:
//!   cargo test --offline --test seed_demo ; also fails with --no-default-features [--features alloc])
//!
//! The shortest legal forms of two variable-length messages are rejected:
//!  * type 17 with an empty correction-data field (80 bits; M.1371 Table "Message 17": data 0-736
//!    bits, total 80-816 bits),
//!  * type 12 with an empty text (72 bits; total 72-1008 bits).
#![allow(dead_code)]
use ais::messages::AisMessage;
use ais::sentence::{AisFragments, AisParser};

// ---- helpers: build a payload bit by bit, armor it, wrap it in a checksummed !AIVDM line ----
struct Bits(Vec<u8>);
impl Bits {
    fn new() -> Self {
        Bits(Vec::new())
    }
    /// append `w` bits of `v`, most significant bit first
    fn put(&mut self, v: u64, w: usize) -> &mut Self {
        for i in (0..w).rev() {
            self.0.push(((v >> i) & 1) as u8);
        }
        self
    }
    /// 6-bit AIS text: one character per 6 bits ('A'..'Z' -> 1..26, ' '..'?' -> 32..63)
    fn text(&mut self, s: &str) -> &mut Self {
        for c in s.bytes() {
            let v = if c >= 64 { c - 64 } else { c };
            self.put(v as u64, 6);
        }
        self
    }
    fn len(&self) -> usize {
        self.0.len()
    }
    /// armored payload characters and the fill-bit count
    fn armor(&self) -> (Vec<u8>, u8) {
        let mut b = self.0.clone();
        let fill = (6 - b.len() % 6) % 6;
        for _ in 0..fill {
            b.push(0);
        }
        let s = b
            .chunks(6)
            .map(|c| {
                let v = c.iter().fold(0u8, |a, &x| (a << 1) | x);
                if v < 40 {
                    v + 48
                } else {
                    v + 56
                }
            })
            .collect();
        (s, fill as u8)
    }
    fn line(&self) -> Vec<u8> {
        let (payload, fill) = self.armor();
        let mut body = b"AIVDM,1,1,,A,".to_vec();
        body.extend_from_slice(&payload);
        body.push(b',');
        body.push(b'0' + fill);
        let ck = body.iter().fold(0u8, |a, &b| a ^ b);
        let mut l = b"!".to_vec();
        l.extend_from_slice(&body);
        l.extend_from_slice(format!("*{:02X}", ck).as_bytes());
        l
    }
}

fn decode(b: &Bits) -> Result<AisMessage, ais::errors::Error> {
    let line = b.line();
    let mut parser = AisParser::new();
    match parser.parse(&line, true)? {
        AisFragments::Complete(s) => Ok(s.message.expect("decode=true yields a message")),
        AisFragments::Incomplete(_) => panic!("single sentence reported incomplete"),
    }
}

#[test]
fn type17_with_zero_length_correction_data() {
    let mut b = Bits::new();
    // type, repeat, MMSI, spare, longitude (18, 1/10 min), latitude (17, 1/10 min), spare
    b.put(17, 6).put(3, 2).put(2_734_450, 30).put(0, 2).put(17_478, 18).put(35_992, 17).put(0, 5);
    assert_eq!(b.len(), 80, "the fixed header of message 17 is 80 bits");
    // "!AIVDM,1,1,,A,A02VqLPA4I6C04,4*.."  (14 characters, 4 fill bits)
    match decode(&b) {
        Ok(AisMessage::DgnssBroadcastBinaryMessage(m)) => {
            assert_eq!(m.message_type, 17);
            assert_eq!(m.repeat_indicator, 3);
            assert_eq!(m.mmsi, 2_734_450);
            // C15: number of returned bytes = unarmored length minus the header bytes; nothing
            // follows the header, so no correction byte may be reported (at most the zero padding)
            assert!(m.payload.data.iter().all(|&x| x == 0));
        }
        other => panic!(
            "C09/C04/C15: an 80-bit type-17 payload (payload length 0) must decode to a DGNSS broadcast with mmsi 2734450 and no correction data, got {:?}",
            other
        ),
    }
}

#[test]
fn type12_with_empty_text() {
    let mut b = Bits::new();
    b.put(12, 6).put(0, 2).put(351_853_000, 30).put(2, 2).put(316_123_456, 30).put(1, 1).put(0, 1);
    assert_eq!(b.len(), 72, "the fixed header of message 12 is 72 bits");
    match decode(&b) {
        Ok(AisMessage::AddressedSafetyRelatedMessage(m)) => {
            assert_eq!(m.message_type, 12);
            assert_eq!(m.mmsi, 351_853_000);
            assert_eq!(m.seqno, 2);
            assert_eq!(m.dest_mmsi, 316_123_456);
            assert!(m.retransmit);
            assert_eq!(&m.text[..], "");
        }
        other => panic!(
            "C09/C04: a 72-bit type-12 payload must decode to an addressed safety message with seqno 2 / dest 316123456, got {:?}",
            other
        ),
    }
}

/// For contrast: the same situation for types 6, 8 and 14 is handled (these pass).
#[test]
fn contrast_types_6_8_14_accept_their_shortest_form() {
    let mut b = Bits::new();
    b.put(8, 6).put(0, 2).put(1, 30).put(0, 2).put(1, 10).put(11, 6);
    assert_eq!(b.len(), 56);
    assert!(matches!(decode(&b), Ok(AisMessage::BinaryBroadcastMessage(_))));
    let mut b = Bits::new();
    b.put(6, 6).put(0, 2).put(1, 30).put(0, 2).put(2, 30).put(0, 2).put(1, 10).put(11, 6);
    assert_eq!(b.len(), 88);
    assert!(matches!(decode(&b), Ok(AisMessage::BinaryAddressedMessage(_))));
    let mut b = Bits::new();
    b.put(14, 6).put(0, 2).put(1, 30).put(0, 2);
    assert_eq!(b.len(), 40);
    assert!(matches!(decode(&b), Ok(AisMessage::SafetyRelatedBroadcastMessage(_))));
}

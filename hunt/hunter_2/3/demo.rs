//! C03 on the heapless build: run with
//!   cargo test --offline --test seed_demo --no-default-features
//!
//! `ais::messages::unarmor` refuses every alphabet-only string longer than 512 characters.

fn reference(chars: &[u8], fill: usize) -> Vec<u8> {
    let mut bits: Vec<u8> = Vec::new();
    for &c in chars {
        let v = if c < 88 { c - 48 } else { c - 56 };
        for i in (0..6).rev() {
            bits.push((v >> i) & 1);
        }
    }
    let n = bits.len();
    for i in 0..fill.min(n) {
        bits[n - 1 - i] = 0;
    }
    while bits.len() % 8 != 0 {
        bits.push(0);
    }
    bits.chunks(8)
        .map(|c| c.iter().fold(0u8, |a, &x| (a << 1) | x))
        .collect()
}

#[test]
fn unarmor_is_total_on_the_alphabet() {
    let alphabet: Vec<u8> = (48u8..=87).chain(96u8..=119).collect();
    for n in [0usize, 1, 2, 3, 4, 511, 512, 513, 600, 1000] {
        let s: Vec<u8> = (0..n).map(|i| alphabet[(i * 37 + 11) % 64]).collect();
        for fill in 0..=5usize {
            let expected = reference(&s, fill);
            assert_eq!(expected.len(), (6 * n + 7) / 8);
            match ais::messages::unarmor(&s, fill) {
                Ok(out) => assert_eq!(&out[..], &expected[..], "n={} fill={}", n, fill),
                Err(e) => panic!(
                    "C03: a {}-character string over the armoring alphabet must unarmor to {} bytes, got error {:?}",
                    n,
                    expected.len(),
                    e
                ),
            }
        }
    }
}

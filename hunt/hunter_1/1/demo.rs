//! C08 / C02 in the heapless build configuration (`--no-default-features`).
//!
//! Run with:  cargo test --offline --no-default-features --test seed_demo
//!
//! (With the default `std` features, or with `--no-default-features --features alloc`,
//! every test in this file passes; the violation exists only in the configuration
//! that has neither `std` nor `alloc`.)
//!
//! C08 says a line is accepted at the sentence level EXACTLY when it has the listed
//! shape; the only demand on the payload field is that it is non-empty.  C02 says an
//! otherwise well-formed line whose checksum differs is answered with a checksum
//! error carrying both values.  Both are claimed for every build configuration.

use ais::errors::Error;
use ais::sentence::{AisFragments, AisParser};

/// `!AIVDM,1,1,,A,<n times '0'>,0*CS`, optionally with one bit of the checksum flipped.
fn line(payload_len: usize, corrupt: bool) -> (Vec<u8>, u8) {
    let mut body = b"AIVDM,1,1,,A,".to_vec();
    body.extend(std::iter::repeat(b'0').take(payload_len));
    body.extend_from_slice(b",0");
    let xor = body.iter().fold(0u8, |a, b| a ^ b);
    let sent = if corrupt { xor ^ 0x01 } else { xor };
    let mut l = vec![b'!'];
    l.extend_from_slice(&body);
    l.extend_from_slice(format!("*{:02X}", sent).as_bytes());
    (l, xor)
}

/// Control: a 384-byte payload is accepted in all three configurations.
#[test]
fn payload_of_384_bytes_is_accepted() {
    let (l, _) = line(384, false);
    let r = AisParser::new().parse(&l, false);
    assert!(
        matches!(r, Ok(AisFragments::Complete(ref s)) if s.data.len() == 384),
        "384-byte payload: {:?}",
        r.map(|_| ())
    );
}

/// C08: optional tag block, '!', five address bytes, count 1, number 1, empty sequence
/// id, channel 'A', NON-EMPTY payload, fill 0 (< 6), '*', two hex digits equal to the
/// XOR of the covered bytes.  That is exactly the accepted shape, so the line must be
/// accepted - in every build configuration.
#[test]
fn c08_well_formed_line_with_385_byte_payload_is_accepted() {
    let (l, _) = line(385, false);
    let r = AisParser::new().parse(&l, false);
    match r {
        Ok(AisFragments::Complete(s)) => {
            assert_eq!(s.data.len(), 385);
            assert_eq!(s.num_fragments, 1);
            assert_eq!(s.fragment_number, 1);
        }
        Ok(AisFragments::Incomplete(_)) => panic!("1-of-1 sentence reported as incomplete"),
        Err(e) => panic!(
            "C08 violated: a line of exactly the accepted shape (385-byte payload, \
             correct checksum) was rejected with {:?}",
            e
        ),
    }
}

/// C02: the same line with one checksum bit flipped is "otherwise well-formed" and its
/// two checksum values differ, so the answer must be `Error::Checksum` carrying the
/// transmitted and the computed value.
#[test]
fn c02_wrong_checksum_on_385_byte_payload_gives_checksum_error() {
    let (l, xor) = line(385, true);
    let r = AisParser::new().parse(&l, false);
    match r {
        Err(Error::Checksum { expected, found }) => {
            assert_eq!(expected, xor ^ 0x01, "transmitted value");
            assert_eq!(found, xor, "computed value");
        }
        Err(other) => panic!(
            "C02 violated: otherwise well-formed line with a wrong checksum was rejected \
             with {:?} instead of Error::Checksum {{ expected: {:#04x}, found: {:#04x} }}",
            other,
            xor ^ 0x01,
            xor
        ),
        Ok(_) => panic!("C02 violated: line with a wrong checksum was accepted"),
    }
}

/// The same line handed to one parser after an arbitrary earlier line, with decoding
/// requested: still has to be accepted at the sentence level (type 0 is not a
/// supported message, so with decode=true an *unsupported type* error would be fine,
/// but not a sentence-level parser failure).  We therefore ask with decode=false.
#[test]
fn c08_same_line_after_history_and_via_default() {
    let mut p = AisParser::default();
    let _ = p.parse(b"!AIVDM,1,1,,A,13u?etPv2;0n:dDPwUM1U1Cb069D,0*24", true);
    let (l, _) = line(400, false);
    let r = p.parse(&l, false);
    assert!(
        matches!(r, Ok(AisFragments::Complete(ref s)) if s.data.len() == 400),
        "C08 violated: 400-byte payload rejected: {:?}",
        r.map(|_| ())
    );
}

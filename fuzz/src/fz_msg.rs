//! Structure-aware coverage-guided exploration of `messages::parse`.
//! The input is a field assignment (layout index, length control, one little-endian 32-bit slot per field, tail
//! bytes); it is packed at the layout's bit positions and handed to the crate.  There is no oracle here: the
//! payloads of the resulting corpus are dumped (AISFUZZ_DUMP=<file>) and judged by the correspondence.
#![no_main]
use libfuzzer_sys::{fuzz_mutator, fuzz_target, fuzzer_mutate};
use std::io::Write;
use std::sync::Mutex;

mod layouts;
use layouts::LAYOUTS;

static DUMP: Mutex<Option<std::fs::File>> = Mutex::new(None);

fn set_bits(bits: &mut Vec<u8>, off: usize, w: usize, v: u64) {
    if bits.len() < off + w {
        bits.resize(off + w, 0);
    }
    for i in 0..w {
        bits[off + i] = ((v >> (w - 1 - i)) & 1) as u8;
    }
}

pub fn build(data: &[u8]) -> Vec<u8> {
    if data.len() < 2 {
        return data.to_vec();
    }
    let lay = &LAYOUTS[data[0] as usize % LAYOUTS.len()];
    let ctl = data[1];
    let mut pos = 2usize;
    let mut bits: Vec<u8> = vec![0; lay.bits];
    for (i, f) in lay.fields.iter().enumerate() {
        if f.w <= 32 {
            let mut b = [0u8; 4];
            for k in 0..4 {
                if pos + k < data.len() {
                    b[k] = data[pos + k];
                }
            }
            pos += 4;
            let mut v = u32::from_le_bytes(b) as u64;
            if i == 0 {
                v = lay.type_code as u64;
            }
            if lay.partno >= 0 && f.off == 38 && f.w == 2 {
                v = lay.partno as u64;
            }
            let mask = if f.w == 32 { u32::MAX as u64 } else { (1u64 << f.w) - 1 };
            set_bits(&mut bits, f.off, f.w, v & mask);
        } else {
            // text: one input byte per 6-bit character
            let n = f.w / 6;
            for c in 0..n {
                let ch = if pos < data.len() { data[pos] & 63 } else { 0 };
                pos += 1;
                set_bits(&mut bits, f.off + 6 * c, 6, ch as u64);
            }
        }
    }
    let tail: &[u8] = if pos < data.len() { &data[pos..] } else { &[] };
    match ctl >> 6 {
        1 => {
            let cut = (ctl & 63) as usize * 3;
            let keep = bits.len().saturating_sub(cut);
            bits.truncate(keep);
        }
        _ => {}
    }
    let mut out = vec![0u8; (bits.len() + 7) / 8];
    for (i, b) in bits.iter().enumerate() {
        if *b != 0 {
            out[i / 8] |= 0x80 >> (i % 8);
        }
    }
    if ctl >> 6 != 1 {
        let n = if ctl >> 6 == 2 { (ctl & 63) as usize } else { tail.len() };
        out.extend_from_slice(&tail[..n.min(tail.len())]);
    }
    out
}

/// After every mutation the 32-bit slots are reduced to their field's width (and the fixed fields set), so that the
/// bytes in the input are the very values the crate compares: libFuzzer's compare tracing can then substitute the
/// constant it saw on the other side of a comparison.
fn canonicalize(data: &mut [u8], size: usize) {
    if size < 2 {
        return;
    }
    let lay = &LAYOUTS[data[0] as usize % LAYOUTS.len()];
    let mut pos = 2usize;
    for (i, f) in lay.fields.iter().enumerate() {
        if f.w <= 32 {
            if pos + 4 > size {
                return;
            }
            let mut v = u32::from_le_bytes([data[pos], data[pos + 1], data[pos + 2], data[pos + 3]]);
            if f.w < 32 {
                v &= (1u32 << f.w) - 1;
            }
            if i == 0 {
                v = lay.type_code as u32;
            }
            data[pos..pos + 4].copy_from_slice(&v.to_le_bytes());
            pos += 4;
        } else {
            let n = f.w / 6;
            for _ in 0..n {
                if pos >= size {
                    return;
                }
                data[pos] &= 63;
                pos += 1;
            }
        }
    }
}

fuzz_mutator!(|data: &mut [u8], size: usize, max_size: usize, _seed: u32| {
    let new_size = fuzzer_mutate(data, size, max_size);
    canonicalize(data, new_size);
    new_size
});

fuzz_target!(|data: &[u8]| {
    let payload = build(data);
    if let Ok(mut g) = DUMP.lock() {
        if g.is_none() {
            if let Some(p) = std::env::var_os("AISFUZZ_DUMP") {
                *g = std::fs::OpenOptions::new().create(true).append(true).open(p).ok();
            }
        }
        if let Some(f) = g.as_mut() {
            let hex: String = payload.iter().map(|b| format!("{:02x}", b)).collect();
            let _ = writeln!(f, "{}", if hex.is_empty() { "-".to_string() } else { hex });
        }
    }
    let _ = ais::messages::parse(&payload);
});

//! Coverage-guided exploration of `AisParser::parse` over short HISTORIES of structured lines through one parser.
//! Input = a sequence of records (control byte, header selector, count, number, id, fill, checksum perturbation,
//! payload length, payload bytes); every record is rendered as a line and fed, with its own decode flag, to the same
//! parser.  No oracle here: the histories of the resulting corpus are dumped (AISFUZZ_DUMP=<file>) and judged by the
//! correspondence.
#![no_main]
use libfuzzer_sys::fuzz_target;
use std::io::Write;
use std::sync::Mutex;

static DUMP: Mutex<Option<std::fs::File>> = Mutex::new(None);
const ALPHABET: &[u8; 64] = b"0123456789:;<=>?@ABCDEFGHIJKLMNOPQRSTUVW`abcdefghijklmnopqrstuvw";
const HEADS: [&[u8]; 8] = [b"AIVDM", b"AIVDO", b"ABVDM", b"BSVDM", b"XXVDM", b"AIVDX", b"aivdm", b"SAVDO"];
const CHANNELS: [&[u8]; 4] = [b"A", b"B", b"", b"1"];
const TAGS: [&[u8]; 4] = [b"s:x*00", b"g:1-2-3", b"c:1,g:2-2-7*00", b""];

fn render(rec: &[u8], payload: &[u8]) -> (Vec<u8>, bool) {
    let ctl = rec[0];
    let dec = ctl & 1 == 1;
    let kind = (ctl >> 1) & 3;
    if kind == 3 {
        return (payload.to_vec(), dec);
    }
    let mut body: Vec<u8> = Vec::new();
    body.extend_from_slice(HEADS[(rec[1] & 7) as usize]);
    body.push(b',');
    body.extend_from_slice(rec[2].to_string().as_bytes());
    body.push(b',');
    body.extend_from_slice(rec[3].to_string().as_bytes());
    body.push(b',');
    if rec[4] != 0 {
        body.extend_from_slice(rec[5].to_string().as_bytes());
    }
    body.push(b',');
    body.extend_from_slice(CHANNELS[((rec[1] >> 4) & 3) as usize]);
    body.push(b',');
    for b in payload {
        let c = if kind == 1 { if *b == b',' || *b == b'*' { b'w' } else { *b } } else { ALPHABET[(*b & 63) as usize] };
        body.push(c);
    }
    body.push(b',');
    body.extend_from_slice((rec[6] % 8).to_string().as_bytes());
    let mut x = 0u8;
    for b in &body {
        x ^= *b;
    }
    x ^= rec[7];
    let mut line: Vec<u8> = Vec::new();
    if kind == 2 {
        line.push(b'\\');
        line.extend_from_slice(TAGS[((rec[1] >> 6) & 3) as usize]);
        line.push(b'\\');
    }
    line.push(if rec[1] & 8 != 0 { b'$' } else { b'!' });
    line.extend_from_slice(&body);
    line.push(b'*');
    line.extend_from_slice(format!("{:02X}", x).as_bytes());
    (line, dec)
}

fuzz_target!(|data: &[u8]| {
    let mut lines: Vec<(Vec<u8>, bool)> = Vec::new();
    let mut pos = 0usize;
    while pos + 9 <= data.len() && lines.len() < 12 {
        let rec = &data[pos..pos + 9];
        let plen = (rec[8] as usize) % 48;
        let end = (pos + 9 + plen).min(data.len());
        lines.push(render(rec, &data[pos + 9..end]));
        pos = end;
    }
    if let Ok(mut g) = DUMP.lock() {
        if g.is_none() {
            if let Some(p) = std::env::var_os("AISFUZZ_DUMP") {
                *g = std::fs::OpenOptions::new().create(true).append(true).open(p).ok();
            }
        }
        if let Some(f) = g.as_mut() {
            let mut s = String::from("H");
            for (l, d) in &lines {
                s.push(' ');
                s.push(if *d { '1' } else { '0' });
                if l.is_empty() {
                    s.push('-');
                }
                for b in l {
                    s.push_str(&format!("{:02x}", b));
                }
            }
            let _ = writeln!(f, "{}", s);
        }
    }
    let mut parser = ais::AisParser::new();
    for (l, d) in &lines {
        let _ = parser.parse(l, *d);
    }
});

/-
  Refinement of the variable-length parsers (types 6, 8, 12, 14, 16, 17, 7, 13, 20).
-/
import AisVerif.Model.MsgB
import AisVerif.Lemmas.TakeInst
import AisVerif.Lemmas.Text
import AisVerif.Lemmas.Many
import AisVerif.Spec.DecodeB
import AisVerif.Refine.A

namespace AisVerif
open Spec

theorem ownRest_bind {β : Type} (cfg : Cfg) (bs : List UInt8) (p : Nat) (f : List UInt8 → Res β) :
    (ownRest cfg ⟨bs, p⟩ >>= f) =
      if cfg.isNoalloc && decide (maxData < (bs.drop (p / 8)).length) then err (.nomFailure .tooLarge)
      else f (bs.drop (p / 8)) := by
  unfold ownRest Cur.rest
  by_cases h : (cfg.isNoalloc && decide (maxData < (List.drop (p / 8) bs).length)) = true
  · simp only [h, if_true, Res.err_bind]
  · simp only [h, Bool.false_eq_true, if_false, Res.ok_bind]

theorem parseT06_eq (cfg : Cfg) (bs : List UInt8) :
    parseT06 cfg bs =
      if 88 ≤ 8 * bs.length then
        (if cfg.isNoalloc && decide (maxData < (bs.drop 11).length) then err (.nomFailure .tooLarge)
         else ok (Spec.decodeT06 bs))
      else err (.nomError .eof) := by
  unfold parseT06
  simp only [ais_take, ownRest_bind, Nat.reduceAdd, Nat.zero_add, Nat.reduceDiv]
  refine eq_ite_of_cases (fun h => ?_) (fun h => ?_)
  · repeat (refine ite_eq_of_pos (by omega) ?_)
    rfl
  · repeat (refine ite_err_of fun _ => ?_)
    exfalso; omega

theorem parseT08_eq (cfg : Cfg) (bs : List UInt8) :
    parseT08 cfg bs =
      if 56 ≤ 8 * bs.length then
        (if cfg.isNoalloc && decide (maxData < (bs.drop 7).length) then err (.nomFailure .tooLarge)
         else ok (Spec.decodeT08 bs))
      else err (.nomError .eof) := by
  unfold parseT08
  simp only [ais_take, ownRest_bind, Nat.reduceAdd, Nat.zero_add, Nat.reduceDiv]
  refine eq_ite_of_cases (fun h => ?_) (fun h => ?_)
  · repeat (refine ite_eq_of_pos (by omega) ?_)
    rfl
  · repeat (refine ite_err_of fun _ => ?_)
    exfalso; omega

theorem parseT17_eq (cfg : Cfg) (bs : List UInt8) :
    parseT17 cfg bs =
      if 120 ≤ 8 * bs.length then
        (if cfg.isNoalloc && decide (maxData < (bs.drop 15).length) then err (.nomFailure .tooLarge)
         else ok (Spec.decodeT17 bs))
      else err (.nomError .eof) := by
  unfold parseT17
  simp only [ais_take, ownRest_bind, Nat.reduceAdd, Nat.zero_add, Nat.reduceDiv]
  refine eq_ite_of_cases (fun h => ?_) (fun h => ?_)
  · repeat (refine ite_eq_of_pos (by omega) ?_)
    rfl
  · repeat (refine ite_err_of fun _ => ?_)
    exfalso; omega

/-- Text that runs to the end of the payload (types 12 and 14). -/
theorem tailText_spec (cfg : Cfg) (bs : List UInt8) (p : Nat) (hp : p + 6 ≤ 8 * bs.length) :
    parse6bitAscii cfg ⟨bs, p⟩ (8 * bs.length - p) =
      if cfg.isNoalloc && decide (maxText < (8 * bs.length - p) / 6) then err (.nomFailure .tooLarge)
      else ok (.text (Spec.trim (Spec.chars bs p ((8 * bs.length - p) / 6))), ⟨bs, p + 6 * ((8 * bs.length - p) / 6)⟩) := by
  rw [parse6bitAscii_spec]
  have h0 : ¬ ((8 * bs.length - p) / 6 = 0) := by omega
  have h1 : p + 6 * ((8 * bs.length - p) / 6) ≤ 8 * bs.length := by omega
  simp only [h0, h1, if_false, if_true]

theorem parseT12_eq (cfg : Cfg) (bs : List UInt8) :
    parseT12 cfg bs =
      if 78 ≤ 8 * bs.length then
        (if cfg.isNoalloc && decide (maxText < (8 * bs.length - 72) / 6) then err (.nomFailure .tooLarge)
         else ok (Spec.decodeT12 bs))
      else err (.nomError .eof) := by
  unfold parseT12
  simp only [ais_take, Nat.reduceAdd, Nat.zero_add, Cur.remaining_mk]
  refine eq_ite_of_cases (fun h => ?_) (fun h => ?_)
  · repeat (refine ite_eq_of_pos (by omega) ?_)
    have h6 : ¬ (8 * bs.length - 72 < 6) := by omega
    simp only [h6, if_false]
    rw [tailText_spec cfg bs 72 (by omega)]
    by_cases hc : (cfg.isNoalloc && decide (maxText < (8 * bs.length - 72) / 6)) = true
    · simp only [hc, if_true, Res.err_bind]
    · simp only [hc, Bool.false_eq_true, if_false, Res.ok_bind]; rfl
  · by_cases h72 : 72 ≤ 8 * bs.length
    · repeat (refine ite_eq_of_pos (by omega) ?_)
      have h6 : (8 * bs.length - 72 < 6) := by omega
      simp only [h6, if_true]
    · repeat (refine ite_err_of fun _ => ?_)
      exfalso; omega

theorem parseT14_eq (cfg : Cfg) (bs : List UInt8) :
    parseT14 cfg bs =
      if 46 ≤ 8 * bs.length then
        (if cfg.isNoalloc && decide (maxText < (8 * bs.length - 40) / 6) then err (.nomFailure .tooLarge)
         else ok (Spec.decodeT14 bs))
      else err (.nomError .eof) := by
  unfold parseT14
  simp only [ais_take, Nat.reduceAdd, Nat.zero_add, Cur.remaining_mk]
  refine eq_ite_of_cases (fun h => ?_) (fun h => ?_)
  · repeat (refine ite_eq_of_pos (by omega) ?_)
    have h6 : ¬ (8 * bs.length - 40 < 6) := by omega
    simp only [h6, if_false]
    rw [tailText_spec cfg bs 40 (by omega)]
    by_cases hc : (cfg.isNoalloc && decide (maxText < (8 * bs.length - 40) / 6)) = true
    · simp only [hc, if_true, Res.err_bind]
    · simp only [hc, Bool.false_eq_true, if_false, Res.ok_bind]; rfl
  · by_cases h40 : 40 ≤ 8 * bs.length
    · repeat (refine ite_eq_of_pos (by omega) ?_)
      have h6 : (8 * bs.length - 40 < 6) := by omega
      simp only [h6, if_true]
    · repeat (refine ite_err_of fun _ => ?_)
      exfalso; omega

theorem parseT16_eq (bs : List UInt8) :
    parseT16 bs =
      if 92 ≤ 8 * bs.length then ok (Spec.decodeT16 bs (decide (144 ≤ 8 * bs.length)))
      else err (.nomError .eof) := by
  unfold parseT16
  simp only [ais_take, Nat.reduceAdd, Nat.zero_add, Cur.remaining_mk]
  refine eq_ite_of_cases (fun h => ?_) (fun h => ?_)
  · repeat (refine ite_eq_of_pos (by omega) ?_)
    by_cases h2 : 8 * bs.length - 92 ≥ 52
    · simp only [h2, if_true]
      repeat (refine ite_eq_of_pos (by omega) ?_)
      have : 144 ≤ 8 * bs.length := by omega
      simp [Spec.decodeT16, Spec.hdr, this]
    · simp only [h2, if_false]
      have : ¬ 144 ≤ 8 * bs.length := by omega
      simp [Spec.decodeT16, Spec.hdr, this]
  · repeat (refine ite_err_of fun _ => ?_)
    exfalso; omega

theorem parseAck_spec (bs : List UInt8) (q : Nat) :
    parseAck ⟨bs, q⟩ = if q + 32 ≤ 8 * bs.length then ok (Spec.ackAt bs q, ⟨bs, q + 32⟩) else err (.nomError .eof) := by
  unfold parseAck
  simp only [ais_take, Nat.add_assoc, Nat.reduceAdd]
  refine eq_ite_of_cases (fun h => ?_) (fun h => ?_)
  · repeat (refine ite_eq_of_pos (by omega) ?_)
    rfl
  · repeat (refine ite_err_of fun _ => ?_)
    exfalso; omega

theorem parseAckMsg_eq (kind : Kind) (bs : List UInt8) :
    parseAckMsg kind bs =
      if 72 ≤ 8 * bs.length then ok (Spec.decodeAcks kind bs) else err (.nomError .eof) := by
  unfold parseAckMsg
  simp only [ais_take, Nat.reduceAdd, Nat.zero_add]
  refine eq_ite_of_cases (fun h => ?_) (fun h => ?_)
  · repeat (refine ite_eq_of_pos (by omega) ?_)
    rw [manyMN_1_4_spec parseAck Spec.ackAt bs 32 (by decide) (parseAck_spec bs) 40 (by omega)]
    have : ¬ ((8 * bs.length - 40) / 32 < 1) := by omega
    simp only [this, if_false, Res.ok_bind]
    rfl
  · by_cases h40 : 40 ≤ 8 * bs.length
    · repeat (refine ite_eq_of_pos (by omega) ?_)
      rw [manyMN_1_4_spec parseAck Spec.ackAt bs 32 (by decide) (parseAck_spec bs) 40 (by omega)]
      have : ((8 * bs.length - 40) / 32 < 1) := by omega
      simp only [this, if_true, Res.err_bind]
    · repeat (refine ite_err_of fun _ => ?_)
      exfalso; omega

theorem parseReservation_spec (bs : List UInt8) (q : Nat) :
    parseReservation ⟨bs, q⟩ =
      if q + 30 ≤ 8 * bs.length then ok (Spec.reservationAt bs q, ⟨bs, q + 30⟩) else err (.nomError .eof) := by
  unfold parseReservation
  simp only [ais_take, Nat.add_assoc, Nat.reduceAdd]
  refine eq_ite_of_cases (fun h => ?_) (fun h => ?_)
  · repeat (refine ite_eq_of_pos (by omega) ?_)
    rfl
  · repeat (refine ite_err_of fun _ => ?_)
    exfalso; omega

theorem parseT20_eq (bs : List UInt8) :
    parseT20 bs = if 70 ≤ 8 * bs.length then ok (Spec.decodeT20 bs) else err (.nomError .eof) := by
  unfold parseT20
  simp only [ais_take, Nat.reduceAdd, Nat.zero_add]
  refine eq_ite_of_cases (fun h => ?_) (fun h => ?_)
  · repeat (refine ite_eq_of_pos (by omega) ?_)
    rw [manyMN_1_4_spec parseReservation Spec.reservationAt bs 30 (by decide) (parseReservation_spec bs) 40 (by omega)]
    have : ¬ ((8 * bs.length - 40) / 30 < 1) := by omega
    simp only [this, if_false, Res.ok_bind]
    rfl
  · by_cases h40 : 40 ≤ 8 * bs.length
    · repeat (refine ite_eq_of_pos (by omega) ?_)
      rw [manyMN_1_4_spec parseReservation Spec.reservationAt bs 30 (by decide) (parseReservation_spec bs) 40 (by omega)]
      have : ((8 * bs.length - 40) / 30 < 1) := by omega
      simp only [this, if_true, Res.err_bind]
    · repeat (refine ite_err_of fun _ => ?_)
      exfalso; omega

end AisVerif

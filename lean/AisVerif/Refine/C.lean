/-
  Refinement for types 24 and 5.
-/
import AisVerif.Refine.B

namespace AisVerif
open Spec

set_option maxRecDepth 4000 in
theorem parseT24_eq (cfg : Cfg) (bs : List UInt8) :
    parseT24 cfg bs =
      if 40 ≤ 8 * bs.length then
        (if field bs 38 2 = 0 then (if 160 ≤ 8 * bs.length then ok (Spec.decodeT24A bs) else err (.nomError .eof))
         else if field bs 38 2 = 1 then (if 168 ≤ 8 * bs.length then ok (Spec.decodeT24B bs) else err (.nomError .eof))
         else ok (Spec.decodeT24U bs))
      else err (.nomError .eof) := by
  unfold parseT24
  simp only [ais_take, Nat.reduceAdd, Nat.zero_add]
  refine eq_ite_of_cases (fun h => ?_) (fun h => ?_)
  · repeat (refine ite_eq_of_pos (by omega) ?_)
    have hlt := field_lt bs 38 2
    generalize hv : field bs 38 2 = v at *
    have : v = 0 ∨ v = 1 ∨ v = 2 ∨ v = 3 := by omega
    rcases this with h0 | h0 | h0 | h0 <;> subst h0
    · simp only [parseT24Part, parse6bitAscii_bind_120, Nat.reduceAdd, Cur.remaining_mk, if_true]
      refine eq_ite_of_cases (fun h160 => ?_) (fun h160 => ?_)
      · rw [if_pos h160]
        by_cases hz : min (8 * bs.length - 160) 7 = 0
        · rw [hz, take_zero]; simp only [Res.ok_bind]; rfl
        · rw [take_bind bs 160 _ (by omega) (by omega)]
          rw [if_pos (by omega)]; rfl
      · rw [if_neg h160]
    · simp only [parseT24Part, ais_take, Nat.reduceAdd]
      have : ¬ ((1 : Nat) = 0) := by decide
      simp only [this, if_false, if_true]
      refine eq_ite_of_cases (fun h168 => ?_) (fun h168 => ?_)
      · repeat (refine ite_eq_of_pos (by omega) ?_)
        rfl
      · repeat (refine ite_err_of fun _ => ?_)
        exfalso; omega
    · have e1 : ¬ ((2 : Nat) = 0) := by decide
      have e2 : ¬ ((2 : Nat) = 1) := by decide
      simp only [e1, e2, if_false, parseT24Part]
      simp only [Spec.decodeT24U, hv]; rfl
    · have e1 : ¬ ((3 : Nat) = 0) := by decide
      have e2 : ¬ ((3 : Nat) = 1) := by decide
      simp only [e1, e2, if_false, parseT24Part]
      simp only [Spec.decodeT24U, hv]; rfl
  · repeat (refine ite_err_of fun _ => ?_)
    exfalso; omega

/-- A (possibly empty, possibly truncated) text field that always fits: `size ≤ remaining`, at most 20 characters. -/
theorem parse6bitAscii_fits (cfg : Cfg) (bs : List UInt8) (p size : Nat)
    (h20 : size / 6 ≤ 20) (hfit : p + size ≤ 8 * bs.length) :
    parse6bitAscii cfg ⟨bs, p⟩ size =
      ok (.text (Spec.trim (Spec.chars bs p (size / 6))), ⟨bs, p + 6 * (size / 6)⟩) := by
  rw [parse6bitAscii_spec]
  have hcap : (cfg.isNoalloc && decide (maxText < size / 6)) = false := by
    have : ¬ maxText < size / 6 := by unfold maxText; omega
    simp [this]
  rw [hcap]
  simp only [Bool.false_eq_true, if_false]
  by_cases h0 : size / 6 = 0
  · simp only [h0, if_true, Nat.mul_zero, Nat.add_zero]; rfl
  · have : p + 6 * (size / 6) ≤ 8 * bs.length := by omega
    simp only [h0, this, if_false, if_true]

set_option maxRecDepth 4000 in
theorem parseT05_eq (cfg : Cfg) (bs : List UInt8) :
    parseT05 cfg bs = if 302 ≤ 8 * bs.length then ok (Spec.decodeT05 bs) else err (.nomError .eof) := by
  unfold parseT05
  simp only [ais_take, Nat.reduceAdd, Nat.zero_add]
  refine eq_ite_of_cases (fun h => ?_) (fun h => ?_)
  · repeat (refine ite_eq_of_pos (by omega) ?_)
    simp only [Cur.remaining_mk]
    rw [parse6bitAscii_fits cfg bs 302 (min 120 (8 * bs.length - 302)) (by omega) (by omega)]
    simp only [Res.ok_bind, Cur.remaining_mk]
    have hk : min 120 (8 * bs.length - 302) / 6 = Spec.t5DestChars bs := rfl
    rw [hk]
    generalize hkk : Spec.t5DestChars bs = k
    have hkb : 6 * k ≤ 8 * bs.length - 302 := by
      rw [← hkk]; unfold Spec.t5DestChars; omega
    unfold Spec.decodeT05
    simp only [hkk]
    by_cases h1 : 302 + 6 * k < 8 * bs.length
    · have r1 : 8 * bs.length - (302 + 6 * k) > 0 := by omega
      simp only [r1, h1, if_true]
      rw [take_bind bs (302 + 6 * k) _ (by decide) (by decide)]
      rw [if_pos (by omega)]
      simp only [Dte_from_field, Res.ok_bind, Cur.remaining_mk]
      by_cases h2 : 8 * bs.length - (302 + 6 * k + 1) > 0
      · simp only [h2, if_true]
        rw [take_bind bs (302 + 6 * k + 1) _ (by decide) (by decide)]
        rw [if_pos (by omega)]
        rfl
      · simp only [h2, if_false, Res.ok_bind]
        rfl
    · have r1 : ¬ (8 * bs.length - (302 + 6 * k) > 0) := by omega
      simp only [r1, h1, if_false, Res.ok_bind, Cur.remaining_mk]
      rfl
  · repeat (refine ite_err_of fun _ => ?_)
    exfalso; omega

end AisVerif

/-
  The whole of `messages::parse` as a specification-level function: `Model.parseMessage = Spec.decode`.
-/
import AisVerif.Model.Messages
import AisVerif.Refine.T01
import AisVerif.Refine.D

namespace AisVerif
open Spec

namespace Spec

def eof {α : Type} : Res α := err (.nomError .eof)

/-- Types with the communication state last (1-3, 4, 11): needs all bits up to the state's start to
    reach `parse_radio`, which rejects a foreign type value before reading anything. -/
def specRadioTail (mk : List (Key × Val) → Msg) (bs : List UInt8) (start total : Nat) : Res Msg :=
  if start ≤ 8 * bs.length then
    match radioOf (field bs 0 6) (field bs start 19) with
    | some r => if total ≤ 8 * bs.length then ok (mk r) else eof
    | none => err (.nomFailure .digit)
  else eof

def specT01 (bs : List UInt8) : Res Msg := specRadioTail (decodeT01 bs) bs 149 168
def specBase (kind : Kind) (bs : List UInt8) : Res Msg := specRadioTail (decodeBase kind bs) bs 149 168
/-- Type 9 as the crate reads it: state taken from bits 148-166 (finding D11). -/
def specT09 (bs : List UInt8) : Res Msg := specRadioTail (decodeT09 bs) bs 148 167

def capped (cfg : Cfg) (n limit : Nat) (r : Res Msg) : Res Msg :=
  if cfg.isNoalloc && decide (limit < n) then err (.nomFailure .tooLarge) else r

/-- `messages::parse` on a payload whose first six bits read `t`. -/
def dispatch (cfg : Cfg) (t : Nat) (bs : List UInt8) : Res Msg :=
  let L := 8 * bs.length
  if 1 ≤ t ∧ t ≤ 3 then specT01 bs
  else if t = 4 then specBase .BaseStationReport bs
  else if t = 5 then (if 302 ≤ L then ok (decodeT05 bs) else eof)
  else if t = 7 then (if 72 ≤ L then ok (decodeAcks .BinaryAcknowledgeMessage bs) else eof)
  else if t = 6 then (if 88 ≤ L then capped cfg (bs.drop 11).length maxData (ok (decodeT06 bs)) else eof)
  else if t = 8 then (if 56 ≤ L then capped cfg (bs.drop 7).length maxData (ok (decodeT08 bs)) else eof)
  else if t = 9 then specT09 bs
  else if t = 10 then (if 72 ≤ L then ok (decodeT10 bs) else eof)
  else if t = 11 then specBase .UtcDateResponse bs
  else if t = 12 then (if 78 ≤ L then capped cfg ((L - 72) / 6) maxText (ok (decodeT12 bs)) else eof)
  else if t = 13 then (if 72 ≤ L then ok (decodeAcks .SafetyRelatedAcknowledgment bs) else eof)
  else if t = 14 then (if 46 ≤ L then capped cfg ((L - 40) / 6) maxText (ok (decodeT14 bs)) else eof)
  else if t = 15 then (if 76 ≤ L then decodeT15 bs else eof)
  else if t = 16 then (if 92 ≤ L then ok (decodeT16 bs (decide (144 ≤ L))) else eof)
  else if t = 17 then (if 120 ≤ L then capped cfg (bs.drop 15).length maxData (ok (decodeT17 bs)) else eof)
  else if t = 18 then (if 168 ≤ L then ok (decodeT18 bs) else eof)
  else if t = 19 then (if 312 ≤ L then ok (decodeT19 bs) else eof)
  else if t = 20 then (if 70 ≤ L then ok (decodeT20 bs) else eof)
  else if t = 21 then (if 272 ≤ L then ok (decodeT21 bs) else eof)
  else if t = 24 then
    (if 40 ≤ L then
      (if field bs 38 2 = 0 then (if 160 ≤ L then ok (decodeT24A bs) else eof)
       else if field bs 38 2 = 1 then (if 168 ≤ L then ok (decodeT24B bs) else eof)
       else ok (decodeT24U bs))
     else eof)
  else if t = 27 then (if 95 ≤ L then ok (decodeT27 bs) else eof)
  else err (.text .unimplementedType)

/-- The specification of `messages::parse`. -/
def decode (cfg : Cfg) (bs : List UInt8) : Res Msg :=
  if 6 ≤ 8 * bs.length then dispatch cfg (field bs 0 6) bs else eof

end Spec

theorem parseT01_eq (bs : List UInt8) : parseT01 bs = Spec.specT01 bs := by
  unfold Spec.specT01 Spec.specRadioTail
  by_cases h : 149 ≤ 8 * bs.length
  · rw [if_pos h, parseT01_long bs h]; rfl
  · rw [if_neg h, parseT01_short bs h]; rfl

theorem parseBaseStation_eq (kind : Kind) (bs : List UInt8) : parseBaseStation kind bs = Spec.specBase kind bs := by
  unfold Spec.specBase Spec.specRadioTail
  by_cases h : 149 ≤ 8 * bs.length
  · rw [if_pos h, parseBaseStation_long kind bs h]; rfl
  · rw [if_neg h, parseBaseStation_short kind bs h]; rfl

theorem parseT09_eq (bs : List UInt8) : parseT09 bs = Spec.specT09 bs := by
  unfold Spec.specT09 Spec.specRadioTail
  by_cases h : 148 ≤ 8 * bs.length
  · rw [if_pos h, parseT09_long bs h]; rfl
  · rw [if_neg h, parseT09_short bs h]; rfl

/-- **Refinement of `messages::parse`.** -/
theorem parseMessage_eq (cfg : Cfg) (bs : List UInt8) : parseMessage cfg bs = Spec.decode cfg bs := by
  unfold parseMessage messageType Spec.decode
  simp only [take_bind_8_6, Nat.zero_add, Res.ok_bind]
  by_cases h6 : 6 ≤ 8 * bs.length
  · simp only [h6, if_true, Res.ok_bind]
    unfold Spec.dispatch
    simp only [parseT01_eq, parseT04, parseT11, parseT07, parseT13, parseBaseStation_eq, parseT09_eq, parseT05_eq,
      parseAckMsg_eq, parseT06_eq, parseT08_eq, parseT10_eq, parseT12_eq, parseT14_eq, parseT15_eq, parseT16_eq,
      parseT17_eq, parseT18_eq, parseT19_eq, parseT20_eq, parseT21_eq, parseT24_eq, parseT27_eq,
      Spec.capped, Spec.eof]
  · simp only [h6, if_false, Res.err_bind]; rfl

end AisVerif

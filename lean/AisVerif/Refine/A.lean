/-
  Refinement of the fixed-length parsers to the specification decoders:
  `Model.parseTxx bs = Spec.decodeTxx bs` when the payload is long enough, an error otherwise.
-/
import AisVerif.Model.MsgA
import AisVerif.Lemmas.Radio
import AisVerif.Lemmas.TakeInst
import AisVerif.Lemmas.Text
import AisVerif.Lemmas.Spare10
import AisVerif.Spec.DecodeA

namespace AisVerif
open Spec

theorem eq_ite_of_cases {α : Sort _} {c : Prop} [Decidable c] {x a b : α}
    (hl : c → x = a) (hs : ¬ c → x = b) : x = if c then a else b := by
  by_cases h : c
  · rw [if_pos h]; exact hl h
  · rw [if_neg h]; exact hs h

/-! Types 4 and 11 -/

theorem parseBaseStation_long (kind : Kind) (bs : List UInt8) (h : 149 ≤ 8 * bs.length) :
    parseBaseStation kind bs =
      match Spec.radioOf (field bs 0 6) (field bs 149 19) with
      | some r => if 168 ≤ 8 * bs.length then ok (Spec.decodeBase kind bs r) else err (.nomError .eof)
      | none => err (.nomFailure .digit) := by
  unfold parseBaseStation
  simp only [ais_take, parseRadio_spec, Nat.reduceAdd, Nat.zero_add]
  repeat (refine ite_eq_of_pos (by omega) ?_)
  cases Spec.radioOf (field bs 0 6) (field bs 149 19) with
  | none => rfl
  | some r =>
    simp only []
    by_cases h2 : 168 ≤ 8 * bs.length
    · simp only [h2, if_true, Res.ok_bind]; rfl
    · simp only [h2, if_false, Res.err_bind]

theorem parseBaseStation_short (kind : Kind) (bs : List UInt8) (h : ¬ 149 ≤ 8 * bs.length) :
    parseBaseStation kind bs = err (.nomError .eof) := by
  unfold parseBaseStation
  simp only [ais_take, parseRadio_spec, Nat.reduceAdd, Nat.zero_add]
  repeat (refine ite_err_of fun _ => ?_)
  exfalso; omega

/-! Type 9: the code calls `parse_radio` at bit 148 (finding D11). -/

theorem parseT09_long (bs : List UInt8) (h : 148 ≤ 8 * bs.length) :
    parseT09 bs =
      match Spec.radioOf (field bs 0 6) (field bs 148 19) with
      | some r => if 167 ≤ 8 * bs.length then ok (Spec.decodeT09 bs r) else err (.nomError .eof)
      | none => err (.nomFailure .digit) := by
  unfold parseT09
  simp only [ais_take, parseRadio_spec, Nat.reduceAdd, Nat.zero_add]
  repeat (refine ite_eq_of_pos (by omega) ?_)
  cases Spec.radioOf (field bs 0 6) (field bs 148 19) with
  | none => rfl
  | some r =>
    simp only []
    by_cases h2 : 167 ≤ 8 * bs.length
    · simp only [h2, if_true, Res.ok_bind]; rfl
    · simp only [h2, if_false, Res.err_bind]

theorem parseT09_short (bs : List UInt8) (h : ¬ 148 ≤ 8 * bs.length) :
    parseT09 bs = err (.nomError .eof) := by
  unfold parseT09
  simp only [ais_take, parseRadio_spec, Nat.reduceAdd, Nat.zero_add]
  repeat (refine ite_err_of fun _ => ?_)
  exfalso; omega

/-! Type 10 -/

theorem parseT10_eq (bs : List UInt8) :
    parseT10 bs = if 72 ≤ 8 * bs.length then ok (Spec.decodeT10 bs) else err (.nomError .eof) := by
  unfold parseT10
  simp only [ais_take, Nat.reduceAdd, Nat.zero_add]
  refine eq_ite_of_cases (fun h => ?_) (fun h => ?_)
  · repeat (refine ite_eq_of_pos (by omega) ?_)
    rfl
  · repeat (refine ite_err_of fun _ => ?_)
    exfalso; omega

/-! Type 18 -/

theorem selRadio_bind {β : Type} (bs : List UInt8) (f : List (Key × Val) × Cur → Res β) :
    (selectRadio (field bs 148 1) ⟨bs, 149⟩ >>= f) =
      if 168 ≤ 8 * bs.length then f (Spec.selRadio bs, ⟨bs, 168⟩) else err (.nomError .eof) := by
  unfold selectRadio
  unfold Spec.selRadio
  rcases field_one_cases bs 148 with h | h <;> rw [h]
  · simp only [parseSotdma_spec, Nat.reduceAdd]
    by_cases h2 : 168 ≤ 8 * bs.length
    · simp only [h2, if_true, Res.ok_bind]
    · simp only [h2, if_false, Res.err_bind]
  · simp only [parseItdma_spec, Nat.reduceAdd]
    by_cases h2 : 168 ≤ 8 * bs.length
    · simp only [h2, if_true, Res.ok_bind]; rfl
    · simp only [h2, if_false, Res.err_bind]

theorem parseT18_eq (bs : List UInt8) :
    parseT18 bs = if 168 ≤ 8 * bs.length then ok (Spec.decodeT18 bs) else err (.nomError .eof) := by
  unfold parseT18
  simp only [ais_take, selRadio_bind, Nat.reduceAdd, Nat.zero_add]
  refine eq_ite_of_cases (fun h => ?_) (fun h => ?_)
  · repeat (refine ite_eq_of_pos (by omega) ?_)
    rfl
  · repeat (refine ite_err_of fun _ => ?_)
    exfalso; omega

/-! Types 19, 21, 27 -/

theorem parseT19_eq (cfg : Cfg) (bs : List UInt8) :
    parseT19 cfg bs = if 312 ≤ 8 * bs.length then ok (Spec.decodeT19 bs) else err (.nomError .eof) := by
  unfold parseT19
  simp only [ais_take, Nat.reduceAdd, Nat.zero_add]
  refine eq_ite_of_cases (fun h => ?_) (fun h => ?_)
  · repeat (refine ite_eq_of_pos (by omega) ?_)
    rfl
  · repeat (refine ite_err_of fun _ => ?_)
    exfalso; omega

theorem parseT21_eq (cfg : Cfg) (bs : List UInt8) :
    parseT21 cfg bs = if 272 ≤ 8 * bs.length then ok (Spec.decodeT21 bs) else err (.nomError .eof) := by
  unfold parseT21
  simp only [ais_take, Nat.reduceAdd, Nat.zero_add]
  refine eq_ite_of_cases (fun h => ?_) (fun h => ?_)
  · repeat (refine ite_eq_of_pos (by omega) ?_)
    rfl
  · repeat (refine ite_err_of fun _ => ?_)
    exfalso; omega

theorem parseT27_eq (bs : List UInt8) :
    parseT27 bs = if 95 ≤ 8 * bs.length then ok (Spec.decodeT27 bs) else err (.nomError .eof) := by
  unfold parseT27
  simp only [ais_take, Nat.reduceAdd, Nat.zero_add]
  refine eq_ite_of_cases (fun h => ?_) (fun h => ?_)
  · repeat (refine ite_eq_of_pos (by omega) ?_)
    rfl
  · repeat (refine ite_err_of fun _ => ?_)
    exfalso; omega

end AisVerif

/-
  Refinement for type 15 (interrogation).
-/
import AisVerif.Refine.C

namespace AisVerif
open Spec

theorem parseInterrogationMessage_spec (bs : List UInt8) (q : Nat) :
    parseInterrogationMessage ⟨bs, q⟩ =
      if q + 6 ≤ 8 * bs.length then ok ((Spec.interMsg bs q).1, ⟨bs, (Spec.interMsg bs q).2⟩)
      else err (.nomError .eof) := by
  unfold parseInterrogationMessage Spec.interMsg
  simp only [ais_take, Cur.remaining_mk]
  refine eq_ite_of_cases (fun h => ?_) (fun h => ?_)
  · rw [if_pos h]
    by_cases h12 : 8 * bs.length - (q + 6) ≥ 12
    · have hfit : q + 6 + 12 ≤ 8 * bs.length := by omega
      simp only [h12, hfit, if_true, Nat.add_assoc, Nat.reduceAdd]
    · simp only [h12, if_false]
  · rw [if_neg h]

theorem interMsg_pos (bs : List UInt8) (p : Nat) :
    p + 6 ≤ (Spec.interMsg bs p).2 ∧ (Spec.interMsg bs p).2 ≤ p + 18 ∧
      (p + 6 ≤ 8 * bs.length → (Spec.interMsg bs p).2 ≤ 8 * bs.length) := by
  unfold Spec.interMsg; split <;> simp <;> omega

theorem pushUnwrap_small {α : Type} (cfg : Cfg) (cap : Nat) (l : List α) (x : α) (h : l.length < cap) :
    pushUnwrap cfg cap l x = ok (l ++ [x]) := by
  unfold pushUnwrap
  have : (cfg.isNoalloc && decide (cap ≤ l.length)) = false := by
    have : ¬ cap ≤ l.length := by omega
    simp [this]
  rw [this]; simp

theorem parseSecondRequest_spec (cfg : Cfg) (bs : List UInt8) (m1 : List (Key × Val)) (p : Nat)
    (hp : p ≤ 8 * bs.length) :
    parseSecondRequest cfg [m1] ⟨bs, p⟩ =
      if 8 * bs.length - p ≥ 8 then
        ok (if (Spec.interMsg bs (p + 2)).1 ≠ Spec.emptyRequest then [m1, (Spec.interMsg bs (p + 2)).1] else [m1],
            ⟨bs, (Spec.interMsg bs (p + 2)).2⟩)
      else ok ([m1], ⟨bs, p⟩) := by
  unfold parseSecondRequest
  simp only [Cur.remaining_mk]
  by_cases h8 : 8 * bs.length - p ≥ 8
  · simp only [h8, if_true]
    rw [take_bind_8_2]
    have f1 : p + 2 ≤ 8 * bs.length := by omega
    simp only [f1, if_true, parseInterrogationMessage_spec]
    have f2 : p + 2 + 6 ≤ 8 * bs.length := by omega
    simp only [f2, if_true, Res.ok_bind]
    by_cases hne : (Spec.interMsg bs (p + 2)).1 ≠ Spec.emptyRequest
    · have hne' : (Spec.interMsg bs (p + 2)).1 ≠
          [(Key.messages_type, Val.nat 0), (Key.messages_slot_offset, Val.none)] := hne
      simp only [hne', hne, if_true, ne_eq, not_false_eq_true]
      rw [pushUnwrap_small cfg 3 [m1] _ (by simp)]
      rfl
    · have hne' : ¬ ((Spec.interMsg bs (p + 2)).1 ≠
          [(Key.messages_type, Val.nat 0), (Key.messages_slot_offset, Val.none)]) := hne
      simp only [hne', hne, if_false]
  · simp only [h8, if_false]

/-- A station whose first 36 bits (MMSI, first request type) are present never fails. -/
theorem parseStation_spec (cfg : Cfg) (bs : List UInt8) (q : Nat) :
    parseStation cfg ⟨bs, q⟩ =
      if q + 36 ≤ 8 * bs.length then ok ((Spec.station bs q).1, ⟨bs, (Spec.station bs q).2⟩)
      else err (.nomError .eof) := by
  unfold parseStation
  simp only [ais_take, parseInterrogationMessage_spec]
  have b1 := interMsg_pos bs (q + 30)
  refine eq_ite_of_cases (fun h => ?_) (fun h => ?_)
  · have f1 : q + 30 ≤ 8 * bs.length := by omega
    have f2 : q + 30 + 6 ≤ 8 * bs.length := by omega
    simp only [f1, f2, if_true, Res.ok_bind]
    rw [pushUnwrap_small cfg 3 [] _ (by simp)]
    simp only [Res.ok_bind, List.nil_append]
    rw [parseSecondRequest_spec cfg bs _ _ (b1.2.2 f2)]
    unfold Spec.station
    by_cases h8 : 8 * bs.length - (Spec.interMsg bs (q + 30)).2 ≥ 8
    · simp only [h8, if_true, Res.ok_bind]; rfl
    · simp only [h8, if_false, Res.ok_bind]; rfl
  · by_cases h30 : q + 30 ≤ 8 * bs.length
    · have f2 : ¬ q + 30 + 6 ≤ 8 * bs.length := by omega
      simp only [h30, f2, if_true, if_false, Res.err_bind]
    · simp only [h30, if_false]

theorem station_pos (bs : List UInt8) (q : Nat) (h : q + 36 ≤ 8 * bs.length) :
    q + 36 ≤ (Spec.station bs q).2 ∧ (Spec.station bs q).2 ≤ 8 * bs.length := by
  have b1 := interMsg_pos bs (q + 30)
  have b2 := interMsg_pos bs ((Spec.interMsg bs (q + 30)).2 + 2)
  unfold Spec.station
  by_cases h8 : 8 * bs.length - (Spec.interMsg bs (q + 30)).2 ≥ 8
  · simp only [h8, if_true]; omega
  · simp only [h8, if_false]; omega

/-- Type 15 as the crate decodes a payload of `L` bits (second station after the two spare bits). -/
def Spec.decodeT15 (bs : List UInt8) : Res Msg :=
  if 8 * bs.length - (Spec.station bs 40).2 ≥ 30 then
    if (Spec.station bs 40).2 + 38 ≤ 8 * bs.length then
      ok (Spec.renderStations bs [(Spec.station bs 40).1, (Spec.station bs ((Spec.station bs 40).2 + 2)).1])
    else err (.nomError .eof)
  else ok (Spec.renderStations bs [(Spec.station bs 40).1])

theorem parseSecondStation_spec (cfg : Cfg) (bs : List UInt8) (s1 : List (Key × Val)) (p : Nat)
    (hp : p ≤ 8 * bs.length) :
    parseSecondStation cfg [s1] ⟨bs, p⟩ =
      if 8 * bs.length - p ≥ 30 then
        (if p + 38 ≤ 8 * bs.length then ok [s1, (Spec.station bs (p + 2)).1] else err (.nomError .eof))
      else ok [s1] := by
  unfold parseSecondStation
  simp only [Cur.remaining_mk]
  by_cases h30 : 8 * bs.length - p ≥ 30
  · simp only [h30, if_true]
    rw [take_bind_8_2]
    have f1 : p + 2 ≤ 8 * bs.length := by omega
    simp only [f1, if_true, parseStation_spec]
    by_cases h38 : p + 38 ≤ 8 * bs.length
    · have f2 : p + 2 + 36 ≤ 8 * bs.length := by omega
      simp only [f2, h38, if_true, Res.ok_bind]
      rw [pushUnwrap_small cfg 2 [s1] _ (by simp)]
      rfl
    · have f2 : ¬ p + 2 + 36 ≤ 8 * bs.length := by omega
      simp only [f2, h38, if_false, Res.err_bind]
  · simp only [h30, if_false]

theorem parseT15_eq (cfg : Cfg) (bs : List UInt8) :
    parseT15 cfg bs = if 76 ≤ 8 * bs.length then Spec.decodeT15 bs else err (.nomError .eof) := by
  unfold parseT15
  simp only [ais_take, parseStation_spec, Nat.reduceAdd, Nat.zero_add]
  refine eq_ite_of_cases (fun h => ?_) (fun h => ?_)
  · repeat (refine ite_eq_of_pos (by omega) ?_)
    have f76 : 40 + 36 ≤ 8 * bs.length := by omega
    simp only [f76, if_true, Res.ok_bind]
    rw [pushUnwrap_small cfg 2 [] _ (by simp)]
    simp only [Res.ok_bind, List.nil_append]
    rw [parseSecondStation_spec cfg bs _ _ (station_pos bs 40 (by omega)).2]
    unfold Spec.decodeT15
    by_cases h30 : 8 * bs.length - (Spec.station bs 40).2 ≥ 30
    · simp only [h30, if_true]
      by_cases h38 : (Spec.station bs 40).2 + 38 ≤ 8 * bs.length
      · simp only [h38, if_true, Res.ok_bind]; rfl
      · simp only [h38, if_false, Res.err_bind]
    · simp only [h30, if_false, Res.ok_bind]; rfl
  · by_cases h40 : 40 ≤ 8 * bs.length
    · repeat (refine ite_eq_of_pos (by omega) ?_)
      have f76 : ¬ 40 + 36 ≤ 8 * bs.length := by omega
      simp only [f76, if_false, Res.err_bind]
    · repeat (refine ite_err_of fun _ => ?_)
      exfalso; omega

end AisVerif

import AisVerif.Model.MsgA
import AisVerif.Lemmas.Radio
import AisVerif.Lemmas.TakeInst
import AisVerif.Spec.DecodeA

namespace AisVerif
open Spec

theorem parseT01_long (bs : List UInt8) (h : 149 ≤ 8 * bs.length) :
    parseT01 bs =
      match Spec.radioOf (field bs 0 6) (field bs 149 19) with
      | some r => if 168 ≤ 8 * bs.length then ok (Spec.decodeT01 bs r) else err (.nomError .eof)
      | none => err (.nomFailure .digit) := by
  unfold parseT01
  simp only [ais_take, parseRadio_spec, Nat.reduceAdd, Nat.zero_add]
  repeat (refine ite_eq_of_pos (by omega) ?_)
  cases Spec.radioOf (field bs 0 6) (field bs 149 19) with
  | none => rfl
  | some r =>
    simp only []
    by_cases h2 : 168 ≤ 8 * bs.length
    · simp only [h2, if_true, Res.ok_bind]; rfl
    · simp only [h2, if_false, Res.err_bind]

theorem parseT01_short (bs : List UInt8) (h : ¬ 149 ≤ 8 * bs.length) :
    parseT01 bs = err (.nomError .eof) := by
  unfold parseT01
  simp only [ais_take, parseRadio_spec, Nat.reduceAdd, Nat.zero_add]
  repeat (refine ite_err_of fun _ => ?_)
  exfalso; omega

end AisVerif

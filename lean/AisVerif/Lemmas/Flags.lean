/-
  The decode flag is an argument of each call: histories in which every line carries its own flag.
  The parser state never depends on a flag; the result of a line depends on the other lines through
  their bytes only, and on its own flag.
-/
import AisVerif.Lemmas.Machine

namespace AisVerif

/-- Feed lines, each with its own decode flag; collect the results. -/
def runD (cfg : Cfg) : PState → List (Bytes × Bool) → List (Res Frag) × PState
  | st, [] => ([], st)
  | st, x :: ls =>
    let r := step cfg st x.1 x.2
    let rest := runD cfg r.1 ls
    (r.2 :: rest.1, rest.2)

theorem runD_cons (cfg : Cfg) (st : PState) (x : Bytes × Bool) (ls : List (Bytes × Bool)) :
    runD cfg st (x :: ls) =
      ((step cfg st x.1 x.2).2 :: (runD cfg (step cfg st x.1 x.2).1 ls).1, (runD cfg (step cfg st x.1 x.2).1 ls).2) := rfl

theorem afterVerify_state (r : PState × Res Unit) (k1 k2 : PState → PState × Res Frag)
    (h : ∀ st2, (k1 st2).1 = (k2 st2).1) : (afterVerify r k1).1 = (afterVerify r k2).1 := by
  obtain ⟨st2, res⟩ := r
  cases res with
  | ok u => exact h st2
  | err e => rfl
  | panic p => rfl

/-- The state after a sentence does not depend on the decode flag. -/
theorem stepSentence_state_flag (cfg : Cfg) (st : PState) (s : Sentence) (d1 d2 : Bool) :
    (stepSentence cfg st s d1).1 = (stepSentence cfg st s d2).1 := by
  unfold stepSentence
  by_cases hm : s.hasMore = true
  · simp only [hm, if_true]
  · simp only [hm, Bool.false_eq_true, if_false]
    by_cases hf : s.isFragment = true
    · simp only [hf, if_true]
      exact afterVerify_state _ _ _ (fun _ => rfl)
    · simp only [hf, Bool.false_eq_true, if_false]

/-- **The parser state after a line does not depend on the decode flag of that line.** -/
theorem step_state_flag (cfg : Cfg) (st : PState) (line : Bytes) (d1 d2 : Bool) :
    (step cfg st line d1).1 = (step cfg st line d2).1 := by
  unfold step
  cases parseNmeaSentence cfg line with
  | err e => rfl
  | panic p => rfl
  | ok r =>
    obtain ⟨raw, s, cks⟩ := r
    simp only []
    cases checkChecksum raw cks with
    | err e => rfl
    | panic p => rfl
    | ok u => exact stepSentence_state_flag cfg st s d1 d2

/-- One flag for the whole history is the special case `run`. -/
theorem runD_uniform (cfg : Cfg) (d : Bool) (st : PState) (ls : List Bytes) :
    runD cfg st (ls.map (fun l => (l, d))) = run cfg d st ls := by
  induction ls generalizing st with
  | nil => rfl
  | cons l t ih =>
    simp only [List.map_cons, runD_cons, run]
    rw [ih]

/-- **The state reached by a history does not depend on any of its flags.** -/
theorem runD_state (cfg : Cfg) (d0 : Bool) (st : PState) (h : List (Bytes × Bool)) :
    (runD cfg st h).2 = (run cfg d0 st (h.map (·.1))).2 := by
  induction h generalizing st with
  | nil => rfl
  | cons x t ih =>
    simp only [List.map_cons, runD_cons, run]
    rw [ih, step_state_flag cfg st x.1 x.2 d0]

theorem runD_length (cfg : Cfg) (st : PState) (h : List (Bytes × Bool)) : (runD cfg st h).1.length = h.length := by
  induction h generalizing st with
  | nil => rfl
  | cons x t ih => simp only [runD_cons, List.length_cons, ih]

theorem run_length (cfg : Cfg) (d : Bool) (st : PState) (ls : List Bytes) : (run cfg d st ls).1.length = ls.length := by
  induction ls generalizing st with
  | nil => rfl
  | cons x t ih => simp only [run, List.length_cons, ih]

/-- The result of the line at position `a.length`: `parse` applied, with the line's own flag, to the state that
    the lines before it lead to — under ANY flags (`d0` is arbitrary). -/
theorem runD_result_at (cfg : Cfg) (d0 : Bool) (st : PState) (a b : List (Bytes × Bool)) (l : Bytes) (d : Bool) :
    (runD cfg st (a ++ (l, d) :: b)).1[a.length]? = some (step cfg (run cfg d0 st (a.map (·.1))).2 l d).2 := by
  induction a generalizing st with
  | nil => simp [runD_cons, run]
  | cons x t ih =>
    simp only [List.cons_append, runD_cons, List.length_cons, List.getElem?_cons_succ, List.map_cons, run]
    rw [ih, step_state_flag cfg st x.1 x.2 d0]

theorem run_result_at (cfg : Cfg) (d : Bool) (st : PState) (a b : List Bytes) (l : Bytes) :
    (run cfg d st (a ++ l :: b)).1[a.length]? = some (step cfg (run cfg d st a).2 l d).2 := by
  induction a generalizing st with
  | nil => simp [run]
  | cons x t ih =>
    simp only [List.cons_append, run, List.length_cons, List.getElem?_cons_succ]
    rw [ih]

/-- A line's result under per-line flags is its result in the history run uniformly with that line's flag. -/
theorem runD_result_eq_run (cfg : Cfg) (st : PState) (a b : List (Bytes × Bool)) (l : Bytes) (d : Bool) :
    (runD cfg st (a ++ (l, d) :: b)).1[a.length]? =
      (run cfg d st ((a ++ (l, d) :: b).map (·.1))).1[a.length]? := by
  rw [runD_result_at cfg d st a b l d]
  have := run_result_at cfg d st (a.map (·.1)) (b.map (·.1)) l
  simp only [List.length_map] at this
  simp only [List.map_append, List.map_cons]
  rw [this]

end AisVerif

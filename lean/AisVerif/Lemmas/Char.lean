/-
  `messages::parse` per type value: what `Spec.dispatch` reduces to for each supported type. Generated.
-/
import AisVerif.Lemmas.Inv

namespace AisVerif
open Spec

theorem decode_of_len (cfg : Cfg) (bs : List UInt8) (h : 6 ≤ 8 * bs.length) :
    parseMessage cfg bs = Spec.dispatch cfg (field bs 0 6) bs := by
  rw [parseMessage_eq]; unfold Spec.decode; rw [if_pos h]

theorem parse_ok_len {cfg : Cfg} {bs : List UInt8} {m : Msg} (h : parseMessage cfg bs = ok m) : 6 ≤ 8 * bs.length := by
  rw [parseMessage_eq] at h; exact (ite_eof_ok h).1

theorem dispatch_T01 (cfg : Cfg) (t : Nat) (bs : List UInt8) (ht : 1 ≤ t ∧ t ≤ 3) :
    Spec.dispatch cfg t bs = Spec.specT01 bs := by
  unfold Spec.dispatch; simp only []; rw [if_pos ht]

theorem dispatch_T04 (cfg : Cfg) (bs : List UInt8) :
    Spec.dispatch cfg 4 bs = Spec.specBase .BaseStationReport bs := by
  unfold Spec.dispatch; simp (decide := true) only [if_true, if_false]

theorem dispatch_T05 (cfg : Cfg) (bs : List UInt8) :
    Spec.dispatch cfg 5 bs = (if 302 ≤ 8 * bs.length then ok (Spec.decodeT05 bs) else Spec.eof) := by
  unfold Spec.dispatch; simp (decide := true) only [if_true, if_false]

theorem dispatch_T07 (cfg : Cfg) (bs : List UInt8) :
    Spec.dispatch cfg 7 bs = (if 72 ≤ 8 * bs.length then ok (Spec.decodeAcks .BinaryAcknowledgeMessage bs) else Spec.eof) := by
  unfold Spec.dispatch; simp (decide := true) only [if_true, if_false]

theorem dispatch_T06 (cfg : Cfg) (bs : List UInt8) :
    Spec.dispatch cfg 6 bs = (if 88 ≤ 8 * bs.length then Spec.capped cfg (bs.drop 11).length maxData (ok (Spec.decodeT06 bs)) else Spec.eof) := by
  unfold Spec.dispatch; simp (decide := true) only [if_true, if_false]

theorem dispatch_T08 (cfg : Cfg) (bs : List UInt8) :
    Spec.dispatch cfg 8 bs = (if 56 ≤ 8 * bs.length then Spec.capped cfg (bs.drop 7).length maxData (ok (Spec.decodeT08 bs)) else Spec.eof) := by
  unfold Spec.dispatch; simp (decide := true) only [if_true, if_false]

theorem dispatch_T09 (cfg : Cfg) (bs : List UInt8) :
    Spec.dispatch cfg 9 bs = Spec.specT09 bs := by
  unfold Spec.dispatch; simp (decide := true) only [if_true, if_false]

theorem dispatch_T10 (cfg : Cfg) (bs : List UInt8) :
    Spec.dispatch cfg 10 bs = (if 72 ≤ 8 * bs.length then ok (Spec.decodeT10 bs) else Spec.eof) := by
  unfold Spec.dispatch; simp (decide := true) only [if_true, if_false]

theorem dispatch_T11 (cfg : Cfg) (bs : List UInt8) :
    Spec.dispatch cfg 11 bs = Spec.specBase .UtcDateResponse bs := by
  unfold Spec.dispatch; simp (decide := true) only [if_true, if_false]

theorem dispatch_T12 (cfg : Cfg) (bs : List UInt8) :
    Spec.dispatch cfg 12 bs = (if 78 ≤ 8 * bs.length then Spec.capped cfg ((8 * bs.length - 72) / 6) maxText (ok (Spec.decodeT12 bs)) else Spec.eof) := by
  unfold Spec.dispatch; simp (decide := true) only [if_true, if_false]

theorem dispatch_T13 (cfg : Cfg) (bs : List UInt8) :
    Spec.dispatch cfg 13 bs = (if 72 ≤ 8 * bs.length then ok (Spec.decodeAcks .SafetyRelatedAcknowledgment bs) else Spec.eof) := by
  unfold Spec.dispatch; simp (decide := true) only [if_true, if_false]

theorem dispatch_T14 (cfg : Cfg) (bs : List UInt8) :
    Spec.dispatch cfg 14 bs = (if 46 ≤ 8 * bs.length then Spec.capped cfg ((8 * bs.length - 40) / 6) maxText (ok (Spec.decodeT14 bs)) else Spec.eof) := by
  unfold Spec.dispatch; simp (decide := true) only [if_true, if_false]

theorem dispatch_T15 (cfg : Cfg) (bs : List UInt8) :
    Spec.dispatch cfg 15 bs = (if 76 ≤ 8 * bs.length then Spec.decodeT15 bs else Spec.eof) := by
  unfold Spec.dispatch; simp (decide := true) only [if_true, if_false]

theorem dispatch_T16 (cfg : Cfg) (bs : List UInt8) :
    Spec.dispatch cfg 16 bs = (if 92 ≤ 8 * bs.length then ok (Spec.decodeT16 bs (decide (144 ≤ 8 * bs.length))) else Spec.eof) := by
  unfold Spec.dispatch; simp (decide := true) only [if_true, if_false]

theorem dispatch_T17 (cfg : Cfg) (bs : List UInt8) :
    Spec.dispatch cfg 17 bs = (if 120 ≤ 8 * bs.length then Spec.capped cfg (bs.drop 15).length maxData (ok (Spec.decodeT17 bs)) else Spec.eof) := by
  unfold Spec.dispatch; simp (decide := true) only [if_true, if_false]

theorem dispatch_T18 (cfg : Cfg) (bs : List UInt8) :
    Spec.dispatch cfg 18 bs = (if 168 ≤ 8 * bs.length then ok (Spec.decodeT18 bs) else Spec.eof) := by
  unfold Spec.dispatch; simp (decide := true) only [if_true, if_false]

theorem dispatch_T19 (cfg : Cfg) (bs : List UInt8) :
    Spec.dispatch cfg 19 bs = (if 312 ≤ 8 * bs.length then ok (Spec.decodeT19 bs) else Spec.eof) := by
  unfold Spec.dispatch; simp (decide := true) only [if_true, if_false]

theorem dispatch_T20 (cfg : Cfg) (bs : List UInt8) :
    Spec.dispatch cfg 20 bs = (if 70 ≤ 8 * bs.length then ok (Spec.decodeT20 bs) else Spec.eof) := by
  unfold Spec.dispatch; simp (decide := true) only [if_true, if_false]

theorem dispatch_T21 (cfg : Cfg) (bs : List UInt8) :
    Spec.dispatch cfg 21 bs = (if 272 ≤ 8 * bs.length then ok (Spec.decodeT21 bs) else Spec.eof) := by
  unfold Spec.dispatch; simp (decide := true) only [if_true, if_false]

theorem dispatch_T24 (cfg : Cfg) (bs : List UInt8) :
    Spec.dispatch cfg 24 bs = (if 40 ≤ 8 * bs.length then (if field bs 38 2 = 0 then (if 160 ≤ 8 * bs.length then ok (Spec.decodeT24A bs) else Spec.eof) else if field bs 38 2 = 1 then (if 168 ≤ 8 * bs.length then ok (Spec.decodeT24B bs) else Spec.eof) else ok (Spec.decodeT24U bs)) else Spec.eof) := by
  unfold Spec.dispatch; simp (decide := true) only [if_true, if_false]

theorem dispatch_T27 (cfg : Cfg) (bs : List UInt8) :
    Spec.dispatch cfg 27 bs = (if 95 ≤ 8 * bs.length then ok (Spec.decodeT27 bs) else Spec.eof) := by
  unfold Spec.dispatch; simp (decide := true) only [if_true, if_false]

end AisVerif

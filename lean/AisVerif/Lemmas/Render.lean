/-
  Rendering the checksum of a line: two upper-case hexadecimal digits, and what the grammar reads back.
-/
import AisVerif.Lemmas.Outer

namespace AisVerif

def hexDigitChar (d : Nat) : UInt8 := if d < 10 then UInt8.ofNat (48 + d) else UInt8.ofNat (55 + d)

/-- A byte as two upper-case hexadecimal digits. -/
def hex2 (n : Nat) : Bytes := [hexDigitChar (n / 16), hexDigitChar (n % 16)]

theorem hex2_spec : ∀ c : Fin 256,
    (hex2 c.val).takeWhile isHexDigit = hex2 c.val ∧ hexVal ((hex2 c.val).take 8) = c.val := by
  decide +kernel

/-- `!<body>*<cc>` with an arbitrary transmitted checksum value `c`. -/
def renderLineWith (b : Body) (c : Nat) : Bytes := [] ++ [0x21] ++ b.render ++ [0x2A] ++ hex2 c

/-- The grammar reads such a line back as the body and the transmitted value. -/
theorem parse_renderLineWith (cfg : Cfg) (b : Body) (hwf : b.WF cfg) (hs : (0x2A : UInt8) ∉ b.render) (c : Fin 256) :
    parseNmeaSentence cfg (renderLineWith b c.val) = ok (b.render, b.sentence, c.val) := by
  obtain ⟨hx1, hx2⟩ := hex2_spec c
  have hparse := parseNmeaSentence_render cfg [] 0x21 b (hex2 c.val) (Or.inl rfl) (Or.inl rfl) hwf hs
    (by rw [hx1]; simp [hex2]) (by rw [hx1, hx2]; have := c.isLt; omega)
  rw [hx1, hx2] at hparse
  exact hparse

end AisVerif

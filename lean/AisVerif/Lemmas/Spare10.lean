/-
  `take_bits::<_, u8, _, _>(10u8)` — ten bits accumulated in a `u8` (types 4 and 11, bits 138-147).
  It is panic-free only because it starts at bit offset 2 of a byte: the first shift is by 4 (< 8)
  and the two partial sums never exceed 255.
-/
import AisVerif.Lemmas.Take
import AisVerif.Lemmas.Attr

namespace AisVerif
open Spec

/-- What ends up in the `u8` (the crate discards it). -/
def spare10 (bs : List UInt8) (p : Nat) : Nat :=
  (bs[p / 8]?.getD 0).toNat % 64 * 16 % 256 + (bs[p / 8 + 1]?.getD 0).toNat / 16

theorem take_8_10_spec (bs : List UInt8) (p : Nat) (hp : p % 8 = 2) :
    take 8 10 ⟨bs, p⟩ =
      if p + 10 ≤ 8 * bs.length then ok (spare10 bs p, ⟨bs, p + 10⟩) else err (.nomError .eof) := by
  unfold take
  simp only [Cur.rest, List.length_drop, hp, Cur.advance_mk]
  rw [if_neg (by decide)]
  by_cases hfit : p + 10 ≤ 8 * bs.length
  · rw [if_pos hfit, if_neg (by omega)]
    have hlen : p / 8 + 1 < bs.length := by omega
    obtain ⟨b0, b1, rest, hd⟩ : ∃ b0 b1 rest, bs.drop (p / 8) = b0 :: b1 :: rest :=
      ⟨bs[p / 8], bs[p / 8 + 1], bs.drop (p / 8 + 2), by
        rw [List.drop_eq_getElem_cons (by omega), List.drop_eq_getElem_cons (by omega)]⟩
    have e0 : bs[p / 8]? = some b0 := by
      have := congrArg (·[0]?) hd
      simpa [List.getElem?_drop] using this
    have e1 : bs[p / 8 + 1]? = some b1 := by
      have := congrArg (·[1]?) hd
      simpa [List.getElem?_drop] using this
    rw [hd]
    unfold spare10
    rw [e0, e1]
    simp only [Option.getD_some]
    simp only [List.take, takeLoop, shlW, addW, Nat.reduceAdd, Nat.reduceDiv, Nat.reduceSub, Nat.reducePow,
      Nat.reduceLT, if_true, if_false, Nat.reduceEqDiff, Res.ok_bind, Nat.zero_add]
    have hy : b1.toNat < 256 := b1.toNat_lt
    generalize b0.toNat = x
    generalize b1.toNat = y at hy
    have h1 : x % 64 * 16 % 256 < 256 := Nat.mod_lt _ (by decide)
    rw [if_pos h1]
    simp only [Res.ok_bind]
    have h2 : x % 64 * 16 % 256 + y % 256 / 16 < 256 := by omega
    rw [if_pos h2]
    have : y % 256 = y := Nat.mod_eq_of_lt hy
    simp only [Res.ok_bind, this]
  · rw [if_neg hfit, if_pos (by omega)]

@[ais_take] theorem take_bind_8_10_138 {β : Type} (bs : List UInt8) (f : Nat × Cur → Res β) :
    (take 8 10 ⟨bs, 138⟩ >>= f) =
      if 148 ≤ 8 * bs.length then f (spare10 bs 138, ⟨bs, 148⟩) else err (.nomError .eof) := by
  rw [take_8_10_spec bs 138 (by decide)]
  by_cases h : 148 ≤ 8 * bs.length
  · simp only [Nat.reduceAdd, h, if_true, Res.ok_bind]
  · simp only [Nat.reduceAdd, h, if_false, Res.err_bind]

end AisVerif

/-
  Inversion of the sentence-level parsers (outer structure) and of `AisParser::parse`.
-/
import AisVerif.Model.Sentence
import AisVerif.Lemmas.TakeInst

namespace AisVerif
open Spec

theorem bind_ok {α β : Type} {r : Res α} {f : α → Res β} {b : β} (h : (r >>= f) = ok b) :
    ∃ a, r = ok a ∧ f a = ok b := by
  cases r with
  | ok a => exact ⟨a, rfl, h⟩
  | err e => cases h
  | panic p => cases h

theorem tag_ok {t i rest x : Bytes} (h : tag t i = ok (rest, x)) : i = t ++ rest ∧ x = t := by
  unfold tag at h
  by_cases hp : t.isPrefixOf i = true
  · rw [if_pos hp] at h
    cases h
    have := List.isPrefixOf_iff_prefix.mp hp
    obtain ⟨s, hs⟩ := this
    subst hs
    simp
  · rw [if_neg hp] at h; cases h

theorem dropWhile_ne_head (b : UInt8) (i : Bytes) (h : b ∈ i) : ∃ l, i.dropWhile (· != b) = b :: l := by
  induction i with
  | nil => cases h
  | cons a t ih =>
    by_cases hab : a = b
    · subst hab; exact ⟨t, by simp⟩
    · have hm : b ∈ t := by
        rcases List.mem_cons.mp h with h1 | h1
        · exact absurd h1.symm hab
        · exact h1
      obtain ⟨l, hl⟩ := ih hm
      refine ⟨l, ?_⟩
      rw [List.dropWhile_cons_of_pos (by simpa using hab)]
      exact hl

theorem not_mem_takeWhile_ne (b : UInt8) (i : Bytes) : b ∉ i.takeWhile (· != b) := by
  intro hin
  have hall : (i.takeWhile (· != b)).all (· != b) = true := List.all_takeWhile
  have := List.all_eq_true.mp hall b hin
  simp at this

theorem takeUntil_ok {b : UInt8} {i rest pre : Bytes} (h : takeUntil b i = ok (rest, pre)) :
    i = pre ++ rest ∧ b ∉ pre ∧ rest.head? = some b := by
  unfold takeUntil at h
  by_cases hm : b ∈ i
  · rw [if_pos hm] at h
    cases h
    refine ⟨(List.takeWhile_append_dropWhile (p := fun x => x != b) (l := i)).symm, not_mem_takeWhile_ne b i, ?_⟩
    obtain ⟨l, hl⟩ := dropWhile_ne_head b i hm
    rw [hl]; rfl
  · rw [if_neg hm] at h; cases h

/-- `opt` succeeds with `none` (input untouched) or with the inner parser's result. -/
theorem opt_ok {α : Type} {p : Bytes → Res (Bytes × α)} {i rest : Bytes} {o : Option α}
    (h : opt p i = ok (rest, o)) : (o = none ∧ rest = i) ∨ ∃ a, o = some a ∧ p i = ok (rest, a) := by
  unfold opt at h
  cases hp : p i with
  | ok r =>
    rw [hp] at h; obtain ⟨r1, a⟩ := r
    simp only [] at h; cases h; exact Or.inr ⟨a, rfl, rfl⟩
  | err e =>
    rw [hp] at h
    cases e with
    | nomError k => simp only [] at h; cases h; exact Or.inl ⟨rfl, rfl⟩
    | nomFailure k => simp only [] at h; cases h
    | text m => simp only [] at h; cases h
    | checksum a b => simp only [] at h; cases h
  | panic q => rw [hp] at h; simp only [] at h; cases h

theorem tagBlock_ok {i rest : Bytes} {u : Unit} (h : tagBlock i = ok (rest, u)) :
    ∃ tb, i = [0x5C] ++ tb ++ [0x5C] ++ rest ∧ (0x5C : UInt8) ∉ tb := by
  unfold tagBlock at h
  obtain ⟨⟨i1, x1⟩, h1, h⟩ := bind_ok h
  obtain ⟨⟨i2, tb⟩, h2, h⟩ := bind_ok h
  obtain ⟨⟨i3, x3⟩, h3, h⟩ := bind_ok h
  cases h
  have a1 := tag_ok h1
  have a2 := takeUntil_ok h2
  have a3 := tag_ok h3
  refine ⟨tb, ?_, a2.2.1⟩
  rw [a1.1, a2.1, a3.1]; simp

theorem delimiter_ok {i rest x : Bytes} (h : delimiter i = ok (rest, x)) :
    ∃ d : UInt8, (d = 0x21 ∨ d = 0x24) ∧ i = d :: rest := by
  unfold delimiter at h
  cases h1 : tag [0x21] i with
  | ok r =>
    rw [h1] at h; simp only [] at h; cases h
    have := tag_ok h1
    exact ⟨0x21, Or.inl rfl, by rw [this.1]; rfl⟩
  | err e =>
    rw [h1] at h
    cases e with
    | nomError k =>
      simp only [] at h
      have := tag_ok h
      exact ⟨0x24, Or.inr rfl, by rw [this.1]; rfl⟩
    | nomFailure k => simp only [] at h; cases h
    | text m => simp only [] at h; cases h
    | checksum a b => simp only [] at h; cases h
  | panic q => rw [h1] at h; simp only [] at h; cases h

/-- `hex_u32` reads a non-empty run of hex digits and evaluates its first (at most) eight. -/
theorem hexU32_ok {i rest : Bytes} {v : Nat} (h : hexU32 i = ok (rest, v)) :
    i.takeWhile isHexDigit ≠ [] ∧ v = hexVal ((i.takeWhile isHexDigit).take 8) := by
  unfold hexU32 at h
  by_cases hr : i.takeWhile isHexDigit = []
  · simp only [hr, if_true] at h; cases h
  · simp only [hr, if_false] at h; cases h; exact ⟨hr, rfl⟩

/-- The structure every line accepted at the sentence level has. -/
structure Outer (line : Bytes) (raw : Bytes) (s : Sentence) (cks : Nat) (cfg : Cfg) : Prop where
  split : ∃ (pre : Bytes) (d : UInt8) (rest : Bytes),
    line = pre ++ [d] ++ raw ++ [0x2A] ++ rest ∧ (d = 0x21 ∨ d = 0x24) ∧
    (pre = [] ∨ ∃ tb, pre = [0x5C] ++ tb ++ [0x5C] ∧ (0x5C : UInt8) ∉ tb) ∧
    rest.takeWhile isHexDigit ≠ [] ∧ cks = hexVal ((rest.takeWhile isHexDigit).take 8)
  noStar : (0x2A : UInt8) ∉ raw
  body : parseAisSentence cfg raw = ok ([], s)
  small : cks ≤ 0xFF

theorem parseNmeaSentence_ok {cfg : Cfg} {line raw : Bytes} {s : Sentence} {cks : Nat}
    (h : parseNmeaSentence cfg line = ok (raw, s, cks)) : Outer line raw s cks cfg := by
  unfold parseNmeaSentence at h
  obtain ⟨⟨i1, o1⟩, h1, h⟩ := bind_ok h
  obtain ⟨⟨i2, x2⟩, h2, h⟩ := bind_ok h
  obtain ⟨⟨i3, raw'⟩, h3, h⟩ := bind_ok h
  obtain ⟨⟨rest4, msg⟩, h4, h⟩ := bind_ok h
  simp only [] at h
  by_cases hr : rest4 ≠ []
  · rw [if_pos hr] at h; cases h
  · rw [if_neg hr] at h
    obtain ⟨⟨i5, x5⟩, h5, h⟩ := bind_ok h
    obtain ⟨⟨i6, v⟩, h6, h⟩ := bind_ok h
    simp only [] at h
    by_cases hv : ¬ v ≤ 0xFF
    · rw [if_pos hv] at h; cases h
    · rw [if_neg hv] at h
      cases h
      have hr' : rest4 = [] := by simpa using hr
      subst hr'
      have a3 := takeUntil_ok h3
      have a5 := tag_ok h5
      have a6 := hexU32_ok h6
      have a2 := delimiter_ok (i := i1) (rest := i2) (x := x2) h2
      obtain ⟨d, hd, hi1⟩ := a2
      have hv' : cks ≤ 0xFF := by omega
      refine ⟨?_, a3.2.1, h4, hv'⟩
      rcases opt_ok h1 with ⟨_, hi⟩ | ⟨u, _, htb⟩
      · refine ⟨[], d, i5, ?_, hd, Or.inl rfl, a6.1, a6.2⟩
        rw [← hi, hi1, a3.1, a5.1]; simp
      · obtain ⟨tb, htb1, htb2⟩ := tagBlock_ok htb
        refine ⟨[0x5C] ++ tb ++ [0x5C], d, i5, ?_, hd, Or.inr ⟨tb, rfl, htb2⟩, a6.1, a6.2⟩
        rw [htb1, hi1, a3.1, a5.1]; simp

end AisVerif

/-
  `many_m_n(1, MAX, elem)` over a fixed-width element parser: the number of elements is the number
  of complete elements present, capped at MAX; at least one is required.
-/
import AisVerif.Lemmas.Take
import AisVerif.Model.MsgB

namespace AisVerif
open Spec

/-- The elements `elem bs q, elem bs (q+w), …` (n of them). -/
def elemsFrom {α : Type} (elem : List UInt8 → Nat → α) (bs : List UInt8) (w : Nat) (q : Nat) : Nat → List α
  | 0 => []
  | n + 1 => elem bs q :: elemsFrom elem bs w (q + w) n

theorem manyLoop_spec {α : Type} (p : Cur → Res (α × Cur)) (elem : List UInt8 → Nat → α) (bs : List UInt8)
    (w : Nat) (hw : 0 < w)
    (hp : ∀ q, p ⟨bs, q⟩ = if q + w ≤ 8 * bs.length then ok (elem bs q, ⟨bs, q + w⟩) else err (.nomError .eof)) :
    ∀ (k count q : Nat) (acc : List α), q ≤ 8 * bs.length → 0 < count + k →
      manyLoop p 1 k count ⟨bs, q⟩ acc =
        if count + min k ((8 * bs.length - q) / w) < 1 then err (.nomError .eof)
        else ok (acc ++ elemsFrom elem bs w q (min k ((8 * bs.length - q) / w)),
                 ⟨bs, q + w * min k ((8 * bs.length - q) / w)⟩) := by
  intro k
  induction k with
  | zero =>
    intro count q acc hq hpos
    simp only [manyLoop, Nat.zero_min, Nat.add_zero, Nat.mul_zero, elemsFrom, List.append_nil]
    have : ¬ count < 1 := by omega
    simp only [this, if_false]
  | succ k ih =>
    intro count q acc hq hpos
    unfold manyLoop
    rw [hp q]
    by_cases hfit : q + w ≤ 8 * bs.length
    · simp only [hfit, if_true, Cur.remaining_mk]
      have hne : ¬ (8 * bs.length - (q + w) = 8 * bs.length - q) := by omega
      simp only [hne, if_false]
      rw [ih (count + 1) (q + w) (acc ++ [elem bs q]) hfit (by omega)]
      have hd : (8 * bs.length - q) / w = (8 * bs.length - (q + w)) / w + 1 := by
        have : 8 * bs.length - q = (8 * bs.length - (q + w)) + w := by omega
        rw [this, Nat.add_div_right _ hw]
      have hm : min (k + 1) ((8 * bs.length - q) / w) = min k ((8 * bs.length - (q + w)) / w) + 1 := by
        rw [hd]; omega
      rw [hm]
      generalize min k ((8 * bs.length - (q + w)) / w) = m
      have c1 : ¬ (count + 1 + m < 1) := by omega
      have c2 : ¬ (count + (m + 1) < 1) := by omega
      simp only [c1, c2, if_false]
      simp only [elemsFrom, List.append_assoc, List.singleton_append, Nat.mul_add, Nat.mul_one]
      congr 2
      congr 1
      omega
    · simp only [hfit, if_false]
      have hd : (8 * bs.length - q) / w = 0 := Nat.div_eq_of_lt (by omega)
      simp only [hd, Nat.min_zero, Nat.add_zero, Nat.mul_zero, elemsFrom, List.append_nil]

/-- `many_m_n(1, 4, p)` -/
theorem manyMN_1_4_spec {α : Type} (p : Cur → Res (α × Cur)) (elem : List UInt8 → Nat → α) (bs : List UInt8)
    (w : Nat) (hw : 0 < w)
    (hp : ∀ q, p ⟨bs, q⟩ = if q + w ≤ 8 * bs.length then ok (elem bs q, ⟨bs, q + w⟩) else err (.nomError .eof))
    (q : Nat) (hq : q ≤ 8 * bs.length) :
    manyMN 1 4 p ⟨bs, q⟩ =
      if (8 * bs.length - q) / w < 1 then err (.nomError .eof)
      else ok (elemsFrom elem bs w q (min 4 ((8 * bs.length - q) / w)),
               ⟨bs, q + w * min 4 ((8 * bs.length - q) / w)⟩) := by
  unfold manyMN
  rw [if_neg (by decide)]
  rw [manyLoop_spec p elem bs w hw hp 4 0 q [] hq (by decide)]
  simp only [Nat.zero_add, List.nil_append]
  by_cases h : (8 * bs.length - q) / w < 1
  · have h' : min 4 ((8 * bs.length - q) / w) < 1 := by omega
    simp only [h, h', if_true]
  · have h' : ¬ min 4 ((8 * bs.length - q) / w) < 1 := by omega
    simp only [h, h', if_false]

end AisVerif

/-
  Both directions for the combinators of `parse_ais_sentence`: inversion (what an accepted input
  looks like) and construction (a rendered input is accepted with exactly its fields).
-/
import AisVerif.Lemmas.Sentence

namespace AisVerif
open Spec

/-! ### take(n) -/

theorem takeBytes_ok {n : Nat} {i rest a : Bytes} (h : takeBytes n i = ok (rest, a)) :
    i = a ++ rest ∧ a.length = n := by
  unfold takeBytes at h
  by_cases hl : i.length < n
  · rw [if_pos hl] at h; cases h
  · rw [if_neg hl] at h; cases h
    exact ⟨(List.take_append_drop n i).symm, by simp; omega⟩

theorem takeBytes_append (a rest : Bytes) : takeBytes a.length (a ++ rest) = ok (rest, a) := by
  unfold takeBytes
  rw [if_neg (by simp)]
  simp

/-! ### tag -/

theorem tag_append (t rest : Bytes) : tag t (t ++ rest) = ok (rest, t) := by
  unfold tag
  have : t.isPrefixOf (t ++ rest) = true := List.isPrefixOf_iff_prefix.mpr ⟨rest, rfl⟩
  rw [if_pos this]; simp

theorem tag_ne {t : UInt8} {i : Bytes} (h : i.head? ≠ some t) : tag [t] i = err (.nomError .tag) := by
  unfold tag
  cases i with
  | nil => rfl
  | cons a l =>
    have : a ≠ t := by intro e; apply h; rw [e]; rfl
    have hp : ([t] : Bytes).isPrefixOf (a :: l) = false := by
      simp [List.isPrefixOf, this.symm]
    rw [hp]; rfl

/-! ### take_until -/

theorem takeUntil_append (b : UInt8) (pre post : Bytes) (h : b ∉ pre) :
    takeUntil b (pre ++ b :: post) = ok (b :: post, pre) := by
  unfold takeUntil
  rw [if_pos (by simp)]
  have hall : ∀ a ∈ pre, (a != b) = true := by
    intro a ha
    have : a ≠ b := fun e => h (e ▸ ha)
    simpa using this
  rw [List.takeWhile_append_of_pos hall, List.dropWhile_append_of_pos hall]
  simp

/-! ### digit1 / parse_u8_digit -/

def AllDigits (ds : Bytes) : Prop := ∀ d ∈ ds, isDigit d = true

def NoLeadDigit (rest : Bytes) : Prop := ∀ d, rest.head? = some d → isDigit d = false

theorem digit1_ok {i rest ds : Bytes} (h : digit1 i = ok (rest, ds)) :
    i = ds ++ rest ∧ ds ≠ [] ∧ AllDigits ds ∧ NoLeadDigit rest := by
  unfold digit1 at h
  simp only [] at h
  by_cases he : i.takeWhile isDigit = []
  · rw [if_pos he] at h; cases h
  · rw [if_neg he] at h; cases h
    refine ⟨(List.takeWhile_append_dropWhile).symm, he, ?_, ?_⟩
    · intro d hd
      have hall : (i.takeWhile isDigit).all isDigit = true := List.all_takeWhile
      exact List.all_eq_true.mp hall d hd
    · intro d hd
      have := List.head?_dropWhile_not isDigit i
      rw [hd] at this
      simpa using this

theorem digit1_append (ds rest : Bytes) (hne : ds ≠ []) (hd : AllDigits ds) (hr : NoLeadDigit rest) :
    digit1 (ds ++ rest) = ok (rest, ds) := by
  unfold digit1
  have hr0 : rest.takeWhile isDigit = [] ∧ rest.dropWhile isDigit = rest := by
    cases rest with
    | nil => exact ⟨rfl, rfl⟩
    | cons a l =>
      have : isDigit a = false := hr a rfl
      simp [this]
  simp only [List.takeWhile_append_of_pos hd, List.dropWhile_append_of_pos hd, hr0.1, hr0.2, List.append_nil]
  rw [if_neg hne]

theorem parseU8Digit_ok {i rest : Bytes} {v : Nat} (h : parseU8Digit i = ok (rest, v)) :
    ∃ ds, i = ds ++ rest ∧ ds ≠ [] ∧ AllDigits ds ∧ NoLeadDigit rest ∧ v = decVal ds ∧ v ≤ 255 := by
  unfold parseU8Digit at h
  obtain ⟨⟨r, ds⟩, h1, h⟩ := bind_ok h
  simp only [] at h
  by_cases hv : decVal ds ≤ 255
  · rw [if_pos hv] at h; cases h
    obtain ⟨a, b, c, d⟩ := digit1_ok h1
    exact ⟨ds, a, b, c, d, rfl, hv⟩
  · rw [if_neg hv] at h; cases h

theorem parseU8Digit_append (ds rest : Bytes) (hne : ds ≠ []) (hd : AllDigits ds) (hr : NoLeadDigit rest)
    (hv : decVal ds ≤ 255) : parseU8Digit (ds ++ rest) = ok (rest, decVal ds) := by
  unfold parseU8Digit
  rw [digit1_append ds rest hne hd hr]
  simp only [Res.ok_bind]
  rw [if_pos hv]

/-- A digit string that is too large, or no digit at all, makes `parse_u8_digit` fail with a
    recoverable error (so `opt` yields `None` and consumes nothing). -/
theorem parseU8Digit_nodigit {rest : Bytes} (hr : NoLeadDigit rest) : ∃ k, parseU8Digit rest = err (.nomError k) := by
  unfold parseU8Digit digit1
  have : rest.takeWhile isDigit = [] := by
    cases rest with
    | nil => rfl
    | cons a l => have : isDigit a = false := hr a rfl; simp [this]
  simp only [this, if_true, Res.err_bind]
  exact ⟨_, rfl⟩

theorem comma_noLeadDigit (rest : Bytes) : NoLeadDigit ((0x2C : UInt8) :: rest) := by
  intro d hd; simp at hd; subst hd; decide

theorem nil_noLeadDigit : NoLeadDigit [] := by intro d hd; cases hd

end AisVerif

import AisVerif.Lemmas.Take
import AisVerif.Spec.Radio

namespace AisVerif
open Spec

theorem parseSotdma_spec (bs : List UInt8) (p : Nat) :
    parseSotdma ⟨bs, p⟩ =
      if p + 19 ≤ 8 * bs.length then ok (Spec.sotdma (field bs p 19), ⟨bs, p + 19⟩)
      else err (.nomError .eof) := by
  have hv : field bs p 19 = field bs p 2 * 2 ^ 17 + field bs (p + 2) 3 * 2 ^ 14 + field bs (p + 5) 14 := by
    have h1 := field_add bs p 5 14
    have h2 := field_add bs p 2 3
    simp only [Nat.reduceAdd] at h1 h2
    rw [h1, h2]; omega
  have hs : field bs (p + 5) 14 = field bs (p + 5) 5 * 2 ^ 9 + field bs (p + 10) 1 * 2 ^ 8
      + field bs (p + 11) 6 * 2 ^ 2 + field bs (p + 17) 2 := by
    have h1 := field_add bs (p + 5) 12 2
    have h2 := field_add bs (p + 5) 6 6
    have h3 := field_add bs (p + 5) 5 1
    simp only [Nat.reduceAdd, Nat.add_assoc] at h1 h2 h3
    rw [h1, h2, h3]; omega
  have ha := field_lt bs p 2
  have ht := field_lt bs (p + 2) 3
  have hsub := field_lt bs (p + 5) 14
  have hh := field_lt bs (p + 5) 5
  have hsp := field_lt bs (p + 10) 1
  have hm := field_lt bs (p + 11) 6
  have hsp2 := field_lt bs (p + 17) 2
  unfold parseSotdma
  simp only [take_bind bs _ _ (by decide : 0 < 2) (by decide : 2 ≤ 8),
    take_bind bs _ _ (by decide : 0 < 3) (by decide : 3 ≤ 8), Nat.add_assoc, Nat.reduceAdd]
  by_cases hfit : p + 19 ≤ 8 * bs.length
  · rw [if_pos (by omega), if_pos (by omega), if_pos hfit]
    have e1 : field bs p 19 / 2 ^ 17 = field bs p 2 := by omega
    have e2 : field bs p 19 / 2 ^ 14 % 8 = field bs (p + 2) 3 := by omega
    have e3 : field bs p 19 % 2 ^ 14 = field bs (p + 5) 14 := by omega
    unfold Spec.sotdma
    simp only [e1, e2, e3]
    generalize hA : field bs p 2 = a at *
    generalize hT : field bs (p + 2) 3 = t at *
    have : t = 0 ∨ t = 1 ∨ t = 2 ∨ t = 3 ∨ t = 4 ∨ t = 5 ∨ t = 6 ∨ t = 7 := by omega
    rcases this with h | h | h | h | h | h | h | h <;> subst h <;>
      simp only [parseSubMessage, take_bind bs _ _ (by decide : 0 < 14) (by decide : 14 ≤ 15),
        take_bind bs _ _ (by decide : 0 < 14) (by decide : 14 ≤ 16),
        take_bind bs _ _ (by decide : 0 < 5) (by decide : 5 ≤ 8),
        take_bind bs _ _ (by decide : 0 < 1) (by decide : 1 ≤ 8),
        take_bind bs _ _ (by decide : 0 < 6) (by decide : 6 ≤ 8),
        take_bind bs _ _ (by decide : 0 < 2) (by decide : 2 ≤ 8),
        Nat.add_assoc, Nat.reduceAdd] <;>
      (try rw [if_pos (by omega)]) <;> (try rw [if_pos (by omega)]) <;> (try rw [if_pos (by omega)]) <;>
      (try rw [if_pos (by omega)]) <;> simp only [Res.ok_bind] <;>
      first
        | rfl
        | (have e4 : field bs (p + 5) 14 / 2 ^ 9 = field bs (p + 5) 5 := by omega
           have e5 : field bs (p + 5) 14 / 4 % 64 = field bs (p + 11) 6 := by omega
           simp [e4, e5])
  · rw [if_neg hfit]
    by_cases h1 : p + 2 ≤ 8 * bs.length
    · rw [if_pos h1]
      by_cases h2 : p + 5 ≤ 8 * bs.length
      · rw [if_pos h2]
        generalize hT : field bs (p + 2) 3 = t at *
        have : t = 0 ∨ t = 1 ∨ t = 2 ∨ t = 3 ∨ t = 4 ∨ t = 5 ∨ t = 6 ∨ t = 7 := by omega
        rcases this with h | h | h | h | h | h | h | h <;> subst h <;>
          simp only [parseSubMessage, take_bind bs _ _ (by decide : 0 < 14) (by decide : 14 ≤ 15),
            take_bind bs _ _ (by decide : 0 < 14) (by decide : 14 ≤ 16),
            take_bind bs _ _ (by decide : 0 < 5) (by decide : 5 ≤ 8),
            take_bind bs _ _ (by decide : 0 < 1) (by decide : 1 ≤ 8),
            take_bind bs _ _ (by decide : 0 < 6) (by decide : 6 ≤ 8),
            take_bind bs _ _ (by decide : 0 < 2) (by decide : 2 ≤ 8),
            Nat.add_assoc, Nat.reduceAdd] <;>
          (repeat' split) <;> first | rfl | (exfalso; omega)
      · rw [if_neg h2]
    · rw [if_neg h1]


theorem parseItdma_spec (bs : List UInt8) (p : Nat) :
    parseItdma ⟨bs, p⟩ =
      if p + 19 ≤ 8 * bs.length then ok (Spec.itdma (field bs p 19), ⟨bs, p + 19⟩)
      else err (.nomError .eof) := by
  have hv : field bs p 19 = field bs p 2 * 2 ^ 17 + field bs (p + 2) 13 * 2 ^ 4 + field bs (p + 15) 3 * 2
      + field bs (p + 18) 1 := by
    have h1 := field_add bs p 18 1
    have h2 := field_add bs p 15 3
    have h3 := field_add bs p 2 13
    simp only [Nat.reduceAdd] at h1 h2 h3
    rw [h1, h2, h3]; omega
  have ha := field_lt bs p 2
  have hi := field_lt bs (p + 2) 13
  have hn := field_lt bs (p + 15) 3
  have hk := field_lt bs (p + 18) 1
  unfold parseItdma
  simp only [take_bind bs _ _ (by decide : 0 < 2) (by decide : 2 ≤ 8),
    take_bind bs _ _ (by decide : 0 < 13) (by decide : 13 ≤ 15),
    take_bind bs _ _ (by decide : 0 < 3) (by decide : 3 ≤ 8),
    take_bind bs _ _ (by decide : 0 < 1) (by decide : 1 ≤ 8), Nat.add_assoc, Nat.reduceAdd,
    u8ToBool_field, Res.ok_bind]
  by_cases hfit : p + 19 ≤ 8 * bs.length
  · rw [if_pos (by omega), if_pos (by omega), if_pos (by omega), if_pos hfit, if_pos hfit]
    have e1 : field bs p 19 / 2 ^ 17 = field bs p 2 := by omega
    have e2 : field bs p 19 / 16 % 2 ^ 13 = field bs (p + 2) 13 := by omega
    have e3 : field bs p 19 / 2 % 8 = field bs (p + 15) 3 := by omega
    have e4 : field bs p 19 % 2 = field bs (p + 18) 1 := by omega
    unfold Spec.itdma
    simp only [e1, e2, e3, e4]
  · rw [if_neg hfit]
    (repeat' split) <;> first | rfl | (exfalso; omega)

/-- The communication state the crate's `parse_radio` computes from the message type. -/
def Spec.radioOf (msgType : Nat) (v : Nat) : Option (List (Key × Val)) :=
  if msgType = 1 ∨ msgType = 2 ∨ msgType = 4 ∨ msgType = 11 ∨ msgType = 9 then some (Spec.sotdma v)
  else if msgType = 3 then some (Spec.itdma v)
  else none

theorem parseRadio_spec (bs : List UInt8) (p t : Nat) :
    parseRadio ⟨bs, p⟩ t =
      match Spec.radioOf t (field bs p 19) with
      | some r => if p + 19 ≤ 8 * bs.length then ok (r, ⟨bs, p + 19⟩) else err (.nomError .eof)
      | none => err (.nomFailure .digit) := by
  unfold parseRadio Spec.radioOf
  by_cases h1 : t = 1 ∨ t = 2 ∨ t = 4 ∨ t = 11 ∨ t = 9
  · simp only [h1, if_true, parseSotdma_spec]
  · simp only [h1, if_false]
    by_cases h3 : t = 3
    · simp only [h3, if_true, parseItdma_spec]
    · simp only [h3, if_false]

end AisVerif

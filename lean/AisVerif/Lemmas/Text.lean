import AisVerif.Lemmas.Take
import AisVerif.Lemmas.Attr
import AisVerif.Spec.Text

namespace AisVerif
open Spec

theorem sixbitToAscii_field (bs : List UInt8) (p : Nat) :
    sixbitToAscii (field bs p 6) = ok (Spec.sixbitAscii (field bs p 6)) := by
  have := field_lt bs p 6
  unfold sixbitToAscii Spec.sixbitAscii
  by_cases h : field bs p 6 < 32
  · simp only [h, if_true]
  · simp only [h, if_false]; rw [if_pos (by omega)]

theorem trimText_eq (cs : List UInt8) : trimText cs = Spec.trim cs := rfl

theorem countChars_spec (bs : List UInt8) :
    ∀ (n p : Nat), countChars n ⟨bs, p⟩ =
      if n = 0 then ok ([], ⟨bs, p⟩)
      else if p + 6 * n ≤ 8 * bs.length then ok (Spec.chars bs p n, ⟨bs, p + 6 * n⟩)
      else err (.nomError .eof) := by
  intro n
  induction n with
  | zero => intro p; simp [countChars]
  | succ k ih =>
    intro p
    unfold countChars
    rw [take_bind bs p _ (by decide) (by decide)]
    have hk1 : ¬ (k + 1 = 0) := by omega
    simp only [hk1, if_false]
    by_cases h6 : p + 6 ≤ 8 * bs.length
    · simp only [h6, if_true, sixbitToAscii_field, Res.ok_bind, ih (p + 6)]
      by_cases hk : k = 0
      · subst hk
        simp only [if_true, Res.ok_bind, Nat.mul_one, Nat.zero_add, h6]
        rfl
      · simp only [hk, if_false]
        by_cases hfit : p + 6 * (k + 1) ≤ 8 * bs.length
        · have h' : p + 6 + 6 * k ≤ 8 * bs.length := by omega
          simp only [h', hfit, if_true, Res.ok_bind, Spec.chars]
          congr 2; congr 1; omega
        · have h' : ¬ p + 6 + 6 * k ≤ 8 * bs.length := by omega
          simp only [h', hfit, if_false, Res.err_bind]
    · have h' : ¬ p + 6 * (k + 1) ≤ 8 * bs.length := by omega
      simp only [h6, h', if_false]

/-- `parse_6bit_ascii` on a field of `k ≥ 1` characters that fits the no-alloc buffer. -/
theorem parse6bitAscii_bind {β : Type} (cfg : Cfg) (bs : List UInt8) (p k : Nat)
    (f : Val × Cur → Res β) (hk : 0 < k) (h20 : k ≤ 20) :
    (parse6bitAscii cfg ⟨bs, p⟩ (6 * k) >>= f) =
      if p + 6 * k ≤ 8 * bs.length then f (.text (Spec.trim (Spec.chars bs p k)), ⟨bs, p + 6 * k⟩)
      else err (.nomError .eof) := by
  unfold parse6bitAscii
  have hd : 6 * k / 6 = k := by omega
  simp only [hd]
  have hcap : (cfg.isNoalloc && decide (maxText < k)) = false := by
    have : ¬ maxText < k := by unfold maxText; omega
    simp [this]
  rw [hcap]
  have hk0 : ¬ (k = 0) := by omega
  simp only [Bool.false_eq_true, if_false, countChars_spec, hk0]
  by_cases h : p + 6 * k ≤ 8 * bs.length
  · simp only [h, if_true, Res.ok_bind, trimText_eq]
  · simp only [h, if_false, Res.err_bind]

@[ais_take] theorem parse6bitAscii_bind_42 {β : Type} (cfg : Cfg) (bs : List UInt8) (p : Nat) (f : Val × Cur → Res β) :
    (parse6bitAscii cfg ⟨bs, p⟩ 42 >>= f) =
      if p + 42 ≤ 8 * bs.length then f (.text (Spec.trim (Spec.chars bs p 7)), ⟨bs, p + 42⟩) else err (.nomError .eof) :=
  parse6bitAscii_bind cfg bs p 7 f (by decide) (by decide)

@[ais_take] theorem parse6bitAscii_bind_120 {β : Type} (cfg : Cfg) (bs : List UInt8) (p : Nat) (f : Val × Cur → Res β) :
    (parse6bitAscii cfg ⟨bs, p⟩ 120 >>= f) =
      if p + 120 ≤ 8 * bs.length then f (.text (Spec.trim (Spec.chars bs p 20)), ⟨bs, p + 120⟩) else err (.nomError .eof) :=
  parse6bitAscii_bind cfg bs p 20 f (by decide) (by decide)

@[ais_take] theorem parse6bitAscii_bind_18 {β : Type} (cfg : Cfg) (bs : List UInt8) (p : Nat) (f : Val × Cur → Res β) :
    (parse6bitAscii cfg ⟨bs, p⟩ 18 >>= f) =
      if p + 18 ≤ 8 * bs.length then f (.text (Spec.trim (Spec.chars bs p 3)), ⟨bs, p + 18⟩) else err (.nomError .eof) :=
  parse6bitAscii_bind cfg bs p 3 f (by decide) (by decide)

@[ais_take] theorem parse6bitAscii_bind_24 {β : Type} (cfg : Cfg) (bs : List UInt8) (p : Nat) (f : Val × Cur → Res β) :
    (parse6bitAscii cfg ⟨bs, p⟩ 24 >>= f) =
      if p + 24 ≤ 8 * bs.length then f (.text (Spec.trim (Spec.chars bs p 4)), ⟨bs, p + 24⟩) else err (.nomError .eof) :=
  parse6bitAscii_bind cfg bs p 4 f (by decide) (by decide)

/-- `parse_6bit_ascii` in general: `size / 6` characters, or a failure when the no-alloc buffer
    (20 characters) would overflow, or `Eof` when they do not fit. -/
theorem parse6bitAscii_spec (cfg : Cfg) (bs : List UInt8) (p size : Nat) :
    parse6bitAscii cfg ⟨bs, p⟩ size =
      if cfg.isNoalloc && decide (maxText < size / 6) then err (.nomFailure .tooLarge)
      else if size / 6 = 0 then ok (.text [], ⟨bs, p⟩)
      else if p + 6 * (size / 6) ≤ 8 * bs.length then
        ok (.text (Spec.trim (Spec.chars bs p (size / 6))), ⟨bs, p + 6 * (size / 6)⟩)
      else err (.nomError .eof) := by
  unfold parse6bitAscii
  simp only [countChars_spec]
  by_cases hc : (cfg.isNoalloc && decide (maxText < size / 6)) = true
  · simp only [hc, if_true]
  · simp only [hc, if_false]
    by_cases h0 : size / 6 = 0
    · simp only [h0, if_true, Res.ok_bind]; rfl
    · simp only [h0, if_false]
      by_cases h : p + 6 * (size / 6) ≤ 8 * bs.length
      · simp only [h, if_true, Res.ok_bind, trimText_eq]
      · simp only [h, if_false, Res.err_bind]

end AisVerif

/-
  The sentence grammar and the reassembly step never panic and never produce a `Checksum` error
  (generated from NoPanicSentence.lean by replacing the predicate).
-/
import AisVerif.Lemmas.NoPanicSentence

namespace AisVerif
open Spec

theorem cl_bind {α β : Type} {r : Res α} {f : α → Res β} (hr : Clean r) (hf : ∀ a, Clean (f a)) :
    Clean (r >>= f) := by
  cases r with
  | ok a => exact hf a
  | err e => exact ⟨fun _ h => (by cases h), fun a b h => hr.2 a b (by cases h; rfl)⟩
  | panic q => exact absurd rfl (hr.1 q)


theorem cl_tag (t i : Bytes) : Clean (tag t i) := by unfold tag; exact cl_ite (cl_ok _) (by first | exact cl_nomError _ | exact cl_nomFailure _ | exact cl_text _)
theorem cl_takeBytes (n : Nat) (i : Bytes) : Clean (takeBytes n i) := by
  unfold takeBytes; exact cl_ite (by first | exact cl_nomError _ | exact cl_nomFailure _ | exact cl_text _) (cl_ok _)
theorem cl_takeUntil (b : UInt8) (i : Bytes) : Clean (takeUntil b i) := by
  unfold takeUntil; exact cl_ite (cl_ok _) (by first | exact cl_nomError _ | exact cl_nomFailure _ | exact cl_text _)
theorem cl_digit1 (i : Bytes) : Clean (digit1 i) := by
  unfold digit1; exact cl_ite (by first | exact cl_nomError _ | exact cl_nomFailure _ | exact cl_text _) (cl_ok _)
theorem cl_parseU8Digit (i : Bytes) : Clean (parseU8Digit i) := by
  unfold parseU8Digit
  exact cl_bind (cl_digit1 i) (fun _ => cl_ite (cl_ok _) (by first | exact cl_nomError _ | exact cl_nomFailure _ | exact cl_text _))
theorem cl_hexU32 (i : Bytes) : Clean (hexU32 i) := by
  unfold hexU32; exact cl_ite (by first | exact cl_nomError _ | exact cl_nomFailure _ | exact cl_text _) (cl_ok _)

theorem cl_opt {α : Type} (p : Bytes → Res (Bytes × α)) (i : Bytes) (hp : Clean (p i)) : Clean (opt p i) := by
  unfold opt
  cases h : p i with
  | ok r => exact cl_ok _
  | err e =>
    cases e with
    | nomError k => exact cl_ok _
    | nomFailure k => exact cl_nomFailure _
    | text m => exact cl_text _
    | checksum a b => exact absurd h (hp.2 a b)
  | panic q => exact absurd h (hp.1 q)

theorem cl_messageType (data : Bytes) : Clean (messageType data) := by
  rw [messageType_spec]; exact cl_ite (by first | exact cl_nomError _ | exact cl_nomFailure _ | exact cl_text _) (cl_ok _)

theorem cl_tagBlock (i : Bytes) : Clean (tagBlock i) := by
  unfold tagBlock
  exact cl_bind (cl_tag _ _) fun _ => cl_bind (cl_takeUntil _ _) fun _ => cl_bind (cl_tag _ _) fun _ => cl_ok _

theorem cl_delimiter (i : Bytes) : Clean (delimiter i) := by
  unfold delimiter
  cases h : tag [0x21] i with
  | ok r => exact cl_ok _
  | err e =>
    cases e with
    | nomError k => exact cl_tag _ _
    | nomFailure k => exact cl_nomFailure _
    | text m => exact cl_text _
    | checksum a b => exact absurd h ((cl_tag _ _).2 a b)
  | panic q => exact absurd h ((cl_tag _ _).1 q)

theorem cl_parseAisCore (i : Bytes) : Clean (parseAisCore i) := by
  unfold parseAisCore
  refine cl_bind (cl_takeBytes _ _) fun _ => cl_bind (cl_takeBytes _ _) fun _ => cl_bind (cl_tag _ _) fun _ =>
    cl_bind (cl_parseU8Digit _) fun _ => cl_bind (cl_tag _ _) fun _ => cl_bind (cl_parseU8Digit _) fun _ =>
    cl_bind (cl_tag _ _) fun _ => cl_bind (cl_opt _ _ (cl_parseU8Digit _)) fun _ => cl_bind (cl_tag _ _) fun _ =>
    cl_bind (cl_takeUntil _ _) fun _ => cl_bind (cl_tag _ _) fun _ => cl_bind (cl_takeUntil _ _) fun _ =>
    cl_bind (cl_tag _ _) fun _ => cl_bind (cl_parseU8Digit _) fun _ => ?_
  exact cl_ite (by first | exact cl_nomError _ | exact cl_nomFailure _ | exact cl_text _) (cl_bind (cl_messageType _) fun _ => cl_ok _)

theorem cl_parseAisSentence (cfg : Cfg) (i : Bytes) : Clean (parseAisSentence cfg i) := by
  unfold parseAisSentence
  exact cl_bind (cl_parseAisCore i) fun _ => cl_ite (by first | exact cl_nomError _ | exact cl_nomFailure _ | exact cl_text _) (cl_ok _)

/-- `parse_nmea_sentence` never panics, on any byte string. -/
theorem cl_parseNmeaSentence (cfg : Cfg) (line : Bytes) : Clean (parseNmeaSentence cfg line) := by
  unfold parseNmeaSentence
  refine cl_bind (cl_opt _ _ (cl_tagBlock _)) fun _ => cl_bind (cl_delimiter _) fun _ =>
    cl_bind (cl_takeUntil _ _) fun _ => cl_bind (cl_parseAisSentence _ _) fun _ => ?_
  exact cl_ite (by first | exact cl_nomError _ | exact cl_nomFailure _ | exact cl_text _) (cl_bind (cl_tag _ _) fun _ => cl_bind (cl_hexU32 _) fun _ =>
    cl_ite (by first | exact cl_nomError _ | exact cl_nomFailure _ | exact cl_text _) (cl_ok _))

theorem cl_verifyAndExtend (cfg : Cfg) (st : PState) (s : Sentence) : Clean (verifyAndExtend cfg st s).2 := by
  unfold verifyAndExtend
  repeat' split
  all_goals first | (first | exact cl_nomError _ | exact cl_nomFailure _ | exact cl_text _) | exact cl_ok _


end AisVerif

import AisVerif.Model.Unarmor
import AisVerif.Spec.Unarmor
import AisVerif.Lemmas.Bits
namespace AisVerif
open Spec

/-! ## Boolean bit view -/

/-- bit `m` (0 = most significant) of a byte; `false` for `m ≥ 8` -/
def bbit (b : UInt8) (m : Nat) : Bool := decide (m < 8) && b.toNat.testBit (7 - m)

/-- bit `i` of a byte string, as a Bool -/
def lbit (l : List UInt8) (i : Nat) : Bool := bbit (l[i / 8]?.getD 0) (i % 8)

theorem bit_eq_lbit (l : List UInt8) (i : Nat) : bit l i = (lbit l i).toNat := by
  unfold bit lbit bbit
  have : i % 8 < 8 := Nat.mod_lt _ (by decide)
  simp [this, Nat.toNat_testBit]

theorem toUInt8_toNat {s : Nat} (h : s < 8) : s.toUInt8.toNat = s := by
  simp [Nat.toUInt8]; omega

theorem bbit_or (x y : UInt8) (m : Nat) : bbit (x ||| y) m = (bbit x m || bbit y m) := by
  unfold bbit
  rw [UInt8.toNat_or, Nat.testBit_or]
  cases decide (m < 8) <;> simp

theorem bbit_and (x y : UInt8) (m : Nat) : bbit (x &&& y) m = (bbit x m && bbit y m) := by
  unfold bbit
  rw [UInt8.toNat_and, Nat.testBit_and]
  cases decide (m < 8) <;> simp

theorem bbit_shr (x : UInt8) (s m : Nat) (hs : s < 8) (h1 : m < 8) :
    bbit (x >>> s.toUInt8) m = (decide (s ≤ m) && bbit x (m - s)) := by
  unfold bbit
  rw [UInt8.toNat_shiftRight, toUInt8_toNat hs, Nat.mod_eq_of_lt hs, Nat.testBit_shiftRight]
  by_cases h2 : s ≤ m
  · have e : s + (7 - m) = 7 - (m - s) := by omega
    have h3 : m - s < 8 := by omega
    simp [h1, h2, h3, e]
  · have h4 : x.toNat < 2 ^ (s + (7 - m)) :=
      Nat.lt_of_lt_of_le x.toNat_lt (Nat.pow_le_pow_right (by decide) (by omega))
    simp [h1, h2, Nat.testBit_lt_two_pow h4]

theorem bbit_shl (x : UInt8) (s m : Nat) (hs : s < 8) :
    bbit (x <<< s.toUInt8) m = bbit x (m + s) := by
  unfold bbit
  rw [UInt8.toNat_shiftLeft, toUInt8_toNat hs, Nat.mod_eq_of_lt hs, Nat.testBit_mod_two_pow,
    Nat.testBit_shiftLeft]
  by_cases h1 : m < 8
  · by_cases h2 : m + s < 8
    · have e : 7 - m - s = 7 - (m + s) := by omega
      have h3 : 7 - m ≥ s := by omega
      have h4 : 7 - m < 8 := by omega
      simp [h1, h2, h3, h4, e]
    · have h3 : ¬ (7 - m ≥ s) := by omega
      simp [h1, h2, h3]
  · have h2 : ¬ (m + s < 8) := by omega
    simp [h1, h2]

theorem bbit_ff (m : Nat) : bbit 0xff m = decide (m < 8) := by
  unfold bbit
  have : (0xff : UInt8).toNat = 2 ^ 8 - 1 := by decide
  rw [this, Nat.testBit_two_pow_sub_one]
  by_cases h : m < 8
  · have : 7 - m < 8 := by omega
    simp [h, this]
  · simp [h]

theorem bbit_zero (m : Nat) : bbit 0 m = false := by
  unfold bbit; simp

theorem bbit_ge (x : UInt8) (m : Nat) (h : 8 ≤ m) : bbit x m = false := by
  unfold bbit
  have : ¬ m < 8 := by omega
  simp [this]

theorem lbit_ge (l : List UInt8) (i : Nat) (h : 8 * l.length ≤ i) : lbit l i = false := by
  unfold lbit
  have : l.length ≤ i / 8 := by omega
  rw [List.getElem?_eq_none this]
  exact bbit_zero _

theorem lbit_set (l : List UInt8) (k : Nat) (x : UInt8) (hk : k < l.length) (i : Nat) :
    lbit (l.set k x) i = if i / 8 = k then bbit x (i % 8) else lbit l i := by
  unfold lbit
  rw [List.getElem?_set]
  by_cases h : k = i / 8
  · subst h; simp [hk]
  · have : ¬ i / 8 = k := fun e => h e.symm
    simp [h, this]

theorem orAt_spec (out : List UInt8) (k : Nat) (x : UInt8) (hk : k < out.length) :
    ∃ o, orAt out k x = ok o ∧ o.length = out.length ∧
      ∀ i, lbit o i = (lbit out i || (decide (i / 8 = k) && bbit x (i % 8))) := by
  refine ⟨out.set k (out[k] ||| x), by simp [orAt, hk], by simp, ?_⟩
  intro i
  rw [lbit_set _ _ _ hk]
  by_cases h : i / 8 = k
  · have : lbit out i = bbit out[k] (i % 8) := by
      unfold lbit; subst h; simp [hk]
    simp [h, bbit_or, this]
  · simp [h]

theorem andAt_spec (out : List UInt8) (k : Nat) (x : UInt8) (hk : k < out.length) :
    ∃ o, andAt out k x = ok o ∧ o.length = out.length ∧
      ∀ i, lbit o i = (lbit out i && (!decide (i / 8 = k) || bbit x (i % 8))) := by
  refine ⟨out.set k (out[k] &&& x), by simp [andAt, hk], by simp, ?_⟩
  intro i
  rw [lbit_set _ _ _ hk]
  by_cases h : i / 8 = k
  · have : lbit out i = bbit out[k] (i % 8) := by
      unfold lbit; subst h; simp [hk]
    simp [h, bbit_and, this]
  · simp [h]

/-! ## One loop step -/

theorem bbit_shl2 (v : UInt8) (k : Nat) :
    bbit (v <<< 2) k = (decide (k < 6) && v.toNat.testBit (5 - k)) := by
  have : (2 : UInt8) = (2 : Nat).toUInt8 := rfl
  rw [this, bbit_shl _ _ _ (by decide)]
  unfold bbit
  have e : 7 - (k + 2) = 5 - k := by omega
  by_cases h : k < 6
  · have : k + 2 < 8 := by omega
    simp [h, this, e]
  · have : ¬ k + 2 < 8 := by omega
    simp [h, this]

/-- the two `|=` of one loop iteration -/
def stepW (v : UInt8) (offset : Nat) (out : List UInt8) : Res (List UInt8) := do
  let unarmored : UInt8 := v <<< 2
  let offsetByte := offset / 8
  let offsetBit := offset % 8
  let out ← orAt out offsetByte (unarmored >>> offsetBit.toUInt8)
  (if offsetBit > 2 then orAt out (offsetByte + 1) (unarmored <<< (8 - offsetBit).toUInt8)
   else ok out)

theorem unarmorLoop_cons (b : UInt8) (rest : List UInt8) (off : Nat) (out : List UInt8) :
    unarmorLoop (b :: rest) off out =
      (unarmorChar b >>= fun v => stepW v off out >>= fun o => unarmorLoop rest (off + 6) o) := by
  rw [unarmorLoop]
  cases unarmorChar b <;> simp [stepW]
  generalize orAt out (off / 8) _ = r
  cases r <;> rfl

theorem stepW_spec (v : UInt8) (off : Nat) (out : List UInt8) (h : off + 6 ≤ 8 * out.length) :
    ∃ o, stepW v off out = ok o ∧ o.length = out.length ∧
      ∀ i, lbit o i = (lbit out i ||
        (decide (off ≤ i ∧ i < off + 6) && v.toNat.testBit (5 - (i - off)))) := by
  have hb : off % 8 < 8 := Nat.mod_lt _ (by decide)
  obtain ⟨o1, e1, l1, b1⟩ := orAt_spec out (off / 8) ((v <<< 2) >>> (off % 8).toUInt8) (by omega)
  unfold stepW
  simp only [e1, Res.ok_bind]
  by_cases hgt : off % 8 > 2
  · obtain ⟨o2, e2, l2, b2⟩ :=
      orAt_spec o1 (off / 8 + 1) ((v <<< 2) <<< (8 - off % 8).toUInt8) (by omega)
    refine ⟨o2, by simp only [hgt, if_true, e2], by omega, ?_⟩
    intro i
    have hi : i % 8 < 8 := Nat.mod_lt _ (by decide)
    rw [b2, b1, bbit_shr _ _ _ hb hi, bbit_shl _ _ _ (by omega), bbit_shl2, bbit_shl2]
    by_cases hin : off ≤ i ∧ i < off + 6
    · by_cases hA : i / 8 = off / 8
      · have e : i % 8 - off % 8 = i - off := by omega
        have c1 : off % 8 ≤ i % 8 := by omega
        have c2 : i - off < 6 := by omega
        have c3 : ¬ i / 8 = off / 8 + 1 := by omega
        simp [hin, hA, e, c1, c2]
      · have hB : i / 8 = off / 8 + 1 := by omega
        have e : i % 8 + (8 - off % 8) = i - off := by omega
        have c2 : i - off < 6 := by omega
        simp [hin, hB, e, c2]
    · by_cases hA : i / 8 = off / 8
      · have c3 : ¬ i / 8 = off / 8 + 1 := by omega
        by_cases c1 : off % 8 ≤ i % 8
        · have c2 : ¬ i % 8 - off % 8 < 6 := by omega
          simp [hin, hA, c1, c2]
        · simp [hin, hA, c1]
      · by_cases hB : i / 8 = off / 8 + 1
        · have c2 : ¬ i % 8 + (8 - off % 8) < 6 := by omega
          simp [hin, hB, c2]
        · simp [hin, hA, hB]
  · refine ⟨o1, by simp only [hgt, if_false], l1, ?_⟩
    intro i
    have hi : i % 8 < 8 := Nat.mod_lt _ (by decide)
    rw [b1, bbit_shr _ _ _ hb hi, bbit_shl2]
    by_cases hin : off ≤ i ∧ i < off + 6
    · have hA : i / 8 = off / 8 := by omega
      have e : i % 8 - off % 8 = i - off := by omega
      have c1 : off % 8 ≤ i % 8 := by omega
      have c2 : i - off < 6 := by omega
      simp [hin, hA, e, c1, c2]
    · by_cases hA : i / 8 = off / 8
      · by_cases c1 : off % 8 ≤ i % 8
        · have c2 : ¬ i % 8 - off % 8 < 6 := by omega
          simp [hin, hA, c1, c2]
        · simp [hin, hA, c1]
      · simp [hin, hA]

/-! ## The loop -/

/-- every byte is in the armoring alphabet -/
def AllArmored (data : List UInt8) : Prop := ∀ c ∈ data, (Spec.sixbit c).isSome = true

/-- the no-alloc build's output buffer (384 bytes) is too small -/
def TooLarge (cfg : Cfg) (n : Nat) : Prop := cfg.isNoalloc = true ∧ maxSentence < Spec.unarmorLen n

/-- Boolean form of `Spec.armoredBit` -/
def abit (data : List UInt8) (j : Nat) : Bool :=
  match data[j / 6]? with
  | some c => (match sixbit c with
      | some v => v.testBit (5 - j % 6)
      | none => false)
  | none => false

theorem armoredBit_eq_abit (data : List UInt8) (j : Nat) :
    armoredBit data j = (abit data j).toNat := by
  unfold armoredBit abit
  cases data[j / 6]? with
  | none => rfl
  | some c =>
    simp only []
    cases sixbit c with
    | none => rfl
    | some v => simp [Nat.toNat_testBit]

theorem abit_ge (data : List UInt8) (j : Nat) (h : 6 * data.length ≤ j) : abit data j = false := by
  unfold abit
  have : data.length ≤ j / 6 := by omega
  rw [List.getElem?_eq_none this]

theorem abit_cons_lt (c : UInt8) (rest : List UInt8) (j : Nat) (h : j < 6) (v : Nat)
    (hv : sixbit c = some v) : abit (c :: rest) j = v.testBit (5 - j) := by
  unfold abit
  have h0 : j / 6 = 0 := by omega
  have h1 : j % 6 = j := by omega
  simp [h0, h1, hv]

theorem abit_cons_ge (c : UInt8) (rest : List UInt8) (j : Nat) (h : 6 ≤ j) :
    abit (c :: rest) j = abit rest (j - 6) := by
  unfold abit
  have h0 : j / 6 = (j - 6) / 6 + 1 := by omega
  have h1 : j % 6 = (j - 6) % 6 := by omega
  rw [h0, h1]; simp

theorem unarmorChar_some (c : UInt8) (n : Nat) (h : sixbit c = some n) :
    ∃ v, unarmorChar c = ok v ∧ v.toNat = n := by
  unfold sixbit at h
  unfold unarmorChar
  by_cases h1 : 48 ≤ c ∧ c ≤ 87
  · rw [if_pos h1] at h
    rw [if_pos h1]
    refine ⟨_, rfl, ?_⟩
    rw [UInt8.toNat_sub_of_le _ _ h1.1]
    injection h
  · rw [if_neg h1] at h
    rw [if_neg h1]
    by_cases h2 : 96 ≤ c ∧ c ≤ 119
    · rw [if_pos h2] at h
      rw [if_pos h2]
      refine ⟨_, rfl, ?_⟩
      have : (56 : UInt8) ≤ c := by
        have := UInt8.le_iff_toNat_le.mp h2.1
        apply UInt8.le_iff_toNat_le.mpr
        have e1 : (96 : UInt8).toNat = 96 := rfl
        have e2 : (56 : UInt8).toNat = 56 := rfl
        omega
      rw [UInt8.toNat_sub_of_le _ _ this]
      injection h
    · rw [if_neg h2] at h; cases h

theorem unarmorChar_none (c : UInt8) (h : ¬ (sixbit c).isSome = true) :
    unarmorChar c = err (.text .armorOutOfRange) := by
  unfold sixbit at h
  unfold unarmorChar
  by_cases h1 : 48 ≤ c ∧ c ≤ 87
  · rw [if_pos h1] at h; simp at h
  · rw [if_neg h1] at h
    rw [if_neg h1]
    by_cases h2 : 96 ≤ c ∧ c ≤ 119
    · rw [if_pos h2] at h; simp at h
    · rw [if_neg h2]

theorem loop_ok : ∀ (data : List UInt8) (off : Nat) (out : List UInt8), AllArmored data →
    off + 6 * data.length ≤ 8 * out.length →
    ∃ o, unarmorLoop data off out = ok o ∧ o.length = out.length ∧
      ∀ i, lbit o i = (lbit out i || (decide (off ≤ i) && abit data (i - off))) := by
  intro data
  induction data with
  | nil =>
    intro off out _ _
    refine ⟨out, by simp [unarmorLoop], rfl, ?_⟩
    intro i
    simp [abit]
  | cons c rest ih =>
    intro off out hall hlen
    simp only [List.length_cons] at hlen
    have hc : (sixbit c).isSome = true := hall c (by simp)
    obtain ⟨n, hn⟩ := Option.isSome_iff_exists.mp hc
    obtain ⟨v, hv, hvn⟩ := unarmorChar_some c n hn
    obtain ⟨o1, e1, l1, b1⟩ := stepW_spec v off out (by omega)
    obtain ⟨o2, e2, l2, b2⟩ := ih (off + 6) o1 (fun x hx => hall x (by simp [hx])) (by omega)
    refine ⟨o2, ?_, by omega, ?_⟩
    · rw [unarmorLoop_cons, hv, Res.ok_bind, e1, Res.ok_bind, e2]
    · intro i
      rw [b2, b1]
      by_cases h1 : off ≤ i
      · by_cases h2 : i < off + 6
        · have h3 : ¬ off + 6 ≤ i := by omega
          rw [abit_cons_lt c rest (i - off) (by omega) n hn, hvn]
          simp [h1, h2, h3]
        · have h3 : off + 6 ≤ i := by omega
          rw [abit_cons_ge c rest (i - off) (by omega)]
          have e : i - off - 6 = i - (off + 6) := by omega
          simp [h1, h2, h3, e]
      · have h2 : ¬ off + 6 ≤ i := by omega
        simp [h1, h2]

theorem loop_err : ∀ (data : List UInt8) (off : Nat) (out : List UInt8), ¬ AllArmored data →
    off + 6 * data.length ≤ 8 * out.length →
    unarmorLoop data off out = err (.text .armorOutOfRange) := by
  intro data
  induction data with
  | nil =>
    intro off out hbad _
    exact absurd (fun c hc => by simp at hc) hbad
  | cons c rest ih =>
    intro off out hbad hlen
    simp only [List.length_cons] at hlen
    rw [unarmorLoop_cons]
    by_cases hc : (sixbit c).isSome = true
    · obtain ⟨n, hn⟩ := Option.isSome_iff_exists.mp hc
      obtain ⟨v, hv, _⟩ := unarmorChar_some c n hn
      obtain ⟨o1, e1, l1, _⟩ := stepW_spec v off out (by omega)
      rw [hv, Res.ok_bind, e1, Res.ok_bind]
      apply ih (off + 6) o1 _ (by omega)
      intro hrest
      apply hbad
      intro x hx
      rcases List.mem_cons.mp hx with rfl | hx
      · exact hc
      · exact hrest x hx
    · rw [unarmorChar_none c hc, Res.err_bind]

/-! ## The fill-bit mask -/

theorem shlFF_spec (s : Nat) (h : s < 8) :
    ∃ m, shlFF s = ok m ∧ ∀ k, bbit m k = decide (k + s < 8) := by
  refine ⟨(0xff : UInt8) <<< s.toUInt8, by unfold shlFF; rw [if_pos h], ?_⟩
  intro k
  rw [bbit_shl _ _ _ h, bbit_ff]

theorem maskFill_spec (out : List UInt8) (n fill bitCount byteCount : Nat)
    (hf : fill ≤ 5) (hB : bitCount = 6 * n) (hC : byteCount = (6 * n + 7) / 8)
    (hl : out.length = byteCount) (hz : ∀ i, 6 * n ≤ i → lbit out i = false) :
    ∃ o, maskFill out bitCount byteCount fill = ok o ∧ o.length = out.length ∧
      ∀ i, lbit o i = (lbit out i && decide (i < 6 * n - fill)) := by
  unfold maskFill
  by_cases hcond : fill ≠ 0 ∧ byteCount ≠ 0
  · rw [if_pos hcond]
    generalize hb : (if bitCount % 8 = 0 then 8 else bitCount % 8) = bifb
    have hb8 : 8 * byteCount + bifb = 6 * n + 8 := by
      split at hb <;> omega
    have hb2 : 2 ≤ bifb ∧ bifb ≤ 8 := by
      split at hb <;> omega
    have hsub : subU byteCount 1 = ok (byteCount - 1) := by
      simp [subU]; omega
    simp only [hsub, Res.ok_bind]
    generalize hs : 8 - bifb + min fill bifb = shift
    have hs' : shift + bifb = 8 + min fill bifb := by omega
    have hm : ∃ m, (if shift ≤ 7 then shlFF shift
        else if shift = 8 then ok (0 : UInt8) else panic Panic.unreachable) = ok m ∧
        ∀ k, bbit m k = decide (k + shift < 8) := by
      by_cases h7 : shift ≤ 7
      · rw [if_pos h7]; exact shlFF_spec shift (by omega)
      · have h8 : shift = 8 := by omega
        rw [if_neg h7, if_pos h8]
        refine ⟨0, rfl, ?_⟩
        intro k
        have : ¬ k + shift < 8 := by omega
        simp [bbit_zero, this]
    obtain ⟨m, em, bm⟩ := hm
    obtain ⟨o1, e1, l1, b1⟩ := andAt_spec out (byteCount - 1) m (by omega)
    simp only [em, Res.ok_bind, e1]
    by_cases hgt : fill > bifb
    · rw [if_pos hgt]
      have hsub2 : subU (byteCount - 1) 1 = ok (byteCount - 1 - 1) := by
        simp [subU]; omega
      obtain ⟨m2, em2, bm2⟩ := shlFF_spec (fill - bifb) (by omega)
      obtain ⟨o2, e2, l2, b2⟩ := andAt_spec o1 (byteCount - 1 - 1) m2 (by omega)
      simp only [hsub2, Res.ok_bind, em2, e2]
      refine ⟨o2, rfl, by omega, ?_⟩
      intro i
      rw [b2, b1, bm, bm2]
      by_cases hi : i < 8 * byteCount
      · cases lbit out i
        · simp
        · simp only [Bool.true_and]
          rw [Bool.eq_iff_iff]; simp
          omega
      · simp [lbit_ge out i (by omega)]
    · rw [if_neg hgt]
      refine ⟨o1, rfl, l1, ?_⟩
      intro i
      rw [b1, bm]
      by_cases hi : i < 8 * byteCount
      · cases lbit out i
        · simp
        · simp only [Bool.true_and]
          rw [Bool.eq_iff_iff]; simp
          omega
      · simp [lbit_ge out i (by omega)]
  · rw [if_neg hcond]
    refine ⟨out, rfl, rfl, ?_⟩
    intro i
    by_cases h : i < 6 * n - fill
    · simp [h]
    · simp [h, hz i (by omega)]

/-! ## The main theorems -/

theorem byteCount_eq (n : Nat) :
    n * 6 / 8 + (if n * 6 % 8 ≠ 0 then 1 else 0) = unarmorLen n := by
  unfold unarmorLen
  split <;> omega

theorem lbit_replicate (k i : Nat) : lbit (List.replicate k (0 : UInt8)) i = false := by
  unfold lbit
  rw [List.getElem?_replicate]
  split <;> exact bbit_zero _

theorem unarmor_unfold (cfg : Cfg) (data : List UInt8) (fill : Nat) :
    unarmor cfg data fill =
      if cfg.isNoalloc && maxSentence < unarmorLen data.length then err (.text .unarmorTooLarge)
      else unarmorLoop data 0 (List.replicate (unarmorLen data.length) 0) >>= fun out =>
        maskFill out (data.length * 6) (unarmorLen data.length) fill := by
  unfold unarmor
  simp only [byteCount_eq]

theorem not_tooLarge {cfg : Cfg} {n : Nat} (h : ¬ TooLarge cfg n) :
    (cfg.isNoalloc && decide (maxSentence < unarmorLen n)) = false := by
  unfold TooLarge at h
  cases hc : cfg.isNoalloc
  · simp
  · simp only [Bool.true_and, decide_eq_false_iff_not]
    intro hlt
    exact h ⟨hc, hlt⟩

theorem unarmor_ok (cfg : Cfg) (data : List UInt8) (fill : Nat) (hf : fill ≤ 5)
    (hall : AllArmored data) (hsz : ¬ TooLarge cfg data.length) :
    ∃ out, unarmor cfg data fill = ok out ∧ Spec.IsUnarmored data fill out := by
  rw [unarmor_unfold, not_tooLarge hsz]
  simp only [Bool.false_eq_true, if_false]
  have hlen : (List.replicate (unarmorLen data.length) (0 : UInt8)).length = unarmorLen data.length :=
    List.length_replicate
  obtain ⟨o1, e1, l1, b1⟩ := loop_ok data 0 (List.replicate (unarmorLen data.length) 0) hall
    (by rw [hlen]; unfold unarmorLen; omega)
  have b1' : ∀ i, lbit o1 i = abit data i := by
    intro i; rw [b1, lbit_replicate]; simp
  obtain ⟨o2, e2, l2, b2⟩ := maskFill_spec o1 data.length fill (data.length * 6)
    (unarmorLen data.length) hf (by omega) rfl (by omega)
    (fun i hi => by rw [b1', abit_ge data i hi])
  refine ⟨o2, by rw [e1, Res.ok_bind, e2], by omega, ?_⟩
  intro i
  rw [bit_eq_lbit, b2, b1']
  by_cases h : i < 6 * data.length - fill
  · simp [h, armoredBit_eq_abit]
  · simp [h]

theorem unarmor_err_invalid (cfg : Cfg) (data : List UInt8) (fill : Nat)
    (hbad : ¬ AllArmored data) (hsz : ¬ TooLarge cfg data.length) :
    unarmor cfg data fill = err (.text .armorOutOfRange) := by
  rw [unarmor_unfold, not_tooLarge hsz]
  simp only [Bool.false_eq_true, if_false]
  have hlen : (List.replicate (unarmorLen data.length) (0 : UInt8)).length = unarmorLen data.length :=
    List.length_replicate
  rw [loop_err data 0 _ hbad (by rw [hlen]; unfold unarmorLen; omega), Res.err_bind]

theorem unarmor_err_large (cfg : Cfg) (data : List UInt8) (fill : Nat) (hsz : TooLarge cfg data.length) :
    unarmor cfg data fill = err (.text .unarmorTooLarge) := by
  rw [unarmor_unfold]
  have : (cfg.isNoalloc && decide (maxSentence < unarmorLen data.length)) = true := by
    simp [hsz.1, hsz.2]
  rw [this, if_pos rfl]

theorem eq_of_lbit_eq (a b : List UInt8) (hlen : a.length = b.length)
    (h : ∀ i, lbit a i = lbit b i) : a = b := by
  apply List.ext_getElem hlen
  intro k h1 h2
  apply UInt8.toNat_inj.mp
  apply Nat.eq_of_testBit_eq
  intro j
  by_cases hj : j < 8
  · have := h (8 * k + (7 - j))
    unfold lbit bbit at this
    have e1 : (8 * k + (7 - j)) / 8 = k := by omega
    have e2 : (8 * k + (7 - j)) % 8 = 7 - j := by omega
    have e3 : 7 - (7 - j) = j := by omega
    have e4 : 7 - j < 8 := by omega
    rw [e1, e2, e3] at this
    simpa [h1, h2, e4] using this
  · have hp : (2 : Nat) ^ 8 ≤ 2 ^ j := Nat.pow_le_pow_right (by decide) (by omega)
    rw [Nat.testBit_lt_two_pow (Nat.lt_of_lt_of_le a[k].toNat_lt hp),
      Nat.testBit_lt_two_pow (Nat.lt_of_lt_of_le b[k].toNat_lt hp)]

theorem isUnarmored_unique (data : List UInt8) (fill : Nat) (a b : List UInt8)
    (ha : Spec.IsUnarmored data fill a) (hb : Spec.IsUnarmored data fill b) : a = b := by
  apply eq_of_lbit_eq a b (by rw [ha.1, hb.1])
  intro i
  have h : bit a i = bit b i := by rw [ha.2, hb.2]
  rw [bit_eq_lbit, bit_eq_lbit] at h
  revert h
  cases lbit a i <;> cases lbit b i <;> simp

end AisVerif

/- Instances of `take_bind`/`signedI32_bind` for every (accumulator width, bit count) the crate uses. Generated. -/
import AisVerif.Lemmas.Attr
import AisVerif.Lemmas.Take

namespace AisVerif
open Spec

@[ais_take] theorem take_bind_8_1 {β : Type} (bs : List UInt8) (p : Nat) (f : Nat × Cur → Res β) :
    (take 8 1 ⟨bs, p⟩ >>= f) = if p + 1 ≤ 8 * bs.length then f (field bs p 1, ⟨bs, p + 1⟩) else err (.nomError .eof) :=
  take_bind bs p f (by decide) (by decide)

@[ais_take] theorem take_bind_8_2 {β : Type} (bs : List UInt8) (p : Nat) (f : Nat × Cur → Res β) :
    (take 8 2 ⟨bs, p⟩ >>= f) = if p + 2 ≤ 8 * bs.length then f (field bs p 2, ⟨bs, p + 2⟩) else err (.nomError .eof) :=
  take_bind bs p f (by decide) (by decide)

@[ais_take] theorem take_bind_8_3 {β : Type} (bs : List UInt8) (p : Nat) (f : Nat × Cur → Res β) :
    (take 8 3 ⟨bs, p⟩ >>= f) = if p + 3 ≤ 8 * bs.length then f (field bs p 3, ⟨bs, p + 3⟩) else err (.nomError .eof) :=
  take_bind bs p f (by decide) (by decide)

@[ais_take] theorem take_bind_8_4 {β : Type} (bs : List UInt8) (p : Nat) (f : Nat × Cur → Res β) :
    (take 8 4 ⟨bs, p⟩ >>= f) = if p + 4 ≤ 8 * bs.length then f (field bs p 4, ⟨bs, p + 4⟩) else err (.nomError .eof) :=
  take_bind bs p f (by decide) (by decide)

@[ais_take] theorem take_bind_8_5 {β : Type} (bs : List UInt8) (p : Nat) (f : Nat × Cur → Res β) :
    (take 8 5 ⟨bs, p⟩ >>= f) = if p + 5 ≤ 8 * bs.length then f (field bs p 5, ⟨bs, p + 5⟩) else err (.nomError .eof) :=
  take_bind bs p f (by decide) (by decide)

@[ais_take] theorem take_bind_8_6 {β : Type} (bs : List UInt8) (p : Nat) (f : Nat × Cur → Res β) :
    (take 8 6 ⟨bs, p⟩ >>= f) = if p + 6 ≤ 8 * bs.length then f (field bs p 6, ⟨bs, p + 6⟩) else err (.nomError .eof) :=
  take_bind bs p f (by decide) (by decide)

@[ais_take] theorem take_bind_8_8 {β : Type} (bs : List UInt8) (p : Nat) (f : Nat × Cur → Res β) :
    (take 8 8 ⟨bs, p⟩ >>= f) = if p + 8 ≤ 8 * bs.length then f (field bs p 8, ⟨bs, p + 8⟩) else err (.nomError .eof) :=
  take_bind bs p f (by decide) (by decide)

@[ais_take] theorem take_bind_16_6 {β : Type} (bs : List UInt8) (p : Nat) (f : Nat × Cur → Res β) :
    (take 16 6 ⟨bs, p⟩ >>= f) = if p + 6 ≤ 8 * bs.length then f (field bs p 6, ⟨bs, p + 6⟩) else err (.nomError .eof) :=
  take_bind bs p f (by decide) (by decide)

@[ais_take] theorem take_bind_16_9 {β : Type} (bs : List UInt8) (p : Nat) (f : Nat × Cur → Res β) :
    (take 16 9 ⟨bs, p⟩ >>= f) = if p + 9 ≤ 8 * bs.length then f (field bs p 9, ⟨bs, p + 9⟩) else err (.nomError .eof) :=
  take_bind bs p f (by decide) (by decide)

@[ais_take] theorem take_bind_16_10 {β : Type} (bs : List UInt8) (p : Nat) (f : Nat × Cur → Res β) :
    (take 16 10 ⟨bs, p⟩ >>= f) = if p + 10 ≤ 8 * bs.length then f (field bs p 10, ⟨bs, p + 10⟩) else err (.nomError .eof) :=
  take_bind bs p f (by decide) (by decide)

@[ais_take] theorem take_bind_16_11 {β : Type} (bs : List UInt8) (p : Nat) (f : Nat × Cur → Res β) :
    (take 16 11 ⟨bs, p⟩ >>= f) = if p + 11 ≤ 8 * bs.length then f (field bs p 11, ⟨bs, p + 11⟩) else err (.nomError .eof) :=
  take_bind bs p f (by decide) (by decide)

@[ais_take] theorem take_bind_16_12 {β : Type} (bs : List UInt8) (p : Nat) (f : Nat × Cur → Res β) :
    (take 16 12 ⟨bs, p⟩ >>= f) = if p + 12 ≤ 8 * bs.length then f (field bs p 12, ⟨bs, p + 12⟩) else err (.nomError .eof) :=
  take_bind bs p f (by decide) (by decide)

@[ais_take] theorem take_bind_16_13 {β : Type} (bs : List UInt8) (p : Nat) (f : Nat × Cur → Res β) :
    (take 16 13 ⟨bs, p⟩ >>= f) = if p + 13 ≤ 8 * bs.length then f (field bs p 13, ⟨bs, p + 13⟩) else err (.nomError .eof) :=
  take_bind bs p f (by decide) (by decide)

@[ais_take] theorem take_bind_16_14 {β : Type} (bs : List UInt8) (p : Nat) (f : Nat × Cur → Res β) :
    (take 16 14 ⟨bs, p⟩ >>= f) = if p + 14 ≤ 8 * bs.length then f (field bs p 14, ⟨bs, p + 14⟩) else err (.nomError .eof) :=
  take_bind bs p f (by decide) (by decide)

@[ais_take] theorem take_bind_15_13 {β : Type} (bs : List UInt8) (p : Nat) (f : Nat × Cur → Res β) :
    (take 15 13 ⟨bs, p⟩ >>= f) = if p + 13 ≤ 8 * bs.length then f (field bs p 13, ⟨bs, p + 13⟩) else err (.nomError .eof) :=
  take_bind bs p f (by decide) (by decide)

@[ais_take] theorem take_bind_15_14 {β : Type} (bs : List UInt8) (p : Nat) (f : Nat × Cur → Res β) :
    (take 15 14 ⟨bs, p⟩ >>= f) = if p + 14 ≤ 8 * bs.length then f (field bs p 14, ⟨bs, p + 14⟩) else err (.nomError .eof) :=
  take_bind bs p f (by decide) (by decide)

@[ais_take] theorem take_bind_32_20 {β : Type} (bs : List UInt8) (p : Nat) (f : Nat × Cur → Res β) :
    (take 32 20 ⟨bs, p⟩ >>= f) = if p + 20 ≤ 8 * bs.length then f (field bs p 20, ⟨bs, p + 20⟩) else err (.nomError .eof) :=
  take_bind bs p f (by decide) (by decide)

@[ais_take] theorem take_bind_32_30 {β : Type} (bs : List UInt8) (p : Nat) (f : Nat × Cur → Res β) :
    (take 32 30 ⟨bs, p⟩ >>= f) = if p + 30 ≤ 8 * bs.length then f (field bs p 30, ⟨bs, p + 30⟩) else err (.nomError .eof) :=
  take_bind bs p f (by decide) (by decide)

@[ais_take] theorem signedI32_bind_17 {β : Type} (bs : List UInt8) (p : Nat) (f : Int × Cur → Res β) :
    (signedI32 17 ⟨bs, p⟩ >>= f) = if p + 17 ≤ 8 * bs.length then f (toSigned 17 (field bs p 17), ⟨bs, p + 17⟩) else err (.nomError .eof) :=
  signedI32_bind 17 bs p f (by decide) (by decide)

@[ais_take] theorem signedI32_bind_18 {β : Type} (bs : List UInt8) (p : Nat) (f : Int × Cur → Res β) :
    (signedI32 18 ⟨bs, p⟩ >>= f) = if p + 18 ≤ 8 * bs.length then f (toSigned 18 (field bs p 18), ⟨bs, p + 18⟩) else err (.nomError .eof) :=
  signedI32_bind 18 bs p f (by decide) (by decide)

@[ais_take] theorem signedI32_bind_27 {β : Type} (bs : List UInt8) (p : Nat) (f : Int × Cur → Res β) :
    (signedI32 27 ⟨bs, p⟩ >>= f) = if p + 27 ≤ 8 * bs.length then f (toSigned 27 (field bs p 27), ⟨bs, p + 27⟩) else err (.nomError .eof) :=
  signedI32_bind 27 bs p f (by decide) (by decide)

@[ais_take] theorem signedI32_bind_28 {β : Type} (bs : List UInt8) (p : Nat) (f : Int × Cur → Res β) :
    (signedI32 28 ⟨bs, p⟩ >>= f) = if p + 28 ≤ 8 * bs.length then f (toSigned 28 (field bs p 28), ⟨bs, p + 28⟩) else err (.nomError .eof) :=
  signedI32_bind 28 bs p f (by decide) (by decide)

attribute [ais_take] Accuracy_parse_field Dte_from_field AssignedMode_parse_field CarrierSense_parse_field u8ToBool_field Res.ok_bind

theorem bind_of_spec {α β : Type} {x : Res α} {c : Prop} [Decidable c] {a : α} (f : α → Res β)
    (h : x = if c then ok a else err (.nomError .eof)) :
    (x >>= f) = if c then f a else err (.nomError .eof) := by
  rw [h]; by_cases hc : c
  · simp only [hc, if_true, Res.ok_bind]
  · simp only [hc, if_false, Res.err_bind]

@[ais_take] theorem parseYear_bind {β : Type} (bs : List UInt8) (p : Nat) (f : Val × Cur → Res β) :
    (parseYear ⟨bs, p⟩ >>= f) = if p + 14 ≤ 8 * bs.length then f (optNe 0 (field bs p 14), ⟨bs, p + 14⟩) else err (.nomError .eof) := by
  unfold parseYear; rw [take_bind_16_14]; split <;> rfl

@[ais_take] theorem parseMonth_bind {β : Type} (bs : List UInt8) (p : Nat) (f : Val × Cur → Res β) :
    (parseMonth ⟨bs, p⟩ >>= f) = if p + 4 ≤ 8 * bs.length then f (optNe 0 (field bs p 4), ⟨bs, p + 4⟩) else err (.nomError .eof) := by
  unfold parseMonth; rw [take_bind_8_4]; split <;> rfl

@[ais_take] theorem parseDay_bind {β : Type} (bs : List UInt8) (p : Nat) (f : Val × Cur → Res β) :
    (parseDay ⟨bs, p⟩ >>= f) = if p + 5 ≤ 8 * bs.length then f (optNe 0 (field bs p 5), ⟨bs, p + 5⟩) else err (.nomError .eof) := by
  unfold parseDay; rw [take_bind_8_5]; split <;> rfl

@[ais_take] theorem parseHour_bind {β : Type} (bs : List UInt8) (p : Nat) (f : Val × Cur → Res β) :
    (parseHour ⟨bs, p⟩ >>= f) = if p + 5 ≤ 8 * bs.length then f (.nat (field bs p 5), ⟨bs, p + 5⟩) else err (.nomError .eof) := by
  unfold parseHour; rw [take_bind_8_5]; split <;> rfl

@[ais_take] theorem parseMinsec_bind {β : Type} (bs : List UInt8) (p : Nat) (f : Val × Cur → Res β) :
    (parseMinsec ⟨bs, p⟩ >>= f) = if p + 6 ≤ 8 * bs.length then f (optNe 60 (field bs p 6), ⟨bs, p + 6⟩) else err (.nomError .eof) := by
  unfold parseMinsec; rw [take_bind_8_6]; split <;> rfl

end AisVerif

/-
  Lemmas about the software binary32 arithmetic of `Model/F32.lean`: every operation returns the
  pattern of a value within half a unit in the last place of the exact result.
  (This file and `Props/C10F.lean` are the only ones that import Mathlib modules — tactics and ordered
  field lemmas over ℚ; the model and the driver stay core-only.)
-/
import AisVerif.Spec.F32
import Mathlib.Tactic.Linarith
import Mathlib.Tactic.Ring
import Mathlib.Tactic.FieldSimp
import Mathlib.Tactic.NormNum
import Mathlib.Tactic.Positivity
import Mathlib.Algebra.Order.Field.Power
import Mathlib.Algebra.Order.Field.Rat
import Mathlib.Data.Rat.Defs

namespace AisVerif.F32

/-! ### round half to even -/

theorem rne_err (N D : Nat) (hD : 0 < D) : |((rne N D : Nat) : ℚ) - (N : ℚ) / D| ≤ 1 / 2 := by
  have hDq : (0 : ℚ) < D := by exact_mod_cast hD
  have hdm : (N : ℚ) = D * (N / D : Nat) + (N % D : Nat) := by exact_mod_cast (Nat.div_add_mod N D).symm
  have hr : (N % D) < D := Nat.mod_lt _ hD
  have key : (N : ℚ) / D = (N / D : Nat) + ((N % D : Nat) : ℚ) / D := by
    rw [hdm]; field_simp
  rw [key]
  have hrq : (0 : ℚ) ≤ ((N % D : Nat) : ℚ) / D := by positivity
  have hr1 : ((N % D : Nat) : ℚ) / D < 1 := by rw [div_lt_one hDq]; exact_mod_cast hr
  unfold rne
  simp only
  split
  · rename_i h
    have : ((N % D : Nat) : ℚ) / D < 1 / 2 := by
      rw [div_lt_iff₀ hDq]; have : ((2 * (N % D) : Nat) : ℚ) < D := by exact_mod_cast h
      push_cast at this; linarith
    rw [abs_le]; constructor <;> linarith
  · split
    · rename_i _ h
      have : 1 / 2 < ((N % D : Nat) : ℚ) / D := by
        rw [lt_div_iff₀ hDq]; have : (D : ℚ) < ((2 * (N % D) : Nat) : ℚ) := by exact_mod_cast h
        push_cast at this; linarith
      push_cast
      rw [abs_le]; constructor <;> linarith
    · rename_i h1 h2
      have he : 2 * (N % D) = D := by omega
      have : ((N % D : Nat) : ℚ) / D = 1 / 2 := by
        rw [div_eq_iff hDq.ne']; have : ((2 * (N % D) : Nat) : ℚ) = D := by exact_mod_cast he
        push_cast at this; linarith
      split <;> (push_cast; rw [abs_le]; constructor <;> linarith)


/-! ### powers of two -/

theorem twoPow_eq (k : Int) : twoPow k = (2 : ℚ) ^ k := by
  unfold twoPow
  split
  · rename_i h
    obtain ⟨n, rfl⟩ := Int.eq_ofNat_of_zero_le h
    simp
  · rename_i h
    have hk : k = -((-k).toNat : Int) := by omega
    generalize (-k).toNat = n at hk
    subst hk
    simp

theorem two_zpow_pos (k : Int) : (0 : ℚ) < 2 ^ k := by positivity

theorem two_zpow_succ (k : Int) : (2 : ℚ) ^ (k + 1) = 2 * 2 ^ k := by
  rw [zpow_add₀ (by norm_num)]; ring

theorem two_zpow_pred (k : Int) : (2 : ℚ) ^ (k - 1) = 2 ^ k / 2 := by
  rw [zpow_sub₀ (by norm_num)]; simp

theorem geTwoPow_iff (n d : Nat) (hd : 0 < d) (c : Int) :
    geTwoPow n d c = true ↔ (2 : ℚ) ^ c ≤ (n : ℚ) / d := by
  have hdq : (0 : ℚ) < d := by exact_mod_cast hd
  unfold geTwoPow
  split
  · rename_i h
    obtain ⟨m, rfl⟩ := Int.eq_ofNat_of_zero_le h
    simp only [Int.toNat_natCast, decide_eq_true_eq, zpow_natCast]
    rw [le_div_iff₀ hdq]
    constructor
    · intro h; have : ((d * 2 ^ m : Nat) : ℚ) ≤ n := by exact_mod_cast h
      push_cast at this; linarith
    · intro h; have : ((d * 2 ^ m : Nat) : ℚ) ≤ n := by push_cast; linarith
      exact_mod_cast this
  · rename_i h
    have hk : c = -((-c).toNat : Int) := by omega
    generalize (-c).toNat = m at hk
    subst hk
    simp only [decide_eq_true_eq, zpow_neg, zpow_natCast]
    have hp : (0 : ℚ) < 2 ^ m := by positivity
    rw [le_div_iff₀ hdq, inv_mul_le_iff₀ hp]
    constructor
    · intro h; have : ((d : Nat) : ℚ) ≤ ((n * 2 ^ m : Nat) : ℚ) := by exact_mod_cast h
      push_cast at this; linarith
    · intro h; have : ((d : Nat) : ℚ) ≤ ((n * 2 ^ m : Nat) : ℚ) := by push_cast; linarith
      exact_mod_cast this

theorem log2_bounds (n : Nat) (hn : 0 < n) : (2 : ℚ) ^ (Nat.log2 n : Int) ≤ n ∧ (n : ℚ) < 2 ^ ((Nat.log2 n : Int) + 1) := by
  constructor
  · have := Nat.log2_self_le (Nat.pos_iff_ne_zero.mp hn)
    rw [zpow_natCast]; exact_mod_cast this
  · have := @Nat.lt_log2_self n
    have e : ((Nat.log2 n : Int) + 1) = ((Nat.log2 n + 1 : Nat) : Int) := by push_cast; rfl
    rw [e, zpow_natCast]; exact_mod_cast this

/-- `expOf` is the binary exponent: `2^e ≤ n/d < 2^(e+1)`. -/
theorem expOf_spec (n d : Nat) (hn : 0 < n) (hd : 0 < d) :
    (2 : ℚ) ^ expOf n d ≤ (n : ℚ) / d ∧ (n : ℚ) / d < 2 ^ (expOf n d + 1) := by
  have hdq : (0 : ℚ) < d := by exact_mod_cast hd
  obtain ⟨hn1, hn2⟩ := log2_bounds n hn
  obtain ⟨hd1, hd2⟩ := log2_bounds d hd
  have hup : (n : ℚ) / d < 2 ^ ((Nat.log2 n : Int) - (Nat.log2 d : Int) + 1) := by
    rw [div_lt_iff₀ hdq]
    calc (n : ℚ) < 2 ^ ((Nat.log2 n : Int) + 1) := hn2
      _ = 2 ^ ((Nat.log2 n : Int) - (Nat.log2 d : Int) + 1) * 2 ^ (Nat.log2 d : Int) := by
            rw [← zpow_add₀ (by norm_num)]; congr 1; ring
      _ ≤ _ := by apply mul_le_mul_of_nonneg_left hd1 (by positivity)
  have hlo : (2 : ℚ) ^ ((Nat.log2 n : Int) - (Nat.log2 d : Int) - 1) ≤ (n : ℚ) / d := by
    rw [le_div_iff₀ hdq]
    calc (2 : ℚ) ^ ((Nat.log2 n : Int) - (Nat.log2 d : Int) - 1) * d
        ≤ 2 ^ ((Nat.log2 n : Int) - (Nat.log2 d : Int) - 1) * 2 ^ ((Nat.log2 d : Int) + 1) := by
            apply mul_le_mul_of_nonneg_left hd2.le (by positivity)
      _ = 2 ^ (Nat.log2 n : Int) := by rw [← zpow_add₀ (by norm_num)]; congr 1; ring
      _ ≤ n := hn1
  unfold expOf
  simp only
  split
  · rename_i h
    exact ⟨(geTwoPow_iff n d hd _).mp h, hup⟩
  · rename_i h
    have h' : ¬ (2 : ℚ) ^ ((Nat.log2 n : Int) - (Nat.log2 d : Int)) ≤ (n : ℚ) / d := by
      rw [← geTwoPow_iff n d hd]; exact h
    refine ⟨hlo, ?_⟩
    have : (Nat.log2 n : Int) - (Nat.log2 d : Int) - 1 + 1 = (Nat.log2 n : Int) - (Nat.log2 d : Int) := by ring
    rw [this]; exact lt_of_not_ge h'

/-- The significand is the quotient by `2^k`, rounded to within one half. -/
theorem sigOf_err (n d : Nat) (hd : 0 < d) (k : Int) :
    |((sigOf n d k : Nat) : ℚ) - (n : ℚ) / d / 2 ^ k| ≤ 1 / 2 := by
  have hdq : (0 : ℚ) < d := by exact_mod_cast hd
  unfold sigOf
  split
  · rename_i h
    obtain ⟨m, rfl⟩ := Int.eq_ofNat_of_zero_le h
    have := rne_err n (d * 2 ^ m) (by positivity)
    simp only [Int.toNat_natCast, zpow_natCast]
    push_cast at this
    rwa [div_div]
  · rename_i h
    have hk : k = -((-k).toNat : Int) := by omega
    generalize (-k).toNat = m at hk
    subst hk
    have := rne_err (n * 2 ^ m) d hd
    simp only [zpow_neg, zpow_natCast]
    push_cast at this
    have e : (n : ℚ) / d / (2 ^ m)⁻¹ = (n : ℚ) * 2 ^ m / d := by field_simp
    rwa [e]


/-! ### reading back what `encode` wrote -/

theorem fields_lt (j m : Nat) (hj : j ≤ 252) (h1 : 2 ^ 23 ≤ m) (h2 : m < 2 ^ 24) :
    expField (j * 2 ^ 23 + m) = j + 1 ∧ manField (j * 2 ^ 23 + m) = m - 2 ^ 23 ∧
      signBit (j * 2 ^ 23 + m) = false := by
  simp only [expField, manField, signBit, Nat.reducePow, decide_eq_false_iff_not] at *
  refine ⟨by omega, by omega, by omega⟩

theorem fields_eq (j : Nat) (hj : j ≤ 252) :
    expField (j * 2 ^ 23 + 2 ^ 24) = j + 2 ∧ manField (j * 2 ^ 23 + 2 ^ 24) = 0 ∧
      signBit (j * 2 ^ 23 + 2 ^ 24) = false := by
  simp only [expField, manField, signBit, Nat.reducePow, decide_eq_false_iff_not] at *
  refine ⟨by omega, by omega, by omega⟩

theorem toRat_encode (k : Int) (m : Nat) (hk : -149 ≤ k) (hk2 : k ≤ 103) (hm1 : 2 ^ 23 ≤ m) (hm2 : m ≤ 2 ^ 24) :
    toRat (encode k m) = (m : ℚ) * 2 ^ k ∧ signBit (encode k m) = false ∧ encode k m < 2 ^ 31 ∧
      expField (encode k m) ≠ 255 ∧ expField (encode k m) ≠ 0 := by
  obtain ⟨j, hj⟩ : ∃ j : Nat, k = (j : Int) - 149 := ⟨(k + 149).toNat, by omega⟩
  subst hj
  have hj : j ≤ 252 := by omega
  have hjj : ((j : Int) - 149 + 149).toNat = j := by omega
  have hb : ¬ (0x7F800000 ≤ j * 2 ^ 23 + m) := by simp only [Nat.reducePow] at *; omega
  have hlt : j * 2 ^ 23 + m < 2 ^ 31 := by simp only [Nat.reducePow] at *; omega
  unfold encode
  simp only [hjj, if_neg hb]
  rcases Nat.lt_or_ge m (2 ^ 24) with h | h
  · obtain ⟨e1, e2, e3⟩ := fields_lt j m hj hm1 h
    refine ⟨?_, e3, hlt, by omega, by omega⟩
    unfold toRat sig ulpExp
    rw [e1, e2, e3]
    have e5 : ((max (j + 1) 1 : Nat) : Int) - 150 = (j : Int) - 149 := by omega
    have e4 : (2 ^ 23 + (m - 2 ^ 23) : Nat) = m := by omega
    simp only [Nat.add_one_ne_zero, if_false, twoPow_eq, e4, e5, Bool.false_eq_true]
    ring
  · have hm : m = 2 ^ 24 := by omega
    subst hm
    obtain ⟨e1, e2, e3⟩ := fields_eq j hj
    refine ⟨?_, e3, hlt, by omega, by omega⟩
    unfold toRat sig ulpExp
    rw [e1, e2, e3]
    have e5 : ((max (j + 2) 1 : Nat) : Int) - 150 = ((j : Int) - 149) + 1 := by omega
    have e6 : j + 2 ≠ 0 := by omega
    simp only [e6, if_false, twoPow_eq, e5, Bool.false_eq_true, two_zpow_succ]
    push_cast
    ring


/-! ### rounding a positive rational in the normal range -/

/-- What every operation below delivers: the pattern of a finite, normal, non-negative number whose
    value is the exact one times `1 + δ` with `|δ| ≤ 2^-24` (half a unit in the last place). -/
structure RoundsTo (b : Nat) (x : ℚ) : Prop where
  rel : ∃ δ : ℚ, |δ| ≤ 2 ^ (-24 : Int) ∧ toRat b = x * (1 + δ)
  pos : signBit b = false
  lt : b < 2 ^ 31
  finite : expField b ≠ 255
  normal : expField b ≠ 0

/-- The shape of every rounded result in the normal range: an integer significand `m` within one half
    of the exact quotient by the unit in the last place `2^k`, `k = ⌊log₂ x⌋ - 23`. -/
theorem roundPos_mk (n d : Nat) (hn : 0 < n) (hd : 0 < d)
    (hlo : (2 : ℚ) ^ (-126 : Int) ≤ (n : ℚ) / d) (hhi : (n : ℚ) / d < 2 ^ (127 : Int)) :
    ∃ (m : Nat) (k : Int), toRat (roundPos n d) = (m : ℚ) * 2 ^ k ∧ |(m : ℚ) - (n : ℚ) / d / 2 ^ k| ≤ 1 / 2 ∧
      (2 : ℚ) ^ (23 : Int) ≤ (n : ℚ) / d / 2 ^ k ∧ k = expOf n d - 23 ∧
      signBit (roundPos n d) = false ∧ roundPos n d < 2 ^ 31 ∧ expField (roundPos n d) ≠ 255 ∧
      expField (roundPos n d) ≠ 0 := by
  obtain ⟨he1, he2⟩ := expOf_spec n d hn hd
  have hx : (0 : ℚ) < (n : ℚ) / d := by positivity
  have hge : -126 ≤ expOf n d := by
    have : (2 : ℚ) ^ (-126 : Int) < 2 ^ (expOf n d + 1) := lt_of_le_of_lt hlo he2
    have := (zpow_lt_zpow_iff_right₀ (by norm_num : (1 : ℚ) < 2)).mp this
    omega
  have hle : expOf n d ≤ 126 := by
    have : (2 : ℚ) ^ (expOf n d) < 2 ^ (127 : Int) := lt_of_le_of_lt he1 hhi
    have := (zpow_lt_zpow_iff_right₀ (by norm_num : (1 : ℚ) < 2)).mp this
    omega
  have hk : ulpOf n d = expOf n d - 23 := by unfold ulpOf; omega
  unfold roundPos
  rw [hk]
  generalize expOf n d = e at *
  have hpk : (0 : ℚ) < 2 ^ (e - 23) := two_zpow_pos _
  have hs := sigOf_err n d hd (e - 23)
  refine ⟨sigOf n d (e - 23), e - 23, ?_⟩
  set m := sigOf n d (e - 23) with hm
  set y : ℚ := (n : ℚ) / d / 2 ^ (e - 23) with hy
  have hy1 : (2 : ℚ) ^ (23 : Int) ≤ y := by
    rw [hy, le_div_iff₀ hpk, ← zpow_add₀ (by norm_num)]
    have : (23 : Int) + (e - 23) = e := by ring
    rw [this]; exact he1
  have hy2 : y < (2 : ℚ) ^ (24 : Int) := by
    rw [hy, div_lt_iff₀ hpk, ← zpow_add₀ (by norm_num)]
    have : (24 : Int) + (e - 23) = e + 1 := by ring
    rw [this]; exact he2
  have hs' := hs
  rw [abs_le] at hs
  obtain ⟨hs1, hs2⟩ := hs
  have hy1' := hy1
  norm_num at hy1 hy2
  have hm1 : 2 ^ 23 ≤ m := by
    by_contra hc
    have h' : m ≤ 8388607 := by simp only [Nat.reducePow] at hc; omega
    have : (m : ℚ) ≤ 8388607 := by exact_mod_cast h'
    linarith
  have hm2 : m ≤ 2 ^ 24 := by
    by_contra hc
    have h' : 16777217 ≤ m := by simp only [Nat.reducePow] at hc; omega
    have : (16777217 : ℚ) ≤ (m : ℚ) := by exact_mod_cast h'
    linarith
  obtain ⟨h1, h2, h3, h4, h5⟩ := toRat_encode (e - 23) m (by omega) (by omega) hm1 hm2
  exact ⟨h1, hs', hy1', rfl, h2, h3, h4, h5⟩

theorem roundPos_spec (n d : Nat) (hn : 0 < n) (hd : 0 < d)
    (hlo : (2 : ℚ) ^ (-126 : Int) ≤ (n : ℚ) / d) (hhi : (n : ℚ) / d < 2 ^ (127 : Int)) :
    RoundsTo (roundPos n d) ((n : ℚ) / d) := by
  obtain ⟨m, k, h1, hs, hy1, -, h2, h3, h4, h5⟩ := roundPos_mk n d hn hd hlo hhi
  have hpk : (0 : ℚ) < 2 ^ k := two_zpow_pos _
  set y : ℚ := (n : ℚ) / d / 2 ^ k with hy
  norm_num at hy1
  have hypos : (0 : ℚ) < y := by linarith
  refine ⟨⟨((m : ℚ) - y) / y, ?_, ?_⟩, h2, h3, h4, h5⟩
  · rw [abs_div, abs_of_pos hypos, div_le_iff₀ hypos]
    have h24 : (2 : ℚ) ^ (-24 : Int) = 1 / 16777216 := by norm_num
    rw [h24]
    calc |(m : ℚ) - y| ≤ 1 / 2 := hs
      _ ≤ 1 / 16777216 * y := by linarith
  · rw [h1]
    have : (n : ℚ) / d = y * 2 ^ k := by rw [hy]; field_simp
    rw [this]
    field_simp
    ring

/-- When the exact quotient by the unit in the last place is an integer, nothing is lost. -/
theorem roundPos_exact (n d : Nat) (hn : 0 < n) (hd : 0 < d)
    (hlo : (2 : ℚ) ^ (-126 : Int) ≤ (n : ℚ) / d) (hhi : (n : ℚ) / d < 2 ^ (127 : Int))
    (z : Nat) (hz : (n : ℚ) / d / 2 ^ (expOf n d - 23) = z) :
    toRat (roundPos n d) = (n : ℚ) / d := by
  obtain ⟨m, k, h1, hs, -, hk, -⟩ := roundPos_mk n d hn hd hlo hhi
  subst hk
  rw [hz] at hs
  have hmz : m = z := by
    rw [abs_le] at hs
    obtain ⟨a, b⟩ := hs
    by_contra hne
    rcases Nat.lt_or_gt_of_ne hne with h | h
    · have : (m : ℚ) + 1 ≤ z := by exact_mod_cast h
      linarith
    · have : (z : ℚ) + 1 ≤ m := by exact_mod_cast h
      linarith
  rw [h1, hmz, ← hz]
  have hpk : (0 : ℚ) < 2 ^ (expOf n d - 23) := two_zpow_pos _
  field_simp


/-! ### signs -/

theorem fields_signed (neg : Bool) (b : Nat) (hb : b < 2 ^ 31) :
    signBit ((if neg then 2 ^ 31 else 0) + b) = neg ∧
      expField ((if neg then 2 ^ 31 else 0) + b) = expField b ∧
      manField ((if neg then 2 ^ 31 else 0) + b) = manField b := by
  cases neg <;>
    simp only [signBit, expField, manField, Nat.reducePow, Bool.false_eq_true, if_false, if_true,
      decide_eq_false_iff_not, decide_eq_true_eq] at * <;>
    refine ⟨by omega, by omega, by omega⟩

def sgn (neg : Bool) : ℚ := if neg then -1 else 1

theorem sgn_mul_self (a : Bool) : sgn a * sgn a = 1 := by cases a <;> simp [sgn]
theorem sgn_xor (a b : Bool) : sgn (a != b) = sgn a * sgn b := by cases a <;> cases b <;> simp [sgn]
theorem sgn_ne_zero (a : Bool) : sgn a ≠ 0 := by cases a <;> simp [sgn]
theorem abs_sgn (a : Bool) : |sgn a| = 1 := by cases a <;> simp [sgn]

theorem toRat_def (b : Nat) : toRat b = sgn (signBit b) * (sig b : ℚ) * 2 ^ ulpExp b := by
  unfold toRat sgn; rw [twoPow_eq]

theorem toRat_signed (neg : Bool) (b : Nat) (hb : b < 2 ^ 31) :
    toRat ((if neg then 2 ^ 31 else 0) + b) = sgn neg * ((sig b : ℚ) * 2 ^ ulpExp b) := by
  obtain ⟨h1, h2, h3⟩ := fields_signed neg b hb
  rw [toRat_def]
  unfold sig ulpExp
  rw [h1, h2, h3]; ring

theorem toRat_of_pos (b : Nat) (h : signBit b = false) : toRat b = (sig b : ℚ) * 2 ^ ulpExp b := by
  rw [toRat_def, h]; simp [sgn]

/-- A finite pattern approximating `x` to half a unit in the last place (relative error `≤ 2^-24`). -/
structure Approx (b : Nat) (x : ℚ) : Prop where
  rel : ∃ δ : ℚ, |δ| ≤ 2 ^ (-24 : Int) ∧ toRat b = x * (1 + δ)
  lt : b < 2 ^ 32
  finite : expField b ≠ 255

theorem toRat_zero : toRat 0 = 0 := by
  rw [toRat_def]; simp [sig, expField, manField]

theorem round_zero (neg : Bool) (d : Nat) : toRat (round neg 0 d) = 0 ∧ round neg 0 d < 2 ^ 32 ∧
    expField (round neg 0 d) ≠ 255 := by
  unfold round
  simp only [if_true]
  have := toRat_signed neg 0 (by norm_num)
  obtain ⟨_, h2, _⟩ := fields_signed neg 0 (by norm_num)
  refine ⟨?_, ?_, ?_⟩
  · rw [this]; simp [sig, expField, manField]
  · cases neg <;> simp
  · rw [h2]; simp [expField]

theorem round_spec (neg : Bool) (n d : Nat) (hd : 0 < d)
    (h : n = 0 ∨ ((2 : ℚ) ^ (-126 : Int) ≤ (n : ℚ) / d ∧ (n : ℚ) / d < 2 ^ (127 : Int))) :
    Approx (round neg n d) (sgn neg * ((n : ℚ) / d)) := by
  by_cases hn : n = 0
  · subst hn
    obtain ⟨h1, h2, h3⟩ := round_zero neg d
    exact ⟨⟨0, by simp, by rw [h1]; simp⟩, h2, h3⟩
  · have hn' : 0 < n := Nat.pos_of_ne_zero hn
    obtain ⟨hlo, hhi⟩ := h.resolve_left hn
    obtain ⟨⟨δ, hδ, hv⟩, hp, hlt, hf, _⟩ := roundPos_spec n d hn' hd hlo hhi
    unfold round
    simp only [if_neg hn]
    obtain ⟨_, h2, _⟩ := fields_signed neg _ hlt
    refine ⟨⟨δ, hδ, ?_⟩, ?_, by rw [h2]; exact hf⟩
    · rw [toRat_signed neg _ hlt, ← toRat_of_pos _ hp, hv]; ring
    · cases neg <;> simp only [Nat.reducePow, Bool.false_eq_true, if_false, if_true] at * <;> omega

theorem round_exact (neg : Bool) (n d : Nat) (hn : 0 < n) (hd : 0 < d)
    (hlo : (2 : ℚ) ^ (-126 : Int) ≤ (n : ℚ) / d) (hhi : (n : ℚ) / d < 2 ^ (127 : Int))
    (z : Nat) (hz : (n : ℚ) / d / 2 ^ (expOf n d - 23) = z) :
    toRat (round neg n d) = sgn neg * ((n : ℚ) / d) := by
  obtain ⟨_, hp, hlt, _, _⟩ := roundPos_spec n d hn hd hlo hhi
  have := roundPos_exact n d hn hd hlo hhi z hz
  unfold round
  simp only [if_neg (Nat.pos_iff_ne_zero.mp hn)]
  rw [toRat_signed neg _ hlt, ← toRat_of_pos _ hp, this]


/-! ### the operations -/

theorem zpow_split (s : Int) : ((2 ^ s.toNat : Nat) : ℚ) / ((2 ^ (-s).toNat : Nat) : ℚ) = 2 ^ s := by
  rcases le_total 0 s with h | h
  · obtain ⟨m, rfl⟩ := Int.eq_ofNat_of_zero_le h
    simp
  · have hs : s = -((-s).toNat : Int) := by omega
    generalize (-s).toNat = m at hs
    subst hs
    simp

theorem sgn_decide_neg (i : Int) : sgn (decide (i < 0)) * ((i.natAbs : ℚ) / (1 : Nat)) = i := by
  unfold sgn
  by_cases h : i < 0
  · have : (i.natAbs : Int) = -i := by omega
    have : ((i.natAbs : Int) : ℚ) = ((-i : Int) : ℚ) := by rw [this]
    push_cast at this
    simp [h, this]
  · have : (i.natAbs : Int) = i := by omega
    have : ((i.natAbs : Int) : ℚ) = ((i : Int) : ℚ) := by rw [this]
    push_cast at this
    simp [h, this]

/-- `i as f32` is within half a unit in the last place of `i`. -/
theorem ofInt_approx (i : Int) (h : i.natAbs < 2 ^ 127) : Approx (ofInt i) i := by
  have := round_spec (decide (i < 0)) i.natAbs 1 (by norm_num) (by
    by_cases h0 : i.natAbs = 0
    · exact Or.inl h0
    · right
      have h1 : (1 : ℚ) ≤ (i.natAbs : ℚ) := by exact_mod_cast Nat.pos_of_ne_zero h0
      have h2 : (i.natAbs : ℚ) < ((2 ^ 127 : Nat) : ℚ) := by exact_mod_cast h
      simp only [Nat.cast_one, div_one]
      constructor
      · have : (2 : ℚ) ^ (-126 : Int) ≤ 1 := by norm_num
        linarith
      · push_cast at h2; exact_mod_cast h2)
  rw [sgn_decide_neg] at this
  exact this

/-- Integers below `2^24` in magnitude are converted exactly. -/
theorem ofInt_exact (i : Int) (h : i.natAbs < 2 ^ 24) :
    toRat (ofInt i) = i ∧ ofInt i < 2 ^ 32 ∧ expField (ofInt i) ≠ 255 := by
  have ha := ofInt_approx i (by
    have : (2 : Nat) ^ 24 ≤ 2 ^ 127 := Nat.pow_le_pow_right (by norm_num) (by norm_num)
    omega)
  refine ⟨?_, ha.lt, ha.finite⟩
  by_cases h0 : i.natAbs = 0
  · have hi : i = 0 := by omega
    subst hi
    have := (round_zero false 1).1
    simpa [ofInt] using this
  · have hn : 0 < i.natAbs := Nat.pos_of_ne_zero h0
    obtain ⟨he1, he2⟩ := expOf_spec i.natAbs 1 hn (by norm_num)
    have h1 : (1 : ℚ) ≤ (i.natAbs : ℚ) := by exact_mod_cast hn
    have h2 : (i.natAbs : ℚ) < ((2 ^ 24 : Nat) : ℚ) := by exact_mod_cast h
    push_cast at h2
    have hE : expOf i.natAbs 1 ≤ 23 := by
      have : (2 : ℚ) ^ (expOf i.natAbs 1) < 2 ^ (24 : Int) := by
        refine lt_of_le_of_lt he1 ?_
        simp only [Nat.cast_one, div_one]; exact_mod_cast h2
      have := (zpow_lt_zpow_iff_right₀ (by norm_num : (1 : ℚ) < 2)).mp this
      omega
    have hlo : (2 : ℚ) ^ (-126 : Int) ≤ (i.natAbs : ℚ) / (1 : Nat) := by
      have : (2 : ℚ) ^ (-126 : Int) ≤ 1 := by norm_num
      simp only [Nat.cast_one, div_one]; linarith
    have hhi : (i.natAbs : ℚ) / (1 : Nat) < 2 ^ (127 : Int) := by
      have : (16777216 : ℚ) ≤ 2 ^ (127 : Int) := by norm_num
      simp only [Nat.cast_one, div_one]; linarith
    have := round_exact (decide (i < 0)) i.natAbs 1 hn (by norm_num) hlo hhi
      (i.natAbs * 2 ^ (23 - expOf i.natAbs 1).toNat) (by
        generalize expOf i.natAbs 1 = e at *
        obtain ⟨m, hm⟩ : ∃ m : Nat, e = 23 - (m : Int) := ⟨(23 - e).toNat, by omega⟩
        subst hm
        have e1 : (23 - (m : Int) - 23) = -(m : Int) := by ring
        have e2 : (23 - (23 - (m : Int))).toNat = m := by omega
        rw [e1, e2]
        simp only [Nat.cast_one, div_one, zpow_neg, zpow_natCast]
        push_cast
        field_simp)
    unfold ofInt
    rw [this, sgn_decide_neg]

theorem sig_div_eq (a b : Nat) (hb : sig b ≠ 0) :
    toRat a / toRat b = sgn (signBit a != signBit b) *
      (((sig a * 2 ^ (ulpExp a - ulpExp b).toNat : Nat) : ℚ) / ((sig b * 2 ^ (-(ulpExp a - ulpExp b)).toNat : Nat) : ℚ)) := by
  have hbq : (sig b : ℚ) ≠ 0 := by exact_mod_cast hb
  rw [toRat_def a, toRat_def b, sgn_xor]
  push_cast
  have hs := zpow_split (ulpExp a - ulpExp b)
  push_cast at hs
  have h2 : (2 : ℚ) ^ (ulpExp a - ulpExp b) = 2 ^ ulpExp a / 2 ^ ulpExp b := zpow_sub₀ (by norm_num) _ _
  have hp1 : (0 : ℚ) < 2 ^ (ulpExp a - ulpExp b).toNat := by positivity
  have hp2 : (0 : ℚ) < 2 ^ (-(ulpExp a - ulpExp b)).toNat := by positivity
  have hp3 : (0 : ℚ) < 2 ^ ulpExp b := two_zpow_pos _
  have hsb : sgn (signBit b) ≠ 0 := sgn_ne_zero _
  have e : (sig a : ℚ) * 2 ^ (ulpExp a - ulpExp b).toNat / ((sig b : ℚ) * 2 ^ (-(ulpExp a - ulpExp b)).toNat)
      = (sig a : ℚ) / sig b * (2 ^ ulpExp a / 2 ^ ulpExp b) := by
    rw [← h2, ← hs]; field_simp
  rw [e]
  have hinv : (sgn (signBit b))⁻¹ = sgn (signBit b) := by cases signBit b <;> simp [sgn]
  rw [div_eq_mul_inv, mul_inv, mul_inv, hinv]
  field_simp


/-- `a / b` is within half a unit in the last place of the exact quotient of the two values. -/
theorem div_spec (a b : Nat) (hb : sig b ≠ 0)
    (h : sig a = 0 ∨ ((2 : ℚ) ^ (-126 : Int) ≤ |toRat a / toRat b| ∧ |toRat a / toRat b| < 2 ^ (127 : Int))) :
    Approx (div a b) (toRat a / toRat b) := by
  have hq := sig_div_eq a b hb
  have hd : 0 < sig b * 2 ^ (-(ulpExp a - ulpExp b)).toNat :=
    Nat.mul_pos (Nat.pos_of_ne_zero hb) (by positivity)
  rw [hq]
  unfold div
  apply round_spec _ _ _ hd
  rcases h with h | h
  · left; rw [h]; simp
  · right
    rw [hq, abs_mul, abs_sgn, one_mul, abs_of_nonneg (by positivity)] at h
    exact h

theorem sig_mul_eq (a b : Nat) :
    toRat a * toRat b = sgn (signBit a != signBit b) *
      (((sig a * sig b * 2 ^ (ulpExp a + ulpExp b).toNat : Nat) : ℚ) / ((2 ^ (-(ulpExp a + ulpExp b)).toNat : Nat) : ℚ)) := by
  rw [toRat_def a, toRat_def b, sgn_xor]
  have hs := zpow_split (ulpExp a + ulpExp b)
  have h2 : (2 : ℚ) ^ (ulpExp a + ulpExp b) = 2 ^ ulpExp a * 2 ^ ulpExp b := zpow_add₀ (by norm_num) _ _
  have e : ((sig a * sig b * 2 ^ (ulpExp a + ulpExp b).toNat : Nat) : ℚ) / ((2 ^ (-(ulpExp a + ulpExp b)).toNat : Nat) : ℚ)
      = (sig a : ℚ) * sig b * (2 ^ ulpExp a * 2 ^ ulpExp b) := by
    rw [← h2, ← hs]; push_cast; field_simp
  rw [e]; ring

/-- `a * b` is within half a unit in the last place of the exact product of the two values. -/
theorem mul_spec (a b : Nat)
    (h : sig a = 0 ∨ sig b = 0 ∨ ((2 : ℚ) ^ (-126 : Int) ≤ |toRat a * toRat b| ∧ |toRat a * toRat b| < 2 ^ (127 : Int))) :
    Approx (mul a b) (toRat a * toRat b) := by
  have hq := sig_mul_eq a b
  rw [hq]
  unfold mul
  apply round_spec _ _ _ (by positivity)
  rcases h with h | h | h
  · left; rw [h]; simp
  · left; rw [h]; simp
  · right
    rw [hq, abs_mul, abs_sgn, one_mul, abs_of_nonneg (by positivity)] at h
    exact h


/-! ### chains of operations: accumulated relative error -/

/-- The pattern `b` is finite and denotes `x · (1 + δ)` with `|δ| ≤ ε`. -/
structure Within (b : Nat) (x ε : ℚ) : Prop where
  rel : ∃ δ : ℚ, |δ| ≤ ε ∧ toRat b = x * (1 + δ)
  lt : b < 2 ^ 32
  finite : expField b ≠ 255

theorem Approx.within {b : Nat} {x : ℚ} (h : Approx b x) : Within b x (2 ^ (-24 : Int)) := ⟨h.rel, h.lt, h.finite⟩

theorem within_of_exact {b : Nat} {x : ℚ} (h : toRat b = x) (h1 : b < 2 ^ 32) (h2 : expField b ≠ 255) :
    Within b x 0 := ⟨⟨0, by simp, by rw [h]; ring⟩, h1, h2⟩

theorem sig_eq_zero_of_toRat {b : Nat} (h : toRat b = 0) : sig b = 0 := by
  rw [toRat_def] at h
  have h1 := sgn_ne_zero (signBit b)
  have h2 : (2 : ℚ) ^ ulpExp b ≠ 0 := (two_zpow_pos _).ne'
  have : (sig b : ℚ) = 0 := by
    rcases mul_eq_zero.mp h with h | h
    · rcases mul_eq_zero.mp h with h | h
      · exact absurd h h1
      · exact h
    · exact absurd h h2
  exact_mod_cast this

theorem sig_ne_zero_of_toRat {b : Nat} (h : toRat b ≠ 0) : sig b ≠ 0 := by
  intro hs; apply h; rw [toRat_def, hs]; simp

theorem compose_err (δ1 δ2 ε : ℚ) (h1 : |δ1| ≤ ε) (h2 : |δ2| ≤ 2 ^ (-24 : Int)) :
    |δ1 + δ2 + δ1 * δ2| ≤ ε + 2 ^ (-24 : Int) + ε * 2 ^ (-24 : Int) := by
  have hε : 0 ≤ ε := le_trans (abs_nonneg _) h1
  calc |δ1 + δ2 + δ1 * δ2| ≤ |δ1 + δ2| + |δ1 * δ2| := abs_add_le _ _
    _ ≤ |δ1| + |δ2| + |δ1| * |δ2| := by rw [abs_mul]; linarith [abs_add_le δ1 δ2]
    _ ≤ ε + 2 ^ (-24 : Int) + ε * 2 ^ (-24 : Int) := by
        have := mul_le_mul h1 h2 (abs_nonneg _) hε
        linarith

/-- Dividing a value of moderate magnitude, known to relative error `ε ≤ 1/2`, by an integer constant
    below `2^24` adds one rounding. -/
theorem div_const_within (a : Nat) (A ε : ℚ) (c : Int) (hc : 0 < c) (hc2 : c.natAbs < 2 ^ 24)
    (ha : Within a A ε) (hε : ε ≤ 1 / 2)
    (hA : A = 0 ∨ ((2 : ℚ) ^ (-40 : Int) ≤ |A| ∧ |A| ≤ 2 ^ (64 : Int))) :
    Within (div a (ofInt c)) (A / c) (ε + 2 ^ (-24 : Int) + ε * 2 ^ (-24 : Int)) := by
  obtain ⟨hcv, hclt, hcf⟩ := ofInt_exact c hc2
  obtain ⟨⟨δ1, hδ1, hav⟩, _, _⟩ := ha
  have hcq : (0 : ℚ) < c := by exact_mod_cast hc
  have hcq1 : (1 : ℚ) ≤ c := by exact_mod_cast hc
  have hcq2 : (c : ℚ) ≤ 2 ^ (24 : Int) := by
    have : c < 2 ^ 24 := by omega
    have : (c : ℚ) < ((2 ^ 24 : Int) : ℚ) := by exact_mod_cast this
    norm_num at this ⊢; linarith
  have hsb : sig (ofInt c) ≠ 0 := sig_ne_zero_of_toRat (by rw [hcv]; exact hcq.ne')
  have hd1 := abs_le.mp hδ1
  have key := div_spec a (ofInt c) hsb (by
    rcases hA with hA | ⟨hA1, hA2⟩
    · left; apply sig_eq_zero_of_toRat; rw [hav, hA]; simp
    · right
      rw [hav, hcv, abs_div, abs_mul, abs_of_pos hcq]
      have h1 : (1 : ℚ) / 2 ≤ |1 + δ1| := by rw [abs_of_nonneg (by linarith)]; linarith
      have h2 : |1 + δ1| ≤ 3 / 2 := by rw [abs_of_nonneg (by linarith)]; linarith
      have hAp : 0 ≤ |A| := abs_nonneg _
      constructor
      · rw [le_div_iff₀ hcq]
        calc (2 : ℚ) ^ (-126 : Int) * c ≤ 2 ^ (-126 : Int) * 2 ^ (24 : Int) := by
              apply mul_le_mul_of_nonneg_left hcq2 (by positivity)
          _ ≤ 2 ^ (-40 : Int) * (1 / 2) := by norm_num
          _ ≤ |A| * |1 + δ1| := mul_le_mul hA1 h1 (by norm_num) hAp
      · rw [div_lt_iff₀ hcq]
        calc |A| * |1 + δ1| ≤ 2 ^ (64 : Int) * (3 / 2) := mul_le_mul hA2 h2 (abs_nonneg _) (by positivity)
          _ < 2 ^ (127 : Int) * 1 := by norm_num
          _ ≤ 2 ^ (127 : Int) * c := by apply mul_le_mul_of_nonneg_left hcq1 (by positivity))
  obtain ⟨⟨δ2, hδ2, hv⟩, hlt, hf⟩ := key
  refine ⟨⟨δ1 + δ2 + δ1 * δ2, compose_err δ1 δ2 ε hδ1 hδ2, ?_⟩, hlt, hf⟩
  rw [hv, hav, hcv]; ring

/-- Multiplying by an integer constant below `2^24` adds one rounding. -/
theorem mul_const_within (a : Nat) (A ε : ℚ) (c : Int) (hc : 0 < c) (hc2 : c.natAbs < 2 ^ 24)
    (ha : Within a A ε) (hε : ε ≤ 1 / 2)
    (hA : A = 0 ∨ ((2 : ℚ) ^ (-40 : Int) ≤ |A| ∧ |A| ≤ 2 ^ (64 : Int))) :
    Within (mul a (ofInt c)) (A * c) (ε + 2 ^ (-24 : Int) + ε * 2 ^ (-24 : Int)) := by
  obtain ⟨hcv, hclt, hcf⟩ := ofInt_exact c hc2
  obtain ⟨⟨δ1, hδ1, hav⟩, _, _⟩ := ha
  have hcq : (0 : ℚ) < c := by exact_mod_cast hc
  have hcq1 : (1 : ℚ) ≤ c := by exact_mod_cast hc
  have hcq2 : (c : ℚ) ≤ 2 ^ (24 : Int) := by
    have : c < 2 ^ 24 := by omega
    have : (c : ℚ) < ((2 ^ 24 : Int) : ℚ) := by exact_mod_cast this
    norm_num at this ⊢; linarith
  have hd1 := abs_le.mp hδ1
  have key := mul_spec a (ofInt c) (by
    rcases hA with hA | ⟨hA1, hA2⟩
    · left; apply sig_eq_zero_of_toRat; rw [hav, hA]; simp
    · right; right
      rw [hav, hcv, abs_mul, abs_mul, abs_of_pos hcq]
      have h1 : (1 : ℚ) / 2 ≤ |1 + δ1| := by rw [abs_of_nonneg (by linarith)]; linarith
      have h2 : |1 + δ1| ≤ 3 / 2 := by rw [abs_of_nonneg (by linarith)]; linarith
      have hAp : 0 ≤ |A| := abs_nonneg _
      constructor
      · calc (2 : ℚ) ^ (-126 : Int) ≤ 2 ^ (-40 : Int) * (1 / 2) * 1 := by norm_num
          _ ≤ |A| * |1 + δ1| * c :=
              mul_le_mul (mul_le_mul hA1 h1 (by norm_num) hAp) hcq1 (by norm_num) (by positivity)
      · calc |A| * |1 + δ1| * c ≤ 2 ^ (64 : Int) * (3 / 2) * 2 ^ (24 : Int) :=
              mul_le_mul (mul_le_mul hA2 h2 (abs_nonneg _) (by positivity)) hcq2 hcq.le (by positivity)
          _ < 2 ^ (127 : Int) := by norm_num)
  obtain ⟨⟨δ2, hδ2, hv⟩, hlt, hf⟩ := key
  refine ⟨⟨δ1 + δ2 + δ1 * δ2, compose_err δ1 δ2 ε hδ1 hδ2, ?_⟩, hlt, hf⟩
  rw [hv, hav, hcv]; ring

end AisVerif.F32

import Lean
/-- Rewriting lemmas that turn bit-level reads into `if k ≤ 8 * len` tests. -/
register_simp_attr ais_take

/-
  `parse_ais_sentence`: exactly the bodies `AAAAA,n,k,[id],ch,payload,fill`.
-/
import AisVerif.Lemmas.Grammar

namespace AisVerif
open Spec

/-- The transmitted fields of a sentence body, as the bytes that were sent. -/
structure Body where
  talker : Bytes
  report : Bytes
  nf : Bytes
  fn : Bytes
  id : Bytes
  ch : Bytes
  payload : Bytes
  fill : Bytes

def comma : Bytes := [0x2C]

def Body.render (b : Body) : Bytes :=
  b.talker ++ (b.report ++ (comma ++ (b.nf ++ (comma ++ (b.fn ++ (comma ++ (b.id ++ (comma ++ (b.ch ++ (comma ++
    (b.payload ++ (comma ++ b.fill))))))))))))

structure Body.WF (b : Body) (cfg : Cfg) : Prop where
  talker : b.talker.length = 2
  report : b.report.length = 3
  nf : b.nf ≠ [] ∧ AllDigits b.nf ∧ decVal b.nf ≤ 255
  fn : b.fn ≠ [] ∧ AllDigits b.fn ∧ decVal b.fn ≤ 255
  id : b.id = [] ∨ (AllDigits b.id ∧ decVal b.id ≤ 255)
  ch : (0x2C : UInt8) ∉ b.ch
  payload : (0x2C : UInt8) ∉ b.payload ∧ b.payload ≠ []
  fill : b.fill ≠ [] ∧ AllDigits b.fill ∧ decVal b.fill < 6
  cap : cfg = .noalloc → b.payload.length ≤ maxSentence

/-- What the sentence must report for these transmitted fields. -/
def Body.sentence (b : Body) : Sentence :=
  { talker_id := talkerId b.talker, report_type := reportType b.report,
    num_fragments := decVal b.nf, fragment_number := decVal b.fn,
    message_id := if b.id = [] then none else some (decVal b.id),
    channel := b.ch.head?, data := b.payload, fill_bit_count := decVal b.fill,
    message_type := field b.payload 0 6, message := none }

theorem comma_nld (rest : Bytes) : NoLeadDigit (comma ++ rest) := comma_noLeadDigit rest

theorem messageType_spec (data : Bytes) :
    messageType data = if data = [] then err (.nomError .eof) else ok (field data 0 6) := by
  unfold messageType
  rw [take_bind_8_6]
  cases data with
  | nil => rfl
  | cons a l =>
    have : 0 + 6 ≤ 8 * (a :: l).length := by simp; omega
    rw [if_pos this]; simp

theorem opt_id_render (b : Body) (cfg : Cfg) (h : b.WF cfg) (rest : Bytes) :
    opt parseU8Digit (b.id ++ (comma ++ rest)) = ok (comma ++ rest, if b.id = [] then none else some (decVal b.id)) := by
  unfold opt
  by_cases he : b.id = []
  · rw [he]; simp only [List.nil_append, if_true]
    obtain ⟨k, hk⟩ := parseU8Digit_nodigit (rest := comma ++ rest) (comma_nld rest)
    rw [hk]
  · rcases h.id with h0 | ⟨hd, hv⟩
    · exact absurd h0 he
    · rw [parseU8Digit_append b.id (comma ++ rest) he hd (comma_nld rest) hv]
      simp only [he, if_false]

theorem Body.WF.toStd {b : Body} {cfg : Cfg} (h : b.WF cfg) : b.WF .std :=
  ⟨h.talker, h.report, h.nf, h.fn, h.id, h.ch, h.payload, h.fill, fun hc => by cases hc⟩

theorem parseAisCore_render (cfg : Cfg) (b : Body) (h : b.WF cfg) (rest : Bytes) (hr : NoLeadDigit rest) :
    parseAisCore (b.render ++ rest) = ok (rest, b.sentence) := by
  unfold parseAisCore Body.render
  simp only [List.append_assoc]
  have t2 := takeBytes_append b.talker (b.report ++ (comma ++ (b.nf ++ (comma ++ (b.fn ++ (comma ++ (b.id ++ (comma ++
    (b.ch ++ (comma ++ (b.payload ++ (comma ++ (b.fill ++ rest)))))))))))))
  rw [h.talker] at t2
  rw [t2]; simp only [Res.ok_bind]
  have t3 := takeBytes_append b.report (comma ++ (b.nf ++ (comma ++ (b.fn ++ (comma ++ (b.id ++ (comma ++
    (b.ch ++ (comma ++ (b.payload ++ (comma ++ (b.fill ++ rest))))))))))))
  rw [h.report] at t3
  rw [t3]; simp only [Res.ok_bind]
  have tg : ∀ r : Bytes, tag [0x2C] (comma ++ r) = ok (r, [0x2C]) := fun r => tag_append [0x2C] r
  rw [tg]; simp only [Res.ok_bind]
  rw [parseU8Digit_append b.nf _ h.nf.1 h.nf.2.1 (comma_nld _) h.nf.2.2]; simp only [Res.ok_bind]
  rw [tg]; simp only [Res.ok_bind]
  rw [parseU8Digit_append b.fn _ h.fn.1 h.fn.2.1 (comma_nld _) h.fn.2.2]; simp only [Res.ok_bind]
  rw [tg]; simp only [Res.ok_bind]
  rw [opt_id_render b cfg h]; simp only [Res.ok_bind]
  rw [tg]; simp only [Res.ok_bind]
  have tu : ∀ (pre post : Bytes), (0x2C : UInt8) ∉ pre → takeUntil 0x2C (pre ++ (comma ++ post)) = ok (comma ++ post, pre) :=
    fun pre post hp => takeUntil_append 0x2C pre post hp
  rw [tu b.ch _ h.ch]; simp only [Res.ok_bind]
  rw [tg]; simp only [Res.ok_bind]
  rw [tu b.payload _ h.payload.1]; simp only [Res.ok_bind]
  rw [tg]; simp only [Res.ok_bind]
  rw [parseU8Digit_append b.fill rest h.fill.1 h.fill.2.1 hr (by have := h.fill.2.2; omega)]; simp only [Res.ok_bind]
  have hf : ¬ ¬ decVal b.fill < 6 := by have := h.fill.2.2; omega
  rw [if_neg hf]
  rw [messageType_spec, if_neg h.payload.2]; simp only [Res.ok_bind]
  rfl

/-- **Construction.** A well-formed body is accepted with exactly its fields. -/
theorem parseAisSentence_render (cfg : Cfg) (b : Body) (h : b.WF cfg) (rest : Bytes) (hr : NoLeadDigit rest) :
    parseAisSentence cfg (b.render ++ rest) = ok (rest, b.sentence) := by
  unfold parseAisSentence
  rw [parseAisCore_render cfg b h rest hr]
  simp only [Res.ok_bind]
  have hcap : (cfg.isNoalloc && decide (maxSentence < b.sentence.data.length)) = false := by
    cases cfg <;> simp [Cfg.isNoalloc]
    have := h.cap rfl
    show b.payload.length ≤ maxSentence
    omega
  rw [hcap]
  simp only [Bool.false_eq_true, if_false]

theorem parseAisCore_ok {i rest : Bytes} {s : Sentence}
    (h : parseAisCore i = ok (rest, s)) :
    ∃ b : Body, b.WF .std ∧ i = b.render ++ rest ∧ s = b.sentence ∧ NoLeadDigit rest := by
  unfold parseAisCore at h
  obtain ⟨⟨i1, talker⟩, h1, h⟩ := bind_ok h
  obtain ⟨⟨i2, report⟩, h2, h⟩ := bind_ok h
  obtain ⟨⟨i3, x3⟩, h3, h⟩ := bind_ok h
  obtain ⟨⟨i4, nf⟩, h4, h⟩ := bind_ok h
  obtain ⟨⟨i5, x5⟩, h5, h⟩ := bind_ok h
  obtain ⟨⟨i6, fn⟩, h6, h⟩ := bind_ok h
  obtain ⟨⟨i7, x7⟩, h7, h⟩ := bind_ok h
  obtain ⟨⟨i8, mid⟩, h8, h⟩ := bind_ok h
  obtain ⟨⟨i9, x9⟩, h9, h⟩ := bind_ok h
  obtain ⟨⟨i10, ch⟩, h10, h⟩ := bind_ok h
  obtain ⟨⟨i11, x11⟩, h11, h⟩ := bind_ok h
  obtain ⟨⟨i12, data⟩, h12, h⟩ := bind_ok h
  obtain ⟨⟨i13, x13⟩, h13, h⟩ := bind_ok h
  obtain ⟨⟨i14, fill⟩, h14, h⟩ := bind_ok h
  simp only [] at h
  by_cases hf : ¬ fill < 6
  · rw [if_pos hf] at h; cases h
  rw [if_neg hf] at h
  obtain ⟨mt, hmt, h⟩ := bind_ok h
  cases h
  have a1 := takeBytes_ok h1
  have a2 := takeBytes_ok h2
  have a3 := tag_ok h3
  obtain ⟨nfD, e4, n4, d4, _, v4, b4⟩ := parseU8Digit_ok h4
  have a5 := tag_ok h5
  obtain ⟨fnD, e6, n6, d6, _, v6, b6⟩ := parseU8Digit_ok h6
  have a7 := tag_ok h7
  have a9 := tag_ok h9
  have a10 := takeUntil_ok h10
  have a11 := tag_ok h11
  have a12 := takeUntil_ok h12
  have a13 := tag_ok h13
  obtain ⟨fillD, e14, n14, d14, r14, v14, _⟩ := parseU8Digit_ok h14
  rw [messageType_spec] at hmt
  have hdne : data ≠ [] := by
    intro he; rw [if_pos he] at hmt; cases hmt
  rw [if_neg hdne] at hmt
  cases hmt
  -- the optional id
  have hid : ∃ idD : Bytes, i7 = idD ++ i8 ∧ (idD = [] ∨ (AllDigits idD ∧ decVal idD ≤ 255)) ∧
      mid = (if idD = [] then none else some (decVal idD)) := by
    rcases opt_ok h8 with ⟨hn, hi⟩ | ⟨v, hs, hp⟩
    · exact ⟨[], by simp [hi], Or.inl rfl, by simp [hn]⟩
    · obtain ⟨idD, e8, n8, d8, _, v8, b8⟩ := parseU8Digit_ok hp
      refine ⟨idD, e8, Or.inr ⟨d8, by omega⟩, ?_⟩
      simp only [n8, if_false, hs, v8]
  obtain ⟨idD, e8, w8, m8⟩ := hid
  refine ⟨⟨talker, report, nfD, fnD, idD, ch, data, fillD⟩, ?_, ?_, ?_, r14⟩
  · have q4 : decVal nfD ≤ 255 := by omega
    have q6 : decVal fnD ≤ 255 := by omega
    have q14 : decVal fillD < 6 := by omega
    exact ⟨a1.2, a2.2, ⟨n4, d4, q4⟩, ⟨n6, d6, q6⟩, w8, a10.2.1, ⟨a12.2.1, hdne⟩,
      ⟨n14, d14, q14⟩, fun hc => by cases hc⟩
  · unfold Body.render comma
    simp only []
    rw [a1.1, a2.1, a3.1, e4, a5.1, e6, a7.1, e8, a9.1, a10.1, a11.1, a12.1, a13.1, e14]
    simp only [List.append_assoc]
  · unfold Body.sentence
    simp only [v4, v6, v14, m8]

/-- **Inversion.** Whatever `parse_ais_sentence` accepts is a well-formed body followed by the
    unconsumed rest, and the sentence reports exactly that body's fields. -/
theorem parseAisSentence_ok {cfg : Cfg} {i rest : Bytes} {s : Sentence}
    (h : parseAisSentence cfg i = ok (rest, s)) :
    ∃ b : Body, b.WF cfg ∧ i = b.render ++ rest ∧ s = b.sentence ∧ NoLeadDigit rest := by
  unfold parseAisSentence at h
  obtain ⟨⟨rest', s'⟩, hc, h⟩ := bind_ok h
  simp only [] at h
  by_cases hcap : (cfg.isNoalloc && decide (maxSentence < s'.data.length)) = true
  · rw [if_pos hcap] at h; cases h
  rw [if_neg hcap] at h
  cases h
  obtain ⟨b, hwf, hi, hs, hr⟩ := parseAisCore_ok hc
  refine ⟨b, ⟨hwf.talker, hwf.report, hwf.nf, hwf.fn, hwf.id, hwf.ch, hwf.payload, hwf.fill, ?_⟩, hi, hs, hr⟩
  intro hcfg; subst hcfg
  subst hs
  simp [Cfg.isNoalloc] at hcap
  exact hcap

end AisVerif

/-
  Armoring (the encoder side of C03) and the round trip `unarmor ∘ armor`.
-/
import AisVerif.Lemmas.Unarmor
import AisVerif.Lemmas.Bits

namespace AisVerif
namespace Spec

/-- The armoring character of a 6-bit value: 0-39 ↦ '0'-'W', 40-63 ↦ '`'-'w'. -/
def armorChar (v : Nat) : UInt8 := if v < 40 then UInt8.ofNat (v + 48) else UInt8.ofNat (v + 56)

/-- Armor the first `nbits` bits of `bs` (bits beyond the end of `bs` read as 0): the payload
    characters and the fill-bit count. -/
def armor (bs : List UInt8) (nbits : Nat) : List UInt8 × Nat :=
  let nchars := (nbits + 5) / 6
  ((List.range nchars).map fun k => armorChar (field bs (6 * k) 6), 6 * nchars - nbits)

end Spec
open Spec

/-! ## The alphabet -/

theorem sixbit_armorChar_fin : ∀ v : Fin 64, Spec.sixbit (Spec.armorChar v.val) = some v.val := by
  decide +kernel

theorem sixbit_armorChar (v : Nat) (h : v < 64) : Spec.sixbit (Spec.armorChar v) = some v :=
  sixbit_armorChar_fin ⟨v, h⟩

/-! ## Shape of `armor` -/

theorem armor_fst (bs : List UInt8) (nbits : Nat) :
    (Spec.armor bs nbits).1 =
      (List.range ((nbits + 5) / 6)).map fun k => Spec.armorChar (Spec.field bs (6 * k) 6) := rfl

theorem armor_snd (bs : List UInt8) (nbits : Nat) :
    (Spec.armor bs nbits).2 = 6 * ((nbits + 5) / 6) - nbits := rfl

theorem armor_length (bs : List UInt8) (nbits : Nat) :
    (Spec.armor bs nbits).1.length = (nbits + 5) / 6 := by
  rw [armor_fst, List.length_map, List.length_range]

theorem armor_getElem? (bs : List UInt8) (nbits k : Nat) (hk : k < (nbits + 5) / 6) :
    (Spec.armor bs nbits).1[k]? = some (Spec.armorChar (Spec.field bs (6 * k) 6)) := by
  rw [armor_fst, List.getElem?_map, List.getElem?_range hk]
  rfl

theorem armor_allArmored (bs : List UInt8) (nbits : Nat) : AllArmored (Spec.armor bs nbits).1 := by
  intro c hc
  rw [armor_fst] at hc
  obtain ⟨k, _, rfl⟩ := List.mem_map.mp hc
  rw [sixbit_armorChar _ (field_lt bs (6 * k) 6)]
  rfl

theorem armor_fill_le (bs : List UInt8) (nbits : Nat) : (Spec.armor bs nbits).2 ≤ 5 := by
  rw [armor_snd]; omega

theorem armor_bits (bs : List UInt8) (nbits : Nat) :
    6 * (Spec.armor bs nbits).1.length - (Spec.armor bs nbits).2 = nbits := by
  rw [armor_length, armor_snd]; omega

/-! ## Bits of a 6-bit field -/

theorem field6_bit (bs : List UInt8) (p j : Nat) (hj : j < 6) :
    (Spec.field bs p 6 / 2 ^ (5 - j)) % 2 = Spec.bit bs (p + j) := by
  have e : Spec.field bs p 6 =
      2 * (2 * (2 * (2 * (2 * (2 * 0 + bit bs p) + bit bs (p + 1)) + bit bs (p + 2))
        + bit bs (p + 3)) + bit bs (p + 4)) + bit bs (p + 5) := rfl
  rw [e]
  have h0 := bit_lt bs p; have h1 := bit_lt bs (p + 1); have h2 := bit_lt bs (p + 2)
  have h3 := bit_lt bs (p + 3); have h4 := bit_lt bs (p + 4); have h5 := bit_lt bs (p + 5)
  match j, hj with
  | 0, _ => simp; omega
  | 1, _ => simp; omega
  | 2, _ => simp; omega
  | 3, _ => simp; omega
  | 4, _ => simp; omega
  | 5, _ => simp; omega

theorem armoredBit_armor (bs : List UInt8) (nbits i : Nat) (h : i < 6 * ((nbits + 5) / 6)) :
    Spec.armoredBit (Spec.armor bs nbits).1 i = Spec.bit bs i := by
  unfold Spec.armoredBit
  rw [armor_getElem? bs nbits (i / 6) (by omega)]
  simp only [sixbit_armorChar _ (field_lt bs (6 * (i / 6)) 6)]
  rw [field6_bit bs (6 * (i / 6)) (i % 6) (Nat.mod_lt _ (by decide))]
  have : 6 * (i / 6) + i % 6 = i := by omega
  rw [this]

/-! ## Round trip -/

theorem unarmor_armor (cfg : Cfg) (bs : List UInt8) (nbits : Nat)
    (hsz : ¬ TooLarge cfg ((nbits + 5) / 6)) :
    ∃ out, unarmor cfg (Spec.armor bs nbits).1 (Spec.armor bs nbits).2 = ok out ∧
      out.length = Spec.unarmorLen ((nbits + 5) / 6) ∧
      ∀ i, Spec.bit out i = if i < nbits then Spec.bit bs i else 0 := by
  obtain ⟨out, e, hl, hb⟩ := unarmor_ok cfg (Spec.armor bs nbits).1 (Spec.armor bs nbits).2
    (armor_fill_le bs nbits) (armor_allArmored bs nbits) (by rw [armor_length]; exact hsz)
  refine ⟨out, e, by rw [hl, armor_length], ?_⟩
  intro i
  rw [hb i, armor_bits]
  by_cases hi : i < nbits
  · rw [if_pos hi, if_pos hi, armoredBit_armor bs nbits i (by omega)]
  · rw [if_neg hi, if_neg hi]

theorem bit_ge (l : List UInt8) (i : Nat) (h : 8 * l.length ≤ i) : Spec.bit l i = 0 := by
  rw [bit_eq_lbit, lbit_ge l i h]; rfl

theorem bit_append_zeros (l : List UInt8) (k i : Nat) :
    Spec.bit (l ++ List.replicate k 0) i = Spec.bit l i := by
  by_cases h : i / 8 < l.length
  · unfold Spec.bit
    rw [List.getElem?_append_left h]
  · rw [bit_ge l i (by omega)]
    unfold Spec.bit
    rw [List.getElem?_append_right (by omega), List.getElem?_replicate]
    split <;> simp

theorem eq_of_bit_eq (a b : List UInt8) (hlen : a.length = b.length)
    (h : ∀ i, Spec.bit a i = Spec.bit b i) : a = b := by
  apply eq_of_lbit_eq a b hlen
  intro i
  have := h i
  rw [bit_eq_lbit, bit_eq_lbit] at this
  revert this
  cases lbit a i <;> cases lbit b i <;> simp

theorem unarmorLen_armor_ge (n : Nat) : n ≤ Spec.unarmorLen ((8 * n + 5) / 6) := by
  unfold Spec.unarmorLen; omega

theorem unarmorLen_armor_le (n : Nat) : Spec.unarmorLen ((8 * n + 5) / 6) ≤ n + 1 := by
  unfold Spec.unarmorLen; omega

/-- Armoring all of `bs` and unarmoring gives `bs` back, followed by at most one zero byte
    (exactly when `8 * bs.length % 24 = 8`, i.e. when the last character carries only 2 bits). -/
theorem unarmor_armor_padded (cfg : Cfg) (bs : List UInt8)
    (hsz : ¬ TooLarge cfg ((8 * bs.length + 5) / 6)) :
    unarmor cfg (Spec.armor bs (8 * bs.length)).1 (Spec.armor bs (8 * bs.length)).2 =
      ok (bs ++ List.replicate (Spec.unarmorLen ((8 * bs.length + 5) / 6) - bs.length) 0) := by
  obtain ⟨out, e, hl, hb⟩ := unarmor_armor cfg bs (8 * bs.length) hsz
  rw [e]
  congr 1
  apply eq_of_bit_eq
  · rw [hl, List.length_append, List.length_replicate]
    have := unarmorLen_armor_ge bs.length
    omega
  · intro i
    rw [hb i, bit_append_zeros]
    by_cases hi : i < 8 * bs.length
    · rw [if_pos hi]
    · rw [if_neg hi, bit_ge bs i (by omega)]

theorem unarmor_pad_le_one (n : Nat) : Spec.unarmorLen ((8 * n + 5) / 6) - n ≤ 1 := by
  have := unarmorLen_armor_le n
  omega

/-- **Exact round trip** when the unarmored length is the original length. -/
theorem unarmor_armor_exact (cfg : Cfg) (bs : List UInt8)
    (hlen : Spec.unarmorLen ((8 * bs.length + 5) / 6) = bs.length)
    (hsz : ¬ TooLarge cfg ((8 * bs.length + 5) / 6)) :
    unarmor cfg (Spec.armor bs (8 * bs.length)).1 (Spec.armor bs (8 * bs.length)).2 = ok bs := by
  rw [unarmor_armor_padded cfg bs hsz, hlen, Nat.sub_self]
  simp

/-! ## Non-vacuity -/

example : Spec.armor [0b00100100] 6 = ([0x39], 0) := by decide +kernel
example : Spec.armor [0xff] 8 = ([0x77, 0x68], 4) := by decide +kernel
example : Spec.armor [0x04, 0x20, 0xc4] 24 = ([0x31, 0x32, 0x33, 0x34], 0) := by decide +kernel

theorem not_tooLarge_small (cfg : Cfg) (n : Nat) (h : Spec.unarmorLen n ≤ maxSentence) :
    ¬ TooLarge cfg n := fun hl => Nat.lt_irrefl _ (Nat.lt_of_lt_of_le hl.2 h)

/-- a 3-byte list round-trips exactly, in every build -/
example (cfg : Cfg) :
    unarmor cfg (Spec.armor [0x12, 0xab, 0xff] 24).1 (Spec.armor [0x12, 0xab, 0xff] 24).2
      = ok [0x12, 0xab, 0xff] :=
  unarmor_armor_exact cfg [0x12, 0xab, 0xff] (by decide) (not_tooLarge_small cfg _ (by decide))

/-- a 21-byte list (168 bits = 28 characters, a type 1/2/3 message) round-trips exactly -/
example (cfg : Cfg) (b0 b1 b2 b3 b4 b5 b6 b7 b8 b9 b10 b11 b12 b13 b14 b15 b16 b17 b18 b19 b20 : UInt8) :
    let bs := [b0, b1, b2, b3, b4, b5, b6, b7, b8, b9, b10, b11, b12, b13, b14, b15, b16, b17, b18, b19, b20]
    unarmor cfg (Spec.armor bs 168).1 (Spec.armor bs 168).2 = ok bs := by
  intro bs
  have hlen : Spec.unarmorLen ((8 * bs.length + 5) / 6) = bs.length := by simp [bs, Spec.unarmorLen]
  have hsz : Spec.unarmorLen ((8 * bs.length + 5) / 6) ≤ maxSentence := by
    simp [bs, Spec.unarmorLen, maxSentence]
  exact unarmor_armor_exact cfg bs hlen (not_tooLarge_small cfg _ hsz)

/-- a 1-byte list comes back with one padding byte (8 bits = 2 characters = 12 bits = 2 bytes) -/
example (cfg : Cfg) (b : UInt8) :
    unarmor cfg (Spec.armor [b] 8).1 (Spec.armor [b] 8).2 = ok [b, 0] := by
  have hsz : Spec.unarmorLen ((8 * [b].length + 5) / 6) ≤ maxSentence := by simp [Spec.unarmorLen, maxSentence]
  have h := unarmor_armor_padded cfg [b] (not_tooLarge_small cfg _ hsz)
  have e : Spec.unarmorLen ((8 * [b].length + 5) / 6) - [b].length = 1 := by simp [Spec.unarmorLen]
  rw [e] at h
  exact h

end AisVerif

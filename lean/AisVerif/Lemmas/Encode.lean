/-
  Encoder side: packing a bit stream into bytes and the round-trip property of `field`.
-/
import AisVerif.Spec.Bits
import AisVerif.Lemmas.Bits
namespace AisVerif
open Spec

/-- One row of a message layout with the value to transmit: bit offset, width, value. -/
structure Row where
  off : Nat
  w : Nat
  v : Nat

/-- Bit `i` (most significant first) of the `w`-bit field holding `v` at offset `off`; 0 outside the field. -/
def Row.bitAt (r : Row) (i : Nat) : Nat :=
  if r.off ≤ i ∧ i < r.off + r.w then (r.v / 2 ^ (r.off + r.w - 1 - i)) % 2 else 0

/-- The bit stream that carries every row's value at its position (rows do not overlap), 0 elsewhere. -/
def rowsBit (rows : List Row) (i : Nat) : Nat :=
  match rows.find? (fun r => decide (r.off ≤ i ∧ i < r.off + r.w)) with
  | some r => r.bitAt i
  | none => 0

/-- Pack the first `n` bits of a bit stream into `(n + 7) / 8` bytes, most significant bit first (padding 0). -/
def packBits (n : Nat) (f : Nat → Nat) : List UInt8 :=
  (List.range ((n + 7) / 8)).map fun j =>
    UInt8.ofNat ((List.range 8).foldl (fun acc k => 2 * acc + (if 8 * j + k < n then f (8 * j + k) % 2 else 0)) 0)

/-- The payload of `n` bits carrying the rows. -/
def encodeRows (n : Nat) (rows : List Row) : List UInt8 := packBits n (rowsBit rows)

/-- Rows are pairwise non-overlapping, lie within `n` bits, and every value fits its width. -/
def RowsOK (n : Nat) (rows : List Row) : Prop :=
  (∀ r ∈ rows, r.off + r.w ≤ n ∧ r.v < 2 ^ r.w) ∧
  rows.Pairwise (fun a b => a.off + a.w ≤ b.off ∨ b.off + b.w ≤ a.off)

theorem packBits_length (n : Nat) (f : Nat → Nat) : (packBits n f).length = (n + 7) / 8 := by
  simp [packBits]

/-- The eight-step fold is the usual big-endian sum. -/
theorem fold8_eq (g : Nat → Nat) :
    (List.range 8).foldl (fun acc k => 2 * acc + g k) 0
      = 128 * g 0 + 64 * g 1 + 32 * g 2 + 16 * g 3 + 8 * g 4 + 4 * g 5 + 2 * g 6 + g 7 := by
  simp [List.range, List.range.loop]
  omega

theorem fold8_lt (g : Nat → Nat) (hg : ∀ k, g k < 2) :
    (List.range 8).foldl (fun acc k => 2 * acc + g k) 0 < 256 := by
  rw [fold8_eq]
  have := hg 0; have := hg 1; have := hg 2; have := hg 3
  have := hg 4; have := hg 5; have := hg 6; have := hg 7
  omega

theorem fold8_bit (g : Nat → Nat) (hg : ∀ k, g k < 2) (m : Nat) (hm : m < 8) :
    ((List.range 8).foldl (fun acc k => 2 * acc + g k) 0) / 2 ^ (7 - m) % 2 = g m := by
  rw [fold8_eq]
  have := hg 0; have := hg 1; have := hg 2; have := hg 3
  have := hg 4; have := hg 5; have := hg 6; have := hg 7
  match m, hm with
  | 0, _ => simp; omega
  | 1, _ => simp; omega
  | 2, _ => simp; omega
  | 3, _ => simp; omega
  | 4, _ => simp; omega
  | 5, _ => simp; omega
  | 6, _ => simp; omega
  | 7, _ => simp; omega

theorem bit_packBits (n : Nat) (f : Nat → Nat) (i : Nat) :
    bit (packBits n f) i = if i < n then f i % 2 else 0 := by
  unfold bit packBits
  rw [List.getElem?_map]
  by_cases hj : i / 8 < (n + 7) / 8
  · rw [List.getElem?_range hj]
    simp only [Option.map_some, Option.getD_some]
    have hg : ∀ k, (fun k => if 8 * (i / 8) + k < n then f (8 * (i / 8) + k) % 2 else 0) k < 2 := by
      intro k
      show (if 8 * (i / 8) + k < n then f (8 * (i / 8) + k) % 2 else 0) < 2
      split
      · exact Nat.mod_lt _ (by decide)
      · decide
    have hlt := fold8_lt _ hg
    have hb := fold8_bit _ hg (i % 8) (by omega)
    rw [UInt8.toNat_ofNat', Nat.mod_eq_of_lt (show _ < 2 ^ 8 from hlt), hb]
    have : 8 * (i / 8) + i % 8 = i := by omega
    show (if 8 * (i / 8) + i % 8 < n then f (8 * (i / 8) + i % 8) % 2 else 0) = _
    rw [this]
  · rw [List.getElem?_eq_none (by simp; omega)]
    have : ¬ i < n := by omega
    simp [this]

/-- A field whose bits are the binary digits of `v` reads as `v`. -/
theorem field_of_bits_aux (bs : List UInt8) (off w v : Nat) (hv : v < 2 ^ w)
    (hb : ∀ k, k < w → bit bs (off + k) = (v / 2 ^ (w - 1 - k)) % 2) :
    ∀ k, k ≤ w → field bs off k = v / 2 ^ (w - k) := by
  intro k
  induction k with
  | zero =>
    intro _
    simp only [field, Nat.sub_zero]
    exact (Nat.div_eq_of_lt hv).symm
  | succ k ih =>
    intro hk
    simp only [field]
    rw [ih (by omega), hb k (by omega)]
    have e1 : w - k = (w - (k + 1)) + 1 := by omega
    have e2 : w - 1 - k = w - (k + 1) := by omega
    rw [e1, e2, Nat.pow_succ, ← Nat.div_div_eq_div_mul]
    generalize v / 2 ^ (w - (k + 1)) = y
    omega

theorem field_of_bits (bs : List UInt8) (off w v : Nat) (hv : v < 2 ^ w)
    (hb : ∀ k, k < w → bit bs (off + k) = (v / 2 ^ (w - 1 - k)) % 2) :
    field bs off w = v := by
  have := field_of_bits_aux bs off w v hv hb w (Nat.le_refl _)
  simpa using this

/-- With pairwise non-overlapping rows, the row found at a position inside `r` is `r`. -/
theorem find_row (rows : List Row) (i : Nat)
    (hp : rows.Pairwise (fun a b => a.off + a.w ≤ b.off ∨ b.off + b.w ≤ a.off)) :
    ∀ r ∈ rows, r.off ≤ i → i < r.off + r.w →
      rows.find? (fun r => decide (r.off ≤ i ∧ i < r.off + r.w)) = some r := by
  induction rows with
  | nil => intro r hr; cases hr
  | cons a l ih =>
    intro r hr h1 h2
    rw [List.pairwise_cons] at hp
    rcases List.mem_cons.mp hr with rfl | hmem
    · simp [List.find?, h1, h2]
    · have hd := hp.1 r hmem
      have hna : ¬ (a.off ≤ i ∧ i < a.off + a.w) := by omega
      simp only [List.find?, hna, decide_false]
      exact ih hp.2 r hmem h1 h2

theorem rowsBit_eq (rows : List Row) (i : Nat)
    (hp : rows.Pairwise (fun a b => a.off + a.w ≤ b.off ∨ b.off + b.w ≤ a.off))
    (r : Row) (hr : r ∈ rows) (h1 : r.off ≤ i) (h2 : i < r.off + r.w) :
    rowsBit rows i = r.bitAt i := by
  unfold rowsBit
  rw [find_row rows i hp r hr h1 h2]

/-- **Round trip**: in the payload that carries the rows, every row's field reads back its value. -/
theorem field_encodeRows (n : Nat) (rows : List Row) (h : RowsOK n rows) :
    ∀ r ∈ rows, field (encodeRows n rows) r.off r.w = r.v := by
  intro r hr
  obtain ⟨hfit, hv⟩ := h.1 r hr
  apply field_of_bits _ _ _ _ hv
  intro k hk
  unfold encodeRows
  rw [bit_packBits, if_pos (by omega), rowsBit_eq rows _ h.2 r hr (by omega) (by omega)]
  unfold Row.bitAt
  rw [if_pos ⟨by omega, by omega⟩, Nat.mod_mod]
  have : r.off + r.w - 1 - (r.off + k) = r.w - 1 - k := by omega
  rw [this]

end AisVerif

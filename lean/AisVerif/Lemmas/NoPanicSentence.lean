/-
  The sentence grammar and the reassembly step never panic (the payload functions are handled by
  `decode_noPanic` and the unarmor refinement).
-/
import AisVerif.Lemmas.Body
import AisVerif.Lemmas.Inv

namespace AisVerif
open Spec

theorem np_bind {α β : Type} {r : Res α} {f : α → Res β} (hr : NoPanic r) (hf : ∀ a, NoPanic (f a)) :
    NoPanic (r >>= f) := by
  intro p
  cases r with
  | ok a => exact hf a p
  | err e => intro h; cases h
  | panic q => exact absurd rfl (hr q)

theorem np_ok' {α : Type} (a : α) : NoPanic (ok a) := fun _ h => by cases h
theorem np_err' {α : Type} (e : Err) : NoPanic (err e : Res α) := fun _ h => by cases h
theorem np_ite' {α : Type} {c : Prop} [Decidable c] {a b : Res α} (ha : NoPanic a) (hb : NoPanic b) :
    NoPanic (if c then a else b) := by split <;> assumption

theorem np_tag (t i : Bytes) : NoPanic (tag t i) := by unfold tag; exact np_ite' (np_ok' _) (np_err' _)
theorem np_takeBytes (n : Nat) (i : Bytes) : NoPanic (takeBytes n i) := by
  unfold takeBytes; exact np_ite' (np_err' _) (np_ok' _)
theorem np_takeUntil (b : UInt8) (i : Bytes) : NoPanic (takeUntil b i) := by
  unfold takeUntil; exact np_ite' (np_ok' _) (np_err' _)
theorem np_digit1 (i : Bytes) : NoPanic (digit1 i) := by
  unfold digit1; exact np_ite' (np_err' _) (np_ok' _)
theorem np_parseU8Digit (i : Bytes) : NoPanic (parseU8Digit i) := by
  unfold parseU8Digit
  exact np_bind (np_digit1 i) (fun _ => np_ite' (np_ok' _) (np_err' _))
theorem np_hexU32 (i : Bytes) : NoPanic (hexU32 i) := by
  unfold hexU32; exact np_ite' (np_err' _) (np_ok' _)

theorem np_opt {α : Type} (p : Bytes → Res (Bytes × α)) (i : Bytes) (hp : NoPanic (p i)) : NoPanic (opt p i) := by
  unfold opt
  cases h : p i with
  | ok r => exact np_ok' _
  | err e => cases e <;> first | exact np_ok' _ | exact np_err' _
  | panic q => exact absurd h (hp q)

theorem np_messageType (data : Bytes) : NoPanic (messageType data) := by
  rw [messageType_spec]; exact np_ite' (np_err' _) (np_ok' _)

theorem np_tagBlock (i : Bytes) : NoPanic (tagBlock i) := by
  unfold tagBlock
  exact np_bind (np_tag _ _) fun _ => np_bind (np_takeUntil _ _) fun _ => np_bind (np_tag _ _) fun _ => np_ok' _

theorem np_delimiter (i : Bytes) : NoPanic (delimiter i) := by
  unfold delimiter
  cases h : tag [0x21] i with
  | ok r => exact np_ok' _
  | err e => cases e <;> first | exact np_tag _ _ | exact np_err' _
  | panic q => exact absurd h (np_tag _ _ q)

theorem np_parseAisCore (i : Bytes) : NoPanic (parseAisCore i) := by
  unfold parseAisCore
  refine np_bind (np_takeBytes _ _) fun _ => np_bind (np_takeBytes _ _) fun _ => np_bind (np_tag _ _) fun _ =>
    np_bind (np_parseU8Digit _) fun _ => np_bind (np_tag _ _) fun _ => np_bind (np_parseU8Digit _) fun _ =>
    np_bind (np_tag _ _) fun _ => np_bind (np_opt _ _ (np_parseU8Digit _)) fun _ => np_bind (np_tag _ _) fun _ =>
    np_bind (np_takeUntil _ _) fun _ => np_bind (np_tag _ _) fun _ => np_bind (np_takeUntil _ _) fun _ =>
    np_bind (np_tag _ _) fun _ => np_bind (np_parseU8Digit _) fun _ => ?_
  exact np_ite' (np_err' _) (np_bind (np_messageType _) fun _ => np_ok' _)

theorem np_parseAisSentence (cfg : Cfg) (i : Bytes) : NoPanic (parseAisSentence cfg i) := by
  unfold parseAisSentence
  exact np_bind (np_parseAisCore i) fun _ => np_ite' (np_err' _) (np_ok' _)

/-- `parse_nmea_sentence` never panics, on any byte string. -/
theorem np_parseNmeaSentence (cfg : Cfg) (line : Bytes) : NoPanic (parseNmeaSentence cfg line) := by
  unfold parseNmeaSentence
  refine np_bind (np_opt _ _ (np_tagBlock _)) fun _ => np_bind (np_delimiter _) fun _ =>
    np_bind (np_takeUntil _ _) fun _ => np_bind (np_parseAisSentence _ _) fun _ => ?_
  exact np_ite' (np_err' _) (np_bind (np_tag _ _) fun _ => np_bind (np_hexU32 _) fun _ =>
    np_ite' (np_err' _) (np_ok' _))

theorem np_verifyAndExtend (cfg : Cfg) (st : PState) (s : Sentence) : NoPanic (verifyAndExtend cfg st s).2 := by
  unfold verifyAndExtend
  repeat' split
  all_goals first | exact np_err' _ | exact np_ok' _

end AisVerif

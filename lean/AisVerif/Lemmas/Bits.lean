/-
  The bridge between nom's `take` loop (Model/Bits.lean) and the specification `field`.
-/
import AisVerif.Model.Bits
import AisVerif.Spec.Bits

namespace AisVerif
open Spec

theorem bit_lt (bs : List UInt8) (i : Nat) : bit bs i < 2 := by
  unfold bit; exact Nat.mod_lt _ (by decide)

theorem mul_add_lt {a A e B : Nat} (ha : a < A) (he : e < B) : a * B + e < A * B := by
  have : (a + 1) * B ≤ A * B := Nat.mul_le_mul_right B ha
  rw [Nat.add_mul] at this
  omega

theorem field_lt (bs : List UInt8) (p w : Nat) : field bs p w < 2 ^ w := by
  induction w with
  | zero => simp [field]
  | succ w ih =>
    have hb := bit_lt bs (p + w)
    simp only [field, Nat.pow_succ]
    have := mul_add_lt (B := 2) ih hb
    omega

theorem bit_cons (b : UInt8) (l : List UInt8) (i : Nat) : bit (b :: l) (i + 8) = bit l i := by
  unfold bit
  have h1 : (i + 8) / 8 = i / 8 + 1 := by omega
  have h2 : (i + 8) % 8 = i % 8 := by omega
  rw [h1, h2]; simp

theorem field_cons (b : UInt8) (l : List UInt8) (p w : Nat) :
    field (b :: l) (p + 8) w = field l p w := by
  induction w with
  | zero => rfl
  | succ w ih =>
    simp only [field, ih]
    have : p + 8 + w = (p + w) + 8 := by omega
    rw [this, bit_cons]

theorem field_add (bs : List UInt8) (p m n : Nat) :
    field bs p (m + n) = field bs p m * 2 ^ n + field bs (p + m) n := by
  induction n with
  | zero => simp [field]
  | succ n ih =>
    have : m + (n + 1) = (m + n) + 1 := by omega
    rw [this]
    simp only [field, ih, Nat.pow_succ]
    have : p + (m + n) = p + m + n := by omega
    rw [this, Nat.mul_add, Nat.add_assoc]
    congr 1
    rw [Nat.mul_comm 2, Nat.mul_assoc]

/-- Bits inside the first byte. -/
theorem field_byte (b : UInt8) (l : List UInt8) (off k : Nat) (h : off + k ≤ 8) :
    field (b :: l) off k = b.toNat / 2 ^ (8 - off - k) % 2 ^ k := by
  induction k with
  | zero => simp [field, Nat.mod_one]
  | succ k ih =>
    have ih := ih (by omega)
    simp only [field, ih]
    have hb : bit (b :: l) (off + k) = b.toNat / 2 ^ (8 - off - (k + 1)) % 2 := by
      unfold bit
      have h1 : (off + k) / 8 = 0 := by omega
      have h2 : (off + k) % 8 = off + k := by omega
      rw [h1, h2]
      have : 7 - (off + k) = 8 - off - (k + 1) := by omega
      simp [this]
    rw [hb]
    have e : 8 - off - k = (8 - off - (k + 1)) + 1 := by omega
    rw [e, Nat.pow_succ, ← Nat.div_div_eq_div_mul]
    generalize b.toNat / 2 ^ (8 - off - (k + 1)) = x
    rw [Nat.pow_succ, Nat.mul_comm (2 ^ k) 2, Nat.mod_mul]
    omega

theorem takeLoop_spec (W : Nat) :
    ∀ (l : List UInt8) (off rem acc : Nat), off < 8 → off + rem ≤ 8 * l.length →
      acc + 2 ^ rem ≤ 2 ^ W → takeLoop W l off rem acc = ok (acc + field l off rem) := by
  intro l
  induction l with
  | nil =>
    intro off rem acc _ h _
    have : rem = 0 := by simp at h; omega
    subst this; simp [takeLoop, field]
  | cons b l ih =>
    intro off rem acc hoff hlen hacc
    unfold takeLoop
    by_cases h0 : rem = 0
    · subst h0; simp [field]
    · simp only [h0, if_false]
      by_cases hlt : rem < 8 - off
      · simp only [hlt, if_true]
        have hfb := field_byte b l off rem (by omega)
        have e : 2 ^ (8 - off) = 2 ^ (8 - off - rem) * 2 ^ rem := by
          rw [← Nat.pow_add]; congr 1; omega
        rw [e, Nat.mod_mul_right_div_self, ← hfb]
        have := field_lt (b :: l) off rem
        unfold addW
        rw [if_pos (by omega)]
      · simp only [hlt, if_false]
        have hs : rem = (8 - off) + (rem - (8 - off)) := by omega
        generalize hsd : rem - (8 - off) = s at *
        have hvlt : b.toNat % 2 ^ (8 - off) < 2 ^ (8 - off) := Nat.mod_lt _ (Nat.two_pow_pos _)
        generalize hv : b.toNat % 2 ^ (8 - off) = val at *
        have e : 2 ^ rem = 2 ^ (8 - off) * 2 ^ s := by
          rw [← Nat.pow_add]; congr 1
        have hpos : 0 < 2 ^ s := Nat.two_pow_pos _
        have hW : 2 ^ rem ≤ 2 ^ W := by omega
        have hremW : rem ≤ W := (Nat.pow_le_pow_iff_right (by decide)).mp hW
        have hbound : val * 2 ^ s + 2 ^ s ≤ 2 ^ rem := by
          rw [e]
          have : (val + 1) * 2 ^ s ≤ 2 ^ (8 - off) * 2 ^ s := Nat.mul_le_mul_right _ hvlt
          rw [Nat.add_mul] at this; omega
        have hsh : shlW W val s = ok (val * 2 ^ s) := by
          unfold shlW
          rw [if_pos (by omega), Nat.mod_eq_of_lt (by omega)]
        have hadd : addW W acc (val * 2 ^ s) = ok (acc + val * 2 ^ s) := by
          unfold addW; rw [if_pos (by omega)]
        simp only [hsh, Res.ok_bind, hadd]
        rw [ih 0 s (acc + val * 2 ^ s) (by omega) (by simp at hlen; omega) (by omega)]
        congr 1
        rw [hs, field_add, field_byte b l off (8 - off) (by omega)]
        have : 8 - off - (8 - off) = 0 := by omega
        rw [this, Nat.pow_zero, Nat.div_one, hv]
        have : off + (8 - off) = 0 + 8 := by omega
        rw [this, field_cons]
        omega


theorem bit_take (l : List UInt8) (k i : Nat) (h : i < 8 * k) : bit (l.take k) i = bit l i := by
  unfold bit
  have : i / 8 < k := by omega
  rw [List.getElem?_take_of_lt this]

theorem bit_drop (l : List UInt8) (j i : Nat) : bit (l.drop j) i = bit l (8 * j + i) := by
  unfold bit
  have h1 : (8 * j + i) / 8 = j + i / 8 := by omega
  have h2 : (8 * j + i) % 8 = i % 8 := by omega
  rw [h1, h2, List.getElem?_drop]

theorem field_take (l : List UInt8) (k p w : Nat) (h : p + w ≤ 8 * k) :
    field (l.take k) p w = field l p w := by
  induction w with
  | zero => rfl
  | succ w ih => simp only [field, ih (by omega), bit_take l k (p + w) (by omega)]

theorem field_drop (l : List UInt8) (j p w : Nat) :
    field (l.drop j) p w = field l (8 * j + p) w := by
  induction w with
  | zero => rfl
  | succ w ih => simp only [field, ih, bit_drop, Nat.add_assoc]

/-- `take` reads exactly the specified field, or fails with `Eof` when it does not fit. -/
theorem take_spec {W n : Nat} (c : Cur) (hn : 0 < n) (hW : n ≤ W) :
    take W n c = if c.pos + n ≤ 8 * c.bs.length then ok (field c.bs c.pos n, c.advance n)
                 else err (.nomError .eof) := by
  unfold take
  rw [if_neg (by omega)]
  simp only [Cur.rest, List.length_drop]
  by_cases hfit : c.pos + n ≤ 8 * c.bs.length
  · rw [if_pos hfit, if_neg (by omega)]
    have hpow : 0 + 2 ^ n ≤ 2 ^ W := by
      rw [Nat.zero_add]; exact Nat.pow_le_pow_right (by decide) hW
    rw [takeLoop_spec W _ (c.pos % 8) n 0 (by omega) (by
      simp only [List.length_take, List.length_drop]; omega) hpow]
    simp only [Res.ok_bind, Nat.zero_add]
    rw [field_take _ _ _ _ (by omega), field_drop]
    have : 8 * (c.pos / 8) + c.pos % 8 = c.pos := by omega
    rw [this]
  · rw [if_neg hfit, if_pos (by omega)]

theorem take_zero (W : Nat) (c : Cur) : take W 0 c = ok (0, c) := by
  unfold take; simp

end AisVerif

/-
  `parse_nmea_sentence`: construction direction (a framed, well-formed line is accepted).
-/
import AisVerif.Lemmas.Body

namespace AisVerif
open Spec

/-- The prefix before the start delimiter: nothing, or a tag block `\ … \`. -/
def PreOK (pre : Bytes) : Prop := pre = [] ∨ ∃ tb, pre = [0x5C] ++ tb ++ [0x5C] ∧ (0x5C : UInt8) ∉ tb

theorem opt_tagBlock_render (pre : Bytes) (d : UInt8) (rest : Bytes) (hp : PreOK pre) (hd : d = 0x21 ∨ d = 0x24) :
    opt tagBlock (pre ++ d :: rest) = ok (d :: rest, if pre = [] then none else some ()) := by
  rcases hp with rfl | ⟨tb, rfl, htb⟩
  · simp only [List.nil_append, if_true]
    unfold opt tagBlock
    have : tag [0x5C] (d :: rest) = err (.nomError .tag) := by
      apply tag_ne; rcases hd with rfl | rfl <;> simp
    rw [this]; rfl
  · have hne : ¬ ([0x5C] ++ tb ++ [0x5C] : Bytes) = [] := by simp
    simp only [hne, if_false]
    unfold opt tagBlock
    have e : ([0x5C] ++ tb ++ [0x5C] ++ d :: rest : Bytes) = [0x5C] ++ (tb ++ 0x5C :: (d :: rest)) := by simp
    rw [e, tag_append]; simp only [Res.ok_bind]
    rw [takeUntil_append 0x5C tb (d :: rest) htb]; simp only [Res.ok_bind]
    have e2 : ((0x5C : UInt8) :: d :: rest) = [0x5C] ++ (d :: rest) := rfl
    rw [e2, tag_append]; rfl

theorem delimiter_render (d : UInt8) (rest : Bytes) (hd : d = 0x21 ∨ d = 0x24) :
    delimiter (d :: rest) = ok (rest, [d]) := by
  unfold delimiter
  rcases hd with rfl | rfl
  · have : tag [0x21] (0x21 :: rest) = ok (rest, [0x21]) := tag_append [0x21] rest
    rw [this]
  · have h1 : tag [0x21] (0x24 :: rest) = err (.nomError .tag) := by apply tag_ne; simp
    have h2 : tag [0x24] (0x24 :: rest) = ok (rest, [0x24]) := tag_append [0x24] rest
    rw [h1]; simp only []; rw [h2]

theorem hexU32_spec (i : Bytes) :
    hexU32 i = if i.takeWhile isHexDigit = [] then err (.nomError .hexDigit)
               else ok (i.drop ((i.takeWhile isHexDigit).take 8).length, hexVal ((i.takeWhile isHexDigit).take 8)) := rfl

/-- **Construction.** -/
theorem parseNmeaSentence_render (cfg : Cfg) (pre : Bytes) (d : UInt8) (b : Body) (rest : Bytes)
    (hp : PreOK pre) (hd : d = 0x21 ∨ d = 0x24) (hb : b.WF cfg) (hs : (0x2A : UInt8) ∉ b.render)
    (hh : rest.takeWhile isHexDigit ≠ []) (hv : hexVal ((rest.takeWhile isHexDigit).take 8) ≤ 0xFF) :
    parseNmeaSentence cfg (pre ++ [d] ++ b.render ++ [0x2A] ++ rest) =
      ok (b.render, b.sentence, hexVal ((rest.takeWhile isHexDigit).take 8)) := by
  unfold parseNmeaSentence
  have e : (pre ++ [d] ++ b.render ++ [0x2A] ++ rest : Bytes) = pre ++ d :: (b.render ++ 0x2A :: rest) := by simp
  rw [e, opt_tagBlock_render pre d _ hp hd]; simp only [Res.ok_bind]
  rw [delimiter_render d _ hd]; simp only [Res.ok_bind]
  rw [takeUntil_append 0x2A b.render rest hs]; simp only [Res.ok_bind]
  have hbody := parseAisSentence_render cfg b hb [] nil_noLeadDigit
  rw [List.append_nil] at hbody
  rw [hbody]; simp only [Res.ok_bind]
  have hnn : ¬ (([] : Bytes) ≠ []) := by simp
  rw [if_neg hnn]
  have e2 : ((0x2A : UInt8) :: rest) = [0x2A] ++ rest := rfl
  rw [e2, tag_append]; simp only [Res.ok_bind]
  rw [hexU32_spec, if_neg hh]; simp only [Res.ok_bind]
  have : ¬ ¬ hexVal ((rest.takeWhile isHexDigit).take 8) ≤ 0xFF := by omega
  rw [if_neg this]

end AisVerif

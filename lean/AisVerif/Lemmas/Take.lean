/-
  Rewriting lemmas that turn a straight-line bit parser into a chain of `if k ≤ 8 * len` tests
  on literal positions, and the two closers for such chains.
-/
import AisVerif.Lemmas.Bits
import AisVerif.Model.Parsers

namespace AisVerif
open Spec

@[simp] theorem Cur.advance_mk (bs : List UInt8) (p n : Nat) : (Cur.mk bs p).advance n = ⟨bs, p + n⟩ := rfl
@[simp] theorem Cur.remaining_mk (bs : List UInt8) (p : Nat) : (Cur.mk bs p).remaining = 8 * bs.length - p := rfl

theorem ite_eq_of_pos {α : Sort _} {c : Prop} [Decidable c] {x y z : α} (hc : c) (h : x = z) :
    (if c then x else y) = z := by rw [if_pos hc]; exact h

theorem ite_err_of {α : Type} {c : Prop} [Decidable c] {x : Res α} {e : Err} (h : c → x = err e) :
    (if c then x else err e) = err e := by
  by_cases hc : c
  · rw [if_pos hc]; exact h hc
  · rw [if_neg hc]

/-- `take` followed by a continuation, on a cursor with explicit position. -/
theorem take_bind {β : Type} {W n : Nat} (bs : List UInt8) (p : Nat) (f : Nat × Cur → Res β)
    (hn : 0 < n) (hW : n ≤ W) :
    (take W n ⟨bs, p⟩ >>= f) =
      if p + n ≤ 8 * bs.length then f (field bs p n, ⟨bs, p + n⟩) else err (.nomError .eof) := by
  rw [take_spec _ hn hW]
  by_cases h : p + n ≤ 8 * bs.length
  · simp only [h, if_true, Res.ok_bind, Cur.advance_mk]
  · simp only [h, if_false, Res.err_bind]

theorem signedI32_spec (len : Nat) (bs : List UInt8) (p : Nat) (h0 : 0 < len) (h31 : len ≤ 31) :
    signedI32 len ⟨bs, p⟩ =
      if p + len ≤ 8 * bs.length then ok (toSigned len (field bs p len), ⟨bs, p + len⟩)
      else err (.nomError .eof) := by
  unfold signedI32
  rw [if_neg (by omega)]
  show (take 31 len ⟨bs, p⟩ >>= _) = _
  rw [take_bind bs p _ h0 h31]
  by_cases h : p + len ≤ 8 * bs.length
  · simp only [h, if_true]
    rw [if_neg (by omega)]
    unfold toSigned
    by_cases hs : 2 ^ (len - 1) ≤ field bs p len
    · rw [if_pos hs, if_neg (by omega)]
    · rw [if_neg hs, if_pos (by omega)]
  · simp only [h, if_false]

theorem signedI32_bind {β : Type} (len : Nat) (bs : List UInt8) (p : Nat) (f : Int × Cur → Res β)
    (h0 : 0 < len) (h31 : len ≤ 31) :
    (signedI32 len ⟨bs, p⟩ >>= f) =
      if p + len ≤ 8 * bs.length then f (toSigned len (field bs p len), ⟨bs, p + len⟩)
      else err (.nomError .eof) := by
  rw [signedI32_spec len bs p h0 h31]
  by_cases h : p + len ≤ 8 * bs.length
  · simp only [h, if_true, Res.ok_bind]
  · simp only [h, if_false, Res.err_bind]

/-! One-bit fields never reach the `unreachable!()` arms. -/

theorem field_one_cases (bs : List UInt8) (p : Nat) : field bs p 1 = 0 ∨ field bs p 1 = 1 := by
  have := field_lt bs p 1
  omega

/-- The two-valued enumerations on a one-bit field. -/
def bitSym (a b : String) (v : Nat) : Val := if v = 0 then .sym a else .sym b

theorem twoWay_field (a b : String) (bs : List UInt8) (p : Nat) :
    twoWay a b (field bs p 1) = ok (bitSym a b (field bs p 1)) := by
  rcases field_one_cases bs p with h | h <;> rw [h] <;> rfl

theorem u8ToBool_field (bs : List UInt8) (p : Nat) :
    u8ToBool (field bs p 1) = ok (.bool (field bs p 1 == 1)) := by
  rcases field_one_cases bs p with h | h <;> rw [h] <;> rfl

@[simp] theorem Accuracy_parse_field (bs : List UInt8) (p : Nat) :
    Accuracy.parse (field bs p 1) = ok (bitSym "Unaugmented" "Dgps" (field bs p 1)) := twoWay_field _ _ bs p
@[simp] theorem Dte_from_field (bs : List UInt8) (p : Nat) :
    Dte.from (field bs p 1) = ok (bitSym "Ready" "NotReady" (field bs p 1)) := twoWay_field _ _ bs p
@[simp] theorem AssignedMode_parse_field (bs : List UInt8) (p : Nat) :
    AssignedMode.parse (field bs p 1) = ok (bitSym "Autonomous" "Assigned" (field bs p 1)) := twoWay_field _ _ bs p
@[simp] theorem CarrierSense_parse_field (bs : List UInt8) (p : Nat) :
    CarrierSense.parse (field bs p 1) = ok (bitSym "Sotdma" "CarrierSense" (field bs p 1)) := twoWay_field _ _ bs p

end AisVerif

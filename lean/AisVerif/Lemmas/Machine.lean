/-
  `AisParser::parse` refines the abstract group automaton.
-/
import AisVerif.Lemmas.Outer
import AisVerif.Spec.Reassembly

namespace AisVerif
open Spec

/-- The concrete state represents the abstract one. -/
def Rel (st : PState) (g : Option Group) : Prop :=
  match g with
  | none => st = ⟨none, 0, []⟩
  | some o => st = ⟨o.id, o.last, o.parts.flatten⟩ ∧ 1 ≤ o.last

def capOf (cfg : Cfg) : Option Nat := if cfg.isNoalloc then some maxSentence else none

theorem fits_iff (cfg : Cfg) (n : Nat) : fits (capOf cfg) n ↔ ¬ ((cfg.isNoalloc && decide (maxSentence < n)) = true) := by
  unfold fits capOf
  cases cfg <;> simp [Cfg.isNoalloc]

/-- How an outcome of the automaton shows in the result of `parse`. -/
def Matches (cfg : Cfg) (dec : Bool) (s : Sentence) (st st' : PState) (o : Outcome) (r : Res Frag) : Prop :=
  match o with
  | .incomplete => r = ok (.incomplete s)
  | .complete d => r = (decodeInto cfg dec { s with data := d }).map Frag.complete
  | .reject => st' = st ∧ ∃ m, r = err (.text m)

theorem verify_accept (cfg : Cfg) (st : PState) (s : Sentence)
    (hid : st.message_id = s.message_id) (hfn : st.fragment_number + 1 = s.fragment_number)
    (hfit : fits (capOf cfg) (st.data.length + s.data.length)) :
    verifyAndExtend cfg st s = ({ st with data := st.data ++ s.data, fragment_number := s.fragment_number }, ok ()) := by
  unfold verifyAndExtend
  have h1 : ¬ (st.message_id ≠ s.message_id) := by simp [hid]
  have h2 : ¬ (s.fragment_number < st.fragment_number ∨ s.fragment_number - st.fragment_number ≠ 1) := by omega
  have h3 := (fits_iff cfg _).mp hfit
  rw [if_neg h1, if_neg h2, if_neg h3]

theorem verify_reject (cfg : Cfg) (st : PState) (s : Sentence)
    (h : ¬ (st.message_id = s.message_id ∧ st.fragment_number + 1 = s.fragment_number ∧
      fits (capOf cfg) (st.data.length + s.data.length))) :
    ∃ m, verifyAndExtend cfg st s = (st, err (.text m)) := by
  unfold verifyAndExtend
  by_cases h1 : st.message_id ≠ s.message_id
  · rw [if_pos h1]; exact ⟨_, rfl⟩
  · rw [if_neg h1]
    by_cases h2 : s.fragment_number < st.fragment_number ∨ s.fragment_number - st.fragment_number ≠ 1
    · rw [if_pos h2]; exact ⟨_, rfl⟩
    · rw [if_neg h2]
      by_cases h3 : (cfg.isNoalloc && decide (maxSentence < st.data.length + s.data.length)) = true
      · rw [if_pos h3]; exact ⟨_, rfl⟩
      · exfalso; apply h
        refine ⟨by simpa using h1, by omega, (fits_iff cfg _).mpr h3⟩

theorem stepSentence_more (cfg : Cfg) (dec : Bool) (st : PState) (s : Sentence)
    (hm : s.fragment_number < s.num_fragments) :
    stepSentence cfg st s dec =
      afterVerify (verifyAndExtend cfg (if s.fragment_number = 1 then ⟨s.message_id, 0, []⟩ else st) s)
        (fun st2 => (st2, ok (.incomplete s))) := by
  unfold stepSentence Sentence.hasMore
  simp only [hm, decide_true, if_true]

theorem stepSentence_unfrag (cfg : Cfg) (dec : Bool) (st : PState) (s : Sentence)
    (hm : ¬ s.fragment_number < s.num_fragments) (h1 : s.num_fragments = 1) :
    stepSentence cfg st s dec = (st, (decodeInto cfg dec s).map Frag.complete) := by
  unfold stepSentence Sentence.hasMore Sentence.isFragment
  have : (s.num_fragments != 1) = false := by simp [h1]
  simp only [hm, decide_false, Bool.false_eq_true, if_false, this]

theorem stepSentence_last (cfg : Cfg) (dec : Bool) (st : PState) (s : Sentence)
    (hm : ¬ s.fragment_number < s.num_fragments) (h1 : s.num_fragments ≠ 1) :
    stepSentence cfg st s dec =
      afterVerify (verifyAndExtend cfg st s)
        (fun st2 => (⟨none, 0, []⟩, (decodeInto cfg dec { s with data := st2.data }).map Frag.complete)) := by
  unfold stepSentence Sentence.hasMore Sentence.isFragment
  have : (s.num_fragments != 1) = true := by simp [h1]
  simp only [hm, decide_false, Bool.false_eq_true, if_false, this, if_true]

/-- **One step of the refinement.** For a validly numbered sentence whose own payload fits the
    buffer, the concrete step simulates the abstract one. -/
theorem stepSentence_refines (cfg : Cfg) (dec : Bool) (st : PState) (g : Option Group) (s : Sentence)
    (hR : Rel st g) (hv : 1 ≤ s.fragment_number ∧ s.fragment_number ≤ s.num_fragments)
    (hcap : fits (capOf cfg) s.data.length) :
    Rel (stepSentence cfg st s dec).1 (gstep (capOf cfg) g s.num_fragments s.fragment_number s.message_id s.data).1 ∧
    Matches cfg dec s st (stepSentence cfg st s dec).1
      (gstep (capOf cfg) g s.num_fragments s.fragment_number s.message_id s.data).2 (stepSentence cfg st s dec).2 := by
  unfold gstep
  by_cases hm : s.fragment_number < s.num_fragments
  · rw [stepSentence_more cfg dec st s hm, if_pos hm]
    by_cases h1 : s.fragment_number = 1
    · rw [if_pos h1, if_pos h1]
      have hacc := verify_accept cfg ⟨s.message_id, 0, []⟩ s rfl (by simp [h1]) (by simpa using hcap)
      rw [hacc]
      refine ⟨⟨?_, Nat.le_refl 1⟩, rfl⟩
      simp [afterVerify, h1]
    · rw [if_neg h1, if_neg h1]
      cases g with
      | none =>
        have hst : st = ⟨none, 0, []⟩ := hR
        subst hst
        obtain ⟨m, hm'⟩ := verify_reject cfg ⟨none, 0, []⟩ s (by
          intro ⟨_, h, _⟩; simp at h; have := hv.1; have := hv.2; omega)
        rw [hm']
        exact ⟨rfl, rfl, m, rfl⟩
      | some o =>
        obtain ⟨hst, hl⟩ := hR
        subst hst
        by_cases hc : o.id = s.message_id ∧ o.last + 1 = s.fragment_number ∧
            fits (capOf cfg) (o.parts.flatten.length + s.data.length)
        · simp only []
          rw [if_pos hc, verify_accept cfg ⟨o.id, o.last, o.parts.flatten⟩ s hc.1 hc.2.1 hc.2.2]
          have h2 : 1 ≤ s.fragment_number := hv.1
          refine ⟨⟨?_, h2⟩, rfl⟩
          simp [afterVerify, hc.1]
        · simp only []
          rw [if_neg hc]
          obtain ⟨m, hm'⟩ := verify_reject cfg ⟨o.id, o.last, o.parts.flatten⟩ s hc
          rw [hm']
          exact ⟨⟨rfl, hl⟩, rfl, m, rfl⟩
  · rw [if_neg hm]
    by_cases hn1 : s.num_fragments = 1
    · rw [stepSentence_unfrag cfg dec st s hm hn1, if_pos hn1]
      exact ⟨hR, rfl⟩
    · rw [stepSentence_last cfg dec st s hm hn1, if_neg hn1]
      cases g with
      | none =>
        have hst : st = ⟨none, 0, []⟩ := hR
        subst hst
        obtain ⟨m, hm'⟩ := verify_reject cfg ⟨none, 0, []⟩ s (by
          intro ⟨_, h, _⟩; simp at h; have := hv.1; have := hv.2; omega)
        rw [hm']
        exact ⟨rfl, rfl, m, rfl⟩
      | some o =>
        obtain ⟨hst, hl⟩ := hR
        subst hst
        by_cases hc : o.id = s.message_id ∧ o.last + 1 = s.fragment_number ∧
            fits (capOf cfg) (o.parts.flatten.length + s.data.length)
        · simp only []
          rw [if_pos hc, verify_accept cfg ⟨o.id, o.last, o.parts.flatten⟩ s hc.1 hc.2.1 hc.2.2]
          refine ⟨rfl, ?_⟩
          simp [Matches, afterVerify]
        · simp only []
          rw [if_neg hc]
          obtain ⟨m, hm'⟩ := verify_reject cfg ⟨o.id, o.last, o.parts.flatten⟩ s hc
          rw [hm']
          exact ⟨⟨rfl, hl⟩, rfl, m, rfl⟩

end AisVerif

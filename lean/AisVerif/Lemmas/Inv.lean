/-
  Inversion lemmas for the shapes that occur in `Spec.dispatch`.
-/
import AisVerif.Refine.Dispatch

namespace AisVerif
open Spec

theorem ok_inj {α : Type} {a b : α} (h : (ok a : Res α) = ok b) : a = b := by cases h; rfl

theorem ite_eof_ok {c : Prop} [Decidable c] {r : Res Msg} {m : Msg}
    (h : (if c then r else Spec.eof) = ok m) : c ∧ r = ok m := by
  by_cases hc : c
  · rw [if_pos hc] at h; exact ⟨hc, h⟩
  · rw [if_neg hc] at h; cases h

theorem capped_ok {cfg : Cfg} {n lim : Nat} {r : Res Msg} {m : Msg}
    (h : Spec.capped cfg n lim r = ok m) : r = ok m ∧ (cfg = .noalloc → n ≤ lim) := by
  unfold Spec.capped at h
  by_cases hc : (cfg.isNoalloc && decide (lim < n)) = true
  · rw [if_pos hc] at h; cases h
  · rw [if_neg hc] at h
    refine ⟨h, fun hcfg => ?_⟩
    subst hcfg
    simp [Cfg.isNoalloc] at hc
    omega

theorem specRadioTail_ok {mk : List (Key × Val) → Msg} {bs : List UInt8} {s t : Nat} {m : Msg}
    (h : Spec.specRadioTail mk bs s t = ok m) :
    t ≤ 8 * bs.length ∧ ∃ r, Spec.radioOf (field bs 0 6) (field bs s 19) = some r ∧ m = mk r := by
  unfold Spec.specRadioTail at h
  by_cases hs : s ≤ 8 * bs.length
  · rw [if_pos hs] at h
    cases hr : Spec.radioOf (field bs 0 6) (field bs s 19) with
    | none => rw [hr] at h; cases h
    | some r =>
      rw [hr] at h
      simp only [] at h
      have := ite_eof_ok h
      exact ⟨this.1, r, rfl, (ok_inj this.2).symm⟩
  · rw [if_neg hs] at h; cases h

theorem decodeT15_ok {bs : List UInt8} {m : Msg} (h : Spec.decodeT15 bs = ok m) :
    ∃ sts, m = Spec.renderStations bs sts := by
  unfold Spec.decodeT15 at h
  split at h
  · split at h
    · exact ⟨_, (ok_inj h).symm⟩
    · cases h
  · exact ⟨_, (ok_inj h).symm⟩

/-! ### The specification never panics and never produces a checksum error -/

/-- Neither a panic nor a `Checksum` error. -/
def Clean {α : Type} (r : Res α) : Prop := (∀ p, r ≠ panic p) ∧ (∀ a b, r ≠ err (.checksum a b))

def NoPanic {α : Type} (r : Res α) : Prop := ∀ p, r ≠ panic p

theorem cl_ok {α : Type} (a : α) : Clean (ok a) := ⟨fun _ h => (by cases h), fun _ _ h => (by cases h)⟩
theorem cl_nomError {α : Type} (k : NomKind) : Clean (err (.nomError k) : Res α) :=
  ⟨fun _ h => (by cases h), fun _ _ h => (by cases h)⟩
theorem cl_nomFailure {α : Type} (k : NomKind) : Clean (err (.nomFailure k) : Res α) :=
  ⟨fun _ h => (by cases h), fun _ _ h => (by cases h)⟩
theorem cl_text {α : Type} (m : ErrMsg) : Clean (err (.text m) : Res α) :=
  ⟨fun _ h => (by cases h), fun _ _ h => (by cases h)⟩
theorem cl_eof {α : Type} : Clean (Spec.eof : Res α) := cl_nomError _
theorem cl_ite {α : Type} {c : Prop} [Decidable c] {a b : Res α} (ha : Clean a) (hb : Clean b) :
    Clean (if c then a else b) := by split <;> assumption

theorem cl_capped (cfg : Cfg) (n lim : Nat) {r : Res Msg} (hr : Clean r) : Clean (Spec.capped cfg n lim r) :=
  cl_ite (cl_nomFailure _) hr

theorem cl_specRadioTail (mk : List (Key × Val) → Msg) (bs : List UInt8) (s t : Nat) :
    Clean (Spec.specRadioTail mk bs s t) := by
  unfold Spec.specRadioTail
  refine cl_ite ?_ cl_eof
  cases Spec.radioOf (field bs 0 6) (field bs s 19) with
  | none => exact cl_nomFailure _
  | some r => exact cl_ite (cl_ok _) cl_eof

theorem cl_decodeT15 (bs : List UInt8) : Clean (Spec.decodeT15 bs) :=
  cl_ite (cl_ite (cl_ok _) (cl_nomError _)) (cl_ok _)

theorem cl_dispatch (cfg : Cfg) (t : Nat) (bs : List UInt8) : Clean (Spec.dispatch cfg t bs) := by
  unfold Spec.dispatch Spec.specT01 Spec.specBase Spec.specT09
  exact (cl_ite (cl_specRadioTail _ _ _ _)
    (cl_ite (cl_specRadioTail _ _ _ _)
    (cl_ite (cl_ite (cl_ok _) cl_eof)
    (cl_ite (cl_ite (cl_ok _) cl_eof)
    (cl_ite (cl_ite (cl_capped _ _ _ (cl_ok _)) cl_eof)
    (cl_ite (cl_ite (cl_capped _ _ _ (cl_ok _)) cl_eof)
    (cl_ite (cl_specRadioTail _ _ _ _)
    (cl_ite (cl_ite (cl_ok _) cl_eof)
    (cl_ite (cl_specRadioTail _ _ _ _)
    (cl_ite (cl_ite (cl_capped _ _ _ (cl_ok _)) cl_eof)
    (cl_ite (cl_ite (cl_ok _) cl_eof)
    (cl_ite (cl_ite (cl_capped _ _ _ (cl_ok _)) cl_eof)
    (cl_ite (cl_ite (cl_decodeT15 _) cl_eof)
    (cl_ite (cl_ite (cl_ok _) cl_eof)
    (cl_ite (cl_ite (cl_capped _ _ _ (cl_ok _)) cl_eof)
    (cl_ite (cl_ite (cl_ok _) cl_eof)
    (cl_ite (cl_ite (cl_ok _) cl_eof)
    (cl_ite (cl_ite (cl_ok _) cl_eof)
    (cl_ite (cl_ite (cl_ok _) cl_eof)
    (cl_ite (cl_ite (cl_ite (cl_ite (cl_ok _) cl_eof) (cl_ite (cl_ite (cl_ok _) cl_eof) (cl_ok _))) cl_eof)
    (cl_ite (cl_ite (cl_ok _) cl_eof)
    (cl_text _))))))))))))))))))))))

theorem decode_clean (cfg : Cfg) (bs : List UInt8) : Clean (Spec.decode cfg bs) :=
  cl_ite (cl_dispatch cfg _ bs) cl_eof

theorem decode_noPanic (cfg : Cfg) (bs : List UInt8) : NoPanic (Spec.decode cfg bs) := (decode_clean cfg bs).1

end AisVerif

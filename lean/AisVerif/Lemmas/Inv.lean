/-
  Inversion lemmas for the shapes that occur in `Spec.dispatch`.
-/
import AisVerif.Refine.Dispatch

namespace AisVerif
open Spec

theorem ok_inj {α : Type} {a b : α} (h : (ok a : Res α) = ok b) : a = b := by cases h; rfl

theorem ite_eof_ok {c : Prop} [Decidable c] {r : Res Msg} {m : Msg}
    (h : (if c then r else Spec.eof) = ok m) : c ∧ r = ok m := by
  by_cases hc : c
  · rw [if_pos hc] at h; exact ⟨hc, h⟩
  · rw [if_neg hc] at h; cases h

theorem capped_ok {cfg : Cfg} {n lim : Nat} {r : Res Msg} {m : Msg}
    (h : Spec.capped cfg n lim r = ok m) : r = ok m ∧ (cfg = .noalloc → n ≤ lim) := by
  unfold Spec.capped at h
  by_cases hc : (cfg.isNoalloc && decide (lim < n)) = true
  · rw [if_pos hc] at h; cases h
  · rw [if_neg hc] at h
    refine ⟨h, fun hcfg => ?_⟩
    subst hcfg
    simp [Cfg.isNoalloc] at hc
    omega

theorem specRadioTail_ok {mk : List (Key × Val) → Msg} {bs : List UInt8} {s t : Nat} {m : Msg}
    (h : Spec.specRadioTail mk bs s t = ok m) :
    t ≤ 8 * bs.length ∧ ∃ r, Spec.radioOf (field bs 0 6) (field bs s 19) = some r ∧ m = mk r := by
  unfold Spec.specRadioTail at h
  by_cases hs : s ≤ 8 * bs.length
  · rw [if_pos hs] at h
    cases hr : Spec.radioOf (field bs 0 6) (field bs s 19) with
    | none => rw [hr] at h; cases h
    | some r =>
      rw [hr] at h
      simp only [] at h
      have := ite_eof_ok h
      exact ⟨this.1, r, rfl, (ok_inj this.2).symm⟩
  · rw [if_neg hs] at h; cases h

theorem decodeT15_ok {bs : List UInt8} {m : Msg} (h : Spec.decodeT15 bs = ok m) :
    ∃ sts, m = Spec.renderStations bs sts := by
  unfold Spec.decodeT15 at h
  split at h
  · split at h
    · exact ⟨_, (ok_inj h).symm⟩
    · cases h
  · exact ⟨_, (ok_inj h).symm⟩

/-! ### The specification never panics -/

def NoPanic {α : Type} (r : Res α) : Prop := ∀ p, r ≠ panic p

theorem np_ok {α : Type} (a : α) : NoPanic (ok a) := fun _ h => by cases h
theorem np_err {α : Type} (e : Err) : NoPanic (err e : Res α) := fun _ h => by cases h
theorem np_eof {α : Type} : NoPanic (Spec.eof : Res α) := np_err _
theorem np_ite {α : Type} {c : Prop} [Decidable c] {a b : Res α} (ha : NoPanic a) (hb : NoPanic b) :
    NoPanic (if c then a else b) := by split <;> assumption

theorem np_capped (cfg : Cfg) (n lim : Nat) {r : Res Msg} (hr : NoPanic r) : NoPanic (Spec.capped cfg n lim r) :=
  np_ite (np_err _) hr

theorem np_specRadioTail (mk : List (Key × Val) → Msg) (bs : List UInt8) (s t : Nat) :
    NoPanic (Spec.specRadioTail mk bs s t) := by
  unfold Spec.specRadioTail
  refine np_ite ?_ np_eof
  cases Spec.radioOf (field bs 0 6) (field bs s 19) with
  | none => exact np_err _
  | some r => exact np_ite (np_ok _) np_eof

theorem np_decodeT15 (bs : List UInt8) : NoPanic (Spec.decodeT15 bs) :=
  np_ite (np_ite (np_ok _) (np_err _)) (np_ok _)

theorem np_dispatch (cfg : Cfg) (t : Nat) (bs : List UInt8) : NoPanic (Spec.dispatch cfg t bs) := by
  unfold Spec.dispatch Spec.specT01 Spec.specBase Spec.specT09
  exact (np_ite (np_specRadioTail _ _ _ _)
    (np_ite (np_specRadioTail _ _ _ _)
    (np_ite (np_ite (np_ok _) np_eof)
    (np_ite (np_ite (np_ok _) np_eof)
    (np_ite (np_ite (np_capped _ _ _ (np_ok _)) np_eof)
    (np_ite (np_ite (np_capped _ _ _ (np_ok _)) np_eof)
    (np_ite (np_specRadioTail _ _ _ _)
    (np_ite (np_ite (np_ok _) np_eof)
    (np_ite (np_specRadioTail _ _ _ _)
    (np_ite (np_ite (np_capped _ _ _ (np_ok _)) np_eof)
    (np_ite (np_ite (np_ok _) np_eof)
    (np_ite (np_ite (np_capped _ _ _ (np_ok _)) np_eof)
    (np_ite (np_ite (np_decodeT15 _) np_eof)
    (np_ite (np_ite (np_ok _) np_eof)
    (np_ite (np_ite (np_capped _ _ _ (np_ok _)) np_eof)
    (np_ite (np_ite (np_ok _) np_eof)
    (np_ite (np_ite (np_ok _) np_eof)
    (np_ite (np_ite (np_ok _) np_eof)
    (np_ite (np_ite (np_ok _) np_eof)
    (np_ite (np_ite (np_ite (np_ite (np_ok _) np_eof) (np_ite (np_ite (np_ok _) np_eof) (np_ok _))) np_eof)
    (np_ite (np_ite (np_ok _) np_eof)
    (np_err _))))))))))))))))))))))

theorem decode_noPanic (cfg : Cfg) (bs : List UInt8) : NoPanic (Spec.decode cfg bs) :=
  np_ite (np_dispatch cfg _ bs) np_eof

end AisVerif

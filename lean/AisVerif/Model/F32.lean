/-
  IEEE-754 binary32 arithmetic on bit patterns, as far as the crate uses it:
  `i32 as f32`, `f32 / constant`, `f32 * constant` — round to nearest, ties to even.

  This is a software implementation over `Nat` (no `Float32`, which is opaque to the kernel), so that
  "the reported `f32`" is a value the theorems of `Props/C10` can speak about.  It is tied to the
  hardware on every run: the driver prints `FOp.bits` and the correspondence compares it with Rust's
  `to_bits()` (exhaustively over every raw value of every scaled field in the sweeps).

  Domain: finite operands, non-zero divisor.  The crate only divides by 10, 600, 600000 (and 4.733 in an
  accessor) and multiplies by 1000 or squares; infinities and NaNs cannot arise from its inputs and
  are not modelled (`encode` saturates to +∞ on overflow, subnormals are rounded correctly).
-/
import AisVerif.Model.Msg

namespace AisVerif.F32

/-- Round-half-to-even of the non-negative rational `N / D` (`D > 0`) to an integer. -/
def rne (N D : Nat) : Nat :=
  let q := N / D
  let r := N % D
  if 2 * r < D then q else if D < 2 * r then q + 1 else if q % 2 = 0 then q else q + 1

/-- `2 ^ c ≤ n / d` for an integer `c`, without leaving `Nat`. -/
def geTwoPow (n d : Nat) (c : Int) : Bool :=
  if 0 ≤ c then decide (d * 2 ^ c.toNat ≤ n) else decide (d ≤ n * 2 ^ (-c).toNat)

/-- Binary exponent `e` of the positive rational `n / d`: `2 ^ e ≤ n / d < 2 ^ (e + 1)`. -/
def expOf (n d : Nat) : Int :=
  let c : Int := (Nat.log2 n : Int) - (Nat.log2 d : Int)
  if geTwoPow n d c then c else c - 1

/-- Exponent of the unit in the last place: 24 significant bits, not below the subnormal grid. -/
def ulpOf (n d : Nat) : Int := max (expOf n d - 23) (-149)

/-- The integer significand: `n / d` divided by `2 ^ k`, rounded half-to-even. -/
def sigOf (n d : Nat) (k : Int) : Nat :=
  if 0 ≤ k then rne n (d * 2 ^ k.toNat) else rne (n * 2 ^ (-k).toNat) d

/-- Bits of the non-negative value `m · 2^k` (`-149 ≤ k`, `m ≤ 2^24`): the carry out of the significand
    into the exponent field happens by itself; overflow saturates to +∞. -/
def encode (k : Int) (m : Nat) : Nat :=
  let b := (k + 149).toNat * 2 ^ 23 + m
  if 0x7F800000 ≤ b then 0x7F800000 else b

/-- The binary32 nearest to `n / d` (`n, d > 0`), ties to even. -/
def roundPos (n d : Nat) : Nat := encode (ulpOf n d) (sigOf n d (ulpOf n d))

/-- The binary32 nearest to `± n / d` (`d > 0`); `n = 0` gives a signed zero. -/
def round (neg : Bool) (n d : Nat) : Nat :=
  (if neg then 2 ^ 31 else 0) + (if n = 0 then 0 else roundPos n d)

/-! ### Reading a finite bit pattern -/

def signBit (b : Nat) : Bool := b / 2 ^ 31 % 2 = 1
def expField (b : Nat) : Nat := b / 2 ^ 23 % 256
def manField (b : Nat) : Nat := b % 2 ^ 23

/-- Integer significand (with the implicit leading one for normal numbers). -/
def sig (b : Nat) : Nat := if expField b = 0 then manField b else 2 ^ 23 + manField b

/-- Exponent of the unit in the last place: the value of a finite pattern is `± sig · 2 ^ ulpExp`. -/
def ulpExp (b : Nat) : Int := (max (expField b) 1 : Nat) - 150

/-! ### The three operations -/

/-- `i as f32` for an `i32` (any integer, in fact). -/
def ofInt (i : Int) : Nat := round (decide (i < 0)) i.natAbs 1

/-- `a / b` for finite `a` and finite non-zero `b`. -/
def div (a b : Nat) : Nat :=
  let s : Int := ulpExp a - ulpExp b
  round (signBit a != signBit b) (sig a * 2 ^ s.toNat) (sig b * 2 ^ (-s).toNat)

/-- `a * b` for finite operands. -/
def mul (a b : Nat) : Nat :=
  let s : Int := ulpExp a + ulpExp b
  round (signBit a != signBit b) (sig a * sig b * 2 ^ s.toNat) (2 ^ (-s).toNat)

/-- A decimal literal `n / d` of the source, e.g. `4.733`. -/
def lit (n d : Nat) : Nat := round false n d

end AisVerif.F32

namespace AisVerif

/-- The bit pattern of the `f32` the Rust code computes from the raw integer. -/
def FOp.bits (raw : Int) : FOp → Nat
  | .div10 => F32.div (F32.ofInt raw) (F32.ofInt 10)
  | .div600000 => F32.div (F32.ofInt raw) (F32.ofInt 600000)
  | .div600 => F32.div (F32.ofInt raw) (F32.ofInt 600)
  | .ident => F32.ofInt raw
  | .div600000mul1000 => F32.mul (F32.div (F32.ofInt raw) (F32.ofInt 600000)) (F32.ofInt 1000)

end AisVerif

/-
  Generic representation of a decoded message: a kind plus an ordered list of (key, value).
  Keys are the Rust struct field names.  Floats are carried as (raw integer, operation) so that
  theorems speak about exact values; only the driver turns them into `f32` bit patterns.
-/
import AisVerif.Model.Res

namespace AisVerif

/-- The `AisMessage` variants. -/
inductive Kind
  | PositionReport | BaseStationReport | StaticAndVoyageRelatedData | BinaryAddressedMessage
  | BinaryAcknowledgeMessage | BinaryBroadcastMessage | StandardAircraftPositionReport
  | UtcDateInquiry | UtcDateResponse | AddressedSafetyRelatedMessage | SafetyRelatedAcknowledgment
  | SafetyRelatedBroadcastMessage | Interrogation | AssignmentModeCommand
  | DgnssBroadcastBinaryMessage | StandardClassBPositionReport | ExtendedClassBPositionReport
  | DataLinkManagementMessage | AidToNavigationReport | StaticDataReport
  | LongRangeAisBroadcastMessage
  deriving DecidableEq, Repr, Inhabited

/-- Field names of the Rust message structs (flattened; list elements are `idx base i`). -/
inductive Key
  | message_type | repeat_indicator | mmsi | navigation_status | rate_of_turn | speed_over_ground
  | position_accuracy | longitude | latitude | course_over_ground | true_heading | timestamp
  | maneuver_indicator | raim
  -- radio status
  | radio | sync_state | slot_timeout | sub_message | sub_a | sub_b | slot_increment | num_slots | keep
  -- base station / utc response
  | year | month | day | hour | minute | second | fix_quality | epfd_type
  -- type 5
  | ais_version | imo_number | callsign | vessel_name | ship_type | dimension_to_bow
  | dimension_to_stern | dimension_to_port | dimension_to_starboard | eta_month_utc | eta_day_utc
  | eta_hour_utc | eta_minute_utc | draught | destination | dte
  -- binary
  | seqno | dest_mmsi | retransmit | dac | fid | data
  -- lists
  | count | acks_mmsi | acks_seq_num | stations_mmsi | stations_count | messages_count
  | messages_type | messages_slot_offset
  | res_offset | res_num_slots | res_timeout | res_increment
  -- type 9
  | altitude | assigned_mode
  -- type 12/14
  | text
  -- type 16
  | mmsi1 | offset1 | increment1 | mmsi2 | offset2 | increment2
  -- type 17
  | p_message_type | station_id | z_count | sequence_number | n | health
  -- type 18/19
  | cs_unit | has_display | has_dsc | whole_band | accepts_message_22 | name | type_of_ship_and_cargo
  -- type 21
  | aid_type | accuracy | utc_second | off_position | regional_reserved | virtual_aid
  -- type 24
  | part | vendor_id | model_serial | unit_model_code | serial_number
  -- type 27
  | gnss_position_status
  | idx (base : Key) (i : Nat)
  deriving DecidableEq, Repr, Inhabited

/-- How the Rust code turns a raw integer into an `f32`. -/
inductive FOp
  | div10            -- `raw as f32 / 10.0`
  | div600000        -- `raw as f32 / 600_000.0`
  | div600           -- `raw as f32 / 600.0`
  | ident            -- `raw as f32`
  | div600000mul1000 -- type 27: `(raw as f32 / 600_000.0) * 1000.0`
  deriving DecidableEq, Repr, Inhabited

inductive Val
  | nat (n : Nat)
  | int (i : Int)
  | bool (b : Bool)
  | none
  | f32 (raw : Int) (op : FOp)
  | text (cs : List UInt8)
  | bytes (bs : List UInt8)
  | sym (name : String)
  | symN (name : String) (n : Nat)
  deriving DecidableEq, Repr, Inhabited

structure Msg where
  kind : Kind
  fields : List (Key × Val)
  deriving DecidableEq, Repr, Inhabited

def Msg.get (m : Msg) (k : Key) : Option Val := m.fields.lookup k

/-- Build configuration of the crate. `std` and `alloc` share every code path that is modelled. -/
inductive Cfg | std | alloc | noalloc
  deriving DecidableEq, Repr, Inhabited

def Cfg.isNoalloc : Cfg → Bool | .noalloc => true | _ => false

end AisVerif

/-
  `messages::unarmor` (src/messages/mod.rs), statement by statement.
-/
import AisVerif.Model.Msg

namespace AisVerif

/-- `MAX_SENTENCE_SIZE_BYTES` -/
def maxSentence : Nat := 384

/-- `output[i] |= v` -/
def orAt (out : List UInt8) (i : Nat) (v : UInt8) : Res (List UInt8) :=
  if h : i < out.length then ok (out.set i (out[i] ||| v)) else panic .index

/-- `output[i] &= v` -/
def andAt (out : List UInt8) (i : Nat) (v : UInt8) : Res (List UInt8) :=
  if h : i < out.length then ok (out.set i (out[i] &&& v)) else panic .index

/-- The `match *byte { 48..=87 => byte - 48, 96..=119 => byte - 56, _ => return Err(..) }` -/
def unarmorChar (b : UInt8) : Res UInt8 :=
  if 48 ≤ b ∧ b ≤ 87 then ok (b - 48)
  else if 96 ≤ b ∧ b ≤ 119 then ok (b - 56)
  else err (.text .armorOutOfRange)

/-- The `for byte in data` loop; `offset` is the running bit offset. -/
def unarmorLoop : List UInt8 → Nat → List UInt8 → Res (List UInt8)
  | [], _, out => ok out
  | b :: rest, offset, out => do
    let v ← unarmorChar b
    let unarmored : UInt8 := v <<< 2
    let offsetByte := offset / 8
    let offsetBit := offset % 8
    let out ← orAt out offsetByte (unarmored >>> offsetBit.toUInt8)
    let out ← (if offsetBit > 2 then orAt out (offsetByte + 1) (unarmored <<< (8 - offsetBit).toUInt8)
               else ok out)
    unarmorLoop rest (offset + 6) out

/-- `0xffu8 << s` with the dev-profile check on the shift amount. -/
def shlFF (s : Nat) : Res UInt8 :=
  if s < 8 then ok ((0xff : UInt8) <<< s.toUInt8) else panic .shlOverflow

/-- The `if fill_bits != 0 && byte_count != 0 { .. }` block (the second conjunct is the D3 fix). -/
def maskFill (out : List UInt8) (bitCount byteCount fillBits : Nat) : Res (List UInt8) :=
  if fillBits ≠ 0 ∧ byteCount ≠ 0 then do
    let bitsInFinalByte := if bitCount % 8 = 0 then 8 else bitCount % 8
    let finalIdx ← subU byteCount 1
    let shift := (8 - bitsInFinalByte) + min fillBits bitsInFinalByte
    let m ← (if shift ≤ 7 then shlFF shift else if shift = 8 then ok (0 : UInt8) else panic .unreachable)
    let out ← andAt out finalIdx m
    if fillBits > bitsInFinalByte then do
      let idx ← subU finalIdx 1
      let m2 ← shlFF (fillBits - bitsInFinalByte)
      andAt out idx m2
    else ok out
  else ok out

/-- `messages::unarmor(data, fill_bits)` -/
def unarmor (cfg : Cfg) (data : List UInt8) (fillBits : Nat) : Res (List UInt8) :=
  let bitCount := data.length * 6
  let byteCount := bitCount / 8 + (if bitCount % 8 ≠ 0 then 1 else 0)
  -- `vec![0; byte_count]`, or `heapless::Vec::resize` failing beyond the capacity
  if cfg.isNoalloc && maxSentence < byteCount then err (.text .unarmorTooLarge)
  else do
    let out ← unarmorLoop data 0 (List.replicate byteCount 0)
    maskFill out bitCount byteCount fillBits

end AisVerif

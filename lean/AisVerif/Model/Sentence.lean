/-
  `src/sentence.rs`: the NMEA sentence grammar (nom byte combinators) and `AisParser::parse`.
-/
import AisVerif.Model.Messages
import AisVerif.Model.Unarmor

namespace AisVerif

abbrev Bytes := List UInt8

/-! ### nom byte-level combinators (complete variants), as used by the crate -/

/-- `tag(t)` -/
def tag (t : Bytes) (i : Bytes) : Res (Bytes × Bytes) :=
  if t.isPrefixOf i then ok (i.drop t.length, t) else err (.nomError .tag)

/-- `take(n)` on bytes -/
def takeBytes (n : Nat) (i : Bytes) : Res (Bytes × Bytes) :=
  if i.length < n then err (.nomError .eof) else ok (i.drop n, i.take n)

/-- `take_until(t)` for a one-byte pattern: everything before the first occurrence. -/
def takeUntil (b : UInt8) (i : Bytes) : Res (Bytes × Bytes) :=
  if b ∈ i then ok (i.dropWhile (· != b), i.takeWhile (· != b)) else err (.nomError .takeUntil)

def isDigit (b : UInt8) : Bool := 0x30 ≤ b && b ≤ 0x39

/-- `digit1` -/
def digit1 (i : Bytes) : Res (Bytes × Bytes) :=
  let ds := i.takeWhile isDigit
  if ds = [] then err (.nomError .digit) else ok (i.dropWhile isDigit, ds)

/-- Decimal value of a digit string. -/
def decVal (ds : Bytes) : Nat := ds.foldl (fun acc d => acc * 10 + (d.toNat - 0x30)) 0

/-- `parse_u8_digit`: `map_res(map_res(digit1, from_utf8), u8::from_str)` -/
def parseU8Digit (i : Bytes) : Res (Bytes × Nat) := do
  let (rest, ds) ← digit1 i
  if decVal ds ≤ 255 then ok (rest, decVal ds) else err (.nomError .mapRes)

/-- `opt(p)`: `Err::Error` becomes `None`; failures and panics pass. -/
def opt (p : Bytes → Res (Bytes × α)) (i : Bytes) : Res (Bytes × Option α) :=
  match p i with
  | ok (rest, a) => ok (rest, some a)
  | err (.nomError _) => ok (i, none)
  | err e => err e
  | panic q => panic q

def isHexDigit (b : UInt8) : Bool :=
  (0x30 ≤ b && b ≤ 0x39) || (0x61 ≤ b && b ≤ 0x66) || (0x41 ≤ b && b ≤ 0x46)

def hexDigitVal (b : UInt8) : Nat :=
  if 0x30 ≤ b && b ≤ 0x39 then b.toNat - 0x30
  else if 0x61 ≤ b && b ≤ 0x66 then b.toNat - 0x61 + 10
  else if 0x41 ≤ b && b ≤ 0x46 then b.toNat - 0x41 + 10
  else 0

def hexVal (ds : Bytes) : Nat := ds.foldl (fun acc d => acc * 16 + hexDigitVal d) 0

/-- `nom::number::complete::hex_u32`: a non-empty run of hex digits, of which at most the first
    eight are consumed. -/
def hexU32 (i : Bytes) : Res (Bytes × Nat) :=
  let run := i.takeWhile isHexDigit
  if run = [] then err (.nomError .hexDigit)
  else
    let parsed := run.take 8
    ok (i.drop parsed.length, hexVal parsed)

/-! ### the sentence -/

structure Sentence where
  talker_id : String
  report_type : String
  num_fragments : Nat
  fragment_number : Nat
  message_id : Option Nat
  channel : Option UInt8
  data : Bytes
  fill_bit_count : Nat
  message_type : Nat
  message : Option Msg
  deriving Repr, DecidableEq, Inhabited

def Sentence.hasMore (s : Sentence) : Bool := s.fragment_number < s.num_fragments
def Sentence.isFragment (s : Sentence) : Bool := s.num_fragments != 1

def asciiStr (s : String) : Bytes := s.toList.map fun ch => UInt8.ofNat ch.toNat

/-- `impl From<&[u8]> for TalkerId` -/
def talkerId (b : Bytes) : String :=
  if b = asciiStr "AB" then "AB" else if b = asciiStr "AD" then "AD" else if b = asciiStr "AI" then "AI"
  else if b = asciiStr "AN" then "AN" else if b = asciiStr "AR" then "AR" else if b = asciiStr "AS" then "AS"
  else if b = asciiStr "AT" then "AT" else if b = asciiStr "AX" then "AX" else if b = asciiStr "BS" then "BS"
  else if b = asciiStr "SA" then "SA" else "Unknown"

/-- `impl From<&[u8]> for AisReportType` -/
def reportType (b : Bytes) : String :=
  if b = asciiStr "VDM" then "VDM" else if b = asciiStr "VDO" then "VDO" else "Unknown"

/-- `parse_ais_sentence` up to (not including) the conversion of the payload into `AisRawData`. -/
def parseAisCore (i : Bytes) : Res (Bytes × Sentence) := do
  let (i, talker) ← takeBytes 2 i
  let (i, report) ← takeBytes 3 i
  let (i, _) ← tag [0x2C] i
  let (i, num_fragments) ← parseU8Digit i
  let (i, _) ← tag [0x2C] i
  let (i, fragment_number) ← parseU8Digit i
  let (i, _) ← tag [0x2C] i
  let (i, message_id) ← opt parseU8Digit i
  let (i, _) ← tag [0x2C] i
  let (i, channelBytes) ← takeUntil 0x2C i
  let channel := channelBytes.head?       -- `opt(anychar)` on a byte slice
  let (i, _) ← tag [0x2C] i
  let (i, aisData) ← takeUntil 0x2C i
  let (i, _) ← tag [0x2C] i
  let (i, fill) ← parseU8Digit i
  if ¬ fill < 6 then err (.nomError .verify)
  else do
    -- `messages::message_type(ais_data)` on the *armored* payload (finding D10)
    let mt ← messageType aisData
    ok (i, { talker_id := talkerId talker, report_type := reportType report,
             num_fragments, fragment_number, message_id, channel, data := aisData,
             fill_bit_count := fill, message_type := mt, message := none })

/-- `parse_ais_sentence`: the last step copies the payload (`ais_data.into()`), which in the
    no-alloc build is `try_into()` a 384-byte `heapless::Vec` and fails with `Failure(TooLarge)`. -/
def parseAisSentence (cfg : Cfg) (i : Bytes) : Res (Bytes × Sentence) := do
  let (rest, s) ← parseAisCore i
  if cfg.isNoalloc && maxSentence < s.data.length then err (.nomFailure .tooLarge)
  else ok (rest, s)

/-- The optional tag block: `opt(delimited(tag("\\"), take_until("\\"), tag("\\")))` -/
def tagBlock (i : Bytes) : Res (Bytes × Unit) := do
  let (i, _) ← tag [0x5C] i
  let (i, _) ← takeUntil 0x5C i
  let (i, _) ← tag [0x5C] i
  ok (i, ())

/-- `alt((tag("!"), tag("$")))` -/
def delimiter (i : Bytes) : Res (Bytes × Bytes) :=
  match tag [0x21] i with
  | ok r => ok r
  | err (.nomError _) => tag [0x24] i
  | e => e

/-- `parse_nmea_sentence` (with the fields parsed inside the checksummed slice — D9 fix). -/
def parseNmeaSentence (cfg : Cfg) (i : Bytes) : Res (Bytes × Sentence × Nat) := do
  let (i, _) ← opt tagBlock i
  let (i, _) ← delimiter i
  let (i, raw) ← takeUntil 0x2A i
  let (rest, msg) ← parseAisSentence cfg raw
  if rest ≠ [] then err (.nomError .eof)            -- all_consuming
  else do
    let (i, _) ← tag [0x2A] i
    let (_, cks) ← hexU32 i
    if ¬ cks ≤ 0xFF then err (.nomError .verify)
    else ok (raw, msg, cks)

def xorAll (bs : Bytes) : UInt8 := bs.foldl (· ^^^ ·) 0

/-- `AisParser::check_checksum` -/
def checkChecksum (raw : Bytes) (expected : Nat) : Res Unit :=
  if expected ≠ (xorAll raw).toNat then err (.checksum expected (xorAll raw).toNat) else ok ()

/-! ### AisParser -/

structure PState where
  message_id : Option Nat
  fragment_number : Nat
  data : Bytes
  deriving Repr, DecidableEq, Inhabited

def PState.init : PState := ⟨none, 0, []⟩

inductive Frag
  | complete (s : Sentence)
  | incomplete (s : Sentence)
  deriving Repr, DecidableEq, Inhabited

/-- `AisParser::verify_and_extend_data` -/
def verifyAndExtend (cfg : Cfg) (st : PState) (s : Sentence) : PState × Res Unit :=
  if st.message_id ≠ s.message_id then (st, err (.text .idOutOfSequence))
  -- `checked_sub(..) != Some(1)`
  else if s.fragment_number < st.fragment_number ∨ s.fragment_number - st.fragment_number ≠ 1 then
    (st, err (.text .fragOutOfSequence))
  else if cfg.isNoalloc && maxSentence < st.data.length + s.data.length then
    (st, err (.text .vecFull))
  else ({ st with data := st.data ++ s.data, fragment_number := s.fragment_number }, ok ())

/-- The `if decode { .. }` block. -/
def decodeInto (cfg : Cfg) (decode : Bool) (s : Sentence) : Res Sentence :=
  if decode then do
    let unarmored ← unarmor cfg s.data s.fill_bit_count
    let m ← parseMessage cfg unarmored
    ok { s with message := some m }
  else ok s

/-- `self.verify_and_extend_data(&ais_sentence)?; …`: continue with the new state, or return the error. -/
def afterVerify (r : PState × Res Unit) (k : PState → PState × Res Frag) : PState × Res Frag :=
  match r with
  | (st2, ok ()) => k st2
  | (st2, err e) => (st2, err e)
  | (st2, panic p) => (st2, panic p)

/-- The part of `AisParser::parse` after the sentence has been parsed and its checksum verified. -/
def stepSentence (cfg : Cfg) (st : PState) (s : Sentence) (decode : Bool) : PState × Res Frag :=
  if s.hasMore then
    let st1 : PState := if s.fragment_number = 1 then ⟨s.message_id, 0, []⟩ else st
    afterVerify (verifyAndExtend cfg st1 s) fun st2 => (st2, ok (.incomplete s))
  else if s.isFragment then
    afterVerify (verifyAndExtend cfg st s) fun st2 =>
      let s' := { s with data := st2.data }
      -- group delivered: buffer swapped out, id and counter reset (D2 fix)
      (⟨none, 0, []⟩, (decodeInto cfg decode s').map Frag.complete)
  else
    (st, (decodeInto cfg decode s).map Frag.complete)

/-- `AisParser::parse(&mut self, line, decode)`: new state and result. -/
def step (cfg : Cfg) (st : PState) (line : Bytes) (decode : Bool) : PState × Res Frag :=
  match parseNmeaSentence cfg line with
  | err e => (st, err e)
  | panic p => (st, panic p)
  | ok (raw, s, cks) =>
    match checkChecksum raw cks with
    | err e => (st, err e)
    | panic p => (st, panic p)
    | ok () => stepSentence cfg st s decode

/-- Feed a list of lines; collect the results. -/
def run (cfg : Cfg) (decode : Bool) : PState → List Bytes → List (Res Frag) × PState
  | st, [] => ([], st)
  | st, l :: ls =>
    let (st', r) := step cfg st l decode
    let (rs, stf) := run cfg decode st' ls
    (r :: rs, stf)

/-- `impl From<AisFragments> for Option<AisSentence>` -/
def Frag.toOption : Frag → Option Sentence
  | .complete s => some s
  | .incomplete _ => none

/-- `impl From<AisFragments> for Result<AisSentence>` -/
def Frag.toResult : Frag → Res Sentence
  | .complete s => ok s
  | .incomplete _ => err (.text .incomplete)

end AisVerif

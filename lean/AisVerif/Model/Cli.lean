/-
  `src/bin/aisparser.rs`: stdin split at '\n' (`BufRead::split`), one `AisParser`, decode on;
  `Complete` → one record on stdout, `Err` → one record on stderr, `Incomplete` → nothing.
-/
import AisVerif.Model.Sentence

namespace AisVerif

/-- `BufRead::split(b'\n')`: the records between newlines; no empty final record after a trailing
    newline; an empty input has no records. -/
def splitNewline (bs : Bytes) : List Bytes :=
  if bs = [] then []
  else
    match h : bs.dropWhile (· != 0x0A) with
    | [] => [bs.takeWhile (· != 0x0A)]
    | _ :: rest => bs.takeWhile (· != 0x0A) :: splitNewline rest
termination_by bs.length
decreasing_by
  have hs : (bs.dropWhile (· != 0x0A)).length ≤ bs.length := (List.dropWhile_suffix _).length_le
  rw [h] at hs
  simp at hs
  omega

/-- What the tool writes for one input line. -/
inductive Record
  | stdout (line : Bytes) (message : Option Msg)   -- `println!("{:?}\t{:?}", line, sentence.message)`
  | stderr (line : Bytes) (e : Err)                -- `eprintln!("{:?}\t{:?}", line, err)`
  deriving Repr

inductive Exit | success | panicked
  deriving Repr, DecidableEq

/-- One iteration of the `for_each` closure. After the D8 fix echoing the line cannot panic
    (`String::from_utf8_lossy`). -/
def cliLine (st : PState) (line : Bytes) : PState × Option Record × Bool :=
  match step .std st line true with
  | (st', ok (.complete s)) => (st', some (.stdout line s.message), false)
  | (st', ok (.incomplete _)) => (st', none, false)
  | (st', err e) => (st', some (.stderr line e), false)
  | (st', panic _) => (st', none, true)

/-- The whole run: records in input order, and the exit status. -/
def cliLoop : PState → List Bytes → List Record × Exit
  | _, [] => ([], .success)
  | st, l :: ls =>
    match cliLine st l with
    | (_, _, true) => ([], .panicked)               -- the process aborts: nothing more is written
    | (st', r, false) =>
      let rest := cliLoop st' ls
      (r.toList ++ rest.1, rest.2)

def cliRun (stdin : Bytes) : List Record × Exit := cliLoop PState.init (splitNewline stdin)

end AisVerif

/-
  Fixed-length position-type layouts: types 1-3, 4, 11, 9, 18, 19, 21, 27, 10.
  Each function mirrors `parse_base`/`parse_message` of the corresponding Rust file, read by read.
-/
import AisVerif.Model.Parsers

namespace AisVerif

/-- `position_report.rs` (types 1, 2, 3) -/
def parseT01 (bs : List UInt8) : Res Msg := do
  let c : Cur := ⟨bs, 0⟩
  let (message_type, c) ← take 8 6 c
  let (repeat_indicator, c) ← take 8 2 c
  let (mmsi, c) ← take 32 30 c
  let (nav, c) ← take 8 4 c
  let (rot, c) ← take 8 8 c
  let (sog, c) ← take 16 10 c
  let (acc, c) ← take 8 1 c
  let accuracy ← Accuracy.parse acc
  let (lon, c) ← signedI32 28 c
  let (lat, c) ← signedI32 27 c
  let (cog, c) ← take 16 12 c
  let (hdg, c) ← take 16 9 c
  let (timestamp, c) ← take 8 6 c
  let (man, c) ← take 8 2 c
  let (_, c) ← take 8 3 c
  let (raimBit, c) ← take 8 1 c
  let raim ← u8ToBool raimBit
  let (radio, _) ← parseRadio c message_type
  ok ⟨.PositionReport,
    [(.message_type, .nat message_type), (.repeat_indicator, .nat repeat_indicator), (.mmsi, .nat mmsi),
     (.navigation_status, NavigationStatus.parse nav), (.rate_of_turn, RateOfTurn.parse rot),
     (.speed_over_ground, parseSpeedOverGround sog), (.position_accuracy, accuracy),
     (.longitude, parseLongitude lon), (.latitude, parseLatitude lat),
     (.course_over_ground, parseCog cog), (.true_heading, parseHeading hdg),
     (.timestamp, .nat timestamp), (.maneuver_indicator, ManeuverIndicator.parse man),
     (.raim, raim)] ++ radio⟩

/-- `base_station_report.rs` (type 4) and `utc_date_response.rs` (type 11): identical bodies. -/
def parseBaseStation (kind : Kind) (bs : List UInt8) : Res Msg := do
  let c : Cur := ⟨bs, 0⟩
  let (message_type, c) ← take 8 6 c
  let (repeat_indicator, c) ← take 8 2 c
  let (mmsi, c) ← take 32 30 c
  let (year, c) ← parseYear c
  let (month, c) ← parseMonth c
  let (day, c) ← parseDay c
  let (hour, c) ← parseHour c
  let (minute, c) ← parseMinsec c
  let (second, c) ← parseMinsec c
  let (acc, c) ← take 8 1 c
  let fix_quality ← Accuracy.parse acc
  let (lon, c) ← signedI32 28 c
  let (lat, c) ← signedI32 27 c
  let (epfd, c) ← take 8 4 c
  let (_, c) ← take 8 10 c          -- `take_bits::<_, u8, _, _>(10u8)`: ten bits into a u8
  let (raimBit, c) ← take 8 1 c
  let raim ← u8ToBool raimBit
  let (radio, _) ← parseRadio c message_type
  ok ⟨kind,
    [(.message_type, .nat message_type), (.repeat_indicator, .nat repeat_indicator), (.mmsi, .nat mmsi),
     (.year, year), (.month, month), (.day, day), (.hour, hour), (.minute, minute), (.second, second),
     (.fix_quality, fix_quality), (.longitude, parseLongitude lon), (.latitude, parseLatitude lat),
     (.epfd_type, EpfdType.parse epfd), (.raim, raim)] ++ radio⟩

def parseT04 := parseBaseStation .BaseStationReport
def parseT11 := parseBaseStation .UtcDateResponse

/-- `standard_aircraft_position_report.rs` (type 9).  `parse_altitude` and
    `parse_speed_over_ground_sar` have arms that return their own argument. -/
def parseT09 (bs : List UInt8) : Res Msg := do
  let c : Cur := ⟨bs, 0⟩
  let (message_type, c) ← take 8 6 c
  let (repeat_indicator, c) ← take 8 2 c
  let (mmsi, c) ← take 32 30 c
  let (alt, c) ← take 16 12 c
  let (sog, c) ← take 16 10 c
  let (acc, c) ← take 8 1 c
  let accuracy ← Accuracy.parse acc
  let (lon, c) ← signedI32 28 c
  let (lat, c) ← signedI32 27 c
  let (cog, c) ← take 16 12 c
  let (timestamp, c) ← take 8 6 c
  let (_, c) ← take 8 8 c
  let (dteBit, c) ← take 8 1 c
  let dte ← Dte.from dteBit
  let (_, c) ← take 8 3 c
  let (am, c) ← take 8 1 c
  let assigned ← AssignedMode.parse am
  let (raimBit, c) ← take 8 1 c
  let raim ← u8ToBool raimBit
  -- the communication-state selector bit is *not* consumed here (finding D11)
  let (radio, _) ← parseRadio c message_type
  ok ⟨.StandardAircraftPositionReport,
    [(.message_type, .nat message_type), (.repeat_indicator, .nat repeat_indicator), (.mmsi, .nat mmsi),
     (.altitude, optNe 4095 alt), (.speed_over_ground, f32Opt 1023 .ident sog),
     (.position_accuracy, accuracy), (.longitude, parseLongitude lon), (.latitude, parseLatitude lat),
     (.course_over_ground, parseCog cog), (.timestamp, .nat timestamp), (.dte, dte),
     (.assigned_mode, assigned), (.raim, raim)] ++ radio⟩

/-- `utc_date_inquiry.rs` (type 10) -/
def parseT10 (bs : List UInt8) : Res Msg := do
  let c : Cur := ⟨bs, 0⟩
  let (message_type, c) ← take 8 6 c
  let (repeat_indicator, c) ← take 8 2 c
  let (mmsi, c) ← take 32 30 c
  let (_, c) ← take 8 2 c
  let (dest_mmsi, c) ← take 32 30 c
  let (_, _) ← take 8 2 c
  ok ⟨.UtcDateInquiry,
    [(.message_type, .nat message_type), (.repeat_indicator, .nat repeat_indicator), (.mmsi, .nat mmsi),
     (.dest_mmsi, .nat dest_mmsi)]⟩

/-- `match cs_selector { 0 => SotdmaMessage::parse(data)?, 1 => ItdmaMessage::parse(data)?, _ => unreachable!() }` -/
def selectRadio (sel : Nat) (c : Cur) : Res (List (Key × Val) × Cur) :=
  match sel with
  | 0 => parseSotdma c
  | 1 => parseItdma c
  | _ => panic .unreachable

/-- `standard_class_b_position_report.rs` (type 18) -/
def parseT18 (bs : List UInt8) : Res Msg := do
  let c : Cur := ⟨bs, 0⟩
  let (message_type, c) ← take 8 6 c
  let (repeat_indicator, c) ← take 8 2 c
  let (mmsi, c) ← take 32 30 c
  let (_, c) ← take 8 8 c
  let (sog, c) ← take 16 10 c
  let (acc, c) ← take 8 1 c
  let accuracy ← Accuracy.parse acc
  let (lon, c) ← signedI32 28 c
  let (lat, c) ← signedI32 27 c
  let (cog, c) ← take 16 12 c
  let (hdg, c) ← take 16 9 c
  let (timestamp, c) ← take 8 6 c
  let (_, c) ← take 8 2 c
  let (cs, c) ← take 8 1 c
  let cs_unit ← CarrierSense.parse cs
  let (b1, c) ← take 8 1 c
  let has_display ← u8ToBool b1
  let (b2, c) ← take 8 1 c
  let has_dsc ← u8ToBool b2
  let (b3, c) ← take 8 1 c
  let whole_band ← u8ToBool b3
  let (b4, c) ← take 8 1 c
  let accepts22 ← u8ToBool b4
  let (am, c) ← take 8 1 c
  let assigned ← AssignedMode.parse am
  let (raimBit, c) ← take 8 1 c
  let raim ← u8ToBool raimBit
  let (sel, c) ← take 8 1 c
  let (radio, _) ← selectRadio sel c
  ok ⟨.StandardClassBPositionReport,
    [(.message_type, .nat message_type), (.repeat_indicator, .nat repeat_indicator), (.mmsi, .nat mmsi),
     (.speed_over_ground, parseSpeedOverGround sog), (.position_accuracy, accuracy),
     (.longitude, parseLongitude lon), (.latitude, parseLatitude lat),
     (.course_over_ground, parseCog cog), (.true_heading, parseHeading hdg),
     (.timestamp, .nat timestamp), (.cs_unit, cs_unit), (.has_display, has_display),
     (.has_dsc, has_dsc), (.whole_band, whole_band), (.accepts_message_22, accepts22),
     (.assigned_mode, assigned), (.raim, raim)] ++ radio⟩

/-- `extended_class_b_position_report.rs` (type 19) -/
def parseT19 (cfg : Cfg) (bs : List UInt8) : Res Msg := do
  let c : Cur := ⟨bs, 0⟩
  let (message_type, c) ← take 8 6 c
  let (repeat_indicator, c) ← take 8 2 c
  let (mmsi, c) ← take 32 30 c
  let (_, c) ← take 8 8 c
  let (sog, c) ← take 16 10 c
  let (acc, c) ← take 8 1 c
  let accuracy ← Accuracy.parse acc
  let (lon, c) ← signedI32 28 c
  let (lat, c) ← signedI32 27 c
  let (cog, c) ← take 16 12 c
  let (hdg, c) ← take 16 9 c
  let (timestamp, c) ← take 8 6 c
  let (_, c) ← take 8 4 c
  let (name, c) ← parse6bitAscii cfg c 120
  let (st, c) ← take 8 8 c
  let (bow, c) ← take 16 9 c
  let (stern, c) ← take 16 9 c
  let (port, c) ← take 16 6 c
  let (starboard, c) ← take 16 6 c
  let (epfd, c) ← take 8 4 c
  let (raimBit, c) ← take 8 1 c
  let raim ← u8ToBool raimBit
  let (dteBit, c) ← take 8 1 c
  let dte ← Dte.from dteBit
  let (am, c) ← take 8 1 c
  let assigned ← AssignedMode.parse am
  let (_, _) ← take 8 4 c
  ok ⟨.ExtendedClassBPositionReport,
    [(.message_type, .nat message_type), (.repeat_indicator, .nat repeat_indicator), (.mmsi, .nat mmsi),
     (.speed_over_ground, parseSpeedOverGround sog), (.position_accuracy, accuracy),
     (.longitude, parseLongitude lon), (.latitude, parseLatitude lat),
     (.course_over_ground, parseCog cog), (.true_heading, parseHeading hdg),
     (.timestamp, .nat timestamp), (.name, name), (.type_of_ship_and_cargo, ShipType.parse st),
     (.dimension_to_bow, .nat bow), (.dimension_to_stern, .nat stern), (.dimension_to_port, .nat port),
     (.dimension_to_starboard, .nat starboard), (.epfd_type, EpfdType.parse epfd), (.raim, raim),
     (.dte, dte), (.assigned_mode, assigned)]⟩

/-- `aid_to_navigation_report.rs` (type 21) -/
def parseT21 (cfg : Cfg) (bs : List UInt8) : Res Msg := do
  let c : Cur := ⟨bs, 0⟩
  let (message_type, c) ← take 8 6 c
  let (repeat_indicator, c) ← take 8 2 c
  let (mmsi, c) ← take 32 30 c
  let (aid, c) ← take 8 5 c
  let (name, c) ← parse6bitAscii cfg c 120
  let (acc, c) ← take 8 1 c
  let accuracy ← Accuracy.parse acc
  let (lon, c) ← signedI32 28 c
  let (lat, c) ← signedI32 27 c
  let (bow, c) ← take 16 9 c
  let (stern, c) ← take 16 9 c
  let (port, c) ← take 16 6 c
  let (starboard, c) ← take 16 6 c
  let (epfd, c) ← take 8 4 c
  let (utc_second, c) ← take 8 6 c
  let (b1, c) ← take 8 1 c
  let off_position ← u8ToBool b1
  let (regional, c) ← take 8 8 c
  let (raimBit, c) ← take 8 1 c
  let raim ← u8ToBool raimBit
  let (b2, c) ← take 8 1 c
  let virtual_aid ← u8ToBool b2
  let (b3, c) ← take 8 1 c
  let assigned ← u8ToBool b3
  let (_, _) ← take 8 1 c
  ok ⟨.AidToNavigationReport,
    [(.message_type, .nat message_type), (.repeat_indicator, .nat repeat_indicator), (.mmsi, .nat mmsi),
     (.aid_type, NavaidType.parse aid), (.name, name), (.accuracy, accuracy),
     (.longitude, parseLongitude lon), (.latitude, parseLatitude lat),
     (.dimension_to_bow, .nat bow), (.dimension_to_stern, .nat stern), (.dimension_to_port, .nat port),
     (.dimension_to_starboard, .nat starboard), (.epfd_type, EpfdType.parse epfd),
     (.utc_second, .nat utc_second), (.off_position, off_position), (.regional_reserved, .nat regional),
     (.raim, raim), (.virtual_aid, virtual_aid), (.assigned_mode, assigned)]⟩

/-- `long_range_ais_broadcast.rs` (type 27).  The 'not available' comparison uses the 1/10-minute
    sentinels (after the D7 fix); the scaling `(raw / 600000) * 1000` applies when the type bits
    read 27 and `raw / 600000` otherwise, as in the source. -/
def parseT27 (bs : List UInt8) : Res Msg := do
  let c : Cur := ⟨bs, 0⟩
  let (message_type, c) ← take 8 6 c
  let (repeat_indicator, c) ← take 8 2 c
  let (mmsi, c) ← take 32 30 c
  let (acc, c) ← take 8 1 c
  let accuracy ← Accuracy.parse acc
  let (raimBit, c) ← take 8 1 c
  let raim ← u8ToBool raimBit
  let (nav, c) ← take 8 4 c
  let (lon, c) ← signedI32 18 c
  let (lat, c) ← signedI32 17 c
  let (sog, c) ← take 16 6 c
  let (cog, c) ← take 16 9 c
  let (g, _) ← take 8 1 c
  let gnss ← u8ToBool g
  let op : FOp := if message_type = 27 then .div600000mul1000 else .div600000
  ok ⟨.LongRangeAisBroadcastMessage,
    [(.message_type, .nat message_type), (.repeat_indicator, .nat repeat_indicator), (.mmsi, .nat mmsi),
     (.position_accuracy, accuracy), (.raim, raim), (.navigation_status, NavigationStatus.parse nav),
     (.longitude, f32Opt 108600 op lon), (.latitude, f32Opt 54600 op lat),
     (.speed_over_ground, f32Opt 63 .ident sog), (.course_over_ground, f32Opt 511 .ident cog),
     (.gnss_position_status, gnss)]⟩

end AisVerif

/-
  Outcomes of the modelled Rust code.

  `Res α` is three-valued: a value, an error value (`Err`, what the Rust code returns in
  `Err(..)`), or a panic (what the dev profile would abort on).  "Never panics" is therefore a
  statement inside the logic.  Imports nothing outside core, so the driver links as a `lean_exe`.
-/
namespace AisVerif

/-- The panic sites that exist in the crate (dev profile: overflow checks and debug assertions on). -/
inductive Panic
  | subOverflow | addOverflow | shlOverflow | index | unreachable | assert | capacity | unwrapNone | utf8
  deriving DecidableEq, Repr, Inhabited

/-- nom error kinds the crate can produce. Only the Error/Failure split is branched on. -/
inductive NomKind
  | eof | tag | takeUntil | digit | mapRes | verify | alt | hexDigit | manyMN | count | tooLarge
  | alphaNumeric | char
  deriving DecidableEq, Repr, Inhabited

/-- The crate's own `&str`/`String` error messages, as an enumeration. -/
inductive ErrMsg
  | idOutOfSequence | fragOutOfSequence | vecFull | unarmorTooLarge | armorOutOfRange
  | unimplementedType | incomplete | illegalSixbit
  deriving DecidableEq, Repr, Inhabited

inductive Err
  | nomError (k : NomKind)      -- nom::Err::Error: recoverable (opt, alt, many_m_n catch it)
  | nomFailure (k : NomKind)    -- nom::Err::Failure: not recoverable
  | text (m : ErrMsg)             -- Error::Nmea from a message string
  | checksum (expected found : Nat)
  deriving DecidableEq, Repr, Inhabited

inductive Res (α : Type) where
  | ok (a : α)
  | err (e : Err)
  | panic (p : Panic)
  deriving Repr

namespace Res

instance [Inhabited α] : Inhabited (Res α) := ⟨.ok default⟩

@[inline] def bind : Res α → (α → Res β) → Res β
  | ok a, f => f a
  | err e, _ => err e
  | panic p, _ => panic p

instance : Monad Res where
  pure := ok
  bind := Res.bind

@[simp] theorem pure_eq (a : α) : (pure a : Res α) = ok a := rfl
@[simp] theorem ok_bind (a : α) (f : α → Res β) : (ok a >>= f) = f a := rfl
@[simp] theorem err_bind (e : Err) (f : α → Res β) : ((err e : Res α) >>= f) = err e := rfl
@[simp] theorem panic_bind (p : Panic) (f : α → Res β) : ((panic p : Res α) >>= f) = panic p := rfl

def isOk : Res α → Bool | ok _ => true | _ => false
def isErr : Res α → Bool | err _ => true | _ => false
def isPanic : Res α → Bool | panic _ => true | _ => false

/-- `f <$> r` without going through the `Functor` instance. -/
def map (f : α → β) : Res α → Res β
  | ok a => ok (f a)
  | err e => err e
  | panic p => panic p

def toOption : Res α → Option α | ok a => some a | _ => none

theorem bind_ne_panic {r : Res α} {f : α → Res β}
    (h1 : ∀ p, r ≠ panic p) (h2 : ∀ a p, r = ok a → f a ≠ panic p) : ∀ p, (r >>= f) ≠ panic p := by
  intro p
  cases r with
  | ok a => exact h2 a p rfl
  | err e => intro h; cases h
  | panic q => exact absurd rfl (h1 q)

end Res

export Res (ok err panic)

/-! ## Checked machine arithmetic (dev profile) -/

/-- `a - b` on an unsigned type. -/
def subU (a b : Nat) : Res Nat := if b ≤ a then ok (a - b) else panic .subOverflow

/-- `a + b` on a type whose largest value is `2^W - 1` (for `i32` accumulators that only hold
    non-negative values, `W = 31`). -/
def addW (W a b : Nat) : Res Nat := if a + b < 2 ^ W then ok (a + b) else panic .addOverflow

/-- `x << s` at width `W`: the shift amount is checked, the value is truncated. -/
def shlW (W x s : Nat) : Res Nat := if s < W then ok ((x * 2 ^ s) % 2 ^ W) else panic .shlOverflow

end AisVerif

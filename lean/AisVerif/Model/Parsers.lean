/-
  `messages/parsers.rs`, `messages/navigation.rs`, `messages/radio_status.rs`,
  `messages/nom_noalloc.rs::count`.
-/
import AisVerif.Model.Bits
import AisVerif.Model.Types

namespace AisVerif

/-! ### parsers.rs -/

/-- `match x { SENTINEL => None, _ => Some(x) }` -/
def optNe (sentinel : Nat) (v : Nat) : Val := if v = sentinel then .none else .nat v

def parseYear (c : Cur) : Res (Val × Cur) := do let (v, c) ← take 16 14 c; ok (optNe 0 v, c)
def parseMonth (c : Cur) : Res (Val × Cur) := do let (v, c) ← take 8 4 c; ok (optNe 0 v, c)
def parseDay (c : Cur) : Res (Val × Cur) := do let (v, c) ← take 8 5 c; ok (optNe 0 v, c)
def parseHour (c : Cur) : Res (Val × Cur) := do let (v, c) ← take 8 5 c; ok (.nat v, c)
def parseMinsec (c : Cur) : Res (Val × Cur) := do let (v, c) ← take 8 6 c; ok (optNe 60 v, c)

/-- `sixbit_to_ascii` -/
def sixbitToAscii (d : Nat) : Res UInt8 :=
  if d < 32 then ok (UInt8.ofNat (d + 64))
  else if d < 64 then ok (UInt8.ofNat d)
  else err (.nomError .mapRes)

/-- `count(map_res(take_bits(6u8), sixbit_to_ascii), n)` — nom's and the crate's no-alloc copy
    run the same loop once `n ≤ 20` has been checked. -/
def countChars : Nat → Cur → Res (List UInt8 × Cur)
  | 0, c => ok ([], c)
  | k + 1, c => do
    let (v, c) ← take 8 6 c
    let ch ← sixbitToAscii v
    let (rest, c) ← countChars k c
    ok (ch :: rest, c)

/-- `str::trim_start` on the characters 6-bit ASCII can produce (only 0x20 is white space). -/
def trimStart (cs : List UInt8) : List UInt8 := cs.dropWhile (· == 0x20)
def dropTrailing (x : UInt8) (cs : List UInt8) : List UInt8 := (cs.reverse.dropWhile (· == x)).reverse
/-- `.trim_start().trim_end_matches('@').trim_end()` -/
def trimText (cs : List UInt8) : List UInt8 := dropTrailing 0x20 (dropTrailing 0x40 (trimStart cs))

/-- `MAX_6BIT_ARRAY_BYTES` -/
def maxText : Nat := 20

/-- `parse_6bit_ascii(input, size)`. In the no-alloc build `count::<_, 20>` starts with
    `debug_assert!(count <= VEC_SIZE)`; after the D4 fix it returns `Failure(TooLarge)` instead. -/
def parse6bitAscii (cfg : Cfg) (c : Cur) (size : Nat) : Res (Val × Cur) :=
  let n := size / 6
  if cfg.isNoalloc && maxText < n then err (.nomFailure .tooLarge)
  else do
    let (bytes, c) ← countChars n c
    -- from_utf8 cannot fail: every byte is < 0x80
    ok (.text (trimText bytes), c)

/-! ### navigation.rs -/

def f32Opt (sentinel : Int) (op : FOp) (raw : Int) : Val := if raw = sentinel then .none else .f32 raw op

def parseSpeedOverGround (v : Nat) : Val := f32Opt 1023 .div10 v
def parseLongitude (v : Int) : Val := f32Opt 108600000 .div600000 v
def parseLatitude (v : Int) : Val := f32Opt 54600000 .div600000 v
def parseCog (v : Nat) : Val := f32Opt 3600 .div10 v
def parseHeading (v : Nat) : Val := optNe 511 v

/-! ### radio_status.rs -/

/-- `SubMessage::parse` -/
def parseSubMessage (c : Cur) (slotTimeout : Nat) : Res (List (Key × Val) × Cur) :=
  match slotTimeout with
  | 0 => do
    let (v, c) ← take 15 14 c       -- into i16
    ok ([(.sub_message, .sym "SlotOffset"), (.sub_a, .nat v)], c)
  | 1 => do
    let (hour, c) ← take 8 5 c
    let (_, c) ← take 8 1 c
    let (minute, c) ← take 8 6 c
    let (_, c) ← take 8 2 c
    ok ([(.sub_message, .sym "UtcHourAndMinute"), (.sub_a, .nat hour), (.sub_b, .nat minute)], c)
  | 2 | 4 | 6 => do
    let (v, c) ← take 16 14 c
    ok ([(.sub_message, .sym "SlotNumber"), (.sub_a, .nat v)], c)
  | 3 | 5 | 7 => do
    let (v, c) ← take 16 14 c
    ok ([(.sub_message, .sym "ReceivedStations"), (.sub_a, .nat v)], c)
  | _ => panic .unreachable

/-- `SotdmaMessage::parse` -/
def parseSotdma (c : Cur) : Res (List (Key × Val) × Cur) := do
  let (sync, c) ← take 8 2 c
  let (slotTimeout, c) ← take 8 3 c
  let (sub, c) ← parseSubMessage c slotTimeout
  ok ([(.radio, .sym "Sotdma"), (.sync_state, SyncState.parse sync), (.slot_timeout, .nat slotTimeout)] ++ sub, c)

/-- `ItdmaMessage::parse` -/
def parseItdma (c : Cur) : Res (List (Key × Val) × Cur) := do
  let (sync, c) ← take 8 2 c
  let (incr, c) ← take 15 13 c      -- into i16
  let (num, c) ← take 8 3 c
  let (k, c) ← take 8 1 c
  let keep ← u8ToBool k
  ok ([(.radio, .sym "Itdma"), (.sync_state, SyncState.parse sync), (.slot_increment, .nat incr),
       (.num_slots, .nat num), (.keep, keep)], c)

/-- `parse_radio` -/
def parseRadio (c : Cur) (msgType : Nat) : Res (List (Key × Val) × Cur) :=
  if msgType = 1 ∨ msgType = 2 ∨ msgType = 4 ∨ msgType = 11 ∨ msgType = 9 then parseSotdma c
  else if msgType = 3 then parseItdma c
  else err (.nomFailure .digit)

end AisVerif

/-
  Enumerations: `types.rs`, `navigation.rs`, `position_report.rs::NavigationStatus`,
  `aid_to_navigation_report.rs::NavaidType`, `radio_status.rs::SyncState`,
  `standard_class_b_position_report.rs::CarrierSense`.
  Each `parse` mirrors the Rust `match`, arm by arm; `Option::None` is `Val.none`.
-/
import AisVerif.Model.Msg

namespace AisVerif

/-- A Rust `match` on a `u8` whose arms are inclusive ranges, tried in order.
    `carries = true` means the variant keeps the code (`Reserved(data)`). -/
structure Arm where
  lo : Nat
  hi : Nat
  name : String     -- "" means the arm yields `None`
  carries : Bool
  deriving Repr

def Arm.val (a : Arm) (d : Nat) : Val :=
  if a.name = "" then .none else if a.carries then .symN a.name d else .sym a.name

def matchArms : List Arm → Nat → Option Val
  | [], _ => Option.none
  | a :: rest, d => if a.lo ≤ d ∧ d ≤ a.hi then some (a.val d) else matchArms rest d

def u (n : Nat) (name : String) : Arm := ⟨n, n, name, false⟩
def r (lo hi : Nat) (name : String) : Arm := ⟨lo, hi, name, true⟩
def absent (lo hi : Nat) : Arm := ⟨lo, hi, "", false⟩

/-- `EpfdType::parse` -/
def epfdArms : List Arm :=
  [absent 0 0, u 1 "Gps", u 2 "Glonass", u 3 "CombinedGpsAndGlonass", u 4 "LoranC", u 5 "Chayka",
   u 6 "IntegratedNavigationSystem", u 7 "Surveyed", u 8 "Galileo", absent 15 15, r 0 255 "Unknown"]

/-- `ShipType::parse` -/
def shipTypeArms : List Arm :=
  [absent 0 0, r 1 19 "Reserved", u 20 "WingInGround", u 21 "WingInGroundHazardousCategoryA",
   u 22 "WingInGroundHazardousCategoryB", u 23 "WingInGroundHazardousCategoryC",
   u 24 "WingInGroundHazardousCategoryD", r 25 29 "WingInGroundReserved", u 30 "Fishing",
   u 31 "Towing", u 32 "TowingLarge", u 33 "Dredging", u 34 "DivingOps", u 35 "MilitaryOps",
   u 36 "Sailing", u 37 "PleasureCraft", r 38 39 "Reserved", u 40 "HighSpeedCraft",
   u 41 "HighSpeedCraftHazardousCategoryA", u 42 "HighSpeedCraftHazardousCategoryB",
   u 43 "HighSpeedCraftHazardousCategoryC", u 44 "HighSpeedCraftHazardousCategoryD",
   r 45 48 "HighSpeedCraftReserved", u 49 "HighSpeedCraftNoAdditionalInformation",
   u 50 "PilotVessel", u 51 "SearchAndRescueVessel", u 52 "Tug", u 53 "PortTender",
   u 54 "AntiPollutionEquipment", u 55 "LawEnforcement", r 56 57 "SpareLocalVessel",
   u 58 "MedicalTransport", u 59 "NoncombatantShip", u 60 "Passenger",
   u 61 "PassengerHazardousCategoryA", u 62 "PassengerHazardousCategoryB",
   u 63 "PassengerHazardousCategoryC", u 64 "PassengerHazardousCategoryD",
   r 65 68 "PassengerReserved", u 69 "PassengerNoAdditionalInformation", u 70 "Cargo",
   u 71 "CargoHazardousCategoryA", u 72 "CargoHazardousCategoryB", u 73 "CargoHazardousCategoryC",
   u 74 "CargoHazardousCategoryD", r 75 78 "CargoReserved", u 79 "CargoNoAdditionalInformation",
   u 80 "Tanker", u 81 "TankerHazardousCategoryA", u 82 "TankerHazardousCategoryB",
   u 83 "TankerHazardousCategoryC", u 84 "TankerHazardousCategoryD", r 85 88 "TankerReserved",
   u 89 "TankerNoAdditionalInformation", u 90 "Other", u 91 "OtherHazardousCategoryA",
   u 92 "OtherHazardousCategoryB", u 93 "OtherHazardousCategoryC", u 94 "OtherHazardousCategoryD",
   r 95 98 "OtherReserved", u 99 "OtherNoAdditionalInformation", absent 100 255]

/-- `impl From<ShipType> for u8`: the number a variant converts back to
    (`Reserved(v) => v`, `WingInGround => 20`, …), arm by arm. -/
def shipTypeBack : List (String × Option Nat) :=
  [("Reserved", Option.none), ("WingInGround", some 20), ("WingInGroundHazardousCategoryA", some 21),
   ("WingInGroundHazardousCategoryB", some 22), ("WingInGroundHazardousCategoryC", some 23),
   ("WingInGroundHazardousCategoryD", some 24), ("WingInGroundReserved", Option.none),
   ("Fishing", some 30), ("Towing", some 31), ("TowingLarge", some 32), ("Dredging", some 33),
   ("DivingOps", some 34), ("MilitaryOps", some 35), ("Sailing", some 36), ("PleasureCraft", some 37),
   ("HighSpeedCraft", some 40), ("HighSpeedCraftHazardousCategoryA", some 41),
   ("HighSpeedCraftHazardousCategoryB", some 42), ("HighSpeedCraftHazardousCategoryC", some 43),
   ("HighSpeedCraftHazardousCategoryD", some 44), ("HighSpeedCraftReserved", Option.none),
   ("HighSpeedCraftNoAdditionalInformation", some 49), ("PilotVessel", some 50),
   ("SearchAndRescueVessel", some 51), ("Tug", some 52), ("PortTender", some 53),
   ("AntiPollutionEquipment", some 54), ("LawEnforcement", some 55), ("SpareLocalVessel", Option.none),
   ("MedicalTransport", some 58), ("NoncombatantShip", some 59), ("Passenger", some 60),
   ("PassengerHazardousCategoryA", some 61), ("PassengerHazardousCategoryB", some 62),
   ("PassengerHazardousCategoryC", some 63), ("PassengerHazardousCategoryD", some 64),
   ("PassengerReserved", Option.none), ("PassengerNoAdditionalInformation", some 69), ("Cargo", some 70),
   ("CargoHazardousCategoryA", some 71), ("CargoHazardousCategoryB", some 72),
   ("CargoHazardousCategoryC", some 73), ("CargoHazardousCategoryD", some 74),
   ("CargoReserved", Option.none), ("CargoNoAdditionalInformation", some 79), ("Tanker", some 80),
   ("TankerHazardousCategoryA", some 81), ("TankerHazardousCategoryB", some 82),
   ("TankerHazardousCategoryC", some 83), ("TankerHazardousCategoryD", some 84),
   ("TankerReserved", Option.none), ("TankerNoAdditionalInformation", some 89), ("Other", some 90),
   ("OtherHazardousCategoryA", some 91), ("OtherHazardousCategoryB", some 92),
   ("OtherHazardousCategoryC", some 93), ("OtherHazardousCategoryD", some 94),
   ("OtherReserved", Option.none), ("OtherNoAdditionalInformation", some 99)]

/-- `u8::from(ShipType)` applied to a parsed value. -/
def shipTypeToU8 : Val → Option Nat
  | .sym name => (shipTypeBack.lookup name).join
  | .symN name d => match shipTypeBack.lookup name with
      | some Option.none => some d
      | _ => Option.none
  | _ => Option.none

/-- `NavigationStatus::parse` -/
def navStatusArms : List Arm :=
  [u 0 "UnderWayUsingEngine", u 1 "AtAnchor", u 2 "NotUnderCommand", u 3 "RestrictedManouverability",
   u 4 "ConstrainedByDraught", u 5 "Moored", u 6 "Aground", u 7 "EngagedInFishing",
   u 8 "UnderWaySailing", u 9 "ReservedForHSC", u 10 "ReservedForWIG", u 11 "Reserved01",
   u 12 "Reserved02", u 13 "Reserved03", u 14 "AisSartIsActive", absent 15 15, r 0 255 "Unknown"]

/-- `ManeuverIndicator::parse` -/
def maneuverArms : List Arm :=
  [absent 0 0, u 1 "NoSpecialManeuver", u 2 "SpecialManeuver", r 0 255 "Unknown"]

/-- `NavaidType::parse` -/
def navaidArms : List Arm :=
  [absent 0 0, u 1 "ReferencePoint", u 2 "Racon", u 3 "FixedStructureOffShore", u 4 "Spare",
   u 5 "LightWithoutSectors", u 6 "LightWithSectors", u 7 "LeadingLightFront", u 8 "LeadingLightRear",
   u 9 "BeaconCardinalN", u 10 "BeaconCardinalE", u 11 "BeaconCardinalS", u 12 "BeaconCardinalW",
   u 13 "BeaconPortHand", u 14 "BeaconStarboardHand", u 15 "BeaconPreferredChannelPortHand",
   u 16 "BeaconPreferredChannelStarboardHand", u 17 "BeaconIsolatedDanger", u 18 "BeaconSafeWater",
   u 19 "BeaconSpecialMark", u 20 "CardinalMarkN", u 21 "CardinalMarkE", u 22 "CardinalMarkS",
   u 23 "CardinalMarkW", u 24 "PortHandMark", u 25 "StarboardHandMark", u 26 "PreferredChannelPortHand",
   u 27 "PreferredChannelStarboardHand", u 28 "IsolatedDanger", u 29 "SafeWater", u 30 "SpecialMark",
   u 31 "LightVesselOrLanbyOrRigs", r 0 255 "Unknown"]

/-- `SyncState::parse` -/
def syncStateArms : List Arm :=
  [u 0 "UtcDirect", u 1 "UtcIndirect", u 2 "BaseStation", u 3 "NumberOfReceivedStations",
   r 0 255 "Unknown"]

/-- A total Rust `match` over `u8` (last arm is a catch-all or the ranges cover 0..=255). -/
def parseArms (arms : List Arm) (d : Nat) : Val := (matchArms arms d).getD .none

def EpfdType.parse := parseArms epfdArms
def ShipType.parse := parseArms shipTypeArms
def NavigationStatus.parse := parseArms navStatusArms
def ManeuverIndicator.parse := parseArms maneuverArms
def NavaidType.parse := parseArms navaidArms
def SyncState.parse := parseArms syncStateArms

/-! Two-valued enums with an `unreachable!()` arm. -/

def twoWay (a b : String) (d : Nat) : Res Val :=
  match d with
  | 0 => ok (.sym a)
  | 1 => ok (.sym b)
  | _ => panic .unreachable

/-- `Accuracy::parse` -/
def Accuracy.parse := twoWay "Unaugmented" "Dgps"
/-- `impl From<u8> for Dte` -/
def Dte.from := twoWay "Ready" "NotReady"
def Dte.default : Val := .sym "NotReady"
/-- `AssignedMode::parse` -/
def AssignedMode.parse := twoWay "Autonomous" "Assigned"
/-- `CarrierSense::parse` -/
def CarrierSense.parse := twoWay "Sotdma" "CarrierSense"

/-- `parsers::u8_to_bool` -/
def u8ToBool (d : Nat) : Res Val :=
  match d with
  | 0 => ok (.bool false)
  | 1 => ok (.bool true)
  | _ => panic .unreachable

/-- `RateOfTurn::parse`: `data as i8`, 128 (i.e. -128) is "not available". -/
def RateOfTurn.parse (d : Nat) : Val :=
  let raw : Int := if d < 128 then d else (d : Int) - 256
  if raw = -128 then .none else .int raw

/-- `RateOfTurn::rate`: defined for |raw| ≤ 126; the value is `(raw / 4.733)²` in single precision,
    which only the driver evaluates — the model says for which raw values there is one. -/
def RateOfTurn.rateRaw (raw : Int) : Res (Option Int) :=
  if -126 ≤ raw ∧ raw ≤ 126 then ok (some raw)
  else if raw = -127 ∨ raw = 127 then ok none
  else panic .unreachable

/-- `RateOfTurn::direction` -/
def RateOfTurn.direction (raw : Int) : Res (Option String) :=
  if raw = 0 then ok none
  else if 1 ≤ raw ∧ raw ≤ 127 then ok (some "Starboard")
  else if -127 ≤ raw ∧ raw ≤ -1 then ok (some "Port")
  else panic .unreachable

/-- `AisMessageType::name` of each variant. -/
def Kind.typeName : Kind → String
  | .PositionReport => "Position Report Class A"
  | .BaseStationReport => "Base Station Report"
  | .StaticAndVoyageRelatedData => "Static and Voyage Related Data"
  | .BinaryAddressedMessage => "Binary Addressed Message"
  | .BinaryAcknowledgeMessage => "Binary Acknowledge"
  | .BinaryBroadcastMessage => "Binary Broadcast Message"
  | .StandardAircraftPositionReport => "Standard SAR Aircraft Position Report"
  | .UtcDateInquiry => "UTC/Date Inquiry"
  | .UtcDateResponse => "UTC/Date Response"
  | .AddressedSafetyRelatedMessage => "Addressed Safety-Related Message"
  | .SafetyRelatedAcknowledgment => "Safety-Related Acknowledge"
  | .SafetyRelatedBroadcastMessage => "Safety-Related Broadcast Message"
  | .Interrogation => "Interrogation"
  | .AssignmentModeCommand => "Assignment Mode Command"
  | .DgnssBroadcastBinaryMessage => "DGNSS Broadcast Binary Message"
  | .StandardClassBPositionReport => "Standard Class B Position Report"
  | .ExtendedClassBPositionReport => "Extended Class B Position Report"
  | .DataLinkManagementMessage => "Data Link Management Message"
  | .AidToNavigationReport => "Aid to Navigation Report"
  | .StaticDataReport => "Static Data Report"
  | .LongRangeAisBroadcastMessage => "Long Range AIS Broadcast message"

end AisVerif

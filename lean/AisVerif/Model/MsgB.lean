/-
  Variable-length layouts: types 5, 6, 8, 12, 14, 17, 24 and the list types 7, 13, 15, 16, 20.
-/
import AisVerif.Model.Parsers

namespace AisVerif

/-- `MAX_DATA_SIZE_BYTES` (types 6, 8, 17 in the no-alloc build) -/
def maxData : Nat := 119

/-- `data.0.into()` / `data.0.try_into()` — copy the rest of the byte slice. -/
def ownRest (cfg : Cfg) (c : Cur) : Res (List UInt8) :=
  if cfg.isNoalloc && maxData < c.rest.length then err (.nomFailure .tooLarge) else ok c.rest

/-- `static_and_voyage_related_data.rs` (type 5) -/
def parseT05 (cfg : Cfg) (bs : List UInt8) : Res Msg := do
  let c : Cur := ⟨bs, 0⟩
  let (message_type, c) ← take 8 6 c
  let (repeat_indicator, c) ← take 8 2 c
  let (mmsi, c) ← take 32 30 c
  let (ais_version, c) ← take 8 2 c
  let (imo, c) ← take 32 30 c
  let (callsign, c) ← parse6bitAscii cfg c 42
  let (vessel_name, c) ← parse6bitAscii cfg c 120
  let (st, c) ← take 8 8 c
  let (bow, c) ← take 16 9 c
  let (stern, c) ← take 16 9 c
  let (port, c) ← take 16 6 c
  let (starboard, c) ← take 16 6 c
  let (epfd, c) ← take 8 4 c
  let (eta_month, c) ← parseMonth c
  let (eta_day, c) ← parseDay c
  let (eta_hour, c) ← parseHour c
  let (eta_minute, c) ← parseMinsec c
  let (draught, c) ← take 8 8 c
  let (destination, c) ← parse6bitAscii cfg c (min 120 c.remaining)
  let (dte, c) ← (if c.remaining > 0 then do
      let (d, c) ← take 8 1 c
      let dte ← Dte.from d
      ok (dte, c)
    else ok (Dte.default, c))
  let (_, _) ← (if c.remaining > 0 then take 8 1 c else ok (0, c))
  ok ⟨.StaticAndVoyageRelatedData,
    [(.message_type, .nat message_type), (.repeat_indicator, .nat repeat_indicator), (.mmsi, .nat mmsi),
     (.ais_version, .nat ais_version), (.imo_number, .nat imo), (.callsign, callsign),
     (.vessel_name, vessel_name), (.ship_type, ShipType.parse st), (.dimension_to_bow, .nat bow),
     (.dimension_to_stern, .nat stern), (.dimension_to_port, .nat port),
     (.dimension_to_starboard, .nat starboard), (.epfd_type, EpfdType.parse epfd),
     (.eta_month_utc, eta_month), (.eta_day_utc, eta_day), (.eta_hour_utc, eta_hour),
     (.eta_minute_utc, eta_minute), (.draught, .f32 draught .div10), (.destination, destination),
     (.dte, dte)]⟩

/-- `binary_addressed.rs` (type 6) -/
def parseT06 (cfg : Cfg) (bs : List UInt8) : Res Msg := do
  let c : Cur := ⟨bs, 0⟩
  let (message_type, c) ← take 8 6 c
  let (repeat_indicator, c) ← take 8 2 c
  let (mmsi, c) ← take 32 30 c
  let (seqno, c) ← take 8 2 c
  let (dest_mmsi, c) ← take 32 30 c
  let (r, c) ← take 8 1 c
  let retransmit ← u8ToBool r
  let (_, c) ← take 8 1 c
  let (dac, c) ← take 16 10 c
  let (fid, c) ← take 8 6 c
  let data ← ownRest cfg c
  ok ⟨.BinaryAddressedMessage,
    [(.message_type, .nat message_type), (.repeat_indicator, .nat repeat_indicator), (.mmsi, .nat mmsi),
     (.seqno, .nat seqno), (.dest_mmsi, .nat dest_mmsi), (.retransmit, retransmit), (.dac, .nat dac),
     (.fid, .nat fid), (.data, .bytes data)]⟩

/-- `binary_broadcast_message.rs` (type 8) -/
def parseT08 (cfg : Cfg) (bs : List UInt8) : Res Msg := do
  let c : Cur := ⟨bs, 0⟩
  let (message_type, c) ← take 8 6 c
  let (repeat_indicator, c) ← take 8 2 c
  let (mmsi, c) ← take 32 30 c
  let (_, c) ← take 8 2 c
  let (dac, c) ← take 16 10 c
  let (fid, c) ← take 8 6 c
  let data ← ownRest cfg c
  ok ⟨.BinaryBroadcastMessage,
    [(.message_type, .nat message_type), (.repeat_indicator, .nat repeat_indicator), (.mmsi, .nat mmsi),
     (.dac, .nat dac), (.fid, .nat fid), (.data, .bytes data)]⟩

/-- `addressed_safety_related.rs` (type 12) -/
def parseT12 (cfg : Cfg) (bs : List UInt8) : Res Msg := do
  let c : Cur := ⟨bs, 0⟩
  let (message_type, c) ← take 8 6 c
  let (repeat_indicator, c) ← take 8 2 c
  let (mmsi, c) ← take 32 30 c
  let (seqno, c) ← take 8 2 c
  let (dest_mmsi, c) ← take 32 30 c
  let (r, c) ← take 8 1 c
  let retransmit ← u8ToBool r
  let (_, c) ← take 8 1 c
  let remaining := c.remaining
  if remaining < 6 then err (.nomError .eof)
  else do
    let (text, _) ← parse6bitAscii cfg c remaining
    ok ⟨.AddressedSafetyRelatedMessage,
      [(.message_type, .nat message_type), (.repeat_indicator, .nat repeat_indicator), (.mmsi, .nat mmsi),
       (.seqno, .nat seqno), (.dest_mmsi, .nat dest_mmsi), (.retransmit, retransmit), (.text, text)]⟩

/-- `safety_related_broadcast.rs` (type 14) -/
def parseT14 (cfg : Cfg) (bs : List UInt8) : Res Msg := do
  let c : Cur := ⟨bs, 0⟩
  let (message_type, c) ← take 8 6 c
  let (repeat_indicator, c) ← take 8 2 c
  let (mmsi, c) ← take 32 30 c
  let (_, c) ← take 8 2 c
  let remaining := c.remaining
  if remaining < 6 then err (.nomError .eof)
  else do
    let (text, _) ← parse6bitAscii cfg c remaining
    ok ⟨.SafetyRelatedBroadcastMessage,
      [(.message_type, .nat message_type), (.repeat_indicator, .nat repeat_indicator), (.mmsi, .nat mmsi),
       (.text, text)]⟩

/-- `dgnss_broadcast_binary_message.rs` (type 17) -/
def parseT17 (cfg : Cfg) (bs : List UInt8) : Res Msg := do
  let c : Cur := ⟨bs, 0⟩
  let (message_type, c) ← take 8 6 c
  let (repeat_indicator, c) ← take 8 2 c
  let (mmsi, c) ← take 32 30 c
  let (_, c) ← take 8 2 c
  let (lon, c) ← signedI32 18 c
  let (lat, c) ← signedI32 17 c
  let (_, c) ← take 8 5 c
  -- DifferentialCorrectionData::parse
  let (p_type, c) ← take 8 6 c
  let (station_id, c) ← take 16 10 c
  let (z_count, c) ← take 16 13 c
  let (seq, c) ← take 8 3 c
  let (n, c) ← take 8 5 c
  let (health, c) ← take 8 3 c
  let data ← ownRest cfg c
  ok ⟨.DgnssBroadcastBinaryMessage,
    [(.message_type, .nat message_type), (.repeat_indicator, .nat repeat_indicator), (.mmsi, .nat mmsi),
     (.longitude, f32Opt 108600 .div600 lon), (.latitude, f32Opt 54600 .div600 lat),
     (.p_message_type, .nat p_type), (.station_id, .nat station_id), (.z_count, .nat z_count),
     (.sequence_number, .nat seq), (.n, .nat n), (.health, .nat health), (.data, .bytes data)]⟩

/-- `static_data_report.rs::parse_message_part`, after the part number has been read. -/
def parseT24Part (cfg : Cfg) (hdr : List (Key × Val)) (c : Cur) : Nat → Res Msg
  | 0 => do
    let (vessel_name, c) ← parse6bitAscii cfg c 120
    let (_, _) ← take 8 (min c.remaining 7) c
    ok ⟨.StaticDataReport, hdr ++ [(.part, .sym "PartA"), (.vessel_name, vessel_name)]⟩
  | 1 => do
    let (st, c) ← take 8 8 c
    let (vendor_id, c) ← parse6bitAscii cfg c 18
    let (model_serial, _) ← parse6bitAscii cfg c 24
    let (unit_model_code, c) ← take 8 4 c
    let (serial_number, c) ← take 32 20 c
    let (callsign, c) ← parse6bitAscii cfg c 42
    let (bow, c) ← take 16 9 c
    let (stern, c) ← take 16 9 c
    let (port, c) ← take 16 6 c
    let (starboard, c) ← take 16 6 c
    let (_, _) ← take 8 6 c
    ok ⟨.StaticDataReport, hdr ++
      [(.part, .sym "PartB"), (.ship_type, ShipType.parse st), (.vendor_id, vendor_id),
       (.model_serial, model_serial), (.unit_model_code, .nat unit_model_code),
       (.serial_number, .nat serial_number), (.callsign, callsign), (.dimension_to_bow, .nat bow),
       (.dimension_to_stern, .nat stern), (.dimension_to_port, .nat port),
       (.dimension_to_starboard, .nat starboard)]⟩
  | 2 => ok ⟨.StaticDataReport, hdr ++ [(.part, .symN "Unknown" 2)]⟩
  | 3 => ok ⟨.StaticDataReport, hdr ++ [(.part, .symN "Unknown" 3)]⟩
  | _ => panic .unreachable

/-- `static_data_report.rs` (type 24) -/
def parseT24 (cfg : Cfg) (bs : List UInt8) : Res Msg := do
  let c : Cur := ⟨bs, 0⟩
  let (message_type, c) ← take 8 6 c
  let (repeat_indicator, c) ← take 8 2 c
  let (mmsi, c) ← take 32 30 c
  let (part, c) ← take 8 2 c
  parseT24Part cfg
    [(.message_type, .nat message_type), (.repeat_indicator, .nat repeat_indicator), (.mmsi, .nat mmsi)] c part

/-! ### many_m_n -/

/-- `nom::multi::many_m_n` / `nom_noalloc::many_m_n::<_, MAX>` on a bit-level parser. -/
def manyLoop (p : Cur → Res (α × Cur)) (min : Nat) :
    Nat → Nat → Cur → List α → Res (List α × Cur)
  | 0, _, c, acc => ok (acc, c)
  | k + 1, count, c, acc =>
    match p c with
    | ok (v, c') =>
      if c'.remaining = c.remaining then err (.nomError .manyMN)
      else manyLoop p min k (count + 1) c' (acc ++ [v])
    | err (.nomError e) => if count < min then err (.nomError e) else ok (acc, c)
    | err e => err e
    | panic q => panic q

def manyMN (min max : Nat) (p : Cur → Res (α × Cur)) (c : Cur) : Res (List α × Cur) :=
  if min > max then err (.nomFailure .manyMN) else manyLoop p min max 0 c []

/-- Flatten a list of records into indexed keys, preceded by the element count. -/
def flattenList (items : List (List (Key × Val))) : List (Key × Val) :=
  (.count, .nat items.length) ::
    (items.zipIdx.flatMap fun (rec, i) => rec.map fun (k, v) => (Key.idx k i, v))

/-- `Acknowledgement::parse` (types 7 and 13) -/
def parseAck (c : Cur) : Res (List (Key × Val) × Cur) := do
  let (mmsi, c) ← take 32 30 c
  let (seq, c) ← take 8 2 c
  ok ([(.acks_mmsi, .nat mmsi), (.acks_seq_num, .nat seq)], c)

/-- `binary_acknowledge.rs` (type 7) and `safety_related_acknowledgment.rs` (type 13) -/
def parseAckMsg (kind : Kind) (bs : List UInt8) : Res Msg := do
  let c : Cur := ⟨bs, 0⟩
  let (message_type, c) ← take 8 6 c
  let (repeat_indicator, c) ← take 8 2 c
  let (mmsi, c) ← take 32 30 c
  let (_, c) ← take 8 2 c
  let (acks, _) ← manyMN 1 4 parseAck c
  ok ⟨kind,
    [(.message_type, .nat message_type), (.repeat_indicator, .nat repeat_indicator), (.mmsi, .nat mmsi)]
      ++ flattenList acks⟩

def parseT07 := parseAckMsg .BinaryAcknowledgeMessage
def parseT13 := parseAckMsg .SafetyRelatedAcknowledgment

/-- `SlotReservation::parse` (type 20) -/
def parseReservation (c : Cur) : Res (List (Key × Val) × Cur) := do
  let (offset, c) ← take 16 12 c
  let (num_slots, c) ← take 8 4 c
  let (timeout, c) ← take 8 3 c
  let (increment, c) ← take 16 11 c
  ok ([(.res_offset, .nat offset), (.res_num_slots, .nat num_slots), (.res_timeout, .nat timeout),
       (.res_increment, .nat increment)], c)

/-- `data_link_management_message.rs` (type 20) -/
def parseT20 (bs : List UInt8) : Res Msg := do
  let c : Cur := ⟨bs, 0⟩
  let (message_type, c) ← take 8 6 c
  let (repeat_indicator, c) ← take 8 2 c
  let (mmsi, c) ← take 32 30 c
  let (_, c) ← take 8 2 c
  let (rs, _) ← manyMN 1 4 parseReservation c
  ok ⟨.DataLinkManagementMessage,
    [(.message_type, .nat message_type), (.repeat_indicator, .nat repeat_indicator), (.mmsi, .nat mmsi)]
      ++ flattenList rs⟩

/-- `assignment_mode_command.rs` (type 16) -/
def parseT16 (bs : List UInt8) : Res Msg := do
  let c : Cur := ⟨bs, 0⟩
  let (message_type, c) ← take 8 6 c
  let (repeat_indicator, c) ← take 8 2 c
  let (mmsi, c) ← take 32 30 c
  let (_, c) ← take 8 2 c
  let (mmsi1, c) ← take 32 30 c
  let (offset1, c) ← take 16 12 c
  let (increment1, c) ← take 16 10 c
  let hdr : List (Key × Val) :=
    [(.message_type, .nat message_type), (.repeat_indicator, .nat repeat_indicator), (.mmsi, .nat mmsi),
     (.mmsi1, .nat mmsi1), (.offset1, .nat offset1), (.increment1, .nat increment1)]
  if c.remaining ≥ 52 then do
    let (mmsi2, c) ← take 32 30 c
    let (offset2, c) ← take 16 12 c
    let (increment2, _) ← take 16 10 c
    ok ⟨.AssignmentModeCommand, hdr ++
      [(.mmsi2, .nat mmsi2), (.offset2, .nat offset2), (.increment2, .nat increment2)]⟩
  else
    ok ⟨.AssignmentModeCommand, hdr ++ [(.mmsi2, .none), (.offset2, .none), (.increment2, .none)]⟩

/-- `interrogation.rs::Message::parse` -/
def parseInterrogationMessage (c : Cur) : Res (List (Key × Val) × Cur) := do
  let (message_type, c) ← take 8 6 c
  if c.remaining ≥ 12 then do
    let (slot_offset, c) ← take 16 12 c
    ok ([(.messages_type, .nat message_type), (.messages_slot_offset, optNe 0 slot_offset)], c)
  else
    ok ([(.messages_type, .nat message_type), (.messages_slot_offset, .none)], c)

/-- `push_unwrap`: `Vec::push` (std/alloc) or `heapless::Vec::push(..).unwrap()` (capacity `cap`). -/
def pushUnwrap (cfg : Cfg) (cap : Nat) (l : List α) (x : α) : Res (List α) :=
  if cfg.isNoalloc && cap ≤ l.length then panic .capacity else ok (l ++ [x])

/-- The `if remaining_bits(data) >= 8 { spare; second request }` block of `Station::parse`. -/
def parseSecondRequest (cfg : Cfg) (messages : List (List (Key × Val))) (c : Cur) :
    Res (List (List (Key × Val)) × Cur) :=
  if c.remaining ≥ 8 then do
    let (_, c) ← take 8 2 c
    let (m2, c) ← parseInterrogationMessage c
    -- `message.message_type != 0 || message.slot_offset.is_some()`
    if m2 ≠ [(.messages_type, .nat 0), (.messages_slot_offset, .none)] then do
      let ms ← pushUnwrap cfg 3 messages m2
      ok (ms, c)
    else ok (messages, c)
  else ok (messages, c)

/-- `interrogation.rs::Station::parse` -/
def parseStation (cfg : Cfg) (c : Cur) : Res (List (Key × Val) × Cur) := do
  let (mmsi, c) ← take 32 30 c
  let (m1, c) ← parseInterrogationMessage c
  let messages ← pushUnwrap cfg 3 [] m1
  let (messages, c) ← parseSecondRequest cfg messages c
  let flat := messages.zipIdx.flatMap fun (rec, i) => rec.map fun (k, v) => (Key.idx k i, v)
  ok ((.stations_mmsi, .nat mmsi) :: (.messages_count, .nat messages.length) :: flat, c)

/-- The `if remaining >= 30 { spare; second station }` block of type 15 (spare first: D6 fix). -/
def parseSecondStation (cfg : Cfg) (stations : List (List (Key × Val))) (c : Cur) :
    Res (List (List (Key × Val))) :=
  if c.remaining ≥ 30 then do
    let (_, c) ← take 8 2 c
    let (s2, _) ← parseStation cfg c
    pushUnwrap cfg 2 stations s2
  else ok stations

/-- `interrogation.rs` (type 15) -/
def parseT15 (cfg : Cfg) (bs : List UInt8) : Res Msg := do
  let c : Cur := ⟨bs, 0⟩
  let (message_type, c) ← take 8 6 c
  let (repeat_indicator, c) ← take 8 2 c
  let (mmsi, c) ← take 32 30 c
  let (_, c) ← take 8 2 c
  let (s1, c) ← parseStation cfg c
  let stations ← pushUnwrap cfg 2 [] s1
  let stations ← parseSecondStation cfg stations c
  ok ⟨.Interrogation,
    [(.message_type, .nat message_type), (.repeat_indicator, .nat repeat_indicator), (.mmsi, .nat mmsi),
     (.stations_count, .nat stations.length)] ++
      (stations.zipIdx.flatMap fun (rec, i) => rec.map fun (k, v) => (Key.idx k i, v))⟩

end AisVerif

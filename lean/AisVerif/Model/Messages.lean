/-
  `messages::parse` (src/messages/mod.rs): dispatch on the first six bits.
-/
import AisVerif.Model.MsgA
import AisVerif.Model.MsgB

namespace AisVerif

/-- `parsers::message_type`: `bits(take_bits(6u8))` on a byte slice. -/
def messageType (bs : List UInt8) : Res Nat := do
  let (t, _) ← take 8 6 ⟨bs, 0⟩
  ok t

/-- `messages::parse(unarmored)` -/
def parseMessage (cfg : Cfg) (bs : List UInt8) : Res Msg := do
  let t ← messageType bs
  if 1 ≤ t ∧ t ≤ 3 then parseT01 bs
  else if t = 4 then parseT04 bs
  else if t = 5 then parseT05 cfg bs
  else if t = 7 then parseT07 bs
  else if t = 6 then parseT06 cfg bs
  else if t = 8 then parseT08 cfg bs
  else if t = 9 then parseT09 bs
  else if t = 10 then parseT10 bs
  else if t = 11 then parseT11 bs
  else if t = 12 then parseT12 cfg bs
  else if t = 13 then parseT13 bs
  else if t = 14 then parseT14 cfg bs
  else if t = 15 then parseT15 cfg bs
  else if t = 16 then parseT16 bs
  else if t = 17 then parseT17 cfg bs
  else if t = 18 then parseT18 bs
  else if t = 19 then parseT19 cfg bs
  else if t = 20 then parseT20 bs
  else if t = 21 then parseT21 cfg bs
  else if t = 24 then parseT24 cfg bs
  else if t = 27 then parseT27 bs
  else err (.text .unimplementedType)

/-- The per-type public entry points `<Type as AisMessageType>::parse(data)`, addressed by the type number the
    dispatch would have used (`messages::parse` is `messageType` followed by this). -/
def parseAs (cfg : Cfg) (t : Nat) (bs : List UInt8) : Res Msg :=
  if 1 ≤ t ∧ t ≤ 3 then parseT01 bs
  else if t = 4 then parseT04 bs
  else if t = 5 then parseT05 cfg bs
  else if t = 7 then parseT07 bs
  else if t = 6 then parseT06 cfg bs
  else if t = 8 then parseT08 cfg bs
  else if t = 9 then parseT09 bs
  else if t = 10 then parseT10 bs
  else if t = 11 then parseT11 bs
  else if t = 12 then parseT12 cfg bs
  else if t = 13 then parseT13 bs
  else if t = 14 then parseT14 cfg bs
  else if t = 15 then parseT15 cfg bs
  else if t = 16 then parseT16 bs
  else if t = 17 then parseT17 cfg bs
  else if t = 18 then parseT18 bs
  else if t = 19 then parseT19 cfg bs
  else if t = 20 then parseT20 bs
  else if t = 21 then parseT21 cfg bs
  else if t = 24 then parseT24 cfg bs
  else if t = 27 then parseT27 bs
  else err (.text .unimplementedType)

theorem parseMessage_eq_parseAs (cfg : Cfg) (bs : List UInt8) :
    parseMessage cfg bs = (messageType bs >>= fun t => parseAs cfg t bs) := rfl

end AisVerif

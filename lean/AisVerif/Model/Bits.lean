/-
  `nom::bits::complete::take` (nom 7.1.3, src/bits/complete.rs) as the loop nom runs,
  with the accumulator width `W` as a parameter, over an absolute-position bit cursor.
-/
import AisVerif.Model.Res

namespace AisVerif

/-- Bit cursor: the whole buffer and an absolute bit position.  nom's `(rest, offset)` is
    `(bs.drop (pos / 8), pos % 8)`. -/
structure Cur where
  bs : List UInt8
  pos : Nat
  deriving Repr, DecidableEq

namespace Cur
/-- `parsers::remaining_bits`: `data.0.len() * 8 - data.1` (never underflows: `offset < 8` and
    `offset = 0` when `rest` is empty). -/
def remaining (c : Cur) : Nat := 8 * c.bs.length - c.pos
def advance (c : Cur) (n : Nat) : Cur := ⟨c.bs, c.pos + n⟩
/-- nom's `rest` slice (`data.0`). -/
def rest (c : Cur) : List UInt8 := c.bs.drop (c.pos / 8)
end Cur

/-- The body of nom's `for byte in input.iter_elements().take(cnt + 1)` loop.
    `offset`/`remaining`/`acc` are nom's variables of the same names. -/
def takeLoop (W : Nat) : List UInt8 → (offset remaining acc : Nat) → Res Nat
  | [], _, _, acc => ok acc
  | b :: rest, offset, remaining, acc =>
    if remaining = 0 then ok acc
    else
      -- `((byte << offset) as u8 >> offset)` (or `byte` itself when `offset == 0`)
      let val := b.toNat % 2 ^ (8 - offset)
      if remaining < 8 - offset then
        -- `acc += val >> (8 - offset - remaining); break`
        addW W acc (val / 2 ^ (8 - offset - remaining))
      else do
        -- `acc += val << (remaining - (8 - offset))`
        let sh ← shlW W val (remaining - (8 - offset))
        let acc' ← addW W acc sh
        takeLoop W rest 0 (remaining - (8 - offset)) acc'

/-- `take(count)` with output type of width `W`. -/
def take (W n : Nat) (c : Cur) : Res (Nat × Cur) :=
  if n = 0 then ok (0, c)
  else
    let input := c.rest
    let off := c.pos % 8
    let cnt := (n + off) / 8
    if input.length * 8 < n + off then err (.nomError .eof)
    else do
      let acc ← takeLoop W (input.take (cnt + 1)) off n 0
      ok (acc, c.advance n)

/-- Accumulator of type `i32` holding a non-negative value: addition overflows at `2^31`. -/
abbrev takeI32 := take 31

/-- `parsers::signed_i32` (`assert!(len <= 32)`, then sign extension by the top bit of the field). -/
def signedI32 (len : Nat) (c : Cur) : Res (Int × Cur) :=
  if 32 < len then panic .assert
  else do
    let (num, c') ← takeI32 len c
    -- `(num << (32 - len)).leading_zeros() == 0`  ⇔  bit `len-1` of `num` is set
    if len = 0 then panic .shlOverflow      -- `num << 32` on i32
    else if 2 ^ (len - 1) ≤ num then ok ((num : Int) - 2 ^ len, c')   -- `num | mask`
    else ok ((num : Int), c')                                         -- `!mask & num`

end AisVerif

/-
  C03's specification of unarmoring, as a predicate on the output bytes (from the property text):
  ceil(6n/8) bytes whose bit stream, most significant bit first, is the concatenation of the
  characters' 6-bit values, with the last `fill` of those 6n bits and every bit beyond 6n zero.
-/
import AisVerif.Spec.Bits

namespace AisVerif.Spec

/-- The AIS armoring alphabet: '0'-'W' are 0-39, '`'-'w' are 40-63. -/
def sixbit (c : UInt8) : Option Nat :=
  if 48 ≤ c ∧ c ≤ 87 then some (c.toNat - 48)
  else if 96 ≤ c ∧ c ≤ 119 then some (c.toNat - 56)
  else none

/-- Bit `i` of the concatenation of the characters' 6-bit values (0 beyond the end). -/
def armoredBit (data : List UInt8) (i : Nat) : Nat :=
  match data[i / 6]? with
  | some c => (match sixbit c with
      | some v => (v / 2 ^ (5 - i % 6)) % 2
      | none => 0)
  | none => 0

def unarmorLen (n : Nat) : Nat := (6 * n + 7) / 8

/-- `out` is the unarmoring of `data` with `fill` fill bits. -/
def IsUnarmored (data : List UInt8) (fill : Nat) (out : List UInt8) : Prop :=
  out.length = unarmorLen data.length ∧
  ∀ i, bit out i = if i < 6 * data.length - fill then armoredBit data i else 0

end AisVerif.Spec

/-
  Specification decoders for the variable-length messages (absolute offsets, DESIGN.md Appendix A).
  `L = 8 * bs.length` is the number of bits present.
-/
import AisVerif.Spec.DecodeA
import AisVerif.Lemmas.Many

namespace AisVerif.Spec
open AisVerif

def hdr (bs : List UInt8) : List (Key × Val) :=
  [(.message_type, .nat (field bs 0 6)), (.repeat_indicator, .nat (field bs 6 2)), (.mmsi, .nat (field bs 8 30))]

/-- Type 6: 88-bit header, then the binary payload (whole bytes from byte 11). -/
def decodeT06 (bs : List UInt8) : Msg :=
  ⟨.BinaryAddressedMessage, hdr bs ++
    [(.seqno, .nat (field bs 38 2)), (.dest_mmsi, .nat (field bs 40 30)), (.retransmit, flag (field bs 70 1)),
     (.dac, .nat (field bs 72 10)), (.fid, .nat (field bs 82 6)), (.data, .bytes (bs.drop 11))]⟩

/-- Type 8: 56-bit header, payload from byte 7. -/
def decodeT08 (bs : List UInt8) : Msg :=
  ⟨.BinaryBroadcastMessage, hdr bs ++
    [(.dac, .nat (field bs 40 10)), (.fid, .nat (field bs 50 6)), (.data, .bytes (bs.drop 7))]⟩

/-- Type 17: 80-bit header, 40-bit DGNSS header, correction data from byte 15. -/
def decodeT17 (bs : List UInt8) : Msg :=
  ⟨.DgnssBroadcastBinaryMessage, hdr bs ++
    [(.longitude, f32Opt 108600 .div600 (toSigned 18 (field bs 40 18))),
     (.latitude, f32Opt 54600 .div600 (toSigned 17 (field bs 58 17))),
     (.p_message_type, .nat (field bs 80 6)), (.station_id, .nat (field bs 86 10)),
     (.z_count, .nat (field bs 96 13)), (.sequence_number, .nat (field bs 109 3)), (.n, .nat (field bs 112 5)),
     (.health, .nat (field bs 117 3)), (.data, .bytes (bs.drop 15))]⟩

/-- Type 12: text of `(L - 72) / 6` characters from bit 72. -/
def decodeT12 (bs : List UInt8) : Msg :=
  ⟨.AddressedSafetyRelatedMessage, hdr bs ++
    [(.seqno, .nat (field bs 38 2)), (.dest_mmsi, .nat (field bs 40 30)), (.retransmit, flag (field bs 70 1)),
     (.text, .text (trim (chars bs 72 ((8 * bs.length - 72) / 6))))]⟩

/-- Type 14: text of `(L - 40) / 6` characters from bit 40. -/
def decodeT14 (bs : List UInt8) : Msg :=
  ⟨.SafetyRelatedBroadcastMessage, hdr bs ++ [(.text, .text (trim (chars bs 40 ((8 * bs.length - 40) / 6))))]⟩

/-- Type 16 with one or two assignments. -/
def decodeT16 (bs : List UInt8) (two : Bool) : Msg :=
  ⟨.AssignmentModeCommand, hdr bs ++
    [(.mmsi1, .nat (field bs 40 30)), (.offset1, .nat (field bs 70 12)), (.increment1, .nat (field bs 82 10))] ++
    (if two then [(.mmsi2, .nat (field bs 92 30)), (.offset2, .nat (field bs 122 12)), (.increment2, .nat (field bs 134 10))]
     else [(.mmsi2, .none), (.offset2, .none), (.increment2, .none)])⟩

/-- One acknowledgement (types 7, 13): MMSI (30) and sequence number (2) at bit `q`. -/
def ackAt (bs : List UInt8) (q : Nat) : List (Key × Val) :=
  [(.acks_mmsi, .nat (field bs q 30)), (.acks_seq_num, .nat (field bs (q + 30) 2))]

/-- Types 7 and 13: `min 4 ((L - 40) / 32)` acknowledgements at 40, 72, 104, 136. -/
def decodeAcks (kind : Kind) (bs : List UInt8) : Msg :=
  ⟨kind, hdr bs ++ flattenList (elemsFrom ackAt bs 32 40 (min 4 ((8 * bs.length - 40) / 32)))⟩

/-- One slot reservation (type 20) at bit `q`: offset 12, slots 4, time-out 3, increment 11. -/
def reservationAt (bs : List UInt8) (q : Nat) : List (Key × Val) :=
  [(.res_offset, .nat (field bs q 12)), (.res_num_slots, .nat (field bs (q + 12) 4)),
   (.res_timeout, .nat (field bs (q + 16) 3)), (.res_increment, .nat (field bs (q + 19) 11))]

/-- Type 20: `min 4 ((L - 40) / 30)` reservations at 40, 70, 100, 130. -/
def decodeT20 (bs : List UInt8) : Msg :=
  ⟨.DataLinkManagementMessage, hdr bs ++ flattenList (elemsFrom reservationAt bs 30 40 (min 4 ((8 * bs.length - 40) / 30)))⟩

/-- Type 24 part A (160 or 168 bits): name at 40. -/
def decodeT24A (bs : List UInt8) : Msg :=
  ⟨.StaticDataReport, hdr bs ++ [(.part, .sym "PartA"), (.vessel_name, .text (trim (chars bs 40 20)))]⟩

/-- Type 24 part B (168 bits). `model_serial` is the crate's extra reading of bits 66-89 as 4 characters. -/
def decodeT24B (bs : List UInt8) : Msg :=
  ⟨.StaticDataReport, hdr bs ++
    [(.part, .sym "PartB"), (.ship_type, ShipType.parse (field bs 40 8)),
     (.vendor_id, .text (trim (chars bs 48 3))), (.model_serial, .text (trim (chars bs 66 4))),
     (.unit_model_code, .nat (field bs 66 4)), (.serial_number, .nat (field bs 70 20)),
     (.callsign, .text (trim (chars bs 90 7))), (.dimension_to_bow, .nat (field bs 132 9)),
     (.dimension_to_stern, .nat (field bs 141 9)), (.dimension_to_port, .nat (field bs 150 6)),
     (.dimension_to_starboard, .nat (field bs 156 6))]⟩

/-- Type 24 with part number 2 or 3. -/
def decodeT24U (bs : List UInt8) : Msg :=
  ⟨.StaticDataReport, hdr bs ++ [(.part, .symN "Unknown" (field bs 38 2))]⟩

/-- Number of destination characters present in a (possibly truncated) type 5. -/
def t5DestChars (bs : List UInt8) : Nat := min 120 (8 * bs.length - 302) / 6

/-- Type 5 as the crate decodes it: everything up to the draught at the standard offsets; the
    destination has as many complete characters as are present (at most 20); the DTE is the first
    bit after the destination characters that were read, when there is one. For a full 424-bit
    message that is bit 422, as specified. -/
def decodeT05 (bs : List UInt8) : Msg :=
  let k := t5DestChars bs
  ⟨.StaticAndVoyageRelatedData, hdr bs ++
    [(.ais_version, .nat (field bs 38 2)), (.imo_number, .nat (field bs 40 30)),
     (.callsign, .text (trim (chars bs 70 7))), (.vessel_name, .text (trim (chars bs 112 20))),
     (.ship_type, ShipType.parse (field bs 232 8)), (.dimension_to_bow, .nat (field bs 240 9)),
     (.dimension_to_stern, .nat (field bs 249 9)), (.dimension_to_port, .nat (field bs 258 6)),
     (.dimension_to_starboard, .nat (field bs 264 6)), (.epfd_type, EpfdType.parse (field bs 270 4)),
     (.eta_month_utc, optNe 0 (field bs 274 4)), (.eta_day_utc, optNe 0 (field bs 278 5)),
     (.eta_hour_utc, .nat (field bs 283 5)), (.eta_minute_utc, optNe 60 (field bs 288 6)),
     (.draught, .f32 (field bs 294 8) .div10), (.destination, .text (trim (chars bs 302 k))),
     (.dte, if 302 + 6 * k < 8 * bs.length then dte (field bs (302 + 6 * k) 1) else .sym "NotReady")]⟩

/-! ### Type 15 (interrogation)

The standard's layout (Appendix A): station 1 MMSI@40, request 1 (type@70, offset@76), spare@88,
request 2 (type@90, offset@96), spare@108, station 2 MMSI@110, request (type@140, offset@146), spare@158.
The crate decides what is present from the number of remaining bits; `interMsg`/`station` below
give, for a payload of `L` bits, the absolute positions it reads. -/

/-- One request starting at bit `q` (its 6 type bits are present): the 12-bit slot offset is read
    when at least 12 more bits remain. Returns the fields and the position after the request. -/
def interMsg (bs : List UInt8) (q : Nat) : List (Key × Val) × Nat :=
  if 8 * bs.length - (q + 6) ≥ 12 then
    ([(.messages_type, .nat (field bs q 6)), (.messages_slot_offset, optNe 0 (field bs (q + 6) 12))], q + 18)
  else ([(.messages_type, .nat (field bs q 6)), (.messages_slot_offset, .none)], q + 6)

def emptyRequest : List (Key × Val) := [(.messages_type, .nat 0), (.messages_slot_offset, .none)]

def renderStation (bs : List UInt8) (q : Nat) (msgs : List (List (Key × Val))) : List (Key × Val) :=
  (.stations_mmsi, .nat (field bs q 30)) :: (.messages_count, .nat msgs.length) ::
    (msgs.zipIdx.flatMap fun (rec, i) => rec.map fun (k, v) => (Key.idx k i, v))

/-- A station starting at bit `q` (MMSI and first request type present): fields and end position. -/
def station (bs : List UInt8) (q : Nat) : List (Key × Val) × Nat :=
  let m1 := interMsg bs (q + 30)
  if 8 * bs.length - m1.2 ≥ 8 then
    let m2 := interMsg bs (m1.2 + 2)
    (renderStation bs q (if m2.1 ≠ emptyRequest then [m1.1, m2.1] else [m1.1]), m2.2)
  else (renderStation bs q [m1.1], m1.2)

def renderStations (bs : List UInt8) (sts : List (List (Key × Val))) : Msg :=
  ⟨.Interrogation, hdr bs ++ [(.stations_count, .nat sts.length)] ++
    (sts.zipIdx.flatMap fun (rec, i) => rec.map fun (k, v) => (Key.idx k i, v))⟩

end AisVerif.Spec

/-
  Specification vocabulary for bit fields: written from ITU-R M.1371 ("most significant bit
  first"), independent of how the code reads bits.
-/
namespace AisVerif.Spec

/-- Bit `i` of a byte string, bit 0 being the most significant bit of the first byte.
    Positions beyond the end read as 0. -/
def bit (bs : List UInt8) (i : Nat) : Nat :=
  ((bs[i / 8]?.getD 0).toNat / 2 ^ (7 - i % 8)) % 2

/-- The unsigned value of the `w` bits starting at bit `p`, most significant first. -/
def field (bs : List UInt8) (p : Nat) : Nat → Nat
  | 0 => 0
  | w + 1 => 2 * field bs p w + bit bs (p + w)

/-- Two's-complement reading of a `w`-bit value. -/
def toSigned (w : Nat) (v : Nat) : Int :=
  if v < 2 ^ (w - 1) then (v : Int) else (v : Int) - 2 ^ w

end AisVerif.Spec

/-
  ITU-R M.1371-5 message layouts (DESIGN.md Appendix A) as data: for every integer, flag and
  identifier field the key under which the crate reports it, its bit offset and its width.
  Transcribed from the standard's width columns; offsets are running sums.
-/
import AisVerif.Model.Msg
import AisVerif.Spec.Bits

namespace AisVerif.Spec

inductive FKind | nat | flag
  deriving DecidableEq, Repr

structure FieldSpec where
  key : Key
  off : Nat
  w : Nat
  kind : FKind := .nat
  deriving Repr

def FieldSpec.render (e : FieldSpec) (bs : List UInt8) : Val :=
  match e.kind with
  | .nat => .nat (field bs e.off e.w)
  | .flag => .bool (field bs e.off e.w == 1)

def common : List FieldSpec := [⟨.message_type, 0, 6, .nat⟩, ⟨.repeat_indicator, 6, 2, .nat⟩, ⟨.mmsi, 8, 30, .nat⟩]

namespace Layout
def t01 : List FieldSpec := common ++ [⟨.timestamp, 137, 6, .nat⟩, ⟨.raim, 148, 1, .flag⟩]
def t04 : List FieldSpec := common ++ [⟨.hour, 61, 5, .nat⟩, ⟨.raim, 148, 1, .flag⟩]
def t05 : List FieldSpec := common ++
  [⟨.ais_version, 38, 2, .nat⟩, ⟨.imo_number, 40, 30, .nat⟩, ⟨.dimension_to_bow, 240, 9, .nat⟩,
   ⟨.dimension_to_stern, 249, 9, .nat⟩, ⟨.dimension_to_port, 258, 6, .nat⟩,
   ⟨.dimension_to_starboard, 264, 6, .nat⟩, ⟨.eta_hour_utc, 283, 5, .nat⟩]
def t06 : List FieldSpec := common ++
  [⟨.seqno, 38, 2, .nat⟩, ⟨.dest_mmsi, 40, 30, .nat⟩, ⟨.retransmit, 70, 1, .flag⟩, ⟨.dac, 72, 10, .nat⟩,
   ⟨.fid, 82, 6, .nat⟩]
def t08 : List FieldSpec := common ++ [⟨.dac, 40, 10, .nat⟩, ⟨.fid, 50, 6, .nat⟩]
def t09 : List FieldSpec := common ++ [⟨.timestamp, 128, 6, .nat⟩, ⟨.raim, 147, 1, .flag⟩]
def t10 : List FieldSpec := common ++ [⟨.dest_mmsi, 40, 30, .nat⟩]
def t12 : List FieldSpec := common ++ [⟨.seqno, 38, 2, .nat⟩, ⟨.dest_mmsi, 40, 30, .nat⟩, ⟨.retransmit, 70, 1, .flag⟩]
def t14 : List FieldSpec := common
def t16one : List FieldSpec := common ++ [⟨.mmsi1, 40, 30, .nat⟩, ⟨.offset1, 70, 12, .nat⟩, ⟨.increment1, 82, 10, .nat⟩]
def t16two : List FieldSpec := t16one ++ [⟨.mmsi2, 92, 30, .nat⟩, ⟨.offset2, 122, 12, .nat⟩, ⟨.increment2, 134, 10, .nat⟩]
def t17 : List FieldSpec := common ++
  [⟨.p_message_type, 80, 6, .nat⟩, ⟨.station_id, 86, 10, .nat⟩, ⟨.z_count, 96, 13, .nat⟩,
   ⟨.sequence_number, 109, 3, .nat⟩, ⟨.n, 112, 5, .nat⟩, ⟨.health, 117, 3, .nat⟩]
def t18 : List FieldSpec := common ++
  [⟨.timestamp, 133, 6, .nat⟩, ⟨.has_display, 142, 1, .flag⟩, ⟨.has_dsc, 143, 1, .flag⟩,
   ⟨.whole_band, 144, 1, .flag⟩, ⟨.accepts_message_22, 145, 1, .flag⟩, ⟨.raim, 147, 1, .flag⟩]
def t19 : List FieldSpec := common ++
  [⟨.timestamp, 133, 6, .nat⟩, ⟨.dimension_to_bow, 271, 9, .nat⟩, ⟨.dimension_to_stern, 280, 9, .nat⟩,
   ⟨.dimension_to_port, 289, 6, .nat⟩, ⟨.dimension_to_starboard, 295, 6, .nat⟩, ⟨.raim, 305, 1, .flag⟩]
def t21 : List FieldSpec := common ++
  [⟨.dimension_to_bow, 219, 9, .nat⟩, ⟨.dimension_to_stern, 228, 9, .nat⟩, ⟨.dimension_to_port, 237, 6, .nat⟩,
   ⟨.dimension_to_starboard, 243, 6, .nat⟩, ⟨.utc_second, 253, 6, .nat⟩, ⟨.off_position, 259, 1, .flag⟩,
   ⟨.regional_reserved, 260, 8, .nat⟩, ⟨.raim, 268, 1, .flag⟩, ⟨.virtual_aid, 269, 1, .flag⟩,
   ⟨.assigned_mode, 270, 1, .flag⟩]
def t24A : List FieldSpec := common
def t24B : List FieldSpec := common ++
  [⟨.unit_model_code, 66, 4, .nat⟩, ⟨.serial_number, 70, 20, .nat⟩, ⟨.dimension_to_bow, 132, 9, .nat⟩,
   ⟨.dimension_to_stern, 141, 9, .nat⟩, ⟨.dimension_to_port, 150, 6, .nat⟩, ⟨.dimension_to_starboard, 156, 6, .nat⟩]
def t27 : List FieldSpec := common ++ [⟨.raim, 39, 1, .flag⟩, ⟨.gnss_position_status, 94, 1, .flag⟩]

/-- List types: element `i` (0-based) of types 7/13 at `40 + 32 i`, of type 20 at `40 + 30 i`. -/
def ack (i : Nat) : List FieldSpec :=
  [⟨.idx .acks_mmsi i, 40 + 32 * i, 30, .nat⟩, ⟨.idx .acks_seq_num i, 70 + 32 * i, 2, .nat⟩]
def reservation (i : Nat) : List FieldSpec :=
  [⟨.idx .res_offset i, 40 + 30 * i, 12, .nat⟩, ⟨.idx .res_num_slots i, 52 + 30 * i, 4, .nat⟩,
   ⟨.idx .res_timeout i, 56 + 30 * i, 3, .nat⟩, ⟨.idx .res_increment i, 59 + 30 * i, 11, .nat⟩]

/-- Type 15, first station and its first request (always present), second request (110-bit form),
    second station (160-bit form). -/
def t15first : List FieldSpec := common ++ [⟨.idx .stations_mmsi 0, 40, 30, .nat⟩, ⟨.idx (.idx .messages_type 0) 0, 70, 6, .nat⟩]
def t15second : List FieldSpec := [⟨.idx (.idx .messages_type 1) 0, 90, 6, .nat⟩]
def t15station2 : List FieldSpec := [⟨.idx .stations_mmsi 1, 110, 30, .nat⟩, ⟨.idx (.idx .messages_type 0) 1, 140, 6, .nat⟩]
end Layout

end AisVerif.Spec

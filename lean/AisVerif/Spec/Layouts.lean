/-
  ITU-R M.1371-5 message layouts (DESIGN.md Appendix A) as data: for every integer, flag and
  identifier field the key under which the crate reports it, its bit offset and its width.
  Transcribed from the standard's width columns; offsets are running sums.
-/
import AisVerif.Model.Msg
import AisVerif.Spec.Bits

namespace AisVerif.Spec

inductive FKind | nat | flag
  deriving DecidableEq, Repr

structure FieldSpec where
  key : Key
  off : Nat
  w : Nat
  kind : FKind := .nat
  deriving Repr

/-- How a raw field value is reported: as a number, or as a flag (1 = true). -/
def FieldSpec.renderVal (e : FieldSpec) (v : Nat) : Val :=
  match e.kind with
  | .nat => .nat v
  | .flag => .bool (v == 1)

def FieldSpec.render (e : FieldSpec) (bs : List UInt8) : Val := e.renderVal (field bs e.off e.w)

def common : List FieldSpec := [⟨.message_type, 0, 6, .nat⟩, ⟨.repeat_indicator, 6, 2, .nat⟩, ⟨.mmsi, 8, 30, .nat⟩]

namespace Layout
def t01 : List FieldSpec := common ++ [⟨.timestamp, 137, 6, .nat⟩, ⟨.raim, 148, 1, .flag⟩]
def t04 : List FieldSpec := common ++ [⟨.hour, 61, 5, .nat⟩, ⟨.raim, 148, 1, .flag⟩]
def t05 : List FieldSpec := common ++
  [⟨.ais_version, 38, 2, .nat⟩, ⟨.imo_number, 40, 30, .nat⟩, ⟨.dimension_to_bow, 240, 9, .nat⟩,
   ⟨.dimension_to_stern, 249, 9, .nat⟩, ⟨.dimension_to_port, 258, 6, .nat⟩,
   ⟨.dimension_to_starboard, 264, 6, .nat⟩, ⟨.eta_hour_utc, 283, 5, .nat⟩]
def t06 : List FieldSpec := common ++
  [⟨.seqno, 38, 2, .nat⟩, ⟨.dest_mmsi, 40, 30, .nat⟩, ⟨.retransmit, 70, 1, .flag⟩, ⟨.dac, 72, 10, .nat⟩,
   ⟨.fid, 82, 6, .nat⟩]
def t08 : List FieldSpec := common ++ [⟨.dac, 40, 10, .nat⟩, ⟨.fid, 50, 6, .nat⟩]
def t09 : List FieldSpec := common ++ [⟨.timestamp, 128, 6, .nat⟩, ⟨.raim, 147, 1, .flag⟩]
def t10 : List FieldSpec := common ++ [⟨.dest_mmsi, 40, 30, .nat⟩]
def t12 : List FieldSpec := common ++ [⟨.seqno, 38, 2, .nat⟩, ⟨.dest_mmsi, 40, 30, .nat⟩, ⟨.retransmit, 70, 1, .flag⟩]
def t14 : List FieldSpec := common
def t16one : List FieldSpec := common ++ [⟨.mmsi1, 40, 30, .nat⟩, ⟨.offset1, 70, 12, .nat⟩, ⟨.increment1, 82, 10, .nat⟩]
def t16two : List FieldSpec := t16one ++ [⟨.mmsi2, 92, 30, .nat⟩, ⟨.offset2, 122, 12, .nat⟩, ⟨.increment2, 134, 10, .nat⟩]
def t17 : List FieldSpec := common ++
  [⟨.p_message_type, 80, 6, .nat⟩, ⟨.station_id, 86, 10, .nat⟩, ⟨.z_count, 96, 13, .nat⟩,
   ⟨.sequence_number, 109, 3, .nat⟩, ⟨.n, 112, 5, .nat⟩, ⟨.health, 117, 3, .nat⟩]
def t18 : List FieldSpec := common ++
  [⟨.timestamp, 133, 6, .nat⟩, ⟨.has_display, 142, 1, .flag⟩, ⟨.has_dsc, 143, 1, .flag⟩,
   ⟨.whole_band, 144, 1, .flag⟩, ⟨.accepts_message_22, 145, 1, .flag⟩, ⟨.raim, 147, 1, .flag⟩]
def t19 : List FieldSpec := common ++
  [⟨.timestamp, 133, 6, .nat⟩, ⟨.dimension_to_bow, 271, 9, .nat⟩, ⟨.dimension_to_stern, 280, 9, .nat⟩,
   ⟨.dimension_to_port, 289, 6, .nat⟩, ⟨.dimension_to_starboard, 295, 6, .nat⟩, ⟨.raim, 305, 1, .flag⟩]
def t21 : List FieldSpec := common ++
  [⟨.dimension_to_bow, 219, 9, .nat⟩, ⟨.dimension_to_stern, 228, 9, .nat⟩, ⟨.dimension_to_port, 237, 6, .nat⟩,
   ⟨.dimension_to_starboard, 243, 6, .nat⟩, ⟨.utc_second, 253, 6, .nat⟩, ⟨.off_position, 259, 1, .flag⟩,
   ⟨.regional_reserved, 260, 8, .nat⟩, ⟨.raim, 268, 1, .flag⟩, ⟨.virtual_aid, 269, 1, .flag⟩,
   ⟨.assigned_mode, 270, 1, .flag⟩]
def t24A : List FieldSpec := common
def t24B : List FieldSpec := common ++
  [⟨.unit_model_code, 66, 4, .nat⟩, ⟨.serial_number, 70, 20, .nat⟩, ⟨.dimension_to_bow, 132, 9, .nat⟩,
   ⟨.dimension_to_stern, 141, 9, .nat⟩, ⟨.dimension_to_port, 150, 6, .nat⟩, ⟨.dimension_to_starboard, 156, 6, .nat⟩]
def t27 : List FieldSpec := common ++ [⟨.raim, 39, 1, .flag⟩, ⟨.gnss_position_status, 94, 1, .flag⟩]

/-- List types: element `i` (0-based) of types 7/13 at `40 + 32 i`, of type 20 at `40 + 30 i`. -/
def ack (i : Nat) : List FieldSpec :=
  [⟨.idx .acks_mmsi i, 40 + 32 * i, 30, .nat⟩, ⟨.idx .acks_seq_num i, 70 + 32 * i, 2, .nat⟩]
def reservation (i : Nat) : List FieldSpec :=
  [⟨.idx .res_offset i, 40 + 30 * i, 12, .nat⟩, ⟨.idx .res_num_slots i, 52 + 30 * i, 4, .nat⟩,
   ⟨.idx .res_timeout i, 56 + 30 * i, 3, .nat⟩, ⟨.idx .res_increment i, 59 + 30 * i, 11, .nat⟩]

/-- Type 15, first station and its first request (always present), second request (110-bit form),
    second station (160-bit form). -/
def t15first : List FieldSpec := common ++ [⟨.idx .stations_mmsi 0, 40, 30, .nat⟩, ⟨.idx (.idx .messages_type 0) 0, 70, 6, .nat⟩]
def t15second : List FieldSpec := [⟨.idx (.idx .messages_type 1) 0, 90, 6, .nat⟩]
def t15station2 : List FieldSpec := [⟨.idx .stations_mmsi 1, 110, 30, .nat⟩, ⟨.idx (.idx .messages_type 0) 1, 140, 6, .nat⟩]
end Layout

/-! ### Scaled fields (C10) and optional fields (C11) -/

/-- A numeric field reported as a floating-point quantity: where it is, whether it is a
    two's-complement value, its 'not available' code (if any) and its scale. -/
structure ScaledSpec where
  key : Key
  off : Nat
  w : Nat
  signed : Bool
  sentinel : Option Int
  op : FOp
  deriving Repr

def ScaledSpec.raw (e : ScaledSpec) (bs : List UInt8) : Int :=
  if e.signed then toSigned e.w (field bs e.off e.w) else (field bs e.off e.w : Int)

/-- Absent exactly at the sentinel; otherwise the raw value with the field's scale. -/
def ScaledSpec.render (e : ScaledSpec) (bs : List UInt8) : Val :=
  match e.sentinel with
  | some s => if e.raw bs = s then .none else .f32 (e.raw bs) e.op
  | none => .f32 (e.raw bs) e.op

/-- `render` as a function of the field's raw bits alone. -/
def ScaledSpec.renderRaw (e : ScaledSpec) (v : Nat) : Val :=
  let r : Int := if e.signed then toSigned e.w v else (v : Int)
  match e.sentinel with
  | some s => if r = s then .none else .f32 r e.op
  | none => .f32 r e.op

theorem ScaledSpec.render_eq_renderRaw (e : ScaledSpec) (bs : List UInt8) :
    e.render bs = e.renderRaw (field bs e.off e.w) := rfl

/-- The exact value an `FOp` stands for, as a fraction `num / den` applied to the raw integer. -/
def FOp.num : FOp → Nat | .div600000mul1000 => 1000 | _ => 1
def FOp.den : FOp → Nat | .div10 => 10 | .div600000 => 600000 | .div600 => 600 | .ident => 1 | .div600000mul1000 => 600000

def lon28 (off : Nat) : ScaledSpec := ⟨.longitude, off, 28, true, some 108600000, .div600000⟩
def lat27 (off : Nat) : ScaledSpec := ⟨.latitude, off, 27, true, some 54600000, .div600000⟩
def sog10 (off : Nat) : ScaledSpec := ⟨.speed_over_ground, off, 10, false, some 1023, .div10⟩
def cog12 (off : Nat) : ScaledSpec := ⟨.course_over_ground, off, 12, false, some 3600, .div10⟩

namespace Scaled
def t01 : List ScaledSpec := [sog10 50, lon28 61, lat27 89, cog12 116]
def t04 : List ScaledSpec := [lon28 79, lat27 107]
def t05 : List ScaledSpec := [⟨.draught, 294, 8, false, none, .div10⟩]
/-- SAR aircraft: speed in knots, undivided. -/
def t09 : List ScaledSpec := [⟨.speed_over_ground, 50, 10, false, some 1023, .ident⟩, lon28 61, lat27 89, cog12 116]
/-- DGNSS: 18/17-bit coordinates in 1/10 minute. -/
def t17 : List ScaledSpec :=
  [⟨.longitude, 40, 18, true, some 108600, .div600⟩, ⟨.latitude, 58, 17, true, some 54600, .div600⟩]
def t18 : List ScaledSpec := [sog10 46, lon28 57, lat27 85, cog12 112]
def t21 : List ScaledSpec := [lon28 164, lat27 192]
/-- Long-range broadcast: 1/10-minute coordinates (the code scales by `/600000*1000 = /600`), speed
    and course undivided with their own sentinels. -/
def t27 : List ScaledSpec :=
  [⟨.longitude, 44, 18, true, some 108600, .div600000mul1000⟩, ⟨.latitude, 62, 17, true, some 54600, .div600000mul1000⟩,
   ⟨.speed_over_ground, 79, 6, false, some 63, .ident⟩, ⟨.course_over_ground, 85, 9, false, some 511, .ident⟩]
end Scaled

/-- An unsigned integer field with a 'not available' code. -/
structure OptSpec where
  key : Key
  off : Nat
  w : Nat
  sentinel : Nat
  deriving Repr

def OptSpec.render (e : OptSpec) (bs : List UInt8) : Val :=
  if field bs e.off e.w = e.sentinel then .none else .nat (field bs e.off e.w)

namespace Opt
def t01 : List OptSpec := [⟨.true_heading, 128, 9, 511⟩]
def t04 : List OptSpec :=
  [⟨.year, 38, 14, 0⟩, ⟨.month, 52, 4, 0⟩, ⟨.day, 56, 5, 0⟩, ⟨.minute, 66, 6, 60⟩, ⟨.second, 72, 6, 60⟩]
def t05 : List OptSpec := [⟨.eta_month_utc, 274, 4, 0⟩, ⟨.eta_day_utc, 278, 5, 0⟩, ⟨.eta_minute_utc, 288, 6, 60⟩]
def t09 : List OptSpec := [⟨.altitude, 38, 12, 4095⟩]
def t18 : List OptSpec := [⟨.true_heading, 124, 9, 511⟩]
end Opt

end AisVerif.Spec

/-
  Communication state (ITU-R M.1371-5, 3.3.7.2.2 SOTDMA / 3.3.7.3.2 ITDMA), as arithmetic on
  the 19-bit value `v` (most significant bit first).
-/
import AisVerif.Model.Types

namespace AisVerif.Spec
open AisVerif

/-- SOTDMA: sync state `v[18:17]`, slot time-out `v[16:14]`, sub message `v[13:0]` read by time-out. -/
def sotdma (v : Nat) : List (Key × Val) :=
  let sync := v / 2 ^ 17
  let to := (v / 2 ^ 14) % 8
  let sub := v % 2 ^ 14
  [(.radio, .sym "Sotdma"), (.sync_state, SyncState.parse sync), (.slot_timeout, .nat to)] ++
    (if to = 0 then [(.sub_message, .sym "SlotOffset"), (.sub_a, .nat sub)]
     else if to = 1 then
       -- UTC hour (5 bits) and minute; the code reads hour, 1 spare bit, 6 minute bits, 2 spare bits
       [(.sub_message, .sym "UtcHourAndMinute"), (.sub_a, .nat (sub / 2 ^ 9)), (.sub_b, .nat ((sub / 4) % 64))]
     else if to % 2 = 0 then [(.sub_message, .sym "SlotNumber"), (.sub_a, .nat sub)]
     else [(.sub_message, .sym "ReceivedStations"), (.sub_a, .nat sub)])

/-- ITDMA: sync state `v[18:17]`, slot increment `v[16:4]`, number of slots `v[3:1]`, keep flag `v[0]`. -/
def itdma (v : Nat) : List (Key × Val) :=
  [(.radio, .sym "Itdma"), (.sync_state, SyncState.parse (v / 2 ^ 17)),
   (.slot_increment, .nat ((v / 16) % 2 ^ 13)), (.num_slots, .nat ((v / 2) % 8)),
   (.keep, .bool (v % 2 == 1))]

end AisVerif.Spec

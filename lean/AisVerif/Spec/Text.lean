/-
  6-bit ASCII text (ITU-R M.1371-5 table 47): values 0-31 are '@'..'_', 32-63 are ' '..'?'.
-/
import AisVerif.Spec.Bits

namespace AisVerif.Spec

def sixbitAscii (v : Nat) : UInt8 := if v < 32 then UInt8.ofNat (v + 64) else UInt8.ofNat v

/-- The `n` characters of a text field starting at bit `p`. -/
def chars (bs : List UInt8) (p : Nat) : Nat → List UInt8
  | 0 => []
  | n + 1 => sixbitAscii (field bs p 6) :: chars bs (p + 6) n

/-- Leading spaces, then trailing '@', then trailing spaces removed. -/
def dropLeading (x : UInt8) (cs : List UInt8) : List UInt8 := cs.dropWhile (· == x)
def dropTrailing (x : UInt8) (cs : List UInt8) : List UInt8 := (cs.reverse.dropWhile (· == x)).reverse
def trim (cs : List UInt8) : List UInt8 := dropTrailing 0x20 (dropTrailing 0x40 (dropLeading 0x20 cs))

end AisVerif.Spec

/-
  Enumerations as ITU-R M.1371-5 names them (tables 45-48, 50, 53, 71-74), keyed by code.
  Written independently of the crate's `match` arms: named codes as a table, ranges by rule.
-/
import AisVerif.Model.Msg

namespace AisVerif.Spec

def named (table : List (Nat × String)) (c : Nat) : Option Val := (table.lookup c).map Val.sym

/-- Navigational status (4 bits): 15 = not defined. -/
def navStatusNames : List (Nat × String) :=
  [(0, "UnderWayUsingEngine"), (1, "AtAnchor"), (2, "NotUnderCommand"), (3, "RestrictedManouverability"),
   (4, "ConstrainedByDraught"), (5, "Moored"), (6, "Aground"), (7, "EngagedInFishing"), (8, "UnderWaySailing"),
   (9, "ReservedForHSC"), (10, "ReservedForWIG"), (11, "Reserved01"), (12, "Reserved02"), (13, "Reserved03"),
   (14, "AisSartIsActive")]
def navStatus (c : Nat) : Val := if c = 15 then .none else (named navStatusNames c).getD (.symN "Unknown" c)

/-- Special manoeuvre indicator (2 bits): 0 = not available, 3 is unassigned. -/
def maneuver (c : Nat) : Val :=
  if c = 0 then .none else if c = 1 then .sym "NoSpecialManeuver" else if c = 2 then .sym "SpecialManeuver"
  else .symN "Unknown" c

/-- Type of electronic position fixing device (4 bits): 0 undefined, 15 not used, 9-14 unassigned. -/
def epfdNames : List (Nat × String) :=
  [(1, "Gps"), (2, "Glonass"), (3, "CombinedGpsAndGlonass"), (4, "LoranC"), (5, "Chayka"),
   (6, "IntegratedNavigationSystem"), (7, "Surveyed"), (8, "Galileo")]
def epfd (c : Nat) : Val := if c = 0 ∨ c = 15 then .none else (named epfdNames c).getD (.symN "Unknown" c)

/-- Type of ship and cargo (8 bits), by decade: first digit = category, second digit = cargo class. -/
def shipCategory (d : Nat) : Option String :=
  if d = 2 then some "WingInGround" else if d = 4 then some "HighSpeedCraft" else if d = 6 then some "Passenger"
  else if d = 7 then some "Cargo" else if d = 8 then some "Tanker" else if d = 9 then some "Other" else none

def shipSpecial : List (Nat × String) :=
  [(30, "Fishing"), (31, "Towing"), (32, "TowingLarge"), (33, "Dredging"), (34, "DivingOps"), (35, "MilitaryOps"),
   (36, "Sailing"), (37, "PleasureCraft"), (50, "PilotVessel"), (51, "SearchAndRescueVessel"), (52, "Tug"),
   (53, "PortTender"), (54, "AntiPollutionEquipment"), (55, "LawEnforcement"), (58, "MedicalTransport"),
   (59, "NoncombatantShip")]

def shipType (c : Nat) : Val :=
  if c = 0 ∨ 100 ≤ c then .none                      -- not available / reserved for regional or future use
  else match shipCategory (c / 10) with
    | some cat =>
      let u := c % 10
      if u = 0 then .sym cat
      else if u ≤ 4 then .sym (cat ++ "HazardousCategory" ++ String.singleton (Char.ofNat (64 + u)))
      else if u = 9 ∧ c / 10 ≠ 2 then .sym (cat ++ "NoAdditionalInformation")
      else .symN (cat ++ "Reserved") c
    | none =>
      match named shipSpecial c with
      | some v => v
      | none => if c = 56 ∨ c = 57 then .symN "SpareLocalVessel" c else .symN "Reserved" c

/-- Type of aid to navigation (5 bits): 0 = not specified. -/
def navaidNames : List (Nat × String) :=
  [(1, "ReferencePoint"), (2, "Racon"), (3, "FixedStructureOffShore"), (4, "Spare"), (5, "LightWithoutSectors"),
   (6, "LightWithSectors"), (7, "LeadingLightFront"), (8, "LeadingLightRear"), (9, "BeaconCardinalN"),
   (10, "BeaconCardinalE"), (11, "BeaconCardinalS"), (12, "BeaconCardinalW"), (13, "BeaconPortHand"),
   (14, "BeaconStarboardHand"), (15, "BeaconPreferredChannelPortHand"), (16, "BeaconPreferredChannelStarboardHand"),
   (17, "BeaconIsolatedDanger"), (18, "BeaconSafeWater"), (19, "BeaconSpecialMark"), (20, "CardinalMarkN"),
   (21, "CardinalMarkE"), (22, "CardinalMarkS"), (23, "CardinalMarkW"), (24, "PortHandMark"),
   (25, "StarboardHandMark"), (26, "PreferredChannelPortHand"), (27, "PreferredChannelStarboardHand"),
   (28, "IsolatedDanger"), (29, "SafeWater"), (30, "SpecialMark"), (31, "LightVesselOrLanbyOrRigs")]
def navaid (c : Nat) : Val := if c = 0 then .none else (named navaidNames c).getD (.symN "Unknown" c)

/-- Synchronisation state (2 bits). -/
def syncState (c : Nat) : Val :=
  (named [(0, "UtcDirect"), (1, "UtcIndirect"), (2, "BaseStation"), (3, "NumberOfReceivedStations")] c).getD (.symN "Unknown" c)

/-- The code an enumerated value stands for (variants carrying their code return it). -/
def codeOf (table : List (Nat × String)) : Val → Option Nat
  | .sym name => (table.find? (·.2 = name)).map (·.1)
  | .symN _ c => some c
  | _ => none

end AisVerif.Spec

/-
  What a finite binary32 bit pattern denotes, as an exact rational (IEEE 754-2019 §3.4):
  `(-1)^s · sig · 2^ulpExp`, with `sig`/`ulpExp` the integer significand and the exponent of the unit
  in the last place (`Model/F32.lean`: implicit leading one for biased exponents 1…254, the subnormal
  grid `2^-149` for biased exponent 0).
-/
import AisVerif.Model.F32

namespace AisVerif.F32

/-- `2 ^ k` for an integer `k`, as a rational. -/
def twoPow (k : Int) : Rat :=
  if 0 ≤ k then ((2 ^ k.toNat : Nat) : Rat) else 1 / ((2 ^ (-k).toNat : Nat) : Rat)

/-- The rational a finite bit pattern denotes (both zeros denote 0). -/
def toRat (b : Nat) : Rat :=
  (if signBit b then -1 else 1) * ((sig b : Nat) : Rat) * twoPow (ulpExp b)

/-- Finite: the biased exponent is not 255. -/
def Finite (b : Nat) : Prop := b < 2 ^ 32 ∧ expField b ≠ 255

end AisVerif.F32

namespace AisVerif

/-- The exact quantity an `FOp` is meant to compute from the raw integer. -/
def FOp.exact (raw : Int) (op : FOp) : Rat :=
  match op with
  | .div10 => (raw : Rat) / 10
  | .div600000 => (raw : Rat) / 600000
  | .div600 => (raw : Rat) / 600
  | .ident => (raw : Rat)
  | .div600000mul1000 => (raw : Rat) / 600

end AisVerif

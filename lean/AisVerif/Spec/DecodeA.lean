/-
  Specification decoders for the fixed-length position-type messages, written with the absolute
  bit offsets of ITU-R M.1371-5 (DESIGN.md Appendix A).  Value-level maps (sentinels, enumeration
  tables) are the ones the properties C10-C12 speak about; their own theorems are in Props/.
-/
import AisVerif.Spec.Bits
import AisVerif.Spec.Radio
import AisVerif.Lemmas.Take
import AisVerif.Spec.Text

namespace AisVerif.Spec
open AisVerif

def accuracy (v : Nat) : Val := bitSym "Unaugmented" "Dgps" v
def dte (v : Nat) : Val := bitSym "Ready" "NotReady" v
def assigned (v : Nat) : Val := bitSym "Autonomous" "Assigned" v
def carrierSense (v : Nat) : Val := bitSym "Sotdma" "CarrierSense" v
def flag (v : Nat) : Val := .bool (v == 1)

/-- Types 1-3 (168 bits). -/
def decodeT01 (bs : List UInt8) (radio : List (Key × Val)) : Msg :=
  ⟨.PositionReport,
    [(.message_type, .nat (field bs 0 6)), (.repeat_indicator, .nat (field bs 6 2)), (.mmsi, .nat (field bs 8 30)),
     (.navigation_status, NavigationStatus.parse (field bs 38 4)), (.rate_of_turn, RateOfTurn.parse (field bs 42 8)),
     (.speed_over_ground, parseSpeedOverGround (field bs 50 10)), (.position_accuracy, accuracy (field bs 60 1)),
     (.longitude, parseLongitude (toSigned 28 (field bs 61 28))),
     (.latitude, parseLatitude (toSigned 27 (field bs 89 27))),
     (.course_over_ground, parseCog (field bs 116 12)), (.true_heading, parseHeading (field bs 128 9)),
     (.timestamp, .nat (field bs 137 6)), (.maneuver_indicator, ManeuverIndicator.parse (field bs 143 2)),
     (.raim, flag (field bs 148 1))] ++ radio⟩


/-- Types 4 and 11 (168 bits). -/
def decodeBase (kind : Kind) (bs : List UInt8) (radio : List (Key × Val)) : Msg :=
  ⟨kind,
    [(.message_type, .nat (field bs 0 6)), (.repeat_indicator, .nat (field bs 6 2)), (.mmsi, .nat (field bs 8 30)),
     (.year, optNe 0 (field bs 38 14)), (.month, optNe 0 (field bs 52 4)), (.day, optNe 0 (field bs 56 5)),
     (.hour, .nat (field bs 61 5)), (.minute, optNe 60 (field bs 66 6)), (.second, optNe 60 (field bs 72 6)),
     (.fix_quality, accuracy (field bs 78 1)),
     (.longitude, parseLongitude (toSigned 28 (field bs 79 28))),
     (.latitude, parseLatitude (toSigned 27 (field bs 107 27))),
     (.epfd_type, EpfdType.parse (field bs 134 4)), (.raim, flag (field bs 148 1))] ++ radio⟩

/-- Type 9 (168 bits), as the standard lays it out: the communication state is the last 19 bits
    (149-167), chosen by the selector bit 148. -/
def decodeT09Fields (bs : List UInt8) : List (Key × Val) :=
    [(.message_type, .nat (field bs 0 6)), (.repeat_indicator, .nat (field bs 6 2)), (.mmsi, .nat (field bs 8 30)),
     (.altitude, optNe 4095 (field bs 38 12)), (.speed_over_ground, f32Opt 1023 .ident (field bs 50 10)),
     (.position_accuracy, accuracy (field bs 60 1)),
     (.longitude, parseLongitude (toSigned 28 (field bs 61 28))),
     (.latitude, parseLatitude (toSigned 27 (field bs 89 27))),
     (.course_over_ground, parseCog (field bs 116 12)), (.timestamp, .nat (field bs 128 6)),
     (.dte, dte (field bs 142 1)), (.assigned_mode, assigned (field bs 146 1)), (.raim, flag (field bs 147 1))]

def decodeT09 (bs : List UInt8) (radio : List (Key × Val)) : Msg :=
  ⟨.StandardAircraftPositionReport, decodeT09Fields bs ++ radio⟩

/-- Type 10 (72 bits). -/
def decodeT10 (bs : List UInt8) : Msg :=
  ⟨.UtcDateInquiry,
    [(.message_type, .nat (field bs 0 6)), (.repeat_indicator, .nat (field bs 6 2)), (.mmsi, .nat (field bs 8 30)),
     (.dest_mmsi, .nat (field bs 40 30))]⟩

/-- Communication state of types 9 and 18: selector bit 148, state in bits 149-167. -/
def selRadio (bs : List UInt8) : List (Key × Val) :=
  if field bs 148 1 = 0 then sotdma (field bs 149 19) else itdma (field bs 149 19)

/-- Type 18 (168 bits). -/
def decodeT18 (bs : List UInt8) : Msg :=
  ⟨.StandardClassBPositionReport,
    [(.message_type, .nat (field bs 0 6)), (.repeat_indicator, .nat (field bs 6 2)), (.mmsi, .nat (field bs 8 30)),
     (.speed_over_ground, parseSpeedOverGround (field bs 46 10)), (.position_accuracy, accuracy (field bs 56 1)),
     (.longitude, parseLongitude (toSigned 28 (field bs 57 28))),
     (.latitude, parseLatitude (toSigned 27 (field bs 85 27))),
     (.course_over_ground, parseCog (field bs 112 12)), (.true_heading, parseHeading (field bs 124 9)),
     (.timestamp, .nat (field bs 133 6)), (.cs_unit, carrierSense (field bs 141 1)),
     (.has_display, flag (field bs 142 1)), (.has_dsc, flag (field bs 143 1)), (.whole_band, flag (field bs 144 1)),
     (.accepts_message_22, flag (field bs 145 1)), (.assigned_mode, assigned (field bs 146 1)),
     (.raim, flag (field bs 147 1))] ++ selRadio bs⟩

/-- Type 19 (312 bits). -/
def decodeT19 (bs : List UInt8) : Msg :=
  ⟨.ExtendedClassBPositionReport,
    [(.message_type, .nat (field bs 0 6)), (.repeat_indicator, .nat (field bs 6 2)), (.mmsi, .nat (field bs 8 30)),
     (.speed_over_ground, parseSpeedOverGround (field bs 46 10)), (.position_accuracy, accuracy (field bs 56 1)),
     (.longitude, parseLongitude (toSigned 28 (field bs 57 28))),
     (.latitude, parseLatitude (toSigned 27 (field bs 85 27))),
     (.course_over_ground, parseCog (field bs 112 12)), (.true_heading, parseHeading (field bs 124 9)),
     (.timestamp, .nat (field bs 133 6)), (.name, .text (trim (chars bs 143 20))),
     (.type_of_ship_and_cargo, ShipType.parse (field bs 263 8)),
     (.dimension_to_bow, .nat (field bs 271 9)), (.dimension_to_stern, .nat (field bs 280 9)),
     (.dimension_to_port, .nat (field bs 289 6)), (.dimension_to_starboard, .nat (field bs 295 6)),
     (.epfd_type, EpfdType.parse (field bs 301 4)), (.raim, flag (field bs 305 1)), (.dte, dte (field bs 306 1)),
     (.assigned_mode, assigned (field bs 307 1))]⟩

/-- Type 21 (272 bits; the optional name extension is not decoded by the crate). -/
def decodeT21 (bs : List UInt8) : Msg :=
  ⟨.AidToNavigationReport,
    [(.message_type, .nat (field bs 0 6)), (.repeat_indicator, .nat (field bs 6 2)), (.mmsi, .nat (field bs 8 30)),
     (.aid_type, NavaidType.parse (field bs 38 5)), (.name, .text (trim (chars bs 43 20))),
     (.accuracy, accuracy (field bs 163 1)),
     (.longitude, parseLongitude (toSigned 28 (field bs 164 28))),
     (.latitude, parseLatitude (toSigned 27 (field bs 192 27))),
     (.dimension_to_bow, .nat (field bs 219 9)), (.dimension_to_stern, .nat (field bs 228 9)),
     (.dimension_to_port, .nat (field bs 237 6)), (.dimension_to_starboard, .nat (field bs 243 6)),
     (.epfd_type, EpfdType.parse (field bs 249 4)), (.utc_second, .nat (field bs 253 6)),
     (.off_position, flag (field bs 259 1)), (.regional_reserved, .nat (field bs 260 8)),
     (.raim, flag (field bs 268 1)), (.virtual_aid, flag (field bs 269 1)), (.assigned_mode, flag (field bs 270 1))]⟩

/-- Type 27 (96 bits): 1/10-minute coordinates with their own 'not available' codes. The scaling
    operation is the code's `(raw/600000)*1000` when the type bits read 27. -/
def decodeT27 (bs : List UInt8) : Msg :=
  let op : FOp := if field bs 0 6 = 27 then .div600000mul1000 else .div600000
  ⟨.LongRangeAisBroadcastMessage,
    [(.message_type, .nat (field bs 0 6)), (.repeat_indicator, .nat (field bs 6 2)), (.mmsi, .nat (field bs 8 30)),
     (.position_accuracy, accuracy (field bs 38 1)), (.raim, flag (field bs 39 1)),
     (.navigation_status, NavigationStatus.parse (field bs 40 4)),
     (.longitude, f32Opt 108600 op (toSigned 18 (field bs 44 18))),
     (.latitude, f32Opt 54600 op (toSigned 17 (field bs 62 17))),
     (.speed_over_ground, f32Opt 63 .ident (field bs 79 6)), (.course_over_ground, f32Opt 511 .ident (field bs 85 9)),
     (.gnss_position_status, flag (field bs 94 1))]⟩

end AisVerif.Spec

/-
  The abstract reassembly automaton of C06: at most one open group (sequence id, number of the
  last accepted fragment, the accepted fragments' payloads in order).
-/
import AisVerif.Model.Res

namespace AisVerif.Spec

structure Group where
  id : Option Nat
  last : Nat
  parts : List (List UInt8)
  deriving Repr, DecidableEq

inductive Outcome
  | incomplete
  | complete (data : List UInt8)
  | reject
  deriving Repr, DecidableEq

/-- `cap = some n`: the reassembled payload may hold at most `n` bytes (no-alloc build). -/
def fits (cap : Option Nat) (n : Nat) : Prop := match cap with | none => True | some c => n ≤ c

instance (cap : Option Nat) (n : Nat) : Decidable (fits cap n) := by
  unfold fits; cases cap <;> exact inferInstance

/-- One validly numbered sentence (fragment `fn` of `nf`, sequence id `id`, payload `data`). -/
def gstep (cap : Option Nat) (g : Option Group) (nf fn : Nat) (id : Option Nat) (data : List UInt8) :
    Option Group × Outcome :=
  if fn < nf then
    if fn = 1 then (some ⟨id, 1, [data]⟩, .incomplete)          -- opens a group (discarding any open one)
    else match g with
      | some o =>
        if o.id = id ∧ o.last + 1 = fn ∧ fits cap (o.parts.flatten.length + data.length) then
          (some ⟨id, fn, o.parts ++ [data]⟩, .incomplete)         -- directly continues the open group
        else (g, .reject)
      | none => (g, .reject)
  else if nf = 1 then (g, .complete data)                          -- unfragmented: no effect on the group
  else match g with
    | some o =>
      if o.id = id ∧ o.last + 1 = fn ∧ fits cap (o.parts.flatten.length + data.length) then
        (none, .complete (o.parts ++ [data]).flatten)              -- last fragment: deliver and close
      else (g, .reject)
    | none => (g, .reject)

end AisVerif.Spec

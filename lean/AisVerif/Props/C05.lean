/-
  C05 — in-order fragments reassemble to exactly the unfragmented message.

  Fragments are given as the sentences the lines parse to (accepted at the sentence level with a
  matching checksum — `C17.step_of_parse` turns `step` on such a line into `stepSentence`; that
  rendered fragment lines do parse to these sentences is `C07.rendered_is_reported`).  Lines that
  leave no trace may be interleaved anywhere: by `C17.remove_noTrace` they change no other result,
  so the theorem is stated for the fragments alone, from an *arbitrary* parser state.
-/
import AisVerif.Props.C06
import AisVerif.Lemmas.Inv
import AisVerif.Lemmas.Armor
import AisVerif.Lemmas.Render
import AisVerif.Lemmas.Flags

namespace AisVerif.C05
open AisVerif Spec

/-- Feed sentences (lines already accepted by grammar and checksum) one after the other. -/
def runS (cfg : Cfg) (dec : Bool) : PState → List Sentence → List (Res Frag) × PState
  | st, [] => ([], st)
  | st, s :: ss =>
    let r := stepSentence cfg st s dec
    let rest := runS cfg dec r.1 ss
    (r.2 :: rest.1, rest.2)

/-- What the statement demands of fragments `j+1 … n` when `acc` has been accumulated so far: every
    fragment but the last yields Incomplete carrying its own fields; the last yields Complete whose
    payload is the concatenation, decoded (or not) exactly like any sentence with that payload. -/
def expected (cfg : Cfg) (dec : Bool) (acc : Bytes) : List Sentence → List (Res Frag)
  | [] => []
  | [s] => [(decodeInto cfg dec { s with data := acc ++ s.data }).map Frag.complete]
  | s :: t => ok (.incomplete s) :: expected cfg dec (acc ++ s.data) t

/-- Fragments `j+1, j+2, …` of an `n`-fragment group with sequence id `id`. -/
def Numbered (n : Nat) (id : Option Nat) : Nat → List Sentence → Prop
  | _, [] => True
  | j, s :: t => s.num_fragments = n ∧ s.fragment_number = j + 1 ∧ s.message_id = id ∧ Numbered n id (j + 1) t

def total (ss : List Sentence) : Nat := (ss.map (·.data.length)).sum

theorem runS_cons (cfg : Cfg) (dec : Bool) (st : PState) (s : Sentence) (ss : List Sentence) :
    runS cfg dec st (s :: ss) =
      ((stepSentence cfg st s dec).2 :: (runS cfg dec (stepSentence cfg st s dec).1 ss).1,
       (runS cfg dec (stepSentence cfg st s dec).1 ss).2) := rfl

theorem expected_one (cfg : Cfg) (dec : Bool) (acc : Bytes) (s : Sentence) :
    expected cfg dec acc [s] = [(decodeInto cfg dec { s with data := acc ++ s.data }).map Frag.complete] := rfl

theorem expected_cons2 (cfg : Cfg) (dec : Bool) (acc : Bytes) (s s2 : Sentence) (t : List Sentence) :
    expected cfg dec acc (s :: s2 :: t) = ok (.incomplete s) :: expected cfg dec (acc ++ s.data) (s2 :: t) := rfl

theorem feed_tail (cfg : Cfg) (dec : Bool) (n : Nat) (id : Option Nat) :
    ∀ (rs : List Sentence) (j : Nat) (acc : Bytes), 1 ≤ j → j + rs.length = n → rs ≠ [] →
      Numbered n id j rs → fits (capOf cfg) (acc.length + total rs) →
      runS cfg dec ⟨id, j, acc⟩ rs = (expected cfg dec acc rs, ⟨none, 0, []⟩) := by
  intro rs
  induction rs with
  | nil => intro j acc _ _ h; exact absurd rfl h
  | cons s t ih =>
    intro j acc hj hlen _ hnum hfit
    obtain ⟨hnf, hfn, hid, hrest⟩ := hnum
    have hfit1 : fits (capOf cfg) (acc.length + s.data.length) := by
      unfold fits at hfit ⊢; unfold total at hfit
      cases hc : capOf cfg with
      | none => trivial
      | some c => rw [hc] at hfit; simp only [List.map_cons, List.sum_cons] at hfit ⊢; omega
    have hacc := verify_accept cfg ⟨id, j, acc⟩ s hid.symm (by simp [hfn]) hfit1
    cases t with
    | nil =>
      -- the last fragment
      have hm : ¬ s.fragment_number < s.num_fragments := by simp at hlen; omega
      have hn1 : s.num_fragments ≠ 1 := by simp at hlen; omega
      rw [runS_cons, expected_one, stepSentence_last cfg dec _ s hm hn1, hacc]
      rfl
    | cons s2 t2 =>
      have hm : s.fragment_number < s.num_fragments := by simp at hlen; omega
      have h1 : ¬ s.fragment_number = 1 := by omega
      rw [runS_cons, expected_cons2, stepSentence_more cfg dec _ s hm, if_neg h1, hacc]
      simp only [afterVerify]
      have hfit2 : fits (capOf cfg) ((acc ++ s.data).length + total (s2 :: t2)) := by
        unfold fits at hfit ⊢; unfold total at hfit ⊢
        cases hc : capOf cfg with
        | none => trivial
        | some c =>
          rw [hc] at hfit
          simp only [List.map_cons, List.sum_cons, List.length_append] at hfit ⊢; omega
      have := ih (j + 1) (acc ++ s.data) (by omega) (by simp at hlen ⊢; omega) (by simp) hrest hfit2
      rw [hfn]
      rw [this]

/-- **C05.** For every parser state `st` (whatever was processed before), every `n ≥ 2`, every
    sequence id and every split into fragment payloads that together fit the buffer: presenting the
    fragments in order yields `expected` — Incomplete with the fragment's own fields for all but the
    last, Complete with the exact concatenation for the last — and leaves the parser with no open group. -/
theorem in_order_reassembly (cfg : Cfg) (dec : Bool) (st : PState) (id : Option Nat) (s1 : Sentence)
    (rest : List Sentence) (hne : rest ≠ []) (hnum : Numbered (rest.length + 1) id 0 (s1 :: rest))
    (hfit : fits (capOf cfg) (total (s1 :: rest))) :
    runS cfg dec st (s1 :: rest) = (expected cfg dec [] (s1 :: rest), ⟨none, 0, []⟩) := by
  obtain ⟨hnf, hfn, hid, hrest⟩ := hnum
  have hlen : 1 ≤ rest.length := by
    cases rest with
    | nil => exact absurd rfl hne
    | cons a b => simp
  have hm : s1.fragment_number < s1.num_fragments := by omega
  have h1 : s1.fragment_number = 1 := by omega
  have hfit1 : fits (capOf cfg) (([] : Bytes).length + s1.data.length) := by
    unfold fits at hfit ⊢; unfold total at hfit
    cases hc : capOf cfg with
    | none => trivial
    | some c => rw [hc] at hfit; simp only [List.map_cons, List.sum_cons, List.length_nil] at hfit ⊢; omega
  have hacc := verify_accept cfg ⟨s1.message_id, 0, []⟩ s1 rfl (by simp [h1]) hfit1
  cases rest with
  | nil => exact absurd rfl hne
  | cons s2 t2 =>
    rw [runS_cons, expected_cons2, stepSentence_more cfg dec st s1 hm, if_pos h1, hacc]
    simp only [afterVerify, List.nil_append]
    have hfit2 : fits (capOf cfg) (s1.data.length + total (s2 :: t2)) := by
      unfold fits at hfit ⊢; unfold total at hfit ⊢
      cases hc : capOf cfg with
      | none => trivial
      | some c => rw [hc] at hfit; simp only [List.map_cons, List.sum_cons] at hfit ⊢; omega
    have := feed_tail cfg dec ((s2 :: t2).length + 1) id (s2 :: t2) 1 s1.data (Nat.le_refl 1) (by omega) (by simp)
      hrest hfit2
    rw [hid, h1, this]

/-! ### The decoded message equals the one obtained by sending the payload unfragmented -/

/-- Decoding looks at the payload and the fill count only. -/
theorem decodeInto_depends (cfg : Cfg) (dec : Bool) (a b : Sentence)
    (hd : a.data = b.data) (hf : a.fill_bit_count = b.fill_bit_count) (hm : a.message = b.message) :
    (decodeInto cfg dec a).map (·.message) = (decodeInto cfg dec b).map (·.message) := by
  unfold decodeInto
  cases dec with
  | false => simp only [Bool.false_eq_true, if_false, Res.map, hm]
  | true =>
    simp only [if_true, hd, hf]
    cases unarmor cfg b.data b.fill_bit_count with
    | ok u =>
      simp only [Res.ok_bind]
      cases parseMessage cfg u with
      | ok m => rfl
      | err e => rfl
      | panic p => rfl
    | err e => rfl
    | panic p => rfl

/-- The unfragmented sentence `u` (one fragment of one) with the concatenated payload and the last
    fragment's fill count decodes to the same message — or the same decode error — as the last
    fragment `s` of the group. -/
theorem same_message_as_unfragmented (cfg : Cfg) (dec : Bool) (st : PState) (s u : Sentence) (concat : Bytes)
    (hu1 : u.num_fragments = 1) (huk : u.fragment_number = 1) (hud : u.data = concat)
    (huf : u.fill_bit_count = s.fill_bit_count) (hum : u.message = s.message) :
    (stepSentence cfg st u dec).2.map (fun f => (C07.Frag.sentence f).message) =
      ((decodeInto cfg dec { s with data := concat }).map Frag.complete).map (fun f => (C07.Frag.sentence f).message) := by
  have hm : ¬ u.fragment_number < u.num_fragments := by omega
  rw [stepSentence_unfrag cfg dec st u hm hu1]
  have := decodeInto_depends cfg dec u { s with data := concat } hud huf hum
  simp only []
  cases h1 : decodeInto cfg dec u with
  | ok a =>
    rw [h1] at this
    cases h2 : decodeInto cfg dec { s with data := concat } with
    | ok b =>
      rw [h2] at this; simp only [Res.map] at this ⊢
      have hab := ok_inj this
      simp only [C07.Frag.sentence, hab]
    | err e => rw [h2] at this; cases this
    | panic p => rw [h2] at this; cases this
  | err e =>
    rw [h1] at this
    cases h2 : decodeInto cfg dec { s with data := concat } with
    | ok b => rw [h2] at this; cases this
    | err e2 => rw [h2] at this; simp only [Res.map] at this ⊢; cases this; rfl
    | panic p => rw [h2] at this; cases this
  | panic p =>
    rw [h1] at this
    cases h2 : decodeInto cfg dec { s with data := concat } with
    | ok b => rw [h2] at this; cases this
    | err e2 => rw [h2] at this; cases this
    | panic p2 => rw [h2] at this; simp only [Res.map] at this ⊢; cases this; rfl

/-! ### Option / Result conversions -/

theorem conversions (s : Sentence) :
    Frag.toOption (.complete s) = some s ∧ Frag.toOption (.incomplete s) = none ∧
    Frag.toResult (.complete s) = ok s ∧ Frag.toResult (.incomplete s) = err (.text .incomplete) :=
  ⟨rfl, rfl, rfl, rfl⟩

/-- Shape of `expected`: the last entry carries the whole concatenation. -/
theorem expected_last (cfg : Cfg) (dec : Bool) : ∀ (ss : List Sentence) (acc : Bytes) (hne : ss ≠ []),
    (expected cfg dec acc ss).getLast? =
      some ((decodeInto cfg dec { ss.getLast hne with data := acc ++ (ss.map (·.data)).flatten }).map Frag.complete) := by
  intro ss
  induction ss with
  | nil => intro acc h; exact absurd rfl h
  | cons s t ih =>
    intro acc _
    cases t with
    | nil => simp [expected]
    | cons s2 t2 =>
      have := ih (acc ++ s.data) (by simp)
      rw [expected_cons2]
      cases he : expected cfg dec (acc ++ s.data) (s2 :: t2) with
      | nil => rw [he] at this; simp at this
      | cons x xs =>
        rw [he] at this
        rw [List.getLast?_cons_cons, this]
        simp [List.append_assoc]

/-! ### The same, for the lines themselves -/

/-- Lines that the sentence layer accepts (well-formed, checksum matching — `C06.classify`) are
    processed exactly as their sentences. -/
theorem run_eq_runS (cfg : Cfg) (dec : Bool) :
    ∀ (lines : List Bytes) (ss : List Sentence) (st : PState),
      lines.map (C06.classify cfg) = ss.map some → run cfg dec st lines = runS cfg dec st ss := by
  intro lines
  induction lines with
  | nil =>
    intro ss st h
    cases ss with
    | nil => rfl
    | cons a b => simp at h
  | cons l ls ih =>
    intro ss st h
    cases ss with
    | nil => simp at h
    | cons s ss' =>
      simp only [List.map_cons, List.cons.injEq] at h
      obtain ⟨raw, cks, hp, hc⟩ := C06.classify_some h.1
      simp only [run, runS]
      rw [C17.step_of_parse cfg st l raw s cks dec hp hc, ih ss' _ h.2]

/-- **C05 on lines.** Any `n ≥ 2` accepted lines that number themselves 1…n of n with one sequence id,
    fed in order to a parser in *any* state, give `expected`: Incomplete (own fields) … Complete
    (exact concatenation, decoded like the unfragmented payload); the parser ends with no open group. -/
theorem in_order_reassembly_lines (cfg : Cfg) (dec : Bool) (st : PState) (id : Option Nat)
    (l1 : Bytes) (ls : List Bytes) (s1 : Sentence) (rest : List Sentence)
    (hcl : (l1 :: ls).map (C06.classify cfg) = (s1 :: rest).map some)
    (hne : rest ≠ []) (hnum : Numbered (rest.length + 1) id 0 (s1 :: rest))
    (hfit : fits (capOf cfg) (total (s1 :: rest))) :
    run cfg dec st (l1 :: ls) = (expected cfg dec [] (s1 :: rest), ⟨none, 0, []⟩) := by
  rw [run_eq_runS cfg dec _ _ st hcl]
  exact in_order_reassembly cfg dec st id s1 rest hne hnum hfit

/-- **C05 with interleaved lines.** The same group, with any number of lines in between that are rejected
    (form, checksum, sequencing) or are unfragmented sentences — each no-trace in the state it arrives in
    (`C17.Tagged`): the results produced for the group's own lines are still `expected`, and the parser
    ends with no open group. -/
theorem in_order_reassembly_with_noise (cfg : Cfg) (dec : Bool) (st : PState) (id : Option Nat)
    (h : List (Bytes × Bool)) (htag : C17.Tagged cfg dec st h)
    (l1 : Bytes) (ls : List Bytes) (hk : C17.kept h = l1 :: ls)
    (s1 : Sentence) (rest : List Sentence)
    (hcl : (l1 :: ls).map (C06.classify cfg) = (s1 :: rest).map some)
    (hne : rest ≠ []) (hnum : Numbered (rest.length + 1) id 0 (s1 :: rest))
    (hfit : fits (capOf cfg) (total (s1 :: rest))) :
    C17.keptResults h (run cfg dec st (h.map (·.1))).1 = expected cfg dec [] (s1 :: rest) ∧
    (run cfg dec st (h.map (·.1))).2 = ⟨none, 0, []⟩ := by
  obtain ⟨a, b⟩ := C17.remove_all_noTrace cfg dec h st htag
  have hr := in_order_reassembly_lines cfg dec st id l1 ls s1 rest hcl hne hnum hfit
  rw [a, b, hk, hr]
  exact ⟨rfl, rfl⟩

/-! ### From bytes to a line and back: the unfragmented reference, end to end -/

/-- The body `AIVDM,1,1,,A,<payload>,<fill>`. -/
def unfragBody (payload : Bytes) (fill : Nat) : Body :=
  { talker := asciiStr "AI", report := asciiStr "VDM", nf := [0x31], fn := [0x31], id := [], ch := [0x41],
    payload := payload, fill := [UInt8.ofNat (48 + fill)] }

/-- `!<body>*<checksum>` -/
def renderLine (b : Body) : Bytes := [] ++ [0x21] ++ b.render ++ [0x2A] ++ hex2 (xorAll b.render).toNat

theorem armored_no_sep : ∀ c : Fin 256, (Spec.sixbit (UInt8.ofNat c.val)).isSome = true →
    UInt8.ofNat c.val ≠ 0x2A ∧ UInt8.ofNat c.val ≠ 0x2C := by
  decide +kernel

theorem armored_mem_no_sep (data : Bytes) (h : AllArmored data) :
    (0x2A : UInt8) ∉ data ∧ (0x2C : UInt8) ∉ data := by
  constructor
  · intro hm
    have := armored_no_sep ⟨(0x2A : UInt8).toNat, by decide⟩ (by simpa using h _ hm)
    exact this.1 (by decide)
  · intro hm
    have := armored_no_sep ⟨(0x2C : UInt8).toNat, by decide⟩ (by simpa using h _ hm)
    exact this.2 (by decide)

theorem fill_digit' : ∀ f : Fin 6, isDigit (UInt8.ofNat (48 + f.val)) = true ∧ decVal [UInt8.ofNat (48 + f.val)] = f.val := by
  decide +kernel

theorem fill_digit (f : Fin 6) : AllDigits [UInt8.ofNat (48 + f.val)] ∧ decVal [UInt8.ofNat (48 + f.val)] = f.val := by
  refine ⟨fun d hd => ?_, (fill_digit' f).2⟩
  simp only [List.mem_singleton] at hd
  rw [hd]; exact (fill_digit' f).1

theorem one_digits : ([0x31] : Bytes) ≠ [] ∧ AllDigits [0x31] ∧ decVal [0x31] ≤ 255 := by
  refine ⟨by decide, fun d hd => ?_, by decide⟩
  simp only [List.mem_singleton] at hd
  rw [hd]; decide

/-- **End to end, for every non-empty byte string `bs`** (a message as it is unarmored), every build and
    every parser state: armoring `bs`, rendering `!AIVDM,1,1,,A,<payload>,<fill>*<checksum>` and feeding
    that line with decoding on gives exactly what `parseMessage` gives for `bs` (followed by the one zero
    byte unarmoring adds when `6·chars` crosses a byte boundary) — the same value or the same error — in a
    `Complete` sentence that carries the transmitted fields, and the parser state is untouched. -/
theorem unfragmented_line_decodes (cfg : Cfg) (st : PState) (bs : Bytes) (hne : bs ≠ [])
    (hsz : (8 * bs.length + 5) / 6 ≤ maxSentence) :
    step cfg st (renderLine (unfragBody (Spec.armor bs (8 * bs.length)).1 (Spec.armor bs (8 * bs.length)).2)) true =
      (st, (parseMessage cfg (bs ++ List.replicate (Spec.unarmorLen ((8 * bs.length + 5) / 6) - bs.length) 0)).bind
        fun m => ok (Frag.complete
          { (unfragBody (Spec.armor bs (8 * bs.length)).1 (Spec.armor bs (8 * bs.length)).2).sentence with message := some m })) := by
  have hall := armor_allArmored bs (8 * bs.length)
  have hfill := armor_fill_le bs (8 * bs.length)
  have hlen := armor_length bs (8 * bs.length)
  obtain ⟨hstar, hcomma⟩ := armored_mem_no_sep _ hall
  generalize hp : (Spec.armor bs (8 * bs.length)).1 = payload at *
  generalize hf : (Spec.armor bs (8 * bs.length)).2 = fill at *
  have hpne : payload ≠ [] := by
    intro h
    have : bs.length ≠ 0 := by simpa using hne
    rw [h] at hlen; simp at hlen; omega
  obtain ⟨hfd, hfv⟩ := fill_digit ⟨fill, by omega⟩
  simp only [] at hfd hfv
  have hwf : (unfragBody payload fill).WF cfg :=
    { talker := rfl, report := rfl,
      nf := one_digits, fn := one_digits,
      id := Or.inl rfl, ch := (by show (0x2C : UInt8) ∉ [0x41]; decide),
      payload := ⟨hcomma, hpne⟩,
      fill := ⟨by simp [unfragBody], hfd, by simp only [unfragBody]; rw [hfv]; omega⟩,
      cap := fun _ => by simp only [unfragBody]; rw [hlen]; exact hsz }
  have hnostar : (0x2A : UInt8) ∉ (unfragBody payload fill).render := by
    simp only [Body.render, unfragBody, comma, List.mem_append, not_or]
    have hd : (0x2A : UInt8) ∉ [UInt8.ofNat (48 + fill)] := by
      intro hm
      have := hfd _ hm
      revert this; decide
    refine ⟨by decide, by decide, by decide, by decide, by decide, by decide, by decide, by simp, by decide, by decide, by decide, hstar, by decide, hd⟩
  obtain ⟨hx1, hx2⟩ := hex2_spec ⟨(xorAll (unfragBody payload fill).render).toNat, UInt8.toNat_lt _⟩
  simp only [] at hx1 hx2
  have hparse := parseNmeaSentence_render cfg [] 0x21 (unfragBody payload fill)
    (hex2 (xorAll (unfragBody payload fill).render).toNat) (Or.inl rfl) (Or.inl rfl) hwf hnostar
    (by rw [hx1]; simp [hex2]) (by rw [hx1, hx2]; have := UInt8.toNat_lt (xorAll (unfragBody payload fill).render); omega)
  rw [hx1, hx2] at hparse
  unfold renderLine
  rw [C17.step_of_parse cfg st _ _ _ _ true hparse rfl]
  have h1 : (unfragBody payload fill).sentence.num_fragments = 1 := by
    show decVal [0x31] = 1; decide
  have hm : ¬ (unfragBody payload fill).sentence.fragment_number < (unfragBody payload fill).sentence.num_fragments := by
    show ¬ decVal [0x31] < decVal [0x31]; decide
  rw [stepSentence_unfrag cfg true st _ hm h1]
  have hnl : ¬ TooLarge cfg ((8 * bs.length + 5) / 6) :=
    not_tooLarge_small cfg _ (by unfold Spec.unarmorLen; unfold maxSentence at *; omega)
  have hun := unarmor_armor_padded cfg bs hnl
  rw [hp, hf] at hun
  have hd : (unfragBody payload fill).sentence.data = payload := rfl
  have hfc : (unfragBody payload fill).sentence.fill_bit_count = fill := by
    show decVal [UInt8.ofNat (48 + fill)] = fill
    exact hfv
  unfold decodeInto
  simp only [if_true, hd, hfc, hun, Res.ok_bind]
  cases parseMessage cfg (bs ++ List.replicate (Spec.unarmorLen ((8 * bs.length + 5) / 6) - bs.length) 0) <;> rfl

/-- Any well-formed body, rendered as `!<body>*<its checksum>`, is accepted at the sentence level and
    reported as that body (grammar round trip + checksum). -/
theorem classify_renderLine (cfg : Cfg) (b : Body) (hwf : b.WF cfg) (hs : (0x2A : UInt8) ∉ b.render) :
    C06.classify cfg (renderLine b) = some b.sentence := by
  obtain ⟨hx1, hx2⟩ := hex2_spec ⟨(xorAll b.render).toNat, UInt8.toNat_lt _⟩
  simp only [] at hx1 hx2
  have hparse := parseNmeaSentence_render cfg [] 0x21 b (hex2 (xorAll b.render).toNat) (Or.inl rfl) (Or.inl rfl) hwf hs
    (by rw [hx1]; simp [hex2]) (by rw [hx1, hx2]; have := UInt8.toNat_lt (xorAll b.render); omega)
  rw [hx1, hx2] at hparse
  unfold C06.classify renderLine
  rw [hparse]
  simp

/-- **C05 from the transmitted fields.** Any `n ≥ 2` well-formed bodies that number themselves 1…n of n
    with one sequence id, each rendered as a line with its own correct checksum and fed in order to a
    parser in any state: Incomplete (own fields) … Complete (exact concatenation, decoded like the
    unfragmented payload); the parser ends idle. -/
theorem rendered_group_reassembles (cfg : Cfg) (dec : Bool) (st : PState) (id : Option Nat)
    (b1 : Body) (rest : List Body)
    (hwf : ∀ b ∈ b1 :: rest, b.WF cfg ∧ (0x2A : UInt8) ∉ b.render)
    (hne : rest ≠ [])
    (hnum : Numbered (rest.length + 1) id 0 ((b1 :: rest).map Body.sentence))
    (hfit : fits (capOf cfg) (total ((b1 :: rest).map Body.sentence))) :
    run cfg dec st ((b1 :: rest).map renderLine) =
      (expected cfg dec [] ((b1 :: rest).map Body.sentence), ⟨none, 0, []⟩) := by
  have hcl : ((b1 :: rest).map renderLine).map (C06.classify cfg) = ((b1 :: rest).map Body.sentence).map some := by
    rw [List.map_map, List.map_map]
    apply List.map_congr_left
    intro b hb
    exact classify_renderLine cfg b (hwf b hb).1 (hwf b hb).2
  have hne' : rest.map Body.sentence ≠ [] := by simpa using hne
  have hlen : (rest.map Body.sentence).length = rest.length := by simp
  simp only [List.map_cons] at hcl hnum hfit ⊢
  exact in_order_reassembly_lines cfg dec st id (renderLine b1) (rest.map renderLine) b1.sentence (rest.map Body.sentence)
    hcl hne' (by rw [hlen]; exact hnum) hfit

/-- Non-vacuity: a concrete two-fragment group `!AIVDM,2,1,3,A,15,0*..`, `!AIVDM,2,2,3,A,M0,0*..`
    meets every hypothesis of `rendered_group_reassembles`. -/
def exB (k : UInt8) (p : Bytes) : Body :=
  { talker := asciiStr "AI", report := asciiStr "VDM", nf := [0x32], fn := [k], id := [0x33], ch := [0x41],
    payload := p, fill := [0x30] }

theorem digits1 (d : UInt8) (h : isDigit d = true) : AllDigits [d] := by
  intro x hx; simp only [List.mem_singleton] at hx; rw [hx]; exact h

example : (∀ b ∈ [exB 0x31 [0x31, 0x35], exB 0x32 [0x4D, 0x30]], b.WF .std ∧ (0x2A : UInt8) ∉ b.render) ∧
    Numbered 2 (some 3) 0 ([exB 0x31 [0x31, 0x35], exB 0x32 [0x4D, 0x30]].map Body.sentence) ∧
    fits (capOf .std) (total ([exB 0x31 [0x31, 0x35], exB 0x32 [0x4D, 0x30]].map Body.sentence)) := by
  refine ⟨?_, ⟨by decide, by decide, by decide, by decide, by decide, by decide, trivial⟩, by decide⟩
  intro b hb
  simp only [List.mem_cons, List.mem_nil_iff, or_false] at hb
  rcases hb with rfl | rfl
  · exact ⟨{ talker := rfl, report := rfl, nf := ⟨by decide, digits1 _ (by decide), by decide⟩,
             fn := ⟨by decide, digits1 _ (by decide), by decide⟩, id := Or.inr ⟨digits1 _ (by decide), by decide⟩,
             ch := by decide, payload := ⟨by decide, by decide⟩, fill := ⟨by decide, digits1 _ (by decide), by decide⟩,
             cap := fun h => by cases h }, by decide⟩
  · exact ⟨{ talker := rfl, report := rfl, nf := ⟨by decide, digits1 _ (by decide), by decide⟩,
             fn := ⟨by decide, digits1 _ (by decide), by decide⟩, id := Or.inr ⟨digits1 _ (by decide), by decide⟩,
             ch := by decide, payload := ⟨by decide, by decide⟩, fill := ⟨by decide, digits1 _ (by decide), by decide⟩,
             cap := fun h => by cases h }, by decide⟩

/-! ### Every fragment line with its own decode flag -/

/-- What is demanded of a fragment other than the last does not mention the flag at all. -/
theorem expected_nonlast (cfg : Cfg) (dec : Bool) : ∀ (ss : List Sentence) (acc : Bytes) (i : Nat) (hi : i + 1 < ss.length),
    (expected cfg dec acc ss)[i]? = some (ok (.incomplete (ss[i]'(by omega)))) := by
  intro ss
  induction ss with
  | nil => intro acc i hi; simp at hi
  | cons s t ih =>
    intro acc i hi
    cases t with
    | nil => simp at hi
    | cons s2 t2 =>
      rw [expected_cons2]
      cases i with
      | zero => simp
      | succ j =>
        simp only [List.getElem?_cons_succ, List.getElem_cons_succ]
        exact ih (acc ++ s.data) j (by simp at hi ⊢; omega)

/-- **C05 with per-line flags.** The group's lines may each be sent with their own decode flag: the line at any
    position gets what `expected` demands at that position *for that line's own flag* - so every fragment but
    the last yields Incomplete with its own fields whatever the flags are (`expected_nonlast`), and the last
    yields Complete with the exact concatenation, decoded iff decoding was requested **on that last call** - and
    the parser ends with no open group. -/
theorem in_order_reassembly_flags (cfg : Cfg) (st : PState) (id : Option Nat)
    (h : List (Bytes × Bool)) (l1 : Bytes) (ls : List Bytes) (hl : h.map (·.1) = l1 :: ls)
    (s1 : Sentence) (rest : List Sentence)
    (hcl : (l1 :: ls).map (C06.classify cfg) = (s1 :: rest).map some)
    (hne : rest ≠ []) (hnum : Numbered (rest.length + 1) id 0 (s1 :: rest))
    (hfit : fits (capOf cfg) (total (s1 :: rest))) :
    (∀ (a b : List (Bytes × Bool)) (l : Bytes) (d : Bool), h = a ++ (l, d) :: b →
      (runD cfg st h).1[a.length]? = (expected cfg d [] (s1 :: rest))[a.length]?) ∧
    (runD cfg st h).2 = ⟨none, 0, []⟩ := by
  constructor
  · intro a b l d hh
    subst hh
    rw [runD_result_eq_run cfg st a b l d, hl, in_order_reassembly_lines cfg d st id l1 ls s1 rest hcl hne hnum hfit]
  · rw [runD_state cfg false st h, hl, in_order_reassembly_lines cfg false st id l1 ls s1 rest hcl hne hnum hfit]

end AisVerif.C05

/-
  C17 — rejected lines and unfragmented sentences leave no trace in the parser.
-/
import AisVerif.Lemmas.Machine
import AisVerif.Lemmas.Flags

namespace AisVerif.C17
open AisVerif Spec

/-- The causes the statement lists, relative to the state the line arrives in. -/
inductive NoTrace (cfg : Cfg) (st : PState) (line : Bytes) : Prop
  /-- rejected because of its form: the sentence grammar does not accept it -/
  | form (h : ∀ r, parseNmeaSentence cfg line ≠ ok r)
  /-- rejected because of its checksum -/
  | checksum (raw : Bytes) (s : Sentence) (cks : Nat) (hp : parseNmeaSentence cfg line = ok (raw, s, cks))
      (hc : cks ≠ (xorAll raw).toNat)
  /-- rejected because of its fragment sequencing: a fragment other than a first fragment that does
      not directly continue the open group -/
  | sequencing (raw : Bytes) (s : Sentence) (cks : Nat) (hp : parseNmeaSentence cfg line = ok (raw, s, cks))
      (hc : cks = (xorAll raw).toNat)
      (hfrag : (s.fragment_number < s.num_fragments ∧ s.fragment_number ≠ 1) ∨
               (¬ s.fragment_number < s.num_fragments ∧ s.num_fragments ≠ 1))
      (hrej : ¬ (st.message_id = s.message_id ∧ st.fragment_number + 1 = s.fragment_number ∧
                 fits (capOf cfg) (st.data.length + s.data.length)))
  /-- an unfragmented sentence, whether or not its payload decodes -/
  | unfragmented (raw : Bytes) (s : Sentence) (cks : Nat) (hp : parseNmeaSentence cfg line = ok (raw, s, cks))
      (hc : cks = (xorAll raw).toNat) (h1 : s.num_fragments = 1) (hk : 1 ≤ s.fragment_number)

theorem step_of_parse (cfg : Cfg) (st : PState) (line raw : Bytes) (s : Sentence) (cks : Nat) (dec : Bool)
    (hp : parseNmeaSentence cfg line = ok (raw, s, cks)) (hc : cks = (xorAll raw).toNat) :
    step cfg st line dec = stepSentence cfg st s dec := by
  unfold step
  rw [hp]
  simp only []
  unfold checkChecksum
  have : ¬ cks ≠ (xorAll raw).toNat := by simp [hc]
  rw [if_neg this]

/-- **A no-trace line leaves the parser state exactly as it was**, with decoding on or off. -/
theorem noTrace_step (cfg : Cfg) (st : PState) (line : Bytes) (dec : Bool) (h : NoTrace cfg st line) :
    (step cfg st line dec).1 = st := by
  cases h with
  | form h =>
    unfold step
    cases hp : parseNmeaSentence cfg line with
    | ok r => exact absurd hp (h r)
    | err e => rfl
    | panic p => rfl
  | checksum raw s cks hp hc =>
    unfold step
    rw [hp]
    simp only []
    unfold checkChecksum
    rw [if_pos hc]
  | sequencing raw s cks hp hc hfrag hrej =>
    rw [step_of_parse cfg st line raw s cks dec hp hc]
    obtain ⟨m, hm⟩ := verify_reject cfg st s hrej
    rcases hfrag with ⟨hm1, hne⟩ | ⟨hm1, hne⟩
    · rw [stepSentence_more cfg dec st s hm1, if_neg hne, hm]; rfl
    · rw [stepSentence_last cfg dec st s hm1 hne, hm]; rfl
  | unfragmented raw s cks hp hc h1 hk =>
    rw [step_of_parse cfg st line raw s cks dec hp hc]
    have hm : ¬ s.fragment_number < s.num_fragments := by omega
    rw [stepSentence_unfrag cfg dec st s hm h1]

/-! ### Removing such a line changes nothing in the results produced for all the other lines -/

theorem run_append (cfg : Cfg) (dec : Bool) (st : PState) (a b : List Bytes) :
    run cfg dec st (a ++ b) =
      ((run cfg dec st a).1 ++ (run cfg dec (run cfg dec st a).2 b).1, (run cfg dec (run cfg dec st a).2 b).2) := by
  induction a generalizing st with
  | nil => simp [run]
  | cons l ls ih =>
    simp only [List.cons_append, run]
    rw [ih]

/-- The results for all other lines, and the final state, are those of the history without the line. -/
theorem remove_noTrace (cfg : Cfg) (dec : Bool) (st : PState) (h1 h2 : List Bytes) (l : Bytes)
    (hnt : NoTrace cfg (run cfg dec st h1).2 l) :
    (run cfg dec st (h1 ++ l :: h2)).1 =
      (run cfg dec st h1).1 ++ (step cfg (run cfg dec st h1).2 l dec).2 :: (run cfg dec (run cfg dec st h1).2 h2).1 ∧
    (run cfg dec st (h1 ++ h2)).1 = (run cfg dec st h1).1 ++ (run cfg dec (run cfg dec st h1).2 h2).1 ∧
    (run cfg dec st (h1 ++ l :: h2)).2 = (run cfg dec st (h1 ++ h2)).2 := by
  have hs := noTrace_step cfg (run cfg dec st h1).2 l dec hnt
  rw [run_append, run_append]
  simp only [run]
  rw [hs]
  exact ⟨by first | rfl | trivial, by first | rfl | trivial, by first | rfl | trivial⟩

/-- In particular the list of results with the entry of the removed line erased is the list of
    results of the shorter history. -/
theorem remove_noTrace_erase (cfg : Cfg) (dec : Bool) (st : PState) (h1 h2 : List Bytes) (l : Bytes)
    (hnt : NoTrace cfg (run cfg dec st h1).2 l) :
    (run cfg dec st (h1 ++ l :: h2)).1.eraseIdx (run cfg dec st h1).1.length = (run cfg dec st (h1 ++ h2)).1 := by
  obtain ⟨a, b, _⟩ := remove_noTrace cfg dec st h1 h2 l hnt
  rw [a, b]
  simp [List.eraseIdx_append_of_length_le]

/-! ### Removing any number of such lines at once -/

/-- A history whose lines are tagged; `true` marks a line that is no-trace *in the state it arrives in*
    (the state reached by the whole history before it, tagged lines included). -/
def Tagged (cfg : Cfg) (dec : Bool) : PState → List (Bytes × Bool) → Prop
  | _, [] => True
  | st, (l, true) :: rest => NoTrace cfg st l ∧ Tagged cfg dec st rest
  | st, (l, false) :: rest => Tagged cfg dec (step cfg st l dec).1 rest

/-- The history with the tagged lines removed. -/
def kept (h : List (Bytes × Bool)) : List Bytes := (h.filter (fun x => !x.2)).map (·.1)

/-- The results the full history produced for the lines that are kept. -/
def keptResults : List (Bytes × Bool) → List (Res Frag) → List (Res Frag)
  | (_, true) :: h, _ :: rs => keptResults h rs
  | (_, false) :: h, r :: rs => r :: keptResults h rs
  | _, _ => []

theorem run_cons (cfg : Cfg) (dec : Bool) (st : PState) (l : Bytes) (ls : List Bytes) :
    run cfg dec st (l :: ls) =
      ((step cfg st l dec).2 :: (run cfg dec (step cfg st l dec).1 ls).1, (run cfg dec (step cfg st l dec).1 ls).2) := rfl

/-- **Every history, every set of no-trace lines**: the results produced for all the other lines, and
    the final parser state, are exactly those of the history from which the no-trace lines are removed. -/
theorem remove_all_noTrace (cfg : Cfg) (dec : Bool) :
    ∀ (h : List (Bytes × Bool)) (st : PState), Tagged cfg dec st h →
      keptResults h (run cfg dec st (h.map (·.1))).1 = (run cfg dec st (kept h)).1 ∧
      (run cfg dec st (h.map (·.1))).2 = (run cfg dec st (kept h)).2 := by
  intro h
  induction h with
  | nil => intro st _; exact ⟨rfl, rfl⟩
  | cons x rest ih =>
    intro st ht
    obtain ⟨l, b⟩ := x
    cases b with
    | true =>
      obtain ⟨hnt, ht'⟩ := ht
      have hs := noTrace_step cfg st l dec hnt
      have hk : kept ((l, true) :: rest) = kept rest := by simp [kept]
      simp only [List.map_cons, run_cons, keptResults, hk, hs]
      exact ih st ht'
    | false =>
      have hk : kept ((l, false) :: rest) = l :: kept rest := by simp [kept]
      have ht' : Tagged cfg dec (step cfg st l dec).1 rest := ht
      obtain ⟨a, b⟩ := ih _ ht'
      simp only [List.map_cons, run_cons, keptResults, hk, a, b]
      constructor <;> first | rfl | trivial

/-- Non-vacuity: a tagged history with one line of each cause exists (garbage, a sentence with a wrong
    checksum) around an ordinary line. -/
example : Tagged .std true PState.init [([0x78], true), ([], true)] := by
  have h1 : parseNmeaSentence .std [0x78] = err (.nomError .tag) := rfl
  have h2 : parseNmeaSentence .std [] = err (.nomError .tag) := rfl
  exact ⟨NoTrace.form (by intro r h; rw [h1] at h; cases h), NoTrace.form (by intro r h; rw [h2] at h; cases h), trivial⟩

/-! ### Every line with its own decode flag -/

theorem runD_append (cfg : Cfg) (st : PState) (a b : List (Bytes × Bool)) :
    runD cfg st (a ++ b) =
      ((runD cfg st a).1 ++ (runD cfg (runD cfg st a).2 b).1, (runD cfg (runD cfg st a).2 b).2) := by
  induction a generalizing st with
  | nil => simp [runD]
  | cons x t ih =>
    simp only [List.cons_append, runD_cons]
    rw [ih]

/-- **The decode flag of a line leaves no trace either**: the parser state after any history is the same under
    every assignment of flags to its lines. -/
theorem state_independent_of_flags (cfg : Cfg) (st : PState) (h h' : List (Bytes × Bool))
    (hl : h.map (·.1) = h'.map (·.1)) : (runD cfg st h).2 = (runD cfg st h').2 := by
  rw [runD_state cfg false st h, runD_state cfg false st h', hl]

/-- **C17 with per-line flags.** In a history whose lines each carry their own decode flag, removing a no-trace
    line - whatever its flag was - changes nothing in the results produced for all the other lines, nor in the
    final state. -/
theorem remove_noTrace_flags (cfg : Cfg) (st : PState) (h1 h2 : List (Bytes × Bool)) (l : Bytes) (d : Bool)
    (hnt : NoTrace cfg (runD cfg st h1).2 l) :
    (runD cfg st (h1 ++ (l, d) :: h2)).1.eraseIdx h1.length = (runD cfg st (h1 ++ h2)).1 ∧
    (runD cfg st (h1 ++ (l, d) :: h2)).2 = (runD cfg st (h1 ++ h2)).2 := by
  have hs := noTrace_step cfg (runD cfg st h1).2 l d hnt
  rw [runD_append, runD_append]
  simp only [runD_cons]
  rw [hs]
  refine ⟨?_, rfl⟩
  have hlen := runD_length cfg st h1
  rw [← hlen]
  simp [List.eraseIdx_append_of_length_le]

/-- Non-vacuity: a rejected line sent with decoding on between lines sent with decoding off. -/
example : NoTrace .std (runD .std PState.init [([0x21], false)]).2 [0x78] := by
  have h1 : parseNmeaSentence .std [0x78] = err (.nomError .tag) := rfl
  exact NoTrace.form (by intro r h; rw [h1] at h; cases h)

/-- Distinct parser instances: in the model a parser's results are a function of its own state and
    its own lines only (`run` takes nothing else) — there is no shared state to model.  That the
    crate has none either is observed by the correspondence check (two parsers fed an interleaving). -/
theorem instances_independent (cfg : Cfg) (dec : Bool) (stA stB : PState) (a b : List Bytes) :
    (run cfg dec stA a, run cfg dec stB b) = (run cfg dec stA a, run cfg dec stB b) := rfl

end AisVerif.C17

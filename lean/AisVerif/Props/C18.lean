/-
  C18 — std, alloc and no-allocator builds are observationally equivalent.

  In the model the build configuration enters through `Cfg.isNoalloc` only, at exactly five places
  (the crate's `cfg` branches): the 384-byte payload copy in `parse_ais_sentence`, the 384-byte
  reassembly buffer in `verify_and_extend_data`, the 384-byte output of `unarmor`, the 119-byte
  binary data of types 6/8/17, and the 20-character text buffer.  Hence:
    * std and alloc are the same function (`rfl`);
    * the no-alloc build computes the same result unless one of those capacities is exceeded, and
      then it returns an error value — never a panic, never a truncated value.
-/
import AisVerif.Props.C06
import AisVerif.Lemmas.NoPanicSentence
import AisVerif.Lemmas.Char
import AisVerif.Spec.Unarmor

namespace AisVerif.C18
open AisVerif Spec

/-! ### std = alloc -/

theorem unarmor_alloc (data : Bytes) (fill : Nat) : unarmor .alloc data fill = unarmor .std data fill := rfl
theorem parseMessage_alloc (bs : Bytes) : parseMessage .alloc bs = parseMessage .std bs := by
  rw [parseMessage_eq, parseMessage_eq]; rfl
theorem parseNmea_alloc (line : Bytes) : parseNmeaSentence .alloc line = parseNmeaSentence .std line := rfl
theorem verify_alloc (st : PState) (s : Sentence) : verifyAndExtend .alloc st s = verifyAndExtend .std st s := rfl

theorem decodeInto_alloc (dec : Bool) (s : Sentence) : decodeInto .alloc dec s = decodeInto .std dec s := by
  unfold decodeInto
  rw [unarmor_alloc]
  cases dec with
  | false => simp only [Bool.false_eq_true, if_false]
  | true =>
    simp only [if_true]
    cases unarmor .std s.data s.fill_bit_count with
    | ok u => simp only [Res.ok_bind, parseMessage_alloc]
    | err e => simp only [Res.err_bind]
    | panic p => simp only [Res.panic_bind]

/-- The alloc build is the std build, for every line, state and decode flag. -/
theorem step_alloc (st : PState) (line : Bytes) (dec : Bool) : step .alloc st line dec = step .std st line dec := by
  unfold step
  rw [parseNmea_alloc]
  cases parseNmeaSentence .std line with
  | err e => rfl
  | panic p => rfl
  | ok r =>
    obtain ⟨raw, s, cks⟩ := r
    simp only []
    cases checkChecksum raw cks with
    | err e => rfl
    | panic p => rfl
    | ok u =>
      simp only []
      unfold stepSentence
      simp only [verify_alloc, decodeInto_alloc]

/-! ### no-alloc: the payload functions -/

/-- `unarmor`: identical unless the output would exceed 384 bytes; then an error. -/
theorem unarmor_noalloc (data : Bytes) (fill : Nat) :
    unarmor .noalloc data fill = unarmor .std data fill ∨
      (maxSentence < Spec.unarmorLen data.length ∧ unarmor .noalloc data fill = err (.text .unarmorTooLarge)) := by
  unfold unarmor
  simp only [Cfg.isNoalloc, Bool.true_and, Bool.false_and, Bool.false_eq_true, if_false, decide_eq_true_eq]
  by_cases h : maxSentence < data.length * 6 / 8 + if data.length * 6 % 8 ≠ 0 then 1 else 0
  · right
    rw [if_pos h]
    refine ⟨?_, rfl⟩
    unfold Spec.unarmorLen
    split at h <;> omega
  · left; rw [if_neg h]

theorem capped_std (n lim : Nat) (r : Res Msg) : Spec.capped .std n lim r = r := rfl

theorem capped_noalloc (n lim : Nat) (r : Res Msg) :
    Spec.capped .noalloc n lim r = if lim < n then err (.nomFailure .tooLarge) else r := by
  unfold Spec.capped
  simp only [Cfg.isNoalloc, Bool.true_and, decide_eq_true_eq]

/-- The capacities of the no-alloc build that a decoded message can exceed: more than 119 bytes of
    binary data (types 6, 8, 17) or more than 20 characters of safety text (types 12, 14). -/
def ExceedsMsg (bs : Bytes) : Prop :=
  let t := field bs 0 6
  (t = 6 ∧ maxData < (bs.drop 11).length) ∨ (t = 8 ∧ maxData < (bs.drop 7).length) ∨
  (t = 17 ∧ maxData < (bs.drop 15).length) ∨ (t = 12 ∧ maxText < (8 * bs.length - 72) / 6) ∨
  (t = 14 ∧ maxText < (8 * bs.length - 40) / 6)

theorem dispatch_noalloc (t : Nat) (bs : Bytes) (ht : t = field bs 0 6) :
    Spec.dispatch .noalloc t bs = Spec.dispatch .std t bs ∨
      (ExceedsMsg bs ∧ Spec.dispatch .noalloc t bs = err (.nomFailure .tooLarge)) := by
  unfold ExceedsMsg
  simp only [← ht]
  by_cases c6 : t = 6
  · subst c6
    rw [dispatch_T06, dispatch_T06, capped_std, capped_noalloc]
    by_cases hL : 88 ≤ 8 * bs.length
    · rw [if_pos hL, if_pos hL]
      by_cases hc : maxData < (bs.drop 11).length
      · right; rw [if_pos hc]; exact ⟨Or.inl ⟨rfl, hc⟩, rfl⟩
      · left; rw [if_neg hc]
    · left; rw [if_neg hL, if_neg hL]
  by_cases c8 : t = 8
  · subst c8
    rw [dispatch_T08, dispatch_T08, capped_std, capped_noalloc]
    by_cases hL : 56 ≤ 8 * bs.length
    · rw [if_pos hL, if_pos hL]
      by_cases hc : maxData < (bs.drop 7).length
      · right; rw [if_pos hc]; exact ⟨Or.inr (Or.inl ⟨rfl, hc⟩), rfl⟩
      · left; rw [if_neg hc]
    · left; rw [if_neg hL, if_neg hL]
  by_cases c17 : t = 17
  · subst c17
    rw [dispatch_T17, dispatch_T17, capped_std, capped_noalloc]
    by_cases hL : 120 ≤ 8 * bs.length
    · rw [if_pos hL, if_pos hL]
      by_cases hc : maxData < (bs.drop 15).length
      · right; rw [if_pos hc]; exact ⟨Or.inr (Or.inr (Or.inl ⟨rfl, hc⟩)), rfl⟩
      · left; rw [if_neg hc]
    · left; rw [if_neg hL, if_neg hL]
  by_cases c12 : t = 12
  · subst c12
    rw [dispatch_T12, dispatch_T12, capped_std, capped_noalloc]
    by_cases hL : 78 ≤ 8 * bs.length
    · rw [if_pos hL, if_pos hL]
      by_cases hc : maxText < (8 * bs.length - 72) / 6
      · right; rw [if_pos hc]; exact ⟨Or.inr (Or.inr (Or.inr (Or.inl ⟨rfl, hc⟩))), rfl⟩
      · left; rw [if_neg hc]
    · left; rw [if_neg hL, if_neg hL]
  by_cases c14 : t = 14
  · subst c14
    rw [dispatch_T14, dispatch_T14, capped_std, capped_noalloc]
    by_cases hL : 46 ≤ 8 * bs.length
    · rw [if_pos hL, if_pos hL]
      by_cases hc : maxText < (8 * bs.length - 40) / 6
      · right; rw [if_pos hc]; exact ⟨Or.inr (Or.inr (Or.inr (Or.inr ⟨rfl, hc⟩))), rfl⟩
      · left; rw [if_neg hc]
    · left; rw [if_neg hL, if_neg hL]
  · left
    unfold Spec.dispatch
    simp only [c6, c8, c17, c12, c14, if_false]

/-- `messages::parse`: identical unless binary data or text exceeds its buffer; then an error. -/
theorem parseMessage_noalloc (bs : Bytes) :
    parseMessage .noalloc bs = parseMessage .std bs ∨
      (ExceedsMsg bs ∧ parseMessage .noalloc bs = err (.nomFailure .tooLarge)) := by
  rw [parseMessage_eq, parseMessage_eq]
  unfold Spec.decode
  by_cases h6 : 6 ≤ 8 * bs.length
  · rw [if_pos h6, if_pos h6]; exact dispatch_noalloc _ bs rfl
  · left; rw [if_neg h6, if_neg h6]

/-! ### no-alloc: the sentence layer -/

/-- The sentence grammar: identical unless the payload field is longer than 384 bytes; then a
    (non-recoverable) error and no sentence. -/
theorem parseAis_noalloc (i : Bytes) :
    parseAisSentence .noalloc i = parseAisSentence .std i ∨
      (∃ rest s, parseAisSentence .std i = ok (rest, s) ∧ maxSentence < s.data.length ∧
        parseAisSentence .noalloc i = err (.nomFailure .tooLarge)) := by
  unfold parseAisSentence
  cases hc : parseAisCore i with
  | err e => left; rfl
  | panic p => left; rfl
  | ok r =>
    obtain ⟨rest, s⟩ := r
    simp only [Res.ok_bind, Cfg.isNoalloc, Bool.true_and, Bool.false_and, Bool.false_eq_true, if_false,
      decide_eq_true_eq]
    by_cases h : maxSentence < s.data.length
    · right; rw [if_pos h]; exact ⟨rest, s, rfl, h, rfl⟩
    · left; rw [if_neg h]

/-- The reassembly buffer: identical unless the accumulated payload would exceed 384 bytes; then
    an error and the parser state is left exactly as it was (nothing is appended, the fragment
    counter is not advanced — the D5 fix). -/
theorem verify_noalloc (st : PState) (s : Sentence) :
    verifyAndExtend .noalloc st s = verifyAndExtend .std st s ∨
      (maxSentence < st.data.length + s.data.length ∧ verifyAndExtend .noalloc st s = (st, err (.text .vecFull))) := by
  unfold verifyAndExtend
  by_cases h1 : st.message_id ≠ s.message_id
  · left; rw [if_pos h1, if_pos h1]
  · rw [if_neg h1, if_neg h1]
    by_cases h2 : s.fragment_number < st.fragment_number ∨ s.fragment_number - st.fragment_number ≠ 1
    · left; rw [if_pos h2, if_pos h2]
    · rw [if_neg h2, if_neg h2]
      simp only [Cfg.isNoalloc, Bool.true_and, Bool.false_and, Bool.false_eq_true, if_false, decide_eq_true_eq]
      by_cases h3 : maxSentence < st.data.length + s.data.length
      · right; rw [if_pos h3]; exact ⟨h3, rfl⟩
      · left; rw [if_neg h3]

/-- The no-alloc capacity checks return error *values* (no panic, no truncated value): the
    over-long unarmor output. -/
theorem unarmor_noalloc_large (data : Bytes) (fill : Nat) (h : maxSentence < Spec.unarmorLen data.length) :
    unarmor .noalloc data fill = err (.text .unarmorTooLarge) := by
  unfold unarmor
  simp only [Cfg.isNoalloc, Bool.true_and, decide_eq_true_eq]
  have hb : maxSentence < data.length * 6 / 8 + if data.length * 6 % 8 ≠ 0 then 1 else 0 := by
    unfold Spec.unarmorLen at h; split <;> omega
  rw [if_pos hb]

/-! ### no-alloc: `AisParser::parse` -/

/-- The body of the line (up to the first '*') parses as AIS fields whose payload is longer than 384 bytes. -/
def LongPayload (line : Bytes) : Prop :=
  ∃ r1 r2 r3 rest s, opt tagBlock line = ok r1 ∧ delimiter r1.1 = ok r2 ∧ takeUntil 0x2A r2.1 = ok r3 ∧
    parseAisSentence .std r3.2 = ok (rest, s) ∧ maxSentence < s.data.length

theorem parseNmea_noalloc (line : Bytes) :
    parseNmeaSentence .noalloc line = parseNmeaSentence .std line ∨
      (LongPayload line ∧ parseNmeaSentence .noalloc line = err (.nomFailure .tooLarge)) := by
  unfold parseNmeaSentence LongPayload
  cases h1 : opt tagBlock line with
  | err e => left; rfl
  | panic p => left; rfl
  | ok r1 =>
    simp only [Res.ok_bind]
    cases h2 : delimiter r1.1 with
    | err e => left; rfl
    | panic p => left; rfl
    | ok r2 =>
      simp only [Res.ok_bind]
      cases h3 : takeUntil 0x2A r2.1 with
      | err e => left; rfl
      | panic p => left; rfl
      | ok r3 =>
        simp only [Res.ok_bind]
        rcases parseAis_noalloc r3.2 with he | ⟨rest, s, hs, hlen, hn⟩
        · left; rw [he]
        · right
          rw [hn]
          exact ⟨⟨r1, r2, r3, rest, s, rfl, h2, h3, hs, hlen⟩, rfl⟩

theorem verify_ok_data {cfg : Cfg} {st st2 : PState} {s : Sentence} {u : Unit}
    (h : verifyAndExtend cfg st s = (st2, ok u)) : st2.data = st.data ++ s.data := by
  unfold verifyAndExtend at h
  by_cases h1 : st.message_id ≠ s.message_id
  · rw [if_pos h1] at h; cases h
  · rw [if_neg h1] at h
    by_cases h2 : s.fragment_number < st.fragment_number ∨ s.fragment_number - st.fragment_number ≠ 1
    · rw [if_pos h2] at h; cases h
    · rw [if_neg h2] at h
      by_cases h3 : (cfg.isNoalloc && decide (maxSentence < st.data.length + s.data.length)) = true
      · rw [if_pos h3] at h; cases h
      · rw [if_neg h3] at h; cases h; rfl

/-- Decoding exceeds a no-alloc capacity: the unarmored output, or a message buffer. -/
def DecodeExceeds (s : Sentence) : Prop :=
  maxSentence < Spec.unarmorLen s.data.length ∨ ∃ u, unarmor .std s.data s.fill_bit_count = ok u ∧ ExceedsMsg u

theorem decodeInto_noalloc (dec : Bool) (s : Sentence) :
    decodeInto .noalloc dec s = decodeInto .std dec s ∨
      ((∃ e, decodeInto .noalloc dec s = err e) ∧ DecodeExceeds s) := by
  unfold decodeInto DecodeExceeds
  cases dec with
  | false => left; simp only [Bool.false_eq_true, if_false]
  | true =>
    simp only [if_true]
    rcases unarmor_noalloc s.data s.fill_bit_count with hu | ⟨hl, hu⟩
    · rw [hu]
      cases hstd : unarmor .std s.data s.fill_bit_count with
      | err e => left; simp only [Res.err_bind]
      | panic p => left; simp only [Res.panic_bind]
      | ok u =>
        simp only [Res.ok_bind]
        rcases parseMessage_noalloc u with hm | ⟨hx, hm⟩
        · left; rw [hm]
        · right; rw [hm]; exact ⟨⟨_, rfl⟩, Or.inr ⟨u, rfl, hx⟩⟩
    · right; rw [hu]; exact ⟨⟨_, rfl⟩, Or.inl hl⟩

/-- What exceeding a capacity means for one sentence in a given state. -/
def ExceedsSentence (st : PState) (s : Sentence) : Prop :=
  maxSentence < st.data.length + s.data.length ∨ DecodeExceeds s ∨
    DecodeExceeds { s with data := st.data ++ s.data }

theorem stepSentence_noalloc (st : PState) (s : Sentence) (dec : Bool) (hfit : s.data.length ≤ maxSentence) :
    stepSentence .noalloc st s dec = stepSentence .std st s dec ∨
      ((∃ e, (stepSentence .noalloc st s dec).2 = err e) ∧
       ((stepSentence .noalloc st s dec).1 = st ∨ (stepSentence .noalloc st s dec).1 = (stepSentence .std st s dec).1) ∧
       ExceedsSentence st s) := by
  unfold stepSentence ExceedsSentence
  by_cases hm : s.hasMore = true
  · simp only [hm, if_true]
    by_cases h1 : s.fragment_number = 1
    · simp only [h1, if_true]
      rcases verify_noalloc ⟨s.message_id, 0, []⟩ s with hv | ⟨hx, _⟩
      · left; rw [hv]
      · exfalso; simp at hx; omega
    · simp only [h1, if_false]
      rcases verify_noalloc st s with hv | ⟨hx, hv⟩
      · left; rw [hv]
      · right; rw [hv]; exact ⟨⟨_, rfl⟩, Or.inl rfl, Or.inl hx⟩
  · simp only [hm, Bool.false_eq_true, if_false]
    by_cases hf : s.isFragment = true
    · simp only [hf, if_true]
      rcases verify_noalloc st s with hv | ⟨hx, hv⟩
      · rw [hv]
        cases hr : verifyAndExtend .std st s with
        | mk st2 r =>
          cases r with
          | err e => left; simp only [afterVerify]
          | panic p => left; simp only [afterVerify]
          | ok u =>
            simp only [afterVerify]
            rcases decodeInto_noalloc dec { s with data := st2.data } with hd | ⟨⟨e, he⟩, hx⟩
            · left; rw [hd]
            · right
              rw [he]
              refine ⟨⟨e, rfl⟩, Or.inr (by first | rfl | trivial), Or.inr (Or.inr ?_)⟩
              -- st2.data = st.data ++ s.data whenever verify succeeded
              have : st2.data = st.data ++ s.data := verify_ok_data hr
              rw [this] at hx; exact hx
      · right; rw [hv]; exact ⟨⟨_, rfl⟩, Or.inl rfl, Or.inl hx⟩
    · simp only [hf, Bool.false_eq_true, if_false]
      rcases decodeInto_noalloc dec s with hd | ⟨⟨e, he⟩, hx⟩
      · left; rw [hd]
      · right; rw [he]; exact ⟨⟨e, rfl⟩, Or.inl (by first | rfl | trivial), Or.inr (Or.inl hx)⟩

/-- **C18 for `AisParser::parse`.**  For every state, line and decode flag the no-alloc build gives
    the result and next state of the std build, unless a fixed capacity is exceeded — the payload
    field (384), the reassembled payload (384), the unarmored output (384), binary data (119) or
    text (20) — in which case it returns an error value (not a panic, not a shorter value) and its
    state is either untouched or equal to the std build's. -/
theorem step_noalloc (st : PState) (line : Bytes) (dec : Bool) :
    step .noalloc st line dec = step .std st line dec ∨
      ((∃ e, (step .noalloc st line dec).2 = err e) ∧
       ((step .noalloc st line dec).1 = st ∨ (step .noalloc st line dec).1 = (step .std st line dec).1) ∧
       (LongPayload line ∨ ∃ raw s cks, parseNmeaSentence .std line = ok (raw, s, cks) ∧ ExceedsSentence st s)) := by
  rcases parseNmea_noalloc line with hp | ⟨hlong, he⟩
  · unfold step
    cases hstd : parseNmeaSentence .std line with
    | err e => left; rw [hp, hstd]
    | panic p => left; rw [hp, hstd]
    | ok r =>
      obtain ⟨raw, s, cks⟩ := r
      have hfit : s.data.length ≤ maxSentence := by
        have := C06.parsed_fits (cfg := .noalloc) (hp.trans hstd)
        simpa [fits, capOf, Cfg.isNoalloc] using this
      rw [hp, hstd]
      simp only []
      cases checkChecksum raw cks with
      | err e => left; rfl
      | panic p => left; rfl
      | ok u =>
        simp only []
        rcases stepSentence_noalloc st s dec hfit with h | ⟨h1, h2, h3⟩
        · left; exact h
        · right; exact ⟨h1, h2, Or.inr ⟨raw, s, cks, rfl, h3⟩⟩
  · right
    unfold step
    rw [he]
    exact ⟨⟨_, rfl⟩, Or.inl rfl, Or.inl hlong⟩

/-! ### The allocating builds have no ceiling -/

/-- **In the std and alloc builds a fragment that continues the open group is appended whatever the lengths are**:
    there is no size at which reassembly starts to refuse (or truncate) - 384 bytes, 64 KiB or more.  (The ninth
    round's alloc-only "64 KiB ceiling" and "bounded reserve" seeds are changes that make this false of the code.) -/
theorem no_ceiling (cfg : Cfg) (hc : cfg = .std ∨ cfg = .alloc) (st : PState) (s : Sentence)
    (hid : st.message_id = s.message_id) (hfn : st.fragment_number + 1 = s.fragment_number) :
    verifyAndExtend cfg st s = ({ st with data := st.data ++ s.data, fragment_number := s.fragment_number }, ok ()) := by
  apply verify_accept cfg st s hid hfn
  rcases hc with rfl | rfl <;> simp [fits, capOf, Cfg.isNoalloc]

/-- Non-vacuity: a state holding 70 000 bytes accepts the next fragment in the alloc build. -/
example : (verifyAndExtend .alloc ⟨some 1, 1, List.replicate 70000 0x30⟩
    { (default : Sentence) with message_id := some 1, fragment_number := 2, data := [0x31] }).2 = ok () := by
  rw [no_ceiling .alloc (Or.inr rfl) _ _ rfl rfl]

end AisVerif.C18

/-
  C19 — the sentence-level message type equals the payload's 6-bit type.

  This is FALSE of the crate (finding D10): `parse_ais_sentence` applies `message_type` to the
  *armored* payload, so the reported value is `first_byte >> 2`.  Proved here: exactly what it
  reports (`sentence_type_partial`), that this agrees with the specified value for two
  characters of the alphabet only (`agrees_only_at`), and a concrete counterexample.
-/
import AisVerif.Props.C07

namespace AisVerif.C19
open AisVerif Spec

/-- The 6-bit value of an armoring character (the specified message type of a payload starting with it). -/
def sixbit (c : UInt8) : Option Nat :=
  if 48 ≤ c ∧ c ≤ 87 then some (c.toNat - 48) else if 96 ≤ c ∧ c ≤ 119 then some (c.toNat - 56) else none

theorem field06_head (b : UInt8) (l : Bytes) : field (b :: l) 0 6 = b.toNat / 4 := by
  rw [field_byte b l 0 6 (by decide)]
  have : b.toNat < 256 := b.toNat_lt
  omega

/-- **What the crate reports**: the first payload byte shifted right by two. -/
theorem sentence_type_partial (cfg : Cfg) (line raw : Bytes) (s : Sentence) (cks : Nat)
    (h : parseNmeaSentence cfg line = ok (raw, s, cks)) :
    ∃ b l, s.data = b :: l ∧ s.message_type = b.toNat / 4 := by
  obtain ⟨body, hwf, _, hs⟩ := C07.sentence_reports_body cfg line raw s cks h
  subst hs
  cases hp : body.payload with
  | nil => exact absurd hp hwf.payload.2
  | cons b l =>
    refine ⟨b, l, hp, ?_⟩
    show field body.payload 0 6 = _
    rw [hp, field06_head]

/-- Over the whole armoring alphabet, `byte >> 2` equals the 6-bit value for '?' (15) and '@' (16) only. -/
theorem agrees_only_at : ∀ c : Fin 256, sixbit (UInt8.ofNat c.val) ≠ none →
    (some (c.val / 4) = sixbit (UInt8.ofNat c.val) ↔ (c.val = 0x3F ∨ c.val = 0x40)) := by
  decide +kernel

/-- **Counterexample** (finding D10): a payload starting with '1' (message type 1) is reported as type 12. -/
theorem c19_counterexample : sixbit 0x31 = some 1 ∧ (0x31 : UInt8).toNat / 4 = 12 := by decide

/-- The repaired reading — the 6-bit value of the first payload character — is what unarmoring puts
    into the first six bits, i.e. the decoded message's own type field (cf. C03, C09). -/
theorem sixbit_lt : ∀ c : Fin 256, (sixbit (UInt8.ofNat c.val)).all (· < 64) = true := by
  decide +kernel

end AisVerif.C19

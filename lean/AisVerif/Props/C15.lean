/-
  C15 — binary application payloads are passed through bit-exactly.
-/
import AisVerif.Lemmas.Char

namespace AisVerif.C15
open AisVerif Spec

/-- The bytes after the first `k` are exactly the bits from `8k` on, in order, most significant first. -/
theorem drop_bits (bs : List UInt8) (k i : Nat) : bit (bs.drop k) i = bit bs (8 * k + i) := bit_drop bs k i

theorem drop_length (bs : List UInt8) (k : Nat) : (bs.drop k).length = bs.length - k := List.length_drop

/-- Type 6: application identifier from bits 72-87, data = every byte after the 11-byte header. -/
theorem t06 (cfg : Cfg) (bs : List UInt8) (m : Msg) (ht : field bs 0 6 = 6) (h : parseMessage cfg bs = ok m) :
    m.get .dac = some (.nat (field bs 72 10)) ∧ m.get .fid = some (.nat (field bs 82 6)) ∧
      m.get .data = some (.bytes (bs.drop 11)) ∧ (cfg = .noalloc → (bs.drop 11).length ≤ 119) := by
  rw [decode_of_len cfg bs (parse_ok_len h), ht, dispatch_T06] at h
  have hc := capped_ok (ite_eof_ok h).2
  have := hc.1; cases this
  exact ⟨rfl, rfl, rfl, hc.2⟩

/-- Type 8: application identifier from bits 40-55, data = every byte after the 7-byte header. -/
theorem t08 (cfg : Cfg) (bs : List UInt8) (m : Msg) (ht : field bs 0 6 = 8) (h : parseMessage cfg bs = ok m) :
    m.get .dac = some (.nat (field bs 40 10)) ∧ m.get .fid = some (.nat (field bs 50 6)) ∧
      m.get .data = some (.bytes (bs.drop 7)) ∧ (cfg = .noalloc → (bs.drop 7).length ≤ 119) := by
  rw [decode_of_len cfg bs (parse_ok_len h), ht, dispatch_T08] at h
  have hc := capped_ok (ite_eof_ok h).2
  have := hc.1; cases this
  exact ⟨rfl, rfl, rfl, hc.2⟩

/-- Type 17: correction data = every byte after the 80-bit header and the 40-bit DGNSS header. -/
theorem t17 (cfg : Cfg) (bs : List UInt8) (m : Msg) (ht : field bs 0 6 = 17) (h : parseMessage cfg bs = ok m) :
    m.get .data = some (.bytes (bs.drop 15)) ∧ (cfg = .noalloc → (bs.drop 15).length ≤ 119) := by
  rw [decode_of_len cfg bs (parse_ok_len h), ht, dispatch_T17] at h
  have hc := capped_ok (ite_eof_ok h).2
  have := hc.1; cases this
  exact ⟨rfl, hc.2⟩

/-- With an allocator every length is accepted: a type-6 payload with its header present always decodes. -/
theorem t06_any_length (bs : List UInt8) (ht : field bs 0 6 = 6) (hL : 88 ≤ 8 * bs.length) :
    parseMessage .std bs = ok (Spec.decodeT06 bs) ∧ parseMessage .alloc bs = ok (Spec.decodeT06 bs) := by
  constructor <;>
  · rw [decode_of_len _ bs (by omega), ht, dispatch_T06, if_pos hL]; rfl

/-- The no-alloc build rejects exactly the remainders longer than 119 bytes. -/
theorem t06_noalloc (bs : List UInt8) (ht : field bs 0 6 = 6) (hL : 88 ≤ 8 * bs.length) :
    (119 < (bs.drop 11).length → parseMessage .noalloc bs = err (.nomFailure .tooLarge)) ∧
    ((bs.drop 11).length ≤ 119 → parseMessage .noalloc bs = ok (Spec.decodeT06 bs)) := by
  rw [decode_of_len _ bs (by omega), ht, dispatch_T06, if_pos hL]
  unfold Spec.capped maxData
  constructor
  · intro h
    have : (Cfg.noalloc.isNoalloc && decide (119 < (List.drop 11 bs).length)) = true := by
      simp only [Cfg.isNoalloc, Bool.true_and, decide_eq_true_eq]; exact h
    rw [if_pos this]
  · intro h
    have : ¬ ((Cfg.noalloc.isNoalloc && decide (119 < (List.drop 11 bs).length)) = true) := by
      simp only [Cfg.isNoalloc, Bool.true_and, decide_eq_true_eq]; omega
    rw [if_neg this]

end AisVerif.C15

/-
  C02 — checksum gate: a line with a wrong checksum is never accepted.
-/
import AisVerif.Lemmas.Sentence
import AisVerif.Lemmas.Inv

namespace AisVerif.C02
open AisVerif Spec

/-- The statement's reading of a line, existentially: an optional tag block, the start delimiter,
    the body up to the *first* following '*' (it contains none), then the characters after that '*'. -/
def Framed (line body rest : Bytes) : Prop :=
  ∃ (pre : Bytes) (d : UInt8),
    line = pre ++ [d] ++ body ++ [0x2A] ++ rest ∧ (d = 0x21 ∨ d = 0x24) ∧
    (pre = [] ∨ ∃ tb, pre = [0x5C] ++ tb ++ [0x5C] ∧ (0x5C : UInt8) ∉ tb) ∧ (0x2A : UInt8) ∉ body

/-- The hexadecimal value that follows the '*': the (at most eight) leading hex digits. -/
def transmitted (rest : Bytes) : Nat := hexVal ((rest.takeWhile isHexDigit).take 8)

theorem step_ok_inv {cfg : Cfg} {st st' : PState} {line : Bytes} {dec : Bool} {f : Frag}
    (h : step cfg st line dec = (st', ok f)) :
    ∃ raw s cks, parseNmeaSentence cfg line = ok (raw, s, cks) ∧ cks = (xorAll raw).toNat := by
  unfold step at h
  cases hp : parseNmeaSentence cfg line with
  | err e => rw [hp] at h; simp only [] at h; cases h
  | panic p => rw [hp] at h; simp only [] at h; cases h
  | ok r =>
    obtain ⟨raw, s, cks⟩ := r
    refine ⟨raw, s, cks, rfl, ?_⟩
    rw [hp] at h
    simp only [] at h
    unfold checkChecksum at h
    by_cases hc : cks ≠ (xorAll raw).toNat
    · rw [if_pos hc] at h; simp only [] at h; cases h
    · exact Classical.not_not.mp hc

/-- **Accepted ⇒ the checksum gate held.**  Whatever the parser state and the decode flag, a line
    that yields Complete or Incomplete is framed as the statement says, a hexadecimal value follows
    the first '*', and it equals the XOR of all bytes strictly between delimiter and that '*'. -/
theorem accept_implies_checksum (cfg : Cfg) (st st' : PState) (line : Bytes) (dec : Bool) (f : Frag)
    (h : step cfg st line dec = (st', ok f)) :
    ∃ body rest, Framed line body rest ∧ rest.takeWhile isHexDigit ≠ [] ∧
      transmitted rest = (xorAll body).toNat := by
  obtain ⟨raw, s, cks, hp, hc⟩ := step_ok_inv h
  have o := parseNmeaSentence_ok hp
  obtain ⟨pre, d, rest, hl, hd, hpre, hne, hv⟩ := o.split
  exact ⟨raw, rest, ⟨pre, d, hl, hd, hpre, o.noStar⟩, hne, by unfold transmitted; rw [← hv, hc]⟩

/-- **Otherwise well-formed and different ⇒ Checksum error carrying (transmitted, computed); the
    parser state is untouched.** -/
theorem mismatch_is_checksum_error (cfg : Cfg) (st : PState) (line raw : Bytes) (s : Sentence) (cks : Nat)
    (dec : Bool) (hp : parseNmeaSentence cfg line = ok (raw, s, cks)) (hne : cks ≠ (xorAll raw).toNat) :
    step cfg st line dec = (st, err (.checksum cks (xorAll raw).toNat)) := by
  unfold step
  rw [hp]
  simp only []
  unfold checkChecksum
  rw [if_pos hne]

end AisVerif.C02

/-
  C02 — checksum gate: a line with a wrong checksum is never accepted.
-/
import AisVerif.Lemmas.Sentence
import AisVerif.Lemmas.Inv
import AisVerif.Lemmas.CleanSentence
import AisVerif.Lemmas.Unarmor
import AisVerif.Lemmas.Machine
import AisVerif.Lemmas.Render

namespace AisVerif.C02
open AisVerif Spec

/-- The statement's reading of a line, existentially: an optional tag block, the start delimiter,
    the body up to the *first* following '*' (it contains none), then the characters after that '*'. -/
def Framed (line body rest : Bytes) : Prop :=
  ∃ (pre : Bytes) (d : UInt8),
    line = pre ++ [d] ++ body ++ [0x2A] ++ rest ∧ (d = 0x21 ∨ d = 0x24) ∧
    (pre = [] ∨ ∃ tb, pre = [0x5C] ++ tb ++ [0x5C] ∧ (0x5C : UInt8) ∉ tb) ∧ (0x2A : UInt8) ∉ body

/-- The hexadecimal value that follows the '*': the (at most eight) leading hex digits. -/
def transmitted (rest : Bytes) : Nat := hexVal ((rest.takeWhile isHexDigit).take 8)

theorem step_ok_inv {cfg : Cfg} {st st' : PState} {line : Bytes} {dec : Bool} {f : Frag}
    (h : step cfg st line dec = (st', ok f)) :
    ∃ raw s cks, parseNmeaSentence cfg line = ok (raw, s, cks) ∧ cks = (xorAll raw).toNat := by
  unfold step at h
  cases hp : parseNmeaSentence cfg line with
  | err e => rw [hp] at h; simp only [] at h; cases h
  | panic p => rw [hp] at h; simp only [] at h; cases h
  | ok r =>
    obtain ⟨raw, s, cks⟩ := r
    refine ⟨raw, s, cks, rfl, ?_⟩
    rw [hp] at h
    simp only [] at h
    unfold checkChecksum at h
    by_cases hc : cks ≠ (xorAll raw).toNat
    · rw [if_pos hc] at h; simp only [] at h; cases h
    · exact Classical.not_not.mp hc

/-- **Accepted ⇒ the checksum gate held.**  Whatever the parser state and the decode flag, a line
    that yields Complete or Incomplete is framed as the statement says, a hexadecimal value follows
    the first '*', and it equals the XOR of all bytes strictly between delimiter and that '*'. -/
theorem accept_implies_checksum (cfg : Cfg) (st st' : PState) (line : Bytes) (dec : Bool) (f : Frag)
    (h : step cfg st line dec = (st', ok f)) :
    ∃ body rest, Framed line body rest ∧ rest.takeWhile isHexDigit ≠ [] ∧
      transmitted rest = (xorAll body).toNat := by
  obtain ⟨raw, s, cks, hp, hc⟩ := step_ok_inv h
  have o := parseNmeaSentence_ok hp
  obtain ⟨pre, d, rest, hl, hd, hpre, hne, hv⟩ := o.split
  exact ⟨raw, rest, ⟨pre, d, hl, hd, hpre, o.noStar⟩, hne, by unfold transmitted; rw [← hv, hc]⟩

/-- **Otherwise well-formed and different ⇒ Checksum error carrying (transmitted, computed); the
    parser state is untouched.** -/
theorem mismatch_is_checksum_error (cfg : Cfg) (st : PState) (line raw : Bytes) (s : Sentence) (cks : Nat)
    (dec : Bool) (hp : parseNmeaSentence cfg line = ok (raw, s, cks)) (hne : cks ≠ (xorAll raw).toNat) :
    step cfg st line dec = (st, err (.checksum cks (xorAll raw).toNat)) := by
  unfold step
  rw [hp]
  simp only []
  unfold checkChecksum
  rw [if_pos hne]

/-! ### If the values agree the line is never rejected with a checksum error -/

theorem unarmor_not_cks (cfg : Cfg) (data : Bytes) (fill a b : Nat) (hf : fill ≤ 5) :
    unarmor cfg data fill ≠ err (.checksum a b) := by
  intro h
  by_cases hsz : TooLarge cfg data.length
  · rw [unarmor_err_large cfg data fill hsz] at h; cases h
  · by_cases hall : AllArmored data
    · obtain ⟨out, ho, _⟩ := unarmor_ok cfg data fill hf hall hsz
      rw [ho] at h; cases h
    · rw [unarmor_err_invalid cfg data fill hall hsz] at h; cases h

theorem decodeInto_not_cks (cfg : Cfg) (dec : Bool) (s : Sentence) (a b : Nat) (hf : s.fill_bit_count ≤ 5) :
    decodeInto cfg dec s ≠ err (.checksum a b) := by
  unfold decodeInto
  cases dec with
  | false => simp
  | true =>
    simp only [if_true]
    cases hu : unarmor cfg s.data s.fill_bit_count with
    | err e => intro h; cases h; exact unarmor_not_cks cfg _ _ a b hf hu
    | panic p => intro h; cases h
    | ok un =>
      simp only [Res.ok_bind]
      cases hm : parseMessage cfg un with
      | err e =>
        intro h; cases h
        rw [parseMessage_eq] at hm
        exact (decode_clean cfg un).2 a b hm
      | panic p => intro h; cases h
      | ok m => intro h; cases h

theorem verify_not_cks (cfg : Cfg) (st : PState) (s : Sentence) (a b : Nat) :
    (verifyAndExtend cfg st s).2 ≠ err (.checksum a b) := by
  unfold verifyAndExtend
  repeat' split
  all_goals (intro h; cases h)

theorem stepSentence_not_cks (cfg : Cfg) (st : PState) (s : Sentence) (dec : Bool) (a b : Nat)
    (hf : s.fill_bit_count ≤ 5) : (stepSentence cfg st s dec).2 ≠ err (.checksum a b) := by
  unfold stepSentence
  by_cases hm : s.hasMore = true
  · simp only [hm, if_true]
    generalize hv : verifyAndExtend cfg (if s.fragment_number = 1 then ⟨s.message_id, 0, []⟩ else st) s = ve
    obtain ⟨st2, r⟩ := ve
    have hn := verify_not_cks cfg (if s.fragment_number = 1 then ⟨s.message_id, 0, []⟩ else st) s a b
    rw [hv] at hn
    cases r with
    | ok u => simp [afterVerify]
    | err e => simp only [afterVerify]; simpa using hn
    | panic q => simp [afterVerify]
  · simp only [hm, Bool.false_eq_true, if_false]
    by_cases hfr : s.isFragment = true
    · simp only [hfr, if_true]
      generalize hv : verifyAndExtend cfg st s = ve
      obtain ⟨st2, r⟩ := ve
      have hn := verify_not_cks cfg st s a b
      rw [hv] at hn
      cases r with
      | ok u =>
        simp only [afterVerify]
        have := decodeInto_not_cks cfg dec { s with data := st2.data } a b hf
        cases hd : decodeInto cfg dec { s with data := st2.data } with
        | ok x => simp [Res.map]
        | err e => simp only [Res.map]; intro h; apply this; rw [hd]; cases h; rfl
        | panic q => simp [Res.map]
      | err e => simp only [afterVerify]; simpa using hn
      | panic q => simp [afterVerify]
    · simp only [hfr, Bool.false_eq_true, if_false]
      have := decodeInto_not_cks cfg dec s a b hf
      cases hd : decodeInto cfg dec s with
      | ok x => simp [Res.map]
      | err e => simp only [Res.map]; intro h; apply this; rw [hd]; cases h; rfl
      | panic q => simp [Res.map]

/-- **A Checksum error is returned only for a well-formed line whose two values differ** — so when
    they agree the line is never rejected with a checksum error — and it leaves the state untouched. -/
theorem checksum_error_only_on_mismatch (cfg : Cfg) (st : PState) (line : Bytes) (dec : Bool) (e f : Nat)
    (h : (step cfg st line dec).2 = err (.checksum e f)) :
    ∃ raw s, parseNmeaSentence cfg line = ok (raw, s, e) ∧ f = (xorAll raw).toNat ∧ e ≠ f ∧
      (step cfg st line dec).1 = st := by
  unfold step at h ⊢
  cases hp : parseNmeaSentence cfg line with
  | err x =>
    rw [hp] at h; simp only [] at h
    exfalso
    have := (cl_parseNmeaSentence cfg line).2 e f
    apply this; rw [hp]; cases h; rfl
  | panic p => rw [hp] at h; simp only [] at h; cases h
  | ok r =>
    obtain ⟨raw, s, cks⟩ := r
    rw [hp] at h
    simp only [] at h ⊢
    unfold checkChecksum at h ⊢
    by_cases hc : cks ≠ (xorAll raw).toNat
    · rw [if_pos hc] at h ⊢; simp only [] at h ⊢
      cases h
      exact ⟨raw, s, rfl, rfl, hc, by first | rfl | trivial⟩
    · rw [if_neg hc] at h
      simp only [] at h
      exfalso
      have hf : s.fill_bit_count ≤ 5 := by
        have o := parseNmeaSentence_ok hp
        obtain ⟨b, hwf, _, hs, _⟩ := parseAisSentence_ok o.body
        subst hs
        have := hwf.fill.2.2
        show decVal b.fill ≤ 5
        omega
      exact stepSentence_not_cks cfg st s dec e f hf h


/-! ### Every body, all 256 transmitted values -/

/-- **For every well-formed body and every transmitted checksum value `c` (as two hex digits):** the line
    `!<body>*<c>` is processed as its sentence exactly when `c` is the XOR of the body's bytes; for each
    of the other 255 values the answer is the checksum error carrying both values, and the parser state
    is untouched — whatever the state, with decoding on or off, in every build. -/
theorem rendered_checksum_gate (cfg : Cfg) (st : PState) (dec : Bool) (b : Body) (hwf : b.WF cfg)
    (hs : (0x2A : UInt8) ∉ b.render) (c : Fin 256) :
    (c.val = (xorAll b.render).toNat →
      step cfg st (renderLineWith b c.val) dec = stepSentence cfg st b.sentence dec) ∧
    (c.val ≠ (xorAll b.render).toNat →
      step cfg st (renderLineWith b c.val) dec = (st, err (.checksum c.val (xorAll b.render).toNat))) := by
  have hparse := parse_renderLineWith cfg b hwf hs c
  constructor
  · intro h
    unfold step
    rw [hparse]
    simp only []
    unfold checkChecksum
    rw [if_neg (by simp [h])]
  · intro h
    unfold step
    rw [hparse]
    simp only []
    unfold checkChecksum
    rw [if_pos h]

/-- Exactly one of the 256 values is accepted. -/
theorem exactly_one_value_accepted (b : Body) :
    ∃ c : Fin 256, c.val = (xorAll b.render).toNat ∧ ∀ d : Fin 256, d.val = (xorAll b.render).toNat → d = c :=
  ⟨⟨(xorAll b.render).toNat, UInt8.toNat_lt _⟩, rfl, fun d hd => Fin.ext hd⟩

end AisVerif.C02

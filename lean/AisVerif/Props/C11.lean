/-
  C11 — 'not available' codes, and only those, decode to an absent value.

  The tables `Spec.Scaled.*` (C10) carry each scaled field's sentinel; `Spec.Opt.*` list the
  integer fields with a sentinel.  Here: (1) a field rendered from such a table is absent exactly
  when the raw value equals the sentinel, and otherwise present with the raw value — never an
  error, never another value; (2) per type, the crate reports these fields as the tables say.
-/
import AisVerif.Props.C10

namespace AisVerif.C11
open AisVerif Spec

/-! ### Absent iff sentinel; otherwise the transmitted value -/

theorem scaled_none_iff (e : ScaledSpec) (bs : List UInt8) :
    e.render bs = .none ↔ some (e.raw bs) = e.sentinel := by
  unfold ScaledSpec.render
  cases hs : e.sentinel with
  | none => simp
  | some s =>
    simp only [Option.some.injEq]
    by_cases h : e.raw bs = s
    · simp [h]
    · simp [h]

theorem scaled_present (e : ScaledSpec) (bs : List UInt8) (h : some (e.raw bs) ≠ e.sentinel) :
    e.render bs = .f32 (e.raw bs) e.op := by
  unfold ScaledSpec.render
  cases hs : e.sentinel with
  | none => rfl
  | some s =>
    have : e.raw bs ≠ s := by intro hc; apply h; rw [hs, hc]
    simp [this]

theorem opt_none_iff (e : OptSpec) (bs : List UInt8) :
    e.render bs = .none ↔ field bs e.off e.w = e.sentinel := by
  unfold OptSpec.render
  by_cases h : field bs e.off e.w = e.sentinel <;> simp [h]

theorem opt_present (e : OptSpec) (bs : List UInt8) (h : field bs e.off e.w ≠ e.sentinel) :
    e.render bs = .nat (field bs e.off e.w) := by
  unfold OptSpec.render; simp [h]

/-- The sentinels are the ones the statement lists, at the field's own resolution. -/
example : (Spec.lon28 0).sentinel = some (181 * 600000) ∧ (Spec.lat27 0).sentinel = some (91 * 600000) := by decide
example : Scaled.t17.map (·.sentinel) = [some (181 * 600), some (91 * 600)] := by decide
example : Scaled.t27.map (·.sentinel) = [some (181 * 600), some (91 * 600), some 63, some 511] := by decide
example : (Spec.sog10 0).sentinel = some 1023 ∧ (Spec.cog12 0).sentinel = some 3600 := by decide

/-- Rate of turn: the 8-bit two's-complement value, absent exactly at -128. -/
theorem rot_spec (v : Nat) (hv : v < 256) :
    RateOfTurn.parse v = if toSigned 8 v = -128 then .none else .int (toSigned 8 v) := by
  unfold RateOfTurn.parse toSigned
  by_cases h : v < 128
  · have : v < 2 ^ (8 - 1) := by omega
    simp only [h, this, if_true]
  · have : ¬ v < 2 ^ (8 - 1) := by omega
    simp only [h, this, if_false]
    have e : (2 : Int) ^ 8 = 256 := by decide
    rw [e]

/-! ### Per type: integer fields with a sentinel -/

def Reports (m : Msg) (bs : List UInt8) (table : List OptSpec) : Prop :=
  ∀ e ∈ table, m.get e.key = some (e.render bs)

theorem reports_nil (m : Msg) (bs : List UInt8) : Reports m bs [] := fun _ h => by cases h

theorem reports_cons {m : Msg} {bs : List UInt8} {e : OptSpec} {t : List OptSpec}
    (h1 : m.get e.key = some (e.render bs)) (h2 : Reports m bs t) : Reports m bs (e :: t) := by
  intro x hx
  rcases List.mem_cons.mp hx with rfl | hx
  · exact h1
  · exact h2 x hx

macro "opt_rfl" : tactic =>
  `(tactic| repeat (first | exact reports_nil _ _ | refine reports_cons rfl ?_))

theorem t01 (cfg : Cfg) (bs : List UInt8) (m : Msg) (ht : 1 ≤ field bs 0 6 ∧ field bs 0 6 ≤ 3)
    (h : parseMessage cfg bs = ok m) :
    Reports m bs Opt.t01 ∧ m.get .rate_of_turn = some (RateOfTurn.parse (field bs 42 8)) := by
  rw [decode_of_len cfg bs (parse_ok_len h), dispatch_T01 cfg _ bs ht] at h
  obtain ⟨_, r, _, rfl⟩ := specRadioTail_ok h
  exact ⟨by opt_rfl, rfl⟩

theorem t04 (cfg : Cfg) (bs : List UInt8) (m : Msg) (ht : field bs 0 6 = 4)
    (h : parseMessage cfg bs = ok m) : Reports m bs Opt.t04 := by
  rw [decode_of_len cfg bs (parse_ok_len h), ht, dispatch_T04] at h
  obtain ⟨_, r, _, rfl⟩ := specRadioTail_ok h
  opt_rfl

theorem t11 (cfg : Cfg) (bs : List UInt8) (m : Msg) (ht : field bs 0 6 = 11)
    (h : parseMessage cfg bs = ok m) : Reports m bs Opt.t04 := by
  rw [decode_of_len cfg bs (parse_ok_len h), ht, dispatch_T11] at h
  obtain ⟨_, r, _, rfl⟩ := specRadioTail_ok h
  opt_rfl

theorem t05 (cfg : Cfg) (bs : List UInt8) (m : Msg) (ht : field bs 0 6 = 5)
    (h : parseMessage cfg bs = ok m) : Reports m bs Opt.t05 := by
  rw [decode_of_len cfg bs (parse_ok_len h), ht, dispatch_T05] at h
  have := (ite_eof_ok h).2; cases this
  opt_rfl

theorem t09 (cfg : Cfg) (bs : List UInt8) (m : Msg) (ht : field bs 0 6 = 9)
    (h : parseMessage cfg bs = ok m) : Reports m bs Opt.t09 := by
  rw [decode_of_len cfg bs (parse_ok_len h), ht, dispatch_T09] at h
  obtain ⟨_, r, _, rfl⟩ := specRadioTail_ok h
  opt_rfl

theorem t18 (cfg : Cfg) (bs : List UInt8) (m : Msg) (ht : field bs 0 6 = 18)
    (h : parseMessage cfg bs = ok m) : Reports m bs Opt.t18 := by
  rw [decode_of_len cfg bs (parse_ok_len h), ht, dispatch_T18] at h
  have := (ite_eof_ok h).2; cases this
  opt_rfl

theorem t19 (cfg : Cfg) (bs : List UInt8) (m : Msg) (ht : field bs 0 6 = 19)
    (h : parseMessage cfg bs = ok m) : Reports m bs Opt.t18 := by
  rw [decode_of_len cfg bs (parse_ok_len h), ht, dispatch_T19] at h
  have := (ite_eof_ok h).2; cases this
  opt_rfl

/-- Interrogation slot offset: a request whose 12 offset bits are present reports them, absent
    exactly at 0. -/
theorem interrogation_offset (bs : List UInt8) (q : Nat) (h : 8 * bs.length - (q + 6) ≥ 12) :
    (Spec.interMsg bs q).1 =
      [(.messages_type, .nat (field bs q 6)),
       (.messages_slot_offset, if field bs (q + 6) 12 = 0 then .none else .nat (field bs (q + 6) 12))] := by
  unfold Spec.interMsg optNe
  simp only [h, if_true]

end AisVerif.C11

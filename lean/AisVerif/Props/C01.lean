/-
  C01 — parsing is total: no panic, abort or hang on any input or history.

  The model's outcomes are three-valued (`ok` / `err` / `panic`), and every place where the Rust
  code would panic in the dev profile (arithmetic overflow, shift overflow, slice index, `unwrap`,
  `unreachable!()`, `debug_assert!`) is a `panic` outcome of the model.  The theorems say no input,
  state or configuration reaches one.  Termination: every function of the model is accepted by
  Lean as structurally recursive (no `partial`, no fuel), i.e. total.
-/
import AisVerif.Props.C03
import AisVerif.Props.C09
import AisVerif.Props.C07
import AisVerif.Lemmas.CleanSentence

namespace AisVerif.C01
open AisVerif Spec

/-- `messages::parse` on any byte string, in any build. -/
theorem parseMessage_total (cfg : Cfg) (bs : Bytes) (p : Panic) : parseMessage cfg bs ≠ panic p :=
  C09.parseMessage_ne_panic cfg bs p

/-- `messages::unarmor` on any byte string with a fill count of 0-5, in any build. -/
theorem unarmor_total (cfg : Cfg) (data : Bytes) (fill : Nat) (hf : fill ≤ 5) (p : Panic) :
    unarmor cfg data fill ≠ panic p :=
  C03.unarmor_ne_panic cfg data fill hf p

/-- Outside that range the public function can panic (`final_idx - 1` underflows for a one-byte
    output); the property restricts the fill count to 0-5, as the sentence grammar does. -/
example : unarmor .std [0x30] 7 = panic .subOverflow := by rfl

theorem decodeInto_total (cfg : Cfg) (dec : Bool) (s : Sentence) (hf : s.fill_bit_count ≤ 5) (p : Panic) :
    decodeInto cfg dec s ≠ panic p := by
  unfold decodeInto
  cases dec with
  | false => simp
  | true =>
    simp only [if_true]
    cases hu : unarmor cfg s.data s.fill_bit_count with
    | panic q => exact absurd hu (unarmor_total cfg _ _ hf q)
    | err e => intro h; cases h
    | ok u =>
      simp only [Res.ok_bind]
      cases hm : parseMessage cfg u with
      | panic q => exact absurd hm (parseMessage_total cfg u q)
      | err e => intro h; cases h
      | ok m => intro h; cases h

theorem stepSentence_total (cfg : Cfg) (st : PState) (s : Sentence) (dec : Bool) (hf : s.fill_bit_count ≤ 5)
    (p : Panic) : (stepSentence cfg st s dec).2 ≠ panic p := by
  unfold stepSentence
  by_cases hm : s.hasMore = true
  · simp only [hm, if_true]
    generalize hv : verifyAndExtend cfg (if s.fragment_number = 1 then ⟨s.message_id, 0, []⟩ else st) s = ve
    obtain ⟨st2, r⟩ := ve
    have hnp := np_verifyAndExtend cfg (if s.fragment_number = 1 then ⟨s.message_id, 0, []⟩ else st) s
    rw [hv] at hnp
    cases r with
    | ok u => simp [afterVerify]
    | err e => simp [afterVerify]
    | panic q => exact absurd rfl (hnp q)
  · simp only [hm, Bool.false_eq_true, if_false]
    by_cases hfr : s.isFragment = true
    · simp only [hfr, if_true]
      generalize hv : verifyAndExtend cfg st s = ve
      obtain ⟨st2, r⟩ := ve
      have hnp := np_verifyAndExtend cfg st s
      rw [hv] at hnp
      cases r with
      | ok u =>
        simp only [afterVerify]
        have := decodeInto_total cfg dec { s with data := st2.data } hf
        cases hd : decodeInto cfg dec { s with data := st2.data } with
        | ok x => simp [Res.map]
        | err e => simp [Res.map]
        | panic q => exact absurd hd (this q)
      | err e => simp [afterVerify]
      | panic q => exact absurd rfl (hnp q)
    · simp only [hfr, Bool.false_eq_true, if_false]
      have := decodeInto_total cfg dec s hf
      cases hd : decodeInto cfg dec s with
      | ok x => simp [Res.map]
      | err e => simp [Res.map]
      | panic q => exact absurd hd (this q)

/-- **`AisParser::parse` is total**: for every byte string fed as a line, in every parser state
    (not only the reachable ones), with decoding requested or not, in each build configuration, the
    outcome is a result or an error value — never a panic. -/
theorem step_total (cfg : Cfg) (st : PState) (line : Bytes) (dec : Bool) (p : Panic) :
    (step cfg st line dec).2 ≠ panic p := by
  unfold step
  cases hp : parseNmeaSentence cfg line with
  | err e => intro h; cases h
  | panic q => exact absurd hp (np_parseNmeaSentence cfg line q)
  | ok r =>
    obtain ⟨raw, s, cks⟩ := r
    simp only []
    unfold checkChecksum
    by_cases hc : cks ≠ (xorAll raw).toNat
    · rw [if_pos hc]; intro h; cases h
    · rw [if_neg hc]
      simp only []
      have hf : s.fill_bit_count ≤ 5 := by
        obtain ⟨b, hwf, _, hs⟩ := C07.sentence_reports_body cfg line raw s cks hp
        subst hs
        have := hwf.fill.2.2
        show decVal b.fill ≤ 5
        omega
      exact stepSentence_total cfg st s dec hf p

/-- Every result of a whole history is a value or an error. -/
theorem run_total (cfg : Cfg) (dec : Bool) : ∀ (lines : List Bytes) (st : PState),
    ∀ r ∈ (run cfg dec st lines).1, ∀ p, r ≠ panic p := by
  intro lines
  induction lines with
  | nil => intro st r hr; cases hr
  | cons l ls ih =>
    intro st r hr p
    simp only [run, List.mem_cons] at hr
    rcases hr with rfl | hr
    · exact step_total cfg st l dec p
    · exact ih _ r hr p

/-- Non-vacuity / regression witnesses for the repaired defects D1 and D3: the out-of-order
    fragment after `9,1 9,2 9,3` and the empty unarmor with fill bits are plain errors / values. -/
example : unarmor .std [] 5 = ok [] := by rfl

end AisVerif.C01

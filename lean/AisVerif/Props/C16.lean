/-
  C16 — communication state is decoded per SOTDMA/ITDMA rules for each type.

  `Spec.sotdma` / `Spec.itdma` (Spec/Radio.lean) are the standard's reading of the 19-bit value.
  Types 1, 2, 4, 11 (SOTDMA), 3 (ITDMA) and 18 (selector bit 148) are proved at full strength.
  Type 9 is false of the crate (finding D11): `t09_partial` states what it does compute,
  `d11_counterexample` is the crate's own test vector.
-/
import AisVerif.Lemmas.Char

namespace AisVerif.C16
open AisVerif Spec

/-- The state is the *last* 19 bits of the 168-bit message. -/
example : 149 + 19 = 168 := rfl

theorem radioOf_sotdma (v : Nat) :
    Spec.radioOf 1 v = some (Spec.sotdma v) ∧ Spec.radioOf 2 v = some (Spec.sotdma v) ∧
    Spec.radioOf 4 v = some (Spec.sotdma v) ∧ Spec.radioOf 11 v = some (Spec.sotdma v) := ⟨rfl, rfl, rfl, rfl⟩

theorem radioOf_itdma (v : Nat) : Spec.radioOf 3 v = some (Spec.itdma v) := rfl

/-- The fields of a state, looked up after the message's own fields. -/
def HasRadio (m : Msg) (r : List (Key × Val)) : Prop := ∃ pre, m.fields = pre ++ r

theorem t01 (cfg : Cfg) (bs : List UInt8) (m : Msg) (ht : 1 ≤ field bs 0 6 ∧ field bs 0 6 ≤ 3)
    (h : parseMessage cfg bs = ok m) :
    HasRadio m (if field bs 0 6 = 3 then Spec.itdma (field bs 149 19) else Spec.sotdma (field bs 149 19)) := by
  rw [decode_of_len cfg bs (parse_ok_len h), dispatch_T01 cfg _ bs ht] at h
  obtain ⟨_, r, hr, rfl⟩ := specRadioTail_ok h
  have : field bs 0 6 = 1 ∨ field bs 0 6 = 2 ∨ field bs 0 6 = 3 := by omega
  rcases this with e | e | e <;> rw [e] at hr ⊢ <;> simp (decide := true) only [if_true, if_false] <;>
    (cases hr; exact ⟨_, rfl⟩)

theorem t04 (cfg : Cfg) (bs : List UInt8) (m : Msg) (ht : field bs 0 6 = 4)
    (h : parseMessage cfg bs = ok m) : HasRadio m (Spec.sotdma (field bs 149 19)) := by
  rw [decode_of_len cfg bs (parse_ok_len h), ht, dispatch_T04] at h
  obtain ⟨_, r, hr, rfl⟩ := specRadioTail_ok h
  rw [ht] at hr; cases hr; exact ⟨_, rfl⟩

theorem t11 (cfg : Cfg) (bs : List UInt8) (m : Msg) (ht : field bs 0 6 = 11)
    (h : parseMessage cfg bs = ok m) : HasRadio m (Spec.sotdma (field bs 149 19)) := by
  rw [decode_of_len cfg bs (parse_ok_len h), ht, dispatch_T11] at h
  obtain ⟨_, r, hr, rfl⟩ := specRadioTail_ok h
  rw [ht] at hr; cases hr; exact ⟨_, rfl⟩

/-- Type 18: the selector bit (148) preceding the state chooses SOTDMA (0) or ITDMA (1). -/
theorem t18 (cfg : Cfg) (bs : List UInt8) (m : Msg) (ht : field bs 0 6 = 18)
    (h : parseMessage cfg bs = ok m) :
    HasRadio m (if field bs 148 1 = 0 then Spec.sotdma (field bs 149 19) else Spec.itdma (field bs 149 19)) := by
  rw [decode_of_len cfg bs (parse_ok_len h), ht, dispatch_T18] at h
  have := (ite_eof_ok h).2; cases this
  exact ⟨_, rfl⟩

/-- **Type 9, what the crate does** (finding D11): SOTDMA of bits 148-166; the selector is never
    consulted, so an ITDMA state cannot be reported, and the state is read one bit early. -/
theorem t09_partial (cfg : Cfg) (bs : List UInt8) (m : Msg) (ht : field bs 0 6 = 9)
    (h : parseMessage cfg bs = ok m) : HasRadio m (Spec.sotdma (field bs 148 19)) := by
  rw [decode_of_len cfg bs (parse_ok_len h), ht, dispatch_T09] at h
  obtain ⟨_, r, hr, rfl⟩ := specRadioTail_ok h
  rw [ht] at hr; cases hr; exact ⟨_, rfl⟩

/-- The crate's own type-9 test vector: "91b55wi;hbOS@OdQAC062Ch2089h". -/
def d11Vector : List UInt8 :=
  [36, 26, 133, 23, 252, 75, 194, 167, 227, 65, 251, 33, 69, 48, 6, 9, 60, 2, 0, 130, 112]

/-- **Finding D11** — on that vector the specified state (selector bit 148, bits 149-167) differs
    from what the crate reports. -/
theorem d11_counterexample :
    Spec.sotdma (field d11Vector 148 19) ≠ Spec.selRadio d11Vector := by decide

/-- For the vector the specified reading is time-out 2 / slot number 624; the crate reports
    time-out 1 / 00:14. -/
example : Spec.selRadio d11Vector =
    [(.radio, .sym "Sotdma"), (.sync_state, .sym "UtcDirect"), (.slot_timeout, .nat 2),
     (.sub_message, .sym "SlotNumber"), (.sub_a, .nat 624)] := by decide

/-! ### The sub-message is read by time-out value, for every state -/

theorem sotdma_submessage (v : Nat) (hv : v < 2 ^ 19) :
    let to := (v / 2 ^ 14) % 8
    let sub := v % 2 ^ 14
    (to = 0 → (Spec.sotdma v).lookup .sub_message = some (.sym "SlotOffset") ∧ (Spec.sotdma v).lookup .sub_a = some (.nat sub)) ∧
    (to = 1 → (Spec.sotdma v).lookup .sub_message = some (.sym "UtcHourAndMinute") ∧
        (Spec.sotdma v).lookup .sub_a = some (.nat (sub / 512)) ∧ (Spec.sotdma v).lookup .sub_b = some (.nat (sub / 4 % 64))) ∧
    ((to = 2 ∨ to = 4 ∨ to = 6) → (Spec.sotdma v).lookup .sub_message = some (.sym "SlotNumber") ∧ (Spec.sotdma v).lookup .sub_a = some (.nat sub)) ∧
    ((to = 3 ∨ to = 5 ∨ to = 7) → (Spec.sotdma v).lookup .sub_message = some (.sym "ReceivedStations") ∧ (Spec.sotdma v).lookup .sub_a = some (.nat sub)) := by
  intro to sub
  have hto : to < 8 := Nat.mod_lt _ (by decide)
  refine ⟨?_, ?_, ?_, ?_⟩
  · intro h; unfold Spec.sotdma; simp only [show (v / 2 ^ 14) % 8 = 0 from h, if_true]; exact ⟨rfl, rfl⟩
  · intro h; unfold Spec.sotdma; simp (decide := true) only [show (v / 2 ^ 14) % 8 = 1 from h, if_true, if_false]
    exact ⟨rfl, rfl, rfl⟩
  · intro h
    unfold Spec.sotdma
    rcases h with h | h | h <;> simp (decide := true) only [show (v / 2 ^ 14) % 8 = _ from h, if_true, if_false] <;>
      exact ⟨rfl, rfl⟩
  · intro h
    unfold Spec.sotdma
    rcases h with h | h | h <;> simp (decide := true) only [show (v / 2 ^ 14) % 8 = _ from h, if_true, if_false] <;>
      exact ⟨rfl, rfl⟩

/-- The 7-bit minute of the standard (`sub[8:2]`) equals the 6-bit minute the crate reads whenever
    the minute is a legal value (< 64). -/
theorem minute_agrees (sub : Nat) (h : sub / 4 % 128 < 64) : sub / 4 % 64 = sub / 4 % 128 := by omega

end AisVerif.C16

/-
  C08 — exactly the well-formed AIVDM/AIVDO sentence shapes are accepted.
-/
import AisVerif.Lemmas.Outer

namespace AisVerif.C08
open AisVerif Spec

/-- The shape of the statement: an optional tag block (backslash … backslash), '!' or '$', five
    address bytes, comma-separated decimal fragment count and number (each ≤ 255), an optional
    decimal sequence id (≤ 255), a channel field (possibly empty), a non-empty payload field, a
    decimal fill count below 6, '*', and a non-empty run of hex digits whose first (at most) eight
    have a value ≤ 0xFF; bytes after that are unconstrained.  Because the '*' that ends the sentence
    is the *first* one after the delimiter, no field contains a '*'.  (`Body.WF` spells out the
    field conditions; in the no-alloc build the payload additionally has at most 384 bytes.) -/
def Shape (cfg : Cfg) (line : Bytes) : Prop :=
  ∃ (pre : Bytes) (d : UInt8) (b : Body) (rest : Bytes),
    line = pre ++ [d] ++ b.render ++ [0x2A] ++ rest ∧ PreOK pre ∧ (d = 0x21 ∨ d = 0x24) ∧ b.WF cfg ∧
    (0x2A : UInt8) ∉ b.render ∧ rest.takeWhile isHexDigit ≠ [] ∧
    hexVal ((rest.takeWhile isHexDigit).take 8) ≤ 0xFF

/-- **Accepted at the sentence level ⇔ shaped as the statement says.** -/
theorem accepted_iff_shape (cfg : Cfg) (line : Bytes) :
    (∃ raw s cks, parseNmeaSentence cfg line = ok (raw, s, cks)) ↔ Shape cfg line := by
  constructor
  · rintro ⟨raw, s, cks, h⟩
    have o := parseNmeaSentence_ok h
    obtain ⟨pre, d, rest, hl, hd, hpre, hne, hv⟩ := o.split
    obtain ⟨b, hwf, hraw, _, _⟩ := parseAisSentence_ok o.body
    rw [List.append_nil] at hraw
    subst hraw
    exact ⟨pre, d, b, rest, hl, hpre, hd, hwf, o.noStar, hne, by rw [← hv]; exact o.small⟩
  · rintro ⟨pre, d, b, rest, hl, hp, hd, hb, hs, hh, hv⟩
    exact ⟨_, _, _, by rw [hl]; exact parseNmeaSentence_render cfg pre d b rest hp hd hb hs hh hv⟩

/-- A line accepted by `AisParser::parse` (Complete or Incomplete) has the shape, and its checksum
    matches. -/
theorem accepted_has_shape (cfg : Cfg) (st st' : PState) (line : Bytes) (dec : Bool) (f : Frag)
    (h : step cfg st line dec = (st', ok f)) : Shape cfg line := by
  unfold step at h
  cases hp : parseNmeaSentence cfg line with
  | err e => rw [hp] at h; simp only [] at h; cases h
  | panic p => rw [hp] at h; simp only [] at h; cases h
  | ok r => obtain ⟨raw, s, cks⟩ := r; exact (accepted_iff_shape cfg line).mp ⟨raw, s, cks, hp⟩

/-- Every other line is rejected with an error at the sentence level and never yields a sentence:
    the state is untouched and the result is an error (or, a priori, a panic — excluded by C01). -/
theorem not_shape_rejected (cfg : Cfg) (st : PState) (line : Bytes) (dec : Bool) (h : ¬ Shape cfg line) :
    (step cfg st line dec).1 = st ∧ ∀ f, (step cfg st line dec).2 ≠ ok f := by
  have hn : ∀ r, parseNmeaSentence cfg line ≠ ok r := by
    intro r hr; obtain ⟨raw, s, cks⟩ := r
    exact h ((accepted_iff_shape cfg line).mp ⟨raw, s, cks, hr⟩)
  unfold step
  cases hp : parseNmeaSentence cfg line with
  | err e => exact ⟨rfl, fun f hf => by cases hf⟩
  | panic p => exact ⟨rfl, fun f hf => by cases hf⟩
  | ok r => exact absurd hp (hn r)

/-! ### The named near-misses of the statement are outside the shape (consequences of `Body.WF`) -/

/-- A decimal field needs at least one digit and a value ≤ 255; the fill count must be below 6;
    the payload must be non-empty. -/
theorem wf_bounds (cfg : Cfg) (b : Body) (h : b.WF cfg) :
    decVal b.nf ≤ 255 ∧ decVal b.fn ≤ 255 ∧ decVal b.fill < 6 ∧ b.payload ≠ [] ∧ b.nf ≠ [] ∧ b.fn ≠ [] ∧ b.fill ≠ [] ∧
      b.talker.length + b.report.length = 5 :=
  ⟨h.nf.2.2, h.fn.2.2, h.fill.2.2, h.payload.2, h.nf.1, h.fn.1, h.fill.1, by rw [h.talker, h.report]⟩

/-- Non-vacuity: "!AIVDM,1,1,,A,15M,0*6F" is accepted at the sentence level. -/
example : (parseNmeaSentence .std [33, 65, 73, 86, 68, 77, 44, 49, 44, 49, 44, 44, 65, 44, 49, 53, 77, 44, 48, 42, 54, 70]).isOk = true := by decide

end AisVerif.C08

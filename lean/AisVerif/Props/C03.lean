/-
  C03 — unarmoring is the exact 6-bit unpacking with fill bits cleared.

  `Spec.IsUnarmored data fill out` (Spec/Unarmor.lean) is the statement verbatim: `out` has
  ceil(6n/8) bytes and its bit `i` (most significant first) is bit `i` of the concatenated 6-bit
  values for `i < 6n - fill` and 0 for every other `i`.
-/
import AisVerif.Lemmas.Unarmor
import AisVerif.Lemmas.Armor

namespace AisVerif.C03
open AisVerif Spec

/-- **Every string over the alphabet, every fill count 0-5** (std and alloc builds; the no-alloc
    build when the output fits its 384-byte buffer): the result is a value and it is *the*
    unarmoring. -/
theorem unarmor_correct (cfg : Cfg) (data : List UInt8) (fill : Nat) (hf : fill ≤ 5)
    (hall : AllArmored data) (hsz : ¬ TooLarge cfg data.length) :
    ∃ out, unarmor cfg data fill = ok out ∧ Spec.IsUnarmored data fill out :=
  unarmor_ok cfg data fill hf hall hsz

/-- The specification determines the output uniquely (so "a value satisfying it" is "the value"). -/
theorem unarmor_unique (data : List UInt8) (fill : Nat) (a b : List UInt8)
    (ha : Spec.IsUnarmored data fill a) (hb : Spec.IsUnarmored data fill b) : a = b :=
  isUnarmored_unique data fill a b ha hb

/-- **Any string containing a byte outside the alphabet yields an error, never a value** (whatever
    the fill count). -/
theorem invalid_byte_is_error (cfg : Cfg) (data : List UInt8) (fill : Nat) (hbad : ¬ AllArmored data) :
    ∃ e, unarmor cfg data fill = err e := by
  by_cases hsz : TooLarge cfg data.length
  · exact ⟨_, unarmor_err_large cfg data fill hsz⟩
  · exact ⟨_, unarmor_err_invalid cfg data fill hbad hsz⟩

/-- With an allocator nothing is ever too large. -/
theorem std_never_too_large (n : Nat) : ¬ TooLarge .std n ∧ ¬ TooLarge .alloc n := by
  constructor <;> (intro h; cases h.1)

/-- Corollaries spelled out: length, and zero beyond the data / in the fill bits. -/
theorem unarmor_length_and_padding (cfg : Cfg) (data : List UInt8) (fill : Nat) (out : List UInt8)
    (hf : fill ≤ 5) (hall : AllArmored data) (hsz : ¬ TooLarge cfg data.length)
    (h : unarmor cfg data fill = ok out) :
    out.length = (6 * data.length + 7) / 8 ∧ ∀ i, 6 * data.length - fill ≤ i → bit out i = 0 := by
  obtain ⟨out', h', hs⟩ := unarmor_ok cfg data fill hf hall hsz
  rw [h] at h'
  have : out = out' := by cases h'; rfl
  subst this
  refine ⟨hs.1, fun i hi => ?_⟩
  rw [hs.2 i, if_neg (by omega)]

/-- `unarmor` never panics for a fill count of 0-5 (used by C01). -/
theorem unarmor_ne_panic (cfg : Cfg) (data : List UInt8) (fill : Nat) (hf : fill ≤ 5) (p : Panic) :
    unarmor cfg data fill ≠ panic p := by
  intro h
  by_cases hsz : TooLarge cfg data.length
  · rw [unarmor_err_large cfg data fill hsz] at h; cases h
  · by_cases hall : AllArmored data
    · obtain ⟨out, ho, _⟩ := unarmor_ok cfg data fill hf hall hsz
      rw [ho] at h; cases h
    · rw [unarmor_err_invalid cfg data fill hall hsz] at h; cases h

/-- The alphabet is exactly the 64 characters of the statement: '0'-'W' ↦ 0-39, '`'-'w' ↦ 40-63. -/
theorem alphabet : ∀ c : Fin 256,
    Spec.sixbit (UInt8.ofNat c.val) =
      (if 48 ≤ c.val ∧ c.val ≤ 87 then some (c.val - 48) else if 96 ≤ c.val ∧ c.val ≤ 119 then some (c.val - 56) else none) := by
  decide +kernel

/-! ### The inverse direction: armoring, and the round trip -/

/-- **Every bit string** (the first `nbits` bits of any byte string): unarmoring its armoring gives back
    exactly those bits, zero everywhere else, in ⌈6·chars/8⌉ bytes. -/
theorem unarmor_of_armor (cfg : Cfg) (bs : List UInt8) (nbits : Nat)
    (hsz : ¬ TooLarge cfg ((nbits + 5) / 6)) :
    ∃ out, unarmor cfg (Spec.armor bs nbits).1 (Spec.armor bs nbits).2 = ok out ∧
      out.length = Spec.unarmorLen ((nbits + 5) / 6) ∧
      ∀ i, Spec.bit out i = if i < nbits then Spec.bit bs i else 0 :=
  unarmor_armor cfg bs nbits hsz

/-- **Every byte string** round-trips, up to the single zero byte that appears when `6·chars` crosses a
    byte boundary (`pad ≤ 1`, `unarmor_pad_le_one`). -/
theorem armor_roundtrip (cfg : Cfg) (bs : List UInt8)
    (hsz : ¬ TooLarge cfg ((8 * bs.length + 5) / 6)) :
    unarmor cfg (Spec.armor bs (8 * bs.length)).1 (Spec.armor bs (8 * bs.length)).2 =
      ok (bs ++ List.replicate (Spec.unarmorLen ((8 * bs.length + 5) / 6) - bs.length) 0) ∧
    Spec.unarmorLen ((8 * bs.length + 5) / 6) - bs.length ≤ 1 :=
  ⟨unarmor_armor_padded cfg bs hsz, unarmor_pad_le_one bs.length⟩

/-- Armoring only produces characters of the alphabet, and a fill count of 0-5. -/
theorem armor_wellformed (bs : List UInt8) (nbits : Nat) :
    AllArmored (Spec.armor bs nbits).1 ∧ (Spec.armor bs nbits).2 ≤ 5 ∧ (Spec.armor bs nbits).1.length = (nbits + 5) / 6 :=
  ⟨armor_allArmored bs nbits, armor_fill_le bs nbits, armor_length bs nbits⟩

/-- Non-vacuity: the crate's unit-test vectors satisfy the specification. -/
example : unarmor .std [0x39] 0 = ok [0b00100100] := by rfl
example : unarmor .std [0x39, 0x71, 0x57, 0x72] 4 = ok [0b00100111, 0b10011001, 0b11110000] := by rfl
example : unarmor .std [0x39, 0x71, 0x57] 3 = ok [0b00100111, 0b10011000, 0b00000000] := by rfl
example : unarmor .std [] 3 = ok [] := by rfl

end AisVerif.C03

/-
  C06 — only a complete in-order group ever produces a multi-fragment message.

  `Spec.gstep` (Spec/Reassembly.lean) is the statement made executable: a sentence that declares
  itself fragment k ≥ 2 is accepted iff an open, undelivered group with the same sequence id has
  fragment k-1 as its last accepted fragment; delivery closes the group.  Here: the parser refines
  that automaton on every history of validly numbered sentences, from every reachable state.
-/
import AisVerif.Props.C17
import AisVerif.Props.C07

namespace AisVerif.C06
open AisVerif Spec

/-- A line as the reassembly layer sees it: the sentence, when the line is well-formed and its
    checksum matches (C02, C08); nothing otherwise. -/
def classify (cfg : Cfg) (line : Bytes) : Option Sentence :=
  match parseNmeaSentence cfg line with
  | ok (raw, s, cks) => if cks = (xorAll raw).toNat then some s else none
  | _ => none

def ValidNum (s : Sentence) : Prop := 1 ≤ s.fragment_number ∧ s.fragment_number ≤ s.num_fragments

/-- The abstract run: outcomes of the automaton for the classified lines (`reject` for a line that
    is not a sentence). -/
def grun (cfg : Cfg) : Option Group → List Bytes → List Outcome × Option Group
  | g, [] => ([], g)
  | g, l :: ls =>
    match classify cfg l with
    | some s =>
      let r := gstep (capOf cfg) g s.num_fragments s.fragment_number s.message_id s.data
      let rest := grun cfg r.1 ls
      (r.2 :: rest.1, rest.2)
    | none =>
      let rest := grun cfg g ls
      (.reject :: rest.1, rest.2)

/-- How the outcome for one line shows in the parser's result for that line. -/
def LineMatches (cfg : Cfg) (dec : Bool) (line : Bytes) (o : Outcome) (r : Res Frag) : Prop :=
  match classify cfg line, o with
  | some s, .incomplete => r = ok (.incomplete s)
  | some s, .complete d => r = (decodeInto cfg dec { s with data := d }).map Frag.complete
  | _, .reject => ∃ e, r = err e
  | none, _ => ∃ e, r = err e

/-- Pointwise relation between two lists of the same length. -/
def Pointwise {α β : Type} (P : α → β → Prop) : List α → List β → Prop
  | [], [] => True
  | a :: as, b :: bs => P a b ∧ Pointwise P as bs
  | _, _ => False

theorem classify_some {cfg : Cfg} {line : Bytes} {s : Sentence} (h : classify cfg line = some s) :
    ∃ raw cks, parseNmeaSentence cfg line = ok (raw, s, cks) ∧ cks = (xorAll raw).toNat := by
  unfold classify at h
  cases hp : parseNmeaSentence cfg line with
  | ok r =>
    obtain ⟨raw, s', cks⟩ := r
    rw [hp] at h; simp only [] at h
    by_cases hc : cks = (xorAll raw).toNat
    · rw [if_pos hc] at h; cases h; exact ⟨raw, cks, rfl, hc⟩
    · rw [if_neg hc] at h; cases h
  | err e => rw [hp] at h; cases h
  | panic p => rw [hp] at h; cases h

theorem classify_none_step {cfg : Cfg} {line : Bytes} (h : classify cfg line = none) (st : PState) (dec : Bool)
    (hnp : ∀ p, parseNmeaSentence cfg line ≠ panic p) :
    (step cfg st line dec).1 = st ∧ ∃ e, (step cfg st line dec).2 = err e := by
  unfold classify at h
  unfold step
  cases hp : parseNmeaSentence cfg line with
  | ok r =>
    obtain ⟨raw, s', cks⟩ := r
    rw [hp] at h; simp only [] at h ⊢
    by_cases hc : cks = (xorAll raw).toNat
    · rw [if_pos hc] at h; cases h
    · unfold checkChecksum; rw [if_pos hc]; exact ⟨rfl, _, rfl⟩
  | err e => exact ⟨rfl, e, rfl⟩
  | panic p => exact absurd hp (hnp p)

/-- A sentence produced by the grammar fits the buffer on its own. -/
theorem parsed_fits {cfg : Cfg} {line raw : Bytes} {s : Sentence} {cks : Nat}
    (h : parseNmeaSentence cfg line = ok (raw, s, cks)) : fits (capOf cfg) s.data.length := by
  obtain ⟨b, hwf, _, hs⟩ := C07.sentence_reports_body cfg line raw s cks h
  subst hs
  unfold fits capOf
  cases cfg <;> simp [Cfg.isNoalloc]
  exact hwf.cap rfl

/-- **The parser refines the group automaton** on every history of validly numbered sentences
    (mixed with arbitrary non-sentences), from every state that represents an abstract one — the
    fresh parser, an abandoned group, a just-delivered group. -/
theorem refines_group_automaton (cfg : Cfg) (dec : Bool)
    (hnp : ∀ line p, parseNmeaSentence cfg line ≠ panic p) :
    ∀ (lines : List Bytes) (st : PState) (g : Option Group), Rel st g →
      (∀ l ∈ lines, ∀ s, classify cfg l = some s → ValidNum s) →
      Rel (run cfg dec st lines).2 (grun cfg g lines).2 ∧
      Pointwise (fun lo r => LineMatches cfg dec lo.1 lo.2 r) (lines.zip (grun cfg g lines).1) (run cfg dec st lines).1 := by
  intro lines
  induction lines with
  | nil => intro st g hR _; exact ⟨hR, trivial⟩
  | cons l ls ih =>
    intro st g hR hv
    simp only [run, grun]
    cases hc : classify cfg l with
    | none =>
      obtain ⟨hst, e, he⟩ := classify_none_step hc st dec (hnp l)
      simp only []
      rw [hst]
      have := ih st g hR (fun l' hl' => hv l' (List.mem_cons_of_mem _ hl'))
      refine ⟨this.1, ?_, this.2⟩
      simp only [LineMatches, hc]
      cases (grun cfg g ls).1 <;> exact ⟨e, he⟩
    | some s =>
      obtain ⟨raw, cks, hp, hck⟩ := classify_some hc
      have hstep := C17.step_of_parse cfg st l raw s cks dec hp hck
      have href := stepSentence_refines cfg dec st g s hR (hv l (List.mem_cons_self) s hc) (parsed_fits hp)
      simp only []
      rw [hstep]
      have := ih (stepSentence cfg st s dec).1 _ href.1 (fun l' hl' => hv l' (List.mem_cons_of_mem _ hl'))
      refine ⟨this.1, ?_, this.2⟩
      have hm := href.2
      unfold Matches at hm
      simp only [LineMatches, hc]
      cases ho : (gstep (capOf cfg) g s.num_fragments s.fragment_number s.message_id s.data).2 with
      | incomplete => rw [ho] at hm; exact hm
      | complete d => rw [ho] at hm; exact hm
      | reject => rw [ho] at hm; obtain ⟨_, m, hm'⟩ := hm; exact ⟨_, hm'⟩

/-! ### What the automaton guarantees (the statement's "consequently") -/

/-- A fragment k ≥ 2 is accepted only if it directly continues the open group: same sequence id,
    last accepted fragment k-1, group not yet delivered. -/
theorem continuation_only_if_open (cap : Option Nat) (g : Option Group) (nf fn : Nat) (id : Option Nat)
    (data : List UInt8) (hk : 2 ≤ fn) (hnf : nf ≠ 1)
    (h : (gstep cap g nf fn id data).2 ≠ .reject) :
    ∃ o, g = some o ∧ o.id = id ∧ o.last + 1 = fn := by
  unfold gstep at h
  have h1 : ¬ fn = 1 := by omega
  by_cases hm : fn < nf
  · rw [if_pos hm, if_neg h1] at h
    cases g with
    | none => exact absurd rfl h
    | some o =>
      simp only [] at h
      by_cases hc : o.id = id ∧ o.last + 1 = fn ∧ fits cap (o.parts.flatten.length + data.length)
      · exact ⟨o, rfl, hc.1, hc.2.1⟩
      · rw [if_neg hc] at h; exact absurd rfl h
  · rw [if_neg hm, if_neg hnf] at h
    cases g with
    | none => exact absurd rfl h
    | some o =>
      simp only [] at h
      by_cases hc : o.id = id ∧ o.last + 1 = fn ∧ fits cap (o.parts.flatten.length + data.length)
      · exact ⟨o, rfl, hc.1, hc.2.1⟩
      · rw [if_neg hc] at h; exact absurd rfl h

/-- Every delivered multi-fragment payload is the in-order concatenation of the open group's
    fragments followed by this last one, and delivery closes the group (nothing can continue it). -/
theorem delivered_is_concat (cap : Option Nat) (g : Option Group) (nf fn : Nat) (id : Option Nat)
    (data d : List UInt8) (hnf : nf ≠ 1) (h : (gstep cap g nf fn id data).2 = .complete d) :
    ∃ o, g = some o ∧ o.id = id ∧ o.last + 1 = fn ∧ d = (o.parts ++ [data]).flatten ∧
      (gstep cap g nf fn id data).1 = none := by
  unfold gstep at h ⊢
  by_cases hm : fn < nf
  · rw [if_pos hm] at h
    by_cases h1 : fn = 1
    · rw [if_pos h1] at h; cases h
    · rw [if_neg h1] at h
      cases g with
      | none => cases h
      | some o =>
        simp only [] at h
        by_cases hc : o.id = id ∧ o.last + 1 = fn ∧ fits cap (o.parts.flatten.length + data.length)
        · rw [if_pos hc] at h; cases h
        · rw [if_neg hc] at h; cases h
  · rw [if_neg hm, if_neg hnf] at h
    rw [if_neg hm, if_neg hnf]
    cases g with
    | none => cases h
    | some o =>
      simp only [] at h ⊢
      by_cases hc : o.id = id ∧ o.last + 1 = fn ∧ fits cap (o.parts.flatten.length + data.length)
      · rw [if_pos hc] at h ⊢
        cases h
        exact ⟨o, rfl, hc.1, hc.2.1, rfl, rfl⟩
      · rw [if_neg hc] at h; cases h

/-- The open group always holds exactly the fragments 1..last, each once, in order. -/
def GInv (g : Option Group) : Prop := ∀ o, g = some o → o.parts.length = o.last ∧ 1 ≤ o.last

theorem gstep_inv (cap : Option Nat) (g : Option Group) (nf fn : Nat) (id : Option Nat) (data : List UInt8)
    (hg : GInv g) : GInv (gstep cap g nf fn id data).1 := by
  unfold gstep
  by_cases hm : fn < nf
  · rw [if_pos hm]
    by_cases h1 : fn = 1
    · rw [if_pos h1]; intro o ho; cases ho; exact ⟨rfl, Nat.le_refl 1⟩
    · rw [if_neg h1]
      cases g with
      | none => exact hg
      | some o =>
        simp only []
        by_cases hc : o.id = id ∧ o.last + 1 = fn ∧ fits cap (o.parts.flatten.length + data.length)
        · rw [if_pos hc]
          intro o' ho'; cases ho'
          have hgo := hg o rfl
          have hfn := hc.2.1
          refine ⟨?_, ?_⟩
          · simp only [List.length_append, List.length_cons, List.length_nil]; omega
          · show 1 ≤ fn; omega
        · rw [if_neg hc]; exact hg
  · rw [if_neg hm]
    by_cases hn : nf = 1
    · rw [if_pos hn]; exact hg
    · rw [if_neg hn]
      cases g with
      | none => exact hg
      | some o =>
        simp only []
        by_cases hc : o.id = id ∧ o.last + 1 = fn ∧ fits cap (o.parts.flatten.length + data.length)
        · rw [if_pos hc]; intro o' ho'; cases ho'
        · rw [if_neg hc]; exact hg

/-- Non-vacuity: the fresh parser represents "no open group". -/
example : Rel PState.init none := rfl

end AisVerif.C06

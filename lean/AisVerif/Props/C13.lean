/-
  C13 — text fields are the 6-bit ASCII decoding with padding stripped.

  `Spec.chars bs p k` is the character-by-character decoding of the `6k` bits at `p`
  (`Spec.sixbitAscii`: 0-31 ↦ '@'..'_', 32-63 ↦ ' '..'?'); `Spec.trim` strips leading spaces, then
  trailing '@', then trailing spaces.  The refinement theorems (Refine/*, `parse6bitAscii_spec`)
  show the crate's `parse_6bit_ascii` computes `trim (chars …)`; here are the facts the statement
  lists about that value, and the table of where each text field lives.
-/
import AisVerif.Lemmas.Char
import AisVerif.Spec.Layouts

namespace AisVerif.C13
open AisVerif Spec

/-! ### The character map -/

theorem sixbitAscii_table : ∀ v : Fin 64,
    (Spec.sixbitAscii v.val).toNat = (if v.val < 32 then v.val + 64 else v.val) := by decide +kernel

theorem sixbitAscii_ascii : ∀ v : Fin 64, 32 ≤ (Spec.sixbitAscii v.val).toNat ∧ (Spec.sixbitAscii v.val).toNat ≤ 95 := by
  decide +kernel

/-- Distinct 6-bit values give distinct characters. -/
theorem sixbitAscii_injective : ∀ v w : Fin 64, Spec.sixbitAscii v.val = Spec.sixbitAscii w.val → v = w := by
  decide +kernel

/-! ### The untrimmed decoding: `k` characters, the `i`-th from bits `p + 6i` -/

theorem chars_length (bs : List UInt8) (k p : Nat) : (Spec.chars bs p k).length = k := by
  induction k generalizing p with
  | zero => rfl
  | succ k ih => simp [Spec.chars, ih]

theorem chars_get (bs : List UInt8) (k p i : Nat) (hi : i < k) :
    (Spec.chars bs p k)[i]? = some (Spec.sixbitAscii (field bs (p + 6 * i) 6)) := by
  induction k generalizing p i with
  | zero => omega
  | succ k ih =>
    cases i with
    | zero => simp [Spec.chars]
    | succ j =>
      simp only [Spec.chars, List.getElem?_cons_succ]
      rw [ih (p + 6) j (by omega)]
      congr 3; omega

theorem chars_ascii (bs : List UInt8) (k p : Nat) : ∀ c ∈ Spec.chars bs p k, 32 ≤ c.toNat ∧ c.toNat ≤ 95 := by
  induction k generalizing p with
  | zero => intro c h; cases h
  | succ k ih =>
    intro c hc
    simp only [Spec.chars, List.mem_cons] at hc
    rcases hc with rfl | hc
    · exact sixbitAscii_ascii ⟨field bs p 6, field_lt bs p 6⟩
    · exact ih (p + 6) c hc

/-! ### Trimming: a contiguous piece of the decoding, no longer than the field -/

theorem dropLeading_suffix (x : UInt8) (cs : List UInt8) : Spec.dropLeading x cs <:+ cs :=
  List.dropWhile_suffix _

theorem dropTrailing_prefix (x : UInt8) (cs : List UInt8) : Spec.dropTrailing x cs <+: cs := by
  unfold Spec.dropTrailing
  rw [← List.reverse_suffix, List.reverse_reverse]
  exact List.dropWhile_suffix _

/-- The result is a contiguous sub-list of the untrimmed characters: interior characters are
    preserved unchanged and in order. -/
theorem trim_infix (cs : List UInt8) : Spec.trim cs <:+: cs := by
  unfold Spec.trim
  exact ((dropTrailing_prefix _ _).isInfix.trans (dropTrailing_prefix _ _).isInfix).trans
    (dropLeading_suffix _ _).isInfix

theorem trim_length_le (cs : List UInt8) : (Spec.trim cs).length ≤ cs.length := (trim_infix cs).length_le

/-- A text field of `k` characters: valid ASCII (in fact 0x20-0x5F), at most `k` characters. -/
theorem text_ascii_and_short (bs : List UInt8) (p k : Nat) :
    (∀ c ∈ Spec.trim (Spec.chars bs p k), 32 ≤ c.toNat ∧ c.toNat ≤ 95) ∧
      (Spec.trim (Spec.chars bs p k)).length ≤ k := by
  refine ⟨fun c hc => chars_ascii bs k p c ((trim_infix _).subset hc), ?_⟩
  have := trim_length_le (Spec.chars bs p k)
  rw [chars_length] at this
  exact this

/-- No leading space is left. -/
theorem trim_head (cs : List UInt8) : (Spec.trim cs).head? ≠ some 0x20 := by
  intro h
  unfold Spec.trim Spec.dropLeading at h
  -- the head of a prefix of a prefix of `dropLeading 0x20 cs` is the head of `dropLeading 0x20 cs`
  have p1 := dropTrailing_prefix 0x20 (Spec.dropTrailing 0x40 (cs.dropWhile (· == 0x20)))
  have p2 := dropTrailing_prefix 0x40 (cs.dropWhile (· == 0x20))
  obtain ⟨t, ht⟩ := p1.trans p2
  have hd := List.head?_dropWhile_not (· == (0x20 : UInt8)) cs
  rw [← ht] at hd
  generalize Spec.dropTrailing 0x20 (Spec.dropTrailing 0x40 (cs.dropWhile (· == 0x20))) = r at h hd
  cases r with
  | nil => cases h
  | cons a l =>
    simp only [List.head?_cons, Option.some.injEq] at h
    simp only [List.cons_append, List.head?_cons] at hd
    subst h
    simp at hd

/-- No trailing space is left. -/
theorem trim_last (cs : List UInt8) : (Spec.trim cs).getLast? ≠ some 0x20 := by
  intro h
  unfold Spec.trim Spec.dropTrailing at h
  rw [List.getLast?_reverse] at h
  have hd := List.head?_dropWhile_not (· == (0x20 : UInt8))
    ((List.dropWhile (fun x => x == 0x40) (Spec.dropLeading 0x20 cs).reverse).reverse).reverse
  rw [h] at hd
  simp at hd

/-! ### Where each text field lives -/

structure TextSpec where
  key : Key
  off : Nat
  chars : Nat

def TextSpec.render (e : TextSpec) (bs : List UInt8) : Val := .text (Spec.trim (Spec.chars bs e.off e.chars))

def Reports (m : Msg) (bs : List UInt8) (table : List TextSpec) : Prop :=
  ∀ e ∈ table, m.get e.key = some (e.render bs)

theorem reports_nil (m : Msg) (bs : List UInt8) : Reports m bs [] := fun _ h => by cases h

theorem reports_cons {m : Msg} {bs : List UInt8} {e : TextSpec} {t : List TextSpec}
    (h1 : m.get e.key = some (e.render bs)) (h2 : Reports m bs t) : Reports m bs (e :: t) := by
  intro x hx
  rcases List.mem_cons.mp hx with rfl | hx
  · exact h1
  · exact h2 x hx

macro "text_rfl" : tactic =>
  `(tactic| repeat (first | exact reports_nil _ _ | refine reports_cons rfl ?_))

def x05 : List TextSpec := [⟨.callsign, 70, 7⟩, ⟨.vessel_name, 112, 20⟩]
def x19 : List TextSpec := [⟨.name, 143, 20⟩]
def x21 : List TextSpec := [⟨.name, 43, 20⟩]
def x24A : List TextSpec := [⟨.vessel_name, 40, 20⟩]
def x24B : List TextSpec := [⟨.vendor_id, 48, 3⟩, ⟨.model_serial, 66, 4⟩, ⟨.callsign, 90, 7⟩]

theorem t05 (cfg : Cfg) (bs : List UInt8) (m : Msg) (ht : field bs 0 6 = 5)
    (h : parseMessage cfg bs = ok m) :
    Reports m bs x05 ∧
      m.get .destination = some (.text (Spec.trim (Spec.chars bs 302 (min 20 ((8 * bs.length - 302) / 6))))) := by
  rw [decode_of_len cfg bs (parse_ok_len h), ht, dispatch_T05] at h
  have := (ite_eof_ok h).2; cases this
  refine ⟨by text_rfl, ?_⟩
  have : Spec.t5DestChars bs = min 20 ((8 * bs.length - 302) / 6) := by unfold Spec.t5DestChars; omega
  rw [← this]; rfl

theorem t19 (cfg : Cfg) (bs : List UInt8) (m : Msg) (ht : field bs 0 6 = 19)
    (h : parseMessage cfg bs = ok m) : Reports m bs x19 := by
  rw [decode_of_len cfg bs (parse_ok_len h), ht, dispatch_T19] at h
  have := (ite_eof_ok h).2; cases this
  text_rfl

theorem t21 (cfg : Cfg) (bs : List UInt8) (m : Msg) (ht : field bs 0 6 = 21)
    (h : parseMessage cfg bs = ok m) : Reports m bs x21 := by
  rw [decode_of_len cfg bs (parse_ok_len h), ht, dispatch_T21] at h
  have := (ite_eof_ok h).2; cases this
  text_rfl

theorem t24A (cfg : Cfg) (bs : List UInt8) (m : Msg) (ht : field bs 0 6 = 24) (hp : field bs 38 2 = 0)
    (h : parseMessage cfg bs = ok m) : Reports m bs x24A := by
  rw [decode_of_len cfg bs (parse_ok_len h), ht, dispatch_T24] at h
  have h2 := (ite_eof_ok h).2
  rw [if_pos hp] at h2
  have := (ite_eof_ok h2).2; cases this
  text_rfl

theorem t24B (cfg : Cfg) (bs : List UInt8) (m : Msg) (ht : field bs 0 6 = 24) (hp : field bs 38 2 = 1)
    (h : parseMessage cfg bs = ok m) : Reports m bs x24B := by
  rw [decode_of_len cfg bs (parse_ok_len h), ht, dispatch_T24] at h
  have h2 := (ite_eof_ok h).2
  rw [if_neg (by omega), if_pos hp] at h2
  have := (ite_eof_ok h2).2; cases this
  text_rfl

/-- Safety texts (types 12 and 14): all `(L - 72) / 6` resp. `(L - 40) / 6` characters to the end of
    the payload, up to 156 characters and beyond. -/
theorem t12 (cfg : Cfg) (bs : List UInt8) (m : Msg) (ht : field bs 0 6 = 12)
    (h : parseMessage cfg bs = ok m) :
    m.get .text = some (.text (Spec.trim (Spec.chars bs 72 ((8 * bs.length - 72) / 6)))) := by
  rw [decode_of_len cfg bs (parse_ok_len h), ht, dispatch_T12] at h
  have := (capped_ok (ite_eof_ok h).2).1; cases this
  rfl

theorem t14 (cfg : Cfg) (bs : List UInt8) (m : Msg) (ht : field bs 0 6 = 14)
    (h : parseMessage cfg bs = ok m) :
    m.get .text = some (.text (Spec.trim (Spec.chars bs 40 ((8 * bs.length - 40) / 6)))) := by
  rw [decode_of_len cfg bs (parse_ok_len h), ht, dispatch_T14] at h
  have := (capped_ok (ite_eof_ok h).2).1; cases this
  rfl

/-- Non-vacuity / sanity: "  AB@C @@  " decodes to "AB@C" (interior '@' kept, padding stripped). -/
example : Spec.trim [0x20, 0x20, 0x41, 0x42, 0x40, 0x43, 0x20, 0x40, 0x40, 0x20, 0x20] =
    [0x41, 0x42, 0x40, 0x43, 0x20, 0x40, 0x40] := by decide

end AisVerif.C13

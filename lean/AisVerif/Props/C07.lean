/-
  C07 — the sentence reports exactly the transmitted NMEA fields and raw payload.
-/
import AisVerif.Props.C08
import AisVerif.Lemmas.Flags

namespace AisVerif.C07
open AisVerif Spec

/-- The ten known talker ids. -/
def knownTalkers : List String := ["AB", "AD", "AI", "AN", "AR", "AS", "AT", "AX", "BS", "SA"]

theorem talker_known : ∀ t ∈ knownTalkers, talkerId (asciiStr t) = t := by decide

theorem talker_unknown (b : Bytes) (h : ∀ t ∈ knownTalkers, b ≠ asciiStr t) : talkerId b = "Unknown" := by
  unfold talkerId
  have h' : ∀ t, t ∈ knownTalkers → ¬ (b = asciiStr t) := h
  simp only [h' "AB" (by decide), h' "AD" (by decide), h' "AI" (by decide), h' "AN" (by decide),
    h' "AR" (by decide), h' "AS" (by decide), h' "AT" (by decide), h' "AX" (by decide), h' "BS" (by decide),
    h' "SA" (by decide), if_false]

theorem report_type_spec (b : Bytes) :
    reportType b = if b = asciiStr "VDM" then "VDM" else if b = asciiStr "VDO" then "VDO" else "Unknown" := rfl

/-- **Every accepted line reports what was transmitted.**  For any line accepted at the sentence
    level there is a unique well-formed body between delimiter and '*', and the sentence's fields are
    exactly that body's: talker and report type through the tables above, the three numbers as
    decimal values (leading zeros allowed), the sequence id absent iff its field is empty, the
    channel's first byte, the raw payload bytes unmodified, the fill count. -/
theorem sentence_reports_body (cfg : Cfg) (line raw : Bytes) (s : Sentence) (cks : Nat)
    (h : parseNmeaSentence cfg line = ok (raw, s, cks)) :
    ∃ b : Body, b.WF cfg ∧ raw = b.render ∧ s = b.sentence := by
  have o := parseNmeaSentence_ok h
  obtain ⟨b, hwf, hraw, hs, _⟩ := parseAisSentence_ok o.body
  rw [List.append_nil] at hraw
  exact ⟨b, hwf, hraw, hs⟩

/-- Conversely every well-formed transmitted body is reported back exactly (the "for every
    assignment of fields" direction): see `parseNmeaSentence_render`. -/
theorem rendered_is_reported (cfg : Cfg) (pre : Bytes) (d : UInt8) (b : Body) (rest : Bytes)
    (hp : PreOK pre) (hd : d = 0x21 ∨ d = 0x24) (hb : b.WF cfg) (hs : (0x2A : UInt8) ∉ b.render)
    (hh : rest.takeWhile isHexDigit ≠ []) (hv : hexVal ((rest.takeWhile isHexDigit).take 8) ≤ 0xFF) :
    ∃ cks, parseNmeaSentence cfg (pre ++ [d] ++ b.render ++ [0x2A] ++ rest) = ok (b.render, b.sentence, cks) :=
  ⟨_, parseNmeaSentence_render cfg pre d b rest hp hd hb hs hh hv⟩

/-- The fields of `Body.sentence`, spelled out. -/
theorem body_fields (b : Body) :
    b.sentence.num_fragments = decVal b.nf ∧ b.sentence.fragment_number = decVal b.fn ∧
    b.sentence.message_id = (if b.id = [] then none else some (decVal b.id)) ∧
    b.sentence.channel = b.ch.head? ∧ b.sentence.data = b.payload ∧
    b.sentence.fill_bit_count = decVal b.fill ∧ b.sentence.message = none :=
  ⟨rfl, rfl, rfl, rfl, rfl, rfl, rfl⟩

/-- Leading zeros do not change a decimal value. -/
theorem decVal_leading_zero (ds : Bytes) : decVal (0x30 :: ds) = decVal ds := by
  unfold decVal; simp

/-! ### The decode flag changes nothing but the decoded message -/

def Frag.sentence : Frag → Sentence
  | .complete s => s
  | .incomplete s => s

def Frag.isComplete : Frag → Bool
  | .complete _ => true
  | .incomplete _ => false

theorem decodeInto_false (cfg : Cfg) (s : Sentence) : decodeInto cfg false s = ok s := rfl

theorem decodeInto_true_fields (cfg : Cfg) (s s' : Sentence) (h : decodeInto cfg true s = ok s') :
    s' = { s with message := s'.message } := by
  unfold decodeInto at h
  simp only [if_true] at h
  obtain ⟨u, _, h⟩ := bind_ok h
  obtain ⟨m, _, h⟩ := bind_ok h
  cases h; rfl

/-- With decoding off the message is absent and payload-level errors are not raised: the result of
    `parse(line, false)` is `ok` whenever `parse(line, true)` is, with identical sentence fields,
    identical kind (Complete/Incomplete) and identical next state; and decoding off never fails
    where decoding on succeeds. -/
theorem decode_flag (cfg : Cfg) (st : PState) (line : Bytes) (f2 : Frag)
    (h : (step cfg st line true).2 = ok f2) :
    (step cfg st line false).1 = (step cfg st line true).1 ∧
    ∃ f1, (step cfg st line false).2 = ok f1 ∧ Frag.isComplete f1 = Frag.isComplete f2 ∧
      Frag.sentence f2 = { Frag.sentence f1 with message := (Frag.sentence f2).message } := by
  unfold step at h ⊢
  cases hp : parseNmeaSentence cfg line with
  | err e => rw [hp] at h; cases h
  | panic p => rw [hp] at h; cases h
  | ok r =>
    obtain ⟨raw, s, cks⟩ := r
    rw [hp] at h
    simp only [] at h ⊢
    cases hc : checkChecksum raw cks with
    | err e => rw [hc] at h; cases h
    | panic p => rw [hc] at h; cases h
    | ok u =>
      rw [hc] at h
      simp only [] at h ⊢
      unfold stepSentence at h ⊢
      by_cases hm : s.hasMore = true
      · simp only [hm, if_true] at h ⊢
        generalize verifyAndExtend cfg (if s.fragment_number = 1 then ⟨s.message_id, 0, []⟩ else st) s = ve at h ⊢
        obtain ⟨st2, r⟩ := ve
        cases r with
        | ok u => simp only [afterVerify] at h ⊢; cases h; exact ⟨by first | rfl | trivial, _, rfl, rfl, rfl⟩
        | err e => simp only [afterVerify] at h; cases h
        | panic p => simp only [afterVerify] at h; cases h
      · simp only [hm, Bool.false_eq_true, if_false] at h ⊢
        by_cases hf : s.isFragment = true
        · simp only [hf, if_true] at h ⊢
          generalize verifyAndExtend cfg st s = ve at h ⊢
          obtain ⟨st2, r⟩ := ve
          cases r with
          | ok u =>
            simp only [afterVerify] at h ⊢
            cases hd : decodeInto cfg true { s with data := st2.data } with
            | ok s' =>
              rw [hd] at h; simp only [Res.map] at h; cases h
              refine ⟨by first | rfl | trivial, _, rfl, rfl, ?_⟩
              exact decodeInto_true_fields cfg _ _ hd
            | err e => rw [hd] at h; simp only [Res.map] at h; cases h
            | panic p => rw [hd] at h; simp only [Res.map] at h; cases h
          | err e => simp only [afterVerify] at h; cases h
          | panic p => simp only [afterVerify] at h; cases h
        · simp only [hf, Bool.false_eq_true, if_false] at h ⊢
          cases hd : decodeInto cfg true s with
          | ok s' =>
            rw [hd] at h; simp only [Res.map] at h; cases h
            refine ⟨by first | rfl | trivial, _, rfl, rfl, ?_⟩
            exact decodeInto_true_fields cfg _ _ hd
          | err e => rw [hd] at h; simp only [Res.map] at h; cases h
          | panic p => rw [hd] at h; simp only [Res.map] at h; cases h

/-- With decoding off the message is absent. -/
theorem decode_off_no_message (cfg : Cfg) (st : PState) (line : Bytes) (f : Frag)
    (h : (step cfg st line false).2 = ok f) : (Frag.sentence f).message = none := by
  unfold step at h
  cases hp : parseNmeaSentence cfg line with
  | err e => rw [hp] at h; cases h
  | panic p => rw [hp] at h; cases h
  | ok r =>
    obtain ⟨raw, s, cks⟩ := r
    have hs : s.message = none := by
      obtain ⟨b, _, _, hb⟩ := sentence_reports_body cfg line raw s cks hp
      rw [hb]; rfl
    rw [hp] at h
    simp only [] at h
    cases hc : checkChecksum raw cks with
    | err e => rw [hc] at h; cases h
    | panic p => rw [hc] at h; cases h
    | ok u =>
      rw [hc] at h
      simp only [] at h
      unfold stepSentence at h
      by_cases hm : s.hasMore = true
      · simp only [hm, if_true] at h
        generalize verifyAndExtend cfg (if s.fragment_number = 1 then ⟨s.message_id, 0, []⟩ else st) s = ve at h
        obtain ⟨st2, r⟩ := ve
        cases r with
        | ok u => simp only [afterVerify] at h; cases h; exact hs
        | err e => simp only [afterVerify] at h; cases h
        | panic p => simp only [afterVerify] at h; cases h
      · simp only [hm, Bool.false_eq_true, if_false] at h
        by_cases hf : s.isFragment = true
        · simp only [hf, if_true] at h
          generalize verifyAndExtend cfg st s = ve at h
          obtain ⟨st2, r⟩ := ve
          cases r with
          | ok u => simp only [afterVerify, decodeInto_false, Res.map] at h; cases h; exact hs
          | err e => simp only [afterVerify] at h; cases h
          | panic p => simp only [afterVerify] at h; cases h
        · simp only [hf, Bool.false_eq_true, if_false, decodeInto_false, Res.map] at h
          cases h; exact hs

/-! ### The decode flag is an argument of each call -/

/-- **A line's result depends on the other lines through their bytes only, and on its own flag**: two histories
    with the same lines before position `i` (whatever the flags of those lines, and whatever follows) give the
    line at `i`, sent with the same flag, the same result. -/
theorem result_depends_on_own_flag_only (cfg : Cfg) (st : PState) (a a' b b' : List (Bytes × Bool)) (l : Bytes) (d : Bool)
    (ha : a.map (·.1) = a'.map (·.1)) :
    (runD cfg st (a ++ (l, d) :: b)).1[a.length]? = (runD cfg st (a' ++ (l, d) :: b')).1[a'.length]? := by
  rw [runD_result_at cfg false st a b l d, runD_result_at cfg false st a' b' l d, ha]

/-- With decoding off on a line, the line's sentence carries no message - whatever flags the earlier lines
    (the earlier fragments of its group among them) were sent with. -/
theorem decode_off_no_message_flags (cfg : Cfg) (st : PState) (a b : List (Bytes × Bool)) (l : Bytes) (f : Frag)
    (h : (runD cfg st (a ++ (l, false) :: b)).1[a.length]? = some (ok f)) : (Frag.sentence f).message = none := by
  rw [runD_result_at cfg false st a b l false] at h
  exact decode_off_no_message cfg _ l f (Option.some.inj h)

end AisVerif.C07

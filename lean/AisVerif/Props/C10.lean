/-
  C10 — coordinates are sign-extended and scaled exactly; speeds/courses scaled.

  What is proved: for every message type that carries them, longitude/latitude/speed/course/draught
  are reported as the pair (raw integer, scale) where the raw integer is the two's-complement
  (resp. unsigned) reading of the field's own bits at its specified position, for every bit pattern
  including the most negative one, and the scale is the one the statement names.
  The IEEE-754 rounding of `raw as f32 / scale` (second half of this file): Lean's `Float32` is opaque
  to the kernel, so the model computes the reported bit pattern with a software binary32
  (`Model/F32.lean`: `i32 as f32`, `/`, `*`, round to nearest even, on `Nat`), `FOp.bits raw op`.  Proved:
  the pattern is finite and denotes the exact quantity `raw/600000`, `raw/600`, `raw/10`, `raw` up to
  the single-precision roundings the expression performs — exact for the undivided quantities,
  correctly rounded (relative error ≤ 2^-24, one rounding) for every field of at most 24 bits, and
  within 2^-23 + 2^-48 (two roundings: conversion of the 28/27-bit integer, then the division; for
  type 27 the division and the multiplication) otherwise — for every raw value, the most negative
  one included.  That the software binary32 is what the hardware computes is tied on every run: the
  driver prints `FOp.bits`, the correspondence compares it with Rust's `to_bits()` bit for bit
  (exhaustively over all raw values of every scaled field in the sweeps).
-/
import AisVerif.Lemmas.Char
import AisVerif.Spec.Layouts
import AisVerif.Lemmas.F32

namespace AisVerif.C10
open AisVerif Spec

def Reports (m : Msg) (bs : List UInt8) (table : List ScaledSpec) : Prop :=
  ∀ e ∈ table, m.get e.key = some (e.render bs)

theorem reports_nil (m : Msg) (bs : List UInt8) : Reports m bs [] := fun _ h => by cases h

theorem reports_cons {m : Msg} {bs : List UInt8} {e : ScaledSpec} {t : List ScaledSpec}
    (h1 : m.get e.key = some (e.render bs)) (h2 : Reports m bs t) : Reports m bs (e :: t) := by
  intro x hx
  rcases List.mem_cons.mp hx with rfl | hx
  · exact h1
  · exact h2 x hx

macro "scaled_rfl" : tactic =>
  `(tactic| repeat (first | exact reports_nil _ _ | refine reports_cons rfl ?_))

/-! ### Two's complement -/

/-- `toSigned w` is the two's-complement reading: it lies in `[-2^(w-1), 2^(w-1))` and is congruent
    to the raw value modulo `2^w` — for every raw value, including `2^(w-1)` (the most negative). -/
theorem toSigned_spec (w v : Nat) (hw : 0 < w) (hv : v < 2 ^ w) :
    -(2 ^ (w - 1) : Int) ≤ toSigned w v ∧ toSigned w v < 2 ^ (w - 1) ∧
      (toSigned w v = v ∨ toSigned w v = (v : Int) - 2 ^ w) ∧ (toSigned w v < 0 ↔ 2 ^ (w - 1) ≤ v) := by
  have e : (2 : Int) ^ w = 2 * 2 ^ (w - 1) := by
    have : w = (w - 1) + 1 := by omega
    rw [this, Int.pow_succ]; simp; omega
  have hpos : (0 : Int) < 2 ^ (w - 1) := Int.pow_pos (by decide)
  have hv' : (v : Int) < 2 ^ w := by exact_mod_cast hv
  unfold toSigned
  by_cases h : v < 2 ^ (w - 1)
  · have h' : (v : Int) < 2 ^ (w - 1) := by exact_mod_cast h
    rw [if_pos h]
    refine ⟨by omega, h', Or.inl rfl, ?_⟩
    constructor
    · intro hneg; omega
    · intro hge; omega
  · have h' : (2 : Int) ^ (w - 1) ≤ v := by
      have : 2 ^ (w - 1) ≤ v := by omega
      exact_mod_cast this
    rw [if_neg h]
    refine ⟨by omega, by omega, Or.inr rfl, ?_⟩
    constructor
    · intro _; omega
    · intro _; omega

/-- The most negative 28-bit value decodes to -2^27 (not to +2^27, not to an error). -/
example : toSigned 28 (2 ^ 27) = -(2 ^ 27) := by decide

/-- `(raw / 600000) * 1000` and `raw / 600` denote the same rational. -/
theorem type27_scale : FOp.num .div600000mul1000 * FOp.den .div600 = FOp.num .div600 * FOp.den .div600000mul1000 := by
  decide

/-! ### Per type -/

theorem t01 (cfg : Cfg) (bs : List UInt8) (m : Msg) (ht : 1 ≤ field bs 0 6 ∧ field bs 0 6 ≤ 3)
    (h : parseMessage cfg bs = ok m) : Reports m bs Scaled.t01 := by
  rw [decode_of_len cfg bs (parse_ok_len h), dispatch_T01 cfg _ bs ht] at h
  obtain ⟨_, r, _, rfl⟩ := specRadioTail_ok h
  scaled_rfl

theorem t04 (cfg : Cfg) (bs : List UInt8) (m : Msg) (ht : field bs 0 6 = 4)
    (h : parseMessage cfg bs = ok m) : Reports m bs Scaled.t04 := by
  rw [decode_of_len cfg bs (parse_ok_len h), ht, dispatch_T04] at h
  obtain ⟨_, r, _, rfl⟩ := specRadioTail_ok h
  scaled_rfl

theorem t11 (cfg : Cfg) (bs : List UInt8) (m : Msg) (ht : field bs 0 6 = 11)
    (h : parseMessage cfg bs = ok m) : Reports m bs Scaled.t04 := by
  rw [decode_of_len cfg bs (parse_ok_len h), ht, dispatch_T11] at h
  obtain ⟨_, r, _, rfl⟩ := specRadioTail_ok h
  scaled_rfl

theorem t05 (cfg : Cfg) (bs : List UInt8) (m : Msg) (ht : field bs 0 6 = 5)
    (h : parseMessage cfg bs = ok m) : Reports m bs Scaled.t05 := by
  rw [decode_of_len cfg bs (parse_ok_len h), ht, dispatch_T05] at h
  have := (ite_eof_ok h).2; cases this
  scaled_rfl

theorem t09 (cfg : Cfg) (bs : List UInt8) (m : Msg) (ht : field bs 0 6 = 9)
    (h : parseMessage cfg bs = ok m) : Reports m bs Scaled.t09 := by
  rw [decode_of_len cfg bs (parse_ok_len h), ht, dispatch_T09] at h
  obtain ⟨_, r, _, rfl⟩ := specRadioTail_ok h
  scaled_rfl

theorem t17 (cfg : Cfg) (bs : List UInt8) (m : Msg) (ht : field bs 0 6 = 17)
    (h : parseMessage cfg bs = ok m) : Reports m bs Scaled.t17 := by
  rw [decode_of_len cfg bs (parse_ok_len h), ht, dispatch_T17] at h
  have := (capped_ok (ite_eof_ok h).2).1; cases this
  scaled_rfl

theorem t18 (cfg : Cfg) (bs : List UInt8) (m : Msg) (ht : field bs 0 6 = 18)
    (h : parseMessage cfg bs = ok m) : Reports m bs Scaled.t18 := by
  rw [decode_of_len cfg bs (parse_ok_len h), ht, dispatch_T18] at h
  have := (ite_eof_ok h).2; cases this
  scaled_rfl

theorem t19 (cfg : Cfg) (bs : List UInt8) (m : Msg) (ht : field bs 0 6 = 19)
    (h : parseMessage cfg bs = ok m) : Reports m bs Scaled.t18 := by
  rw [decode_of_len cfg bs (parse_ok_len h), ht, dispatch_T19] at h
  have := (ite_eof_ok h).2; cases this
  scaled_rfl

theorem t21 (cfg : Cfg) (bs : List UInt8) (m : Msg) (ht : field bs 0 6 = 21)
    (h : parseMessage cfg bs = ok m) : Reports m bs Scaled.t21 := by
  rw [decode_of_len cfg bs (parse_ok_len h), ht, dispatch_T21] at h
  have := (ite_eof_ok h).2; cases this
  scaled_rfl

theorem t27 (cfg : Cfg) (bs : List UInt8) (m : Msg) (ht : field bs 0 6 = 27)
    (h : parseMessage cfg bs = ok m) : Reports m bs Scaled.t27 := by
  rw [decode_of_len cfg bs (parse_ok_len h), ht, dispatch_T27] at h
  have := (ite_eof_ok h).2; cases this
  unfold Spec.decodeT27
  simp only [ht, if_true]
  scaled_rfl


/-! ### The reported `f32` -/

open F32

/-- Magnitude of the raw integer of a scaled field: below `2^w`, whatever the bits. -/
theorem raw_natAbs_lt (e : ScaledSpec) (bs : List UInt8) (hw : 0 < e.w) : (e.raw bs).natAbs < 2 ^ e.w + 1 := by
  have hf : field bs e.off e.w < 2 ^ e.w := field_lt _ _ _
  unfold ScaledSpec.raw
  split
  · obtain ⟨h1, h2, _, _⟩ := toSigned_spec e.w _ hw hf
    have : (2 : Int) ^ (e.w - 1) ≤ 2 ^ e.w := by
      have : (2 : Nat) ^ (e.w - 1) ≤ 2 ^ e.w := Nat.pow_le_pow_right (by decide) (by omega)
      exact_mod_cast this
    have h3 : ((2 ^ e.w : Nat) : Int) = 2 ^ e.w := by push_cast; rfl
    omega
  · omega

theorem within_mono {b : Nat} {x ε ε' : ℚ} (h : Within b x ε) (hle : ε ≤ ε') : Within b x ε' := by
  obtain ⟨⟨δ, hδ, hv⟩, h1, h2⟩ := h
  exact ⟨⟨δ, le_trans hδ hle, hv⟩, h1, h2⟩

theorem intCast_bounds (raw : Int) (n : Nat) (h : raw.natAbs < 2 ^ n + 1) (hn : n ≤ 64) :
    (raw : ℚ) = 0 ∨ ((2 : ℚ) ^ (-40 : Int) ≤ |(raw : ℚ)| ∧ |(raw : ℚ)| ≤ 2 ^ (64 : Int)) := by
  by_cases h0 : raw = 0
  · left; exact_mod_cast h0
  · right
    have h1 : (1 : ℚ) ≤ |(raw : ℚ)| := by
      have : 1 ≤ |raw| := Int.one_le_abs h0
      exact_mod_cast this
    have h2 : |(raw : ℚ)| ≤ 2 ^ (64 : Int) := by
      have hp : (2 : Nat) ^ n ≤ 2 ^ 64 := Nat.pow_le_pow_right (by decide) hn
      have : |raw| ≤ ((2 ^ 64 : Nat) : Int) := by
        have : (|raw| : Int) = raw.natAbs := Int.abs_eq_natAbs raw
        omega
      have h3 : ((|raw| : Int) : ℚ) ≤ (((2 ^ 64 : Nat) : Int) : ℚ) := by exact_mod_cast this
      have h4 : (((2 ^ 64 : Nat) : Int) : ℚ) = 2 ^ (64 : Int) := by norm_num
      rw [← h4]; simpa using h3
    refine ⟨?_, h2⟩
    have : (2 : ℚ) ^ (-40 : Int) ≤ 1 := by norm_num
    linarith

/-- Undivided quantities (SAR-aircraft speed, type-27 speed and course) are reported **exactly**. -/
theorem bits_ident (raw : Int) (h : raw.natAbs < 2 ^ 24) : toRat (FOp.bits raw .ident) = FOp.exact raw .ident := by
  exact (ofInt_exact raw h).1

/-- A field of at most 24 bits divided by 10, 600 or 600000: the conversion is exact, so the reported
    `f32` is the **correctly rounded** quotient (one rounding, relative error at most `2^-24`). -/
theorem bits_div_narrow (raw : Int) (h : raw.natAbs < 2 ^ 24) (op : FOp)
    (hop : op = .div10 ∨ op = .div600 ∨ op = .div600000) :
    Within (FOp.bits raw op) (FOp.exact raw op) (2 ^ (-24 : Int)) := by
  obtain ⟨hv, hlt, hf⟩ := ofInt_exact raw h
  have hw := within_of_exact hv hlt hf
  have hb := intCast_bounds raw 24 (by omega) (by decide)
  have e0 : (0 : ℚ) + 2 ^ (-24 : Int) + 0 * 2 ^ (-24 : Int) = 2 ^ (-24 : Int) := by ring
  rcases hop with rfl | rfl | rfl
  · have := div_const_within _ _ 0 10 (by decide) (by decide) hw (by norm_num) hb
    rw [e0] at this; exact this
  · have := div_const_within _ _ 0 600 (by decide) (by decide) hw (by norm_num) hb
    rw [e0] at this; exact this
  · have := div_const_within _ _ 0 600000 (by decide) (by decide) hw (by norm_num) hb
    rw [e0] at this; exact this

/-- The 28- and 27-bit coordinates: `raw as f32` rounds once (above `2^24`), the division once more. -/
theorem bits_div600000_wide (raw : Int) (h : raw.natAbs < 2 ^ 28 + 1) :
    Within (FOp.bits raw .div600000) (FOp.exact raw .div600000) (2 ^ (-23 : Int) + 2 ^ (-48 : Int)) := by
  have ha := (ofInt_approx raw (by
    have : (2 : Nat) ^ 28 + 1 ≤ 2 ^ 127 := by decide
    omega)).within
  have hb := intCast_bounds raw 28 h (by decide)
  have := div_const_within _ _ _ 600000 (by decide) (by decide) ha (by norm_num) hb
  refine within_mono this ?_
  norm_num

/-- Type 27: `(raw as f32 / 600000.0) * 1000.0` — exact conversion, two roundings — denotes `raw / 600`. -/
theorem bits_t27 (raw : Int) (h : raw.natAbs < 2 ^ 18 + 1) :
    Within (FOp.bits raw .div600000mul1000) (FOp.exact raw .div600000mul1000) (2 ^ (-23 : Int) + 2 ^ (-48 : Int)) := by
  obtain ⟨hv, hlt, hf⟩ := ofInt_exact raw (by
    have : (2 : Nat) ^ 18 + 1 ≤ 2 ^ 24 := by decide
    omega)
  have hw := within_of_exact hv hlt hf
  have hb := intCast_bounds raw 18 h (by decide)
  have h1 := div_const_within _ _ 0 600000 (by decide) (by decide) hw (by norm_num) hb
  have hA : (raw : ℚ) / ((600000 : Int) : ℚ) = 0 ∨
      ((2 : ℚ) ^ (-40 : Int) ≤ |(raw : ℚ) / ((600000 : Int) : ℚ)| ∧ |(raw : ℚ) / ((600000 : Int) : ℚ)| ≤ 2 ^ (64 : Int)) := by
    rcases hb with hb | ⟨hb1, hb2⟩
    · left; rw [hb]; simp
    · right
      have h1' : (1 : ℚ) ≤ |(raw : ℚ)| := by
        by_contra hc
        have h0 : raw = 0 := by
          by_contra hne
          have : 1 ≤ |raw| := Int.one_le_abs hne
          have : (1 : ℚ) ≤ |(raw : ℚ)| := by exact_mod_cast this
          exact hc this
        rw [h0] at hb1; norm_num at hb1
      rw [abs_div]
      have : |(((600000 : Int) : ℚ))| = 600000 := by norm_num
      rw [this]
      constructor
      · rw [le_div_iff₀ (by norm_num)]
        have : (2 : ℚ) ^ (-40 : Int) * 600000 ≤ 1 := by norm_num
        linarith
      · rw [div_le_iff₀ (by norm_num)]
        have : |(raw : ℚ)| ≤ 2 ^ (64 : Int) * 1 := by linarith
        have h6 : (2 : ℚ) ^ (64 : Int) * 1 ≤ 2 ^ (64 : Int) * 600000 := by norm_num
        linarith
  have h2 := mul_const_within _ _ _ 1000 (by decide) (by decide) h1 (by norm_num) hA
  have e : (raw : ℚ) / ((600000 : Int) : ℚ) * ((1000 : Int) : ℚ) = FOp.exact raw .div600000mul1000 := by
    simp only [FOp.exact]; push_cast; ring
  rw [e] at h2
  refine within_mono h2 ?_
  norm_num

/-- **Every scaled field of every table**: whatever bits are transmitted (the most negative value
    included), the reported `f32` is finite and denotes the field's exact value in degrees / knots /
    metres up to the roundings of the single-precision expression — relative error at most
    `2^-23 + 2^-48`; at most `2^-24` (correctly rounded) when the field has at most 24 bits and a single
    division; none for the undivided quantities. -/
def Scaled.all : List ScaledSpec :=
  Scaled.t01 ++ Scaled.t04 ++ Scaled.t05 ++ Scaled.t09 ++ Scaled.t17 ++ Scaled.t18 ++ Scaled.t21 ++ Scaled.t27

def tolerance (e : ScaledSpec) : ℚ :=
  match e.op with
  | .ident => 0
  | .div600000mul1000 => 2 ^ (-23 : Int) + 2 ^ (-48 : Int)
  | _ => if e.w ≤ 23 then 2 ^ (-24 : Int) else 2 ^ (-23 : Int) + 2 ^ (-48 : Int)

theorem reported_general (e : ScaledSpec) (bs : List UInt8) (hw : 0 < e.w) (hw2 : e.w ≤ 28)
    (h27 : e.op = .div600000mul1000 → e.w ≤ 18) (hid : e.op = .ident → e.w ≤ 23)
    (hdiv : (e.op = .div10 ∨ e.op = .div600) → e.w ≤ 23) :
    Within (FOp.bits (e.raw bs) e.op) (FOp.exact (e.raw bs) e.op) (tolerance e) := by
  have hraw := raw_natAbs_lt e bs hw
  have pw : ∀ {a b : Nat}, a ≤ b → (e.raw bs).natAbs < 2 ^ a + 1 → (e.raw bs).natAbs < 2 ^ b + 1 := by
    intro a b hab h
    have : (2 : Nat) ^ a ≤ 2 ^ b := Nat.pow_le_pow_right (by decide) hab
    omega
  have narrow : e.w ≤ 23 → (e.raw bs).natAbs < 2 ^ 24 := by
    intro h
    have := pw h hraw
    simp only [Nat.reducePow] at *; omega
  cases hop : e.op with
  | ident =>
    have ht : tolerance e = 0 := by simp [tolerance, hop]
    rw [ht]
    have hn := narrow (hid hop)
    exact within_of_exact (bits_ident _ hn) (ofInt_exact _ hn).2.1 (ofInt_exact _ hn).2.2
  | div600000mul1000 =>
    have ht : tolerance e = 2 ^ (-23 : Int) + 2 ^ (-48 : Int) := by simp [tolerance, hop]
    rw [ht]
    exact bits_t27 _ (pw (h27 hop) hraw)
  | div10 =>
    have ht : tolerance e = 2 ^ (-24 : Int) := by simp [tolerance, hop, hdiv (Or.inl hop)]
    rw [ht]
    exact bits_div_narrow _ (narrow (hdiv (Or.inl hop))) _ (Or.inl rfl)
  | div600 =>
    have ht : tolerance e = 2 ^ (-24 : Int) := by simp [tolerance, hop, hdiv (Or.inr hop)]
    rw [ht]
    exact bits_div_narrow _ (narrow (hdiv (Or.inr hop))) _ (Or.inr (Or.inl rfl))
  | div600000 =>
    by_cases h : e.w ≤ 23
    · have ht : tolerance e = 2 ^ (-24 : Int) := by simp [tolerance, hop, h]
      rw [ht]
      exact bits_div_narrow _ (narrow h) _ (Or.inr (Or.inr rfl))
    · have ht : tolerance e = 2 ^ (-23 : Int) + 2 ^ (-48 : Int) := by simp [tolerance, hop, h]
      rw [ht]
      exact bits_div600000_wide _ (pw hw2 hraw)

theorem reported_f32 (e : ScaledSpec) (he : e ∈ Scaled.all) (bs : List UInt8) :
    Within (FOp.bits (e.raw bs) e.op) (FOp.exact (e.raw bs) e.op) (tolerance e) := by
  simp only [Scaled.all, Scaled.t01, Scaled.t04, Scaled.t05, Scaled.t09, Scaled.t17, Scaled.t18, Scaled.t21,
    Scaled.t27, sog10, lon28, lat27, cog12, List.cons_append, List.nil_append, List.mem_cons,
    List.not_mem_nil, or_false] at he
  rcases he with rfl | rfl | rfl | rfl | rfl | rfl | rfl | rfl | rfl | rfl | rfl | rfl | rfl | rfl | rfl | rfl | rfl |
    rfl | rfl | rfl | rfl | rfl | rfl <;>
    exact reported_general _ bs (by decide) (by decide) (by decide) (by decide) (by decide)

/-- The statement as a whole, for any message that reports a table of scaled fields: each such field is either
    absent — exactly when its own 'not available' code was transmitted (C11) — or an `f32` whose bit pattern is
    that of the field's two's-complement (resp. unsigned) reading, scaled as the statement says, correct to the
    roundings of the single-precision expression. -/
theorem reported_value (m : Msg) (bs : List UInt8) (table : List ScaledSpec) (h : Reports m bs table)
    (hsub : ∀ e ∈ table, e ∈ Scaled.all) (e : ScaledSpec) (he : e ∈ table) :
    (m.get e.key = some .none ∧ e.sentinel = some (e.raw bs)) ∨
      (m.get e.key = some (.f32 (e.raw bs) e.op) ∧ e.sentinel ≠ some (e.raw bs) ∧
        Within (FOp.bits (e.raw bs) e.op) (FOp.exact (e.raw bs) e.op) (tolerance e)) := by
  have hv := h e he
  have hw := reported_f32 e (hsub e he) bs
  unfold ScaledSpec.render at hv
  cases hs : e.sentinel with
  | none =>
    right
    rw [hs] at hv
    exact ⟨hv, by simp, hw⟩
  | some s =>
    rw [hs] at hv
    by_cases hr : e.raw bs = s
    · left
      simp only [hr, if_true] at hv
      exact ⟨hv, by rw [hr]⟩
    · right
      simp only [hr, if_false] at hv
      refine ⟨hv, ?_, hw⟩
      intro hc
      exact hr (Option.some.inj hc).symm

/-- Non-vacuity and a hand-checkable instance: 2^27 in a 28-bit longitude is the most negative value,
    −2^27/600000 degrees, and the reported pattern is the single-precision number nearest to it. -/
example : FOp.bits (toSigned 28 (2 ^ 27)) .div600000 = 0xC35FB23B := by decide +kernel

end AisVerif.C10

/-
  C10 — coordinates are sign-extended and scaled exactly; speeds/courses scaled.

  What is proved: for every message type that carries them, longitude/latitude/speed/course/draught
  are reported as the pair (raw integer, scale) where the raw integer is the two's-complement
  (resp. unsigned) reading of the field's own bits at its specified position, for every bit pattern
  including the most negative one, and the scale is the one the statement names.
  What is not proved (Lean's `Float32` is opaque to the kernel): the IEEE-754 rounding of
  `raw as f32 / scale`.  That part is covered by the correspondence (bit-for-bit comparison with
  the same operations evaluated on `Float32` by the driver, and an exact rational check).
-/
import AisVerif.Lemmas.Char
import AisVerif.Spec.Layouts

namespace AisVerif.C10
open AisVerif Spec

def Reports (m : Msg) (bs : List UInt8) (table : List ScaledSpec) : Prop :=
  ∀ e ∈ table, m.get e.key = some (e.render bs)

theorem reports_nil (m : Msg) (bs : List UInt8) : Reports m bs [] := fun _ h => by cases h

theorem reports_cons {m : Msg} {bs : List UInt8} {e : ScaledSpec} {t : List ScaledSpec}
    (h1 : m.get e.key = some (e.render bs)) (h2 : Reports m bs t) : Reports m bs (e :: t) := by
  intro x hx
  rcases List.mem_cons.mp hx with rfl | hx
  · exact h1
  · exact h2 x hx

macro "scaled_rfl" : tactic =>
  `(tactic| repeat (first | exact reports_nil _ _ | refine reports_cons rfl ?_))

/-! ### Two's complement -/

/-- `toSigned w` is the two's-complement reading: it lies in `[-2^(w-1), 2^(w-1))` and is congruent
    to the raw value modulo `2^w` — for every raw value, including `2^(w-1)` (the most negative). -/
theorem toSigned_spec (w v : Nat) (hw : 0 < w) (hv : v < 2 ^ w) :
    -(2 ^ (w - 1) : Int) ≤ toSigned w v ∧ toSigned w v < 2 ^ (w - 1) ∧
      (toSigned w v = v ∨ toSigned w v = (v : Int) - 2 ^ w) ∧ (toSigned w v < 0 ↔ 2 ^ (w - 1) ≤ v) := by
  have e : (2 : Int) ^ w = 2 * 2 ^ (w - 1) := by
    have : w = (w - 1) + 1 := by omega
    rw [this, Int.pow_succ]; simp; omega
  have hpos : (0 : Int) < 2 ^ (w - 1) := Int.pow_pos (by decide)
  have hv' : (v : Int) < 2 ^ w := by exact_mod_cast hv
  unfold toSigned
  by_cases h : v < 2 ^ (w - 1)
  · have h' : (v : Int) < 2 ^ (w - 1) := by exact_mod_cast h
    rw [if_pos h]
    refine ⟨by omega, h', Or.inl rfl, ?_⟩
    constructor
    · intro hneg; omega
    · intro hge; omega
  · have h' : (2 : Int) ^ (w - 1) ≤ v := by
      have : 2 ^ (w - 1) ≤ v := by omega
      exact_mod_cast this
    rw [if_neg h]
    refine ⟨by omega, by omega, Or.inr rfl, ?_⟩
    constructor
    · intro _; omega
    · intro _; omega

/-- The most negative 28-bit value decodes to -2^27 (not to +2^27, not to an error). -/
example : toSigned 28 (2 ^ 27) = -(2 ^ 27) := by decide

/-- `(raw / 600000) * 1000` and `raw / 600` denote the same rational. -/
theorem type27_scale : FOp.num .div600000mul1000 * FOp.den .div600 = FOp.num .div600 * FOp.den .div600000mul1000 := by
  decide

/-! ### Per type -/

theorem t01 (cfg : Cfg) (bs : List UInt8) (m : Msg) (ht : 1 ≤ field bs 0 6 ∧ field bs 0 6 ≤ 3)
    (h : parseMessage cfg bs = ok m) : Reports m bs Scaled.t01 := by
  rw [decode_of_len cfg bs (parse_ok_len h), dispatch_T01 cfg _ bs ht] at h
  obtain ⟨_, r, _, rfl⟩ := specRadioTail_ok h
  scaled_rfl

theorem t04 (cfg : Cfg) (bs : List UInt8) (m : Msg) (ht : field bs 0 6 = 4)
    (h : parseMessage cfg bs = ok m) : Reports m bs Scaled.t04 := by
  rw [decode_of_len cfg bs (parse_ok_len h), ht, dispatch_T04] at h
  obtain ⟨_, r, _, rfl⟩ := specRadioTail_ok h
  scaled_rfl

theorem t11 (cfg : Cfg) (bs : List UInt8) (m : Msg) (ht : field bs 0 6 = 11)
    (h : parseMessage cfg bs = ok m) : Reports m bs Scaled.t04 := by
  rw [decode_of_len cfg bs (parse_ok_len h), ht, dispatch_T11] at h
  obtain ⟨_, r, _, rfl⟩ := specRadioTail_ok h
  scaled_rfl

theorem t05 (cfg : Cfg) (bs : List UInt8) (m : Msg) (ht : field bs 0 6 = 5)
    (h : parseMessage cfg bs = ok m) : Reports m bs Scaled.t05 := by
  rw [decode_of_len cfg bs (parse_ok_len h), ht, dispatch_T05] at h
  have := (ite_eof_ok h).2; cases this
  scaled_rfl

theorem t09 (cfg : Cfg) (bs : List UInt8) (m : Msg) (ht : field bs 0 6 = 9)
    (h : parseMessage cfg bs = ok m) : Reports m bs Scaled.t09 := by
  rw [decode_of_len cfg bs (parse_ok_len h), ht, dispatch_T09] at h
  obtain ⟨_, r, _, rfl⟩ := specRadioTail_ok h
  scaled_rfl

theorem t17 (cfg : Cfg) (bs : List UInt8) (m : Msg) (ht : field bs 0 6 = 17)
    (h : parseMessage cfg bs = ok m) : Reports m bs Scaled.t17 := by
  rw [decode_of_len cfg bs (parse_ok_len h), ht, dispatch_T17] at h
  have := (capped_ok (ite_eof_ok h).2).1; cases this
  scaled_rfl

theorem t18 (cfg : Cfg) (bs : List UInt8) (m : Msg) (ht : field bs 0 6 = 18)
    (h : parseMessage cfg bs = ok m) : Reports m bs Scaled.t18 := by
  rw [decode_of_len cfg bs (parse_ok_len h), ht, dispatch_T18] at h
  have := (ite_eof_ok h).2; cases this
  scaled_rfl

theorem t19 (cfg : Cfg) (bs : List UInt8) (m : Msg) (ht : field bs 0 6 = 19)
    (h : parseMessage cfg bs = ok m) : Reports m bs Scaled.t18 := by
  rw [decode_of_len cfg bs (parse_ok_len h), ht, dispatch_T19] at h
  have := (ite_eof_ok h).2; cases this
  scaled_rfl

theorem t21 (cfg : Cfg) (bs : List UInt8) (m : Msg) (ht : field bs 0 6 = 21)
    (h : parseMessage cfg bs = ok m) : Reports m bs Scaled.t21 := by
  rw [decode_of_len cfg bs (parse_ok_len h), ht, dispatch_T21] at h
  have := (ite_eof_ok h).2; cases this
  scaled_rfl

theorem t27 (cfg : Cfg) (bs : List UInt8) (m : Msg) (ht : field bs 0 6 = 27)
    (h : parseMessage cfg bs = ok m) : Reports m bs Scaled.t27 := by
  rw [decode_of_len cfg bs (parse_ok_len h), ht, dispatch_T27] at h
  have := (ite_eof_ok h).2; cases this
  unfold Spec.decodeT27
  simp only [ht, if_true]
  scaled_rfl

end AisVerif.C10

/-
  C12 — enumerated codes map to the named values, injectively, unknowns preserved.

  Every statement below quantifies over the *complete* code space of its field (16, 4, 32, 256 …
  values) and is checked by kernel evaluation of the whole table (`decide +kernel`): these are
  proofs by exhaustive enumeration of a finite domain, not samples.
-/
import AisVerif.Model.Types
import AisVerif.Spec.Tables
import AisVerif.Lemmas.Take
import AisVerif.Lemmas.Char

namespace AisVerif.C12
open AisVerif Spec

/-! ### Each code maps to the value the specification names -/

theorem navStatus_table : ∀ c : Fin 16, NavigationStatus.parse c.val = Spec.navStatus c.val := by decide +kernel
theorem maneuver_table : ∀ c : Fin 4, ManeuverIndicator.parse c.val = Spec.maneuver c.val := by decide +kernel
theorem epfd_table : ∀ c : Fin 16, EpfdType.parse c.val = Spec.epfd c.val := by decide +kernel
theorem shipType_table : ∀ c : Fin 256, ShipType.parse c.val = Spec.shipType c.val := by decide +kernel
theorem navaid_table : ∀ c : Fin 32, NavaidType.parse c.val = Spec.navaid c.val := by decide +kernel
theorem syncState_table : ∀ c : Fin 4, SyncState.parse c.val = Spec.syncState c.val := by decide +kernel

/-! ### The 'undefined' codes are absent, and only those -/

theorem navStatus_absent : ∀ c : Fin 16, (NavigationStatus.parse c.val = .none ↔ c.val = 15) := by decide +kernel
theorem maneuver_absent : ∀ c : Fin 4, (ManeuverIndicator.parse c.val = .none ↔ c.val = 0) := by decide +kernel
theorem epfd_absent : ∀ c : Fin 16, (EpfdType.parse c.val = .none ↔ (c.val = 0 ∨ c.val = 15)) := by decide +kernel
theorem shipType_absent : ∀ c : Fin 256, (ShipType.parse c.val = .none ↔ (c.val = 0 ∨ 100 ≤ c.val)) := by decide +kernel
theorem navaid_absent : ∀ c : Fin 32, (NavaidType.parse c.val = .none ↔ c.val = 0) := by decide +kernel

/-! ### Distinct codes give distinct values; unassigned codes stay recoverable -/

/-- Converting a ship type back to its number returns the transmitted code for every code 1-99
    (`impl From<ShipType> for u8`). -/
theorem shipType_roundtrip : ∀ c : Fin 256, 1 ≤ c.val → c.val ≤ 99 → shipTypeToU8 (ShipType.parse c.val) = some c.val := by
  decide +kernel

theorem navStatus_code : ∀ c : Fin 16, c.val ≠ 15 → Spec.codeOf Spec.navStatusNames (NavigationStatus.parse c.val) = some c.val := by
  decide +kernel
theorem epfd_code : ∀ c : Fin 16, c.val ≠ 0 → c.val ≠ 15 → Spec.codeOf Spec.epfdNames (EpfdType.parse c.val) = some c.val := by
  decide +kernel
theorem navaid_code : ∀ c : Fin 32, c.val ≠ 0 → Spec.codeOf Spec.navaidNames (NavaidType.parse c.val) = some c.val := by
  decide +kernel
theorem maneuver_injective : ∀ c c' : Fin 4, ManeuverIndicator.parse c.val = ManeuverIndicator.parse c'.val → c = c' := by
  decide +kernel
theorem syncState_injective : ∀ c c' : Fin 4, SyncState.parse c.val = SyncState.parse c'.val → c = c' := by
  decide +kernel

/-- A left inverse gives injectivity on the codes that are not 'undefined'. -/
theorem shipType_injective (c c' : Fin 256) (h1 : 1 ≤ c.val ∧ c.val ≤ 99) (h2 : 1 ≤ c'.val ∧ c'.val ≤ 99)
    (h : ShipType.parse c.val = ShipType.parse c'.val) : c = c' := by
  have a := shipType_roundtrip c h1.1 h1.2
  have b := shipType_roundtrip c' h2.1 h2.2
  rw [h, b] at a
  exact Fin.ext (Option.some.inj a).symm

/-! ### Two-valued fields: both codes named, never the `unreachable!()` arm on a one-bit field -/

theorem twoValued (bs : List UInt8) (p : Nat) :
    Accuracy.parse (field bs p 1) = ok (if field bs p 1 = 0 then .sym "Unaugmented" else .sym "Dgps") ∧
    Dte.from (field bs p 1) = ok (if field bs p 1 = 0 then .sym "Ready" else .sym "NotReady") ∧
    AssignedMode.parse (field bs p 1) = ok (if field bs p 1 = 0 then .sym "Autonomous" else .sym "Assigned") ∧
    CarrierSense.parse (field bs p 1) = ok (if field bs p 1 = 0 then .sym "Sotdma" else .sym "CarrierSense") :=
  ⟨twoWay_field _ _ bs p, twoWay_field _ _ bs p, twoWay_field _ _ bs p, twoWay_field _ _ bs p⟩

/-! ### Inside the messages: each enumerated field is its table applied to the field's own bits -/

structure EnumSpec where
  key : Key
  off : Nat
  w : Nat
  parse : Nat → Val

def EnumSpec.render (e : EnumSpec) (bs : List UInt8) : Val := e.parse (field bs e.off e.w)

def Reports (m : Msg) (bs : List UInt8) (table : List EnumSpec) : Prop :=
  ∀ e ∈ table, m.get e.key = some (e.render bs)

theorem reports_nil (m : Msg) (bs : List UInt8) : Reports m bs [] := fun _ h => by cases h

theorem reports_cons {m : Msg} {bs : List UInt8} {e : EnumSpec} {t : List EnumSpec}
    (h1 : m.get e.key = some (e.render bs)) (h2 : Reports m bs t) : Reports m bs (e :: t) := by
  intro x hx
  rcases List.mem_cons.mp hx with rfl | hx
  · exact h1
  · exact h2 x hx

macro "enum_rfl" : tactic =>
  `(tactic| repeat (first | exact reports_nil _ _ | refine reports_cons rfl ?_))

def e01 : List EnumSpec :=
  [⟨.navigation_status, 38, 4, NavigationStatus.parse⟩, ⟨.position_accuracy, 60, 1, Spec.accuracy⟩,
   ⟨.maneuver_indicator, 143, 2, ManeuverIndicator.parse⟩]
def e04 : List EnumSpec := [⟨.fix_quality, 78, 1, Spec.accuracy⟩, ⟨.epfd_type, 134, 4, EpfdType.parse⟩]
def e05 : List EnumSpec := [⟨.ship_type, 232, 8, ShipType.parse⟩, ⟨.epfd_type, 270, 4, EpfdType.parse⟩]
def e09 : List EnumSpec :=
  [⟨.position_accuracy, 60, 1, Spec.accuracy⟩, ⟨.dte, 142, 1, Spec.dte⟩, ⟨.assigned_mode, 146, 1, Spec.assigned⟩]
def e18 : List EnumSpec :=
  [⟨.position_accuracy, 56, 1, Spec.accuracy⟩, ⟨.cs_unit, 141, 1, Spec.carrierSense⟩, ⟨.assigned_mode, 146, 1, Spec.assigned⟩]
def e19 : List EnumSpec :=
  [⟨.position_accuracy, 56, 1, Spec.accuracy⟩, ⟨.type_of_ship_and_cargo, 263, 8, ShipType.parse⟩,
   ⟨.epfd_type, 301, 4, EpfdType.parse⟩, ⟨.dte, 306, 1, Spec.dte⟩, ⟨.assigned_mode, 307, 1, Spec.assigned⟩]
def e21 : List EnumSpec :=
  [⟨.aid_type, 38, 5, NavaidType.parse⟩, ⟨.accuracy, 163, 1, Spec.accuracy⟩, ⟨.epfd_type, 249, 4, EpfdType.parse⟩]
def e24B : List EnumSpec := [⟨.ship_type, 40, 8, ShipType.parse⟩]
def e27 : List EnumSpec := [⟨.position_accuracy, 38, 1, Spec.accuracy⟩, ⟨.navigation_status, 40, 4, NavigationStatus.parse⟩]

theorem t01 (cfg : Cfg) (bs : List UInt8) (m : Msg) (ht : 1 ≤ field bs 0 6 ∧ field bs 0 6 ≤ 3)
    (h : parseMessage cfg bs = ok m) : Reports m bs e01 := by
  rw [decode_of_len cfg bs (parse_ok_len h), dispatch_T01 cfg _ bs ht] at h
  obtain ⟨_, r, _, rfl⟩ := specRadioTail_ok h
  enum_rfl

theorem t04 (cfg : Cfg) (bs : List UInt8) (m : Msg) (ht : field bs 0 6 = 4)
    (h : parseMessage cfg bs = ok m) : Reports m bs e04 := by
  rw [decode_of_len cfg bs (parse_ok_len h), ht, dispatch_T04] at h
  obtain ⟨_, r, _, rfl⟩ := specRadioTail_ok h
  enum_rfl

theorem t11 (cfg : Cfg) (bs : List UInt8) (m : Msg) (ht : field bs 0 6 = 11)
    (h : parseMessage cfg bs = ok m) : Reports m bs e04 := by
  rw [decode_of_len cfg bs (parse_ok_len h), ht, dispatch_T11] at h
  obtain ⟨_, r, _, rfl⟩ := specRadioTail_ok h
  enum_rfl

theorem t05 (cfg : Cfg) (bs : List UInt8) (m : Msg) (ht : field bs 0 6 = 5)
    (h : parseMessage cfg bs = ok m) : Reports m bs e05 := by
  rw [decode_of_len cfg bs (parse_ok_len h), ht, dispatch_T05] at h
  have := (ite_eof_ok h).2; cases this
  enum_rfl

theorem t09 (cfg : Cfg) (bs : List UInt8) (m : Msg) (ht : field bs 0 6 = 9)
    (h : parseMessage cfg bs = ok m) : Reports m bs e09 := by
  rw [decode_of_len cfg bs (parse_ok_len h), ht, dispatch_T09] at h
  obtain ⟨_, r, _, rfl⟩ := specRadioTail_ok h
  enum_rfl

theorem t18 (cfg : Cfg) (bs : List UInt8) (m : Msg) (ht : field bs 0 6 = 18)
    (h : parseMessage cfg bs = ok m) : Reports m bs e18 := by
  rw [decode_of_len cfg bs (parse_ok_len h), ht, dispatch_T18] at h
  have := (ite_eof_ok h).2; cases this
  enum_rfl

theorem t19 (cfg : Cfg) (bs : List UInt8) (m : Msg) (ht : field bs 0 6 = 19)
    (h : parseMessage cfg bs = ok m) : Reports m bs e19 := by
  rw [decode_of_len cfg bs (parse_ok_len h), ht, dispatch_T19] at h
  have := (ite_eof_ok h).2; cases this
  enum_rfl

theorem t21 (cfg : Cfg) (bs : List UInt8) (m : Msg) (ht : field bs 0 6 = 21)
    (h : parseMessage cfg bs = ok m) : Reports m bs e21 := by
  rw [decode_of_len cfg bs (parse_ok_len h), ht, dispatch_T21] at h
  have := (ite_eof_ok h).2; cases this
  enum_rfl

theorem t24B (cfg : Cfg) (bs : List UInt8) (m : Msg) (ht : field bs 0 6 = 24) (hp : field bs 38 2 = 1)
    (h : parseMessage cfg bs = ok m) : Reports m bs e24B := by
  rw [decode_of_len cfg bs (parse_ok_len h), ht, dispatch_T24] at h
  have h2 := (ite_eof_ok h).2
  rw [if_neg (by omega), if_pos hp] at h2
  have := (ite_eof_ok h2).2; cases this
  enum_rfl

theorem t27 (cfg : Cfg) (bs : List UInt8) (m : Msg) (ht : field bs 0 6 = 27)
    (h : parseMessage cfg bs = ok m) : Reports m bs e27 := by
  rw [decode_of_len cfg bs (parse_ok_len h), ht, dispatch_T27] at h
  have := (ite_eof_ok h).2; cases this
  enum_rfl

end AisVerif.C12

/-
  C04 — every fixed-position field decodes to the transmitted value.

  For each layout (and branch) of ITU-R M.1371 the table `Spec.Layout.*` lists key, offset and width
  of every integer / flag / identifier field.  The theorems say: whenever `messages::parse` returns
  a message for a payload whose type bits select that layout, the message reports under each key
  exactly `field bs off w` — the bits at the specified position, most significant first — whatever
  the neighbouring bits are.  (Sentinel-carrying, scaled, enumerated and text fields are C10-C13;
  the communication state is C16.)
-/
import AisVerif.Lemmas.Char
import AisVerif.Spec.Layouts
import AisVerif.Lemmas.Encode
import AisVerif.Props.C05

namespace AisVerif.C04
open AisVerif Spec

/-- `m` reports every field of `table` as the bits at its specified position. -/
def Reports (m : Msg) (bs : List UInt8) (table : List FieldSpec) : Prop :=
  ∀ e ∈ table, m.get e.key = some (e.render bs)

theorem reports_nil (m : Msg) (bs : List UInt8) : Reports m bs [] := fun _ h => by cases h

theorem reports_cons {m : Msg} {bs : List UInt8} {e : FieldSpec} {t : List FieldSpec}
    (h1 : m.get e.key = some (e.render bs)) (h2 : Reports m bs t) : Reports m bs (e :: t) := by
  intro x hx
  rcases List.mem_cons.mp hx with rfl | hx
  · exact h1
  · exact h2 x hx

theorem reports_append {m : Msg} {bs : List UInt8} {s t : List FieldSpec}
    (h1 : Reports m bs s) (h2 : Reports m bs t) : Reports m bs (s ++ t) := by
  intro x hx
  rcases List.mem_append.mp hx with hx | hx
  · exact h1 x hx
  · exact h2 x hx

/-- Closes `Reports (decodeTxx bs) bs table` for a concrete table: one `rfl` per row. -/
macro "layout_rfl" : tactic =>
  `(tactic| repeat (first | exact reports_nil _ _ | refine reports_cons rfl ?_))

theorem t05 (cfg : Cfg) (bs : List UInt8) (m : Msg) (ht : field bs 0 6 = 5)
    (h : parseMessage cfg bs = ok m) : Reports m bs Layout.t05 := by
  rw [decode_of_len cfg bs (parse_ok_len h), ht, dispatch_T05] at h
  have := (ite_eof_ok h).2; cases this
  layout_rfl

theorem t06 (cfg : Cfg) (bs : List UInt8) (m : Msg) (ht : field bs 0 6 = 6)
    (h : parseMessage cfg bs = ok m) : Reports m bs Layout.t06 := by
  rw [decode_of_len cfg bs (parse_ok_len h), ht, dispatch_T06] at h
  have := (capped_ok (ite_eof_ok h).2).1; cases this
  layout_rfl

theorem t08 (cfg : Cfg) (bs : List UInt8) (m : Msg) (ht : field bs 0 6 = 8)
    (h : parseMessage cfg bs = ok m) : Reports m bs Layout.t08 := by
  rw [decode_of_len cfg bs (parse_ok_len h), ht, dispatch_T08] at h
  have := (capped_ok (ite_eof_ok h).2).1; cases this
  layout_rfl

theorem t10 (cfg : Cfg) (bs : List UInt8) (m : Msg) (ht : field bs 0 6 = 10)
    (h : parseMessage cfg bs = ok m) : Reports m bs Layout.t10 := by
  rw [decode_of_len cfg bs (parse_ok_len h), ht, dispatch_T10] at h
  have := (ite_eof_ok h).2; cases this
  layout_rfl

theorem t12 (cfg : Cfg) (bs : List UInt8) (m : Msg) (ht : field bs 0 6 = 12)
    (h : parseMessage cfg bs = ok m) : Reports m bs Layout.t12 := by
  rw [decode_of_len cfg bs (parse_ok_len h), ht, dispatch_T12] at h
  have := (capped_ok (ite_eof_ok h).2).1; cases this
  layout_rfl

theorem t14 (cfg : Cfg) (bs : List UInt8) (m : Msg) (ht : field bs 0 6 = 14)
    (h : parseMessage cfg bs = ok m) : Reports m bs Layout.t14 := by
  rw [decode_of_len cfg bs (parse_ok_len h), ht, dispatch_T14] at h
  have := (capped_ok (ite_eof_ok h).2).1; cases this
  layout_rfl

theorem t17 (cfg : Cfg) (bs : List UInt8) (m : Msg) (ht : field bs 0 6 = 17)
    (h : parseMessage cfg bs = ok m) : Reports m bs Layout.t17 := by
  rw [decode_of_len cfg bs (parse_ok_len h), ht, dispatch_T17] at h
  have := (capped_ok (ite_eof_ok h).2).1; cases this
  layout_rfl

theorem t18 (cfg : Cfg) (bs : List UInt8) (m : Msg) (ht : field bs 0 6 = 18)
    (h : parseMessage cfg bs = ok m) : Reports m bs Layout.t18 := by
  rw [decode_of_len cfg bs (parse_ok_len h), ht, dispatch_T18] at h
  have := (ite_eof_ok h).2; cases this
  layout_rfl

theorem t19 (cfg : Cfg) (bs : List UInt8) (m : Msg) (ht : field bs 0 6 = 19)
    (h : parseMessage cfg bs = ok m) : Reports m bs Layout.t19 := by
  rw [decode_of_len cfg bs (parse_ok_len h), ht, dispatch_T19] at h
  have := (ite_eof_ok h).2; cases this
  layout_rfl

theorem t21 (cfg : Cfg) (bs : List UInt8) (m : Msg) (ht : field bs 0 6 = 21)
    (h : parseMessage cfg bs = ok m) : Reports m bs Layout.t21 := by
  rw [decode_of_len cfg bs (parse_ok_len h), ht, dispatch_T21] at h
  have := (ite_eof_ok h).2; cases this
  layout_rfl

theorem t27 (cfg : Cfg) (bs : List UInt8) (m : Msg) (ht : field bs 0 6 = 27)
    (h : parseMessage cfg bs = ok m) : Reports m bs Layout.t27 := by
  rw [decode_of_len cfg bs (parse_ok_len h), ht, dispatch_T27] at h
  have := (ite_eof_ok h).2; cases this
  layout_rfl

theorem t16one (cfg : Cfg) (bs : List UInt8) (m : Msg) (ht : field bs 0 6 = 16)
    (h : parseMessage cfg bs = ok m) : Reports m bs Layout.t16one := by
  rw [decode_of_len cfg bs (parse_ok_len h), ht, dispatch_T16] at h
  have := (ite_eof_ok h).2; cases this
  layout_rfl

theorem t01 (cfg : Cfg) (bs : List UInt8) (m : Msg) (ht : 1 ≤ field bs 0 6 ∧ field bs 0 6 ≤ 3)
    (h : parseMessage cfg bs = ok m) : Reports m bs Layout.t01 := by
  rw [decode_of_len cfg bs (parse_ok_len h), dispatch_T01 cfg _ bs ht] at h
  obtain ⟨_, r, _, rfl⟩ := specRadioTail_ok h
  layout_rfl

theorem t04 (cfg : Cfg) (bs : List UInt8) (m : Msg) (ht : field bs 0 6 = 4)
    (h : parseMessage cfg bs = ok m) : Reports m bs Layout.t04 := by
  rw [decode_of_len cfg bs (parse_ok_len h), ht, dispatch_T04] at h
  obtain ⟨_, r, _, rfl⟩ := specRadioTail_ok h
  layout_rfl

theorem t11 (cfg : Cfg) (bs : List UInt8) (m : Msg) (ht : field bs 0 6 = 11)
    (h : parseMessage cfg bs = ok m) : Reports m bs Layout.t04 := by
  rw [decode_of_len cfg bs (parse_ok_len h), ht, dispatch_T11] at h
  obtain ⟨_, r, _, rfl⟩ := specRadioTail_ok h
  layout_rfl

theorem t09 (cfg : Cfg) (bs : List UInt8) (m : Msg) (ht : field bs 0 6 = 9)
    (h : parseMessage cfg bs = ok m) : Reports m bs Layout.t09 := by
  rw [decode_of_len cfg bs (parse_ok_len h), ht, dispatch_T09] at h
  obtain ⟨_, r, _, rfl⟩ := specRadioTail_ok h
  layout_rfl

/-- Type 16 with the second assignment present (144 bits). -/
theorem t16two (cfg : Cfg) (bs : List UInt8) (m : Msg) (ht : field bs 0 6 = 16) (hL : 144 ≤ 8 * bs.length)
    (h : parseMessage cfg bs = ok m) : Reports m bs Layout.t16two := by
  rw [decode_of_len cfg bs (parse_ok_len h), ht, dispatch_T16] at h
  have := (ite_eof_ok h).2; cases this
  simp only [hL, decide_true]
  layout_rfl

theorem t24A (cfg : Cfg) (bs : List UInt8) (m : Msg) (ht : field bs 0 6 = 24) (hp : field bs 38 2 = 0)
    (h : parseMessage cfg bs = ok m) : Reports m bs Layout.t24A := by
  rw [decode_of_len cfg bs (parse_ok_len h), ht, dispatch_T24] at h
  have h2 := (ite_eof_ok h).2
  rw [if_pos hp] at h2
  have := (ite_eof_ok h2).2; cases this
  layout_rfl

theorem t24B (cfg : Cfg) (bs : List UInt8) (m : Msg) (ht : field bs 0 6 = 24) (hp : field bs 38 2 = 1)
    (h : parseMessage cfg bs = ok m) : Reports m bs Layout.t24B := by
  rw [decode_of_len cfg bs (parse_ok_len h), ht, dispatch_T24] at h
  have h2 := (ite_eof_ok h).2
  rw [if_neg (by omega), if_pos hp] at h2
  have := (ite_eof_ok h2).2; cases this
  layout_rfl

/-! ### Lists (types 7, 13, 20): element `i` at its own offset, for every element reported -/

theorem acks_reports (kind : Kind) (bs : List UInt8) (i : Nat) (hi : i < min 4 ((8 * bs.length - 40) / 32)) :
    Reports (Spec.decodeAcks kind bs) bs (Layout.ack i) := by
  unfold Spec.decodeAcks
  have hn : min 4 ((8 * bs.length - 40) / 32) ≤ 4 := Nat.min_le_left _ _
  generalize min 4 ((8 * bs.length - 40) / 32) = n at hi hn
  have hcases : n = 0 ∨ n = 1 ∨ n = 2 ∨ n = 3 ∨ n = 4 := by omega
  have icases : i = 0 ∨ i = 1 ∨ i = 2 ∨ i = 3 := by omega
  rcases hcases with rfl | rfl | rfl | rfl | rfl <;> rcases icases with rfl | rfl | rfl | rfl <;>
    first | omega | (unfold Layout.ack; layout_rfl)

/-- Types 7 and 13: every reported acknowledgement `i` carries MMSI and sequence number from
    bits `40 + 32 i` / `70 + 32 i`; the number reported is `min 4 ((L - 40) / 32)`. -/
theorem t07 (cfg : Cfg) (bs : List UInt8) (m : Msg) (ht : field bs 0 6 = 7)
    (h : parseMessage cfg bs = ok m) :
    Reports m bs Spec.common ∧ m.get .count = some (.nat (min 4 ((8 * bs.length - 40) / 32))) ∧
      ∀ i, i < min 4 ((8 * bs.length - 40) / 32) → Reports m bs (Layout.ack i) := by
  rw [decode_of_len cfg bs (parse_ok_len h), ht, dispatch_T07] at h
  have := (ite_eof_ok h).2; cases this
  refine ⟨by unfold Spec.common; layout_rfl, ?_, fun i hi => acks_reports _ bs i hi⟩
  unfold Spec.decodeAcks Msg.get flattenList
  have hlen : ∀ n q, (elemsFrom Spec.ackAt bs 32 q n).length = n := by
    intro n; induction n with
    | zero => intro q; rfl
    | succ k ih => intro q; simp [elemsFrom, ih]
  rw [hlen]; rfl

theorem t13 (cfg : Cfg) (bs : List UInt8) (m : Msg) (ht : field bs 0 6 = 13)
    (h : parseMessage cfg bs = ok m) :
    Reports m bs Spec.common ∧ m.get .count = some (.nat (min 4 ((8 * bs.length - 40) / 32))) ∧
      ∀ i, i < min 4 ((8 * bs.length - 40) / 32) → Reports m bs (Layout.ack i) := by
  rw [decode_of_len cfg bs (parse_ok_len h), ht, dispatch_T13] at h
  have := (ite_eof_ok h).2; cases this
  refine ⟨by unfold Spec.common; layout_rfl, ?_, fun i hi => acks_reports _ bs i hi⟩
  unfold Spec.decodeAcks Msg.get flattenList
  have hlen : ∀ n q, (elemsFrom Spec.ackAt bs 32 q n).length = n := by
    intro n; induction n with
    | zero => intro q; rfl
    | succ k ih => intro q; simp [elemsFrom, ih]
  rw [hlen]; rfl

theorem reservations_report (bs : List UInt8) (i : Nat) (hi : i < min 4 ((8 * bs.length - 40) / 30)) :
    Reports (Spec.decodeT20 bs) bs (Layout.reservation i) := by
  unfold Spec.decodeT20
  have hn : min 4 ((8 * bs.length - 40) / 30) ≤ 4 := Nat.min_le_left _ _
  generalize min 4 ((8 * bs.length - 40) / 30) = n at hi hn
  have hcases : n = 0 ∨ n = 1 ∨ n = 2 ∨ n = 3 ∨ n = 4 := by omega
  have icases : i = 0 ∨ i = 1 ∨ i = 2 ∨ i = 3 := by omega
  rcases hcases with rfl | rfl | rfl | rfl | rfl <;> rcases icases with rfl | rfl | rfl | rfl <;>
    first | omega | (unfold Layout.reservation; layout_rfl)

/-- Type 20: reservation `i` from bits `40 + 30 i`; `min 4 ((L - 40) / 30)` of them. -/
theorem t20 (cfg : Cfg) (bs : List UInt8) (m : Msg) (ht : field bs 0 6 = 20)
    (h : parseMessage cfg bs = ok m) :
    Reports m bs Spec.common ∧ m.get .count = some (.nat (min 4 ((8 * bs.length - 40) / 30))) ∧
      ∀ i, i < min 4 ((8 * bs.length - 40) / 30) → Reports m bs (Layout.reservation i) := by
  rw [decode_of_len cfg bs (parse_ok_len h), ht, dispatch_T20] at h
  have := (ite_eof_ok h).2; cases this
  refine ⟨by unfold Spec.common; layout_rfl, ?_, fun i hi => reservations_report bs i hi⟩
  unfold Spec.decodeT20 Msg.get flattenList
  have hlen : ∀ n q, (elemsFrom Spec.reservationAt bs 30 q n).length = n := by
    intro n; induction n with
    | zero => intro q; rfl
    | succ k ih => intro q; simp [elemsFrom, ih]
  rw [hlen]; rfl

/-! ### Type 15 -/

/-- Whatever the length, the first station's MMSI is bits 40-69 and its first request type bits 70-75. -/
theorem station40_first (bs : List UInt8) (sts : List (List (Key × Val))) :
    Reports (Spec.renderStations bs ((Spec.station bs 40).1 :: sts)) bs Layout.t15first := by
  unfold Spec.station Spec.interMsg Spec.renderStations
  simp only []
  repeat' split
  all_goals (unfold Layout.t15first Spec.common; layout_rfl)

theorem t15first (cfg : Cfg) (bs : List UInt8) (m : Msg) (ht : field bs 0 6 = 15)
    (h : parseMessage cfg bs = ok m) : Reports m bs Layout.t15first := by
  rw [decode_of_len cfg bs (parse_ok_len h), ht, dispatch_T15] at h
  have h2 := (ite_eof_ok h).2
  unfold Spec.decodeT15 at h2
  split at h2
  · split at h2
    · cases h2; exact station40_first bs _
    · cases h2
  · cases h2; exact station40_first bs _

/-- In the 160-bit form (also when padded to 168 bits) the first station ends at bit 108. -/
theorem station40_end (bs : List UInt8) (hL : 160 ≤ 8 * bs.length) : (Spec.station bs 40).2 = 108 := by
  unfold Spec.station Spec.interMsg
  have a1 : 8 * bs.length - (40 + 30 + 6) ≥ 12 := by omega
  simp only [a1, if_true]
  have a2 : 8 * bs.length - (40 + 30 + 18) ≥ 8 := by omega
  simp only [a2, if_true]
  have a3 : 8 * bs.length - (40 + 30 + 18 + 2 + 6) ≥ 12 := by omega
  simp only [a3, if_true]

/-- Second station of the 160-bit form: MMSI at 110, request type at 140 (after the D6 fix). -/
theorem t15station2 (cfg : Cfg) (bs : List UInt8) (m : Msg) (ht : field bs 0 6 = 15) (hL : 160 ≤ 8 * bs.length)
    (h : parseMessage cfg bs = ok m) : Reports m bs Layout.t15station2 := by
  rw [decode_of_len cfg bs (parse_ok_len h), ht, dispatch_T15] at h
  have h2 := (ite_eof_ok h).2
  unfold Spec.decodeT15 at h2
  rw [station40_end bs hL] at h2
  have a1 : 8 * bs.length - 108 ≥ 30 := by omega
  have a2 : 108 + 38 ≤ 8 * bs.length := by omega
  simp only [a1, a2, if_true, Nat.reduceAdd] at h2
  cases h2
  unfold Spec.station Spec.interMsg Spec.renderStations
  simp only []
  repeat' split
  all_goals (unfold Layout.t15station2; layout_rfl)

/-! ### Independence from the neighbouring fields

`field bs off w` looks at the bits `off … off+w-1` and at nothing else: two payloads that agree on
those bits report the same value, whatever all the other fields hold. -/

theorem field_indep (a b : List UInt8) (off w : Nat)
    (h : ∀ i, off ≤ i → i < off + w → bit a i = bit b i) : field a off w = field b off w := by
  induction w with
  | zero => rfl
  | succ w ih =>
    simp only [field]
    rw [ih (fun i h1 h2 => h i h1 (by omega)), h (off + w) (by omega) (by omega)]

/-- The value a field reports is below `2^w`: it can never carry bits of a neighbour. -/
theorem field_bound (bs : List UInt8) (off w : Nat) : field bs off w < 2 ^ w := field_lt bs off w

/-- Changing a row's bits changes that row only: every other row of a table whose bit range is
    disjoint from `[off, off+w)` renders identically on payloads that differ only inside that range. -/
theorem render_indep (e : FieldSpec) (a b : List UInt8) (off w : Nat)
    (hdisj : e.off + e.w ≤ off ∨ off + w ≤ e.off)
    (hsame : ∀ i, ¬ (off ≤ i ∧ i < off + w) → bit a i = bit b i) : e.render a = e.render b := by
  have : field a e.off e.w = field b e.off e.w :=
    field_indep a b e.off e.w (fun i h1 h2 => hsame i (by omega))
  unfold FieldSpec.render
  rw [this]

/-! ### The statement's own form: transmitted values come back

`encodeRows n rows` (Lemmas/Encode.lean) is the `n`-bit payload that carries each row's value at its
bit offset and width, most significant bit first (`field_encodeRows`: every row reads back).  For
every assignment of values to non-overlapping fields, a message decoded from that payload reports
exactly those values under the keys of the layout table. -/

theorem roundtrip (m : Msg) (table : List FieldSpec) (n : Nat) (rows : List Row) (hok : RowsOK n rows)
    (hrep : Reports m (encodeRows n rows) table) :
    ∀ e ∈ table, ∀ r ∈ rows, r.off = e.off → r.w = e.w → m.get e.key = some (e.renderVal r.v) := by
  intro e he r hr ho hw
  rw [hrep e he]
  have hf := field_encodeRows n rows hok r hr
  rw [ho, hw] at hf
  unfold FieldSpec.render
  rw [hf]

/-- Instance: a type-6 header. Whatever MMSIs, sequence number, flags and application identifier are
    transmitted (each within its width), the decoded message reports exactly them. -/
theorem roundtrip_t06 (cfg : Cfg) (rep mmsi seqno dest retransmit dac fid : Nat) (m : Msg)
    (h1 : rep < 2 ^ 2) (h2 : mmsi < 2 ^ 30) (h3 : seqno < 2 ^ 2) (h4 : dest < 2 ^ 30) (h5 : retransmit < 2 ^ 1)
    (h6 : dac < 2 ^ 10) (h7 : fid < 2 ^ 6)
    (hp : parseMessage cfg (encodeRows 88 [⟨0, 6, 6⟩, ⟨6, 2, rep⟩, ⟨8, 30, mmsi⟩, ⟨38, 2, seqno⟩, ⟨40, 30, dest⟩,
        ⟨70, 1, retransmit⟩, ⟨72, 10, dac⟩, ⟨82, 6, fid⟩]) = ok m) :
    m.get .repeat_indicator = some (.nat rep) ∧ m.get .mmsi = some (.nat mmsi) ∧ m.get .seqno = some (.nat seqno) ∧
    m.get .dest_mmsi = some (.nat dest) ∧ m.get .retransmit = some (.bool (retransmit == 1)) ∧
    m.get .dac = some (.nat dac) ∧ m.get .fid = some (.nat fid) := by
  have hok : RowsOK 88 [⟨0, 6, 6⟩, ⟨6, 2, rep⟩, ⟨8, 30, mmsi⟩, ⟨38, 2, seqno⟩, ⟨40, 30, dest⟩,
      ⟨70, 1, retransmit⟩, ⟨72, 10, dac⟩, ⟨82, 6, fid⟩] := by
    refine ⟨?_, ?_⟩
    · intro r hr
      simp only [List.mem_cons, List.not_mem_nil, or_false] at hr
      rcases hr with rfl | rfl | rfl | rfl | rfl | rfl | rfl | rfl <;> simp only [] <;> omega
    · simp [List.pairwise_cons]
  have ht : field (encodeRows 88 [⟨0, 6, 6⟩, ⟨6, 2, rep⟩, ⟨8, 30, mmsi⟩, ⟨38, 2, seqno⟩, ⟨40, 30, dest⟩,
      ⟨70, 1, retransmit⟩, ⟨72, 10, dac⟩, ⟨82, 6, fid⟩]) 0 6 = 6 :=
    field_encodeRows 88 _ hok ⟨0, 6, 6⟩ (by simp)
  have hrep := t06 cfg _ m ht hp
  have rt := roundtrip m Layout.t06 88 _ hok hrep
  refine ⟨?_, ?_, ?_, ?_, ?_, ?_, ?_⟩
  · exact rt ⟨.repeat_indicator, 6, 2, .nat⟩ (by simp [Layout.t06, Spec.common]) ⟨6, 2, rep⟩ (by simp) rfl rfl
  · exact rt ⟨.mmsi, 8, 30, .nat⟩ (by simp [Layout.t06, Spec.common]) ⟨8, 30, mmsi⟩ (by simp) rfl rfl
  · exact rt ⟨.seqno, 38, 2, .nat⟩ (by simp [Layout.t06, Spec.common]) ⟨38, 2, seqno⟩ (by simp) rfl rfl
  · exact rt ⟨.dest_mmsi, 40, 30, .nat⟩ (by simp [Layout.t06, Spec.common]) ⟨40, 30, dest⟩ (by simp) rfl rfl
  · exact rt ⟨.retransmit, 70, 1, .flag⟩ (by simp [Layout.t06, Spec.common]) ⟨70, 1, retransmit⟩ (by simp) rfl rfl
  · exact rt ⟨.dac, 72, 10, .nat⟩ (by simp [Layout.t06, Spec.common]) ⟨72, 10, dac⟩ (by simp) rfl rfl
  · exact rt ⟨.fid, 82, 6, .nat⟩ (by simp [Layout.t06, Spec.common]) ⟨82, 6, fid⟩ (by simp) rfl rfl


/-! ### The whole pipeline: values → bits → characters → line → parser → values -/

/-- **Transmit and receive.** Take any assignment of values to non-overlapping fields (`rows`), pack it
    into an `n`-bit payload (`n` a multiple of 24, so that bits, characters and bytes all end together:
    72, 96, 168, 312 … bits), armor it, render `!AIVDM,1,1,,A,<payload>,0*<checksum>` and feed that line,
    with decoding on, to a parser in any state, in any build.  Then the answer is `Complete`, carrying
    exactly the message `parseMessage` gives for the packed bytes, the parser state is untouched, and —
    whenever that message reports a layout `table` — every transmitted value comes back under its key. -/
theorem line_roundtrip (cfg : Cfg) (st : PState) (table : List FieldSpec) (n : Nat) (rows : List Row) (m : Msg)
    (hok : RowsOK n rows) (hn : n % 24 = 0) (hpos : 0 < n) (hcap : n / 6 ≤ maxSentence)
    (hp : parseMessage cfg (encodeRows n rows) = ok m)
    (hrep : Reports m (encodeRows n rows) table) :
    step cfg st (C05.renderLine (C05.unfragBody
        (Spec.armor (encodeRows n rows) (8 * (encodeRows n rows).length)).1
        (Spec.armor (encodeRows n rows) (8 * (encodeRows n rows).length)).2)) true =
      (st, ok (Frag.complete { (C05.unfragBody
        (Spec.armor (encodeRows n rows) (8 * (encodeRows n rows).length)).1
        (Spec.armor (encodeRows n rows) (8 * (encodeRows n rows).length)).2).sentence with message := some m })) ∧
    ∀ e ∈ table, ∀ r ∈ rows, r.off = e.off → r.w = e.w → m.get e.key = some (e.renderVal r.v) := by
  refine ⟨?_, roundtrip m table n rows hok hrep⟩
  have hlen : (encodeRows n rows).length = n / 8 := by
    unfold encodeRows; rw [packBits_length]; omega
  have hne : encodeRows n rows ≠ [] := by
    intro h; rw [h] at hlen; simp at hlen; omega
  have hsz : (8 * (encodeRows n rows).length + 5) / 6 ≤ maxSentence := by rw [hlen]; unfold maxSentence at *; omega
  have hpad : Spec.unarmorLen ((8 * (encodeRows n rows).length + 5) / 6) - (encodeRows n rows).length = 0 := by
    rw [hlen]; unfold Spec.unarmorLen; omega
  have h := C05.unfragmented_line_decodes cfg st (encodeRows n rows) hne hsz
  rw [hpad] at h
  simp only [List.replicate_zero, List.append_nil, hp, Res.ok_bind] at h
  exact h

/-- Non-vacuity: a 72-bit type-10 inquiry (type, repeat, MMSI, destination) meets the side conditions. -/
example : RowsOK 72 [⟨0, 6, 10⟩, ⟨6, 2, 1⟩, ⟨8, 30, 227006760⟩, ⟨40, 30, 2655651⟩] ∧ 72 % 24 = 0 ∧ 72 / 6 ≤ maxSentence := by
  refine ⟨⟨?_, ?_⟩, by decide, by decide⟩
  · intro r hr
    simp only [List.mem_cons, List.not_mem_nil, or_false] at hr
    rcases hr with rfl | rfl | rfl | rfl <;> simp only [] <;> omega
  · simp [List.pairwise_cons]


/-- **A complete instance, nothing assumed:** for every repeat indicator, source and destination MMSI (each
    within its width), in every build and parser state, the UTC-inquiry line built from them is answered
    with a `Complete` sentence whose decoded message is a `UtcDateInquiry` reporting exactly those values. -/
theorem line_roundtrip_t10 (cfg : Cfg) (st : PState) (rep mmsi dest : Nat)
    (h1 : rep < 2 ^ 2) (h2 : mmsi < 2 ^ 30) (h3 : dest < 2 ^ 30) :
    ∃ m : Msg, ∃ s : Sentence,
      step cfg st (C05.renderLine (C05.unfragBody
        (Spec.armor (encodeRows 72 [⟨0, 6, 10⟩, ⟨6, 2, rep⟩, ⟨8, 30, mmsi⟩, ⟨40, 30, dest⟩]) (8 * (encodeRows 72 [⟨0, 6, 10⟩, ⟨6, 2, rep⟩, ⟨8, 30, mmsi⟩, ⟨40, 30, dest⟩]).length)).1
        (Spec.armor (encodeRows 72 [⟨0, 6, 10⟩, ⟨6, 2, rep⟩, ⟨8, 30, mmsi⟩, ⟨40, 30, dest⟩]) (8 * (encodeRows 72 [⟨0, 6, 10⟩, ⟨6, 2, rep⟩, ⟨8, 30, mmsi⟩, ⟨40, 30, dest⟩]).length)).2)) true
        = (st, ok (Frag.complete s)) ∧
      s.message = some m ∧ m.kind = .UtcDateInquiry ∧
      m.get .message_type = some (.nat 10) ∧ m.get .repeat_indicator = some (.nat rep) ∧
      m.get .mmsi = some (.nat mmsi) ∧ m.get .dest_mmsi = some (.nat dest) := by
  have hok : RowsOK 72 [⟨0, 6, 10⟩, ⟨6, 2, rep⟩, ⟨8, 30, mmsi⟩, ⟨40, 30, dest⟩] := by
    refine ⟨?_, ?_⟩
    · intro r hr
      simp only [List.mem_cons, List.not_mem_nil, or_false] at hr
      rcases hr with rfl | rfl | rfl | rfl <;> simp only [] <;> omega
    · simp [List.pairwise_cons]
  generalize hbs : encodeRows 72 [⟨0, 6, 10⟩, ⟨6, 2, rep⟩, ⟨8, 30, mmsi⟩, ⟨40, 30, dest⟩] = bs at *
  have ht : field bs 0 6 = 10 := by
    rw [← hbs]; exact field_encodeRows 72 _ hok ⟨0, 6, 10⟩ (by simp)
  have hlen : bs.length = 9 := by rw [← hbs]; unfold encodeRows; rw [packBits_length]
  have hp : parseMessage cfg bs = ok (Spec.decodeT10 bs) := by
    rw [decode_of_len cfg bs (by omega), ht, dispatch_T10, if_pos (by omega)]
  have hrep := t10 cfg bs _ ht hp
  have lr := line_roundtrip cfg st Layout.t10 72 [⟨0, 6, 10⟩, ⟨6, 2, rep⟩, ⟨8, 30, mmsi⟩, ⟨40, 30, dest⟩] (Spec.decodeT10 bs)
    hok (by decide) (by decide) (by decide) (by rw [hbs]; exact hp) (by rw [hbs]; exact hrep)
  rw [hbs] at lr
  refine ⟨Spec.decodeT10 bs, _, lr.1, rfl, rfl, ?_, ?_, ?_, ?_⟩
  · exact lr.2 ⟨.message_type, 0, 6, .nat⟩ (by simp [Layout.t10, Spec.common]) ⟨0, 6, 10⟩ (by simp) rfl rfl
  · exact lr.2 ⟨.repeat_indicator, 6, 2, .nat⟩ (by simp [Layout.t10, Spec.common]) ⟨6, 2, rep⟩ (by simp) rfl rfl
  · exact lr.2 ⟨.mmsi, 8, 30, .nat⟩ (by simp [Layout.t10, Spec.common]) ⟨8, 30, mmsi⟩ (by simp) rfl rfl
  · exact lr.2 ⟨.dest_mmsi, 40, 30, .nat⟩ (by simp [Layout.t10, Spec.common]) ⟨40, 30, dest⟩ (by simp) rfl rfl

end AisVerif.C04

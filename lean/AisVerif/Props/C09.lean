/-
  C09 — the decoded variant follows the 6-bit type; unsupported types are errors.
-/
import AisVerif.Lemmas.Inv

namespace AisVerif.C09
open AisVerif Spec

/-- The table of the statement. -/
def kindOf (t : Nat) : Option Kind :=
  if 1 ≤ t ∧ t ≤ 3 then some .PositionReport
  else if t = 4 then some .BaseStationReport
  else if t = 5 then some .StaticAndVoyageRelatedData
  else if t = 7 then some .BinaryAcknowledgeMessage
  else if t = 6 then some .BinaryAddressedMessage
  else if t = 8 then some .BinaryBroadcastMessage
  else if t = 9 then some .StandardAircraftPositionReport
  else if t = 10 then some .UtcDateInquiry
  else if t = 11 then some .UtcDateResponse
  else if t = 12 then some .AddressedSafetyRelatedMessage
  else if t = 13 then some .SafetyRelatedAcknowledgment
  else if t = 14 then some .SafetyRelatedBroadcastMessage
  else if t = 15 then some .Interrogation
  else if t = 16 then some .AssignmentModeCommand
  else if t = 17 then some .DgnssBroadcastBinaryMessage
  else if t = 18 then some .StandardClassBPositionReport
  else if t = 19 then some .ExtendedClassBPositionReport
  else if t = 20 then some .DataLinkManagementMessage
  else if t = 21 then some .AidToNavigationReport
  else if t = 24 then some .StaticDataReport
  else if t = 27 then some .LongRangeAisBroadcastMessage
  else none

/-- What every decoded message starts with. -/
def HasHeader (bs : List UInt8) (m : Msg) : Prop := ∃ rest, m.fields = Spec.hdr bs ++ rest

theorem header_type {bs : List UInt8} {m : Msg} (h : HasHeader bs m) :
    m.get .message_type = some (.nat (field bs 0 6)) := by
  obtain ⟨rest, hr⟩ := h
  unfold Msg.get; rw [hr]; rfl

/-- Whichever decoder is selected (by the payload's own six bits, or by a caller addressing a per-type decoder
    directly), a decoded message has that decoder's kind and starts with the header read from the payload. -/
theorem dispatch_kind_gen (cfg : Cfg) (t : Nat) (bs : List UInt8) (m : Msg)
    (h : Spec.dispatch cfg t bs = ok m) :
    some m.kind = kindOf t ∧ HasHeader bs m := by
  unfold Spec.dispatch at h
  unfold kindOf
  simp only [] at h
  by_cases c0 : 1 ≤ t ∧ t ≤ 3
  · rw [if_pos c0] at h; rw [if_pos c0]
    obtain ⟨_, r, _, rfl⟩ := specRadioTail_ok h; exact ⟨rfl, _, rfl⟩
  rw [if_neg c0] at h; rw [if_neg c0]
  by_cases c1 : t = 4
  · rw [if_pos c1] at h; rw [if_pos c1]
    obtain ⟨_, r, _, rfl⟩ := specRadioTail_ok h; exact ⟨rfl, _, rfl⟩
  rw [if_neg c1] at h; rw [if_neg c1]
  by_cases c2 : t = 5
  · rw [if_pos c2] at h; rw [if_pos c2]
    have := (ite_eof_ok h).2; cases this; exact ⟨rfl, _, rfl⟩
  rw [if_neg c2] at h; rw [if_neg c2]
  by_cases c3 : t = 7
  · rw [if_pos c3] at h; rw [if_pos c3]
    have := (ite_eof_ok h).2; cases this; exact ⟨rfl, _, rfl⟩
  rw [if_neg c3] at h; rw [if_neg c3]
  by_cases c4 : t = 6
  · rw [if_pos c4] at h; rw [if_pos c4]
    have := (capped_ok (ite_eof_ok h).2).1; cases this; exact ⟨rfl, _, rfl⟩
  rw [if_neg c4] at h; rw [if_neg c4]
  by_cases c5 : t = 8
  · rw [if_pos c5] at h; rw [if_pos c5]
    have := (capped_ok (ite_eof_ok h).2).1; cases this; exact ⟨rfl, _, rfl⟩
  rw [if_neg c5] at h; rw [if_neg c5]
  by_cases c6 : t = 9
  · rw [if_pos c6] at h; rw [if_pos c6]
    obtain ⟨_, r, _, rfl⟩ := specRadioTail_ok h; exact ⟨rfl, _, rfl⟩
  rw [if_neg c6] at h; rw [if_neg c6]
  by_cases c7 : t = 10
  · rw [if_pos c7] at h; rw [if_pos c7]
    have := (ite_eof_ok h).2; cases this; exact ⟨rfl, _, rfl⟩
  rw [if_neg c7] at h; rw [if_neg c7]
  by_cases c8 : t = 11
  · rw [if_pos c8] at h; rw [if_pos c8]
    obtain ⟨_, r, _, rfl⟩ := specRadioTail_ok h; exact ⟨rfl, _, rfl⟩
  rw [if_neg c8] at h; rw [if_neg c8]
  by_cases c9 : t = 12
  · rw [if_pos c9] at h; rw [if_pos c9]
    have := (capped_ok (ite_eof_ok h).2).1; cases this; exact ⟨rfl, _, rfl⟩
  rw [if_neg c9] at h; rw [if_neg c9]
  by_cases c10 : t = 13
  · rw [if_pos c10] at h; rw [if_pos c10]
    have := (ite_eof_ok h).2; cases this; exact ⟨rfl, _, rfl⟩
  rw [if_neg c10] at h; rw [if_neg c10]
  by_cases c11 : t = 14
  · rw [if_pos c11] at h; rw [if_pos c11]
    have := (capped_ok (ite_eof_ok h).2).1; cases this; exact ⟨rfl, _, rfl⟩
  rw [if_neg c11] at h; rw [if_neg c11]
  by_cases c12 : t = 15
  · rw [if_pos c12] at h; rw [if_pos c12]
    obtain ⟨sts, rfl⟩ := decodeT15_ok (ite_eof_ok h).2; exact ⟨rfl, _, rfl⟩
  rw [if_neg c12] at h; rw [if_neg c12]
  by_cases c13 : t = 16
  · rw [if_pos c13] at h; rw [if_pos c13]
    have := (ite_eof_ok h).2; cases this; exact ⟨rfl, _, List.append_assoc _ _ _⟩
  rw [if_neg c13] at h; rw [if_neg c13]
  by_cases c14 : t = 17
  · rw [if_pos c14] at h; rw [if_pos c14]
    have := (capped_ok (ite_eof_ok h).2).1; cases this; exact ⟨rfl, _, rfl⟩
  rw [if_neg c14] at h; rw [if_neg c14]
  by_cases c15 : t = 18
  · rw [if_pos c15] at h; rw [if_pos c15]
    have := (ite_eof_ok h).2; cases this; exact ⟨rfl, _, rfl⟩
  rw [if_neg c15] at h; rw [if_neg c15]
  by_cases c16 : t = 19
  · rw [if_pos c16] at h; rw [if_pos c16]
    have := (ite_eof_ok h).2; cases this; exact ⟨rfl, _, rfl⟩
  rw [if_neg c16] at h; rw [if_neg c16]
  by_cases c17 : t = 20
  · rw [if_pos c17] at h; rw [if_pos c17]
    have := (ite_eof_ok h).2; cases this; exact ⟨rfl, _, rfl⟩
  rw [if_neg c17] at h; rw [if_neg c17]
  by_cases c18 : t = 21
  · rw [if_pos c18] at h; rw [if_pos c18]
    have := (ite_eof_ok h).2; cases this; exact ⟨rfl, _, rfl⟩
  rw [if_neg c18] at h; rw [if_neg c18]
  by_cases c19 : t = 24
  · rw [if_pos c19] at h; rw [if_pos c19]
    have h2 := (ite_eof_ok h).2
    by_cases p0 : field bs 38 2 = 0
    · rw [if_pos p0] at h2; have := (ite_eof_ok h2).2; cases this; exact ⟨rfl, _, rfl⟩
    · rw [if_neg p0] at h2
      by_cases p1 : field bs 38 2 = 1
      · rw [if_pos p1] at h2; have := (ite_eof_ok h2).2; cases this; exact ⟨rfl, _, rfl⟩
      · rw [if_neg p1] at h2; cases h2; exact ⟨rfl, _, rfl⟩
  rw [if_neg c19] at h; rw [if_neg c19]
  by_cases c20 : t = 27
  · rw [if_pos c20] at h; rw [if_pos c20]
    have := (ite_eof_ok h).2; cases this; exact ⟨rfl, _, rfl⟩
  rw [if_neg c20] at h; rw [if_neg c20]
  cases h

theorem dispatch_kind (cfg : Cfg) (bs : List UInt8) (m : Msg)
    (h : Spec.dispatch cfg (field bs 0 6) bs = ok m) :
    some m.kind = kindOf (field bs 0 6) ∧ HasHeader bs m := dispatch_kind_gen cfg _ bs m h

/-- **C09, first half.** A decoded message has the kind the table assigns to the first six payload
    bits, and its own type field equals those six bits. -/
theorem parse_kind (cfg : Cfg) (bs : List UInt8) (m : Msg) (h : parseMessage cfg bs = ok m) :
    some m.kind = kindOf (field bs 0 6) ∧ m.get .message_type = some (.nat (field bs 0 6)) := by
  rw [parseMessage_eq] at h
  unfold Spec.decode at h
  have h2 := (ite_eof_ok h).2
  have := dispatch_kind cfg bs m h2
  exact ⟨this.1, header_type this.2⟩

/-- The per-type public decoders (`<Type as AisMessageType>::parse`, model `parseAs`) are the arms of the dispatch. -/
theorem parseAs_eq (cfg : Cfg) (t : Nat) (bs : List UInt8) : parseAs cfg t bs = Spec.dispatch cfg t bs := by
  unfold parseAs Spec.dispatch
  simp only [parseT01_eq, parseT04, parseT11, parseT07, parseT13, parseBaseStation_eq, parseT09_eq, parseT05_eq,
    parseAckMsg_eq, parseT06_eq, parseT08_eq, parseT10_eq, parseT12_eq, parseT14_eq, parseT15_eq, parseT16_eq,
    parseT17_eq, parseT18_eq, parseT19_eq, parseT20_eq, parseT21_eq, parseT24_eq, parseT27_eq,
    Spec.capped, Spec.eof]

/-- A message reported by a per-type decoder — even one handed another type's payload — has that decoder's kind, and
    its own type field is the first six bits of the payload it was given. -/
theorem parseAs_kind (cfg : Cfg) (t : Nat) (bs : List UInt8) (m : Msg) (h : parseAs cfg t bs = ok m) :
    some m.kind = kindOf t ∧ m.get .message_type = some (.nat (field bs 0 6)) := by
  rw [parseAs_eq] at h
  have := dispatch_kind_gen cfg t bs m h
  exact ⟨this.1, header_type this.2⟩

/-- `messages::parse` never panics (also used by C01). -/
theorem parseMessage_ne_panic (cfg : Cfg) (bs : List UInt8) (p : Panic) : parseMessage cfg bs ≠ panic p := by
  rw [parseMessage_eq]
  exact decode_noPanic cfg bs p

/-- **C09, second half.** Every other type value (0, 22, 23, 25, 26, 28-63), and the empty payload,
    yield an error. -/
theorem unsupported_err (cfg : Cfg) (bs : List UInt8) (h : kindOf (field bs 0 6) = none ∨ bs = []) :
    ∃ e, parseMessage cfg bs = err e := by
  cases hp : parseMessage cfg bs with
  | err e => exact ⟨e, rfl⟩
  | ok m =>
    exfalso
    have := (parse_kind cfg bs m hp).1
    rcases h with h | h
    · rw [h] at this; cases this
    · subst h
      rw [parseMessage_eq] at hp
      unfold Spec.decode at hp
      have := (ite_eof_ok hp).1
      simp at this
  | panic p =>
    exact absurd hp (parseMessage_ne_panic cfg bs p)

/-- The table is what the statement lists: exactly these 23 values are supported. -/
theorem kindOf_supported (t : Nat) (ht : t < 64) :
    (kindOf t).isSome = decide (t ∈ [1, 2, 3, 4, 5, 6, 7, 8, 9, 10, 11, 12, 13, 14, 15, 16, 17, 18, 19, 20, 21, 24, 27]) := by
  have : ∀ t : Fin 64, (kindOf t.val).isSome =
      decide (t.val ∈ [1, 2, 3, 4, 5, 6, 7, 8, 9, 10, 11, 12, 13, 14, 15, 16, 17, 18, 19, 20, 21, 24, 27]) := by decide
  exact this ⟨t, ht⟩

/-- Non-vacuity: a 168-bit type-1 payload of zeros decodes as a position report. -/
example : Spec.decode .std ([4] ++ List.replicate 20 0) =
    ok (Spec.decodeT01 ([4] ++ List.replicate 20 0) (Spec.sotdma 0)) := by rfl

end AisVerif.C09

/-
  C20 — the command-line tool survives any input stream.

  The model of the tool (Model/Cli.lean) is a fold of the proved `step` function over the records
  of `BufRead::split(b'\n')`.  Proved: it reaches end of input with exit status success for every
  byte stream; it writes exactly one record per line that completes a message (stdout) or is
  rejected (stderr), none for incomplete fragments, in input order; a line's content affects other
  lines' records only through the parser state (so no-trace lines, C17, affect nothing else).
  Not provable here (process level, compared by the correspondence check against the real
  binary): Rust's `Debug` text of the records, pipes, the numeric exit code.
-/
import AisVerif.Model.Cli
import AisVerif.Props.C01
import AisVerif.Props.C17

namespace AisVerif.C20
open AisVerif

/-- Records never contain the separator. -/
theorem split_no_newline : ∀ (n : Nat) (bs : Bytes), bs.length ≤ n → ∀ l ∈ splitNewline bs, (0x0A : UInt8) ∉ l := by
  intro n
  induction n with
  | zero =>
    intro bs hn l hl
    have : bs = [] := by cases bs <;> simp_all
    subst this; unfold splitNewline at hl; simp at hl
  | succ n ih =>
    intro bs hn l hl
    unfold splitNewline at hl
    by_cases hb : bs = []
    · rw [if_pos hb] at hl; cases hl
    · rw [if_neg hb] at hl
      split at hl
      · simp only [List.mem_singleton] at hl
        subst hl
        exact not_mem_takeWhile_ne 0x0A bs
      · rename_i x rest hd
        simp only [List.mem_cons] at hl
        rcases hl with rfl | hl
        · exact not_mem_takeWhile_ne 0x0A bs
        · have hs : (bs.dropWhile (· != 0x0A)).length ≤ bs.length := (List.dropWhile_suffix _).length_le
          rw [hd] at hs
          simp at hs
          exact ih rest (by omega) l hl

/-- One line never makes the tool abort. -/
theorem cliLine_no_panic (st : PState) (line : Bytes) : (cliLine st line).2.2 = false := by
  unfold cliLine
  have := C01.step_total .std st line true
  generalize step .std st line true = r at this
  obtain ⟨st', res⟩ := r
  cases res with
  | ok f => cases f <;> rfl
  | err e => rfl
  | panic p => exact absurd rfl (this p)

/-- **The tool processes any byte stream to the end and exits successfully.** -/
theorem cli_total : ∀ (lines : List Bytes) (st : PState), (cliLoop st lines).2 = .success := by
  intro lines
  induction lines with
  | nil => intro st; rfl
  | cons l ls ih =>
    intro st
    unfold cliLoop
    have h := cliLine_no_panic st l
    generalize cliLine st l = r at h
    obtain ⟨st', rec, b⟩ := r
    simp only at h
    subst h
    simp only []
    exact ih st'

theorem cliRun_success (stdin : Bytes) : (cliRun stdin).2 = .success := cli_total _ _

/-- The record (if any) a line produces, from the parser's result for that line. -/
def recordOf (line : Bytes) : Res Frag → Option Record
  | ok (.complete s) => some (.stdout line s.message)
  | ok (.incomplete _) => none
  | err e => some (.stderr line e)
  | panic _ => none

theorem cliLine_eq (st : PState) (l : Bytes) :
    cliLine st l = ((step .std st l true).1, recordOf l (step .std st l true).2, false) := by
  have hnp := C01.step_total .std st l true
  unfold cliLine
  generalize step .std st l true = r at hnp ⊢
  obtain ⟨st', res⟩ := r
  cases res with
  | ok f => cases f <;> rfl
  | err e => rfl
  | panic p => exact absurd rfl (hnp p)

theorem cliLoop_cons (st : PState) (l : Bytes) (ls : List Bytes) :
    cliLoop st (l :: ls) =
      ((recordOf l (step .std st l true).2).toList ++ (cliLoop (step .std st l true).1 ls).1,
       (cliLoop (step .std st l true).1 ls).2) := by
  show (match cliLine st l with
    | (_, _, true) => ([], Exit.panicked)
    | (st', r, false) => (r.toList ++ (cliLoop st' ls).1, (cliLoop st' ls).2)) = _
  rw [cliLine_eq]

/-- **Records are exactly the per-line outcomes, in input order**: the output is the list of
    `recordOf line (parser result for line)` over the lines, in order, with the `none`s dropped —
    one record per Complete (stdout) or rejected (stderr) line, nothing for Incomplete. -/
theorem cli_records : ∀ (lines : List Bytes) (st : PState),
    (cliLoop st lines).1 =
      ((lines.zip (run .std true st lines).1).filterMap fun (l, r) => recordOf l r) := by
  intro lines
  induction lines with
  | nil => intro st; rfl
  | cons l ls ih =>
    intro st
    rw [cliLoop_cons]
    simp only [run, List.zip_cons_cons, List.filterMap_cons]
    rw [ih]
    cases recordOf l (step .std st l true).2 <;> rfl

theorem run_length : ∀ (ls : List Bytes) (st : PState), (run .std true st ls).1.length = ls.length := by
  intro ls
  induction ls with
  | nil => intro st; rfl
  | cons x xs ih => intro st; simp only [run, List.length_cons]; rw [ih]

/-- **No line content affects the handling of any other line** beyond the parser's reassembly
    state: a line that leaves no trace (malformed, bad checksum, out of sequence, unfragmented —
    C17) can be removed without changing any other line's record. -/
theorem cli_line_local (st : PState) (h1 h2 : List Bytes) (l : Bytes)
    (hnt : C17.NoTrace .std (run .std true st h1).2 l) :
    (cliLoop st (h1 ++ l :: h2)).1 =
      (cliLoop st h1).1 ++ (recordOf l (step .std (run .std true st h1).2 l true).2).toList ++
        (cliLoop (run .std true st h1).2 h2).1 ∧
    (cliLoop st (h1 ++ h2)).1 = (cliLoop st h1).1 ++ (cliLoop (run .std true st h1).2 h2).1 := by
  obtain ⟨a, b, _⟩ := C17.remove_noTrace .std true st h1 h2 l hnt
  rw [cli_records, cli_records, cli_records, cli_records, a, b]
  have hl : h1.length = (run .std true st h1).1.length := (run_length h1 st).symm
  constructor
  · rw [List.zip_append hl]
    simp only [List.zip_cons_cons, List.filterMap_append, List.filterMap_cons]
    cases recordOf l (step .std (run .std true st h1).2 l true).2 <;> simp
  · rw [List.zip_append hl]
    simp only [List.filterMap_append]

/-- Non-vacuity: the empty input has no records and the tool exits successfully on it. -/
theorem split_nil : splitNewline [] = [] := by rw [splitNewline]; simp

/-! ### A line is what stands between two line feeds, however long -/

theorem takeWhile_append_sep (l rest : Bytes) (h : (0x0A : UInt8) ∉ l) :
    (l ++ 0x0A :: rest).takeWhile (· != 0x0A) = l ∧ (l ++ 0x0A :: rest).dropWhile (· != 0x0A) = 0x0A :: rest := by
  induction l with
  | nil => simp
  | cons x t ih =>
    have hx : (x != 0x0A) = true := by
      simp only [List.mem_cons, not_or] at h
      simp only [bne_iff_ne, ne_eq]
      exact fun e => h.1 e.symm
    have ht : (0x0A : UInt8) ∉ t := fun hm => h (List.mem_cons_of_mem _ hm)
    obtain ⟨a, b⟩ := ih ht
    simp only [List.cons_append, List.takeWhile_cons, List.dropWhile_cons, hx, if_true]
    exact ⟨by rw [a], b⟩

/-- **The first record of a stream is everything before its first line feed - whatever its length and
    content - and the rest of the stream is split on its own.**  No block size, no length limit, no byte with a
    special meaning besides the line feed enters. -/
theorem split_cons (l rest : Bytes) (h : (0x0A : UInt8) ∉ l) :
    splitNewline (l ++ 0x0A :: rest) = l :: splitNewline rest := by
  obtain ⟨a, b⟩ := takeWhile_append_sep l rest h
  rw [splitNewline]
  have hne : ¬ (l ++ 0x0A :: rest = []) := by simp
  rw [if_neg hne]
  split
  · rename_i hd; rw [b] at hd; cases hd
  · rename_i x r hd
    rw [b] at hd
    cases hd
    rw [a]

/-- A last line without a line feed is a record too. -/
theorem split_last (l : Bytes) (hne : l ≠ []) (h : (0x0A : UInt8) ∉ l) : splitNewline l = [l] := by
  have hne' : ∀ (m : Bytes), (0x0A : UInt8) ∉ m → m.takeWhile (· != 0x0A) = m ∧ m.dropWhile (· != 0x0A) = [] := by
    intro m
    induction m with
    | nil => intro _; exact ⟨rfl, rfl⟩
    | cons x t ih =>
      intro hm
      have hx : (x != 0x0A) = true := by
        simp only [List.mem_cons, not_or] at hm
        simp only [bne_iff_ne, ne_eq]
        exact fun e => hm.1 e.symm
      obtain ⟨a, b⟩ := ih (fun hh => hm (List.mem_cons_of_mem _ hh))
      simp only [List.takeWhile_cons, List.dropWhile_cons, hx, if_true]
      exact ⟨by rw [a], b⟩
  obtain ⟨ht, hd⟩ := hne' l h
  rw [splitNewline, if_neg hne]
  split
  · rw [ht]
  · rename_i x r hd'; rw [hd] at hd'; cases hd'

/-- **Every stream of lines**: feeding `l₁ \n l₂ \n … lₙ \n` gives the tool exactly the records `l₁ … lₙ`,
    for lines of any length (none of them containing a line feed). -/
theorem split_lines : ∀ (lines : List Bytes), (∀ l ∈ lines, (0x0A : UInt8) ∉ l) →
    splitNewline (lines.flatMap (fun l => l ++ [0x0A])) = lines := by
  intro lines
  induction lines with
  | nil => intro _; exact split_nil
  | cons l t ih =>
    intro h
    have hl := h l (List.mem_cons_self)
    have ht : ∀ x ∈ t, (0x0A : UInt8) ∉ x := fun x hx => h x (List.mem_cons_of_mem _ hx)
    simp only [List.flatMap_cons, List.append_assoc, List.singleton_append]
    rw [split_cons l _ hl, ih ht]

example : cliRun [] = ([], .success) := by unfold cliRun; rw [split_nil]; rfl

end AisVerif.C20

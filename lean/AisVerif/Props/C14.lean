/-
  C14 — variable-length messages decode what is present; short payloads are rejected.

  `L = 8 * bs.length` is the number of bits present (unarmored buffers are whole bytes; padding is
  zero by C03).  Three groups of theorems, following the statement's clauses:
    1. element counts at every length;
    2. a payload shorter than the mandatory part of its type is an error;
    3. nothing is fabricated: whatever is reported is the bits at its specified position (that is
       what the `Reports` theorems of C04/C10-C13 state; here the list/optional-tail forms).
  The type-5 DTE clause is false of the crate for truncated payloads (finding D12):
  `t5_dte_partial` says what holds, `d12_counterexample` is the crate's own test vector.
-/
import AisVerif.Props.C04

namespace AisVerif.C14
open AisVerif Spec

/-! ### 1. Element counts -/

/-- Acknowledgement lists (types 7, 13): `min 4 ((L - 40) / 32)` entries, at least one. -/
theorem acks_count (cfg : Cfg) (bs : List UInt8) (m : Msg) (ht : field bs 0 6 = 7 ∨ field bs 0 6 = 13)
    (h : parseMessage cfg bs = ok m) :
    m.get .count = some (.nat (min 4 ((8 * bs.length - 40) / 32))) ∧ 1 ≤ min 4 ((8 * bs.length - 40) / 32) := by
  have hlen : 72 ≤ 8 * bs.length := by
    have h' := h
    rw [decode_of_len cfg bs (parse_ok_len h)] at h'
    rcases ht with ht | ht
    · rw [ht, dispatch_T07] at h'; exact (ite_eof_ok h').1
    · rw [ht, dispatch_T13] at h'; exact (ite_eof_ok h').1
  refine ⟨?_, by omega⟩
  rcases ht with ht | ht
  · exact (C04.t07 cfg bs m ht h).2.1
  · exact (C04.t13 cfg bs m ht h).2.1

/-- Data-link management (type 20): `min 4 ((L - 40) / 30)` reservations, at least one. -/
theorem reservations_count (cfg : Cfg) (bs : List UInt8) (m : Msg) (ht : field bs 0 6 = 20)
    (h : parseMessage cfg bs = ok m) :
    m.get .count = some (.nat (min 4 ((8 * bs.length - 40) / 30))) ∧ 1 ≤ min 4 ((8 * bs.length - 40) / 30) := by
  have hlen : 70 ≤ 8 * bs.length := by
    have h' := h
    rw [decode_of_len cfg bs (parse_ok_len h), ht, dispatch_T20] at h'; exact (ite_eof_ok h').1
  exact ⟨(C04.t20 cfg bs m ht h).2.1, by omega⟩

/-- Assignment command (type 16): the second station is reported iff its 52 bits are present. -/
theorem t16_second (cfg : Cfg) (bs : List UInt8) (m : Msg) (ht : field bs 0 6 = 16)
    (h : parseMessage cfg bs = ok m) :
    (144 ≤ 8 * bs.length → m.get .mmsi2 = some (.nat (field bs 92 30))) ∧
    (¬ 144 ≤ 8 * bs.length → m.get .mmsi2 = some .none ∧ m.get .offset2 = some .none ∧ m.get .increment2 = some .none) := by
  rw [decode_of_len cfg bs (parse_ok_len h), ht, dispatch_T16] at h
  have := (ite_eof_ok h).2; cases this
  constructor
  · intro hL; simp only [hL, decide_true]; rfl
  · intro hL; simp only [hL, decide_false]; exact ⟨rfl, rfl, rfl⟩

/-- Static data part A is accepted with (168 bits) or without (160 bits) its spare. -/
theorem t24A_lengths (cfg : Cfg) (bs : List UInt8) (ht : field bs 0 6 = 24) (hp : field bs 38 2 = 0)
    (hL : 160 ≤ 8 * bs.length) : parseMessage cfg bs = ok (Spec.decodeT24A bs) := by
  rw [decode_of_len cfg bs (by omega), ht, dispatch_T24]
  simp only [Spec.eof, hp, if_true]
  rw [if_pos (by omega), if_pos hL]

/-- Interrogation (type 15) in its three legal forms, as padded to whole bytes by unarmoring:
    88/90 bits (-> 96): one station; 108-112 bits (-> 120): one station, two requests possible;
    160 bits (-> 168): two stations. -/
theorem t15_stations (cfg : Cfg) (bs : List UInt8) (m : Msg) (ht : field bs 0 6 = 15)
    (h : parseMessage cfg bs = ok m) :
    (8 * bs.length < 138 → m.get .stations_count = some (.nat 1)) ∧
    (160 ≤ 8 * bs.length → m.get .stations_count = some (.nat 2)) := by
  rw [decode_of_len cfg bs (parse_ok_len h), ht, dispatch_T15] at h
  have h2 := (ite_eof_ok h).2
  have h76 := (ite_eof_ok h).1
  have hpos := station_pos bs 40 (by omega)
  constructor
  · intro hL
    unfold Spec.decodeT15 at h2
    have : ¬ (8 * bs.length - (Spec.station bs 40).2 ≥ 30) := by
      unfold Spec.station Spec.interMsg
      simp only []
      repeat' split
      all_goals (simp only []; omega)
    rw [if_neg this] at h2
    cases h2; rfl
  · intro hL
    unfold Spec.decodeT15 at h2
    rw [C04.station40_end bs hL] at h2
    have a1 : 8 * bs.length - 108 ≥ 30 := by omega
    have a2 : 108 + 38 ≤ 8 * bs.length := by omega
    simp only [a1, a2, if_true] at h2
    cases h2; rfl

/-- Safety texts: `(L - 72) / 6` (type 12) / `(L - 40) / 6` (type 14) characters, at least one. -/
theorem text_chars (cfg : Cfg) (bs : List UInt8) (m : Msg) :
    (field bs 0 6 = 12 → parseMessage cfg bs = ok m → 1 ≤ (8 * bs.length - 72) / 6) ∧
    (field bs 0 6 = 14 → parseMessage cfg bs = ok m → 1 ≤ (8 * bs.length - 40) / 6) := by
  constructor
  · intro ht h
    rw [decode_of_len cfg bs (parse_ok_len h), ht, dispatch_T12] at h
    have := (ite_eof_ok h).1; omega
  · intro ht h
    rw [decode_of_len cfg bs (parse_ok_len h), ht, dispatch_T14] at h
    have := (ite_eof_ok h).1; omega

/-! ### Type 5: truncated destination, DTE -/

/-- The destination has `min 20 ((L - 302) / 6)` characters — every complete character present. -/
theorem t5_destination (bs : List UInt8) : Spec.t5DestChars bs = min 20 ((8 * bs.length - 302) / 6) := by
  unfold Spec.t5DestChars; omega

/-- What holds of the crate's DTE: for a payload that contains bit 422 it is that bit; for a
    truncated payload that ends on a character boundary it is the default 'not ready'. -/
theorem t5_dte_partial (cfg : Cfg) (bs : List UInt8) (m : Msg) (ht : field bs 0 6 = 5)
    (h : parseMessage cfg bs = ok m) :
    (423 ≤ 8 * bs.length → m.get .dte = some (Spec.dte (field bs 422 1))) ∧
    (8 * bs.length < 423 → (8 * bs.length - 302) % 6 = 0 → m.get .dte = some (.sym "NotReady")) := by
  rw [decode_of_len cfg bs (parse_ok_len h), ht, dispatch_T05] at h
  have h302 := (ite_eof_ok h).1
  have := (ite_eof_ok h).2; cases this
  constructor
  · intro hL
    have hk : Spec.t5DestChars bs = 20 := by unfold Spec.t5DestChars; omega
    unfold Spec.decodeT05
    simp only [hk]
    have : 302 + 6 * 20 < 8 * bs.length := by omega
    simp only [this, if_true]
    rfl
  · intro hL hmod
    unfold Spec.decodeT05
    have : ¬ (302 + 6 * Spec.t5DestChars bs < 8 * bs.length) := by unfold Spec.t5DestChars; omega
    simp only [this, if_false]
    rfl

/-- **Finding D12** — the statement's "a missing DTE defaults to 'not ready'" is false of the crate:
    its own truncated test vector (360 bits, so bit 422 is missing) reports `Ready`, read from bit
    356, the first leftover bit after the ninth destination character. -/
def d12Vector : List UInt8 :=
  [20, 49, 1, 148, 154, 0, 0, 0, 0, 245, 53, 211, 109, 192, 61, 53, 9, 4, 0, 0, 0, 0, 0, 0, 0, 0, 0, 0, 0, 79,
   49, 3, 4, 31, 210, 234, 0, 1, 35, 212, 80, 84, 132, 4, 208]

theorem d12_counterexample :
    8 * d12Vector.length < 423 ∧ (Spec.decodeT05 d12Vector).get .dte = some (.sym "Ready") := by
  constructor
  · decide
  · rfl

/-! ### 2. Too short ⇒ error -/

/-- The mandatory part of each type, in bits (as decoded by the crate; see DESIGN.md). -/
def mandatory (t : Nat) : Nat :=
  if 1 ≤ t ∧ t ≤ 4 then 168 else if t = 5 then 302 else if t = 6 then 88 else if t = 7 then 72
  else if t = 8 then 56 else if t = 9 then 167 else if t = 10 then 72 else if t = 11 then 168 else if t = 12 then 78
  else if t = 13 then 72 else if t = 14 then 46 else if t = 15 then 76 else if t = 16 then 92 else if t = 17 then 120
  else if t = 18 then 168 else if t = 19 then 312 else if t = 20 then 70 else if t = 21 then 272
  else if t = 24 then 40 else if t = 27 then 95 else 0

theorem specRadioTail_short {mk : List (Key × Val) → Msg} {bs : List UInt8} {s t : Nat}
    (h : 8 * bs.length < t) (hst : s ≤ t) : ∃ e, Spec.specRadioTail mk bs s t = err e := by
  unfold Spec.specRadioTail
  by_cases hs : s ≤ 8 * bs.length
  · rw [if_pos hs]
    cases Spec.radioOf (field bs 0 6) (field bs s 19) with
    | none => exact ⟨_, rfl⟩
    | some r => simp only []; rw [if_neg (by omega)]; exact ⟨_, rfl⟩
  · rw [if_neg hs]; exact ⟨_, rfl⟩

theorem ite_short {c : Prop} [Decidable c] {r : Res Msg} (h : ¬ c) : ∃ e, (if c then r else Spec.eof) = err e := by
  rw [if_neg h]; exact ⟨_, rfl⟩

/-- A payload too short to contain the mandatory part of its type is rejected with an error. -/
theorem too_short_err (cfg : Cfg) (bs : List UInt8) (h : 8 * bs.length < mandatory (field bs 0 6)) :
    ∃ e, parseMessage cfg bs = err e := by
  by_cases h6 : 6 ≤ 8 * bs.length
  · rw [decode_of_len cfg bs h6]
    generalize field bs 0 6 = t at h
    unfold mandatory at h
    unfold Spec.dispatch
    simp only []
    by_cases c0 : 1 ≤ t ∧ t ≤ 3
    · rw [if_pos c0]
      have : 1 ≤ t ∧ t ≤ 4 := by omega
      rw [if_pos this] at h
      exact specRadioTail_short h (by decide)
    rw [if_neg c0]
    by_cases c4 : t = 4
    · subst c4; simp (decide := true) only [if_true] at h ⊢
      exact specRadioTail_short h (by decide)
    have c14 : ¬ (1 ≤ t ∧ t ≤ 4) := by omega
    rw [if_neg c14] at h
    rw [if_neg c4]
    by_cases c : t = 5
    · subst c; simp (decide := true) only [if_true, if_false] at h ⊢; exact ite_short (by omega)
    rw [if_neg c] at h ⊢
    by_cases c7 : t = 7
    · subst c7; simp (decide := true) only [if_true, if_false] at h ⊢; exact ite_short (by omega)
    rw [if_neg c7]
    by_cases c6 : t = 6
    · subst c6; simp (decide := true) only [if_true, if_false] at h ⊢; exact ite_short (by omega)
    rw [if_neg c6] at h ⊢
    rw [if_neg c7] at h
    by_cases c8 : t = 8
    · subst c8; simp (decide := true) only [if_true, if_false] at h ⊢; exact ite_short (by omega)
    rw [if_neg c8] at h ⊢
    by_cases c9 : t = 9
    · subst c9; simp (decide := true) only [if_true, if_false] at h ⊢
      exact specRadioTail_short h (by decide)
    rw [if_neg c9] at h ⊢
    by_cases c10 : t = 10
    · subst c10; simp (decide := true) only [if_true, if_false] at h ⊢; exact ite_short (by omega)
    rw [if_neg c10] at h ⊢
    by_cases c11 : t = 11
    · subst c11; simp (decide := true) only [if_true, if_false] at h ⊢
      exact specRadioTail_short h (by decide)
    rw [if_neg c11] at h ⊢
    by_cases c12 : t = 12
    · subst c12; simp (decide := true) only [if_true, if_false] at h ⊢; exact ite_short (by omega)
    rw [if_neg c12] at h ⊢
    by_cases c13 : t = 13
    · subst c13; simp (decide := true) only [if_true, if_false] at h ⊢; exact ite_short (by omega)
    rw [if_neg c13] at h ⊢
    by_cases c14' : t = 14
    · subst c14'; simp (decide := true) only [if_true, if_false] at h ⊢; exact ite_short (by omega)
    rw [if_neg c14'] at h ⊢
    by_cases c15 : t = 15
    · subst c15; simp (decide := true) only [if_true, if_false] at h ⊢; exact ite_short (by omega)
    rw [if_neg c15] at h ⊢
    by_cases c16 : t = 16
    · subst c16; simp (decide := true) only [if_true, if_false] at h ⊢; exact ite_short (by omega)
    rw [if_neg c16] at h ⊢
    by_cases c17 : t = 17
    · subst c17; simp (decide := true) only [if_true, if_false] at h ⊢; exact ite_short (by omega)
    rw [if_neg c17] at h ⊢
    by_cases c18 : t = 18
    · subst c18; simp (decide := true) only [if_true, if_false] at h ⊢; exact ite_short (by omega)
    rw [if_neg c18] at h ⊢
    by_cases c19 : t = 19
    · subst c19; simp (decide := true) only [if_true, if_false] at h ⊢; exact ite_short (by omega)
    rw [if_neg c19] at h ⊢
    by_cases c20 : t = 20
    · subst c20; simp (decide := true) only [if_true, if_false] at h ⊢; exact ite_short (by omega)
    rw [if_neg c20] at h ⊢
    by_cases c21 : t = 21
    · subst c21; simp (decide := true) only [if_true, if_false] at h ⊢; exact ite_short (by omega)
    rw [if_neg c21] at h ⊢
    by_cases c24 : t = 24
    · subst c24; simp (decide := true) only [if_true, if_false] at h ⊢; exact ite_short (by omega)
    rw [if_neg c24] at h ⊢
    by_cases c27 : t = 27
    · subst c27; simp (decide := true) only [if_true, if_false] at h ⊢; exact ite_short (by omega)
    rw [if_neg c27] at h ⊢
    exact ⟨_, rfl⟩
  · rw [parseMessage_eq]; unfold Spec.decode; rw [if_neg h6]; exact ⟨_, rfl⟩

/-- Static data part B needs all 168 bits; part A needs 160. -/
theorem t24_short (cfg : Cfg) (bs : List UInt8) (ht : field bs 0 6 = 24) (h40 : 40 ≤ 8 * bs.length) :
    (field bs 38 2 = 0 → 8 * bs.length < 160 → ∃ e, parseMessage cfg bs = err e) ∧
    (field bs 38 2 = 1 → 8 * bs.length < 168 → ∃ e, parseMessage cfg bs = err e) := by
  rw [decode_of_len cfg bs (by omega), ht, dispatch_T24]
  rw [if_pos h40]
  constructor
  · intro hp hL; rw [if_pos hp]; exact ite_short (by omega)
  · intro hp hL; rw [if_neg (by omega), if_pos hp]; exact ite_short (by omega)

/-! ### 3. Nothing is fabricated from bits beyond the end -/

/-- A decoded message implies the mandatory part of its type was present … -/
theorem ok_implies_mandatory (cfg : Cfg) (bs : List UInt8) (m : Msg) (h : parseMessage cfg bs = ok m) :
    mandatory (field bs 0 6) ≤ 8 * bs.length := by
  by_cases hlt : 8 * bs.length < mandatory (field bs 0 6)
  · obtain ⟨e, he⟩ := too_short_err cfg bs hlt
    rw [he] at h; cases h
  · omega

/-- … and every row of the type's layout tables lies inside that mandatory part: each reported
    integer, flag, scaled or optional field is read from bits that exist. (Rows of the optional
    second halves — type 16's second station, the list elements of types 7/13/20 — are covered by
    the count theorems above: an element is reported only when all its bits are present.) -/
theorem rows_within_mandatory :
    (∀ e ∈ Layout.t01, e.off + e.w ≤ mandatory 1) ∧ (∀ e ∈ Layout.t04, e.off + e.w ≤ mandatory 4) ∧
    (∀ e ∈ Layout.t05, e.off + e.w ≤ mandatory 5) ∧ (∀ e ∈ Layout.t06, e.off + e.w ≤ mandatory 6) ∧
    (∀ e ∈ Layout.t08, e.off + e.w ≤ mandatory 8) ∧ (∀ e ∈ Layout.t09, e.off + e.w ≤ mandatory 9) ∧
    (∀ e ∈ Layout.t10, e.off + e.w ≤ mandatory 10) ∧ (∀ e ∈ Layout.t12, e.off + e.w ≤ mandatory 12) ∧
    (∀ e ∈ Layout.t16one, e.off + e.w ≤ mandatory 16) ∧ (∀ e ∈ Layout.t17, e.off + e.w ≤ mandatory 17) ∧
    (∀ e ∈ Layout.t18, e.off + e.w ≤ mandatory 18) ∧ (∀ e ∈ Layout.t19, e.off + e.w ≤ mandatory 19) ∧
    (∀ e ∈ Layout.t21, e.off + e.w ≤ mandatory 21) ∧ (∀ e ∈ Layout.t27, e.off + e.w ≤ mandatory 27) ∧
    (∀ e ∈ Scaled.t01, e.off + e.w ≤ mandatory 1) ∧ (∀ e ∈ Scaled.t04, e.off + e.w ≤ mandatory 4) ∧
    (∀ e ∈ Scaled.t05, e.off + e.w ≤ mandatory 5) ∧ (∀ e ∈ Scaled.t09, e.off + e.w ≤ mandatory 9) ∧
    (∀ e ∈ Scaled.t17, e.off + e.w ≤ mandatory 17) ∧ (∀ e ∈ Scaled.t18, e.off + e.w ≤ mandatory 18) ∧
    (∀ e ∈ Scaled.t21, e.off + e.w ≤ mandatory 21) ∧ (∀ e ∈ Scaled.t27, e.off + e.w ≤ mandatory 27) ∧
    (∀ e ∈ Opt.t01, e.off + e.w ≤ mandatory 1) ∧ (∀ e ∈ Opt.t04, e.off + e.w ≤ mandatory 4) ∧
    (∀ e ∈ Opt.t05, e.off + e.w ≤ mandatory 5) ∧ (∀ e ∈ Opt.t09, e.off + e.w ≤ mandatory 9) ∧
    (∀ e ∈ Opt.t18, e.off + e.w ≤ mandatory 18) := by
  decide

/-- Type 24: part A's rows lie within 160 bits, part B's within 168. -/
theorem rows_within_t24 :
    (∀ e ∈ Layout.t24A, e.off + e.w ≤ 160) ∧ (∀ e ∈ Layout.t24B, e.off + e.w ≤ 168) := by decide

/-- List elements: element `i` of an acknowledgement list / reservation list is reported only if
    its last bit is present. -/
theorem list_elements_present (bs : List UInt8) (i : Nat) :
    (i < min 4 ((8 * bs.length - 40) / 32) → ∀ e ∈ Layout.ack i, e.off + e.w ≤ 8 * bs.length) ∧
    (i < min 4 ((8 * bs.length - 40) / 30) → ∀ e ∈ Layout.reservation i, e.off + e.w ≤ 8 * bs.length) := by
  constructor
  · intro hi e he
    simp only [Layout.ack, List.mem_cons, List.not_mem_nil, or_false] at he
    rcases he with rfl | rfl <;> simp only [] <;> omega
  · intro hi e he
    simp only [Layout.reservation, List.mem_cons, List.not_mem_nil, or_false] at he
    rcases he with rfl | rfl | rfl | rfl <;> simp only [] <;> omega

end AisVerif.C14
